(* C13 -- locality of the cross-based cost aggregation.

   Part 1 (SPEC, Spec/Cbca.v): the aggregated cost of a pixel at a disparity depends on the filtered images only
   through the (2A+1) x (2A+1) square around the pixel (left image) and around column c + shift (right image), and
   on the costs of that square, A = max(cbca_distance - 1, 1) being the longest possible arm: an arm reads at most
   the A pixels next to its pixel, the vertical arm of the pixel has at most A pixels on each side, and so has the
   horizontal arm of each of them.  Being inside the image is part of what must agree ([px]): no hypothesis that
   the square is inside the images.

   Part 2 (MODEL, Model/Cbca.v through C11's model = spec): the cost volume aggregated by the model, at a pixel
   whose cone is inside the image, depends on the two images (3x3 median pre-filter: one pixel more), the masks
   and the input costs of the cone only. *)
From Coq Require Import ZArith QArith Qround List Bool Lia.
From Pandora Require Import Model.Cbca Spec.Cbca Proofs.CbcaP.
Import ListNotations.
Open Scope Z_scope.

(* ------------------------------------------------------------------ lists *)

Lemma map_span_ext : forall {B} (f g : Z -> B) n a a',
  (forall i, 0 <= i < Z.of_nat n -> f (a + i) = g (a' + i)) -> map f (span a n) = map g (span a' n).
Proof.
  induction n; intros a a' H; cbn [span map]; [reflexivity|].
  pose proof (H 0 ltac:(lia)) as H0. rewrite !Z.add_0_r in H0. rewrite H0. f_equal.
  apply IHn. intros i Hi. replace (a + 1 + i) with (a + (i + 1)) by lia.
  replace (a' + 1 + i) with (a' + (i + 1)) by lia. apply H. lia.
Qed.

Lemma flat_map_span_ext : forall {B} (f g : Z -> list B) n a a',
  (forall i, 0 <= i < Z.of_nat n -> f (a + i) = g (a' + i)) -> flat_map f (span a n) = flat_map g (span a' n).
Proof.
  induction n; intros a a' H; cbn [span flat_map]; [reflexivity|].
  pose proof (H 0 ltac:(lia)) as H0. rewrite !Z.add_0_r in H0. rewrite H0. f_equal.
  apply IHn. intros i Hi. replace (a + 1 + i) with (a + (i + 1)) by lia.
  replace (a' + 1 + i) with (a' + (i + 1)) by lia. apply H. lia.
Qed.

Lemma map_flat_map_comm : forall {X Y W} (g : Y -> W) (h : X -> list Y) l,
  map g (flat_map h l) = flat_map (fun x => map g (h x)) l.
Proof. induction l; cbn [flat_map map]; [reflexivity|]. rewrite map_app, IHl. reflexivity. Qed.

(* ------------------------------------------------------------------ arms *)

(* the longest possible arm *)
Definition arm_max (dist : Z) : Z := Z.max (dist - 1) 1.

Lemma ray_arm_le : forall get dist inten v, 0 <= ray_arm get dist inten v <= arm_max dist.
Proof.
  intros. unfold ray_arm, arm_max.
  pose proof (take_while_span (takes get inten v) (Z.to_nat (dist - 1)) 1) as T. cbv zeta in T.
  destruct T as (T1 & _ & _).
  set (k := length (take_while (takes get inten v) (span 1 (Z.to_nat (dist - 1))))) in *.
  destruct (0 <? Z.of_nat k) eqn:E; [lia|]. destruct (get 1); lia.
Qed.

(* an arm reads the arm_max pixels next to its pixel along the ray, nothing further *)
Lemma ray_arm_ext_upto : forall get get' dist inten v,
  (forall j, 1 <= j <= arm_max dist -> get j = get' j) -> ray_arm get dist inten v = ray_arm get' dist inten v.
Proof.
  intros get get' dist inten v H. unfold ray_arm, arm_max in *.
  rewrite (take_while_ext_in _ (takes get inten v) (takes get' inten v)).
  2:{ intros x Hx. apply in_span in Hx. unfold takes. rewrite H by lia. reflexivity. }
  rewrite (H 1) by lia. reflexivity.
Qed.

Lemma spec_arm_le : forall I dist inten d r c, 0 <= spec_arm I dist inten d r c <= arm_max dist.
Proof.
  intros. unfold spec_arm. destruct (px I r c); [apply ray_arm_le|]. unfold arm_max. lia.
Qed.

Lemma spec_arm_local : forall I I' dist inten d r c r' c',
  px I r c = px I' r' c' ->
  (forall j, 1 <= j <= arm_max dist ->
     px I (r + j * drow d) (c + j * dcol d) = px I' (r' + j * drow d) (c' + j * dcol d)) ->
  spec_arm I dist inten d r c = spec_arm I' dist inten d r' c'.
Proof.
  intros I I' dist inten d r c r' c' H0 H. unfold spec_arm. rewrite H0.
  destruct (px I' r' c'); [|reflexivity]. apply ray_arm_ext_upto. intros j Hj. unfold ray. apply H. exact Hj.
Qed.

(* ------------------------------------------------------------------ the support region and the aggregate *)

Section AggLocal.
  Variables (IL IR IL' IR' : fimg) (dist : Z) (inten : Q) (shift : Z).
  Variables (cost cost' : Z -> Z -> option Q) (r c r' c' : Z).
  Let A := arm_max dist.
  (* the squares of the two left images, of the two right images (around column c + shift), of the two cost planes *)
  Hypothesis HL : forall a b, - A <= a <= A -> - A <= b <= A -> px IL (r + a) (c + b) = px IL' (r' + a) (c' + b).
  Hypothesis HR : forall a b, - A <= a <= A -> - A <= b <= A ->
    px IR (r + a) (c + shift + b) = px IR' (r' + a) (c' + shift + b).
  Hypothesis HC : forall a b, - A <= a <= A -> - A <= b <= A -> cost (r + a) (c + b) = cost' (r' + a) (c' + b).

  Let aL := spec_arm IL dist inten.   Let aR := spec_arm IR dist inten.
  Let aL' := spec_arm IL' dist inten. Let aR' := spec_arm IR' dist inten.

  Lemma A_pos : 1 <= A.
  Proof. unfold A, arm_max. lia. Qed.

  Lemma carm_bounds : forall d ρ γ, 0 <= carm aL aR shift d ρ γ <= A.
  Proof.
    intros. unfold carm, aL, aR. pose proof (spec_arm_le IL dist inten d ρ γ) as X.
    pose proof (spec_arm_le IR dist inten d ρ (γ + shift)) as Y. fold A in X, Y. lia.
  Qed.

  (* the horizontal arms of a pixel of the column, at most A rows away *)
  Lemma carm_h_local : forall d a, dcol d <> 0 -> - A <= a <= A ->
    carm aL aR shift d (r + a) c = carm aL' aR' shift d (r' + a) c'.
  Proof.
    intros d a Hd Ha. pose proof A_pos as HA. unfold carm, aL, aR, aL', aR'. f_equal.
    - apply spec_arm_local.
      + pose proof (HL a 0 Ha ltac:(lia)) as X. rewrite !Z.add_0_r in X. exact X.
      + intros j Hj. fold A in Hj. assert (Hr : drow d = 0) by (destruct d; cbn in *; congruence).
        rewrite Hr, !Z.mul_0_r, !Z.add_0_r. apply HL; [exact Ha|]. destruct d; cbn in *; try congruence; lia.
    - apply spec_arm_local.
      + pose proof (HR a 0 Ha ltac:(lia)) as X. rewrite !Z.add_0_r in X. exact X.
      + intros j Hj. fold A in Hj. assert (Hr : drow d = 0) by (destruct d; cbn in *; congruence).
        rewrite Hr, !Z.mul_0_r, !Z.add_0_r.
        replace (c + shift + j * dcol d) with (c + shift + (j * dcol d)) by lia.
        replace (c' + shift + j * dcol d) with (c' + shift + (j * dcol d)) by lia.
        apply HR; [exact Ha|]. destruct d; cbn in *; try congruence; lia.
  Qed.

  (* the vertical arms of the pixel itself *)
  Lemma carm_v_local : forall d, drow d <> 0 -> carm aL aR shift d r c = carm aL' aR' shift d r' c'.
  Proof.
    intros d Hd. pose proof A_pos as HA. unfold carm, aL, aR, aL', aR'.
    assert (Hc : dcol d = 0) by (destruct d; cbn in *; congruence).
    f_equal.
    - apply spec_arm_local.
      + pose proof (HL 0 0 ltac:(lia) ltac:(lia)) as X. rewrite !Z.add_0_r in X. exact X.
      + intros j Hj. fold A in Hj. rewrite Hc, !Z.mul_0_r, !Z.add_0_r.
        pose proof (HL (j * drow d) 0) as X. rewrite !Z.add_0_r in X. apply X; [|lia].
        destruct d; cbn in *; try congruence; lia.
    - apply spec_arm_local.
      + pose proof (HR 0 0 ltac:(lia) ltac:(lia)) as X. rewrite !Z.add_0_r in X. exact X.
      + intros j Hj. fold A in Hj. rewrite Hc, !Z.mul_0_r, !Z.add_0_r.
        pose proof (HR (j * drow d) 0) as X. rewrite !Z.add_0_r in X. apply X; [|lia].
        destruct d; cbn in *; try congruence; lia.
  Qed.

  (* the costs met along the region, in the order of the region *)
  Lemma region_costs_local :
    map (fun p => cost_or_0 (cost (fst p) (snd p))) (region aL aR shift r c)
    = map (fun p => cost_or_0 (cost' (fst p) (snd p))) (region aL' aR' shift r' c').
  Proof.
    pose proof A_pos as HA. unfold region.
    rewrite <- (carm_v_local DUp) by (cbn; lia). rewrite <- (carm_v_local DDown) by (cbn; lia).
    pose proof (carm_bounds DUp r c) as BU. pose proof (carm_bounds DDown r c) as BD.
    set (up := carm aL aR shift DUp r c) in *. set (dn := carm aL aR shift DDown r c) in *.
    rewrite !map_flat_map_comm. apply flat_map_span_ext. intros i Hi.
    rewrite Z2Nat.id in Hi by lia.
    replace (r - up + i) with (r + (i - up)) by lia. replace (r' - up + i) with (r' + (i - up)) by lia.
    assert (Ha : - A <= i - up <= A) by lia.
    unfold hspan. rewrite !map_map. cbn [fst snd].
    rewrite <- (carm_h_local DLeft (i - up)) by (cbn; lia || exact Ha).
    rewrite <- (carm_h_local DRight (i - up)) by (cbn; lia || exact Ha).
    pose proof (carm_bounds DLeft (r + (i - up)) c) as BL. pose proof (carm_bounds DRight (r + (i - up)) c) as BR.
    set (lf := carm aL aR shift DLeft (r + (i - up)) c) in *. set (rt := carm aL aR shift DRight (r + (i - up)) c) in *.
    apply map_span_ext. intros j Hj. rewrite Z2Nat.id in Hj by lia.
    replace (c - lf + j) with (c + (j - lf)) by lia. replace (c' - lf + j) with (c' + (j - lf)) by lia.
    rewrite HC by lia. reflexivity.
  Qed.

  Lemma region_length_local : length (region aL aR shift r c) = length (region aL' aR' shift r' c').
  Proof.
    rewrite <- (map_length (fun p => cost_or_0 (cost (fst p) (snd p)))), region_costs_local, map_length. reflexivity.
  Qed.

  Theorem agg_spec_local :
    agg_spec IL IR dist inten shift cost r c = agg_spec IL' IR' dist inten shift cost' r' c'.
  Proof.
    pose proof A_pos as HA. unfold agg_spec.
    pose proof (HC 0 0 ltac:(lia) ltac:(lia)) as C0. rewrite !Z.add_0_r in C0. rewrite C0.
    destruct (cost' r' c'); [|reflexivity].
    unfold region_mean. fold aL aR aL' aR'. rewrite region_costs_local, region_length_local. reflexivity.
  Qed.
End AggLocal.

(* ================================================================== Part 2: the model *)

(* ------------------------------------------------------------------ C11's model = spec at a pixel whose
   correspondent column is inside the right image (there the guard "NaN where the correspondent is outside" of
   C11_model_eq_spec is not needed: it is only used at the pixel itself) *)

Section PlaneValid.
  Variables (nr nc ncR : Z) (crossL crossR : Z -> Z -> arms) (d : Q) (cv : Z -> Z -> option Q).
  Variables (armL armR : dir -> Z -> Z -> Z).
  Hypothesis Hnr : 1 <= nr.
  Hypothesis Hnc : 1 <= nc.
  Hypothesis HL : forall r c, 0 <= r < nr -> 0 <= c < nc ->
    crossL r c = mkArms (armL DLeft r c) (armL DRight r c) (armL DUp r c) (armL DDown r c).
  Hypothesis HR : forall r c, 0 <= r < nr -> 0 <= c < ncR ->
    crossR r c = mkArms (armR DLeft r c) (armR DRight r c) (armR DUp r c) (armR DDown r c).
  Hypothesis BL : forall r c, 0 <= r < nr -> 0 <= c < nc ->
    0 <= armL DLeft r c <= c /\ 0 <= armL DRight r c <= nc - 1 - c /\
    0 <= armL DUp r c <= r /\ 0 <= armL DDown r c <= nr - 1 - r.
  Hypothesis BR : forall dd r c, 0 <= r < nr -> 0 <= c < ncR -> 0 <= armR dd r c.

  Lemma plane_out_spec_valid : forall r c, 0 <= r < nr -> 0 <= c < nc -> valid_col ncR d c = true ->
    lookup None (plane_out nr nc ncR crossL crossR d cv) r c
    = match cv r c with
      | None => None
      | Some _ => Some (Qred (region_mean armL armR (Qfloor d) cv r c))
      end.
  Proof.
    intros r c Hr Hc Hv. unfold plane_out. cbv zeta.
    set (s1 := lookup 0%Q (tabulate nr (nc + 1) (step1 nc cv))).
    set (s2 := lookup 0%Q (tabulate nr nc (step2 nc ncR crossL crossR d s1))).
    set (sm2 := lookup 0 (tabulate nr nc (sum2 ncR crossL crossR d))).
    set (s3 := lookup 0%Q (tabulate (nr + 1) nc (step3 nr s2))).
    rewrite lookup_tabulate by lia.
    destruct (cv r c) eqn:Ecv; [|reflexivity].
    cbn [nan_mask oq_add oq_div]. f_equal. apply Qred_complete.
    unfold region_mean.
    rewrite (sum4_is_region_size nr nc ncR crossL crossR d armL armR HL HR BL BR sm2)
      by (auto; intros; unfold sm2; apply lookup_tabulate; lia).
    rewrite qadd_ok.
    rewrite (step4_is_region_sum nr nc ncR crossL crossR d cv armL armR Hnr Hnc HL HR BL BR s1 s2 s3); auto.
    - unfold Qdiv. ring.
    - intros; unfold s1; apply lookup_tabulate; lia.
    - intros; unfold s2; apply lookup_tabulate; lia.
    - intros; unfold s3; apply lookup_tabulate; lia.
  Qed.
End PlaneValid.

Section ModelValid.
  Variable x : cbca_in.
  Hypothesis Hdist : 1 <= i_dist x.
  Hypothesis Hsub : 1 <= i_subpix x.
  Hypothesis Hoff : 0 <= i_off x.
  Hypothesis Hcnr : 1 <= cnr x.
  Hypothesis Hcnc : 1 <= cnc x.

  Theorem cbca_model_eq_spec_valid : forall k r c,
    0 <= k < n_disp x -> in_crop x r c = true ->
    let d := nth_disp x k in
    let s := plane_image (i_subpix x) d in
    0 <= (c - i_off x) + plane_shift d < cncR x s ->
    out_at x k r c
    = agg_spec (spec_left x) (spec_right x s) (i_dist x) (i_inten x) (plane_shift d)
               (crop (i_off x) (i_cv x k)) (r - i_off x) (c - i_off x).
  Proof.
    intros k r c Hk Hin d s Hv.
    assert (R : 0 <= r - i_off x < cnr x /\ 0 <= c - i_off x < cnc x /\ 0 <= r < i_nr x /\ 0 <= c < i_nc x)
      by (unfold in_crop, cnr, cnc in *; lia).
    destruct R as (R1 & R2 & R3 & R4).
    rewrite volume_at by auto. rewrite Hin. fold d. change (i_right (i_subpix x) d) with s.
    unfold agg_spec, plane_shift in *.
    apply plane_out_spec_valid; auto.
    - apply cross_left_ok; assumption.
    - apply cross_right_ok; assumption.
    - intros. apply (spec_arm_in_image (spec_left x)); simpl; auto.
    - intros. apply (spec_arm_inside (spec_right x s)).
    - apply valid_col_iff. exact Hv.
  Qed.
End ModelValid.

(* ------------------------------------------------------------------ the 3x3 median pre-filter and the masks *)

Definition omask_agree (m m' : option (Z -> Z -> Z)) (r c r' c' : Z) : Prop :=
  match m, m' with
  | None, None => True
  | Some a, Some b => a r c = b r' c'
  | _, _ => False
  end.

Lemma apply_mask_local : forall im im' m m' valid r c r' c',
  im r c = im' r' c' -> omask_agree m m' r c r' c' ->
  apply_mask im m valid r c = apply_mask im' m' valid r' c'.
Proof.
  intros im im' [a|] [b|] valid r c r' c' Hi Hm; cbn in *; try tauto. rewrite Hm, Hi. reflexivity.
Qed.

Lemma apply_shift_mask_local : forall im im' m m' valid r c r' c',
  im r c = im' r' c' -> omask_agree m m' r c r' c' -> omask_agree m m' r (c + 1) r' (c' + 1) ->
  apply_shift_mask im m valid r c = apply_shift_mask im' m' valid r' c'.
Proof.
  intros im im' [a|] [b|] valid r c r' c' Hi Hm Hm1; cbn in *; try tauto. rewrite Hm, Hm1, Hi. reflexivity.
Qed.

Lemma median3_local : forall nr nc nr' nc' (I I' : img) r c r' c',
  1 <= r < nr - 1 -> 1 <= c < nc - 1 -> 1 <= r' < nr' - 1 -> 1 <= c' < nc' - 1 ->
  (forall a b, -1 <= a <= 1 -> -1 <= b <= 1 -> I (r + a) (c + b) = I' (r' + a) (c' + b)) ->
  median3 nr nc I r c = median3 nr' nc' I' r' c'.
Proof.
  intros nr nc nr' nc' I I' r c r' c' Hr Hc Hr' Hc' H. unfold median3.
  replace ((1 <=? r) && (r <? nr - 1) && (1 <=? c) && (c <? nc - 1)) with true by lia.
  replace ((1 <=? r') && (r' <? nr' - 1) && (1 <=? c') && (c' <? nc' - 1)) with true by lia.
  pose proof (H 0 0 ltac:(lia) ltac:(lia)) as H0. rewrite !Z.add_0_r in H0. rewrite H0.
  destruct (I' r' c'); [|reflexivity].
  unfold window3. cbn [flat_map map app]. rewrite !H by lia. reflexivity.
Qed.

(* ------------------------------------------------------------------ the aggregated volume of the model *)

Section CbcaModelLocal.
  Variables (x y : cbca_in) (k k' r c r' c' : Z).
  Hypothesis Hpar : i_off y = i_off x /\ i_subpix y = i_subpix x /\ i_dist y = i_dist x /\ i_inten y = i_inten x
                    /\ i_validL y = i_validL x /\ i_validR y = i_validR x.
  Hypothesis Hdist : 1 <= i_dist x.
  Hypothesis Hsub : 1 <= i_subpix x.
  Hypothesis Hoff : 0 <= i_off x.
  Hypothesis Hk : 0 <= k < n_disp x.
  Hypothesis Hk' : 0 <= k' < n_disp y.
  Hypothesis Hd : nth_disp y k' = nth_disp x k.       (* same disparity (the planes may be numbered differently) *)
  Let A := arm_max (i_dist x).
  Let off := i_off x.
  Let d := nth_disp x k.
  Let sh := plane_shift d.
  Let s := plane_image (i_subpix x) d.
  Let e := if s =? 0 then 0 else 1.       (* a shifted right image is made of columns j and j + 1 *)
  Let g := A + Z.max 1 off.               (* arms, then the 3x3 median or the window offset *)

  (* the cone of the pixel is inside both images *)
  Hypothesis Hin : g <= r /\ r + g < i_nr x /\ g <= c /\ c + g < i_nc x /\ g <= c + sh /\ c + sh + e + g < i_nc x.
  Hypothesis Hin' : g <= r' /\ r' + g < i_nr y /\ g <= c' /\ c' + g < i_nc y /\ g <= c' + sh /\ c' + sh + e + g < i_nc y.
  (* left image and mask: the square of radius A + 1 *)
  Hypothesis HimL : forall a b, - (A + 1) <= a <= A + 1 -> - (A + 1) <= b <= A + 1 ->
    i_imL x (r + a) (c + b) = i_imL y (r' + a) (c' + b)
    /\ omask_agree (i_mskL x) (i_mskL y) (r + a) (c + b) (r' + a) (c' + b).
  (* right image s and right mask around column c + floor d *)
  Hypothesis HimR : forall a b, - (A + 1) <= a <= A + 1 -> - (A + 1) <= b <= A + 1 ->
    i_imR x s (r + a) (c + sh + b) = i_imR y s (r' + a) (c' + sh + b).
  Hypothesis HmR : forall a b, - (A + 1) <= a <= A + 1 -> - (A + 1) <= b <= A + 1 + e ->
    omask_agree (i_mskR x) (i_mskR y) (r + a) (c + sh + b) (r' + a) (c' + sh + b).
  (* input costs of the plane: the square of radius A *)
  Hypothesis Hcv : forall a b, - A <= a <= A -> - A <= b <= A ->
    i_cv x k (r + a) (c + b) = i_cv y k' (r' + a) (c' + b).

  Lemma g_facts : 1 <= A /\ A + 1 <= g /\ A + off <= g.
  Proof. unfold g, A, arm_max. lia. Qed.

  Lemma px_left_local : forall a b, - A <= a <= A -> - A <= b <= A ->
    px (spec_left x) (r - off + a) (c - off + b) = px (spec_left y) (r' - off + a) (c' - off + b).
  Proof.
    intros a b Ha Hb. destruct g_facts as (G1 & G2 & G3). destruct Hpar as (Eo & _ & _ & _ & EvL & _).
    unfold px, inside, spec_left, cnr, cnc. cbn [Spec.Cbca.f_nr Spec.Cbca.f_nc f_pix]. rewrite Eo. fold off.
    replace ((0 <=? r - off + a) && (r - off + a <? i_nr x - 2 * off) && (0 <=? c - off + b) && (c - off + b <? i_nc x - 2 * off))
      with true by lia.
    replace ((0 <=? r' - off + a) && (r' - off + a <? i_nr y - 2 * off) && (0 <=? c' - off + b) && (c' - off + b <? i_nc y - 2 * off))
      with true by lia.
    unfold crop, left_filtered. rewrite EvL.
    replace (r - off + a + off) with (r + a) by lia. replace (c - off + b + off) with (c + b) by lia.
    replace (r' - off + a + off) with (r' + a) by lia. replace (c' - off + b + off) with (c' + b) by lia.
    apply median3_local; try lia.
    intros a' b' Ha' Hb'.
    replace (r + a + a') with (r + (a + a')) by lia. replace (c + b + b') with (c + (b + b')) by lia.
    replace (r' + a + a') with (r' + (a + a')) by lia. replace (c' + b + b') with (c' + (b + b')) by lia.
    destruct (HimL (a + a') (b + b') ltac:(lia) ltac:(lia)) as [E1 E2].
    apply apply_mask_local; assumption.
  Qed.

  Lemma px_right_local : forall a b, - A <= a <= A -> - A <= b <= A ->
    px (spec_right x s) (r - off + a) (c - off + sh + b) = px (spec_right y s) (r' - off + a) (c' - off + sh + b).
  Proof.
    intros a b Ha Hb. destruct g_facts as (G1 & G2 & G3). destruct Hpar as (Eo & _ & _ & _ & _ & EvR).
    unfold px, inside, spec_right, cnr, cncR, ncR_full. cbn [Spec.Cbca.f_nr Spec.Cbca.f_nc f_pix]. rewrite Eo. fold off.
    assert (He : (if s =? 0 then i_nc x else i_nc x - 1) = i_nc x - e) by (unfold e; destruct (s =? 0); lia).
    assert (He' : (if s =? 0 then i_nc y else i_nc y - 1) = i_nc y - e) by (unfold e; destruct (s =? 0); lia).
    rewrite He, He'.
    assert (E01 : 0 <= e <= 1) by (unfold e; destruct (s =? 0); lia).
    replace ((0 <=? r - off + a) && (r - off + a <? i_nr x - 2 * off) && (0 <=? c - off + sh + b)
             && (c - off + sh + b <? i_nc x - e - 2 * off)) with true by lia.
    replace ((0 <=? r' - off + a) && (r' - off + a <? i_nr y - 2 * off) && (0 <=? c' - off + sh + b)
             && (c' - off + sh + b <? i_nc y - e - 2 * off)) with true by lia.
    unfold crop, right_filtered, ncR_full. rewrite He, He', EvR.
    replace (r - off + a + off) with (r + a) by lia. replace (c - off + sh + b + off) with (c + sh + b) by lia.
    replace (r' - off + a + off) with (r' + a) by lia. replace (c' - off + sh + b + off) with (c' + sh + b) by lia.
    apply median3_local; try lia.
    intros a' b' Ha' Hb'.
    replace (r + a + a') with (r + (a + a')) by lia. replace (c + sh + b + b') with (c + sh + (b + b')) by lia.
    replace (r' + a + a') with (r' + (a + a')) by lia. replace (c' + sh + b + b') with (c' + sh + (b + b')) by lia.
    pose proof (HimR (a + a') (b + b') ltac:(lia) ltac:(lia)) as E1.
    pose proof (HmR (a + a') (b + b') ltac:(lia) ltac:(lia)) as E2.
    unfold e in *. destruct (s =? 0) eqn:Es.
    - apply Z.eqb_eq in Es. rewrite Es in *. apply apply_mask_local; assumption.
    - apply apply_shift_mask_local; try assumption.
      pose proof (HmR (a + a') (b + b' + 1) ltac:(lia) ltac:(lia)) as E3.
      replace (c + sh + (b + b' + 1)) with (c + sh + (b + b') + 1) in E3 by lia.
      replace (c' + sh + (b + b' + 1)) with (c' + sh + (b + b') + 1) in E3 by lia. exact E3.
  Qed.

  Theorem cbca_model_local : out_at x k r c = out_at y k' r' c'.
  Proof.
    destruct g_facts as (G1 & G2 & G3). pose proof Hpar as (Eo & Es & Ed & Ei & EvL & EvR).
    assert (E01 : 0 <= e <= 1) by (unfold e; destruct (s =? 0); lia).
    rewrite (cbca_model_eq_spec_valid x Hdist Hsub Hoff) ; try assumption.
    2:{ unfold cnr. fold off. lia. } 2:{ unfold cnc. fold off. lia. }
    2:{ unfold in_crop. fold off. lia. }
    2:{ fold d. fold s. fold sh. unfold cncR, ncR_full. fold off.
        assert (He : (if s =? 0 then i_nc x else i_nc x - 1) = i_nc x - e) by (unfold e; destruct (s =? 0); lia).
        rewrite He. lia. }
    rewrite (cbca_model_eq_spec_valid y); try assumption; try (rewrite ?Eo, ?Es, ?Ed; assumption).
    2:{ unfold cnr. rewrite Eo. fold off. lia. } 2:{ unfold cnc. rewrite Eo. fold off. lia. }
    2:{ unfold in_crop. rewrite Eo. fold off. lia. }
    2:{ rewrite Hd, Es. fold d. fold s. fold sh. unfold cncR, ncR_full. rewrite Eo. fold off.
        assert (He : (if s =? 0 then i_nc y else i_nc y - 1) = i_nc y - e) by (unfold e; destruct (s =? 0); lia).
        rewrite He. lia. }
    rewrite Hd, Es, Ed, Ei, Eo. fold d. fold s. fold sh. fold off.
    apply agg_spec_local; fold A.
    - apply px_left_local.
    - apply px_right_local.
    - intros a b Ha Hb. unfold crop.
      replace (r - off + a + off) with (r + a) by lia. replace (c - off + b + off) with (c + b) by lia.
      replace (r' - off + a + off) with (r' + a) by lia. replace (c' - off + b + off) with (c' + b) by lia.
      apply Hcv; assumption.
  Qed.
End CbcaModelLocal.
