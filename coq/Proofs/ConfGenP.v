(* C12, T-gen: the confidence kernels regenerated from the Python source (Gen/ConfKernels.v) compute,
   on every pixel curve, what the hand-written model (Model/Confidence.v) computes -- for ALL curves,
   eta lists, thresholds, disparity axes, and every volume minimum / maximum mn <> mx; no partial
   operation of the kernels fails (no shape mismatch, no read outside an array).  Re-proved at every
   run against the regenerated text. *)
From Coq Require Import ZArith QArith Qabs List Bool Lia Lqa.
From Pandora Require Import Lib.NpVec Model.Confidence Spec.Confidence Proofs.ConfidenceP Model.ConfGen.
Import ListNotations.
Open Scope Z_scope.

(* ------------------------------------------------------------------ lists *)

Lemma zip2_map2 {A B C : Type} (f : A -> B -> C) a b : zip2 f a b = map2 f a b.
Proof. revert b; induction a; destruct b; simpl; congruence. Qed.

Lemma b_sum_count l : b_sum l = count_true l.
Proof. induction l; simpl; congruence. Qed.

Lemma zip2_length {A B C : Type} (f : A -> B -> C) a : forall b, length a = length b -> length (zip2 f a b) = length a.
Proof. induction a; destruct b; simpl; intros; try discriminate; auto. Qed.

Lemma vv2_some {A B C : Type} (f : A -> B -> C) a b : length a = length b -> vv2 f a b = Some (zip2 f a b).
Proof. intro H. unfold vv2. rewrite H, Nat.eqb_refl. reflexivity. Qed.

Lemma zip2_repeat_l {A B C : Type} (f : A -> B -> C) x l : zip2 f (repeat x (length l)) l = map (f x) l.
Proof. induction l; simpl; congruence. Qed.

Lemma zip2_map_l {A A' B C : Type} (f : A' -> B -> C) (g : A -> A') a b : zip2 f (map g a) b = zip2 (fun x y => f (g x) y) a b.
Proof. revert b; induction a; destruct b; simpl; congruence. Qed.

Lemma zip2_map_r {A B B' C : Type} (f : A -> B' -> C) (g : B -> B') a b : zip2 f a (map g b) = zip2 (fun x y => f x (g y)) a b.
Proof. revert b; induction a; destruct b; simpl; congruence. Qed.

Lemma zip2_same {A C : Type} (f : A -> A -> C) l : zip2 f l l = map (fun x => f x x) l.
Proof. induction l; simpl; congruence. Qed.

Lemma zip2_maps {A B C D : Type} (f : B -> C -> D) (g : A -> B) (h : A -> C) l :
  zip2 f (map g l) (map h l) = map (fun x => f (g x) (h x)) l.
Proof. induction l; simpl; congruence. Qed.

Lemma zip2_app {A B C : Type} (f : A -> B -> C) a1 b1 a2 b2 : length a1 = length b1 ->
  zip2 f (a1 ++ a2) (b1 ++ b2) = zip2 f a1 b1 ++ zip2 f a2 b2.
Proof. revert b1; induction a1; destruct b1; simpl; intros; try discriminate; [reflexivity|]. rewrite IHa1 by lia. reflexivity. Qed.

(* the flat array of the kernels: entry (x, y) at position x * |ys| + y *)
Definition grid {A B C : Type} (f : A -> B -> C) (xs : list A) (ys : list B) : list C :=
  flat_map (fun x => map (f x) ys) xs.

Lemma grid_length {A B C : Type} (f : A -> B -> C) xs ys : length (grid f xs ys) = (length xs * length ys)%nat.
Proof. unfold grid. induction xs; simpl; [reflexivity|]. rewrite app_length, map_length, IHxs. reflexivity. Qed.

Lemma tile_length {A : Type} n (l : list A) : length (tile n l) = (n * length l)%nat.
Proof. unfold tile. induction n; simpl; [reflexivity|]. rewrite app_length. unfold tile in IHn. rewrite IHn. reflexivity. Qed.

Lemma np_repeat_length {A : Type} (l : list A) n : length (np_repeat l (Z.of_nat n)) = (length l * n)%nat.
Proof. unfold np_repeat. rewrite Nat2Z.id. induction l; simpl; [reflexivity|]. rewrite app_length, repeat_length, IHl. reflexivity. Qed.

(* np.repeat(xs, |ys|) (op) tile(ys, |xs|) is the grid *)
Lemma zip2_repeat_tile {A B C : Type} (f : A -> B -> C) xs ys :
  zip2 f (np_repeat xs (Z.of_nat (length ys))) (tile (length xs) ys) = grid f xs ys.
Proof.
  unfold np_repeat, tile, grid. rewrite Nat2Z.id. induction xs as [|x r IH]; simpl; [reflexivity|].
  rewrite zip2_app by apply repeat_length. rewrite zip2_repeat_l, IH. reflexivity.
Qed.

Lemma grid_map_l {A A' B C : Type} (f : A' -> B -> C) (g : A -> A') xs ys : grid f (map g xs) ys = grid (fun x y => f (g x) y) xs ys.
Proof. unfold grid. induction xs; simpl; [reflexivity|]. rewrite IHxs. reflexivity. Qed.

Lemma grid_map_r {A B B' C : Type} (f : A -> B' -> C) (g : B -> B') xs ys : grid f xs (map g ys) = grid (fun x y => f x (g y)) xs ys.
Proof. unfold grid. induction xs; simpl; [reflexivity|]. rewrite map_map, IHxs. reflexivity. Qed.

Lemma grid_ext {A B C : Type} (f g : A -> B -> C) xs ys : (forall x y, f x y = g x y) -> grid f xs ys = grid g xs ys.
Proof. intro H. unfold grid. induction xs; simpl; [reflexivity|]. rewrite IHxs. f_equal. apply map_ext. auto. Qed.

Lemma map_grid {A B C D : Type} (h : C -> D) (f : A -> B -> C) xs ys : map h (grid f xs ys) = grid (fun x y => h (f x y)) xs ys.
Proof. unfold grid. induction xs; simpl; [reflexivity|]. rewrite map_app, map_map, IHxs. reflexivity. Qed.

Lemma chunks_grid {A B C : Type} (f : A -> B -> C) xs ys :
  chunks (length xs) (length ys) (grid f xs ys) = map (fun x => map (f x) ys) xs.
Proof.
  unfold grid. induction xs as [|x r IH]; simpl; [reflexivity|].
  rewrite firstn_app, skipn_app, map_length, Nat.sub_diag, firstn_O, skipn_O, app_nil_r.
  rewrite <- (map_length (f x) ys) at 1. rewrite firstn_all.
  replace (skipn (length ys) (map (f x) ys)) with (@nil C)
    by (symmetry; apply skipn_all2; rewrite map_length; lia).
  simpl. rewrite IH. reflexivity.
Qed.

Lemma columns_grid {A B C : Type} (f : A -> B -> C) xs ys :
  columns (length ys) (map (fun x => map (f x) ys) xs) = map (fun y => map (fun x => f x y) xs) ys.
Proof.
  induction ys as [|y r IH]; simpl; [reflexivity|]. f_equal.
  - clear IH. induction xs as [|x0 xs IHx]; simpl; [reflexivity|]. rewrite IHx. reflexivity.
  - rewrite map_map. simpl. apply IH.
Qed.

Lemma concat_map_grid {A B C : Type} (f : A -> B -> C) xs ys : concat (map (fun x => map (f x) ys) xs) = grid f xs ys.
Proof. unfold grid. rewrite flat_map_concat_map. reflexivity. Qed.

(* ------------------------------------------------------------------ embedding of the model's values *)

Lemma np_nanmin_embed c : np_nanmin (xcurve c) = of_oq (nanmin c).
Proof.
  unfold xcurve. induction c as [|[x|] r IH]; [reflexivity| |exact IH].
  cbn [map of_oq np_nanmin nanmin xisnan]. rewrite IH.
  destruct (nanmin r); cbn [of_oq xisnan]; [|reflexivity]. unfold xmin2, qmin; cbn [xle]. destruct (Qle_bool x q); reflexivity.
Qed.

Lemma np_nanmax_embed c : np_nanmax (xcurve c) = of_oq (nanmax c).
Proof.
  unfold xcurve. induction c as [|[x|] r IH]; [reflexivity| |exact IH].
  cbn [map of_oq np_nanmax nanmax xisnan]. rewrite IH.
  destruct (nanmax r); cbn [of_oq xisnan]; [|reflexivity]. unfold xmax2, qmax; cbn [xle]. destruct (Qle_bool x q); reflexivity.
Qed.

Lemma qeqb_span mn mx : ~ (mn == mx)%Q -> Qeq_bool (mx - mn) 0 = false.
Proof. intro H. destruct (Qeq_bool (mx - mn) 0) eqn:E; [|reflexivity]. apply Qeq_bool_eq in E. exfalso. apply H. lra. Qed.

Lemma norm_embed mn mx c : ~ (mn == mx)%Q ->
  vs xdiv (vs xsub (xcurve c) (XFin mn)) (xsub (XFin mx) (XFin mn)) = xcurve (ncurve mn mx c).
Proof.
  intro H. unfold vs, xcurve, ncurve. rewrite !map_map. apply map_ext. intros [x|]; simpl; [|reflexivity].
  rewrite (qeqb_span _ _ H). reflexivity.
Qed.

Lemma setmask_isnan (v : vec) s : v_setmask v (map xisnan v) s = Some (map (fun x => if xisnan x then s else x) v).
Proof. unfold v_setmask. rewrite vv2_some by (rewrite map_length; reflexivity). rewrite zip2_map_r, zip2_same. reflexivity. Qed.

Lemma vlen_xetas etas : vlen (xetas etas) = Z.of_nat (length etas).
Proof. unfold vlen, xetas. rewrite map_length. reflexivity. Qed.

Lemma vlen_xcurve c : vlen (xcurve c) = Z.of_nat (length c).
Proof. unfold vlen, xcurve. rewrite map_length. reflexivity. Qed.

(* normalized_cv (op) (normalized_min_cost + two_dim_etas), all three flat arrays of nb_disps * n_eta entries *)
Lemma cmp_grid (f : xf -> xf -> bool) (xs : vec) (a : xf) (etas : list Q) (c : curve) : length xs = length c ->
  exists t, vv2 xadd (np_repeat_s a (vlen c * vlen (xetas etas))) (two_dim (length c) etas) = Some t /\
    vv2 f (np_repeat xs (vlen (xetas etas))) t = Some (grid (fun x e => f x (xadd a (XFin e))) xs etas).
Proof.
  intro Hl. rewrite vlen_xetas. unfold vlen, two_dim, xetas, np_repeat_s.
  assert (Hn : Z.to_nat (Z.of_nat (length c) * Z.of_nat (length etas)) = length (map XFin (tile (length c) etas))).
  { rewrite map_length, tile_length. lia. }
  eexists. split.
  - rewrite vv2_some by (rewrite repeat_length; exact Hn). rewrite Hn, zip2_repeat_l. reflexivity.
  - rewrite vv2_some by (rewrite np_repeat_length, !map_length, tile_length; lia).
    rewrite map_map, zip2_map_r. rewrite <- Hl. rewrite zip2_repeat_tile. reflexivity.
Qed.

(* ------------------------------------------------------------------ ambiguity *)

Definition msk (x : xf) : xf := if xisnan x then XMInf else x.

Lemma xle_msk x b : xle (msk (of_oq x)) (XFin b) = le_nan x b.
Proof. destruct x; reflexivity. Qed.

Lemma grid_count nmin etas (nc : curve) :
  b_sum (grid (fun x e => xle x (xadd (XFin nmin) (XFin e))) (map msk (xcurve nc)) etas)
  = count_true (map2 (fun x e => le_nan x (nmin + e)%Q) (repeat_each (length etas) nc) (tile (length nc) etas)).
Proof.
  rewrite b_sum_count. f_equal. unfold xcurve. rewrite map_map, grid_map_l.
  rewrite <- zip2_map2. unfold repeat_each.
  replace (flat_map (fun x : oq => repeat x (length etas)) nc) with (np_repeat nc (Z.of_nat (length etas)))
    by (unfold np_repeat; rewrite Nat2Z.id; reflexivity).
  rewrite zip2_repeat_tile. apply grid_ext. intros x e. simpl. apply xle_msk.
Qed.

Theorem gen_amb_pixel_eq mn mx etas c : ~ (mn == mx)%Q ->
  exists r, gamb_pixel mn mx etas c = Some r /\ xeq r (xofz (amb_pixel mn mx etas c)).
Proof.
  intro Hs. unfold gamb_pixel, G.compute_ambiguity_pixel. rewrite np_nanmin_embed.
  destruct (nanmin c) as [m|] eqn:Hm; cbn [of_oq xsub xdiv xadd xneg xisnan].
  - rewrite (qeqb_span _ _ Hs). cbn [xisnan]. rewrite (norm_embed _ _ _ Hs), setmask_isnan.
    destruct (cmp_grid xle (map (fun x => if xisnan x then XMInf else x) (xcurve (ncurve mn mx c)))
                       (XFin ((m - mn) / (mx - mn))) etas c) as (t & H1 & H2).
    { unfold xcurve, ncurve. rewrite !map_length. reflexivity. }
    rewrite H1, H2. eexists. split; [reflexivity|].
    change (map (fun x => if xisnan x then XMInf else x)) with (map msk).
    unfold amb_pixel. rewrite Hm.
    change ((m - mn) / (mx - mn))%Q with (norm mn mx m).
    assert (Hl : length (ncurve mn mx c) = length c) by (unfold ncurve; apply map_length).
    rewrite grid_count, Hl. cbn [xadd xofz xeq]. lra.
  - eexists. split; [reflexivity|]. rewrite (amb_pixel_allnan _ _ _ _ Hm), vlen_xetas. unfold vlen, xofz, xeq. reflexivity.
Qed.

(* ------------------------------------------------------------------ sampled ambiguity *)

Lemma reshape_grid {A C : Type} (f : A -> Q -> C) (xs : list A) etas (c : curve) : length xs = length c ->
  v_reshape (grid f xs etas) (vlen c) (vlen (xetas etas)) = Some (mkMat (length etas) (map (fun x => map (f x) etas) xs)).
Proof.
  intro Hl. unfold v_reshape. rewrite vlen_xetas. unfold vlen. rewrite grid_length, Hl.
  replace ((0 <=? Z.of_nat (length c)) && (0 <=? Z.of_nat (length etas))
           && (Z.of_nat (length c) * Z.of_nat (length etas) =? Z.of_nat (length c * length etas))) with true
    by (symmetry; rewrite !andb_true_iff, !Z.leb_le, Z.eqb_eq; lia).
  rewrite !Nat2Z.id, <- Hl, chunks_grid. reflexivity.
Qed.

Lemma map_const_repeat {A B : Type} (a : B) (l : list A) : map (fun _ => a) l = repeat a (length l).
Proof. induction l; simpl; congruence. Qed.

Theorem gen_samp_pixel_eq mn mx etas c : ~ (mn == mx)%Q ->
  exists r, gsamp_pixel mn mx etas c = Some (r, v_ofz (samp_pixel mn mx etas c))
            /\ xeq r (xofz (amb_pixel mn mx etas c)).
Proof.
  intro Hs. unfold gsamp_pixel, G.compute_ambiguity_and_sampled_ambiguity_pixel, samp_pixel. rewrite np_nanmin_embed.
  destruct (nanmin c) as [m|] eqn:Hm; cbn [of_oq xsub xdiv xadd xneg xisnan].
  - rewrite (qeqb_span _ _ Hs). cbn [xisnan]. rewrite (norm_embed _ _ _ Hs), setmask_isnan.
    assert (Hl : length (map (fun x => if xisnan x then XMInf else x) (xcurve (ncurve mn mx c))) = length c).
    { unfold xcurve, ncurve. rewrite !map_length. reflexivity. }
    destruct (cmp_grid xle _ (XFin ((m - mn) / (mx - mn))) etas c Hl) as (t & H1 & H2).
    rewrite H1, H2, (reshape_grid _ _ _ _ Hl).
    unfold bm_sum0. cbn [mcols mrows]. rewrite columns_grid.
    unfold v_assign, np_zeros, v_ofz. rewrite repeat_length, !map_length, vlen_xetas, Nat2Z.id, Nat.eqb_refl.
    eexists. split.
    + f_equal. f_equal. rewrite !map_map. apply map_ext. intro e. f_equal. unfold samp_amb.
      rewrite b_sum_count. f_equal. unfold xcurve. rewrite !map_map. apply map_ext. intro x.
      change ((m - mn) / (mx - mn))%Q with (norm mn mx m). cbn [xadd]. apply (xle_msk x).
    + change (map (fun x => if xisnan x then XMInf else x)) with (map msk).
      unfold amb_pixel. rewrite Hm. change ((m - mn) / (mx - mn))%Q with (norm mn mx m).
      assert (Hl' : length (ncurve mn mx c) = length c) by (unfold ncurve; apply map_length).
      rewrite grid_count, Hl'. cbn [xadd xofz xeq]. lra.
  - eexists. split.
    + f_equal. f_equal. unfold v_fill, np_zeros, v_ofz. rewrite map_map, !map_const_repeat, repeat_length, vlen_xetas, Nat2Z.id.
      reflexivity.
    + rewrite (amb_pixel_allnan _ _ _ _ Hm), vlen_xetas. unfold vlen, xofz, xeq. reflexivity.
Qed.

(* ------------------------------------------------------------------ loops that fill arrays *)

Lemma set_at_length {A : Type} (v : list A) : forall j x, length (set_at v j x) = length v.
Proof. induction v; destruct j; simpl; intros; auto. Qed.

Lemma firstn_set_at {A : Type} (v : list A) : forall j x, (j < length v)%nat ->
  firstn (S j) (set_at v j x) = firstn j v ++ [x].
Proof. induction v; destruct j; simpl; intros; try lia; [reflexivity|]. f_equal. apply IHv. lia. Qed.

Lemma skipn_set_at {A : Type} (v : list A) : forall j n x, (j < n)%nat -> skipn n (set_at v j x) = skipn n v.
Proof. induction v; destruct j, n; simpl; intros; try lia; auto. apply IHv. lia. Qed.

Lemma firstn_set_at_lt {A : Type} (v : list A) : forall j n x, (n <= j)%nat -> firstn n (set_at v j x) = firstn n v.
Proof. induction v; destruct j, n; simpl; intros; try lia; auto. f_equal. apply IHv. lia. Qed.

Lemma for_list_tab2 {A B : Type} (N : nat) (body : Z -> list A * list B -> option (list A * list B))
      (f : nat -> A) (g : nat -> B) :
  (forall i a b, (i < N)%nat -> length a = N -> length b = N ->
     body (Z.of_nat i) (a, b) = Some (set_at a i (f i), set_at b i (g i))) ->
  forall k s a b, (s + k = N)%nat -> length a = N -> length b = N ->
    for_list (map Z.of_nat (seq s k)) body (a, b)
    = Some (firstn s a ++ map f (seq s k), firstn s b ++ map g (seq s k)).
Proof.
  intros Hb. induction k as [|k IH]; intros s a b Hs Ha Hb'.
  - simpl. rewrite !app_nil_r. rewrite Nat.add_0_r in Hs. subst s.
    rewrite <- Ha at 1. rewrite firstn_all. rewrite <- Hb'. rewrite firstn_all. reflexivity.
  - cbn [seq map for_list]. rewrite Hb by lia.
    rewrite IH by (rewrite ?set_at_length; lia).
    rewrite !firstn_set_at by lia. rewrite <- !app_assoc. reflexivity.
Qed.

Lemma for_range_tab2 {A B : Type} (n : Z) (body : Z -> list A * list B -> option (list A * list B))
      (f : nat -> A) (g : nat -> B) a b :
  length a = Z.to_nat n -> length b = Z.to_nat n ->
  (forall i a b, (i < Z.to_nat n)%nat -> length a = Z.to_nat n -> length b = Z.to_nat n ->
     body (Z.of_nat i) (a, b) = Some (set_at a i (f i), set_at b i (g i))) ->
  for_range n body (a, b) = Some (map f (seq 0 (Z.to_nat n)), map g (seq 0 (Z.to_nat n))).
Proof.
  intros Ha Hb H. unfold for_range, np_arange.
  rewrite (for_list_tab2 (Z.to_nat n) body f g H (Z.to_nat n) 0 a b) by lia. reflexivity.
Qed.

Lemma map_seq_nth {A B : Type} (F : A -> B) (l : list A) d :
  map (fun j => F (nth j l d)) (seq 0 (length l)) = map F l.
Proof.
  induction l as [|x r IH]; [reflexivity|]. cbn [length seq map nth]. f_equal.
  rewrite <- seq_shift, map_map. exact IH.
Qed.

Lemma col_grid {A B C : Type} (h : A -> B -> C) ps ys j d : (j < length ys)%nat ->
  flat_map (fun r => match nth_error r j with Some x => [x] | None => [] end) (map (fun p => map (h p) ys) ps)
  = map (fun p => h p (nth j ys d)) ps.
Proof.
  intro Hj. induction ps as [|p r IH]; [reflexivity|]. cbn [map flat_map]. rewrite IH.
  rewrite nth_error_map', (nth_error_nth' ys d Hj). reflexivity.
Qed.

Lemma norm_index_nat n j : (j < n)%nat -> norm_index (Z.of_nat n) (Z.of_nat j) = Some j.
Proof.
  intro H. unfold norm_index.
  replace (Z.of_nat j <? 0) with false by (symmetry; apply Z.ltb_ge; lia).
  replace ((0 <=? Z.of_nat j) && (Z.of_nat j <? Z.of_nat n)) with true
    by (symmetry; rewrite andb_true_iff, Z.leb_le, Z.ltb_lt; lia).
  rewrite Nat2Z.id. reflexivity.
Qed.

(* ------------------------------------------------------------------ risk *)

(* np.arange(nb_disps) * 1.0 *)
Definition dval (z : Z) : xf := xmul (xofz z) (XFin 1).

Lemma dval_le a b : Qle_bool (inject_Z a * 1) (inject_Z b * 1) = (a <=? b).
Proof.
  destruct (a <=? b) eqn:E.
  - apply Z.leb_le in E. apply Qle_bool_iff. rewrite !Qmult_1_r, <- Zle_Qle. exact E.
  - apply Z.leb_gt in E. apply Qle_bool_false. rewrite !Qmult_1_r, <- Zlt_Qlt. exact E.
Qed.

Lemma dval_min a b : xmin2 (dval a) (dval b) = dval (Z.min a b).
Proof.
  unfold xmin2, dval, xofz. cbn [xmul xle]. rewrite dval_le.
  destruct (a <=? b) eqn:E; [apply Z.leb_le in E; rewrite Z.min_l by lia|apply Z.leb_gt in E; rewrite Z.min_r by lia]; reflexivity.
Qed.

Lemma dval_max a b : xmax2 (dval a) (dval b) = dval (Z.max a b).
Proof.
  unfold xmax2, dval, xofz. cbn [xmul xle]. rewrite dval_le.
  destruct (a <=? b) eqn:E; [apply Z.leb_le in E; rewrite Z.max_r by lia|apply Z.leb_gt in E; rewrite Z.max_l by lia]; reflexivity.
Qed.

Lemma xgt_msk x b : xgt (msk (of_oq x)) (XFin b) = gt_nan x b.
Proof. destruct x; reflexivity. Qed.

Definition keep (b : Q) (p : xf * xf) : xf := if xgt (snd p) (XFin b) then XNaN else fst p.
Definition dopt (o : option Z) : xf := match o with Some z => dval z | None => XNaN end.

Lemma keep_eq b d x : keep b (d, msk (of_oq x)) = if gt_nan x b then XNaN else d.
Proof. unfold keep. cbn [fst snd]. rewrite xgt_msk. reflexivity. Qed.

Lemma kept_min b (nc : curve) : forall s,
  np_nanmin (map (keep b) (combine (map dval (map Z.of_nat (seq s (length nc)))) (map msk (xcurve nc))))
  = dopt (zmin_l (kept_from (Z.of_nat s) b nc)).
Proof.
  induction nc as [|x r IH]; intro s; [reflexivity|].
  cbn [length seq map combine xcurve kept_from]. fold (xcurve r). rewrite keep_eq.
  replace (Z.of_nat s + 1) with (Z.of_nat (S s)) by lia.
  destruct (gt_nan x b); cbn [np_nanmin]; [apply IH|].
  change (xisnan (dval (Z.of_nat s))) with false. cbv iota zeta. rewrite IH. cbn [zmin_l].
  destruct (zmin_l (kept_from (Z.of_nat (S s)) b r)); cbn [dopt]; [|reflexivity].
  change (xisnan (dval z)) with false. cbv iota. apply dval_min.
Qed.

Lemma kept_max b (nc : curve) : forall s,
  np_nanmax (map (keep b) (combine (map dval (map Z.of_nat (seq s (length nc)))) (map msk (xcurve nc))))
  = dopt (zmax_l (kept_from (Z.of_nat s) b nc)).
Proof.
  induction nc as [|x r IH]; intro s; [reflexivity|].
  cbn [length seq map combine xcurve kept_from]. fold (xcurve r). rewrite keep_eq.
  replace (Z.of_nat s + 1) with (Z.of_nat (S s)) by lia.
  destruct (gt_nan x b); cbn [np_nanmax]; [apply IH|].
  change (xisnan (dval (Z.of_nat s))) with false. cbv iota zeta. rewrite IH. cbn [zmax_l].
  destruct (zmax_l (kept_from (Z.of_nat (S s)) b r)); cbn [dopt]; [|reflexivity].
  change (xisnan (dval z)) with false. cbv iota. apply dval_max.
Qed.

(* disp_cv[normalized_cv > ...] = nan on the flat arrays *)
Lemma setmask_grid {A B C D : Type} (k : A -> C -> D) (g : B -> Q -> C) (ys : list Q) : forall (ds : list A) (xs : list B),
  length ds = length xs ->
  zip2 k (np_repeat ds (Z.of_nat (length ys))) (grid g xs ys)
  = grid (fun p y => k (fst p) (g (snd p) y)) (combine ds xs) ys.
Proof.
  unfold np_repeat, grid. rewrite Nat2Z.id.
  induction ds as [|d ds IH]; destruct xs as [|x xs]; intro H; try discriminate; [reflexivity|].
  cbn [flat_map combine fst snd]. rewrite zip2_app by (rewrite repeat_length, map_length; reflexivity).
  rewrite zip2_map_r, zip2_repeat_l, IH by (simpl in H; lia). reflexivity.
Qed.

(* ---- float equality up to the representation of rationals *)

Lemma xeq_refl a : xeq a a.
Proof. destruct a; simpl; auto. reflexivity. Qed.

Lemma xadd_xeq a a' b b' : xeq a a' -> xeq b b' -> xeq (xadd a b) (xadd a' b').
Proof. destruct a, a', b, b'; simpl; intros H1 H2; try contradiction; auto. rewrite H1, H2. reflexivity. Qed.

Lemma inject_Z_nonzero n : n <> 0 -> Qeq_bool (inject_Z n) 0 = false.
Proof.
  intro H. destruct (Qeq_bool (inject_Z n) 0) eqn:E; [|reflexivity]. apply Qeq_bool_eq in E.
  unfold Qeq in E. simpl in E. lia.
Qed.

Lemma np_nansum_xeq l l' : Forall2 xeq l l' ->
  xeq (fst (np_nansum l)) (fst (np_nansum l')) /\ snd (np_nansum l) = snd (np_nansum l').
Proof.
  induction 1 as [|x y l l' Hxy _ IH]; [split; reflexivity|]. cbn [np_nansum].
  destruct (np_nansum l) as [s n], (np_nansum l') as [s' n']. cbn [fst snd] in IH. destruct IH as [Hs Hn]. subst n'.
  destruct x, y; simpl in Hxy; try contradiction; cbn [xisnan fst snd]; auto;
    (split; [|reflexivity]); apply xadd_xeq; try exact Hs; simpl; auto.
Qed.

Lemma np_nanmean_xeq l l' : Forall2 xeq l l' -> xeq (np_nanmean l) (np_nanmean l').
Proof.
  intro H. apply np_nansum_xeq in H. unfold np_nanmean.
  destruct (np_nansum l) as [s n], (np_nansum l') as [s' n']. cbn [fst snd] in H. destruct H as [Hs Hn]. subst n'.
  destruct (n =? 0) eqn:E; [exact I|]. apply Z.eqb_neq in E.
  destruct s, s'; simpl in Hs; try contradiction; try apply xeq_refl.
  unfold xofz. cbn [xdiv]. rewrite (inject_Z_nonzero _ E). simpl. rewrite Hs. reflexivity.
Qed.

Lemma np_nanmean_embed (l : list oq) : np_nanmean (map of_oq l) = of_oq (nanmean l).
Proof.
  unfold np_nanmean, nanmean.
  assert (H : np_nansum (map of_oq l) = (XFin (fst (nansum l)), snd (nansum l))).
  { induction l as [|[x|] r IH]; [reflexivity| |]; cbn [map of_oq np_nansum nansum]; rewrite IH;
      destruct (nansum r); reflexivity. }
  rewrite H. destruct (nansum l) as [s n]. cbn [fst snd]. destruct (n =? 0) eqn:E; [reflexivity|].
  apply Z.eqb_neq in E. unfold xofz. cbn [xdiv of_oq]. rewrite (inject_Z_nonzero _ E). reflexivity.
Qed.

Lemma Forall2_map_same {A B C : Type} (R : B -> C -> Prop) (f : A -> B) (g : A -> C) l :
  (forall x, R (f x) (g x)) -> Forall2 R (map f l) (map g l).
Proof. intro H. induction l; simpl; constructor; auto. Qed.

Lemma inject_Z_sub a b : (inject_Z (a - b) == inject_Z a - inject_Z b)%Q.
Proof. unfold Z.sub, Qminus. rewrite inject_Z_plus, inject_Z_opp. reflexivity. Qed.

Theorem gen_risk_pixel_eq mn mx etas c : ~ (mn == mx)%Q ->
  exists a b, grisk_pixel mn mx etas c = Some (a, b)
              /\ xeq a (of_oq (fst (risk_pixel mn mx etas c))) /\ xeq b (of_oq (snd (risk_pixel mn mx etas c))).
Proof.
  intro Hs. unfold grisk_pixel. destruct (gen_samp_pixel_eq mn mx etas c Hs) as (r0 & Hsamp & _). rewrite Hsamp.
  unfold G.compute_risk_pixel, samp_pixel, risk_pixel. rewrite np_nanmin_embed.
  destruct (nanmin c) as [m|] eqn:Hm; cbn [of_oq xsub xdiv xadd xneg xisnan].
  2:{ eexists _, _. split; [reflexivity|]. split; exact I. }
  rewrite (qeqb_span _ _ Hs). cbn [xisnan]. rewrite (norm_embed _ _ _ Hs), setmask_isnan.
  change ((m - mn) / (mx - mn))%Q with (norm mn mx m).
  change (map (fun x => if xisnan x then XMInf else x)) with (map msk).
  set (nc := ncurve mn mx c). set (nmin := norm mn mx m).
  assert (Hl : length (map msk (xcurve nc)) = length c).
  { unfold xcurve, nc, ncurve. rewrite !map_length. reflexivity. }
  destruct (cmp_grid xgt _ (XFin nmin) etas c Hl) as (t & H1 & H2). rewrite H1, H2.
  change (vs xmul (v_ofz (np_arange (vlen c))) (XFin (1 # 1))) with (map (fun x => xmul x (XFin 1)) (map xofz (np_arange (vlen c)))).
  rewrite map_map. change (fun x : Z => xmul (xofz x) (XFin 1)) with dval.
  unfold v_setmask. rewrite vlen_xetas.
  assert (Hd : length (map dval (np_arange (vlen c))) = length (map msk (xcurve nc))).
  { rewrite Hl. unfold np_arange, vlen. rewrite !map_length, seq_length, Nat2Z.id. reflexivity. }
  rewrite vv2_some by (rewrite np_repeat_length, grid_length, Hd; reflexivity).
  rewrite (setmask_grid _ _ _ _ _ Hd).
  assert (Hc : length (combine (map dval (np_arange (vlen c))) (map msk (xcurve nc))) = length c).
  { rewrite combine_length, Hd, Hl. lia. }
  rewrite <- vlen_xetas. rewrite (reshape_grid _ _ _ _ Hc). rewrite vlen_xetas.
  set (ps := combine (map dval (np_arange (vlen c))) (map msk (xcurve nc))).
  rewrite (for_range_tab2 (Z.of_nat (length etas)) _
             (fun j => np_nanmin (map (fun p => keep (nmin + nth j etas 0%Q) p) ps))
             (fun j => np_nanmax (map (fun p => keep (nmin + nth j etas 0%Q) p) ps))).
  2,3: unfold np_zeros; rewrite repeat_length; reflexivity.
  2:{ rewrite Nat2Z.id. intros i a b Hi Ha Hb. unfold m_col. cbn [mcols mrows].
      rewrite (norm_index_nat _ _ Hi), (col_grid _ _ _ _ 0%Q Hi).
      unfold v_store, vlen. rewrite Ha, Hb, (norm_index_nat _ _ Hi). reflexivity. }
  rewrite Nat2Z.id.
  rewrite (map_seq_nth (fun e => np_nanmin (map (fun p => keep (nmin + e) p) ps)) etas 0%Q).
  rewrite (map_seq_nth (fun e => np_nanmax (map (fun p => keep (nmin + e) p) ps)) etas 0%Q).
  assert (Hnc : length nc = length c) by (unfold nc, ncurve; apply map_length).
  assert (Hmin : forall b, np_nanmin (map (fun p => keep b p) ps) = dopt (zmin_l (kept_from 0 b nc))).
  { intro b. unfold ps, np_arange, vlen. rewrite Nat2Z.id, <- Hnc. apply (kept_min b nc 0). }
  assert (Hmax : forall b, np_nanmax (map (fun p => keep b p) ps) = dopt (zmax_l (kept_from 0 b nc))).
  { intro b. unfold ps, np_arange, vlen. rewrite Nat2Z.id, <- Hnc. apply (kept_max b nc 0). }
  rewrite (map_ext _ _ (fun e => Hmin (nmin + e)%Q)), (map_ext _ _ (fun e => Hmax (nmin + e)%Q)).
  rewrite vv2_some by (rewrite !map_length; reflexivity). rewrite zip2_maps.
  unfold sv, v_ofz. rewrite !map_map.
  rewrite vv2_some by (rewrite !map_length; reflexivity). rewrite zip2_maps.
  eexists _, _. split; [reflexivity|]. cbn [fst snd]. split.
  - rewrite <- np_nanmean_embed. apply np_nanmean_xeq. rewrite !map_map. apply Forall2_map_same. intro e.
    unfold spread. destruct (zmin_l (kept_from 0 (nmin + e) nc)), (zmax_l (kept_from 0 (nmin + e) nc)); cbn; auto.
    rewrite inject_Z_sub. ring.
  - rewrite <- np_nanmean_embed. apply np_nanmean_xeq. rewrite map2_map, !map_map. apply Forall2_map_same. intro e.
    unfold spread. destruct (zmin_l (kept_from 0 (nmin + e) nc)), (zmax_l (kept_from 0 (nmin + e) nc));
      cbn [of_oq option_map dopt]; unfold dval; cbn [xsub xadd xneg xeq xmul xofz]; auto.
    rewrite !inject_Z_sub, inject_Z_plus, inject_Z_sub. ring.
Qed.

(* ------------------------------------------------------------------ interval bounds *)

Lemma poss_embed tf (nc : curve) :
  vs xsub (vs xadd (sv xmul (XFin tf) (xcurve nc)) (xofz 1)) (np_nanmax (sv xmul (XFin tf) (xcurve nc)))
  = xcurve (possibility tf nc).
Proof.
  assert (H : sv xmul (XFin tf) (xcurve nc) = xcurve (map (option_map (Qmult tf)) nc)).
  { unfold sv, xcurve. rewrite !map_map. apply map_ext. intros [x|]; reflexivity. }
  rewrite H, np_nanmax_embed. unfold possibility, vs, xcurve.
  destruct (nanmax (map (option_map (Qmult tf)) nc)) as [M|]; rewrite !map_map; apply map_ext; intros [x|]; reflexivity.
Qed.

Lemma iv_min_zmin l : iv_min l = zmin_l l.
Proof. induction l; simpl; [reflexivity|]. rewrite IHl. reflexivity. Qed.
Lemma iv_max_zmax l : iv_max l = zmax_l l.
Proof. induction l; simpl; [reflexivity|]. rewrite IHl. reflexivity. Qed.

Lemma same_elems_min l l' : (forall d, In d l <-> In d l') -> zmin_l l = zmin_l l'.
Proof.
  intro H. destruct (zmin_l l) as [a|] eqn:Ea, (zmin_l l') as [b|] eqn:Eb; auto.
  - apply zmin_l_spec in Ea, Eb. destruct Ea as [Ia La], Eb as [Ib Lb]. f_equal.
    apply H in Ia. apply H in Ib. specialize (La _ Ib). specialize (Lb _ Ia). lia.
  - apply zmin_l_spec in Ea. apply zmin_l_none in Eb. subst l'. destruct Ea as [Ia _]. apply H in Ia. destruct Ia.
  - apply zmin_l_spec in Eb. apply zmin_l_none in Ea. subst l. destruct Eb as [Ib _]. apply H in Ib. destruct Ib.
Qed.

Lemma same_elems_max l l' : (forall d, In d l <-> In d l') -> zmax_l l = zmax_l l'.
Proof.
  intro H. destruct (zmax_l l) as [a|] eqn:Ea, (zmax_l l') as [b|] eqn:Eb; auto.
  - apply zmax_l_spec in Ea, Eb. destruct Ea as [Ia La], Eb as [Ib Lb]. f_equal.
    apply H in Ia. apply H in Ib. specialize (La _ Ib). specialize (Lb _ Ia). lia.
  - apply zmax_l_spec in Ea. apply zmax_l_none in Eb. subst l'. destruct Ea as [Ia _]. apply H in Ia. destruct Ia.
  - apply zmax_l_spec in Eb. apply zmax_l_none in Ea. subst l. destruct Eb as [Ib _]. apply H in Ib. destruct Ib.
Qed.

Lemma pick_map_filter {A : Type} (p : A -> bool) l : pick l (map p l) = filter p l.
Proof. induction l; simpl; [reflexivity|]. rewrite IHl. reflexivity. Qed.

Lemma b_sum_filter {A : Type} (p : A -> bool) l : b_sum (map p l) = Z.of_nat (length (filter p l)).
Proof. rewrite b_sum_count. apply count_true_filter. Qed.

Lemma v_get_nat {A : Type} (v : list A) d : 0 <= d < vlen v -> v_get v d = nth_error v (Z.to_nat d).
Proof.
  intro H. unfold v_get. rewrite <- (Z2Nat.id d) at 1 by lia. unfold vlen in *. rewrite norm_index_nat by lia. reflexivity.
Qed.

(* possibility[argsorted_poss] >= threshold, entry by entry *)
Definition selb (P : vec) (T : xf) (j : Z) : bool := match v_get P j with Some x => xge x T | None => false end.

Lemma take_sel (P : vec) T : forall s, (forall j, In j s -> 0 <= j < vlen P) ->
  exists l, v_take P s = Some l /\ vs xge l T = map (selb P T) s.
Proof.
  induction s as [|j r IH]; intro H; [exists []; split; reflexivity|].
  destruct IH as (l & H1 & H2); [intros; apply H; right; assumption|].
  assert (Hj : 0 <= j < vlen P) by (apply H; left; reflexivity).
  cbn [v_take]. rewrite H1. rewrite (v_get_nat _ _ Hj).
  destruct (nth_error P (Z.to_nat j)) as [x|] eqn:E.
  - eexists. split; [reflexivity|]. cbn [vs map]. f_equal; [|exact H2].
    unfold selb. rewrite (v_get_nat _ _ Hj), E. reflexivity.
  - exfalso. apply nth_error_None in E. unfold vlen in Hj. lia.
Qed.

Lemma selb_embed (ps : curve) thr d : 0 <= d < vlen (xcurve ps) ->
  selb (xcurve ps) (XFin thr) d = true <-> exists p, nth_error ps (Z.to_nat d) = Some p /\ ge_nan p thr = true.
Proof.
  intro H. unfold selb. rewrite (v_get_nat _ _ H). unfold xcurve. rewrite nth_error_map'.
  unfold curve, oq in *.
  destruct (nth_error ps (Z.to_nat d)) as [[p|]|]; cbn [option_map of_oq xge xle ge_nan]; split.
  - intro E. eauto.
  - intros (p' & E & G). inversion E; subst. exact G.
  - discriminate.
  - intros (p' & E & G). inversion E; subst. discriminate.
  - discriminate.
  - intros (p' & E & _). discriminate.
Qed.

Lemma v_get_curve (ps : curve) d : 0 <= d < Z.of_nat (length ps) ->
  exists o, znth_error ps d = Some o /\ v_get (xcurve ps) d = Some (of_oq o).
Proof.
  intro H. assert (H' : 0 <= d < vlen (xcurve ps)) by (rewrite vlen_xcurve; exact H).
  rewrite (v_get_nat _ _ H'). unfold xcurve. rewrite nth_error_map'. rewrite znth_error_nat by lia.
  unfold curve, oq in *. destruct (nth_error ps (Z.to_nat d)) as [o|] eqn:E; [eexists; split; reflexivity|].
  apply nth_error_None in E. lia.
Qed.

Lemma v_get_disps (disps : list Q) d : 0 <= d < Z.of_nat (length disps) ->
  exists q, znth_error disps d = Some q /\ v_get (xetas disps) d = Some (XFin q).
Proof.
  intro H. assert (H' : 0 <= d < vlen (xetas disps)) by (rewrite vlen_xetas; exact H).
  rewrite (v_get_nat _ _ H'). unfold xetas. rewrite nth_error_map'. rewrite znth_error_nat by lia.
  destruct (nth_error disps (Z.to_nat d)) as [o|] eqn:E; [eexists; split; reflexivity|].
  apply nth_error_None in E. lia.
Qed.

Lemma nth_error_Some_lt {A : Type} (l : list A) j x : nth_error l j = Some x -> (j < length l)%nat.
Proof. intro H. apply nth_error_Some. congruence. Qed.

Lemma is_one_embed o : xeqb (of_oq o) (xofz 1) = is_one (Some o).
Proof. destruct o; reflexivity. Qed.

Theorem gen_bounds_pixel_eq argsort mn mx tf thr disps c : argsort_ok argsort -> ~ (mn == mx)%Q ->
  length disps = length c ->
  gbounds_pixel argsort mn mx tf thr disps c
  = Some (of_oq (fst (bounds_pixel mn mx tf thr disps c)), of_oq (snd (bounds_pixel mn mx tf thr disps c))).
Proof.
  intros Hsort Hs Hd. unfold gbounds_pixel, G.compute_interval_bounds_pixel, bounds_pixel, bounds_idx.
  rewrite (norm_embed _ _ _ Hs), poss_embed.
  set (ps := possibility tf (ncurve mn mx c)). set (P := xcurve ps). set (s := argsort P).
  assert (Hlen : length ps = length c).
  { unfold ps. rewrite possibility_length. unfold ncurve. apply map_length. }
  assert (HP : vlen P = Z.of_nat (length c)) by (unfold P; rewrite vlen_xcurve, Hlen; reflexivity).
  destruct (take_sel P (XFin thr) s) as (l & H1 & H2); [intros j Hj; apply Hsort; exact Hj|].
  rewrite H1, H2.
  set (F := filter (selb P (XFin thr)) s).
  assert (HF : forall d, In d F <-> In d (sel_from 0 thr ps)).
  { intro d. unfold F. rewrite filter_In, sel_from_in. unfold s. rewrite (Hsort P d). split.
    - intros [Hr Hb]. apply (selb_embed ps thr d Hr) in Hb. destruct Hb as (p & E & G).
      exists (Z.to_nat d), p. repeat split; auto. lia.
    - intros (j & p & E & N & G). assert (Hr : 0 <= d < vlen P).
      { rewrite HP, <- Hlen. apply nth_error_Some_lt in N. lia. }
      split; [exact Hr|]. apply (selb_embed ps thr d Hr). exists p. split; [|exact G].
      replace (Z.to_nat d) with j by lia. exact N. }
  rewrite b_sum_filter. fold F.
  unfold v_mask. rewrite map_length, Nat.eqb_refl, pick_map_filter. fold F.
  rewrite iv_min_zmin, iv_max_zmax, (same_elems_min _ _ HF), (same_elems_max _ _ HF).
  destruct (zmin_l (sel_from 0 thr ps)) as [lo|] eqn:Elo.
  2:{ apply zmin_l_none in Elo. rewrite Elo in HF. destruct F as [|d F']; [reflexivity|].
      exfalso. apply (HF d). left. reflexivity. }
  pose proof (zmin_l_spec _ _ Elo) as [Ilo _].
  destruct (zmax_l_some _ _ Ilo) as [hi Ehi]. rewrite Ehi.
  pose proof (zmax_l_spec _ _ Ehi) as [Ihi _].
  assert (HFn : (Z.of_nat (length F) =? 0) = false).
  { apply Z.eqb_neq. apply HF in Ilo. destruct F; [destruct Ilo|simpl; lia]. }
  rewrite HFn. cbn [negb].
  assert (Rlo : 0 <= lo < Z.of_nat (length ps)).
  { apply sel_from_in in Ilo. destruct Ilo as (j & p & E & N & _). apply nth_error_Some_lt in N. lia. }
  assert (Rhi : 0 <= hi < Z.of_nat (length ps)).
  { apply sel_from_in in Ihi. destruct Ihi as (j & p & E & N & _). apply nth_error_Some_lt in N. lia. }
  destruct (v_get_curve ps lo Rlo) as (olo & Zlo & Glo). destruct (v_get_curve ps hi Rhi) as (ohi & Zhi & Ghi).
  fold P in Glo, Ghi. rewrite Glo, Ghi, Zlo, Zhi, !is_one_embed.
  set (lo' := if is_one (Some olo) then Z.max 0 (lo - 1) else lo).
  set (hi' := if is_one (Some ohi) then Z.min (vlen c - 1) (hi + 1) else hi).
  assert (Rlo' : 0 <= lo' < Z.of_nat (length disps)) by (unfold lo'; destruct (is_one (Some olo)); lia).
  assert (Rhi' : 0 <= hi' < Z.of_nat (length disps)) by (unfold hi', vlen; destruct (is_one (Some ohi)); lia).
  destruct (v_get_disps disps lo' Rlo') as (qlo & Dlo & Vlo). destruct (v_get_disps disps hi' Rhi') as (qhi & Dhi & Vhi).
  unfold lo' in Vlo, Dlo. unfold hi', vlen in Vhi, Dhi. unfold lo', vlen. unfold oq in *.
  rewrite Vlo, Vhi. cbn [fst snd]. rewrite Dlo, Dhi. reflexivity.
Qed.

(* ------------------------------------------------------------------ the preludes and the loop nests *)

Lemma concat_embed (v : volume) : concat (concat (xvolume v)) = xcurve (concat (concat v)).
Proof. unfold xvolume, xcurve. rewrite !concat_map. reflexivity. Qed.

Lemma nanmin3_embed v : np_nanmin3 (xvolume v) = of_oq (vol_min v).
Proof. unfold np_nanmin3, vol_min. rewrite concat_embed. apply np_nanmin_embed. Qed.
Lemma nanmax3_embed v : np_nanmax3 (xvolume v) = of_oq (vol_max v).
Proof. unfold np_nanmax3, vol_max. rewrite concat_embed. apply np_nanmax_embed. Qed.

Lemma shape3_embed v : shape3 (xvolume v)
  = (Z.of_nat (length v), Z.of_nat (length (hd [] v)), Z.of_nat (length (hd [] (hd [] v)))).
Proof.
  unfold shape3, xvolume, xcurve, vlen. destruct v as [|[|c r] rows]; cbn [map hd length]; rewrite ?map_length; reflexivity.
Qed.

Lemma chunks_flat {A B : Type} (g : A -> list B) n xs : (forall x, length (g x) = n) ->
  chunks (length xs) n (flat_map g xs) = map g xs.
Proof.
  intro H. induction xs as [|x r IH]; [reflexivity|]. cbn [length chunks flat_map map].
  rewrite firstn_app, skipn_app, (H x), Nat.sub_diag, firstn_O, skipn_O, app_nil_r.
  rewrite <- (H x) at 1. rewrite firstn_all.
  replace (skipn n (g x)) with (@nil B) by (symmetry; apply skipn_all2; rewrite H; lia).
  cbn [app]. rewrite IH. reflexivity.
Qed.

Lemma columns_repeat {A : Type} n (xs : list A) : columns n (map (fun x => repeat x n) xs) = repeat xs n.
Proof.
  revert xs. induction n as [|n IH]; intro xs; [reflexivity|]. cbn [columns repeat]. f_equal.
  - clear IH. induction xs as [|x r IHx]; [reflexivity|]. cbn [map flat_map repeat app]. rewrite IHx. reflexivity.
  - rewrite map_map. cbn [repeat tl]. apply IH.
Qed.

Lemma map_repeat' {A B : Type} (f : A -> B) x n : map f (repeat x n) = repeat (f x) n.
Proof. induction n; simpl; congruence. Qed.

(* two_dim_etas = np.repeat(etas, nb_disps).reshape((-1, nb_disps)).T.flatten() is the eta samples tiled *)
Lemma gen_two_dim_etas etas nd : (0 < nd)%nat ->
  exists m, v_reshape_m1 (np_repeat (xetas etas) (Z.of_nat nd)) (Z.of_nat nd) = Some m
            /\ m_flatten (m_T m) = two_dim nd etas.
Proof.
  intro Hnd. unfold v_reshape_m1, vlen. rewrite np_repeat_length.
  replace ((0 <? Z.of_nat nd) && (Z.of_nat (length (xetas etas) * nd) mod Z.of_nat nd =? 0)) with true.
  2:{ symmetry. rewrite andb_true_iff, Z.ltb_lt, Z.eqb_eq, Nat2Z.inj_mul, Z.mod_mul by lia. lia. }
  eexists. split; [reflexivity|]. unfold m_T, m_flatten. cbn [mcols mrows].
  rewrite Nat2Z.inj_mul, Z.div_mul, !Nat2Z.id by lia. unfold np_repeat. rewrite Nat2Z.id.
  rewrite chunks_flat by (intro; apply repeat_length). rewrite columns_repeat.
  unfold two_dim, xetas, tile. rewrite concat_map, map_repeat'. reflexivity.
Qed.

Lemma omap_Forall2 {A B C : Type} (f : A -> option B) (g : A -> C) (R : B -> C -> Prop) l :
  (forall x, In x l -> exists y, f x = Some y /\ R y (g x)) ->
  exists ys, omap f l = Some ys /\ Forall2 R ys (map g l).
Proof.
  induction l as [|x r IH]; intro H; [exists []; split; [reflexivity|constructor]|].
  destruct (H x (or_introl eq_refl)) as (y & E & Ry).
  destruct IH as (ys & E' & Rs); [intros; apply H; right; assumption|].
  exists (y :: ys). cbn [omap map]. rewrite E, E'. split; [reflexivity|constructor; assumption].
Qed.

Lemma omap_map {A A' B : Type} (f : A' -> option B) (h : A -> A') l : omap f (map h l) = omap (fun x => f (h x)) l.
Proof. induction l; simpl; [reflexivity|]. rewrite IHl. reflexivity. Qed.

Lemma omap2_Forall2 {A A' B C : Type} (f : A' -> option B) (h : A -> A') (g : A -> C) (R : B -> C -> Prop) (m : list (list A)) :
  (forall row x, In row m -> In x row -> exists y, f (h x) = Some y /\ R y (g x)) ->
  exists ys, omap2 f (map (map h) m) = Some ys /\ Forall2 (Forall2 R) ys (map (map g) m).
Proof.
  intro H. unfold omap2. rewrite omap_map.
  apply (omap_Forall2 (fun row => omap f (map h row)) (map g) (Forall2 R)).
  intros row Hrow. rewrite omap_map. apply omap_Forall2. intros x Hx. apply (H row x Hrow Hx).
Qed.

Lemma Forall2_len {A B : Type} (R : A -> B -> Prop) l l' : Forall2 R l l' -> length l = length l'.
Proof. induction 1; simpl; congruence. Qed.

Lemma ozip_Forall2 {A A' B C D : Type} (f : A' -> B -> option C) (h : A -> A') (g : A -> D) (R : C -> D -> Prop)
      (Rb : B -> A -> Prop) l lb :
  Forall2 Rb lb l ->
  (forall x y, In x l -> Rb y x -> exists z, f (h x) y = Some z /\ R z (g x)) ->
  exists zs, ozip f (map h l) lb = Some zs /\ Forall2 R zs (map g l).
Proof.
  intros HF H. unfold ozip. rewrite map_length, <- (Forall2_len _ _ _ HF), Nat.eqb_refl.
  induction HF as [|y x lb l Hyx HF IH]; [exists []; split; [reflexivity|constructor]|].
  destruct (H x y (or_introl eq_refl) Hyx) as (z & E & Rz).
  destruct IH as (zs & E' & Rs); [intros; eapply H; [right|]; eassumption|].
  exists (z :: zs). cbn [map combine omap fst snd]. rewrite E, E'. split; [reflexivity|constructor; assumption].
Qed.

Lemma ozip2_Forall2 {A A' B C D : Type} (f : A' -> B -> option C) (h : A -> A') (g : A -> D) (R : C -> D -> Prop)
      (Rb : B -> A -> Prop) (m : list (list A)) mb :
  Forall2 (Forall2 Rb) mb m ->
  (forall row x y, In row m -> In x row -> Rb y x -> exists z, f (h x) y = Some z /\ R z (g x)) ->
  exists zs, ozip2 f (map (map h) m) mb = Some zs /\ Forall2 (Forall2 R) zs (map (map g) m).
Proof.
  intros HF H. unfold ozip2.
  apply (ozip_Forall2 (ozip f) (map h) (map g) (Forall2 R) (Forall2 Rb) m mb HF).
  intros row rb Hrow Hrb. apply (ozip_Forall2 f h g R Rb row rb Hrb). intros x y Hx Hy. apply (H row x y Hrow Hx Hy).
Qed.

Lemma Forall2_map_l {A B C : Type} (R : B -> C -> Prop) (f : A -> B) l l' :
  Forall2 (fun x y => R (f x) y) l l' -> Forall2 R (map f l) l'.
Proof. induction 1; simpl; constructor; auto. Qed.

Lemma Forall2_impl {A B : Type} (R R' : A -> B -> Prop) l l' : (forall x y, R x y -> R' x y) -> Forall2 R l l' -> Forall2 R' l l'.
Proof. intro H. induction 1; constructor; auto. Qed.

Lemma Forall2_eq {A : Type} (l l' : list A) : Forall2 eq l l' -> l = l'.
Proof. induction 1; congruence. Qed.

Lemma gen_risk_pixel_eq' mn mx etas c : ~ (mn == mx)%Q ->
  exists a b, G.compute_risk_pixel (XFin mn) (XFin mx) (vlen c) (xetas etas) (two_dim (length c) etas) (xcurve c)
                                   (v_ofz (samp_pixel mn mx etas c)) (XFin 0) (XFin 0) = Some (a, b)
              /\ xeq a (of_oq (fst (risk_pixel mn mx etas c))) /\ xeq b (of_oq (snd (risk_pixel mn mx etas c))).
Proof.
  intro Hs. destruct (gen_samp_pixel_eq mn mx etas c Hs) as (r0 & Hsamp & _).
  pose proof (gen_risk_pixel_eq mn mx etas c Hs) as H. unfold grisk_pixel in H. rewrite Hsamp in H. exact H.
Qed.

Section WholeKernels.
  Variables (v : volume) (a b : Q) (etas : list Q) (nd : nat).
  Hypothesis Ia : In (Some a) (concat (concat v)).
  Hypothesis Ib : In (Some b) (concat (concat v)).
  Hypothesis Ne : ~ (a == b)%Q.
  Hypothesis Hnd : (0 < nd)%nat.
  Hypothesis Hsh : vol_shape nd v.

  Lemma span_ne mn mx : (mn < mx)%Q -> ~ (mn == mx)%Q.
  Proof. intros H E. rewrite E in H. apply (Qlt_irrefl _ H). Qed.

  Theorem gen_amb_map_eq :
    exists m, G.compute_ambiguity (xvolume v) (xetas etas) = Some m
              /\ Forall2 (Forall2 xeq) m (map (map xofz) (amb_map etas v)).
  Proof.
    destruct (maps_are_pixelwise v a b etas 0%Q 0%Q [] Ia Ib Ne) as (mn & mx & Emn & Emx & Hlt & Eamb & _ & _).
    unfold G.compute_ambiguity. rewrite nanmin3_embed, nanmax3_embed, shape3_embed, Emn, Emx.
    destruct Hsh as [Hhd Hall]. rewrite Hhd. cbn [of_oq].
    destruct (gen_two_dim_etas etas nd Hnd) as (m0 & E0 & E1). rewrite E0, E1, Eamb, map_map.
    unfold xvolume. rewrite (map_ext _ _ (fun row => map_map (amb_pixel mn mx etas) xofz row)).
    apply (omap2_Forall2 _ xcurve (fun c => xofz (amb_pixel mn mx etas c)) xeq).
    intros row c Hrow Hc. rewrite <- (Hall row c Hrow Hc).
    apply (gen_amb_pixel_eq mn mx etas c (span_ne _ _ Hlt)).
  Qed.

  (* the sampled ambiguity kernel: the ambiguity again and, per pixel, the sampled ambiguity of the model *)
  Theorem gen_samp_map_eq :
    exists mn mx M, vol_min v = Some mn /\ vol_max v = Some mx /\ (mn < mx)%Q
      /\ G.compute_ambiguity_and_sampled_ambiguity (xvolume v) (xetas etas) = Some M
      /\ Forall2 (Forall2 (fun p c => xeq (fst p) (xofz (amb_pixel mn mx etas c))
                                      /\ snd p = v_ofz (samp_pixel mn mx etas c))) M v.
  Proof.
    destruct (maps_are_pixelwise v a b etas 0%Q 0%Q [] Ia Ib Ne) as (mn & mx & Emn & Emx & Hlt & _).
    exists mn, mx. unfold G.compute_ambiguity_and_sampled_ambiguity.
    rewrite nanmin3_embed, nanmax3_embed, shape3_embed, Emn, Emx.
    destruct Hsh as [Hhd Hall]. rewrite Hhd. cbn [of_oq].
    destruct (gen_two_dim_etas etas nd Hnd) as (m0 & E0 & E1). rewrite E0, E1.
    destruct (omap2_Forall2
                (fun cv_rc => G.compute_ambiguity_and_sampled_ambiguity_pixel (XFin mn) (XFin mx) (Z.of_nat nd) (xetas etas)
                                (two_dim nd etas) cv_rc (XFin 0) (np_zeros (vlen (xetas etas))))
                xcurve (fun c => c)
                (fun p c => xeq (fst p) (xofz (amb_pixel mn mx etas c)) /\ snd p = v_ofz (samp_pixel mn mx etas c)) v)
      as (M & EM & HM).
    { intros row c Hrow Hc. rewrite <- (Hall row c Hrow Hc).
      destruct (gen_samp_pixel_eq mn mx etas c (span_ne _ _ Hlt)) as (r & E & X).
      eexists. split; [exact E|]. split; [exact X|reflexivity]. }
    exists M. repeat split; auto.
    rewrite (map_ext _ _ (fun row => map_id row)), map_id in HM. exact HM.
  Qed.

  Theorem gen_risk_map_eq :
    exists m, grisk_map v etas = Some m /\ Forall2 (Forall2 xeq2) m (map (map xpair) (risk_map etas v)).
  Proof.
    destruct gen_samp_map_eq as (mn & mx & M & Emn & Emx & Hlt & EM & HM).
    destruct (maps_are_pixelwise v a b etas 0%Q 0%Q [] Ia Ib Ne) as (mn' & mx' & Emn' & Emx' & _ & _ & Erisk & _).
    rewrite Emn in Emn'. rewrite Emx in Emx'. inversion Emn'; inversion Emx'; subst mn' mx'.
    unfold grisk_map. rewrite EM. unfold G.compute_risk.
    rewrite nanmin3_embed, nanmax3_embed, shape3_embed, Emn, Emx.
    destruct Hsh as [Hhd Hall]. rewrite Hhd. cbn [of_oq].
    destruct (gen_two_dim_etas etas nd Hnd) as (m0 & E0 & E1). rewrite E0, E1, Erisk, map_map.
    rewrite (map_ext _ _ (fun row => map_map (risk_pixel mn mx etas) xpair row)).
    apply (ozip2_Forall2 _ xcurve (fun c => xpair (risk_pixel mn mx etas c)) xeq2
                         (fun s c => s = v_ofz (samp_pixel mn mx etas c))).
    - apply Forall2_map_l. eapply Forall2_impl; [|exact HM]. intros r0 row0 H0.
      apply Forall2_map_l. eapply Forall2_impl; [|exact H0]. intros p c [_ Hp]. exact Hp.
    - intros row c s Hrow Hc Hs'. subst s. rewrite <- (Hall row c Hrow Hc).
      destruct (gen_risk_pixel_eq' mn mx etas c (span_ne _ _ Hlt)) as (ra & rb & E & Xa & Xb).
      eexists. split; [exact E|]. split; assumption.
  Qed.

  Theorem gen_bounds_map_eq argsort tf thr disps : argsort_ok argsort -> length disps = nd ->
    G.compute_interval_bounds argsort (xvolume v) (xetas disps) (XFin thr) (XFin tf)
    = Some (map (map xpair) (bounds_map tf thr disps v)).
  Proof.
    intros Hsort Hd.
    destruct (maps_are_pixelwise v a b etas tf thr disps Ia Ib Ne) as (mn & mx & Emn & Emx & Hlt & _ & _ & Eb).
    unfold G.compute_interval_bounds. rewrite nanmin3_embed, nanmax3_embed, shape3_embed, Emn, Emx.
    destruct Hsh as [Hhd Hall]. rewrite Hhd. cbn [of_oq]. rewrite Eb, map_map.
    rewrite (map_ext _ _ (fun row => map_map (bounds_pixel mn mx tf thr disps) xpair row)).
    destruct (omap2_Forall2
                (fun cv_rc => G.compute_interval_bounds_pixel argsort (xetas disps) (XFin thr) (XFin tf) (XFin mn) (XFin mx)
                                (Z.of_nat nd) cv_rc (xofz 0) (xofz 0))
                xcurve (fun c => xpair (bounds_pixel mn mx tf thr disps c)) eq v) as (ys & E & HF).
    { intros row c Hrow Hc. eexists. split; [|reflexivity]. rewrite <- (Hall row c Hrow Hc).
      apply (gen_bounds_pixel_eq argsort mn mx tf thr disps c Hsort (span_ne _ _ Hlt)).
      rewrite Hd. symmetry. apply (Hall row c Hrow Hc). }
    unfold xvolume. rewrite E. f_equal. apply Forall2_eq. eapply Forall2_impl; [|exact HF]. intros. apply Forall2_eq. assumption.
  Qed.
End WholeKernels.

(* ------------------------------------------------------------------ the headline theorems on the generated kernels *)

Lemma xeq_fin_r a q : xeq a (XFin q) -> exists r, a = XFin r /\ (r == q)%Q.
Proof. destruct a; simpl; intro H; try contradiction. eauto. Qed.

Lemma gen_ambiguity_def mn mx etas c : ~ (mn == mx)%Q ->
  exists r, gamb_pixel mn mx etas c = Some (XFin r) /\
    match nanmin c with
    | Some m => is_best_min c m /\ (r == inject_Z (spec_amb (norm mn mx m) etas (ncurve mn mx c)))%Q
    | None => (forall x, ~ In (Some x) c) /\ (r == inject_Z (Z.of_nat (length etas) * Z.of_nat (length c)))%Q
    end.
Proof.
  intro Hs. destruct (gen_amb_pixel_eq mn mx etas c Hs) as (r0 & E & X).
  apply xeq_fin_r in X. destruct X as (r & -> & Hr). exists r. split; [exact E|].
  pose proof (ambiguity_def mn mx etas c) as D. destruct (nanmin c); destruct D as [D1 D2]; (split; [exact D1|]);
    rewrite Hr, D2; reflexivity.
Qed.

Lemma gen_risk_order mn mx etas c : ~ (mn == mx)%Q ->
  exists a b, grisk_pixel mn mx etas c = Some (a, b) /\
    match a, b with
    | XFin rmax, XFin rmin => (0 <= rmin /\ rmin <= rmax)%Q
    | XNaN, XNaN => True
    | _, _ => False
    end.
Proof.
  intro Hs. destruct (gen_risk_pixel_eq mn mx etas c Hs) as (a & b & E & Xa & Xb). exists a, b. split; [exact E|].
  pose proof (risk_order mn mx etas c) as O. destruct (risk_pixel mn mx etas c) as [[x|] [y|]]; cbn [fst snd of_oq] in *;
    try contradiction.
  - apply xeq_fin_r in Xa, Xb. destruct Xa as (ra & -> & Ha), Xb as (rb & -> & Hb). rewrite Ha, Hb. exact O.
  - destruct a, b; simpl in Xa, Xb; try contradiction. exact I.
Qed.

Lemma gen_risk_finite mn mx etas c x : ~ (mn == mx)%Q ->
  In (Some x) c -> etas <> [] -> Forall (fun e => 0 <= e)%Q etas ->
  exists rmax rmin, grisk_pixel mn mx etas c = Some (XFin rmax, XFin rmin).
Proof.
  intros Hs Hin He Hpos. destruct (gen_risk_pixel_eq mn mx etas c Hs) as (a & b & E & Xa & Xb).
  destruct (risk_finite mn mx etas c x Hin He Hpos) as (rmax & rmin & R). rewrite R in Xa, Xb. cbn [fst snd of_oq] in *.
  apply xeq_fin_r in Xa, Xb. destruct Xa as (ra & -> & _), Xb as (rb & -> & _). eauto.
Qed.

Lemma gen_bounds_bracket_wta argsort mn mx is_min thr disps c w : argsort_ok argsort ->
  (mn < mx)%Q -> (thr <= 1)%Q -> length disps = length c -> increasing disps ->
  wta is_min c = Some w ->
  exists dinf dw dsup,
    gbounds_pixel argsort mn mx (type_factor is_min) thr disps c = Some (XFin dinf, XFin dsup)
    /\ znth_error disps w = Some dw /\ (dinf <= dw)%Q /\ (dw <= dsup)%Q.
Proof.
  intros Hsort Hlt Hthr Hd Hinc Hw.
  destruct (bounds_bracket_wta mn mx is_min thr disps c w Hlt Hthr Hd Hinc Hw) as (dinf & dw & dsup & B & Z & L1 & L2).
  exists dinf, dw, dsup. repeat split; auto.
  rewrite (gen_bounds_pixel_eq argsort mn mx (type_factor is_min) thr disps c Hsort) by
      (auto; intro E; rewrite E in Hlt; apply (Qlt_irrefl _ Hlt)).
  rewrite B. reflexivity.
Qed.

(* the contract asked of np.argsort is satisfiable: the identity permutation *)
Definition argsort_id (v : vec) : ivec := np_arange (vlen v).
Lemma argsort_id_ok : argsort_ok argsort_id.
Proof.
  intros v j. unfold argsort_id, np_arange, vlen. rewrite Nat2Z.id, in_map_iff. split.
  - intros (k & <- & Hk). apply in_seq in Hk. lia.
  - intro H. exists (Z.to_nat j). split; [lia|]. apply in_seq. lia.
Qed.
(* ... and by the reversed one (what a descending sort of an increasing curve would give) *)
Definition argsort_rev (v : vec) : ivec := rev (np_arange (vlen v)).
Lemma argsort_rev_ok : argsort_ok argsort_rev.
Proof. intros v j. unfold argsort_rev. rewrite <- in_rev. apply argsort_id_ok. Qed.

(* ------------------------------------------------------------------ normalize_with_percentile *)

Lemma np_min1_embed l : np_min1 (map XFin l) = option_map XFin (fin_min l).
Proof.
  unfold fin_min. induction l as [|x r IH]; [reflexivity|]. cbn [map np_min1 nanmin]. rewrite IH.
  destruct (nanmin (map Some r)); cbn [option_map]; [|reflexivity].
  unfold xminimum, xmin2, qmin. cbn [xisnan orb xle]. destruct (Qle_bool x q); reflexivity.
Qed.

Lemma np_max1_embed l : np_max1 (map XFin l) = option_map XFin (fin_max l).
Proof.
  unfold fin_max. induction l as [|x r IH]; [reflexivity|]. cbn [map np_max1 nanmax]. rewrite IH.
  destruct (nanmax (map Some r)); cbn [option_map]; [|reflexivity].
  unfold xmaximum, xmax2, qmax. cbn [xisnan orb xle]. destruct (Qle_bool x q); reflexivity.
Qed.

Lemma clip_embed lo hi (m : list (list Q)) :
  np_clip2 (map (map XFin) m) (XFin lo) (XFin hi) = map (map XFin) (map (map (clipq lo hi)) m).
Proof.
  unfold np_clip2. rewrite !map_map. apply map_ext. intro row. rewrite !map_map. apply map_ext. intro x.
  unfold clipq, xminimum, xmaximum, xmax2, xmin2, qmin, qmax. cbn [xisnan orb xle].
  destruct (Qle_bool x lo); cbn [xisnan orb xle]; [destruct (Qle_bool lo hi)|destruct (Qle_bool x hi)]; reflexivity.
Qed.

Lemma qeqb_diff hi lo : Qeq_bool (hi - lo) 0 = Qeq_bool hi lo.
Proof.
  destruct (Qeq_bool hi lo) eqn:E.
  - apply Qeq_bool_iff in E. apply Qeq_bool_iff. lra.
  - destruct (Qeq_bool (hi - lo) 0) eqn:E'; [|reflexivity]. apply Qeq_bool_iff in E'.
    assert (H : (hi == lo)%Q) by lra. apply Qeq_bool_iff in H. congruence.
Qed.

Lemma mapmap_comp {A B C : Type} (f : B -> C) (g : A -> B) (m : list (list A)) :
  map (map f) (map (map g) m) = map (map (fun x => f (g x))) m.
Proof. rewrite map_map. apply map_ext. intro. apply map_map. Qed.

Lemma Forall2_mapmap {A B C : Type} (R : B -> C -> Prop) (f : A -> B) (g : A -> C) (m : list (list A)) :
  (forall x, R (f x) (g x)) -> Forall2 (Forall2 R) (map (map f) m) (map (map g) m).
Proof. intro H. apply Forall2_map_same. intro row. apply Forall2_map_same. exact H. Qed.

Theorem gen_normalize_eq pctl p (amb : list (list Q)) : percentile_ok pctl -> concat amb <> [] ->
  exists r, G.normalize_with_percentile pctl (XFin p) (map (map XFin) amb) = Some r
            /\ Forall2 (Forall2 xeq) r (map (map of_oq) (normalize_percentile true p amb)).
Proof.
  intros Hp Hne. unfold G.normalize_with_percentile, normalize_percentile. cbn [xsub xofz]. rewrite !Hp.
  change (inject_Z 100) with 100%Q.
  assert (Hs : qsort (concat amb) <> []) by (intro E; apply Hne; apply qsort_nil; exact E).
  destruct (quantile_sorted (qsort (concat amb)) (p / 100)) as [pmin|] eqn:E1;
    [|apply quantile_sorted_none in E1; contradiction].
  destruct (quantile_sorted (qsort (concat amb)) ((100 - p) / 100)) as [pmax|] eqn:E2;
    [|apply quantile_sorted_none in E2; contradiction].
  cbn [of_oq]. rewrite clip_embed. set (cl := map (map (clipq pmin pmax)) amb).
  unfold np_min2, np_max2, minmax_scale. rewrite <- !concat_map, np_min1_embed, np_max1_embed.
  assert (Hcl : exists x, In x (concat cl)).
  { destruct (concat amb) as [|x0 r0] eqn:Ec; [contradiction|].
    assert (I0 : In x0 (concat amb)) by (rewrite Ec; left; reflexivity).
    apply in_concat in I0. destruct I0 as (row & Hrow & Hx). exists (clipq pmin pmax x0).
    unfold cl. apply in_concat. exists (map (clipq pmin pmax) row). split; apply in_map; assumption. }
  destruct Hcl as (x0 & Hx0).
  destruct (fin_min_some _ _ Hx0) as (lo & Elo). destruct (fin_max_some _ _ Hx0) as (hi & Ehi).
  rewrite Elo, Ehi. cbn [option_map xsub xeqb xofz]. change (inject_Z 0) with 0%Q. rewrite qeqb_diff.
  destruct (Qeq_bool hi lo) eqn:Eq; (eexists; split; [reflexivity|]); unfold m2s; rewrite !mapmap_comp;
    apply Forall2_mapmap; intro x; cbn [xsub xdiv of_oq].
  - unfold xofz. change (Qeq_bool (inject_Z 1) 0) with false. cbv iota. cbn [xeq]. field.
  - rewrite qeqb_diff, Eq. apply xeq_refl.
Qed.

Lemma Forall2_In_l {A B : Type} (R : A -> B -> Prop) l l' x : Forall2 R l l' -> In x l -> exists y, In y l' /\ R x y.
Proof.
  induction 1 as [|a b l l' Hab _ IH]; intro H; [destruct H|]. destruct H as [<-|H].
  - exists b. split; [left; reflexivity|exact Hab].
  - destruct (IH H) as (y & Hy & Ry). exists y. split; [right; exact Hy|exact Ry].
Qed.

(* the generated normalisation returns finite values of [0, 1] for EVERY non-empty ambiguity map *)
Theorem gen_normalize_in01 pctl p (amb : list (list Q)) : percentile_ok pctl -> concat amb <> [] ->
  exists r, G.normalize_with_percentile pctl (XFin p) (map (map XFin) amb) = Some r /\
    forall row y, In row r -> In y row -> exists q, y = XFin q /\ (0 <= q <= 1)%Q.
Proof.
  intros Hp Hne. destruct (gen_normalize_eq pctl p amb Hp Hne) as (r & Er & HF). exists r. split; [exact Er|].
  intros row y Hrow Hy.
  pose proof (normalize_percentile_in01 true p amb (or_introl eq_refl)) as H01.
  destruct (Forall2_In_l _ _ _ _ HF Hrow) as (row' & Hrow' & HF').
  destruct (Forall2_In_l _ _ _ _ HF' Hy) as (y' & Hy' & Hxy).
  destruct (in_mapmap _ _ _ _ Hrow' Hy') as (r0 & o & Hr0 & Ho & ->).
  destruct (H01 r0 o Hr0 Ho) as (q & -> & Hq). cbn [of_oq] in Hxy.
  apply xeq_fin_r in Hxy. destruct Hxy as (q' & -> & Hq'). exists q'. split; [reflexivity|]. rewrite Hq'. exact Hq.
Qed.

(* the contract asked of np.percentile is satisfiable: linear interpolation on the sorted finite entries *)
Fixpoint fins (l : vec) : list Q :=
  match l with [] => [] | XFin q :: r => q :: fins r | _ :: r => fins r end.
Definition pctl_lin (m : mat2) (q : xf) : xf :=
  match q with XFin q' => of_oq (quantile_sorted (qsort (fins (concat m))) (q' / 100)) | _ => XNaN end.
Lemma pctl_lin_ok : percentile_ok pctl_lin.
Proof.
  intros amb q. unfold pctl_lin. f_equal. f_equal. f_equal. rewrite <- concat_map.
  induction (concat amb) as [|x r IH]; [reflexivity|]. cbn [map fins]. rewrite IH. reflexivity.
Qed.

(* ------------------------------------------------------------------ degenerate volumes: no finite cost, or all
   finite costs equal (max_cost - min_cost = 0: the kernels divide 0 by 0, every normalised cost is NaN).  Outside
   the property's domain; the generated kernels still agree with the model's maps. *)

Definition degen (omn omx : option Q) : Prop :=
  match omn, omx with Some mn, Some mx => Qeq_bool mn mx = true | _, _ => True end.

Lemma qsgn_zero x : (x == 0)%Q -> qsgn x = 0.
Proof. intro H. unfold Qeq in H. simpl in H. rewrite Z.mul_1_r in H. unfold qsgn. rewrite H. reflexivity. Qed.

Lemma norm_nan omn omx (o : oq) : degen omn omx ->
  (forall x mn, o = Some x -> omn = Some mn -> (x == mn)%Q) ->
  xdiv (xsub (of_oq o) (of_oq omn)) (xsub (of_oq omx) (of_oq omn)) = XNaN.
Proof.
  intros D H. destruct omn as [mn|], omx as [mx|], o as [x|]; cbn [of_oq xsub xadd xneg xdiv]; try reflexivity.
  cbn [degen] in D. rewrite qeqb_diff.
  assert (E : Qeq_bool mx mn = true) by (apply Qeq_bool_iff; apply Qeq_bool_iff in D; symmetry; exact D).
  rewrite E. rewrite qsgn_zero; [reflexivity|]. specialize (H x mn eq_refl eq_refl). lra.
Qed.

Lemma nmc_degenerate omn omx c : degen omn omx ->
  (forall x mn, In (Some x) c -> omn = Some mn -> (x == mn)%Q) ->
  xisnan (xdiv (xsub (np_nanmin (xcurve c)) (of_oq omn)) (xsub (of_oq omx) (of_oq omn))) = true.
Proof.
  intros D H. rewrite np_nanmin_embed, (norm_nan omn omx (nanmin c) D); [reflexivity|].
  intros x mn E1 E2. apply (H x mn); [|exact E2]. apply nanmin_spec in E1. tauto.
Qed.

Lemma norm_all_nan omn omx c : degen omn omx ->
  (forall x mn, In (Some x) c -> omn = Some mn -> (x == mn)%Q) ->
  vs xdiv (vs xsub (xcurve c) (of_oq omn)) (xsub (of_oq omx) (of_oq omn)) = map (fun _ => XNaN) c.
Proof.
  intros D H. unfold vs, xcurve. rewrite !map_map. apply map_ext_in. intros o Ho.
  apply (norm_nan omn omx o D). intros x mn -> E. apply (H x mn Ho E).
Qed.

Lemma amb_pixel_degenerate omn omx etas td c : degen omn omx ->
  (forall x mn, In (Some x) c -> omn = Some mn -> (x == mn)%Q) ->
  G.compute_ambiguity_pixel (of_oq omn) (of_oq omx) (vlen c) (xetas etas) td (xcurve c) (XFin 0)
  = Some (xofz (amb_allnan etas c)).
Proof.
  intros D H. unfold G.compute_ambiguity_pixel. rewrite (nmc_degenerate _ _ _ D H), vlen_xetas. reflexivity.
Qed.

Lemma samp_pixel_degenerate omn omx etas td c z : degen omn omx ->
  (forall x mn, In (Some x) c -> omn = Some mn -> (x == mn)%Q) ->
  exists s, G.compute_ambiguity_and_sampled_ambiguity_pixel (of_oq omn) (of_oq omx) (vlen c) (xetas etas) td (xcurve c) (XFin 0) z
            = Some (xofz (amb_allnan etas c), s).
Proof.
  intros D H. unfold G.compute_ambiguity_and_sampled_ambiguity_pixel. rewrite (nmc_degenerate _ _ _ D H), vlen_xetas.
  eexists. reflexivity.
Qed.

Lemma risk_pixel_degenerate omn omx etas td c s : degen omn omx ->
  (forall x mn, In (Some x) c -> omn = Some mn -> (x == mn)%Q) ->
  G.compute_risk_pixel (of_oq omn) (of_oq omx) (vlen c) (xetas etas) td (xcurve c) s (XFin 0) (XFin 0) = Some (XNaN, XNaN).
Proof. intros D H. unfold G.compute_risk_pixel. rewrite (nmc_degenerate _ _ _ D H). reflexivity. Qed.

Lemma selb_all_nan {A : Type} (c : list A) T j : selb (map (fun _ => XNaN) c) T j = false.
Proof.
  unfold selb, v_get. destruct (norm_index _ j) as [k|]; [|reflexivity].
  rewrite nth_error_map'. destruct (nth_error c k); cbn [option_map]; [|reflexivity]. destruct T; reflexivity.
Qed.

Lemma bounds_pixel_degenerate argsort omn omx tf thr dv c : argsort_ok argsort -> degen omn omx ->
  (forall x mn, In (Some x) c -> omn = Some mn -> (x == mn)%Q) ->
  G.compute_interval_bounds_pixel argsort dv thr tf (of_oq omn) (of_oq omx) (vlen c) (xcurve c) (xofz 0) (xofz 0)
  = Some (XNaN, XNaN).
Proof.
  intros Hsort D H. unfold G.compute_interval_bounds_pixel. rewrite (norm_all_nan _ _ _ D H).
  match goal with |- context [sv xmul tf ?N] => set (P := N) end.
  assert (HP : vs xsub (vs xadd (sv xmul tf P) (xofz 1)) (np_nanmax (sv xmul tf P)) = P).
  { unfold vs, sv, P. rewrite !map_map. apply map_ext. intros _. destruct tf; reflexivity. }
  rewrite HP.
  destruct (take_sel P thr (argsort P)) as (l & H1 & H2); [intros j Hj; apply Hsort; exact Hj|].
  rewrite H1, H2. rewrite b_sum_filter.
  assert (HF : filter (selb P thr) (argsort P) = []).
  { clear H1 H2. induction (argsort P) as [|j r IH]; [reflexivity|]. cbn [filter]. unfold P at 1. rewrite selb_all_nan. exact IH. }
  rewrite HF. reflexivity.
Qed.

(* all finite costs of a degenerate volume are equal to its minimum *)
Lemma degen_costs (v : volume) mn mx : vol_min v = Some mn -> vol_max v = Some mx -> Qeq_bool mn mx = true ->
  forall row c x, In row v -> In c row -> In (Some x) c -> (x == mn)%Q.
Proof.
  intros Emn Emx Eq row c x Hrow Hc Hx. apply Qeq_bool_iff in Eq.
  assert (I : In (Some x) (concat (concat v))).
  { apply in_concat. exists c. split; [|exact Hx]. apply in_concat. exists row. split; assumption. }
  unfold vol_min in Emn. unfold vol_max in Emx. apply nanmin_spec in Emn. apply nanmax_spec in Emx.
  destruct Emn as [_ L1], Emx as [_ L2]. pose proof (L1 x I). pose proof (L2 x I). lra.
Qed.

Lemma omap2_const {A A' B : Type} (f : A' -> option B) (h : A -> A') (g : A -> B) (m : list (list A)) :
  (forall row x, In row m -> In x row -> f (h x) = Some (g x)) ->
  omap2 f (map (map h) m) = Some (map (map g) m).
Proof.
  intro H. destruct (omap2_Forall2 f h g eq m) as (ys & E & HF).
  { intros row x Hrow Hx. exists (g x). split; [apply (H row x Hrow Hx)|reflexivity]. }
  rewrite E. f_equal. apply Forall2_eq. eapply Forall2_impl; [|exact HF]. intros. apply Forall2_eq. assumption.
Qed.

Lemma Forall2_refl_map {A B : Type} (R : B -> B -> Prop) (f : A -> B) l : (forall x, R (f x) (f x)) -> Forall2 R (map f l) (map f l).
Proof. intro H. apply Forall2_map_same. exact H. Qed.

Section AllVolumes.
  Variables (v : volume) (nd : nat).
  Hypothesis Hsh : vol_shape nd v.

  (* either the property's domain (two distinct finite extrema) or a degenerate volume *)
  Lemma vol_cases :
    (exists mn mx, vol_min v = Some mn /\ vol_max v = Some mx /\ Qeq_bool mn mx = false /\ ~ (mn == mx)%Q)
    \/ (degen (vol_min v) (vol_max v)
        /\ forall row c x mn, In row v -> In c row -> In (Some x) c -> vol_min v = Some mn -> (x == mn)%Q).
  Proof.
    destruct (vol_min v) as [mn|] eqn:Emn; [|right; split; [exact I|discriminate]].
    destruct (vol_max v) as [mx|] eqn:Emx; [|right; split; [exact I|]].
    - destruct (Qeq_bool mn mx) eqn:Eq.
      + right. split; [exact Eq|]. intros row c x mn' Hrow Hc Hx E. inversion E; subst mn'.
        apply (degen_costs v mn mx Emn Emx Eq row c x Hrow Hc Hx).
      + left. exists mn, mx. repeat split; auto. intro C. apply Qeq_bool_iff in C. congruence.
    - intros row c x mn' Hrow Hc Hx _. exfalso.
      assert (I0 : In (Some x) (concat (concat v))).
      { apply in_concat. exists c. split; [|exact Hx]. apply in_concat. exists row. split; assumption. }
      destruct (nanmax_some _ _ I0) as (m' & E'). unfold vol_max in Emx. congruence.
  Qed.

  Theorem gen_amb_map_eq_all etas : (0 < nd)%nat ->
    exists m, G.compute_ambiguity (xvolume v) (xetas etas) = Some m
              /\ Forall2 (Forall2 xeq) m (map (map xofz) (amb_map etas v)).
  Proof.
    intro Hnd. unfold G.compute_ambiguity. rewrite nanmin3_embed, nanmax3_embed, shape3_embed.
    destruct Hsh as [Hhd Hall]. rewrite Hhd.
    destruct (gen_two_dim_etas etas nd Hnd) as (m0 & E0 & E1). rewrite E0, E1.
    destruct vol_cases as [(mn & mx & Emn & Emx & Eq & Ne)|[D Hc]].
    - unfold amb_map. rewrite Emn, Emx, Eq. cbn [of_oq]. rewrite mapmap_comp.
      apply (omap2_Forall2 _ xcurve (fun c => xofz (amb_pixel mn mx etas c)) xeq).
      intros row c Hrow Hc. rewrite <- (Hall row c Hrow Hc). apply (gen_amb_pixel_eq mn mx etas c Ne).
    - assert (Ea : amb_map etas v = map (map (amb_allnan etas)) v).
      { unfold amb_map. unfold degen in D. destruct (vol_min v), (vol_max v); try reflexivity. rewrite D. reflexivity. }
      rewrite Ea, mapmap_comp. unfold xvolume.
      rewrite (omap2_const _ xcurve (fun c => xofz (amb_allnan etas c))).
      + eexists. split; [reflexivity|]. apply Forall2_refl_map. intro row. apply Forall2_refl_map. intro. apply xeq_refl.
      + intros row c Hrow Hc'. rewrite <- (Hall row c Hrow Hc').
        apply amb_pixel_degenerate; [exact D|]. intros x mn Hx E. apply (Hc row c x mn Hrow Hc' Hx E).
  Qed.

  Theorem gen_bounds_map_eq_all argsort tf thr disps : argsort_ok argsort -> length disps = nd ->
    G.compute_interval_bounds argsort (xvolume v) (xetas disps) (XFin thr) (XFin tf)
    = Some (map (map xpair) (bounds_map tf thr disps v)).
  Proof.
    intros Hsort Hd. unfold G.compute_interval_bounds. rewrite nanmin3_embed, nanmax3_embed, shape3_embed.
    destruct Hsh as [Hhd Hall]. rewrite Hhd.
    destruct vol_cases as [(mn & mx & Emn & Emx & Eq & Ne)|[D Hc]].
    - unfold bounds_map. rewrite Emn, Emx, Eq. cbn [of_oq]. rewrite mapmap_comp. unfold xvolume.
      apply omap2_const. intros row c Hrow Hc. rewrite <- (Hall row c Hrow Hc).
      apply (gen_bounds_pixel_eq argsort mn mx tf thr disps c Hsort Ne). rewrite Hd. symmetry. apply (Hall row c Hrow Hc).
    - assert (Eb : bounds_map tf thr disps v = map (map (fun _ => (None, None))) v).
      { unfold bounds_map. unfold degen in D. destruct (vol_min v), (vol_max v); try reflexivity. rewrite D. reflexivity. }
      rewrite Eb, mapmap_comp. unfold xvolume. apply omap2_const.
      intros row c Hrow Hc'. rewrite <- (Hall row c Hrow Hc').
      apply bounds_pixel_degenerate; [exact Hsort|exact D|]. intros x mn Hx E. apply (Hc row c x mn Hrow Hc' Hx E).
  Qed.

  Theorem gen_risk_map_eq_all etas : (0 < nd)%nat ->
    exists m, grisk_map v etas = Some m /\ Forall2 (Forall2 xeq2) m (map (map xpair) (risk_map etas v)).
  Proof.
    intro Hnd. unfold grisk_map, G.compute_ambiguity_and_sampled_ambiguity, G.compute_risk.
    rewrite nanmin3_embed, nanmax3_embed, shape3_embed.
    destruct Hsh as [Hhd Hall]. rewrite Hhd.
    destruct (gen_two_dim_etas etas nd Hnd) as (m0 & E0 & E1). rewrite E0, E1.
    destruct vol_cases as [(mn & mx & Emn & Emx & Eq & Ne)|[D Hc]].
    - unfold risk_map. rewrite Emn, Emx, Eq. cbn [of_oq].
      destruct (omap2_Forall2
                  (fun cv_rc => G.compute_ambiguity_and_sampled_ambiguity_pixel (XFin mn) (XFin mx) (Z.of_nat nd) (xetas etas)
                                  (two_dim nd etas) cv_rc (XFin 0) (np_zeros (vlen (xetas etas))))
                  xcurve (fun c => c) (fun p c => snd p = v_ofz (samp_pixel mn mx etas c)) v) as (M & EM & HM).
      { intros row c Hrow Hc. rewrite <- (Hall row c Hrow Hc).
        destruct (gen_samp_pixel_eq mn mx etas c Ne) as (r & E & X). eexists. split; [exact E|reflexivity]. }
      unfold xvolume. rewrite EM. rewrite (map_ext _ _ (fun row => map_id row)), map_id in HM. rewrite mapmap_comp.
      apply (ozip2_Forall2 _ xcurve (fun c => xpair (risk_pixel mn mx etas c)) xeq2
                           (fun s c => s = v_ofz (samp_pixel mn mx etas c))).
      + apply Forall2_map_l. eapply Forall2_impl; [|exact HM]. intros r0 row0 H0. apply Forall2_map_l. exact H0.
      + intros row c s Hrow Hc Hs'. subst s. rewrite <- (Hall row c Hrow Hc).
        destruct (gen_risk_pixel_eq' mn mx etas c Ne) as (ra & rb & E & Xa & Xb).
        eexists. split; [exact E|]. split; assumption.
    - assert (Er : risk_map etas v = map (map (fun _ => (None, None))) v).
      { unfold risk_map. unfold degen in D. destruct (vol_min v), (vol_max v); try reflexivity. rewrite D. reflexivity. }
      destruct (omap2_Forall2
                  (fun cv_rc => G.compute_ambiguity_and_sampled_ambiguity_pixel (of_oq (vol_min v)) (of_oq (vol_max v))
                                  (Z.of_nat nd) (xetas etas) (two_dim nd etas) cv_rc (XFin 0) (np_zeros (vlen (xetas etas))))
                  xcurve (fun c => c) (fun _ _ => True) v) as (M & EM & HM).
      { intros row c Hrow Hc'. rewrite <- (Hall row c Hrow Hc').
        destruct (samp_pixel_degenerate (vol_min v) (vol_max v) etas (two_dim (length c) etas) c
                                        (np_zeros (vlen (xetas etas))) D) as (s & Es).
        { intros x mn Hx E. apply (Hc row c x mn Hrow Hc' Hx E). }
        eexists. split; [exact Es|exact I]. }
      unfold xvolume. rewrite EM. rewrite (map_ext _ _ (fun row => map_id row)), map_id in HM. rewrite Er, mapmap_comp.
      apply (ozip2_Forall2 _ xcurve (fun _ : curve => xpair (None, None)) xeq2 (fun _ _ => True)).
      + apply Forall2_map_l. eapply Forall2_impl; [|exact HM]. intros r0 row0 H0. apply Forall2_map_l. exact H0.
      + intros row c s Hrow Hc' _. rewrite <- (Hall row c Hrow Hc').
        pose proof (risk_pixel_degenerate (vol_min v) (vol_max v) etas (two_dim (length c) etas) c s D) as Ep.
        exists (XNaN, XNaN). split; [|split; exact I]. apply Ep.
        intros x mn Hx E. apply (Hc row c x mn Hrow Hc' Hx E).
  Qed.
End AllVolumes.
