(* C12, T-gen: the confidence kernels regenerated from the Python source (Gen/ConfKernels.v) compute,
   on every pixel curve, what the hand-written model (Model/Confidence.v) computes -- for ALL curves,
   eta lists, thresholds, disparity axes, and every volume minimum / maximum mn <> mx; no partial
   operation of the kernels fails (no shape mismatch, no read outside an array).  Re-proved at every
   run against the regenerated text. *)
From Coq Require Import ZArith QArith Qabs List Bool Lia Lqa.
From Pandora Require Import Lib.NpVec Model.Confidence Spec.Confidence Proofs.ConfidenceP Model.ConfGen.
Import ListNotations.
Open Scope Z_scope.

(* ------------------------------------------------------------------ lists *)

Lemma zip2_map2 {A B C : Type} (f : A -> B -> C) a b : zip2 f a b = map2 f a b.
Proof. revert b; induction a; destruct b; simpl; congruence. Qed.

Lemma b_sum_count l : b_sum l = count_true l.
Proof. induction l; simpl; congruence. Qed.

Lemma zip2_length {A B C : Type} (f : A -> B -> C) a : forall b, length a = length b -> length (zip2 f a b) = length a.
Proof. induction a; destruct b; simpl; intros; try discriminate; auto. Qed.

Lemma vv2_some {A B C : Type} (f : A -> B -> C) a b : length a = length b -> vv2 f a b = Some (zip2 f a b).
Proof. intro H. unfold vv2. rewrite H, Nat.eqb_refl. reflexivity. Qed.

Lemma zip2_repeat_l {A B C : Type} (f : A -> B -> C) x l : zip2 f (repeat x (length l)) l = map (f x) l.
Proof. induction l; simpl; congruence. Qed.

Lemma zip2_map_l {A A' B C : Type} (f : A' -> B -> C) (g : A -> A') a b : zip2 f (map g a) b = zip2 (fun x y => f (g x) y) a b.
Proof. revert b; induction a; destruct b; simpl; congruence. Qed.

Lemma zip2_map_r {A B B' C : Type} (f : A -> B' -> C) (g : B -> B') a b : zip2 f a (map g b) = zip2 (fun x y => f x (g y)) a b.
Proof. revert b; induction a; destruct b; simpl; congruence. Qed.

Lemma zip2_same {A C : Type} (f : A -> A -> C) l : zip2 f l l = map (fun x => f x x) l.
Proof. induction l; simpl; congruence. Qed.

Lemma zip2_maps {A B C D : Type} (f : B -> C -> D) (g : A -> B) (h : A -> C) l :
  zip2 f (map g l) (map h l) = map (fun x => f (g x) (h x)) l.
Proof. induction l; simpl; congruence. Qed.

Lemma zip2_app {A B C : Type} (f : A -> B -> C) a1 b1 a2 b2 : length a1 = length b1 ->
  zip2 f (a1 ++ a2) (b1 ++ b2) = zip2 f a1 b1 ++ zip2 f a2 b2.
Proof. revert b1; induction a1; destruct b1; simpl; intros; try discriminate; [reflexivity|]. rewrite IHa1 by lia. reflexivity. Qed.

(* the flat array of the kernels: entry (x, y) at position x * |ys| + y *)
Definition grid {A B C : Type} (f : A -> B -> C) (xs : list A) (ys : list B) : list C :=
  flat_map (fun x => map (f x) ys) xs.

Lemma grid_length {A B C : Type} (f : A -> B -> C) xs ys : length (grid f xs ys) = (length xs * length ys)%nat.
Proof. unfold grid. induction xs; simpl; [reflexivity|]. rewrite app_length, map_length, IHxs. reflexivity. Qed.

Lemma tile_length {A : Type} n (l : list A) : length (tile n l) = (n * length l)%nat.
Proof. unfold tile. induction n; simpl; [reflexivity|]. rewrite app_length. unfold tile in IHn. rewrite IHn. reflexivity. Qed.

Lemma np_repeat_length {A : Type} (l : list A) n : length (np_repeat l (Z.of_nat n)) = (length l * n)%nat.
Proof. unfold np_repeat. rewrite Nat2Z.id. induction l; simpl; [reflexivity|]. rewrite app_length, repeat_length, IHl. reflexivity. Qed.

(* np.repeat(xs, |ys|) (op) tile(ys, |xs|) is the grid *)
Lemma zip2_repeat_tile {A B C : Type} (f : A -> B -> C) xs ys :
  zip2 f (np_repeat xs (Z.of_nat (length ys))) (tile (length xs) ys) = grid f xs ys.
Proof.
  unfold np_repeat, tile, grid. rewrite Nat2Z.id. induction xs as [|x r IH]; simpl; [reflexivity|].
  rewrite zip2_app by apply repeat_length. rewrite zip2_repeat_l, IH. reflexivity.
Qed.

Lemma grid_map_l {A A' B C : Type} (f : A' -> B -> C) (g : A -> A') xs ys : grid f (map g xs) ys = grid (fun x y => f (g x) y) xs ys.
Proof. unfold grid. induction xs; simpl; [reflexivity|]. rewrite IHxs. reflexivity. Qed.

Lemma grid_map_r {A B B' C : Type} (f : A -> B' -> C) (g : B -> B') xs ys : grid f xs (map g ys) = grid (fun x y => f x (g y)) xs ys.
Proof. unfold grid. induction xs; simpl; [reflexivity|]. rewrite map_map, IHxs. reflexivity. Qed.

Lemma grid_ext {A B C : Type} (f g : A -> B -> C) xs ys : (forall x y, f x y = g x y) -> grid f xs ys = grid g xs ys.
Proof. intro H. unfold grid. induction xs; simpl; [reflexivity|]. rewrite IHxs. f_equal. apply map_ext. auto. Qed.

Lemma map_grid {A B C D : Type} (h : C -> D) (f : A -> B -> C) xs ys : map h (grid f xs ys) = grid (fun x y => h (f x y)) xs ys.
Proof. unfold grid. induction xs; simpl; [reflexivity|]. rewrite map_app, map_map, IHxs. reflexivity. Qed.

Lemma chunks_grid {A B C : Type} (f : A -> B -> C) xs ys :
  chunks (length xs) (length ys) (grid f xs ys) = map (fun x => map (f x) ys) xs.
Proof.
  unfold grid. induction xs as [|x r IH]; simpl; [reflexivity|].
  rewrite firstn_app, skipn_app, map_length, Nat.sub_diag, firstn_O, skipn_O, app_nil_r.
  rewrite <- (map_length (f x) ys) at 1. rewrite firstn_all.
  replace (skipn (length ys) (map (f x) ys)) with (@nil C)
    by (symmetry; apply skipn_all2; rewrite map_length; lia).
  simpl. rewrite IH. reflexivity.
Qed.

Lemma columns_grid {A B C : Type} (f : A -> B -> C) xs ys :
  columns (length ys) (map (fun x => map (f x) ys) xs) = map (fun y => map (fun x => f x y) xs) ys.
Proof.
  induction ys as [|y r IH]; simpl; [reflexivity|]. f_equal.
  - clear IH. induction xs as [|x0 xs IHx]; simpl; [reflexivity|]. rewrite IHx. reflexivity.
  - rewrite map_map. simpl. apply IH.
Qed.

Lemma concat_map_grid {A B C : Type} (f : A -> B -> C) xs ys : concat (map (fun x => map (f x) ys) xs) = grid f xs ys.
Proof. unfold grid. rewrite flat_map_concat_map. reflexivity. Qed.

(* ------------------------------------------------------------------ embedding of the model's values *)

Lemma np_nanmin_embed c : np_nanmin (xcurve c) = of_oq (nanmin c).
Proof.
  unfold xcurve. induction c as [|[x|] r IH]; [reflexivity| |exact IH].
  cbn [map of_oq np_nanmin nanmin xisnan]. rewrite IH.
  destruct (nanmin r); cbn [of_oq xisnan]; [|reflexivity]. unfold xmin2, qmin; cbn [xle]. destruct (Qle_bool x q); reflexivity.
Qed.

Lemma np_nanmax_embed c : np_nanmax (xcurve c) = of_oq (nanmax c).
Proof.
  unfold xcurve. induction c as [|[x|] r IH]; [reflexivity| |exact IH].
  cbn [map of_oq np_nanmax nanmax xisnan]. rewrite IH.
  destruct (nanmax r); cbn [of_oq xisnan]; [|reflexivity]. unfold xmax2, qmax; cbn [xle]. destruct (Qle_bool x q); reflexivity.
Qed.

Lemma qeqb_span mn mx : ~ (mn == mx)%Q -> Qeq_bool (mx - mn) 0 = false.
Proof. intro H. destruct (Qeq_bool (mx - mn) 0) eqn:E; [|reflexivity]. apply Qeq_bool_eq in E. exfalso. apply H. lra. Qed.

Lemma norm_embed mn mx c : ~ (mn == mx)%Q ->
  vs xdiv (vs xsub (xcurve c) (XFin mn)) (xsub (XFin mx) (XFin mn)) = xcurve (ncurve mn mx c).
Proof.
  intro H. unfold vs, xcurve, ncurve. rewrite !map_map. apply map_ext. intros [x|]; simpl; [|reflexivity].
  rewrite (qeqb_span _ _ H). reflexivity.
Qed.

Lemma setmask_isnan (v : vec) s : v_setmask v (map xisnan v) s = Some (map (fun x => if xisnan x then s else x) v).
Proof. unfold v_setmask. rewrite vv2_some by (rewrite map_length; reflexivity). rewrite zip2_map_r, zip2_same. reflexivity. Qed.

Lemma vlen_xetas etas : vlen (xetas etas) = Z.of_nat (length etas).
Proof. unfold vlen, xetas. rewrite map_length. reflexivity. Qed.

Lemma vlen_xcurve c : vlen (xcurve c) = Z.of_nat (length c).
Proof. unfold vlen, xcurve. rewrite map_length. reflexivity. Qed.

(* normalized_cv (op) (normalized_min_cost + two_dim_etas), all three flat arrays of nb_disps * n_eta entries *)
Lemma cmp_grid (f : xf -> xf -> bool) (xs : vec) (a : xf) (etas : list Q) (c : curve) : length xs = length c ->
  exists t, vv2 xadd (np_repeat_s a (vlen c * vlen (xetas etas))) (two_dim (length c) etas) = Some t /\
    vv2 f (np_repeat xs (vlen (xetas etas))) t = Some (grid (fun x e => f x (xadd a (XFin e))) xs etas).
Proof.
  intro Hl. rewrite vlen_xetas. unfold vlen, two_dim, xetas, np_repeat_s.
  assert (Hn : Z.to_nat (Z.of_nat (length c) * Z.of_nat (length etas)) = length (map XFin (tile (length c) etas))).
  { rewrite map_length, tile_length. lia. }
  eexists. split.
  - rewrite vv2_some by (rewrite repeat_length; exact Hn). rewrite Hn, zip2_repeat_l. reflexivity.
  - rewrite vv2_some by (rewrite np_repeat_length, !map_length, tile_length; lia).
    rewrite map_map, zip2_map_r. rewrite <- Hl. rewrite zip2_repeat_tile. reflexivity.
Qed.

(* ------------------------------------------------------------------ ambiguity *)

Definition msk (x : xf) : xf := if xisnan x then XMInf else x.

Lemma xle_msk x b : xle (msk (of_oq x)) (XFin b) = le_nan x b.
Proof. destruct x; reflexivity. Qed.

Lemma grid_count nmin etas (nc : curve) :
  b_sum (grid (fun x e => xle x (xadd (XFin nmin) (XFin e))) (map msk (xcurve nc)) etas)
  = count_true (map2 (fun x e => le_nan x (nmin + e)%Q) (repeat_each (length etas) nc) (tile (length nc) etas)).
Proof.
  rewrite b_sum_count. f_equal. unfold xcurve. rewrite map_map, grid_map_l.
  rewrite <- zip2_map2. unfold repeat_each.
  replace (flat_map (fun x : oq => repeat x (length etas)) nc) with (np_repeat nc (Z.of_nat (length etas)))
    by (unfold np_repeat; rewrite Nat2Z.id; reflexivity).
  rewrite zip2_repeat_tile. apply grid_ext. intros x e. simpl. apply xle_msk.
Qed.

Theorem gen_amb_pixel_eq mn mx etas c : ~ (mn == mx)%Q ->
  exists r, gamb_pixel mn mx etas c = Some r /\ xeq r (xofz (amb_pixel mn mx etas c)).
Proof.
  intro Hs. unfold gamb_pixel, G.compute_ambiguity_pixel. rewrite np_nanmin_embed.
  destruct (nanmin c) as [m|] eqn:Hm; cbn [of_oq xsub xdiv xadd xneg xisnan].
  - rewrite (qeqb_span _ _ Hs). cbn [xisnan]. rewrite (norm_embed _ _ _ Hs), setmask_isnan.
    destruct (cmp_grid xle (map (fun x => if xisnan x then XMInf else x) (xcurve (ncurve mn mx c)))
                       (XFin ((m - mn) / (mx - mn))) etas c) as (t & H1 & H2).
    { unfold xcurve, ncurve. rewrite !map_length. reflexivity. }
    rewrite H1, H2. eexists. split; [reflexivity|].
    change (map (fun x => if xisnan x then XMInf else x)) with (map msk).
    unfold amb_pixel. rewrite Hm.
    change ((m - mn) / (mx - mn))%Q with (norm mn mx m).
    assert (Hl : length (ncurve mn mx c) = length c) by (unfold ncurve; apply map_length).
    rewrite grid_count, Hl. cbn [xadd xofz xeq]. lra.
  - eexists. split; [reflexivity|]. rewrite (amb_pixel_allnan _ _ _ _ Hm), vlen_xetas. unfold vlen, xofz, xeq. reflexivity.
Qed.
