(* Lemmas about the numpy combinators of Lib/NpCrit.v (the target language of translator/gen_criteria_fns.py):
   ranges, index lists produced by np.where / np.setdiff1d / fancy indexing of np.arange, first positions. *)
From Coq Require Import ZArith List Bool Lia ZifyBool.
From Pandora Require Import Lib.NpCrit.
Import ListNotations.
Open Scope Z_scope.

Lemma bool_eq_iff' : forall a b : bool, (a = true <-> b = true) -> a = b.
Proof. intros [] [] H; try reflexivity; destruct H as [H1 H2]; try (now rewrite H1); now rewrite H2. Qed.

(* ------------------------------------------------------------------ ranges *)
Lemma upto__In : forall n lo x, In x (upto_ lo n) <-> lo <= x < lo + Z.of_nat n.
Proof.
  induction n as [|n IH]; intros lo x; cbn [upto_ In].
  - lia.
  - rewrite IH. lia.
Qed.

Lemma upto_In : forall n x, In x (upto n) <-> 0 <= x < n.
Proof. intros. unfold upto. rewrite upto__In. lia. Qed.

Lemma upto__length : forall n lo, length (upto_ lo n) = n.
Proof. induction n; intros; cbn; [reflexivity | now rewrite IHn]. Qed.

Lemma upto_length : forall n, Z.of_nat (length (upto n)) = Z.max 0 n.
Proof. intros. unfold upto. rewrite upto__length. lia. Qed.

Lemma upto__nth : forall n lo k d, (k < n)%nat -> nth k (upto_ lo n) d = lo + Z.of_nat k.
Proof.
  induction n as [|n IH]; intros lo k d Hk; [lia|].
  destruct k as [|k]; cbn [upto_ nth]; [lia|]. rewrite IH by lia. lia.
Qed.

Lemma upto__NoDup : forall n lo, NoDup (upto_ lo n).
Proof.
  induction n as [|n IH]; intros lo; cbn [upto_]; constructor; [|apply IH].
  rewrite upto__In. lia.
Qed.

Lemma upto__strict : forall n lo, strict_incb (upto_ lo n) = true.
Proof.
  induction n as [|n IH]; intros lo; [reflexivity|].
  cbn [upto_]. destruct n as [|n']; [reflexivity|].
  specialize (IH (lo + 1)). cbn [upto_] in IH |- *. cbn [strict_incb]. fold strict_incb.
  cbn [strict_incb] in IH. rewrite IH. lia.
Qed.

Lemma map_nth_upto_ : forall (A : Type) (d : A) (l pre : list A),
  map (fun k => nth (Z.to_nat k) (pre ++ l) d) (upto_ (Z.of_nat (length pre)) (length l)) = l.
Proof.
  intros A d l. induction l as [|x l IH]; intro pre; [reflexivity|].
  cbn [length upto_ map]. f_equal.
  - rewrite Nat2Z.id. rewrite app_nth2 by lia. rewrite Nat.sub_diag. reflexivity.
  - specialize (IH (pre ++ [x])). rewrite <- app_assoc in IH. cbn [app] in IH.
    rewrite app_length in IH. cbn [length] in IH.
    replace (Z.of_nat (length pre) + 1) with (Z.of_nat (length pre + 1)) by lia. exact IH.
Qed.

Lemma map_nth_upto : forall (A : Type) (d : A) (l : list A),
  map (fun k => nth (Z.to_nat k) l d) (upto (Z.of_nat (length l))) = l.
Proof. intros. unfold upto. rewrite Nat2Z.id. exact (map_nth_upto_ A d l []). Qed.

Lemma to_list_of_list : forall l, v_to_list (v_of_list l) = l.
Proof. intro l. unfold v_to_list, v_of_list. cbn [v_at v_len]. apply map_nth_upto. Qed.

Lemma to_list_of_list2 : forall l, v_to_list (v_of_list2 l) = l.
Proof. intro l. unfold v_to_list, v_of_list2. cbn [v_at v_len]. apply map_nth_upto. Qed.

Lemma to_list_length : forall (A : Type) (v : vec A), Z.of_nat (length (v_to_list v)) = Z.max 0 (v_len v).
Proof. intros. unfold v_to_list. rewrite map_length. apply upto_length. Qed.

Lemma to_list_nth : forall (A : Type) (v : vec A) (d : A) k, 0 <= k < v_len v ->
  nth (Z.to_nat k) (v_to_list v) d = v_at v k.
Proof.
  intros A v d k Hk. unfold v_to_list.
  rewrite (nth_indep _ d (v_at v 0)) by (rewrite map_length; unfold upto; rewrite upto__length; lia).
  rewrite map_nth. f_equal. unfold upto. rewrite upto__nth by lia. lia.
Qed.

(* ------------------------------------------------------------------ membership, first position, distinctness *)
Lemma existsb_eqb_In : forall j l, existsb (Z.eqb j) l = true <-> In j l.
Proof.
  intros j l. rewrite existsb_exists. split.
  - intros (x & Hx & He). apply Z.eqb_eq in He. now subst.
  - intro H. exists j. split; [exact H | apply Z.eqb_refl].
Qed.

Lemma nodupb_NoDup : forall l, NoDup l -> nodupb l = true.
Proof.
  induction 1 as [|x l Hn Hd IH]; [reflexivity|]. cbn [nodupb]. rewrite IH, andb_true_r.
  apply negb_true_iff. destruct (existsb (Z.eqb x) l) eqn:E; [|reflexivity].
  apply existsb_eqb_In in E. contradiction.
Qed.

Lemma pos_of__some : forall j l k0 k, pos_of_ j l k0 = Some k ->
  k0 <= k < k0 + Z.of_nat (length l) /\ nth (Z.to_nat (k - k0)) l 0 = j.
Proof.
  intros j l. induction l as [|x l IH]; intros k0 k H; cbn [pos_of_] in H; [discriminate|].
  destruct (x =? j) eqn:E.
  - injection H as <-. cbn [length]. rewrite Z.sub_diag. cbn. lia.
  - apply IH in H as [H1 H2]. cbn [length]. split; [lia|].
    replace (Z.to_nat (k - k0)) with (S (Z.to_nat (k - (k0 + 1)))) by lia. exact H2.
Qed.

Lemma pos_of__none : forall j l k0, pos_of_ j l k0 = None <-> existsb (Z.eqb j) l = false.
Proof.
  intros j l. induction l as [|x l IH]; intro k0; cbn [pos_of_ existsb]; [tauto|].
  rewrite (Z.eqb_sym j x). destruct (x =? j); cbn [orb]; [split; discriminate | apply IH].
Qed.

Lemma pos_of_some : forall j (v : vec Z) k, pos_of j (v_to_list v) = Some k -> 0 <= k < v_len v /\ v_at v k = j.
Proof.
  intros j v k H. apply pos_of__some in H as [H1 H2]. rewrite Z.sub_0_r in H2.
  pose proof (to_list_length Z v) as Hl. assert (Hk : 0 <= k < v_len v) by lia.
  split; [exact Hk|]. rewrite <- (to_list_nth Z v 0 k Hk). exact H2.
Qed.

Lemma pos_of_cases : forall j (v : vec Z),
  (exists k, pos_of j (v_to_list v) = Some k /\ 0 <= k < v_len v /\ v_at v k = j /\ vmem j v = true)
  \/ (pos_of j (v_to_list v) = None /\ vmem j v = false).
Proof.
  intros j v. destruct (pos_of j (v_to_list v)) as [k|] eqn:E.
  - left. exists k. pose proof (pos_of_some j v k E) as [H1 H2]. repeat split; try lia; try assumption.
    unfold vmem. destruct (existsb (Z.eqb j) (v_to_list v)) eqn:E2; [reflexivity|].
    apply (pos_of__none j _ 0) in E2. unfold pos_of in E. congruence.
  - right. split; [reflexivity|]. unfold vmem. now apply (pos_of__none j _ 0).
Qed.

(* the same for positions (row, col) *)
Lemma pair_eqb_eq : forall a b, pair_eqb a b = true <-> a = b.
Proof. intros [a1 a2] [b1 b2]. unfold pair_eqb. cbn [fst snd]. split; [intro H; f_equal; lia | intro H; injection H; lia]. Qed.

Lemma existsb_pair_In : forall p l, existsb (pair_eqb p) l = true <-> In p l.
Proof.
  intros p l. rewrite existsb_exists. split.
  - intros (x & Hx & He). apply pair_eqb_eq in He. now subst.
  - intro H. exists p. split; [exact H | now apply pair_eqb_eq].
Qed.

Lemma nodupb2_NoDup : forall l, NoDup l -> nodupb2 l = true.
Proof.
  induction 1 as [|x l Hn Hd IH]; [reflexivity|]. cbn [nodupb2]. rewrite IH, andb_true_r.
  apply negb_true_iff. destruct (existsb (pair_eqb x) l) eqn:E; [|reflexivity].
  apply existsb_pair_In in E. contradiction.
Qed.

Lemma pos_of2__some : forall p l k0 k, pos_of2_ p l k0 = Some k ->
  k0 <= k < k0 + Z.of_nat (length l) /\ nth (Z.to_nat (k - k0)) l (0, 0) = p.
Proof.
  intros p l. induction l as [|x l IH]; intros k0 k H; cbn [pos_of2_] in H; [discriminate|].
  destruct (pair_eqb x p) eqn:E.
  - injection H as <-. cbn [length]. rewrite Z.sub_diag. cbn. apply pair_eqb_eq in E. split; [lia | exact E].
  - apply IH in H as [H1 H2]. cbn [length]. split; [lia|].
    replace (Z.to_nat (k - k0)) with (S (Z.to_nat (k - (k0 + 1)))) by lia. exact H2.
Qed.

Lemma pos_of2__none : forall p l k0, pos_of2_ p l k0 = None <-> ~ In p l.
Proof.
  intros p l. induction l as [|x l IH]; intro k0; cbn [pos_of2_ In]; [tauto|].
  destruct (pair_eqb x p) eqn:E.
  - apply pair_eqb_eq in E. split; [discriminate | tauto].
  - rewrite IH. assert (x <> p) by (intro He; apply pair_eqb_eq in He; congruence). tauto.
Qed.

(* ------------------------------------------------------------------ np.where of a 1-D boolean array *)
Lemma where1_to_list : forall b, v_to_list (np_where1 b) = filter (v_at b) (upto (v_len b)).
Proof. intro b. unfold np_where1. cbv zeta. exact (to_list_of_list _). Qed.

Lemma filter_upto_In : forall p n j, In j (filter p (upto n)) <-> 0 <= j < n /\ p j = true.
Proof. intros. rewrite filter_In, upto_In. tauto. Qed.

Lemma existsb_filter_upto : forall p n j, existsb (Z.eqb j) (filter p (upto n)) = (0 <=? j) && (j <? n) && p j.
Proof.
  intros p n j. apply bool_eq_iff'. rewrite existsb_eqb_In, filter_upto_In, !andb_true_iff. lia.
Qed.

Lemma filter_upto_NoDup : forall p n, NoDup (filter p (upto n)).
Proof. intros. apply NoDup_filter. apply upto__NoDup. Qed.

Lemma filter_upto_range : forall p n m, n <= m -> forallb (fun j => (0 <=? j) && (j <? m)) (filter p (upto n)) = true.
Proof. intros p n m H. apply forallb_forall. intros j Hj. apply filter_upto_In in Hj. lia. Qed.

(* an index array whose elements are the positions of [0, n) where p holds, in increasing order *)
Definition is_sel (W : vec Z) (p : Z -> bool) (n : Z) : Prop := v_err W = false /\ v_to_list W = filter p (upto n).

Lemma where1_is_sel : forall b, v_err b = false -> is_sel (np_where1 b) (v_at b) (v_len b).
Proof. intros b H. split; [exact H | apply where1_to_list]. Qed.

Lemma guard_is_sel : forall ok W p n, all_ok ok = true -> is_sel W p n -> is_sel (v_guard ok W) p n.
Proof. intros ok W p n Ho [H1 H2]. split; [cbn [v_guard v_err]; rewrite H1, Ho; reflexivity | exact H2]. Qed.

Lemma sel_vmem : forall W p n j, is_sel W p n -> vmem j W = (0 <=? j) && (j <? n) && p j.
Proof. intros W p n j [_ H]. unfold vmem. rewrite H. apply existsb_filter_upto. Qed.

Lemma sel_cols_ok : forall W p n m, is_sel W p n -> n <= m -> idx_cols_bad m W = false.
Proof.
  intros W p n m [H1 H2] Hn. unfold idx_cols_bad. rewrite H1, H2, filter_upto_range by exact Hn.
  rewrite nodupb_NoDup by apply filter_upto_NoDup. reflexivity.
Qed.

Lemma sel_elems : forall W p n k, is_sel W p n -> 0 <= k < v_len W -> 0 <= v_at W k < n /\ p (v_at W k) = true.
Proof.
  intros W p n k [_ H] Hk. apply filter_upto_In. rewrite <- H. rewrite <- (to_list_nth Z W 0 k Hk).
  apply nth_In. pose proof (to_list_length Z W). lia.
Qed.

(* v[idx] *)
Lemma take_to_list : forall (A : Type) (v : vec A) idx, v_to_list (np_take v idx) = map (np_item v) (v_to_list idx).
Proof. intros. unfold v_to_list, np_take. cbn [v_len v_at]. rewrite map_map. reflexivity. Qed.

Lemma arange_item : forall n i, 0 <= i -> np_item (np_arange n) i = i.
Proof. intros n i Hi. unfold np_item, np_arange, py_idx1. cbn [v_len v_at]. destruct (i <? 0) eqn:E; lia. Qed.

Lemma arange_to_list : forall n, v_to_list (np_arange n) = upto n.
Proof.
  intro n. unfold v_to_list, np_arange. cbn [v_len v_at]. rewrite map_id.
  unfold upto. f_equal. lia.
Qed.

(* np.arange(n)[W] = W for a selection of [0, n) *)
Lemma take_arange_sel : forall W p n, 0 <= n -> is_sel W p n -> is_sel (np_take (np_arange n) W) p n.
Proof.
  intros W p n Hn [H1 H2]. split.
  - unfold np_take. cbn [v_err]. rewrite H1, H2. cbn [np_arange v_err orb].
    assert (forallb (np_item_ok (np_arange n)) (filter p (upto n)) = true) as ->; [|reflexivity].
    apply forallb_forall. intros j Hj. apply filter_upto_In in Hj.
    unfold np_item_ok, np_arange. cbn [v_err v_len]. lia.
  - rewrite take_to_list, H2. rewrite <- (map_id (filter p (upto n))) at 2.
    apply map_ext_in. intros j Hj. apply filter_upto_In in Hj. apply arange_item. lia.
Qed.

(* np.setdiff1d(np.arange(n), W): the complement selection *)
Lemma setdiff_arange_sel : forall W p n, 0 <= n -> is_sel W p n ->
  is_sel (np_setdiff1d (np_arange n) W) (fun j => negb (p j)) n.
Proof.
  intros W p n Hn [H1 H2]. split.
  - unfold np_setdiff1d. cbv zeta. cbn [v_err]. rewrite H1, arange_to_list. cbn [np_arange v_err orb].
    unfold upto. rewrite upto__strict. reflexivity.
  - unfold np_setdiff1d. cbv zeta.
    change (v_to_list (mkV _ _ _)) with
      (v_to_list (v_of_list (filter (fun x => negb (existsb (Z.eqb x) (v_to_list W))) (v_to_list (np_arange n))))).
    rewrite to_list_of_list, arange_to_list, H2.
    apply filter_ext_in. intros j Hj. apply upto_In in Hj. rewrite existsb_filter_upto.
    destruct (p j); [|rewrite andb_false_r; reflexivity]. rewrite andb_true_r.
    replace ((0 <=? j) && (j <? n)) with true by lia. reflexivity.
Qed.

(* (np.arange(n) + d)[W] *)
Lemma take_shift_sel : forall W p n d, 0 <= n -> is_sel W p n ->
  v_err (np_take (np_add_vs (np_arange n) d) W) = false
  /\ v_len (np_take (np_add_vs (np_arange n) d) W) = v_len W
  /\ forall k, 0 <= k < v_len W -> v_at (np_take (np_add_vs (np_arange n) d) W) k = v_at W k + d.
Proof.
  intros W p n d Hn HW. pose proof HW as [H1 H2]. split; [|split; [reflexivity|]].
  - unfold np_take. cbn [v_err]. rewrite H1, H2. cbn [np_add_vs v_map np_arange v_err orb].
    assert (forallb (np_item_ok (np_add_vs (np_arange n) d)) (filter p (upto n)) = true) as ->; [|reflexivity].
    apply forallb_forall. intros j Hj. apply filter_upto_In in Hj.
    unfold np_item_ok, np_add_vs, v_map, np_arange. cbn [v_err v_len]. lia.
  - intros k Hk. destruct (sel_elems W p n k HW Hk) as [Hr _].
    unfold np_take, np_item, np_add_vs, v_map, np_arange, py_idx1. cbn [v_at v_len].
    destruct (v_at W k <? 0) eqn:E; lia.
Qed.

(* ------------------------------------------------------------------ np.where of a 2-D boolean array *)
Lemma nodup_app : forall (A : Type) (a b : list A), NoDup a -> NoDup b -> (forall x, In x a -> ~ In x b) -> NoDup (a ++ b).
Proof.
  intros A a b Ha Hb Hab. induction Ha as [|x a Hx Ha IH]; [exact Hb|].
  cbn [app]. constructor.
  - rewrite in_app_iff. intros [H|H]; [contradiction | exact (Hab x (or_introl eq_refl) H)].
  - apply IH. intros y Hy. apply Hab. now right.
Qed.

Lemma nodup_map_pair : forall (r : Z) (l : list Z), NoDup l -> NoDup (map (fun c => (r, c)) l).
Proof.
  intros r l H. induction H as [|x l Hx Hl IH]; cbn [map]; constructor; [|exact IH].
  intro Hin. apply in_map_iff in Hin as (c & He & Hc). injection He as ->. contradiction.
Qed.

Lemma where2_to_list : forall B,
  v_to_list (np_where2 B) = flat_map (fun r => map (fun c => (r, c)) (filter (b_at B r) (upto (b_nc B)))) (upto (b_nr B)).
Proof. intro B. unfold np_where2. cbv zeta. exact (to_list_of_list2 _). Qed.

Lemma where2_In : forall B r c,
  In (r, c) (v_to_list (np_where2 B)) <-> 0 <= r < b_nr B /\ 0 <= c < b_nc B /\ b_at B r c = true.
Proof.
  intros B r c. rewrite where2_to_list, in_flat_map. split.
  - intros (r' & Hr & H). apply in_map_iff in H as (c' & He & Hc). injection He as -> ->.
    apply upto_In in Hr. apply filter_upto_In in Hc. tauto.
  - intros (Hr & Hc & Hb). exists r. split; [now apply upto_In|]. apply in_map_iff. exists c.
    split; [reflexivity | now apply filter_upto_In].
Qed.

Lemma where2_NoDup : forall B, NoDup (v_to_list (np_where2 B)).
Proof.
  intro B. rewrite where2_to_list. unfold upto at 2. generalize (Z.to_nat (b_nr B)) as n. generalize 0 as lo.
  intros lo n; revert lo. induction n as [|n IH]; intro lo; cbn [upto_ flat_map]; [constructor|].
  apply nodup_app.
  - apply nodup_map_pair, filter_upto_NoDup.
  - apply IH.
  - intros [r c] H1 H2. apply in_map_iff in H1 as (c' & He & _). injection He as <- _.
    apply in_flat_map in H2 as (r' & Hr & H2). apply in_map_iff in H2 as (c'' & He & _). injection He as -> _.
    apply upto__In in Hr. lia.
Qed.

Lemma pos_of2_cases : forall p (v : vec (Z * Z)),
  (exists k, pos_of2 p (v_to_list v) = Some k /\ 0 <= k < v_len v /\ v_at v k = p /\ In p (v_to_list v))
  \/ (pos_of2 p (v_to_list v) = None /\ ~ In p (v_to_list v)).
Proof.
  intros p v. destruct (pos_of2 p (v_to_list v)) as [k|] eqn:E.
  - left. exists k. apply pos_of2__some in E as [H1 H2]. rewrite Z.sub_0_r in H2.
    pose proof (to_list_length _ v) as Hl. assert (Hk : 0 <= k < v_len v) by lia.
    rewrite (to_list_nth _ v (0, 0) k Hk) in H2. repeat split; try lia; try assumption.
    rewrite <- H2, <- (to_list_nth _ v (0, 0) k Hk). apply nth_In. lia.
  - right. split; [reflexivity|]. now apply (pos_of2__none p _ 0).
Qed.

(* ------------------------------------------------------------------ one counter update of allocate_right_mask *)
Lemma forallb_to_list : forall (A : Type) (f : A -> bool) (v : vec A),
  (forall k, 0 <= k < v_len v -> f (v_at v k) = true) -> forallb f (v_to_list v) = true.
Proof.
  intros A f v H. apply forallb_forall. intros x Hx. unfold v_to_list in Hx.
  apply in_map_iff in Hx as (k & <- & Hk). apply upto_In in Hk. now apply H.
Qed.

(* X[:, arange[W]] += Y;  X[:, arange[setdiff1d(arange, W)]] += 1;  X[:, bit1[0]] = 0, column by column *)
Lemma counter_update : forall (X : imat) (W : vec Z) (p : Z -> bool) (n : Z) (Ym : imat) (g : Z -> Z -> Z) (bit1 : vec Z),
  0 <= n -> m_err X = false -> m_nc X = n -> is_sel W p n ->
  m_err Ym = false -> m_nr Ym = m_nr X -> m_nc Ym = v_len W ->
  (forall r k, 0 <= k < v_len W -> m_at Ym r k = g r (v_at W k)) ->
  idx_cols_bad n bit1 = false ->
  let X1 := np_cols_iadd_m X (np_take (np_arange n) W) Ym in
  let X2 := np_cols_iadd_c X1 (np_take (np_arange n) (np_setdiff1d (np_arange n) W)) 1 in
  let X3 := np_cols_set_c X2 (np_tuple_get0 bit1) 0 in
  m_err X3 = false /\ m_nr X3 = m_nr X /\ m_nc X3 = n /\
  forall r c, 0 <= c < n ->
    m_at X3 r c = if vmem c bit1 then 0 else if p c then m_at X r c + g r c else m_at X r c + 1.
Proof.
  intros X W p n Ym g bit1 Hn Xe Xc HW Ye Yr Yc Yat Hb. cbv zeta.
  pose proof (take_arange_sel W p n Hn HW) as HA1.
  pose proof (take_arange_sel _ _ n Hn (setdiff_arange_sel W p n Hn HW)) as HA2.
  set (A1 := np_take (np_arange n) W) in *.
  set (A2 := np_take (np_arange n) (np_setdiff1d (np_arange n) W)) in *.
  unfold np_cols_set_c, np_cols_iadd_c, np_cols_iadd_m, np_tuple_get0. cbn [m_err m_nr m_nc m_at].
  rewrite Xe, Xc, Ye, Yr, Yc, Hb, (sel_cols_ok A1 p n n HA1), (sel_cols_ok A2 _ n n HA2) by lia.
  rewrite !Z.eqb_refl. cbn [orb negb].
  assert (HlenA : v_len A1 = v_len W) by reflexivity.
  repeat split.
  intros r c Hc. destruct (vmem c bit1); [reflexivity|].
  rewrite (sel_vmem A2 _ n c HA2).
  replace ((0 <=? c) && (c <? n)) with true by lia. cbn [andb].
  destruct (pos_of_cases c A1) as [(k & -> & Hk & Hat & Hm) | (-> & Hm)];
    rewrite (sel_vmem A1 p n c HA1) in Hm; replace ((0 <=? c) && (c <? n)) with true in Hm by lia; cbn [andb] in Hm;
    rewrite Hm; cbn [negb]; [|reflexivity].
  rewrite HlenA in Hk. rewrite Yat by exact Hk.
  assert (HWk : v_at A1 k = v_at W k).
  { destruct (sel_elems W p n k HW Hk) as [Hr _]. unfold A1, np_take. cbn [v_at]. apply arange_item. lia. }
  rewrite <- HWk, Hat. reflexivity.
Qed.
