(* Proofs about Model/PipelineRun.v (the composed whole-pipeline model).

   1. [bridge]: one step of [run_step] (the hand-written composition) is what the abstract data-flow
      semantics of Model/Mirror.v computes when the callbacks REGENERATED FROM THE SOURCE (Gen/Callbacks.v)
      are run with the concrete step models [F_step] -- re-proved against the generated file at every run.
   2. [step_swap] / [pipeline_mirror]: the abstract mirror lemmas of Proofs/MirrorP.v (generic_cb_swap,
      val_swap) instantiated with [F_step]; their hypotheses about cross-checking and interpolation are
      discharged for the concrete models ([chk_val_other], [chk_val_disp]); nothing abstract is left.
   3. without a validation step the right cost volume / dataset are never written; the left data do not
      depend on whether the right ones are computed; a final cross-checking step without interpolation
      leaves the left disparity map, shape, interval untouched, appends one band and can only raise
      bit 8 or 9 of a flag (facts of Proofs/CrossCheckP.v carried through the composition). *)
From Coq Require Import ZArith QArith List Bool Lia.
From Pandora Require Import Lib.Ext Model.MatchingCost Model.Criteria Model.Wta Model.Refine Model.Filters
     Model.CrossCheck Model.Interp Model.Mirror Model.PipelineRun
     Spec.CrossCheck Proofs.MatchingCostP Proofs.CrossCheckP Proofs.MirrorP Gen.Callbacks.
Import ListNotations.
Open Scope Z_scope.

(* ------------------------------------------------------------------ slots <-> records *)

Lemma to_slots_swap st : seq pval (to_slots (swap_st st)) (swap_state pval (to_slots st)).
Proof. intros x. destruct x; reflexivity. Qed.

Lemma ov_inj {A} (f : A -> pval) (Hf : forall a b, f a = f b -> a = b) (Hn : forall a, f a <> PVNone) o o' :
  ov f o = ov f o' -> o = o'.
Proof.
  destruct o as [a|], o' as [b|]; simpl; intros H.
  - f_equal. now apply Hf.
  - exfalso. exact (Hn _ H).
  - exfalso. symmetry in H. exact (Hn _ H).
  - reflexivity.
Qed.

Lemma to_slots_inj st st' : seq pval (to_slots st) (to_slots st') -> st = st'.
Proof.
  intros H. destruct st as [a1 a2 a3 a4 a5 a6 a7 a8 a9 a10], st' as [b1 b2 b3 b4 b5 b6 b7 b8 b9 b10].
  pose proof (H Limg) as H1. pose proof (H Rimg) as H2. pose proof (H Lmin) as H3. pose proof (H Lmax) as H4.
  pose proof (H Rmin) as H5. pose proof (H Rmax) as H6. pose proof (H Lcv) as H7. pose proof (H Rcv) as H8.
  pose proof (H Ldisp) as H9. pose proof (H Rdisp) as H10.
  cbn [to_slots st_L st_R st_lmin st_lmax st_rmin st_rmax st_lcv st_rcv st_ld st_rd] in *.
  injection H1 as ->. injection H2 as ->. injection H3 as ->. injection H4 as ->.
  injection H5 as ->. injection H6 as ->.
  apply ov_inj in H7; [|intros a b E; now injection E|discriminate].
  apply ov_inj in H8; [|intros a b E; now injection E|discriminate].
  apply ov_inj in H9; [|intros a b E; now injection E|discriminate].
  apply ov_inj in H10; [|intros a b E; now injection E|discriminate].
  now subst.
Qed.

Lemma swap_st_invol st : swap_st (swap_st st) = st.
Proof. destruct st; reflexivity. Qed.

(* ------------------------------------------------------------------ 1. the bridge *)

Ltac wire :=
  cbv [exec_step cbs_of fold_left gen_callback exec_cb exec_seg exec_block exec_call active writes mutated
       nth_slots flat_map nth_error app c_fun c_args c_outs sg_left sg_right sg_guarded fname_eqb negb orb andb
       write_all upd slot_eqb map fst snd to_slots F_step ov run_step set_ds set_cvs on1 on2 chk_val itp_val
       st_L st_R st_lmin st_lmax st_rmin st_rmax st_lcv st_rcv st_ld st_rd].

Lemma bridge E rdm s st :
  seq pval (exec_step E gen_callback rdm s (to_slots st)) (to_slots (run_step E rdm s st)).
Proof.
  intros x. destruct st as [L R lmin lmax rmin rmax lcv rcv ld rd].
  destruct s as [m w sp|inv|w|me|thr om].
  - destruct rdm; wire; destruct x; reflexivity.
  - destruct rdm, lcv, rcv; wire; destruct x; reflexivity.
  - destruct rdm, ld, rd; wire; destruct x; reflexivity.
  - destruct rdm, lcv, rcv, ld, rd; wire; destruct x; reflexivity.
  - destruct rdm, om, ld, rd; wire; destruct x; reflexivity.
Qed.

Lemma exec_step_ext E cbs rdm s : forall a b, seq pval a b ->
  seq pval (exec_step E cbs rdm s a) (exec_step E cbs rdm s b).
Proof.
  unfold exec_step. induction (cbs_of s) as [|cb r IH]; intros a b H; simpl; [exact H|].
  apply IH. now apply exec_cb_ext.
Qed.

(* ------------------------------------------------------------------ 2. the mirror theorem, instantiated *)

(* the generated callbacks have the mirrored shape (the obligation C08_callbacks_mirrored) *)
Lemma gen_callbacks_ok : callbacks_ok gen_callback = true.
Proof. vm_compute. reflexivity. Qed.

Lemma gen_generic_ok c : c <> CbVal -> c <> CbSeg -> forallb seg_ok (gen_callback c) = true.
Proof.
  intros H1 H2. pose proof gen_callbacks_ok as H. unfold callbacks_ok in H. rewrite forallb_forall in H.
  specialize (H c (all_cbs_full c)). destruct c; try exact H; contradiction.
Qed.

Lemma gen_val_shape : gen_callback CbVal = val_segments.
Proof.
  pose proof gen_callbacks_ok as H. unfold callbacks_ok in H. rewrite forallb_forall in H.
  specialize (H CbVal (all_cbs_full CbVal)). now apply segs_eqb_eq in H.
Qed.

(* what the abstract theorem assumes about the validation functions, for the concrete models:
   cross-checking reads the other dataset only through its disparity map ... *)
Lemma chk_other thr me other other' : ds_disp other = ds_disp other' -> chk thr me other = chk thr me other'.
Proof.
  intros H. unfold chk, xcheck, xcheck_gen, xcheck_mask, xcheck_conf. rewrite H. reflexivity.
Qed.
(* ... and returns the checked dataset with the disparity map it received *)
Lemma chk_disp thr me other : ds_disp (chk thr me other) = ds_disp me.
Proof. reflexivity. Qed.

Lemma chk_val_other thr a b b' : disp_of_val b = disp_of_val b' -> chk_val thr a b = chk_val thr a b'.
Proof.
  destruct a, b, b'; simpl; intros H; try reflexivity; try discriminate.
  injection H as H. f_equal. now apply chk_other.
Qed.
Lemma chk_val_disp thr a b : disp_of_val (chk_val thr a b) = disp_of_val a.
Proof. destruct a, b; reflexivity. Qed.

(* one step, right products computed, commutes with the exchange of left and right: Proofs/MirrorP.v *)
Lemma exec_step_swap E s sl :
  seq pval (exec_step E gen_callback true s (swap_state pval sl))
           (swap_state pval (exec_step E gen_callback true s sl)).
Proof.
  destruct s as [m w sp|inv|w|me|thr om]; unfold exec_step; cbn [cbs_of fold_left fst snd].
  - eapply seq_trans.
    + apply exec_cb_ext. apply generic_cb_swap. apply gen_generic_ok; discriminate.
    + apply generic_cb_swap. apply gen_generic_ok; discriminate.
  - apply generic_cb_swap. apply gen_generic_ok; discriminate.
  - apply generic_cb_swap. apply gen_generic_ok; discriminate.
  - apply generic_cb_swap. apply gen_generic_ok; discriminate.
  - rewrite gen_val_shape.
    apply (val_swap pval (F_step E (SVal thr om)) _ disp_of_val (chk_val thr) (itp_val om)).
    + reflexivity.
    + reflexivity.
    + apply chk_val_other.
    + apply chk_val_disp.
Qed.

Lemma step_swap E s st : run_step E true s (swap_st st) = swap_st (run_step E true s st).
Proof.
  apply to_slots_inj.
  eapply seq_trans; [apply seq_sym, bridge|].
  eapply seq_trans; [apply exec_step_ext, to_slots_swap|].
  eapply seq_trans; [apply exec_step_swap|].
  eapply seq_trans; [apply swap_state_ext, bridge|].
  apply seq_sym, to_slots_swap.
Qed.

Lemma run_steps_swap E p : forall st, run_steps E true p (swap_st st) = swap_st (run_steps E true p st).
Proof.
  unfold run_steps. induction p as [|s r IH]; intros st; simpl; [reflexivity|].
  rewrite step_swap. apply IH.
Qed.

Lemma init_swap L R a b : init_state R L (- b) (- a) = swap_st (init_state L R a b).
Proof. unfold init_state, swap_st; simpl. now rewrite !Z.opp_involutive. Qed.

(* the run on the mirrored problem is the exchanged run, whatever the steps *)
Theorem pipeline_mirror E g p : has_validation p = true ->
  run_pipeline E (mirror_images g) p = swap_st (run_pipeline E g p).
Proof.
  intros H. unfold run_pipeline. rewrite H. destruct g as [L R a b]. cbn [mirror_images g_left g_right g_dmin g_dmax].
  rewrite init_swap. apply run_steps_swap.
Qed.

Corollary pipeline_right_is_mirrored_left E g p : has_validation p = true ->
  st_ld (run_pipeline E (mirror_images g) p) = st_rd (run_pipeline E g p) /\
  st_rd (run_pipeline E (mirror_images g) p) = st_ld (run_pipeline E g p) /\
  st_lcv (run_pipeline E (mirror_images g) p) = st_rcv (run_pipeline E g p) /\
  st_rcv (run_pipeline E (mirror_images g) p) = st_lcv (run_pipeline E g p).
Proof. intros H. rewrite (pipeline_mirror E g p H). repeat split. Qed.

(* the same through the abstract semantics alone: the slots of the run *)
Lemma run_steps_slots E rdm p : forall st,
  seq pval (fold_left (fun sl s => exec_step E gen_callback rdm s sl) p (to_slots st))
           (to_slots (run_steps E rdm p st)).
Proof.
  unfold run_steps. induction p as [|s r IH]; intros st; simpl; [apply seq_refl|].
  eapply seq_trans; [|apply IH].
  assert (Hext : forall a b, seq pval a b ->
            seq pval (fold_left (fun sl s0 => exec_step E gen_callback rdm s0 sl) r a)
                     (fold_left (fun sl s0 => exec_step E gen_callback rdm s0 sl) r b)).
  { clear. induction r as [|s0 r IH]; intros a b H; simpl; [exact H|]. apply IH. now apply exec_step_ext. }
  apply Hext. apply bridge.
Qed.

(* ------------------------------------------------------------------ 3. without validation / adding one *)

(* the right data are written under the guard only *)
Lemma run_step_false_right E s st :
  st_rcv (run_step E false s st) = st_rcv st /\ st_rd (run_step E false s st) = st_rd st.
Proof. destruct s; simpl; split; reflexivity. Qed.

Lemma run_steps_false_right E p : forall st,
  st_rcv (run_steps E false p st) = st_rcv st /\ st_rd (run_steps E false p st) = st_rd st.
Proof.
  unfold run_steps. induction p as [|s r IH]; intros st; simpl; [split; reflexivity|].
  destruct (IH (run_step E false s st)) as [H1 H2]. rewrite H1, H2. apply run_step_false_right.
Qed.

Theorem pipeline_no_validation_right_empty E g p : has_validation p = false ->
  st_rcv (run_pipeline E g p) = None /\ st_rd (run_pipeline E g p) = None.
Proof. intros H. unfold run_pipeline. rewrite H. apply run_steps_false_right. Qed.

(* the left data: images, interval, cost volume, disparity dataset *)
Definition left_eq (a b : pstate) : Prop :=
  st_L a = st_L b /\ st_R a = st_R b /\ st_lmin a = st_lmin b /\ st_lmax a = st_lmax b /\
  st_lcv a = st_lcv b /\ st_ld a = st_ld b.

Lemma run_step_left E s a b : is_val s = false -> left_eq a b ->
  left_eq (run_step E true s a) (run_step E false s b).
Proof.
  intros Hs (H1 & H2 & H3 & H4 & H5 & H6). destruct s; try discriminate; unfold left_eq; simpl;
    rewrite ?H1, ?H2, ?H3, ?H4, ?H5, ?H6; repeat split; reflexivity.
Qed.

Lemma run_steps_left E p : has_validation p = false -> forall a b, left_eq a b ->
  left_eq (run_steps E true p a) (run_steps E false p b).
Proof.
  unfold run_steps, has_validation. induction p as [|s r IH]; intros H a b Hab; simpl; [exact Hab|].
  simpl in H. apply orb_false_iff in H as [Hs Hr]. apply IH; [exact Hr|]. now apply run_step_left.
Qed.

Lemma run_steps_app E rdm p q st : run_steps E rdm (p ++ q) st = run_steps E rdm q (run_steps E rdm p st).
Proof. unfold run_steps. apply fold_left_app. Qed.

Lemma has_validation_app p q : has_validation (p ++ q) = has_validation p || has_validation q.
Proof. unfold has_validation. apply existsb_app. Qed.

(* what a cross-checking step without interpolation does to a left dataset *)
Definition xcheck_only_flags (d0 d1 : dataset) : Prop :=
  ds_disp d1 = ds_disp d0 /\ ds_nr d1 = ds_nr d0 /\ ds_nc d1 = ds_nc d0 /\
  ds_dmin d1 = ds_dmin d0 /\ ds_dmax d1 = ds_dmax d0 /\ ds_offset d1 = ds_offset d0 /\
  (d1 = d0 \/ exists band, ds_bands d1 = ds_bands d0 ++ [band]) /\
  (ds_nc d0 <= 2 ^ 63 -> forall r c, 0 <= r < ds_nr d0 -> 0 <= c < ds_nc d0 ->
     if is_border (ds_nr d0) (ds_nc d0) (ds_offset d0) r c
     then ds_mask d1 r c = ds_mask d0 r c \/ (0 < ds_offset d0 /\ ds_mask d1 r c = 1)
     else exists v, ds_mask d1 r c = Z.lor (ds_mask d0 r c) (verdict_bit v)).

Lemma chk_only_flags thr me other : xcheck_only_flags me (chk thr me other).
Proof.
  unfold xcheck_only_flags, chk. cbn [ds_disp ds_nr ds_nc ds_dmin ds_dmax ds_offset ds_bands ds_mask].
  repeat split; try reflexivity.
  - right. eexists. reflexivity.
  - intros Hnc r c Hr Hc. rewrite memo2_eq.
    assert (Hin : in_ds me r c) by (split; assumption).
    change (is_border (ds_nr me) (ds_nc me) (ds_offset me) r c) with (border_at me r c).
    destruct (border_at me r c) eqn:Hb.
    + right. assert (Hoff : 0 < ds_offset me).
      { unfold border_at, is_border in Hb. destruct Hr, Hc. lia. }
      split; [exact Hoff|]. now apply xcheck_border_bit0.
    + destruct (spec_valid (ds_mask me r c)) eqn:Hv.
      * destruct (finding_at me other r c) eqn:Hf.
        -- exists Occlusion. now apply (xcheck_finding_class thr me other r c).
        -- exists (verdict_at thr me other r c). now apply xcheck_eq_spec.
      * exists Keep. rewrite (xcheck_invalid_untouched thr me other r c Hin Hb Hv).
        simpl. now rewrite Z.lor_0_r.
Qed.

Lemma only_flags_refl d : xcheck_only_flags d d.
Proof.
  unfold xcheck_only_flags. repeat split; try reflexivity; [left; reflexivity|].
  intros _ r c _ _. destruct (is_border _ _ _ r c); [left; reflexivity|].
  exists Keep. simpl. now rewrite Z.lor_0_r.
Qed.

(* adding a cross-checking step without interpolation at the end of a pipeline without validation: the left
   cost volume is the same, the left dataset keeps its disparity map / shape / interval, gains one band, and
   its flags can only gain bit 8 or 9 (border pixels: bit 0 alone) *)
Theorem pipeline_xcheck_keeps_left E g p thr : has_validation p = false ->
  let s0 := run_pipeline E g p in
  let s1 := run_pipeline E g (p ++ [SVal thr None]) in
  st_lcv s1 = st_lcv s0 /\
  match st_ld s0, st_ld s1 with
  | Some d0, Some d1 => xcheck_only_flags d0 d1
  | None, None => True
  | _, _ => False
  end.
Proof.
  intros H s0 s1. unfold s0, s1, run_pipeline. rewrite has_validation_app, H. cbn [has_validation existsb is_val orb].
  set (i0 := init_state (g_left g) (g_right g) (g_dmin g) (g_dmax g)).
  rewrite run_steps_app.
  assert (Hi : left_eq i0 i0) by (repeat split).
  destruct (run_steps_left E p H i0 i0 Hi) as (_ & _ & _ & _ & H5 & H6).
  set (a := run_steps E true p i0) in *. set (b := run_steps E false p i0) in *.
  unfold run_steps. cbn [fold_left run_step set_ds st_lcv st_ld]. split; [exact H5|].
  rewrite <- H6. destruct (st_ld a) as [l|]; [|exact I].
  destruct (st_rd a) as [r|]; cbn [on2]; [apply chk_only_flags | apply only_flags_refl].
Qed.

(* ------------------------------------------------------------------ the whole run through the generated wiring *)

Definition neg_val (v : pval) : pval := match v with PVZ z => PVZ (- z) | _ => v end.
Lemma neg_val_invol v : neg_val (neg_val v) = v.
Proof. destruct v; simpl; try reflexivity. now rewrite Z.opp_involutive. Qed.

(* run_prepare: the initial record is the initial slot assignment of Proofs/MirrorP.v *)
Lemma init_slots L R a b :
  seq pval (to_slots (init_state L R a b)) (prepare_single pval neg_val PVNone (PVImg L) (PVImg R) (PVZ a) (PVZ b)).
Proof. intros x. destruct x; reflexivity. Qed.

(* [run_pipeline] is the generated callbacks (Gen/Callbacks.v) executed with the concrete step models on the
   slots prepared by run_prepare *)
Lemma fold_exec_ext E rdm p : forall a b, seq pval a b ->
  seq pval (fold_left (fun sl s => exec_step E gen_callback rdm s sl) p a)
           (fold_left (fun sl s => exec_step E gen_callback rdm s sl) p b).
Proof. induction p as [|s r IH]; intros a b H; simpl; [exact H|]. apply IH. now apply exec_step_ext. Qed.

Theorem pipeline_is_generated_wiring E g p :
  seq pval (to_slots (run_pipeline E g p))
      (fold_left (fun sl s => exec_step E gen_callback (has_validation p) s sl) p
                 (prepare_single pval neg_val PVNone (PVImg (g_left g)) (PVImg (g_right g))
                                 (PVZ (g_dmin g)) (PVZ (g_dmax g)))).
Proof.
  unfold run_pipeline. apply seq_sym. eapply seq_trans; [|apply run_steps_slots].
  apply fold_exec_ext. apply seq_sym. apply init_slots.
Qed.

(* ------------------------------------------------------------------ 4. what every state of a run carries
   (glue invariants: the interval and the shape each product is computed on) *)

Definition cv_ok (A : image) (a b : Z) (o : option cvol) : Prop :=
  forall cv, o = Some cv ->
    cv_dmin cv = a /\ cv_dmax cv = b /\ cv_ny cv = im_ny A /\ cv_nx cv = im_nx A.
Definition ds_ok (A : image) (a b : Z) (o : option dataset) : Prop :=
  forall d, o = Some d ->
    ds_dmin d = a /\ ds_dmax d = b /\ ds_nr d = im_ny A /\ ds_nc d = im_nx A.

Definition run_inv (g : images) (st : pstate) : Prop :=
  st_L st = g_left g /\ st_R st = g_right g /\
  st_lmin st = g_dmin g /\ st_lmax st = g_dmax g /\ st_rmin st = - g_dmax g /\ st_rmax st = - g_dmin g /\
  cv_ok (g_left g) (g_dmin g) (g_dmax g) (st_lcv st) /\
  cv_ok (g_right g) (- g_dmax g) (- g_dmin g) (st_rcv st) /\
  ds_ok (g_left g) (g_dmin g) (g_dmax g) (st_ld st) /\
  ds_ok (g_right g) (- g_dmax g) (- g_dmin g) (st_rd st).

Lemma ds_ok_on1 A a b (f : dataset -> dataset) o :
  (forall d, ds_dmin (f d) = ds_dmin d /\ ds_dmax (f d) = ds_dmax d /\ ds_nr (f d) = ds_nr d /\ ds_nc (f d) = ds_nc d) ->
  ds_ok A a b o -> ds_ok A a b (on1 f o o).
Proof.
  intros Hf H d Hd. destruct o as [x|]; simpl in Hd; [|discriminate]. injection Hd as <-.
  destruct (Hf x) as (E1 & E2 & E3 & E4). rewrite E1, E2, E3, E4. now apply H.
Qed.

Lemma ds_ok_on2 {B} A a b (f : B -> dataset -> dataset) (ob : option B) o :
  (forall x d, ds_dmin (f x d) = ds_dmin d /\ ds_dmax (f x d) = ds_dmax d /\ ds_nr (f x d) = ds_nr d /\ ds_nc (f x d) = ds_nc d) ->
  ds_ok A a b o -> ds_ok A a b (on2 f ob o o).
Proof.
  intros Hf H d Hd. destruct ob as [y|], o as [x|]; simpl in Hd; try discriminate; try (now apply H).
  injection Hd as <-. destruct (Hf y x) as (E1 & E2 & E3 & E4). rewrite E1, E2, E3, E4. now apply H.
Qed.

Lemma ds_ok_chk A a b thr o other :
  ds_ok A a b o -> ds_ok A a b (on2 (chk thr) o other o).
Proof.
  intros H d Hd. destruct o as [x|], other as [y|]; simpl in Hd; try discriminate; try (now apply H).
  injection Hd as <-. destruct (H x eq_refl) as (E1 & E2 & E3 & E4).
  repeat split; [exact E1 | exact E2 | exact E3 | exact E4].
Qed.

Lemma ds_ok_disp E inv A a b ocv keep :
  cv_ok A a b ocv -> ds_ok A a b keep -> ds_ok A a b (on1 (disp_side E inv) ocv keep).
Proof.
  intros H Hk d Hd. destruct ocv as [cv|]; simpl in Hd; [|now apply Hk].
  injection Hd as <-. destruct (H cv eq_refl) as (E1 & E2 & E3 & E4).
  repeat split; [exact E1 | exact E2 | exact E3 | exact E4].
Qed.

Lemma run_step_inv E g rdm s st : run_inv g st -> run_inv g (run_step E rdm s st).
Proof.
  intros (H1 & H2 & H3 & H4 & H5 & H6 & H7 & H8 & H9 & H10).
  assert (Hflt : forall w d, ds_dmin (filter_side E w d) = ds_dmin d /\ ds_dmax (filter_side E w d) = ds_dmax d /\
                             ds_nr (filter_side E w d) = ds_nr d /\ ds_nc (filter_side E w d) = ds_nc d)
    by (intros; repeat split).
  assert (Href : forall me (cv0 : cvol) d, ds_dmin (refine_side E me cv0 d) = ds_dmin d /\
                 ds_dmax (refine_side E me cv0 d) = ds_dmax d /\
                 ds_nr (refine_side E me cv0 d) = ds_nr d /\ ds_nc (refine_side E me cv0 d) = ds_nc d)
    by (intros; repeat split).
  assert (Hitp : forall m d, ds_dmin (itp_ds m d) = ds_dmin d /\ ds_dmax (itp_ds m d) = ds_dmax d /\
                             ds_nr (itp_ds m d) = ds_nr d /\ ds_nc (itp_ds m d) = ds_nc d)
    by (intros; repeat split).
  destruct s as [m w sp|inv|w|me|thr om]; unfold run_inv;
    cbn [run_step set_cvs set_ds st_L st_R st_lmin st_lmax st_rmin st_rmax st_lcv st_rcv st_ld st_rd].
  - assert (A1 : cv_ok (g_left g) (g_dmin g) (g_dmax g)
                       (Some (mc_side E m w sp (st_L st) (st_R st) (st_lmin st) (st_lmax st)))).
    { intros cv0 Hcv. injection Hcv as <-. rewrite H1, H3, H4. repeat split. }
    assert (A2 : cv_ok (g_right g) (- g_dmax g) (- g_dmin g)
                       (if rdm then Some (mc_side E m w sp (st_R st) (st_L st) (st_rmin st) (st_rmax st))
                        else st_rcv st)).
    { destruct rdm; [|exact H8]. intros cv0 Hcv. injection Hcv as <-. rewrite H2, H5, H6. repeat split. }
    repeat (split; [assumption|]). assumption.
  - assert (A1 := ds_ok_disp E inv _ _ _ _ _ H7 H9).
    assert (A2 : ds_ok (g_right g) (- g_dmax g) (- g_dmin g)
                       (if rdm then on1 (disp_side E inv) (st_rcv st) (st_rd st) else st_rd st)).
    { destruct rdm; [|exact H10]. now apply ds_ok_disp. }
    repeat (split; [assumption|]). assumption.
  - assert (A1 := ds_ok_on1 _ _ _ (filter_side E w) _ (Hflt w) H9).
    assert (A2 : ds_ok (g_right g) (- g_dmax g) (- g_dmin g)
                       (if rdm then on1 (filter_side E w) (st_rd st) (st_rd st) else st_rd st)).
    { destruct rdm; [|exact H10]. apply ds_ok_on1; [apply Hflt | exact H10]. }
    repeat (split; [assumption|]). assumption.
  - assert (A1 := ds_ok_on2 _ _ _ (refine_side E me) (st_lcv st) _ (Href me) H9).
    assert (A2 : ds_ok (g_right g) (- g_dmax g) (- g_dmin g)
                       (if rdm then on2 (refine_side E me) (st_rcv st) (st_rd st) (st_rd st) else st_rd st)).
    { destruct rdm; [|exact H10]. apply ds_ok_on2; [apply Href | exact H10]. }
    repeat (split; [assumption|]). assumption.
  - assert (Hl : ds_ok (g_left g) (g_dmin g) (g_dmax g) (on2 (chk thr) (st_ld st) (st_rd st) (st_ld st)))
      by now apply ds_ok_chk.
    destruct rdm; cbn [set_ds st_L st_R st_lmin st_lmax st_rmin st_rmax st_lcv st_rcv st_ld st_rd].
    + assert (Hr : ds_ok (g_right g) (- g_dmax g) (- g_dmin g)
                         (on2 (chk thr) (st_rd st) (on2 (chk thr) (st_ld st) (st_rd st) (st_ld st)) (st_rd st)))
        by now apply ds_ok_chk.
      destruct om as [m|]; cbn [set_ds st_L st_R st_lmin st_lmax st_rmin st_rmax st_lcv st_rcv st_ld st_rd].
      * assert (A1 := ds_ok_on1 _ _ _ (itp_ds m) _ (Hitp m) Hl).
        assert (A2 := ds_ok_on1 _ _ _ (itp_ds m) _ (Hitp m) Hr).
        repeat (split; [assumption|]). assumption.
      * repeat (split; [assumption|]). assumption.
    + repeat (split; [assumption|]). assumption.
Qed.

Lemma init_inv g : run_inv g (init_state (g_left g) (g_right g) (g_dmin g) (g_dmax g)).
Proof.
  unfold run_inv, init_state; simpl.
  repeat (split; [reflexivity|]). repeat split; discriminate.
Qed.

(* every product of a run is computed on the image of its side and on the interval of its side:
   [min, max] for the left ones, [-max, -min] for the right ones *)
Theorem pipeline_intervals_and_shapes E g p : run_inv g (run_pipeline E g p).
Proof.
  unfold run_pipeline, run_steps. generalize (has_validation p) as rdm. intros rdm.
  generalize (init_inv g). generalize (init_state (g_left g) (g_right g) (g_dmin g) (g_dmax g)).
  induction p as [|s r IH]; intros st H; simpl; [exact H|]. apply IH. now apply run_step_inv.
Qed.
