(* Lemmas on the numpy combinators of Lib/NpNd.v at the ranks the filter kernels use (2 and 4):
   what each operation yields -- error flag, shape, element at every in-range index -- from what
   its operands hold.  [is4 X a b c d g]: X is a well-formed a x b x c x d array whose element
   (i, j, k, l) is g i j k l; [is2] likewise. *)
From Coq Require Import ZArith QArith List Bool Lia.
From Pandora Require Import Lib.Arr Lib.NpNd.
Import ListNotations.
Open Scope Z_scope.

Definition is4 {A : Type} (X : nd A) (a b c d : Z) (g : Z -> Z -> Z -> Z -> A) : Prop :=
  err X = false /\ shp X = [a; b; c; d] /\
  forall i j k l, 0 <= i < a -> 0 <= j < b -> 0 <= k < c -> 0 <= l < d -> elt X [i; j; k; l] = g i j k l.
Definition is2 {A : Type} (X : nd A) (a b : Z) (g : Z -> Z -> A) : Prop :=
  err X = false /\ shp X = [a; b] /\
  forall i j, 0 <= i < a -> 0 <= j < b -> elt X [i; j] = g i j.

(* the slice [i, j, :, :] of a 4-d array, row-major *)
Definition win_list {A : Type} (c d : Z) (f : Z -> Z -> A) : list A :=
  flat_map (fun a => map (fun b => f a b) (zrange d)) (zrange c).

Lemma In_zrange : forall n k, In k (zrange n) <-> 0 <= k < n.
Proof.
  intros n k. unfold zrange. rewrite in_map_iff. split.
  - intros (x & <- & Hx). apply in_seq in Hx. lia.
  - intros H. exists (Z.to_nat k). split; [lia|]. apply in_seq. lia.
Qed.

Lemma win_list_ext : forall (A : Type) c d (f g : Z -> Z -> A),
  (forall a b, 0 <= a < c -> 0 <= b < d -> f a b = g a b) -> win_list c d f = win_list c d g.
Proof.
  intros A c d f g H. unfold win_list.
  assert (Hc : forall a, In a (zrange c) -> 0 <= a < c) by (intros; apply In_zrange; assumption).
  induction (zrange c) as [|a L IH]; [reflexivity|]. cbn [flat_map]. f_equal.
  - apply map_ext_in. intros b Hb. apply H; [apply Hc; left; reflexivity | apply In_zrange; assumption].
  - apply IH. intros; apply Hc; right; assumption.
Qed.

Lemma is4_ext : forall (A : Type) (X : nd A) a b c d g g', is4 X a b c d g ->
  (forall i j k l, 0 <= i < a -> 0 <= j < b -> 0 <= k < c -> 0 <= l < d -> g i j k l = g' i j k l) ->
  is4 X a b c d g'.
Proof. intros A X a b c d g g' (He & Hs & Hg) H. repeat split; auto. intros. rewrite Hg by assumption. auto. Qed.
Lemma is2_ext : forall (A : Type) (X : nd A) a b g g', is2 X a b g ->
  (forall i j, 0 <= i < a -> 0 <= j < b -> g i j = g' i j) -> is2 X a b g'.
Proof. intros A X a b g g' (He & Hs & Hg) H. repeat split; auto. intros. rewrite Hg by assumption. auto. Qed.

Ltac bc_cases :=
  repeat match goal with
         | |- context [if ?x =? 1 then 0 else ?i] =>
             destruct (Z.eqb_spec x 1); [replace i with 0 by lia|]
         end.

Lemma transpose4 : forall (A : Type) (X : nd A) a b c d g, is4 X a b c d g ->
  is4 (np_transpose X) d c b a (fun i j k l => g l k j i).
Proof.
  intros A X a b c d g (He & Hs & Hg). unfold np_transpose, is4. cbn [err shp elt]. rewrite Hs.
  repeat split; auto. intros. cbn [rev app]. apply Hg; assumption.
Qed.
Lemma transpose2 : forall (A : Type) (X : nd A) a b g, is2 X a b g ->
  is2 (np_transpose X) b a (fun i j => g j i).
Proof.
  intros A X a b g (He & Hs & Hg). unfold np_transpose, is2. cbn [err shp elt]. rewrite Hs.
  repeat split; auto. intros. cbn [rev app]. apply Hg; assumption.
Qed.

(* X[:, :, o1, o2] *)
Lemma getitem_ssii : forall (A : Type) (X : nd A) a b c d g o1 o2, is4 X a b c d g ->
  0 <= o1 < c -> 0 <= o2 < d ->
  is2 (np_getitem X [SlAll; SlAll; SlIdx o1; SlIdx o2]) a b (fun i j => g i j o1 o2).
Proof.
  intros A X a b c d g o1 o2 (He & Hs & Hg) H1 H2. unfold np_getitem, is2. cbn [err shp elt]. rewrite Hs, He.
  cbn [gi_err gi_shape gi_idx orb].
  replace ((- c <=? o1) && (o1 <? c)) with true by lia. replace ((- d <=? o2) && (o2 <? d)) with true by lia.
  repeat split; auto. intros i j Hi Hj.
  replace (o1 <? 0) with false by lia. replace (o2 <? 0) with false by lia. apply Hg; assumption.
Qed.

Lemma binop_44 : forall (A B C : Type) (f : A -> B -> C) X Y a b c d g h, is4 X a b c d g -> is4 Y a b c d h ->
  is4 (np_binop f X Y) a b c d (fun i j k l => f (g i j k l) (h i j k l)).
Proof.
  intros A B C f X Y a b c d g h (He & Hs & Hg) (He' & Hs' & Hh). unfold np_binop, is4, bget. rewrite Hs, Hs'.
  cbn [rev app bshape_r]. rewrite !Z.eqb_refl. cbn [err shp elt rev app]. rewrite He, He'.
  repeat split; auto. intros i j k l Hi Hj Hk Hl. cbn [rev app bidx_r].
  bc_cases; rewrite Hg, Hh by lia; reflexivity.
Qed.
Lemma binop_22 : forall (A B C : Type) (f : A -> B -> C) X Y a b g h, is2 X a b g -> is2 Y a b h ->
  is2 (np_binop f X Y) a b (fun i j => f (g i j) (h i j)).
Proof.
  intros A B C f X Y a b g h (He & Hs & Hg) (He' & Hs' & Hh). unfold np_binop, is2, bget. rewrite Hs, Hs'.
  cbn [rev app bshape_r]. rewrite !Z.eqb_refl. cbn [err shp elt rev app]. rewrite He, He'.
  repeat split; auto. intros i j Hi Hj. cbn [rev app bidx_r].
  bc_cases; rewrite Hg, Hh by lia; reflexivity.
Qed.
(* a 4-d array with a 2-d array: the 2-d array is aligned on the TRAILING axes *)
Lemma binop_42 : forall (A B C : Type) (f : A -> B -> C) X Y a b c d g h, is4 X a b c d g -> is2 Y c d h ->
  is4 (np_binop f X Y) a b c d (fun i j k l => f (g i j k l) (h k l)).
Proof.
  intros A B C f X Y a b c d g h (He & Hs & Hg) (He' & Hs' & Hh). unfold np_binop, is4, bget. rewrite Hs, Hs'.
  cbn [rev app bshape_r]. rewrite !Z.eqb_refl. cbn [err shp elt rev app]. rewrite He, He'.
  repeat split; auto. intros i j k l Hi Hj Hk Hl. cbn [rev app bidx_r].
  bc_cases; rewrite Hg, Hh by lia; reflexivity.
Qed.
Lemma binop_24 : forall (A B C : Type) (f : A -> B -> C) X Y a b c d g h, is2 X c d h -> is4 Y a b c d g ->
  is4 (np_binop f X Y) a b c d (fun i j k l => f (h k l) (g i j k l)).
Proof.
  intros A B C f X Y a b c d g h (He' & Hs' & Hh) (He & Hs & Hg). unfold np_binop, is4, bget. rewrite Hs, Hs'.
  cbn [rev app bshape_r]. rewrite !Z.eqb_refl. cbn [err shp elt rev app]. rewrite He, He'.
  repeat split; auto. intros i j k l Hi Hj Hk Hl. cbn [rev app bidx_r].
  bc_cases; rewrite Hg, Hh by lia; reflexivity.
Qed.

Lemma map_4 : forall (A B : Type) (f : A -> B) X a b c d g, is4 X a b c d g ->
  is4 (np_map f X) a b c d (fun i j k l => f (g i j k l)).
Proof.
  intros A B f X a b c d g (He & Hs & Hg). unfold np_map, is4. cbn [err shp elt].
  repeat split; auto. intros. rewrite Hg by assumption. reflexivity.
Qed.
Lemma map_2 : forall (A B : Type) (f : A -> B) X a b g, is2 X a b g -> is2 (np_map f X) a b (fun i j => f (g i j)).
Proof.
  intros A B f X a b g (He & Hs & Hg). unfold np_map, is2. cbn [err shp elt].
  repeat split; auto. intros. rewrite Hg by assumption. reflexivity.
Qed.

Lemma reduce_23 : forall (A B : Type) (f : list A -> B) X a b c d g, is4 X a b c d g ->
  is2 (np_reduce_23 f X) a b (fun i j => f (win_list c d (g i j))).
Proof.
  intros A B f X a b c d g (He & Hs & Hg). unfold np_reduce_23, is2. rewrite Hs. cbn [err shp elt].
  repeat split; auto. intros i j Hi Hj. f_equal. apply win_list_ext. intros. apply Hg; assumption.
Qed.

Lemma slice01_4 : forall (A : Type) (X : nd A) a b c d g y0 y1 x0 x1, is4 X a b c d g ->
  0 <= y0 -> y1 <= a -> 0 <= x0 -> x1 <= b ->
  is4 (np_slice01 X y0 y1 x0 x1) (y1 - y0) (x1 - x0) c d (fun i j k l => g (y0 + i) (x0 + j) k l).
Proof.
  intros A X a b c d g y0 y1 x0 x1 (He & Hs & Hg) ? ? ? ?. unfold np_slice01, is4. rewrite Hs. cbn [err shp elt].
  repeat split; auto. intros. apply Hg; lia.
Qed.

Lemma sliding_window_4 : forall (A : Type) (X : nd A) h w g w0 w1, is2 X h w g ->
  0 <= w0 <= h -> 0 <= w1 <= w ->
  is4 (np_sliding_window X w0 w1) (h - w0 + 1) (w - w1 + 1) w0 w1 (fun i j a b => g (i + a) (j + b)).
Proof.
  intros A X h w g w0 w1 (He & Hs & Hg) H0 H1. unfold np_sliding_window, is4. rewrite Hs, He. cbn [err shp elt orb].
  replace (h - w0 + 1 <? 0) with false by lia. replace (w - w1 + 1 <? 0) with false by lia.
  repeat split; auto. intros. apply Hg; lia.
Qed.

Lemma tab2_2 : forall (A : Type) n m (f : Z -> Z -> A), 0 <= n -> 0 <= m -> is2 (np_tab2 n m f) n m f.
Proof.
  intros A n m f Hn Hm. unfold np_tab2, is2. cbn [err shp elt].
  replace (n <? 0) with false by lia. replace (m <? 0) with false by lia. repeat split; auto.
Qed.

Lemma nd2_2 : forall (A : Type) ny nx (f : Z -> Z -> A), is2 (nd2 ny nx f) ny nx f.
Proof. intros. unfold nd2, is2. cbn [err shp elt]. repeat split; auto. Qed.

Lemma shape_eqb_refl : forall s, shape_eqb s s = true.
Proof. induction s as [|x s IH]; cbn [shape_eqb]; [reflexivity|]. rewrite Z.eqb_refl, IH. reflexivity. Qed.

(* boolean-mask assignments on 2-d arrays *)
Lemma setitem_mask_2 : forall (A : Type) (X : nd A) M v a b g m, is2 X a b g -> is2 M a b m ->
  is2 (np_setitem_mask X M v) a b (fun i j => if m i j then v else g i j).
Proof.
  intros A X M v a b g m (He & Hs & Hg) (He' & Hs' & Hm). unfold np_setitem_mask, is2. cbn [err shp elt].
  rewrite He, He', Hs, Hs', shape_eqb_refl. repeat split; auto. intros. rewrite Hm, Hg by assumption. reflexivity.
Qed.
Lemma setitem_mask_from_2 : forall (A : Type) (X Y : nd A) M a b g h m, is2 X a b g -> is2 M a b m -> is2 Y a b h ->
  is2 (np_setitem_mask_from X M Y) a b (fun i j => if m i j then h i j else g i j).
Proof.
  intros A X Y M a b g h m (He & Hs & Hg) (He' & Hs' & Hm) (He'' & Hs'' & Hh). unfold np_setitem_mask_from, is2.
  cbn [err shp elt]. rewrite He, He', He'', Hs, Hs', Hs'', shape_eqb_refl. repeat split; auto.
  intros. rewrite Hm, Hg, Hh by assumption. reflexivity.
Qed.
Lemma setitem_mask_or_2 : forall (X : nd Z) M c a b g m, is2 X a b g -> is2 M a b m ->
  is2 (np_setitem_mask_or X M c) a b (fun i j => if m i j then Z.lor (g i j) c else g i j).
Proof.
  intros X M c a b g m (He & Hs & Hg) (He' & Hs' & Hm). unfold np_setitem_mask_or, is2. cbn [err shp elt].
  rewrite He, He', Hs, Hs', shape_eqb_refl. repeat split; auto. intros. rewrite Hm, Hg by assumption. reflexivity.
Qed.

Lemma is2_shape : forall (A : Type) (X : nd A) a b g, is2 X a b g -> np_shape X 0 = a /\ np_shape X 1 = b.
Proof. intros A X a b g (_ & Hs & _). unfold np_shape. rewrite Hs. split; reflexivity. Qed.
Lemma is4_shape : forall (A : Type) (X : nd A) a b c d g, is4 X a b c d g ->
  np_shape X 0 = a /\ np_shape X 1 = b /\ np_shape X 2 = c /\ np_shape X 3 = d.
Proof. intros A X a b c d g (_ & Hs & _). unfold np_shape. rewrite Hs. repeat split; reflexivity. Qed.
