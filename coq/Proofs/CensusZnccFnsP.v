(* C02, T-gen tie of the array code of the census and zncc rasters: the definitions of Gen/CensusZnccFns.v
   (REGENERATED at every run from the Python ast of Census.popcount32b, Census.census_cost, img_tools.census_transform,
   compute_mean_raster, compute_std_raster, AbstractMatchingCost.masks_dilatation and its call in cv_masked, read
   with the array semantics of Lib/NpArr.v) are the functions of the hand-written model (Model/MatchingCost.v), for
   every image size, window and input: per-run obligations.  The scripts never name a Python local. *)
From Coq Require Import ZArith List Bool Lia ZifyBool QArith Qabs.
From Pandora Require Import Model.MatchingCost Model.PyArith Lib.NpArr.
From Pandora Require Import Proofs.MatchingCostP Proofs.PopcountP Proofs.CensusP Proofs.ZnccP.
From Pandora Require Gen.CensusZnccFns.
Import ListNotations.
Open Scope Z_scope.

Module GF := Pandora.Gen.CensusZnccFns.

Ltac Zify.zify_post_hook ::= Z.to_euclidean_division_equations.

(* ------------------------------------------------------------------ uint32, slices, loops *)

Lemma u32_id : forall x, 0 <= x < 4294967296 -> u32 x = x.
Proof. intros x H. unfold u32. apply Z.mod_small. exact H. Qed.

Lemma sl_start_none : forall n, sl_start n None = 0.
Proof. reflexivity. Qed.
Lemma sl_start_some : forall n k, 0 <= k <= n -> sl_start n (Some k) = k.
Proof. intros n k H. unfold sl_start, py_bound. destruct (k <? 0) eqn:E; lia. Qed.
Lemma sl_len_from : forall n k, 0 <= k <= n -> sl_len n (Some k) None = n - k.
Proof. intros n k H. unfold sl_len, sl_stop, sl_start, py_bound. destruct (k <? 0) eqn:E; lia. Qed.
Lemma sl_len_to_neg : forall n k, 0 < k <= n -> sl_len n None (Some (- k)) = n - k.
Proof. intros n k H. unfold sl_len, sl_stop, sl_start, py_bound. destruct (- k <? 0) eqn:E; lia. Qed.
Lemma sl_len_all : forall n, 0 <= n -> sl_len n None None = n.
Proof. intros n H. unfold sl_len, sl_stop, sl_start, py_bound. lia. Qed.
Lemma sl_len_mid : forall n k, 0 < k -> 2 * k <= n -> sl_len n (Some k) (Some (- k)) = n - 2 * k.
Proof.
  intros n k H H2. unfold sl_len, sl_stop, sl_start, py_bound.
  destruct (k <? 0) eqn:E; destruct (- k <? 0) eqn:E2; lia.
Qed.

Lemma zrange_succ : forall n, 0 <= n -> zrange 0 (n + 1) = zrange 0 n ++ [n].
Proof.
  intros n Hn. unfold zrange. rewrite Z2Nat.inj_add by lia. rewrite range_app.
  change (Z.to_nat 1) with 1%nat. cbn [range]. f_equal. f_equal. lia.
Qed.

Lemma for_range_ind : forall {S : Type} (Inv : Z -> S -> Prop) n (body : Z -> S -> S) init,
  0 <= n -> Inv 0 init ->
  (forall k st, 0 <= k < n -> Inv k st -> Inv (k + 1) (body k st)) ->
  Inv n (for_range n body init).
Proof.
  intros S Inv n body init Hn H0 Hstep. unfold for_range, zrange.
  assert (A : forall m, (m <= Z.to_nat n)%nat ->
                        Inv (Z.of_nat m) (fold_left (fun st k => body k st) (range 0 m) init)).
  { induction m; intros Hm; [exact H0|].
    replace (Datatypes.S m) with (m + 1)%nat by lia. rewrite range_app, fold_left_app. cbn [range fold_left].
    replace (Z.of_nat (m + 1)) with (Z.of_nat m + 1) by lia. rewrite Z.add_0_l.
    apply Hstep; [lia|]. apply IHm. lia. }
  specialize (A (Z.to_nat n) (le_n _)). rewrite Z2Nat.id in A by lia. exact A.
Qed.

(* ------------------------------------------------------------------ popcount32b *)

(* the generated popcount32b (every uint32 operation truncated) is the model's, which does not truncate: no
   intermediate value of the computation leaves [0, 2^32) *)
Lemma gen_popcount32b_eq : forall x, 0 <= x < 2 ^ 32 -> GF.popcount32b x = popcount32b x.
Proof.
  intros x Hx. change (2 ^ 32) with 4294967296 in Hx.
  set (lo := x mod 65536). set (hi := x / 65536).
  assert (Hlo : 0 <= lo < 65536) by (subst lo; lia).
  assert (Hhi : 0 <= hi < 65536) by (subst hi; lia).
  assert (E : x = lo + 65536 * hi) by (subst lo hi; lia).
  pose proof (chk16_at lo Hlo) as Clo. pose proof (chk16_at hi Hhi) as Chi.
  unfold chk16 in Clo, Chi. cbv zeta in Clo, Chi.
  rewrite popcount_steps. unfold GF.popcount32b. cbv zeta.
  change (x - Z.land (Z.shiftr x 1) 1431655765) with (s1 x).
  assert (E1 : s1 x = t1 lo + 65536 * t1 hi) by (rewrite E; apply s1_split; lia).
  rewrite (u32_id (s1 x)) by lia.
  set (y1 := s1 x) in *.
  change (Z.land y1 858993459 + Z.land (Z.shiftr y1 2) 858993459) with (s2 y1).
  assert (E2 : s2 y1 = t2 (t1 lo) + 65536 * t2 (t1 hi)) by (rewrite E1; apply s2_split; lia).
  rewrite (u32_id (s2 y1)) by lia.
  set (y2 := s2 y1) in *.
  assert (B2 : 0 <= y2 + Z.shiftr y2 4 < 4294967296).
  { rewrite Z.shiftr_div_pow2 by lia. change (2 ^ 4) with 16. lia. }
  rewrite (u32_id (y2 + Z.shiftr y2 4)) by exact B2.
  change (Z.land (y2 + Z.shiftr y2 4) 252645135) with (s3 y2).
  assert (E3 : s3 y2 = t3 (t2 (t1 lo)) + 65536 * t3 (t2 (t1 hi))) by (rewrite E2; apply s3_split; lia).
  set (y3 := s3 y2) in *.
  assert (B3 : 0 <= y3 <= 2056 + 65536 * 2056) by lia.
  assert (B4 : 0 <= y3 + Z.shiftr y3 8 < 4294967296).
  { rewrite Z.shiftr_div_pow2 by lia. change (2 ^ 8) with 256. lia. }
  rewrite (u32_id (y3 + Z.shiftr y3 8)) by exact B4.
  assert (B5 : 0 <= y3 + Z.shiftr y3 8 + Z.shiftr (y3 + Z.shiftr y3 8) 16 < 4294967296).
  { rewrite !Z.shiftr_div_pow2 by lia. change (2 ^ 8) with 256. change (2 ^ 16) with 65536. lia. }
  rewrite u32_id by exact B5.
  reflexivity.
Qed.

Lemma gen_popcount32b_correct : forall x, 0 <= x < 2 ^ 32 -> GF.popcount32b x = pc 32 x.
Proof. intros x Hx. rewrite gen_popcount32b_eq by exact Hx. apply popcount32b_correct. exact Hx. Qed.

(* ------------------------------------------------------------------ census_transform *)

Section CensusGen.
  Variables (w ny nx : Z) (I : img).
  Hypotheses (Hodd : Z.odd w = true) (Hw3 : 3 <= w) (Hww : w * w <= 32) (Hny : w <= ny) (Hnx : w <= nx).

  (* the term of window pixel (a, b) in the transform of the window whose upper-left corner is (r, c), and the sum
     of the terms of the window pixels before (a, b) in row-major order *)
  Let cterm (r c a b : Z) : Z :=
    if I (r + a) (c + b) >? I (r + offset w) (c + offset w) then 2 ^ (w * w - 1 - (a * w + b)) else 0.
  Let cV (r c a b : Z) : Z :=
    zsum (map (fun a' => zsum (map (cterm r c a') (zrange 0 w))) (zrange 0 a)) + zsum (map (cterm r c a) (zrange 0 b)).

  Let Inv (a b : Z) (st : arr Z * Z) : Prop :=
    snd st = w * w - 1 - (a * w + b) /\ a_ok (fst st) = true /\ a_nr (fst st) = ny - (w - 1)
    /\ a_nc (fst st) = nx - (w - 1)
    /\ forall r c, a_at (fst st) r c = cV r c a b /\ 0 <= cV r c a b <= 2 ^ (w * w) - 2 ^ (w * w - (a * w + b)).

  Lemma cV_step : forall r c a b, 0 <= b -> cV r c a (b + 1) = cV r c a b + cterm r c a b.
  Proof.
    intros r c a b Hb. unfold cV. rewrite (zrange_succ b Hb), map_app, zsum_app. cbn [map zsum]. lia.
  Qed.

  Lemma cV_row : forall r c a, 0 <= a -> cV r c (a + 1) 0 = cV r c a w.
  Proof.
    intros r c a Ha. unfold cV. rewrite (zrange_succ a Ha), map_app, zsum_app. cbn [map zsum].
    change (zrange 0 0) with (@nil Z). cbn [map zsum]. lia.
  Qed.

  Lemma pow2_split : forall k, 0 <= k -> 2 ^ (k + 1) = 2 * 2 ^ k.
  Proof. intros k Hk. change (k + 1) with (Z.succ k). rewrite Z.pow_succ_r by exact Hk. reflexivity. Qed.

  Lemma gen_census_transform_eq :
    let g := GF.census_transform (np_of ny nx I) w in
    a_ok g = true /\ a_nr g = ny - (w - 1) /\ a_nc g = nx - (w - 1)
    /\ forall r c, a_at g r c = census_transform w I r c.
  Proof.
    assert (Hq : py_int_div (w - 1) 2 = offset w).
    { unfold py_int_div, offset. rewrite Z.quot_div_nonneg by lia. reflexivity. }
    assert (Hoff : 2 * offset w = w - 1).
    { unfold offset. rewrite <- Z.negb_even in Hodd. destruct (Z.even w) eqn:Ev; [discriminate|].
      pose proof (Zeven_bool_iff w). pose proof (Zodd_bool_iff w). unfold Z.even in Ev.
      assert (Ho : Z.odd w = true) by (rewrite <- Z.negb_even; unfold Z.even; rewrite Ev; reflexivity).
      apply Z.odd_spec in Ho. destruct Ho as [m Hm]. lia. }
    cbv zeta. unfold GF.census_transform. cbv zeta. rewrite Hq.
    cbn [a_nr a_nc np_of].
    set (win := np_as_strided4 _ _ _ _ _ _ _ _ _).
    set (cen := np_slice _ _ _ _ _).
    assert (Wok : a4_ok win = true /\ a4_n0 win = ny - (w - 1) /\ a4_n1 win = nx - (w - 1) /\ a4_n2 win = w
                  /\ a4_n3 win = w /\ forall i0 i1 i2 i3, a4_at win i0 i1 i2 i3 = I (i0 + i2) (i1 + i3)).
    { subst win. unfold np_as_strided4, np_of. cbn [a4_ok a4_n0 a4_n1 a4_n2 a4_n3 a4_at a_ok a_nr a_nc a_at on_row on_col].
      repeat split; try lia. intros. f_equal; lia. }
    destruct Wok as (Wok & W0 & W1 & W2 & W3 & Wat).
    assert (Cok : a_ok cen = true /\ a_nr cen = ny - (w - 1) /\ a_nc cen = nx - (w - 1)
                  /\ forall r c, a_at cen r c = I (r + offset w) (c + offset w)).
    { subst cen. unfold np_slice, np_of. cbn [a_ok a_nr a_nc a_at].
      rewrite !sl_len_mid by lia. rewrite !sl_start_some by lia.
      repeat split; try lia. intros. f_equal; lia. }
    destruct Cok as (Cok & C0 & C1 & Cat).
    clearbody win cen.
    (* the two loops *)
    match goal with |- context [for_range w ?body ?init] =>
      assert (L : Inv w 0 (for_range w body init)) end.
    { apply (for_range_ind (fun a st => Inv a 0 st)); [lia| |].
      - (* before the loops *)
        assert (V0 : forall r c, cV r c 0 0 = 0).
        { intros. unfold cV. change (zrange 0 0) with (@nil Z). reflexivity. }
        unfold Inv. cbn [fst snd np_zeros a_ok a_nr a_nc a_at].
        split; [lia|]. split; [lia|]. split; [reflexivity|]. split; [reflexivity|].
        intros r c. rewrite V0. replace (w * w - (0 * w + 0)) with (w * w) by lia. lia.
      - (* one row of the window *)
        intros a st Ha Hst. destruct st as [acc sh]. cbv beta iota.
        match goal with |- context [for_range w ?body ?init] =>
          assert (L : Inv a w (for_range w body init)) end.
        { apply (for_range_ind (fun b st => Inv a b st)); [lia|exact Hst|].
          (* one pixel of the window *)
          intros b st Hb Hin. destruct st as [acc2 sh2]. cbv beta iota zeta.
          destruct Hin as (Hs & Hok & Hr & Hc & Hat). cbn [fst snd] in Hs, Hok, Hr, Hc, Hat.
          unfold Inv. cbn [fst snd].
          unfold np_iadd_u32, np_astype_u32, np_shl, np_gt, np_index23, np_zip, np_map, same_shape.
          cbn [a_ok a_nr a_nc a_at].
          rewrite Hok, Wok, Cok, W0, W1, W2, W3, C0, C1, Hr, Hc.
          split; [lia|]. split; [lia|]. split; [reflexivity|]. split; [reflexivity|].
          intros r c. destruct (Hat r c) as (Hv & Hlo & Hhi).
          rewrite Hv, Wat, Cat. rewrite (cV_step r c a b) by lia.
          assert (Esh : 0 <= sh2 < 32) by nia.
          assert (Et : Z.shiftl (Z.b2z (I (r + a) (c + b) >? I (r + offset w) (c + offset w))) sh2 = cterm r c a b).
          { unfold cterm. rewrite Z.shiftl_mul_pow2 by lia. rewrite Hs.
            destruct (I (r + a) (c + b) >? I (r + offset w) (c + offset w)); cbn [Z.b2z]; lia. }
          rewrite Et.
          assert (P1 : 2 ^ (w * w - (a * w + b)) = 2 * 2 ^ sh2).
          { replace (w * w - (a * w + b)) with (sh2 + 1) by lia. apply pow2_split. lia. }
          assert (P2 : 2 ^ (w * w - (a * w + (b + 1))) = 2 ^ sh2) by (f_equal; lia).
          assert (P3 : 0 < 2 ^ sh2) by (apply Z.pow_pos_nonneg; lia).
          assert (P4 : 2 ^ (w * w) <= 2 ^ 32) by (apply Z.pow_le_mono_r; lia).
          change (2 ^ 32) with 4294967296 in P4.
          assert (Tb : 0 <= cterm r c a b <= 2 ^ sh2).
          { unfold cterm. rewrite <- Hs. destruct (I (r + a) (c + b) >? I (r + offset w) (c + offset w)); lia. }
          rewrite (u32_id (cterm r c a b)) by lia. rewrite u32_id by lia.
          split; [reflexivity|]. rewrite P2. lia. }
        destruct (for_range w _ (acc, sh)) as [acc' sh'].
        (* end of the row = beginning of the next one *)
        destruct L as (Hs & Hok & Hr & Hc & Hat). cbn [fst snd] in Hs, Hok, Hr, Hc, Hat.
        unfold Inv. cbn [fst snd]. split; [lia|]. split; [exact Hok|]. split; [exact Hr|]. split; [exact Hc|].
        intros r c. destruct (Hat r c) as (Hv & Hb). rewrite (cV_row r c a) by lia.
        split; [exact Hv|]. replace ((a + 1) * w + 0) with (a * w + w) by lia. exact Hb. }
    destruct (for_range w _ _) as [acc sh].
    destruct L as (_ & Hok & Hr & Hc & Hat). cbn [fst snd] in Hok, Hr, Hc, Hat.
    split; [exact Hok|]. split; [exact Hr|]. split; [exact Hc|].
    intros r c. destruct (Hat r c) as (Hv & _). rewrite Hv. unfold cV, census_transform. cbv zeta.
    change (zrange 0 0) with (@nil Z). cbn [map zsum]. rewrite Z.add_0_r. reflexivity.
  Qed.
End CensusGen.

(* ------------------------------------------------------------------ compute_mean_raster / compute_std_raster *)

(* the cumulative sum of a sequence that starts with a zero: cs[k] = the sum of the first k elements *)
Lemma lead_zero_cumsum : forall (f : Z -> Z) k, 0 <= k ->
  zsum (map (fun j => if j <? 1 then 0 else f (j - 1)) (zrange 0 (k + 1))) = cumsum f k.
Proof.
  intros f k Hk. unfold cumsum, zrange. rewrite Z2Nat.inj_add by lia. change (Z.to_nat 1) with 1%nat.
  rewrite Nat.add_comm. cbn [Nat.add range map zsum]. change (0 <? 1) with true. cbv iota.
  rewrite (range_shift _ _ (0 + 1)). rewrite Z.add_0_l.
  apply zsum_map_ext. intros x Hx. rewrite range_In in Hx.
  destruct (x + (0 + 1) <? 1) eqn:E; [lia|]. f_equal. lia.
Qed.

Lemma is_np_of : forall {A : Type} ny nx (I : Z -> Z -> A), 0 <= ny -> 0 <= nx -> is_arr (np_of ny nx I) ny nx I.
Proof. intros. unfold is_arr, np_of. cbn [a_ok a_nr a_nc a_at]. split; [lia|]. repeat split. Qed.

Lemma is_lead_zero_row : forall a nr nc f, is_arr a nr nc f -> 0 <= nc ->
  is_arr (np_r_ (np_zeros 1 nc) a) (1 + nr) nc (fun r c => if r <? 1 then 0 else f (r - 1) c).
Proof.
  intros a nr nc f (Hok & Hr & Hc & Hat) Hnc. unfold is_arr, np_r_, np_zeros. cbn [a_ok a_nr a_nc a_at].
  rewrite Hok, Hr, Hc. split; [lia|]. split; [reflexivity|]. split; [reflexivity|].
  intros r c H1 H2. destruct (r <? 1) eqn:E; [reflexivity|]. apply Hat; lia.
Qed.

Lemma is_lead_zero_col : forall a nr nc f n, is_arr a nr nc f -> n = nr -> 0 <= nr ->
  is_arr (np_c_ (np_zeros n 1) a) nr (1 + nc) (fun r c => if c <? 1 then 0 else f r (c - 1)).
Proof.
  intros a nr nc f n (Hok & Hr & Hc & Hat) Hn Hnr. subst n. unfold is_arr, np_c_, np_zeros. cbn [a_ok a_nr a_nc a_at].
  rewrite Hok, Hr, Hc. split; [lia|]. split; [reflexivity|]. split; [reflexivity|].
  intros r c H1 H2. destruct (c <? 1) eqn:E; [reflexivity|]. apply Hat; lia.
Qed.

Lemma is_cumsum0 : forall a nr nc f, is_arr a nr nc f ->
  is_arr (np_cumsum 0 a) nr nc (fun r c => zsum (map (fun j => f j c) (zrange 0 (r + 1)))).
Proof.
  intros a nr nc f (Hok & Hr & Hc & Hat). unfold is_arr, np_cumsum. cbn [a_ok a_nr a_nc a_at].
  change (0 =? 0) with true. cbv iota. rewrite Hok. repeat split; try assumption.
  intros r c H1 H2. apply zsum_map_ext. intros j Hj. rewrite zrange_In in Hj. apply Hat; lia.
Qed.

Lemma is_cumsum1 : forall a nr nc f, is_arr a nr nc f ->
  is_arr (np_cumsum 1 a) nr nc (fun r c => zsum (map (fun j => f r j) (zrange 0 (c + 1)))).
Proof.
  intros a nr nc f (Hok & Hr & Hc & Hat). unfold is_arr, np_cumsum. cbn [a_ok a_nr a_nc a_at].
  change (1 =? 0) with false. change (1 =? 1) with true. cbv iota. rewrite Hok. repeat split; try assumption.
  intros r c H1 H2. apply zsum_map_ext. intros j Hj. rewrite zrange_In in Hj. apply Hat; lia.
Qed.

(* x[k:, :] - x[:-k, :]   and   x[:, k:] - x[:, :-k] *)
Lemma is_windiff_rows : forall a nr nc f k, is_arr a nr nc f -> 0 < k <= nr -> 0 <= nc ->
  is_arr (np_sub (np_slice a (Some k) None None None) (np_slice a None (Some (- k)) None None)) (nr - k) nc
         (fun r c => f (k + r) c - f r c).
Proof.
  intros a nr nc f k (Hok & Hr & Hc & Hat) Hk Hnc. unfold is_arr, np_sub, np_zip, np_slice, same_shape.
  cbn [a_ok a_nr a_nc a_at]. rewrite Hok, Hr, Hc.
  rewrite sl_len_from, sl_len_to_neg, sl_len_all, sl_start_some, !sl_start_none by lia.
  split; [lia|]. split; [reflexivity|]. split; [reflexivity|].
  intros r c H1 H2. rewrite !Z.add_0_l. rewrite !Hat by lia. reflexivity.
Qed.

Lemma is_windiff_cols : forall a nr nc f k, is_arr a nr nc f -> 0 < k <= nc -> 0 <= nr ->
  is_arr (np_sub (np_slice a None None (Some k) None) (np_slice a None None None (Some (- k)))) nr (nc - k)
         (fun r c => f r (k + c) - f r c).
Proof.
  intros a nr nc f k (Hok & Hr & Hc & Hat) Hk Hnr. unfold is_arr, np_sub, np_zip, np_slice, same_shape.
  cbn [a_ok a_nr a_nc a_at]. rewrite Hok, Hr, Hc.
  rewrite sl_len_from, sl_len_to_neg, sl_len_all, sl_start_some, !sl_start_none by lia.
  split; [lia|]. split; [reflexivity|]. split; [reflexivity|].
  intros r c H1 H2. rewrite !Z.add_0_l. rewrite !Hat by lia. reflexivity.
Qed.

Lemma is_div_scalar : forall a nr nc f d, is_arr a nr nc f -> d <> 0 ->
  is_arr (np_div_scalar a d) nr nc (fun r c => (inject_Z (f r c) / inject_Z d)%Q).
Proof.
  intros a nr nc f d (Hok & Hr & Hc & Hat) Hd. unfold is_arr, np_div_scalar. cbn [a_ok a_nr a_nc a_at].
  rewrite Hok. split; [lia|]. split; [exact Hr|]. split; [exact Hc|].
  intros r c H1 H2. rewrite Hat by lia. reflexivity.
Qed.

Lemma is_sq : forall a nr nc f, is_arr a nr nc f -> is_arr (np_sq a) nr nc (fun r c => f r c * f r c).
Proof.
  intros a nr nc f (Hok & Hr & Hc & Hat). unfold is_arr, np_sq, np_map. cbn [a_ok a_nr a_nc a_at].
  repeat split; try assumption. intros r c H1 H2. rewrite Hat by lia. reflexivity.
Qed.

Lemma cumsum_ext : forall f g k, (forall j, f j = g j) -> cumsum f k = cumsum g k.
Proof. intros f g k H. unfold cumsum. apply zsum_map_ext. intros; apply H. Qed.

Section RasterGen.
  Variables (w ny nx : Z).
  Hypotheses (Hw : 0 < w) (Hny : w <= ny) (Hnx : w <= nx).

  (* compute_mean_raster on any valid ny x nx array of values I: valid, (ny - (w-1)) x (nx - (w-1)), and at (r, c) the
     model's cumulative-sum raster divided by w * w *)
  Lemma gen_mean_raster_is : forall a I, is_arr a ny nx I ->
    is_arr (GF.compute_mean_raster a w) (ny - (w - 1)) (nx - (w - 1))
           (fun r c => (inject_Z (sum_raster w ny nx I r c) / inject_Z (w * w))%Q).
  Proof.
    intros a I Ha. unfold GF.compute_mean_raster. cbv zeta.
    destruct Ha as (Hok & Hr & Hc & Hat). rewrite Hr, Hc.
    assert (Ha : is_arr a ny nx I) by (repeat split; assumption).
    pose proof (is_lead_zero_row _ _ _ _ Ha ltac:(lia)) as H1.
    pose proof (is_cumsum0 _ _ _ _ H1) as H2.
    pose proof (is_windiff_rows _ _ _ _ w H2 ltac:(lia) ltac:(lia)) as H3.
    pose proof (is_lead_zero_col _ _ _ _ (ny - (w - 1)) H3 ltac:(lia) ltac:(lia)) as H4.
    pose proof (is_cumsum1 _ _ _ _ H4) as H5.
    pose proof (is_windiff_cols _ _ _ _ w H5 ltac:(lia) ltac:(lia)) as H6.
    pose proof (is_div_scalar _ _ _ _ (w * w) H6 ltac:(nia)) as H7.
    destruct H7 as (Gok & Gr & Gc & Gat).
    split; [exact Gok|]. split; [rewrite Gr; lia|]. split; [rewrite Gc; lia|].
    intros r c R0 C0. rewrite Gat by lia. cbv beta. f_equal. f_equal.
    unfold sum_raster. cbv zeta. rewrite !memo2_eq.
    rewrite !(lead_zero_cumsum (fun j => zsum (map (fun j0 => if j0 <? 1 then 0 else I (j0 - 1) j) (zrange 0 (w + r + 1)))
                                         - zsum (map (fun j0 => if j0 <? 1 then 0 else I (j0 - 1) j) (zrange 0 (r + 1))))) by lia.
    rewrite (Z.add_comm w c).
    f_equal; apply cumsum_ext; intros j; rewrite !memo2_eq;
      rewrite !(lead_zero_cumsum (fun i => I i j)) by lia; rewrite (Z.add_comm w r); reflexivity.
  Qed.
End RasterGen.

(* ------------------------------------------------------------------ compute_std_raster *)

Lemma zsum_nonneg : forall {X} (f : X -> Z) l, (forall x, In x l -> 0 <= f x) -> 0 <= zsum (map f l).
Proof.
  induction l as [|a l IH]; intros H; cbn [map zsum]; [lia|].
  pose proof (H a (or_introl eq_refl)). assert (0 <= zsum (map f l)) by (apply IH; intros; apply H; now right). lia.
Qed.

Lemma wsum_sq_nonneg : forall w (F : Z -> Z -> Z) r c, 0 <= wsum w (fun rr cc => F rr cc * F rr cc) r c.
Proof. intros. unfold wsum. apply zsum_nonneg. intros a _. apply zsum_nonneg. intros b _. nia. Qed.

Lemma qltb_comp : forall x x' y y', (x == x')%Q -> (y == y')%Q -> qltb x y = qltb x' y'.
Proof. intros x x' y y' Hx Hy. unfold qltb. rewrite Hx, Hy. reflexivity. Qed.

Lemma qltb_lt : forall x y, qltb x y = true -> (x < y)%Q.
Proof.
  intros x y H. unfold qltb in H. apply Qnot_le_lt. intros L. apply Qle_bool_iff in L. rewrite L in H. discriminate.
Qed.

(* the variance of a window (times w^4) V >= 0 and the sum of squares M2 >= 0, w^2 = Zpos p: the relative threshold
   10^-15 |E[x^2]| is not reached by a non-zero variance as long as w^2 * M2 < 10^15 *)
Lemma std_threshold : forall (V M2 : Z) (p : positive), 0 <= V -> 0 <= M2 -> Zpos p * M2 < 10 ^ 15 ->
  (inject_Z V / inject_Z (Zpos p * Zpos p) < (1 # 1000000000000000) * Qabs (inject_Z M2 / inject_Z (Zpos p)))%Q -> V = 0.
Proof.
  intros V M2 p HV HM Hb H.
  change (Zpos p * Zpos p) with (Zpos (p * p)) in H. rewrite <- !Qmake_div in H.
  unfold Qabs in H. rewrite (Z.abs_eq M2 HM) in H. unfold Qlt, Qmult in H. cbn [Qnum Qden] in H.
  change (10 ^ 15) with 1000000000000000 in Hb.
  rewrite Pos2Z.inj_mul in H. rewrite (Pos2Z.inj_mul p p) in H.
  assert (0 < Zpos p) by lia. nia.
Qed.

Section StdGen.
  Variables (w ny nx : Z).
  Hypotheses (Hw : 0 < w) (Hny : w <= ny) (Hnx : w <= nx).

  (* compute_std_raster returns the square root of an array that is valid, (ny - (w-1)) x (nx - (w-1)), and holds at
     (r, c): E[x^2] - E[x]^2 = V / w^4 (V = the model's var_raster) -- or 0 where that is below 10^-15 |E[x^2]|;
     as long as w^2 * (sum of the squares of the window) < 10^15 the clamp only ever replaces a zero by a zero *)
  Lemma gen_std_raster_var_is : forall a I, is_arr a ny nx I ->
    let g := GF.compute_std_raster_var a w in
    a_ok g = true /\ a_nr g = ny - (w - 1) /\ a_nc g = nx - (w - 1)
    /\ forall r c, 0 <= r -> 0 <= c ->
       let M2 := sum_raster w ny nx (fun rr cc => I rr cc * I rr cc) r c in
       let v := (inject_Z (var_raster w ny nx I r c) / inject_Z (w * w * (w * w)))%Q in
       (a_at g r c == if qltb v ((1 # 1000000000000000) * Qabs (inject_Z M2 / inject_Z (w * w))) then 0 else v)%Q
       /\ (w * w * M2 < 10 ^ 15 -> (a_at g r c == v)%Q).
  Proof.
    intros a I Ha. cbv zeta. unfold GF.compute_std_raster_var. cbv zeta.
    pose proof (gen_mean_raster_is w ny nx Hw Hny Hnx a I Ha) as (Mok & Mr & Mc & Mat).
    pose proof (gen_mean_raster_is w ny nx Hw Hny Hnx _ _ (is_sq _ _ _ _ Ha)) as (Sok & Sr & Sc & Sat).
    set (m := GF.compute_mean_raster a w) in *. set (m2 := GF.compute_mean_raster (np_sq a) w) in *.
    unfold np_set_where, npq_lt, npq_scale, npq_abs, npq_sub, npq_sq, np_zip, np_map, same_shape.
    cbn [a_ok a_nr a_nc a_at]. rewrite Mok, Sok, Mr, Mc, Sr, Sc.
    split; [lia|]. split; [reflexivity|]. split; [reflexivity|].
    intros r c R0 C0. rewrite (Mat r c R0 C0), (Sat r c R0 C0).
    set (S1 := sum_raster w ny nx I r c).
    set (M2 := sum_raster w ny nx (fun r0 c0 => I r0 c0 * I r0 c0) r c).
    assert (W2 : 0 < w * w) by nia.
    assert (Ev : (inject_Z M2 / inject_Z (w * w) - inject_Z S1 / inject_Z (w * w) * (inject_Z S1 / inject_Z (w * w))
                  == inject_Z (var_raster w ny nx I r c) / inject_Z (w * w * (w * w)))%Q).
    { unfold var_raster. cbv zeta. fold S1. fold M2.
      unfold Z.sub. rewrite inject_Z_plus, inject_Z_opp, !inject_Z_mult. field.
      intros E. unfold Qeq in E. cbn [Qnum Qden inject_Z] in E. lia. }
    set (v0 := (inject_Z M2 / inject_Z (w * w) - inject_Z S1 / inject_Z (w * w) * (inject_Z S1 / inject_Z (w * w)))%Q) in *.
    set (v := (inject_Z (var_raster w ny nx I r c) / inject_Z (w * w * (w * w)))%Q) in *.
    set (t := ((1 # 1000000000000000) * Qabs (inject_Z M2 / inject_Z (w * w)))%Q).
    rewrite (qltb_comp v0 v t t Ev (Qeq_refl t)).
    split.
    - destruct (qltb v t); [reflexivity|exact Ev].
    - intros Hb. destruct (qltb v t) eqn:E; [|exact Ev].
      apply qltb_lt in E. subst v t.
      destruct (w * w) as [|p|p] eqn:Ep; try lia.
      assert (HV : 0 <= var_raster w ny nx I r c).
      { rewrite var_raster_eq by lia. apply wsum_variance_nonneg. exact Hw. }
      assert (HM : 0 <= M2) by (subst M2; rewrite sum_raster_eq by lia; apply wsum_sq_nonneg).
      rewrite (std_threshold _ _ p HV HM Hb E). reflexivity.
  Qed.
End StdGen.

(* ------------------------------------------------------------------ masks_dilatation and its call in cv_masked *)

Lemma existsb_eq : forall {X Y} (f : X -> bool) (g : Y -> bool) l1 l2,
  (forall x, In x l1 -> f x = true -> exists y, In y l2 /\ g y = true) ->
  (forall y, In y l2 -> g y = true -> exists x, In x l1 /\ f x = true) ->
  existsb f l1 = existsb g l2.
Proof.
  intros X Y f g l1 l2 H1 H2. apply eq_iff_eq_true. rewrite !existsb_exists. split.
  - intros (x & Hx & Hf). destruct (H1 x Hx Hf) as (y & Hy & Hg). exists y. split; assumption.
  - intros (y & Hy & Hg). destruct (H2 y Hy Hg) as (x & Hx & Hf). exists x. split; assumption.
Qed.

(* scipy's binary_dilation with a full w x w structure (w odd) as NpArr.v reads it = the model's window maximum *)
Lemma dilation_eq : forall ny nx w nd (m : img) r c, 0 < w -> Z.odd w = true ->
  a_at (np_binary_dilation (np_eq_scalar (np_of ny nx m) nd) w w 1) r c = dilate ny nx w nd m r c.
Proof.
  intros ny nx w nd m r c Hw Hodd.
  assert (Hoff : w / 2 = offset w /\ 2 * offset w = w - 1).
  { unfold offset. apply Z.odd_spec in Hodd. destruct Hodd as [k Hk]. lia. }
  destruct Hoff as (Hh & Hoff).
  unfold np_binary_dilation, np_eq_scalar, np_map, np_of, dilate, inside. cbn [a_ok a_nr a_nc a_at]. cbv zeta.
  rewrite Hh.
  apply existsb_eq.
  - intros i Hi Hf. rewrite zrange_In in Hi. apply existsb_exists in Hf. destruct Hf as (j & Hj & Hf).
    rewrite zrange_In in Hj. exists (offset w - i). split; [rewrite zrange_In; lia|].
    apply existsb_exists. exists (offset w - j). split; [rewrite zrange_In; lia|].
    replace (r + (offset w - i)) with (r - (i - offset w)) by lia.
    replace (c + (offset w - j)) with (c - (j - offset w)) by lia. exact Hf.
  - intros a Ha Hf. rewrite zrange_In in Ha. apply existsb_exists in Hf. destruct Hf as (b & Hb & Hf).
    rewrite zrange_In in Hb. exists (offset w - a). split; [rewrite zrange_In; lia|].
    apply existsb_exists. exists (offset w - b). split; [rewrite zrange_In; lia|].
    replace (r - (offset w - a - offset w)) with (r + a) by lia.
    replace (c - (offset w - b - offset w)) with (c + b) by lia. exact Hf.
Qed.

Section MasksGen.
  Variables (ny nx w s : Z).
  Hypotheses (Hny : 0 <= ny) (Hnx : 1 <= nx) (Hw : 0 < w) (Hodd : Z.odd w = true).

  Lemma is_mask : forall vp nd (m : img),
    is_arr (np_set_where (np_binary_dilation (np_eq_scalar (np_of ny nx m) nd) w w 1) true
             (np_set_where (np_and (np_ne_scalar (np_of ny nx m) vp) (np_ne_scalar (np_of ny nx m) nd)) true
                (np_zeros_mask ny nx)))
           ny nx (mask_nan ny nx w vp nd (Some m)).
  Proof.
    intros vp nd m. split; [|split; [reflexivity|split; [reflexivity|]]].
    - unfold np_set_where, np_binary_dilation, np_and, np_zip, np_ne_scalar, np_eq_scalar, np_map, np_zeros_mask,
        np_of, same_shape. cbn [a_ok a_nr a_nc a_at]. rewrite Hodd. lia.
    - intros r c _ _. unfold np_set_where at 1. cbn [a_at]. rewrite dilation_eq by assumption.
      unfold np_set_where, np_and, np_zip, np_ne_scalar, np_map, np_zeros_mask, np_of. cbn [a_at].
      unfold mask_nan, invalid_px.
      destruct (dilate ny nx w nd m r c); destruct (negb (m r c =? vp) && negb (m r c =? nd)); reflexivity.
  Qed.

  Lemma is_no_mask : forall vp nd, is_arr (np_zeros_mask ny nx) ny nx (mask_nan ny nx w vp nd None).
  Proof. intros vp nd. unfold is_arr, np_zeros_mask. cbn [a_ok a_nr a_nc a_at]. split; [lia|]. repeat split. Qed.

  Lemma is_shift : forall a f, is_arr a ny nx f ->
    is_arr (np_sum_strided3_nan a (a_nr a) (a_nc a - 1) 2 StRow StCol StCol) ny (nx - 1) (mask_shift f).
  Proof.
    intros a f (Hok & Hr & Hc & Hat). unfold is_arr, np_sum_strided3_nan. cbn [a_ok a_nr a_nc a_at on_row on_col].
    rewrite Hok, Hr, Hc. split; [lia|]. split; [reflexivity|]. split; [reflexivity|].
    intros r c R0 C0. change (zrange 0 2) with [0; 1]. cbn [existsb]. unfold mask_shift.
    rewrite !Hat by lia. rewrite orb_false_r. f_equal; f_equal; lia.
  Qed.

  (* the masks that cv_masked receives are the model's: left and right dilated masks with the window of the measure,
     and, exactly when subpix != 1, the two-column mask of the right one *)
  Lemma gen_cv_masked_masks_eq : forall (vp nd vpr ndr : Z) (IL IR : img) (mL mR : option img),
    let res := GF.cv_masked_masks (ds_of ny nx vp nd IL mL) (ds_of ny nx vpr ndr IR mR) w s in
    is_arr (fst res) ny nx (mask_nan ny nx w vp nd mL)
    /\ is_arr (fst (snd res)) ny nx (mask_nan ny nx w vpr ndr mR)
    /\ match snd (snd res) with
       | Some sh => s <> 1 /\ is_arr sh ny (nx - 1) (mask_shift (mask_nan ny nx w vpr ndr mR))
       | None => s = 1
       end.
  Proof.
    intros vp nd vpr ndr IL IR mL mR. cbv zeta. unfold GF.cv_masked_masks, GF.masks_dilatation. cbv zeta.
    unfold ds_of. cbn [d_im d_msk d_valid_pixels d_no_data_mask fst snd].
    split; [destruct mL as [m|]; [exact (is_mask vp nd m)|exact (is_no_mask vp nd)]|].
    assert (HR : is_arr (fst (snd (GF.cv_masked_masks (ds_of ny nx vp nd IL mL) (ds_of ny nx vpr ndr IR mR) w s))) ny nx (mask_nan ny nx w vpr ndr mR)).
    { unfold GF.cv_masked_masks, GF.masks_dilatation. cbv zeta. unfold ds_of.
      cbn [d_im d_msk d_valid_pixels d_no_data_mask fst snd].
      destruct mR as [m|]; [exact (is_mask vpr ndr m)|exact (is_no_mask vpr ndr)]. }
    unfold GF.cv_masked_masks, GF.masks_dilatation in HR. cbv zeta in HR. unfold ds_of in HR.
    cbn [d_im d_msk d_valid_pixels d_no_data_mask fst snd] in HR.
    split; [exact HR|].
    destruct (s =? 1) eqn:Es; cbn [negb]; cbv iota.
    - lia.
    - split; [lia|]. apply is_shift. exact HR.
  Qed.
End MasksGen.

(* ------------------------------------------------------------------ the headline facts on the generated definitions *)

Lemma census_transform_bound : forall w I r c, 0 < w -> w * w <= 32 -> 0 <= census_transform w I r c < 2 ^ 32.
Proof.
  intros w I r c Hw Hww. rewrite census_transform_bits by exact Hw.
  pose proof (bvl_bound (cbits w I r c)) as B. split; [lia|].
  apply Z.lt_le_trans with (1 := proj2 B). apply Z.pow_le_mono_r; [lia|].
  unfold cbits. rewrite rev_length, map_length, range_length.
  rewrite <- Z2Nat.inj_mul by lia. rewrite Z2Nat.id by nia. exact Hww.
Qed.

Lemma lxor_bound32 : forall a b, 0 <= a < 2 ^ 32 -> 0 <= b < 2 ^ 32 -> 0 <= Z.lxor a b < 2 ^ 32.
Proof.
  intros a b Ha Hb.
  assert (N : 0 <= Z.lxor a b) by (apply Z.lxor_nonneg; lia).
  split; [exact N|].
  destruct (Z.eq_dec (Z.lxor a b) 0) as [E|E]; [rewrite E; reflexivity|].
  apply Z.log2_lt_pow2; [lia|].
  assert (La : Z.log2 a < 32).
  { destruct (Z.eq_dec a 0) as [->|]; [reflexivity|]. apply Z.log2_lt_pow2; lia. }
  assert (Lb : Z.log2 b < 32).
  { destruct (Z.eq_dec b 0) as [->|]; [reflexivity|]. apply Z.log2_lt_pow2; lia. }
  pose proof (Z.log2_lxor a b ltac:(lia) ltac:(lia)). lia.
Qed.

(* C02_census_hamming on the generated census_transform / census_cost / popcount32b: the cost cell of two transformed
   pixels counts the window pixels whose "greater than the centre" bits differ *)
Lemma gen_census_hamming : forall w ny nx I ny2 nx2 J r c r2 c2,
  Z.odd w = true -> 3 <= w -> w * w <= 32 -> w <= ny -> w <= nx -> w <= ny2 -> w <= nx2 ->
  GF.census_cost_cell (a_at (GF.census_transform (np_of ny nx I) w) r c)
                      (a_at (GF.census_transform (np_of ny2 nx2 J) w) r2 c2)
  = zsum (map (fun a => zsum (map (fun b =>
       Z.b2z (xorb (I (r + a) (c + b) >? I (r + offset w) (c + offset w))
                   (J (r2 + a) (c2 + b) >? J (r2 + offset w) (c2 + offset w)))) (zrange 0 w))) (zrange 0 w)).
Proof.
  intros w ny nx I ny2 nx2 J r c r2 c2 Hodd Hw3 Hww Hny Hnx Hny2 Hnx2.
  destruct (gen_census_transform_eq w ny nx I Hodd Hw3 Hww Hny Hnx) as (_ & _ & _ & E1).
  destruct (gen_census_transform_eq w ny2 nx2 J Hodd Hw3 Hww Hny2 Hnx2) as (_ & _ & _ & E2).
  rewrite E1, E2. unfold GF.census_cost_cell.
  pose proof (census_transform_bound w I r c ltac:(lia) Hww) as B1.
  pose proof (census_transform_bound w J r2 c2 ltac:(lia) Hww) as B2.
  change (2 ^ 32) with 4294967296 in B1, B2. rewrite !u32_id by lia.
  rewrite gen_popcount32b_eq by (apply lxor_bound32; assumption).
  apply census_hamming; lia.
Qed.

(* C02_mean_raster_eq_window_mean on the generated compute_mean_raster / compute_std_raster *)
Lemma gen_mean_raster_eq_window_mean : forall w ny nx I r c, 0 < w -> w <= ny -> w <= nx -> 0 <= r -> 0 <= c ->
  let m := GF.compute_mean_raster (np_of ny nx I) w in
  let v := GF.compute_std_raster_var (np_of ny nx I) w in
  let S1 := zsum (map (fun a => zsum (map (fun b => I (r + a) (c + b)) (zrange 0 w))) (zrange 0 w)) in
  let S2 := zsum (map (fun a => zsum (map (fun b => I (r + a) (c + b) * I (r + a) (c + b)) (zrange 0 w))) (zrange 0 w)) in
  a_ok m = true /\ a_nr m = ny - (w - 1) /\ a_nc m = nx - (w - 1)
  /\ a_ok v = true /\ a_nr v = ny - (w - 1) /\ a_nc v = nx - (w - 1)
  /\ (a_at m r c == inject_Z S1 / inject_Z (w * w))%Q
  /\ 0 <= w * w * S2 - S1 * S1
  /\ (w * w * S2 < 10 ^ 15 -> (a_at v r c == inject_Z (w * w * S2 - S1 * S1) / inject_Z (w * w * (w * w)))%Q).
Proof.
  intros w ny nx I r c Hw Hny Hnx Hr Hc. cbv zeta.
  pose proof (is_np_of ny nx I ltac:(lia) ltac:(lia)) as HA.
  destruct (gen_mean_raster_is w ny nx Hw Hny Hnx _ _ HA) as (Mok & Mr & Mc & Mat).
  destruct (gen_std_raster_var_is w ny nx Hw Hny Hnx _ _ HA) as (Vok & Vr & Vc & Vat).
  destruct (Vat r c Hr Hc) as (_ & Vb).
  pose proof (sum_raster_eq w ny nx I r c ltac:(lia) Hr Hc) as E1.
  pose proof (sum_raster_eq w ny nx (fun rr cc => I rr cc * I rr cc) r c ltac:(lia) Hr Hc) as E2.
  pose proof (var_raster_eq w ny nx I r c ltac:(lia) Hr Hc) as E3.
  unfold wsum in E1, E2, E3.
  repeat (split; [assumption|]).
  split; [rewrite (Mat r c Hr Hc), E1; reflexivity|].
  split; [exact (wsum_variance_nonneg w I r c Hw)|].
  intros Hb. rewrite E2 in Vb. rewrite (Vb Hb), E3. reflexivity.
Qed.
