(* Proofs about Model/Multiscale.v against Spec/Multiscale.v (property C15). *)
From Coq Require Import ZArith QArith List Bool Lia Lqa.
From Pandora Require Import Lib.Blocks Model.Dataset Model.Machine Model.Multiscale.
From Pandora Require Import Spec.Language Spec.CrossCheck Spec.Multiscale.
From Pandora Require Proofs.MachineP Proofs.CrossCheckP.
Import ListNotations.
Open Scope Z_scope.

(* ================================================================== sizes *)

Lemma ceil_div_spec a b : 0 < b -> (ceil_div a b - 1) * b < a <= ceil_div a b * b.
Proof.
  intros Hb. unfold ceil_div.
  pose proof (Z.div_mod (a + b - 1) b ltac:(lia)) as E.
  pose proof (Z.mod_pos_bound (a + b - 1) b Hb) as M.
  nia.
Qed.

Lemma ceil_unique a b m m' : 0 < b ->
  (m - 1) * b < a <= m * b -> (m' - 1) * b < a <= m' * b -> m = m'.
Proof. intros. nia. Qed.

Lemma ceil_div_unique a b m : 0 < b -> (m - 1) * b < a <= m * b -> ceil_div a b = m.
Proof. intros Hb H. eapply ceil_unique; eauto. apply ceil_div_spec; assumption. Qed.

(* iterating the one-level reduction k times = one reduction by sf^k *)
Lemma level_size_is k n sf : 0 < sf -> is_level_size n sf k (level_size k n sf).
Proof.
  intros Hsf. unfold is_level_size. induction k as [|k IH].
  - cbn [level_size]. change (Z.of_nat 0) with 0. rewrite Z.pow_0_r. lia.
  - cbn [level_size]. rewrite Nat2Z.inj_succ, Z.pow_succ_r by lia.
    set (p := sf ^ Z.of_nat k) in *. assert (0 < p) by (apply Z.pow_pos_nonneg; lia).
    set (c := level_size k n sf) in *.
    pose proof (ceil_div_spec c sf Hsf) as Hc. set (m := ceil_div c sf) in *.
    assert (m * sf * p >= c * p) by nia.
    assert ((m - 1) * sf * p <= (c - 1) * p) by nia.
    nia.
Qed.

Lemma level_size_ceil k n sf : 0 < sf -> level_size k n sf = ceil_div n (sf ^ Z.of_nat k).
Proof.
  intros Hsf. symmetry. apply ceil_div_unique.
  - apply Z.pow_pos_nonneg; lia.
  - apply level_size_is; assumption.
Qed.

Lemma level_size_shrinks k n sf : 0 < sf ->
  shrinks sf (level_size k n sf) (level_size (S k) n sf).
Proof. intros Hsf. unfold shrinks. cbn [level_size]. apply ceil_div_spec; assumption. Qed.

Lemma level_size_pos k n sf : 0 < sf -> 1 <= n -> 1 <= level_size k n sf.
Proof.
  intros Hsf Hn. pose proof (level_size_is k n sf Hsf) as H. unfold is_level_size in H.
  assert (0 < sf ^ Z.of_nat k) by (apply Z.pow_pos_nonneg; lia). nia.
Qed.

(* the zoomed grid of a level covers the image of the next finer level: cropping is a crop *)
Lemma zoom_covers k n sf : 0 < sf -> level_size k n sf <= sf * level_size (S k) n sf.
Proof. intros Hsf. pose proof (level_size_shrinks k n sf Hsf) as H. unfold shrinks in H. lia. Qed.

(* ================================================================== zoom (order 0) index contract *)

Lemma zoom_idx_range sf n o : 1 <= sf -> 1 <= n -> 0 <= o < sf * n -> 0 <= zoom_idx sf n o < n.
Proof.
  intros Hsf Hn Ho. unfold zoom_idx.
  destruct (Z.eq_dec (sf * n - 1) 0) as [E|E].
  - rewrite E. rewrite Z.mul_0_r, Zdiv_0_r. lia.
  - assert (Hd : 0 < sf * n - 1) by nia. set (d := sf * n - 1) in *.
    split.
    + apply Z.div_pos; nia.
    + apply Z.div_lt_upper_bound; [lia|]. nia.
Qed.

Lemma zoom_idx_near sf n o : 1 <= sf -> 1 <= n -> 0 <= o < sf * n ->
  o / sf - 1 <= zoom_idx sf n o <= o / sf + 1.
Proof.
  intros Hsf Hn Ho. unfold zoom_idx.
  destruct (Z.eq_dec (sf * n - 1) 0) as [E|E].
  - rewrite E. rewrite Z.mul_0_r, Zdiv_0_r.
    assert (sf = 1 /\ n = 1) as [-> ->] by nia. assert (o = 0) by lia. subst. cbn. lia.
  - assert (Hd : 0 < sf * n - 1) by nia. set (d := sf * n - 1) in *.
    set (p := (2 * o * (n - 1) + d) / (2 * d)).
    pose proof (Z.div_mod (2 * o * (n - 1) + d) (2 * d) ltac:(lia)) as Ep.
    pose proof (Z.mod_pos_bound (2 * o * (n - 1) + d) (2 * d) ltac:(lia)) as Mp.
    fold p in Ep.
    set (q := o / sf).
    pose proof (Z.div_mod o sf ltac:(lia)) as Eq. pose proof (Z.mod_pos_bound o sf ltac:(lia)) as Mq.
    fold q in Eq.
    (* sf * (n - 1) = d + 1 - sf *)
    assert (K : sf * (n - 1) = d + 1 - sf) by (unfold d; lia).
    assert (K2 : 2 * o * (n - 1) * sf = 2 * o * d - 2 * o * (sf - 1)) by nia.
    split.
    + (* p >= q - 1 *)
      destruct (Z_lt_le_dec p (q - 1)) as [Hlt|]; [exfalso | lia].
      assert (H1 : 2 * o * (n - 1) + d < 2 * d * (q - 1)) by nia.
      assert (H2 : (2 * o * (n - 1) + d) * sf < 2 * d * (q - 1) * sf) by nia.
      assert (H3 : 2 * o * (sf - 1) <= 2 * d * (sf - 1)) by (unfold d; nia).
      assert (H4 : d * (2 * o - 2 * sf + 2 + sf) < d * (2 * sf * q - 2 * sf)) by nia.
      assert (H5 : 2 * o - 2 * sf + 2 + sf < 2 * sf * q - 2 * sf) by nia.
      nia.
    + destruct (Z_lt_le_dec (q + 1) p) as [Hlt|]; [exfalso | lia].
      assert (H1 : 2 * d * (q + 2) <= 2 * o * (n - 1) + d) by nia.
      assert (H2 : 2 * d * (q + 2) * sf <= (2 * o * (n - 1) + d) * sf) by nia.
      assert (H4 : d * (2 * sf * (q + 2)) <= d * (2 * o + sf)) by nia.
      assert (H5 : 2 * sf * (q + 2) <= 2 * o + sf) by nia.
      nia.
Qed.

Lemma zoom_idx_contract sf n : 1 <= sf -> 1 <= n -> zoom_contract sf n (zoom_idx sf n).
Proof. intros H1 H2 o Ho. split; [apply zoom_idx_range | apply zoom_idx_near]; assumption. Qed.

(* ================================================================== min / max folds *)

Lemma In_zrange off n x : In x (zrange off n) <-> off <= x < off + n.
Proof.
  unfold zrange. rewrite in_map_iff. split.
  - intros (i & <- & Hi). apply in_seq in Hi. lia.
  - intros H. exists (Z.to_nat (x - off)). split; [lia|]. apply in_seq. lia.
Qed.

Lemma qmin2_cases a b : (qmin2 a b = a /\ (a <= b)%Q) \/ (qmin2 a b = b /\ (b <= a)%Q).
Proof.
  unfold qmin2. destruct (Qle_bool a b) eqn:E.
  - left. split; [reflexivity|]. apply Qle_bool_iff; assumption.
  - right. split; [reflexivity|]. apply Qlt_le_weak, Qnot_le_lt. intro H.
    apply Qle_bool_iff in H. congruence.
Qed.

Lemma qmax2_cases a b : (qmax2 a b = b /\ (a <= b)%Q) \/ (qmax2 a b = a /\ (b <= a)%Q).
Proof.
  unfold qmax2. destruct (Qle_bool a b) eqn:E.
  - left. split; [reflexivity|]. apply Qle_bool_iff; assumption.
  - right. split; [reflexivity|]. apply Qlt_le_weak, Qnot_le_lt. intro H.
    apply Qle_bool_iff in H. congruence.
Qed.

Lemma fold_min_spec l : forall x,
  In (fold_left qmin2 l x) (x :: l) /\ forall y, In y (x :: l) -> (fold_left qmin2 l x <= y)%Q.
Proof.
  induction l as [|a l IH]; intros x; cbn [fold_left].
  - split; [left; reflexivity|]. intros y [<-|[]]. apply Qle_refl.
  - destruct (IH (qmin2 x a)) as [Hin Hle].
    destruct (qmin2_cases x a) as [[E H]|[E H]]; rewrite E in *.
    + split.
      * destruct Hin as [Hin|Hin]; [left; exact Hin | right; right; exact Hin].
      * intros y [<-|[<-|Hy]].
        -- apply Hle. left. reflexivity.
        -- eapply Qle_trans; [apply Hle; left; reflexivity | exact H].
        -- apply Hle. right. exact Hy.
    + split.
      * destruct Hin as [Hin|Hin]; [right; left; exact Hin | right; right; exact Hin].
      * intros y [<-|[<-|Hy]].
        -- eapply Qle_trans; [apply Hle; left; reflexivity | exact H].
        -- apply Hle. left. reflexivity.
        -- apply Hle. right. exact Hy.
Qed.

Lemma fold_max_spec l : forall x,
  In (fold_left qmax2 l x) (x :: l) /\ forall y, In y (x :: l) -> (y <= fold_left qmax2 l x)%Q.
Proof.
  induction l as [|a l IH]; intros x; cbn [fold_left].
  - split; [left; reflexivity|]. intros y [<-|[]]. apply Qle_refl.
  - destruct (IH (qmax2 x a)) as [Hin Hle].
    destruct (qmax2_cases x a) as [[E H]|[E H]]; rewrite E in *.
    + split.
      * destruct Hin as [Hin|Hin]; [right; left; exact Hin | right; right; exact Hin].
      * intros y [<-|[<-|Hy]].
        -- eapply Qle_trans; [exact H | apply Hle; left; reflexivity].
        -- apply Hle. left. reflexivity.
        -- apply Hle. right. exact Hy.
    + split.
      * destruct Hin as [Hin|Hin]; [left; exact Hin | right; right; exact Hin].
      * intros y [<-|[<-|Hy]].
        -- apply Hle. left. reflexivity.
        -- eapply Qle_trans; [exact H | apply Hle; left; reflexivity].
        -- apply Hle. right. exact Hy.
Qed.

Lemma qfold_min_spec l m : qfold qmin2 l = Some m -> In m l /\ forall y, In y l -> (m <= y)%Q.
Proof. destruct l as [|x l]; cbn [qfold]; [discriminate|]. intros [= <-]. apply fold_min_spec. Qed.
Lemma qfold_max_spec l m : qfold qmax2 l = Some m -> In m l /\ forall y, In y l -> (y <= m)%Q.
Proof. destruct l as [|x l]; cbn [qfold]; [discriminate|]. intros [= <-]. apply fold_max_spec. Qed.
Lemma qfold_some f l q : In q l -> exists m, qfold f l = Some m.
Proof. destruct l; [intros []|]. intros _. cbn [qfold]. eauto. Qed.

(* ================================================================== disparity_range *)

Definition IB : Z := 963.    (* cst.PANDORA_MSK_PIXEL_INVALID; re-checked against Gen/ValConst.v in Props/C15.v *)

Lemma invalid_spec V r c : invalid IB V r c = negb (spec_valid (px V r c)).
Proof. unfold invalid. f_equal. exact (CrossCheckP.is_valid_spec (px V r c)). Qed.

Section RangeProofs.
  Variables ws marge sf : Z.
  Variable D : arr (option Q).
  Variable V : arr Z.
  Variables umin umax : Q.

  Notation R := (nr D).
  Notation C := (nc D).
  Notation h := (offset ws).
  Notation valid := (valid_px R C (px D) (px V)).
  Notation border := (on_border ws R C).
  Notation inwin := (in_window ws R C (px D) (px V)).

  Lemma half_offset : half ws = offset ws.
  Proof. reflexivity. Qed.

  Lemma tmp_disp_valid r c q : 0 <= r < R -> 0 <= c < C ->
    (tmp_disp IB D V r c = Some q <-> valid r c = true /\ px D r c = Some q).
  Proof.
    intros Hr Hc. unfold tmp_disp, valid_px. rewrite invalid_spec.
    replace (0 <=? r) with true by (symmetry; apply Z.leb_le; lia).
    replace (r <? R) with true by (symmetry; apply Z.ltb_lt; lia).
    replace (0 <=? c) with true by (symmetry; apply Z.leb_le; lia).
    replace (c <? C) with true by (symmetry; apply Z.ltb_lt; lia).
    cbn [andb]. destruct (spec_valid (px V r c)); cbn [negb andb].
    - split; [intros E; rewrite E; auto | intros [_ E]; exact E].
    - split; [discriminate | intros [E _]; discriminate].
  Qed.

  Lemma isnan_tmp_valid r c : 0 <= r < R -> 0 <= c < C ->
    isnan_tmp IB D V r c = negb (valid r c).
  Proof.
    intros Hr Hc. unfold isnan_tmp.
    destruct (tmp_disp IB D V r c) as [q|] eqn:E.
    - apply tmp_disp_valid in E; [|assumption|assumption]. destruct E as [E _]. rewrite E. reflexivity.
    - destruct (valid r c) eqn:Ev; [|reflexivity]. exfalso.
      assert (exists q, px D r c = Some q) as [q Hq].
      { unfold valid_px in Ev. destruct (px D r c) as [q|]; [eauto|].
        rewrite andb_false_r in Ev. discriminate. }
      assert (tmp_disp IB D V r c = Some q) by (apply tmp_disp_valid; auto). congruence.
  Qed.

  Lemma win_vals_In i j q :
    In q (win_vals IB ws D V i j) <->
    exists di dj, 0 <= di < ws /\ 0 <= dj < ws /\ tmp_disp IB D V (i + di) (j + dj) = Some q.
  Proof.
    unfold win_vals. rewrite in_flat_map. split.
    - intros (di & Hdi & H). rewrite in_flat_map in H. destruct H as (dj & Hdj & H).
      apply In_zrange in Hdi. apply In_zrange in Hdj.
      exists di, dj. repeat split; try lia.
      destruct (tmp_disp IB D V (i + di) (j + dj)) as [q'|]; [|destruct H].
      destruct H as [<-|[]]. reflexivity.
    - intros (di & dj & Hdi & Hdj & H). exists di. split; [apply In_zrange; lia|].
      rewrite in_flat_map. exists dj. split; [apply In_zrange; lia|]. rewrite H. left. reflexivity.
  Qed.

  Hypothesis Hodd : ws = 2 * h + 1.
  Hypothesis Hh : 0 <= h.

  (* on an interior pixel the sliding window (pr - h, pc - h) read by the code is the matching
     window of the property, and every one of its reads is inside the map *)
  Lemma window_is_matching_window pr pc q : border pr pc = false ->
    (In q (win_vals IB ws D V (pr - h) (pc - h)) <-> inwin pr pc q).
  Proof.
    intros Hb. unfold on_border in Hb. rewrite half_offset in Hb.
    rewrite !orb_false_iff in Hb. destruct Hb as (((B1 & B2) & B3) & B4).
    apply Z.ltb_ge in B1, B3. apply Z.leb_gt in B2, B4.
    rewrite win_vals_In. unfold in_window. rewrite half_offset. split.
    - intros (di & dj & Hdi & Hdj & H). exists (pr - h + di), (pc - h + dj).
      split; [lia|]. split; [lia|]. apply tmp_disp_valid; [lia | lia | exact H].
    - intros (r & c & Hr & Hc & Hv & Hq). exists (r - (pr - h)), (c - (pc - h)).
      split; [lia|]. split; [lia|].
      replace (pr - h + (r - (pr - h))) with r by lia.
      replace (pc - h + (c - (pc - h))) with c by lia.
      apply tmp_disp_valid; [lia | lia | auto].
  Qed.

  Hypothesis Hrows : ws <= R.
  Hypothesis Hcols : ws <= C.

  (* the chunked double loop writes window (r - h, c - h) at every interior pixel and leaves
     the border at the initial value, whatever the chunk size *)
  Lemma looped_spec B r c : 1 <= B ->
    looped IB ws marge D V umin umax B r c =
    if border r c then fallback umin umax else win_range IB ws marge D V (r - h) (c - h).
  Proof.
    intros HB. unfold looped, rows, cols. rewrite loop2_spec by lia.
    unfold on_border. rewrite half_offset.
    destruct (h <=? r) eqn:E1, (r <? h + (R - ws + 1)) eqn:E2,
             (h <=? c) eqn:E3, (c <? h + (C - ws + 1)) eqn:E4; cbn [andb];
    try apply Z.leb_le in E1; try apply Z.leb_gt in E1; try apply Z.ltb_lt in E2; try apply Z.ltb_ge in E2;
    try apply Z.leb_le in E3; try apply Z.leb_gt in E3; try apply Z.ltb_lt in E4; try apply Z.ltb_ge in E4;
    destruct (r <? h) eqn:F1, (R - h <=? r) eqn:F2, (c <? h) eqn:F3, (C - h <=? c) eqn:F4; cbn [orb];
    try apply Z.ltb_lt in F1; try apply Z.ltb_ge in F1; try apply Z.leb_le in F2; try apply Z.leb_gt in F2;
    try apply Z.ltb_lt in F3; try apply Z.ltb_ge in F3; try apply Z.leb_le in F4; try apply Z.leb_gt in F4;
    try reflexivity; exfalso; lia.
  Qed.

  Theorem range_at_block_independent B B' r c : 1 <= B -> 1 <= B' ->
    range_at_B IB ws marge D V umin umax B r c = range_at_B IB ws marge D V umin umax B' r c.
  Proof. intros. unfold range_at_B. rewrite !looped_spec by assumption. reflexivity. Qed.

  Notation fmin := (inject_Z (qtrunc umin) * inject_Z sf)%Q.
  Notation fmax := (inject_Z (qtrunc umax) * inject_Z sf)%Q.

  (* what disparity_range followed by the x scale_factor of matching_cost_prepare hands to a
     fine pixel whose zoom source is the coarse pixel (pr, pc) *)
  Lemma range_at_prescribed pr pc : 0 <= pr < R -> 0 <= pc < C ->
    exists lo hi,
      scale_pair sf (range_at IB ws marge D V umin umax pr pc) = (Some lo, Some hi) /\
      prescribed ws marge sf R C (px D) (px V) fmin fmax pr pc lo hi.
  Proof.
    intros Hr Hc. unfold range_at, range_at_B, prescribed.
    rewrite isnan_tmp_valid by assumption.
    destruct (valid pr pc) eqn:Ev; cbn [negb andb].
    2:{ exists fmin, fmax. split; [reflexivity|]. split; reflexivity. }
    rewrite looped_spec by (unfold CHUNK; lia).
    destruct (border pr pc) eqn:Eb; cbn [negb].
    { exists fmin, fmax. split; [reflexivity|]. split; reflexivity. }
    (* interior, valid: the centre itself is in the window *)
    assert (exists q0, px D pr pc = Some q0) as [q0 Hq0].
    { unfold valid_px in Ev. destruct (px D pr pc) as [q|]; [eauto|].
      rewrite andb_false_r in Ev. discriminate. }
    assert (Hc0 : inwin pr pc q0).
    { exists pr, pc. rewrite half_offset. repeat split; auto; lia. }
    apply (window_is_matching_window pr pc q0 Eb) in Hc0.
    destruct (qfold_some qmin2 _ _ Hc0) as [m Hm]. destruct (qfold_some qmax2 _ _ Hc0) as [M HM].
    unfold win_range. rewrite Hm, HM. cbn [option_map scale_pair fst snd].
    eexists. eexists. split; [reflexivity|].
    apply qfold_min_spec in Hm. apply qfold_max_spec in HM.
    destruct Hm as [Hm1 Hm2]. destruct HM as [HM1 HM2].
    exists m, M. split; [|split; [|split]].
    - split; [apply window_is_matching_window; assumption|].
      intros x Hx. apply Hm2. apply window_is_matching_window; assumption.
    - split; [apply window_is_matching_window; assumption|].
      intros x Hx. apply HM2. apply window_is_matching_window; assumption.
    - unfold qz. ring.
    - unfold qz. ring.
  Qed.

  Variables zrow zcol : Z -> Z.
  Hypothesis Hzr : zoom_contract sf R zrow.
  Hypothesis Hzc : zoom_contract sf C zcol.

  (* the grids of the finer level, as the code computes them: the property's intervals with
     scale_factor * int(user interval of the coarser level) as the fallback interval *)
  Theorem next_grids_as_computed :
    finer_spec ws marge sf R C (px D) (px V) fmin fmax (sf * R) (sf * C)
               (px (next_grids IB ws marge sf D V umin umax zrow zcol)).
  Proof.
    intros r c Hr Hc. unfold next_grids, disparity_range, rows, cols. cbn [px].
    destruct (Hzr r Hr) as [Rr Nr]. destruct (Hzc c Hc) as [Rc Nc].
    destruct (range_at_prescribed (zrow r) (zcol c) Rr Rc) as (lo & hi & E & P).
    exists (zrow r), (zcol c), lo, hi.
    split; [exact Nr|]. split; [exact Nc|]. split; [exact Rr|]. split; [exact Rc|]. split; assumption.
  Qed.
End RangeProofs.

(* ================================================================== truncation, the guard *)

(* the rational is an integer: int(x) = x *)
Definition integral (q : Q) : Prop := (inject_Z (qtrunc q) == q)%Q.
Definition integral_b (q : Q) : bool := Qeq_bool (inject_Z (qtrunc q)) q.

Lemma integral_b_iff q : integral_b q = true <-> integral q.
Proof. apply Qeq_bool_iff. Qed.

Lemma div_cross a b c d : 0 < b -> 0 < d -> 0 <= a -> 0 <= c -> a * d = c * b -> a / b = c / d.
Proof.
  intros Hb Hd Ha Hc E.
  pose proof (Z.div_mod a b ltac:(lia)). pose proof (Z.mod_pos_bound a b Hb).
  pose proof (Z.div_mod c d ltac:(lia)). pose proof (Z.mod_pos_bound c d Hd).
  set (x := a / b) in *. set (y := c / d) in *.
  destruct (Z.lt_trichotomy x y) as [L|[L|L]]; [exfalso | exact L | exfalso].
  - assert (b * (x + 1) <= b * y) by nia. assert (a * d < b * y * d) by nia.
    assert (b * y * d <= b * c) by nia. lia.
  - assert (d * (y + 1) <= d * x) by nia. assert (c * b < d * x * b) by nia.
    assert (d * x * b <= d * a) by nia. lia.
Qed.

Lemma quot_cross a b c d : 0 < b -> 0 < d -> a * d = c * b -> Z.quot a b = Z.quot c d.
Proof.
  intros Hb Hd E.
  destruct (Z_le_gt_dec 0 a) as [Ha|Ha].
  - assert (0 <= c) by nia.
    rewrite !Z.quot_div_nonneg by lia. apply div_cross; lia.
  - assert (c < 0) by nia.
    assert (X : Z.quot (- a) b = Z.quot (- c) d).
    { rewrite !Z.quot_div_nonneg by lia. apply div_cross; nia. }
    rewrite !Z.quot_opp_l in X by lia. lia.
Qed.

Lemma qtrunc_compat p q : (p == q)%Q -> qtrunc p = qtrunc q.
Proof. unfold Qeq, qtrunc. intros E. apply quot_cross; lia. Qed.

Lemma qtrunc_inject z : qtrunc (inject_Z z) = z.
Proof. unfold qtrunc, inject_Z. cbn [Qnum Qden]. apply Z.quot_1_r. Qed.

Lemma integral_inject q z : (q == inject_Z z)%Q -> integral q.
Proof.
  intros E. unfold integral. rewrite (qtrunc_compat _ _ E), qtrunc_inject. symmetry. exact E.
Qed.

Lemma integral_compat p q : (p == q)%Q -> integral p -> integral q.
Proof. intros E H. unfold integral in *. rewrite <- (qtrunc_compat _ _ E). rewrite H. exact E. Qed.

Lemma integral_opp q : integral q -> integral (- q).
Proof.
  intros H. apply (integral_inject _ (- qtrunc q)). unfold integral in H.
  rewrite inject_Z_opp. rewrite H. reflexivity.
Qed.

Lemma pow_inj_pos sf k : 1 <= sf -> (0 < inject_Z (sf ^ Z.of_nat k))%Q.
Proof.
  intros H. replace 0%Q with (inject_Z 0) by reflexivity. rewrite <- Zlt_Qlt.
  apply Z.pow_pos_nonneg; lia.
Qed.

(* the user bound seen from level s is an integer as soon as sf^s divides it *)
Lemma integral_user d sf s : 1 <= sf -> (sf ^ Z.of_nat s | d) ->
  integral (inject_Z d / inject_Z (sf ^ Z.of_nat s)).
Proof.
  intros Hsf [k ->]. apply (integral_inject _ k).
  rewrite inject_Z_mult. field. pose proof (pow_inj_pos sf s Hsf). lra.
Qed.

Lemma prescribed_compat ws marge sf R C D V ulo uhi ulo' uhi' pr pc lo hi :
  (ulo == ulo')%Q -> (uhi == uhi')%Q ->
  prescribed ws marge sf R C D V ulo uhi pr pc lo hi ->
  prescribed ws marge sf R C D V ulo' uhi' pr pc lo hi.
Proof.
  intros E1 E2. unfold prescribed.
  destruct (valid_px R C D V pr pc && negb (on_border ws R C pr pc)); [auto|].
  intros [A B]. split; [rewrite A; exact E1 | rewrite B; exact E2].
Qed.

Lemma finer_spec_compat ws marge sf R C D V ulo uhi ulo' uhi' hh ww G :
  (ulo == ulo')%Q -> (uhi == uhi')%Q ->
  finer_spec ws marge sf R C D V ulo uhi hh ww G -> finer_spec ws marge sf R C D V ulo' uhi' hh ww G.
Proof.
  intros E1 E2 H r c Hr Hc. destruct (H r c Hr Hc) as (pr & pc & lo & hi & A & B & X & Y & Z1 & Z2).
  exists pr, pc, lo, hi. split; [exact A|]. split; [exact B|]. split; [exact X|]. split; [exact Y|].
  split; [exact Z1|]. eapply prescribed_compat; eauto.
Qed.

Section Ext.
  Variables ws marge sf R C : Z.
  Variables D D' : Z -> Z -> option Q.
  Variables V V' : Z -> Z -> Z.
  Hypothesis ED : forall r c, D r c = D' r c.
  Hypothesis EV : forall r c, V r c = V' r c.

  Lemma valid_px_ext r c : valid_px R C D V r c = valid_px R C D' V' r c.
  Proof. unfold valid_px. rewrite ED, EV. reflexivity. Qed.

  Lemma in_window_ext pr pc q : in_window ws R C D V pr pc q <-> in_window ws R C D' V' pr pc q.
  Proof.
    unfold in_window. split; intros (r & c & P1 & P2 & P3 & P4); exists r, c;
      (split; [exact P1|]; split; [exact P2|]; split).
    - rewrite <- valid_px_ext. exact P3.
    - rewrite <- ED. exact P4.
    - rewrite valid_px_ext. exact P3.
    - rewrite ED. exact P4.
  Qed.

  Lemma prescribed_ext ulo uhi pr pc lo hi :
    prescribed ws marge sf R C D V ulo uhi pr pc lo hi -> prescribed ws marge sf R C D' V' ulo uhi pr pc lo hi.
  Proof.
    unfold prescribed. rewrite <- valid_px_ext.
    destruct (valid_px R C D V pr pc && negb (on_border ws R C pr pc)); [|auto].
    intros (m & M & (L1 & L2) & (G1 & G2) & E1 & E2). exists m, M.
    split; [|split; [|split; assumption]].
    - split; [apply in_window_ext; exact L1|]. intros x Hx. apply L2. apply in_window_ext. exact Hx.
    - split; [apply in_window_ext; exact G1|]. intros x Hx. apply G2. apply in_window_ext. exact Hx.
  Qed.

  Lemma finer_spec_ext ulo uhi hh ww G :
    finer_spec ws marge sf R C D V ulo uhi hh ww G -> finer_spec ws marge sf R C D' V' ulo uhi hh ww G.
  Proof.
    intros H r c Hr Hc. destruct (H r c Hr Hc) as (pr & pc & lo & hi & A & B & X & Y & Z1 & Z2).
    exists pr, pc, lo, hi. split; [exact A|]. split; [exact B|]. split; [exact X|]. split; [exact Y|].
    split; [exact Z1|]. apply prescribed_ext. exact Z2.
  Qed.
End Ext.

(* under the guard "the user interval of the coarser level is made of integers", the finer
   level searches what the property says, the WHOLE user interval included *)
Theorem next_grids_guarded ws marge sf D V umin umax zrow zcol :
  ws = 2 * offset ws + 1 -> 0 <= offset ws -> ws <= nr D -> ws <= nc D ->
  zoom_contract sf (nr D) zrow -> zoom_contract sf (nc D) zcol ->
  integral umin -> integral umax ->
  finer_spec ws marge sf (nr D) (nc D) (px D) (px V) (umin * inject_Z sf)%Q (umax * inject_Z sf)%Q
             (sf * nr D) (sf * nc D) (px (next_grids IB ws marge sf D V umin umax zrow zcol)).
Proof.
  intros H1 H2 H3 H4 H5 H6 I1 I2.
  eapply finer_spec_compat; [| |apply next_grids_as_computed; assumption].
  - unfold integral in I1. rewrite I1. reflexivity.
  - unfold integral in I2. rewrite I2. reflexivity.
Qed.

(* the finding's class: a fine pixel whose coarse pixel is invalid or on the border is given
   scale_factor * int(user bound), which is not the user bound when that is not an integer *)
Theorem fallback_truncated ws marge sf D V umin umax pr pc :
  ws = 2 * offset ws + 1 -> 0 <= offset ws -> ws <= nr D -> ws <= nc D ->
  0 <= pr < nr D -> 0 <= pc < nc D ->
  valid_px (nr D) (nc D) (px D) (px V) pr pc && negb (on_border ws (nr D) (nc D) pr pc) = false ->
  scale_pair sf (range_at IB ws marge D V umin umax pr pc)
  = (Some (inject_Z (qtrunc umin) * inject_Z sf)%Q, Some (inject_Z (qtrunc umax) * inject_Z sf)%Q).
Proof.
  intros H1 H2 H3 H4 Hr Hc Hf. unfold range_at, range_at_B.
  rewrite isnan_tmp_valid by assumption.
  destruct (valid_px (nr D) (nc D) (px D) (px V) pr pc); cbn [negb andb] in *; [|reflexivity].
  rewrite looped_spec by (unfold CHUNK; lia).
  destruct (on_border ws (nr D) (nc D) pr pc); [reflexivity | discriminate].
Qed.

Lemma not_integral_differs q sf : 1 <= sf -> ~ integral q ->
  ~ (inject_Z (qtrunc q) * inject_Z sf == q * inject_Z sf)%Q.
Proof.
  intros Hsf Hn E. apply Hn. unfold integral.
  assert (0 < inject_Z sf)%Q by (replace 0%Q with (inject_Z 0) by reflexivity; rewrite <- Zlt_Qlt; lia).
  apply (Qmult_inj_r _ _ (inject_Z sf)); [lra | exact E].
Qed.

(* ================================================================== the intervals of a whole run *)

Fixpoint iter_scale (sf : Z) (k : nat) (u : Q * Q) : Q * Q :=
  match k with O => u | S k' => iter_scale sf k' (scale_interval sf u) end.

Lemma iter_scale_val sf k : forall u,
  (fst (iter_scale sf k u) == fst u * inject_Z (sf ^ Z.of_nat k))%Q /\
  (snd (iter_scale sf k u) == snd u * inject_Z (sf ^ Z.of_nat k))%Q.
Proof.
  induction k as [|k IH]; intros u.
  - cbn [iter_scale]. change (Z.of_nat 0) with 0. rewrite Z.pow_0_r. split; ring.
  - cbn [iter_scale]. destruct (IH (scale_interval sf u)) as [A B]. rewrite A, B.
    rewrite Nat2Z.inj_succ, Z.pow_succ_r by lia. rewrite inject_Z_mult.
    unfold scale_interval, qz. cbn [fst snd]. split; ring.
Qed.

(* the i-th element of finer_grids is computed from level i with the user interval scaled
   i + 1 times *)
Lemma finer_grids_nth ib marge sf : forall lvls user i l,
  nth_error lvls i = Some l ->
  nth_error (finer_grids ib marge sf user lvls) i =
  Some (let u := iter_scale sf (S i) user in
        (GMap (next_grids ib (lv_ws l) marge sf (fst (lv_left l)) (snd (lv_left l)) (fst u) (snd u)
                          (fst (lv_zoom l)) (snd (lv_zoom l))),
         option_map (fun dv => GMap (next_grids ib (lv_ws l) marge sf (fst dv) (snd dv)
                                                 (fst (right_interval u)) (snd (right_interval u))
                                                 (fst (lv_zoom l)) (snd (lv_zoom l))))
                    (lv_right l))).
Proof.
  induction lvls as [|l0 rest IH]; intros user i l Hn.
  - destruct i; discriminate.
  - destruct i as [|i].
    + cbn [nth_error] in Hn. injection Hn as ->. reflexivity.
    + cbn [nth_error] in Hn. cbn [finer_grids nth_error]. rewrite (IH _ i l Hn). reflexivity.
Qed.

Lemma finer_grids_length ib marge sf : forall lvls user,
  length (finer_grids ib marge sf user lvls) = length lvls.
Proof. induction lvls; intros; cbn [finer_grids length]; auto. Qed.

Lemma run_grids_length ib marge sf dmin dmax H W n wr lvls :
  length (run_grids ib marge sf dmin dmax H W n wr lvls) = S (length lvls).
Proof. unfold run_grids. cbn [length]. rewrite finer_grids_length. reflexivity. Qed.

(* user interval after run_prepare and k multiplications = the user interval seen from level n - k *)
Lemma user_at_level dmin dmax sf n k : 1 <= sf -> (k <= n)%nat ->
  let u := iter_scale sf k (run_prepare_interval dmin dmax sf n) in
  (fst u == fst (user_interval dmin dmax sf (n - k)))%Q /\
  (snd u == snd (user_interval dmin dmax sf (n - k)))%Q.
Proof.
  intros Hsf Hk u. unfold u. destruct (iter_scale_val sf k (run_prepare_interval dmin dmax sf n)) as [A B].
  rewrite A, B. unfold run_prepare_interval, user_interval, qz. cbn [fst snd].
  assert (E : sf ^ Z.of_nat n = sf ^ Z.of_nat (n - k) * sf ^ Z.of_nat k).
  { rewrite <- Z.pow_add_r by lia. f_equal. lia. }
  rewrite E, inject_Z_mult.
  pose proof (pow_inj_pos sf (n - k) Hsf). pose proof (pow_inj_pos sf k Hsf).
  split; field; split; lra.
Qed.

(* the first execution: constant grids holding the user interval / sf^(n-1), mirrored on the right *)
Theorem coarsest_interval ib marge sf dmin dmax H W n wr lvls : 1 <= sf -> (1 <= n)%nat ->
  exists a b, hd_error (run_grids ib marge sf dmin dmax H W n wr lvls)
              = Some (GConst H W (a, b), if wr then Some (GConst H W (mirrored (a, b))) else None) /\
    (a == fst (user_interval dmin dmax sf (n - 1)))%Q /\
    (b == snd (user_interval dmin dmax sf (n - 1)))%Q.
Proof.
  intros Hsf Hn. unfold run_grids. cbn [hd_error].
  set (i0 := run_prepare_interval dmin dmax sf n).
  exists (fst (scale_interval sf i0)), (snd (scale_interval sf i0)). split.
  - unfold mirrored, right_interval. destruct (scale_interval sf i0). reflexivity.
  - exact (user_at_level dmin dmax sf n 1 Hsf Hn).
Qed.

Lemma user_next dmin dmax sf s : 1 <= sf ->
  (fst (user_interval dmin dmax sf (S s)) * inject_Z sf == fst (user_interval dmin dmax sf s))%Q /\
  (snd (user_interval dmin dmax sf (S s)) * inject_Z sf == snd (user_interval dmin dmax sf s))%Q.
Proof.
  intros Hsf. unfold user_interval. cbn [fst snd].
  rewrite Nat2Z.inj_succ, Z.pow_succ_r by lia. rewrite inject_Z_mult.
  pose proof (pow_inj_pos sf s Hsf).
  assert (0 < inject_Z sf)%Q by (replace 0%Q with (inject_Z 0) by reflexivity; rewrite <- Zlt_Qlt; lia).
  split; field; split; lra.
Qed.

(* well-formedness of the products of a level, as the theorems need them *)
Definition level_ok (sf ws : Z) (D : arr (option Q)) (zm : (Z -> Z) * (Z -> Z)) : Prop :=
  ws = 2 * offset ws + 1 /\ 0 <= offset ws /\ ws <= nr D /\ ws <= nc D /\
  zoom_contract sf (nr D) (fst zm) /\ zoom_contract sf (nc D) (snd zm).

(* level i of the list (coarse scale s + 1, s + 1 = n - 1 - i) gives the grids of execution
   i + 1 (scale s).  [guard] : sf^(s+1) divides both user bounds. *)
Theorem finer_interval_run marge sf dmin dmax H W n wr lvls i l s :
  1 <= sf -> n = S (length lvls) -> nth_error lvls i = Some l -> (s + 1 = n - 1 - i)%nat ->
  (sf ^ Z.of_nat (S s) | dmin) -> (sf ^ Z.of_nat (S s) | dmax) ->
  exists g gr,
    nth_error (run_grids IB marge sf dmin dmax H W n wr lvls) (S i) = Some (GMap g, gr) /\
    (level_ok sf (lv_ws l) (fst (lv_left l)) (lv_zoom l) ->
     let D := fst (lv_left l) in let V := snd (lv_left l) in let u := user_interval dmin dmax sf s in
     nr g = sf * nr D /\ nc g = sf * nc D /\
     finer_spec (lv_ws l) marge sf (nr D) (nc D) (px D) (px V) (fst u) (snd u) (sf * nr D) (sf * nc D) (px g)) /\
    (forall dv, lv_right l = Some dv -> level_ok sf (lv_ws l) (fst dv) (lv_zoom l) ->
     let D := fst dv in let V := snd dv in let u := mirrored (user_interval dmin dmax sf s) in
     exists g', gr = Some (GMap g') /\ nr g' = sf * nr D /\ nc g' = sf * nc D /\
     finer_spec (lv_ws l) marge sf (nr D) (nc D) (px D) (px V) (fst u) (snd u) (sf * nr D) (sf * nc D) (px g')).
Proof.
  intros Hsf Hn Hl Hs G1 G2.
  assert (Hi : (i < length lvls)%nat) by (apply nth_error_Some; congruence).
  unfold run_grids. cbn [nth_error].
  rewrite (finer_grids_nth IB marge sf lvls _ i l Hl). cbv zeta.
  set (u := iter_scale sf (S i) (run_prepare_interval dmin dmax sf n)).
  destruct (user_at_level dmin dmax sf n (S i) Hsf ltac:(lia)) as [U1 U2]. fold u in U1, U2.
  replace (n - S i)%nat with (S s) in U1, U2 by lia.
  destruct (user_next dmin dmax sf s Hsf) as [N1 N2].
  assert (I1 : integral (fst u)).
  { eapply integral_compat; [symmetry; exact U1|]. apply integral_user; assumption. }
  assert (I2 : integral (snd u)).
  { eapply integral_compat; [symmetry; exact U2|]. apply integral_user; assumption. }
  eexists. eexists. split; [reflexivity|]. split.
  - intros (O1 & O2 & O3 & O4 & O5 & O6). cbv zeta. split; [reflexivity|]. split; [reflexivity|].
    eapply finer_spec_compat; [| |apply next_grids_guarded; try assumption; try lia].
    + rewrite U1. exact N1.
    + rewrite U2. exact N2.
  - intros dv Hdv (O1 & O2 & O3 & O4 & O5 & O6). rewrite Hdv. cbn [option_map]. cbv zeta.
    eexists. split; [reflexivity|]. split; [reflexivity|]. split; [reflexivity|].
    eapply finer_spec_compat; [| |apply next_grids_guarded; try assumption; try lia].
    + unfold right_interval, mirrored. cbn [fst snd]. rewrite U2. rewrite <- N2. ring.
    + unfold right_interval, mirrored. cbn [fst snd]. rewrite U1. rewrite <- N1. ring.
    + unfold right_interval. cbn [fst]. apply integral_opp. exact I2.
    + unfold right_interval. cbn [snd]. apply integral_opp. exact I1.
Qed.

(* ================================================================== which step runs at which scale *)

Fixpoint down (j : nat) : list nat := match j with O => [] | S j' => S j' :: down j' end.

Lemma rev_seq_down j : rev (seq 1 j) = down j.
Proof.
  induction j as [|j IH]; [reflexivity|].
  rewrite seq_S, rev_app_distr. cbn [rev app plus down]. rewrite IH. reflexivity.
Qed.

Lemma coarse_scales_down n : coarse_scales n = down (n - 1).
Proof. apply rev_seq_down. Qed.

Lemma coarse_traces_flat rdm p j :
  coarse_traces rdm p j = flat_map (fun j => scale_trace rdm (Z.of_nat j) (upto_msc p)) (down j).
Proof. induction j as [|j IH]; [reflexivity|]. cbn [coarse_traces down flat_map]. rewrite IH. reflexivity. Qed.

Lemma upto_msc_split pre ms post :
  has_kind Msc pre = false -> is_kind Msc ms = true -> upto_msc (pre ++ ms :: post) = pre ++ [ms].
Proof.
  intros Hpre Hms. induction pre as [|s r IH]; cbn [app upto_msc].
  - rewrite Hms. reflexivity.
  - unfold has_kind in Hpre. cbn [existsb] in Hpre. apply orb_false_iff in Hpre as [H1 H2].
    rewrite H1. f_equal. apply IH. exact H2.
Qed.

Lemma filter_not_msc_split pre ms post :
  has_kind Msc pre = false -> is_kind Msc ms = true ->
  filter not_msc (pre ++ ms :: post) = pre ++ filter not_msc post.
Proof.
  intros Hpre Hms. induction pre as [|s r IH]; cbn [app filter].
  - unfold not_msc at 1. rewrite Hms. reflexivity.
  - unfold has_kind in Hpre. cbn [existsb] in Hpre. apply orb_false_iff in Hpre as [H1 H2].
    unfold not_msc at 1. rewrite H1. cbn [negb]. f_equal. apply IH. exact H2.
Qed.

Theorem expected_is_spec_trace pre ms post n rdm :
  has_kind Msc pre = false -> is_kind Msc ms = true ->
  expected_trace (pre ++ ms :: post) n rdm = spec_trace pre ms post n rdm.
Proof.
  intros Hpre Hms. unfold expected_trace, spec_trace.
  rewrite coarse_traces_flat, coarse_scales_down, (upto_msc_split _ _ _ Hpre Hms).
  f_equal. f_equal. exact (filter_not_msc_split pre ms post Hpre Hms).
Qed.

Lemma has_kind_app k a b : has_kind k (a ++ b) = has_kind k a || has_kind k b.
Proof. unfold has_kind. apply existsb_app. Qed.

(* the model of pandora.run executes exactly the prescribed callbacks *)
Theorem run_is_spec_trace run_tbl m pre ms post n d :
  MachineP.run_tbl_wf run_tbl = true -> MachineP.clean m ->
  MachineP.path_ok Begin (pre ++ ms :: post) = Some d ->
  has_kind Msc pre = false -> is_kind Msc ms = true -> (n >= 1)%nat ->
  let p := pre ++ ms :: post in
  let rdm := has_kind Val p in
  Machine.run run_tbl m p n = RunOk (mkM Begin [] rdm 0) (spec_trace pre ms post n rdm).
Proof.
  intros Hwf Hm Hp Hpre Hms Hn p rdm.
  rewrite <- (expected_is_spec_trace pre ms post n rdm Hpre Hms).
  apply (MachineP.run_spec run_tbl Hwf m p n d Hm Hp Hn).
  intros _. unfold p. rewrite has_kind_app. unfold has_kind at 2. cbn [existsb]. rewrite Hms.
  rewrite orb_true_r. reflexivity.
Qed.

(* ---------------- how many times, at which scales, each step is executed *)

Lemma exec_scales_app id right a b :
  exec_scales id right (a ++ b) = exec_scales id right a ++ exec_scales id right b.
Proof. unfold exec_scales. rewrite filter_app, map_app. reflexivity. Qed.

Lemma exec_scales_step_other id right rdm sc s : s_id s <> id ->
  exec_scales id right (step_evs rdm sc s) = [].
Proof.
  intros Hne. unfold step_evs. destruct (s_kind s) as [k|]; [|reflexivity].
  unfold evs, exec_scales. assert (E : (s_id s =? id) = false) by (apply Z.eqb_neq; exact Hne).
  destruct rdm; cbn [filter ev_is map]; rewrite E; reflexivity.
Qed.

Lemma exec_scales_step_left rdm sc s k : s_kind s = Some k ->
  exec_scales (s_id s) false (step_evs rdm sc s) = [sc].
Proof.
  intros Hk. unfold step_evs. rewrite Hk. unfold evs, exec_scales.
  destruct rdm; cbn [filter ev_is map]; rewrite Z.eqb_refl; reflexivity.
Qed.

Lemma exec_scales_step_right rdm sc s k : s_kind s = Some k ->
  exec_scales (s_id s) true (step_evs rdm sc s) = if rdm then [sc] else [].
Proof.
  intros Hk. unfold step_evs. rewrite Hk. unfold evs, exec_scales.
  destruct rdm; cbn [filter ev_is map]; rewrite Z.eqb_refl; reflexivity.
Qed.

Lemma exec_scales_trace_notin id right rdm sc l : ~ In id (map s_id l) ->
  exec_scales id right (scale_trace rdm sc l) = [].
Proof.
  induction l as [|s r IH]; intros Hn; [reflexivity|].
  unfold scale_trace. cbn [flat_map]. rewrite exec_scales_app.
  rewrite exec_scales_step_other by (intro E; apply Hn; left; exact E).
  apply IH. intro H. apply Hn. right. exact H.
Qed.

Lemma exec_scales_trace_in right rdm sc l s k : NoDup (map s_id l) -> In s l -> s_kind s = Some k ->
  exec_scales (s_id s) right (scale_trace rdm sc l) = if right then (if rdm then [sc] else []) else [sc].
Proof.
  induction l as [|s0 r IH]; intros Hnd Hin Hk; [destruct Hin|].
  unfold scale_trace. cbn [flat_map]. rewrite exec_scales_app.
  cbn [map] in Hnd. inversion Hnd as [|x xs Hx Hnd']; subst.
  destruct Hin as [->|Hin].
  - fold (scale_trace rdm sc r). rewrite (exec_scales_trace_notin _ _ _ _ _ Hx), app_nil_r.
    destruct right; [eapply exec_scales_step_right | eapply exec_scales_step_left]; eassumption.
  - rewrite exec_scales_step_other.
    + apply IH; assumption.
    + intro E. apply Hx. rewrite E. apply in_map. exact Hin.
Qed.

Lemma exec_scales_flat id right (f : nat -> list ev) (g : nat -> list Z) js :
  (forall j, exec_scales id right (f j) = g j) ->
  exec_scales id right (flat_map f js) = flat_map g js.
Proof.
  intros H. induction js as [|j r IH]; [reflexivity|].
  cbn [flat_map]. rewrite exec_scales_app, H, IH. reflexivity.
Qed.

Lemma flat_map_single {A B} (f : A -> B) l : flat_map (fun x => [f x]) l = map f l.
Proof. induction l; cbn [flat_map map app]; congruence. Qed.
Lemma flat_map_nil {A B} (l : list A) : flat_map (fun _ => @nil B) l = [].
Proof. induction l; cbn [flat_map app]; auto. Qed.

Lemma all_scales_down n : (n >= 1)%nat -> all_scales n = map Z.of_nat (down (n - 1)) ++ [0].
Proof.
  intros Hn. unfold all_scales. destruct n as [|j]; [lia|]. replace (S j - 1)%nat with j by lia.
  change (seq 0 (S j)) with (0%nat :: seq 1 j). cbn [rev]. rewrite rev_seq_down, map_app. reflexivity.
Qed.

Lemma NoDup_app_disjoint {A} (a b : list A) x : NoDup (a ++ b) -> In x a -> In x b -> False.
Proof.
  induction a as [|y a IH]; intros Hnd Ha Hb; [destruct Ha|].
  cbn [app] in Hnd. inversion Hnd as [|z zs Hz Hnd']; subst.
  destruct Ha as [->|Ha].
  - apply Hz. apply in_or_app. right. exact Hb.
  - exact (IH Hnd' Ha Hb).
Qed.

Lemma NoDup_app_l {A} (a b : list A) : NoDup (a ++ b) -> NoDup a.
Proof.
  induction a as [|y a IH]; intros Hnd; [constructor|].
  cbn [app] in Hnd. inversion Hnd as [|z zs Hz Hnd']; subst.
  constructor; [|exact (IH Hnd')]. intro H. apply Hz. apply in_or_app. left. exact H.
Qed.

Lemma in_map_mid_filter {A B} (g : A -> B) (f : A -> bool) a b y :
  In y (map g (a ++ filter f b)) -> In y (map g (a ++ b)).
Proof.
  rewrite !in_map_iff. intros (x & E & Hx). exists x. split; [exact E|].
  apply in_app_or in Hx. apply in_or_app. destruct Hx as [Hx|Hx]; [left; exact Hx|].
  right. apply filter_In in Hx. tauto.
Qed.

Lemma NoDup_map_mid_filter {A B} (g : A -> B) (f : A -> bool) a b :
  NoDup (map g (a ++ b)) -> NoDup (map g (a ++ filter f b)).
Proof.
  induction a as [|x a IH].
  - cbn [app]. induction b as [|x b IHb]; intros Hnd; [constructor|].
    cbn [map] in Hnd. inversion Hnd as [|z zs Hz Hnd']; subst. cbn [filter].
    destruct (f x); [|apply IHb; exact Hnd'].
    cbn [map]. constructor; [|apply IHb; exact Hnd'].
    intro H. apply Hz. exact (in_map_mid_filter g f [] b _ H).
  - intros Hnd. cbn [app map] in *. inversion Hnd as [|z zs Hz Hnd']; subst.
    constructor; [|apply IH; exact Hnd'].
    intro H. apply Hz. exact (in_map_mid_filter g f a b _ H).
Qed.

Section Counting.
  Variables (pre : list step) (ms : step) (post : list step) (n : nat) (rdm : bool).
  Hypothesis Hnd : NoDup (map s_id (pre ++ ms :: post)).
  Hypothesis Hn : (n >= 1)%nat.
  Hypothesis Hpre : has_kind Msc pre = false.
  Hypothesis Hms : is_kind Msc ms = true.

  Lemma split_p : pre ++ ms :: post = (pre ++ [ms]) ++ post.
  Proof. rewrite <- app_assoc. reflexivity. Qed.

  Lemma nd_coarse : NoDup (map s_id (pre ++ [ms])).
  Proof. rewrite split_p, map_app in Hnd. exact (NoDup_app_l _ _ Hnd). Qed.

  Lemma nd_final : NoDup (map s_id (pre ++ filter not_msc post)).
  Proof.
    apply NoDup_map_mid_filter.
    rewrite map_app in *. cbn [map] in Hnd. exact (NoDup_remove_1 _ _ _ Hnd).
  Qed.

  Lemma ms_kind : s_kind ms = Some Msc.
  Proof.
    unfold is_kind in Hms. destruct (s_kind ms) as [k|]; [|discriminate].
    apply MachineP.kind_eqb_eq in Hms. congruence.
  Qed.

  Lemma coarse_part id right (g : nat -> list Z) :
    (forall j, exec_scales id right (scale_trace rdm (Z.of_nat j) (pre ++ [ms])) = g j) ->
    exec_scales id right (spec_trace pre ms post n rdm)
    = flat_map g (down (n - 1)) ++ exec_scales id right (scale_trace rdm 0 (pre ++ filter not_msc post)).
  Proof.
    intros H. unfold spec_trace. rewrite exec_scales_app, coarse_scales_down. f_equal.
    apply exec_scales_flat. exact H.
  Qed.

  (* a step before the multiscale step: once per scale, coarse to fine, on the left data
     (and on the right data when the right disparity map is computed) *)
  Theorem pre_steps_every_scale s k : In s pre -> s_kind s = Some k ->
    exec_scales (s_id s) false (spec_trace pre ms post n rdm) = all_scales n /\
    exec_scales (s_id s) true (spec_trace pre ms post n rdm) = if rdm then all_scales n else [].
  Proof.
    intros Hin Hk.
    assert (I1 : In s (pre ++ [ms])) by (apply in_or_app; left; exact Hin).
    assert (I2 : In s (pre ++ filter not_msc post)) by (apply in_or_app; left; exact Hin).
    split.
    - rewrite (coarse_part _ _ (fun j => [Z.of_nat j])).
      + rewrite (exec_scales_trace_in false rdm 0 _ s k nd_final I2 Hk).
        rewrite flat_map_single. symmetry. apply all_scales_down. exact Hn.
      + intros j. exact (exec_scales_trace_in false rdm _ _ s k nd_coarse I1 Hk).
    - rewrite (coarse_part _ _ (fun j => if rdm then [Z.of_nat j] else [])).
      + rewrite (exec_scales_trace_in true rdm 0 _ s k nd_final I2 Hk).
        destruct rdm.
        * rewrite flat_map_single. symmetry. apply all_scales_down. exact Hn.
        * rewrite flat_map_nil. reflexivity.
      + intros j. exact (exec_scales_trace_in true rdm _ _ s k nd_coarse I1 Hk).
  Qed.

  (* a step after the multiscale step: once, at scale 0 *)
  Theorem post_steps_once s k : In s post -> not_msc s = true -> s_kind s = Some k ->
    exec_scales (s_id s) false (spec_trace pre ms post n rdm) = [0] /\
    exec_scales (s_id s) true (spec_trace pre ms post n rdm) = if rdm then [0] else [].
  Proof.
    intros Hin Hnm Hk.
    assert (I2 : In s (pre ++ filter not_msc post)).
    { apply in_or_app. right. apply filter_In. split; assumption. }
    assert (Hno : ~ In (s_id s) (map s_id (pre ++ [ms]))).
    { intro H. rewrite split_p, map_app in Hnd.
      exact (NoDup_app_disjoint _ _ _ Hnd H (in_map s_id _ _ Hin)). }
    split.
    - rewrite (coarse_part _ _ (fun _ => [])).
      + rewrite flat_map_nil. exact (exec_scales_trace_in false rdm 0 _ s k nd_final I2 Hk).
      + intros j. apply exec_scales_trace_notin. exact Hno.
    - rewrite (coarse_part _ _ (fun _ => [])).
      + rewrite flat_map_nil. exact (exec_scales_trace_in true rdm 0 _ s k nd_final I2 Hk).
      + intros j. apply exec_scales_trace_notin. exact Hno.
  Qed.

  (* the multiscale step itself: at every scale but the last one *)
  Theorem msc_step_coarse_scales :
    exec_scales (s_id ms) false (spec_trace pre ms post n rdm) = map Z.of_nat (coarse_scales n).
  Proof.
    assert (I1 : In ms (pre ++ [ms])) by (apply in_or_app; right; left; reflexivity).
    assert (Hno : ~ In (s_id ms) (map s_id (pre ++ filter not_msc post))).
    { intro H. apply (in_map_mid_filter s_id not_msc pre post) in H.
      rewrite map_app in *. cbn [map] in Hnd. exact (NoDup_remove_2 _ _ _ Hnd H). }
    rewrite (coarse_part _ _ (fun j => [Z.of_nat j])).
    - rewrite (exec_scales_trace_notin _ _ _ _ _ Hno), app_nil_r, flat_map_single, coarse_scales_down.
      reflexivity.
    - intros j. exact (exec_scales_trace_in false rdm _ _ ms Msc nd_coarse I1 ms_kind).
  Qed.
End Counting.

(* ================================================================== image sizes per execution *)

Lemma annotate_app k a b :
  annotate k (a ++ b) = annotate k a ++ annotate (k + length (filter is_msc_left a)) b.
Proof.
  revert k. induction a as [|e a IH]; intros k.
  - cbn [app annotate filter length]. f_equal. lia.
  - cbn [app annotate filter]. rewrite IH. destruct (is_msc_left e); cbn [length]; do 3 f_equal; lia.
Qed.

Lemma step_evs_no_pop rdm sc s : is_kind Msc s = false -> filter is_msc_left (step_evs rdm sc s) = [].
Proof.
  unfold is_kind, step_evs. destruct (s_kind s) as [k|]; [|reflexivity].
  intros H. unfold evs. destruct k; try discriminate H; destruct rdm; reflexivity.
Qed.

Lemma scale_trace_no_pop rdm sc l : has_kind Msc l = false -> filter is_msc_left (scale_trace rdm sc l) = [].
Proof.
  induction l as [|s r IH]; intros H; [reflexivity|].
  unfold has_kind in H. cbn [existsb] in H. apply orb_false_iff in H as [H1 H2].
  unfold scale_trace. cbn [flat_map]. rewrite filter_app, step_evs_no_pop by exact H1. apply IH. exact H2.
Qed.

Lemma annotate_no_pop k tr : filter is_msc_left tr = [] -> annotate k tr = map (fun e => (e, k)) tr.
Proof.
  revert k. induction tr as [|e r IH]; intros k H; [reflexivity|].
  cbn [filter] in H. destruct (is_msc_left e) eqn:E; [discriminate|].
  cbn [annotate map]. rewrite E. f_equal. apply IH. exact H.
Qed.

Lemma scale_trace_app rdm sc a b : scale_trace rdm sc (a ++ b) = scale_trace rdm sc a ++ scale_trace rdm sc b.
Proof. unfold scale_trace. apply flat_map_app. Qed.

Lemma scale_trace_scale rdm sc l e : In e (scale_trace rdm sc l) -> ev_scale e = sc.
Proof.
  unfold scale_trace. rewrite in_flat_map. intros (s & _ & H). unfold step_evs in H.
  destruct (s_kind s); [|destruct H]. unfold evs in H.
  destruct rdm; cbn [In] in H; intuition (subst; reflexivity).
Qed.

(* during the execution [e] (not the multiscale step itself) the number of pops done by
   run_multiscale is n - 1 - scale *)
Definition pops_ok (n : nat) (ep : ev * nat) : Prop :=
  ev_kind (fst ep) <> Msc -> 0 <= ev_scale (fst ep) /\ Z.of_nat (snd ep) = Z.of_nat n - 1 - ev_scale (fst ep).

Section Sizes.
  Variables (pre : list step) (ms : step) (post : list step) (n : nat) (rdm : bool).
  Hypothesis Hn : (n >= 1)%nat.
  Hypothesis Hpre : has_kind Msc pre = false.
  Hypothesis Hms : s_kind ms = Some Msc.

  Let final := scale_trace rdm 0 (pre ++ filter not_msc post).

  Lemma final_no_pop : filter is_msc_left final = [].
  Proof.
    unfold final. apply scale_trace_no_pop. rewrite has_kind_app, Hpre. cbn [orb].
    unfold has_kind. induction post as [|s r IH]; [reflexivity|].
    cbn [filter]. destruct (not_msc s) eqn:E; [|exact IH].
    cbn [existsb]. rewrite IH, orb_false_r. unfold not_msc in E. apply negb_true_iff in E. exact E.
  Qed.

  Lemma seg_pops j : length (filter is_msc_left (scale_trace rdm (Z.of_nat j) (pre ++ [ms]))) = 1%nat.
  Proof.
    rewrite scale_trace_app, filter_app, scale_trace_no_pop by exact Hpre.
    unfold scale_trace. cbn [flat_map]. rewrite app_nil_r. unfold step_evs. rewrite Hms.
    unfold evs. destruct rdm; reflexivity.
  Qed.

  Lemma seg_msc_events j e : In e (scale_trace rdm (Z.of_nat j) [ms]) -> ev_kind e = Msc.
  Proof.
    unfold scale_trace. cbn [flat_map]. rewrite app_nil_r. unfold step_evs. rewrite Hms. unfold evs.
    destruct rdm; cbn [In]; intuition (subst; reflexivity).
  Qed.

  Lemma pops_invariant j : forall k, (k + j = n - 1)%nat ->
    Forall (pops_ok n)
           (annotate k (flat_map (fun j => scale_trace rdm (Z.of_nat j) (pre ++ [ms])) (down j) ++ final)).
  Proof.
    induction j as [|j IH]; intros k Hk.
    - cbn [down flat_map app]. rewrite annotate_no_pop by exact final_no_pop.
      apply Forall_forall. intros ep Hep. apply in_map_iff in Hep as (e & <- & He).
      intros _. cbn [fst snd]. unfold final in He. rewrite (scale_trace_scale _ _ _ _ He). lia.
    - cbn [down flat_map]. rewrite <- app_assoc, annotate_app, seg_pops.
      apply Forall_app. split.
      + rewrite scale_trace_app, annotate_app.
        rewrite (scale_trace_no_pop _ _ _ Hpre). cbn [length]. rewrite Nat.add_0_r.
        apply Forall_app. split.
        * rewrite annotate_no_pop by (apply scale_trace_no_pop; exact Hpre).
          apply Forall_forall. intros ep Hep. apply in_map_iff in Hep as (e & <- & He).
          intros _. cbn [fst snd]. rewrite (scale_trace_scale _ _ _ _ He). lia.
        * apply Forall_forall. intros [e p] Hep Hk'. exfalso. apply Hk'. cbn [fst].
          apply (seg_msc_events (S j)).
          clear - Hep. revert k Hep. generalize (scale_trace rdm (Z.of_nat (S j)) [ms]).
          induction l as [|x l IHl]; intros k H; [destruct H|].
          cbn [annotate] in H. destruct H as [H|H]; [injection H as -> _; left; reflexivity|].
          right. eapply IHl. exact H.
      + apply IH. lia.
  Qed.

  Theorem pops_per_execution :
    Forall (pops_ok n) (annotate 0 (spec_trace pre ms post n rdm)).
  Proof. unfold spec_trace. rewrite coarse_scales_down. apply pops_invariant. lia. Qed.
End Sizes.

Lemma pyramid_nth n H W sf pops : (pops < n)%nat ->
  nth pops (pyramid_sizes n H W sf) (0, 0)
  = (level_size (n - 1 - pops) H sf, level_size (n - 1 - pops) W sf).
Proof.
  intros Hp. unfold pyramid_sizes.
  set (f := fun k : nat => (level_size k H sf, level_size k W sf)).
  assert (L : length (map f (seq 0 n)) = n) by (rewrite map_length, seq_length; reflexivity).
  rewrite rev_nth by (rewrite L; exact Hp). rewrite L.
  change (0, 0) with (0, 0). 
  rewrite (nth_indep _ (0, 0) (f 0%nat)) by (rewrite L; lia).
  rewrite map_nth. rewrite seq_nth by lia. unfold f. replace (0 + (n - S pops))%nat with (n - 1 - pops)%nat by lia. reflexivity.
Qed.

Lemma annotate_fst k tr : map fst (annotate k tr) = tr.
Proof. revert k. induction tr as [|e r IH]; intros k; cbn [annotate map fst]; [reflexivity|]. f_equal. apply IH. Qed.

(* every execution of a step other than the multiscale step itself, at scale j, works on
   images of size ceil(H / sf^j) x ceil(W / sf^j) *)
Theorem image_size_per_execution pre ms post n rdm H W sf e sz :
  (n >= 1)%nat -> has_kind Msc pre = false -> s_kind ms = Some Msc ->
  In (e, sz) (image_sizes n H W sf (spec_trace pre ms post n rdm)) -> ev_kind e <> Msc ->
  0 <= ev_scale e < Z.of_nat n /\
  sz = (level_size (Z.to_nat (ev_scale e)) H sf, level_size (Z.to_nat (ev_scale e)) W sf).
Proof.
  intros Hn Hpre Hms Hin Hk. unfold image_sizes in Hin. apply in_map_iff in Hin as ([e' p] & E & Hin).
  cbn [fst snd] in E. injection E as -> <-.
  pose proof (pops_per_execution pre ms post n rdm Hn Hpre Hms) as F.
  rewrite Forall_forall in F. specialize (F _ Hin Hk). cbn [fst snd] in F. destruct F as [F0 F1].
  split; [lia|]. rewrite pyramid_nth by lia. replace (Z.to_nat (ev_scale e)) with (n - 1 - p)%nat by lia. reflexivity.
Qed.

(* ================================================================== returned maps *)

Lemma last_app_nonempty {A} (x y : list A) d : y <> [] -> last (x ++ y) d = last y d.
Proof.
  intros Hy. induction x as [|a x IH]; [reflexivity|].
  cbn [app]. destruct (x ++ y) eqn:E.
  - destruct x; [cbn in E; congruence | discriminate].
  - change (last (a :: a0 :: l) d) with (last (a0 :: l) d). exact IH.
Qed.

Lemma last_In {A} (y : list A) d : y <> [] -> In (last y d) y.
Proof.
  induction y as [|a y IH]; [congruence|]. intros _. destruct y as [|b y].
  - left. reflexivity.
  - right. apply IH. discriminate.
Qed.

Definition is_dsp_left (ep : ev * (Z * Z)) : bool :=
  match fst ep with Ev _ Dsp _ false => true | _ => false end.

(* the dataset returned by pandora.run is the one written by the last execution of the
   disparity step: it has the size of the original images *)
Theorem output_full_size pre ms post n rdm H W sf s :
  (n >= 1)%nat -> has_kind Msc pre = false -> s_kind ms = Some Msc ->
  In s pre -> s_kind s = Some Dsp ->
  output_size n H W sf (spec_trace pre ms post n rdm) = (H, W).
Proof.
  intros Hn Hpre Hms Hin Hk.
  pose proof (pops_per_execution pre ms post n rdm Hn Hpre Hms) as F.
  unfold output_size, image_sizes. unfold spec_trace in *.
  set (coarse := flat_map (fun j => scale_trace rdm (Z.of_nat j) (pre ++ [ms])) (coarse_scales n)) in *.
  set (final := scale_trace rdm 0 (pre ++ filter not_msc post)) in *.
  rewrite annotate_app in *. set (k := (0 + length (filter is_msc_left coarse))%nat) in *.
  apply Forall_app in F as [_ F].
  rewrite map_app, filter_app, map_app.
  set (g := fun ep : ev * nat => (fst ep, nth (snd ep) (pyramid_sizes n H W sf) (0, 0))).
  set (y := map snd (filter (fun ep : ev * (Z * Z) => match fst ep with Ev _ Dsp _ false => true | _ => false end)
                            (map g (annotate k final)))).
  assert (Hall : forall sz, In sz y -> sz = (H, W)).
  { intros sz Hsz. unfold y in Hsz. apply in_map_iff in Hsz as ([e sz'] & E & Hf). cbn [snd] in E. subst sz'.
    apply filter_In in Hf as [Hf Hd]. apply in_map_iff in Hf as ([e' p] & E & Hf).
    unfold g in E. cbn [fst snd] in E. injection E as -> <-.
    rewrite Forall_forall in F. specialize (F _ Hf). unfold pops_ok in F. cbn [fst snd] in F.
    assert (Hsc : ev_scale e = 0).
    { assert (In e final).
      { rewrite <- (annotate_fst k final). apply in_map_iff. exists (e, p). split; [reflexivity | exact Hf]. }
      unfold final in H0. exact (scale_trace_scale _ _ _ _ H0). }
    assert (Hkd : ev_kind e <> Msc).
    { cbn [fst] in Hd. destruct e as [i kd sc r]. cbn [ev_kind]. destruct kd; try discriminate Hd. discriminate. }
    destruct (F Hkd) as [_ F1]. rewrite pyramid_nth by lia.
    replace (n - 1 - p)%nat with 0%nat by lia. reflexivity. }
  assert (Hne : y <> []).
  { (* the disparity step of [pre] is executed in the final segment *)
    assert (He : In (Ev (s_id s) Dsp 0 false) final).
    { unfold final, scale_trace. apply in_flat_map. exists s. split; [apply in_or_app; left; exact Hin|].
      unfold step_evs. rewrite Hk. unfold evs. left. reflexivity. }
    rewrite <- (annotate_fst k final) in He. apply in_map_iff in He as ([e p] & E & He). cbn [fst] in E. subst e.
    intro Hy. assert (Hy' : In (snd (g (Ev (s_id s) Dsp 0 false, p))) y).
    { unfold y. apply in_map. apply filter_In. split; [apply in_map; exact He | reflexivity]. }
    rewrite Hy in Hy'. destruct Hy'. }
  rewrite last_app_nonempty by exact Hne. apply Hall. apply last_In. exact Hne.
Qed.

(* ================================================================== read_multiscale_params *)

Lemma read_params_none dn dsf steps : forallb (fun s => negb (sc_is_msc s)) steps = true ->
  read_multiscale_params dn dsf steps = (1, 1).
Proof.
  intros H. unfold read_multiscale_params.
  assert (E : filter sc_is_msc steps = []).
  { induction steps as [|s r IH]; [reflexivity|]. cbn [forallb] in H. apply andb_true_iff in H as [H1 H2].
    cbn [filter]. apply negb_true_iff in H1. rewrite H1. apply IH. exact H2. }
  rewrite E. reflexivity.
Qed.

Lemma read_params_first dn dsf pre s post : forallb (fun s => negb (sc_is_msc s)) pre = true -> sc_is_msc s = true ->
  read_multiscale_params dn dsf (pre ++ s :: post) = (dflt (sc_num_scales s) dn, dflt (sc_scale_factor s) dsf).
Proof.
  intros H Hs. unfold read_multiscale_params.
  assert (E : filter sc_is_msc (pre ++ s :: post) = s :: filter sc_is_msc post).
  { induction pre as [|x r IH]; cbn [app filter].
    - rewrite Hs. reflexivity.
    - cbn [forallb] in H. apply andb_true_iff in H as [H1 H2]. apply negb_true_iff in H1. rewrite H1.
      apply IH. exact H2. }
  rewrite E. reflexivity.
Qed.

(* ================================================================== the statement about one finer level of a run *)

(* what the property says about execution i + 1 (scale s) of a run over n scales, whose
   coarser level (scale s + 1) produced the maps [l] *)
Definition finer_level_holds (marge sf dmin dmax H W : Z) (n : nat) (wr : bool) (lvls : list level)
           (i : nat) (l : level) (s : nat) : Prop :=
  exists g gr,
    nth_error (run_grids IB marge sf dmin dmax H W n wr lvls) (S i) = Some (GMap g, gr) /\
    (level_ok sf (lv_ws l) (fst (lv_left l)) (lv_zoom l) ->
     let D := fst (lv_left l) in let V := snd (lv_left l) in let u := user_interval dmin dmax sf s in
     nr g = sf * nr D /\ nc g = sf * nc D /\
     finer_spec (lv_ws l) marge sf (nr D) (nc D) (px D) (px V) (fst u) (snd u) (sf * nr D) (sf * nc D) (px g)) /\
    (forall dv, lv_right l = Some dv -> level_ok sf (lv_ws l) (fst dv) (lv_zoom l) ->
     let D := fst dv in let V := snd dv in let u := mirrored (user_interval dmin dmax sf s) in
     exists g', gr = Some (GMap g') /\ nr g' = sf * nr D /\ nc g' = sf * nc D /\
     finer_spec (lv_ws l) marge sf (nr D) (nc D) (px D) (px V) (fst u) (snd u) (sf * nr D) (sf * nc D) (px g')).

Lemma finer_interval_run' marge sf dmin dmax H W n wr lvls i l s :
  1 <= sf -> n = S (length lvls) -> nth_error lvls i = Some l -> (s + 1 = n - 1 - i)%nat ->
  (sf ^ Z.of_nat (S s) | dmin) -> (sf ^ Z.of_nat (S s) | dmax) ->
  finer_level_holds marge sf dmin dmax H W n wr lvls i l s.
Proof. exact (finer_interval_run marge sf dmin dmax H W n wr lvls i l s). Qed.

(* the witness of the recorded finding: disp [-7, 4], scale_factor 3, two scales; a 3 x 3
   coarse map (window 3) whose centre is invalid: every coarse pixel is invalid or on the
   border, the whole level 0 must search [-7, 4] and searches 3 * int(-7/3), 3 * int(4/3) *)
Definition wit_level : level :=
  mkLevel 3 (mkArr 3 3 (fun _ _ => Some 0%Q), mkArr 3 3 (fun r c => if (r =? 1) && (c =? 1) then 1 else 0)) None
          (zoom_idx 3 3, zoom_idx 3 3).

Lemma witness_grid :
  exists g, nth_error (run_grids IB 0 3 (-7) 4 9 9 2 false [wit_level]) 1 = Some (GMap g, None) /\
            px g 0 0 = (Some (-6 # 1)%Q, Some (3 # 1)%Q).
Proof. eexists. split; [reflexivity|]. vm_compute. reflexivity. Qed.

Lemma witness_refutes :
  ~ (forall marge sf dmin dmax H W n wr lvls i l s,
      1 <= sf -> n = S (length lvls) -> nth_error lvls i = Some l -> (s + 1 = n - 1 - i)%nat ->
      finer_level_holds marge sf dmin dmax H W n wr lvls i l s).
Proof.
  intro Hfull.
  destruct (Hfull 0 3 (-7) 4 9 9 2%nat false [wit_level] 0%nat wit_level 0%nat) as (g & gr & Hn & Hl & _);
    try reflexivity; try lia.
  destruct witness_grid as (g' & Hn' & Hg'). rewrite Hn' in Hn. injection Hn as <- _.
  assert (Hok : level_ok 3 (lv_ws wit_level) (fst (lv_left wit_level)) (lv_zoom wit_level)).
  { unfold level_ok. split; [reflexivity|]. split; [vm_compute; discriminate|]. split; [vm_compute; discriminate|].
    split; [vm_compute; discriminate|]. split; apply zoom_idx_contract; vm_compute; discriminate. }
  destruct (Hl Hok) as (_ & _ & Hspec). cbv zeta in Hspec.
  destruct (Hspec 0 0) as (pr & pc & lo & hi & A & B & _ & _ & HG & HP).
  { vm_compute. split; [discriminate | reflexivity]. }
  { vm_compute. split; [discriminate | reflexivity]. }
  rewrite Hg' in HG. injection HG as <- <-.
  unfold near_parent in A, B. change (0 / 3) with 0 in A, B.
  assert (Hpr : pr = -1 \/ pr = 0 \/ pr = 1) by lia.
  assert (Hpc : pc = -1 \/ pc = 0 \/ pc = 1) by lia.
  destruct Hpr as [-> | [-> | ->]], Hpc as [-> | [-> | ->]];
    vm_compute in HP; destruct HP as [HP _]; discriminate HP.
Qed.

(* ================================================================== the extracted spec checker is sound *)

Lemma In_zr a n x : In x (zr a n) <-> a <= x < a + n.
Proof.
  unfold zr. rewrite in_map_iff. split.
  - intros (i & <- & Hi). apply in_seq in Hi. lia.
  - intros H. exists (Z.to_nat (x - a)). split; [lia|]. apply in_seq. lia.
Qed.

Lemma pick_min_spec l : forall x,
  In (pick Qle_bool l x) (x :: l) /\ forall y, In y (x :: l) -> (pick Qle_bool l x <= y)%Q.
Proof.
  induction l as [|a l IH]; intros x; cbn [pick].
  - split; [left; reflexivity|]. intros y [<-|[]]. apply Qle_refl.
  - destruct (Qle_bool x a) eqn:E.
    + apply Qle_bool_iff in E. destruct (IH x) as [Hin Hle]. split.
      * destruct Hin as [Hin|Hin]; [left; exact Hin | right; right; exact Hin].
      * intros y [<-|[<-|Hy]].
        -- apply Hle. left. reflexivity.
        -- eapply Qle_trans; [apply Hle; left; reflexivity | exact E].
        -- apply Hle. right. exact Hy.
    + assert (E' : (a <= x)%Q).
      { apply Qlt_le_weak, Qnot_le_lt. intro H. apply Qle_bool_iff in H. congruence. }
      destruct (IH a) as [Hin Hle]. split.
      * destruct Hin as [Hin|Hin]; [right; left; exact Hin | right; right; exact Hin].
      * intros y [<-|[<-|Hy]].
        -- eapply Qle_trans; [apply Hle; left; reflexivity | exact E'].
        -- apply Hle. left. reflexivity.
        -- apply Hle. right. exact Hy.
Qed.

Lemma pick_max_spec l : forall x,
  In (pick (fun a b => Qle_bool b a) l x) (x :: l) /\
  forall y, In y (x :: l) -> (y <= pick (fun a b => Qle_bool b a) l x)%Q.
Proof.
  induction l as [|a l IH]; intros x; cbn [pick].
  - split; [left; reflexivity|]. intros y [<-|[]]. apply Qle_refl.
  - destruct (Qle_bool a x) eqn:E.
    + apply Qle_bool_iff in E. destruct (IH x) as [Hin Hle]. split.
      * destruct Hin as [Hin|Hin]; [left; exact Hin | right; right; exact Hin].
      * intros y [<-|[<-|Hy]].
        -- apply Hle. left. reflexivity.
        -- eapply Qle_trans; [exact E | apply Hle; left; reflexivity].
        -- apply Hle. right. exact Hy.
    + assert (E' : (x <= a)%Q).
      { apply Qlt_le_weak, Qnot_le_lt. intro H. apply Qle_bool_iff in H. congruence. }
      destruct (IH a) as [Hin Hle]. split.
      * destruct Hin as [Hin|Hin]; [right; left; exact Hin | right; right; exact Hin].
      * intros y [<-|[<-|Hy]].
        -- eapply Qle_trans; [exact E' | apply Hle; left; reflexivity].
        -- apply Hle. left. reflexivity.
        -- apply Hle. right. exact Hy.
Qed.

Section CheckerSound.
  Variables ws marge sf rows cols : Z.
  Variable D : Z -> Z -> option Q.
  Variable V : Z -> Z -> Z.
  Variables ulo uhi : Q.
  Hypothesis Hhalf : 0 <= half ws.

  Lemma win_list_In pr pc q : In q (win_list ws rows cols D V pr pc) <-> in_window ws rows cols D V pr pc q.
  Proof.
    unfold win_list, in_window. rewrite in_flat_map. split.
    - intros (r & Hr & H). rewrite in_flat_map in H. destruct H as (c & Hc & H).
      apply In_zr in Hr. apply In_zr in Hc. exists r, c.
      destruct (valid_px rows cols D V r c) eqn:Ev; [|destruct H].
      destruct (D r c) as [q'|] eqn:Ed; [|destruct H]. destruct H as [<-|[]].
      repeat split; try lia.
    - intros (r & c & Hr & Hc & Hv & Hq). exists r. split; [apply In_zr; lia|].
      rewrite in_flat_map. exists c. split; [apply In_zr; lia|]. rewrite Hv, Hq. left. reflexivity.
  Qed.

  Lemma is_q_true o q : is_q o q = true -> exists x, o = Some x /\ (x == q)%Q.
  Proof. destruct o as [x|]; cbn [is_q]; [|discriminate]. intros H. exists x. split; [reflexivity|]. apply Qeq_bool_iff. exact H. Qed.

  Lemma prescribed_b_sound pr pc g : prescribed_b ws marge sf rows cols D V ulo uhi pr pc g = true ->
    exists lo hi, g = (Some lo, Some hi) /\ prescribed ws marge sf rows cols D V ulo uhi pr pc lo hi.
  Proof.
    unfold prescribed_b, prescribed. destruct g as [g1 g2]. cbn [fst snd].
    destruct (valid_px rows cols D V pr pc && negb (on_border ws rows cols pr pc)).
    - destruct (win_list ws rows cols D V pr pc) as [|x l] eqn:El; cbn [pick_min pick_max]; [discriminate|].
      intros H. apply andb_true_iff in H as [H1 H2].
      apply is_q_true in H1 as (lo & -> & E1). apply is_q_true in H2 as (hi & -> & E2).
      exists lo, hi. split; [reflexivity|].
      destruct (pick_min_spec l x) as [Mi Ml]. destruct (pick_max_spec l x) as [Xi Xl].
      rewrite <- El in Mi, Ml, Xi, Xl.
      exists (pick Qle_bool l x), (pick (fun a b => Qle_bool b a) l x).
      split; [|split; [|split; assumption]].
      + split; [apply win_list_In; exact Mi|]. intros y Hy. apply Ml. apply win_list_In. exact Hy.
      + split; [apply win_list_In; exact Xi|]. intros y Hy. apply Xl. apply win_list_In. exact Hy.
    - intros H. apply andb_true_iff in H as [H1 H2].
      apply is_q_true in H1 as (lo & -> & E1). apply is_q_true in H2 as (hi & -> & E2).
      exists lo, hi. split; [reflexivity|]. split; assumption.
  Qed.

  Lemma cands_near o p : In p (cands sf o) -> near_parent sf o p.
  Proof. unfold cands, near_parent. cbn [In]. lia. Qed.

  Theorem finer_spec_bad_sound h w G :
    finer_spec_bad ws marge sf rows cols D V ulo uhi h w G = [] ->
    finer_spec ws marge sf rows cols D V ulo uhi h w G.
  Proof.
    intros Hbad r c Hr Hc. unfold finer_spec_bad in Hbad.
    assert (Hok : pixel_ok ws marge sf rows cols D V ulo uhi G r c = true).
    { destruct (pixel_ok ws marge sf rows cols D V ulo uhi G r c) eqn:E; [reflexivity|]. exfalso.
      assert (In (r, c) (@nil (Z * Z))); [|auto].
      rewrite <- Hbad. apply in_flat_map. exists r. split; [apply In_zr; lia|].
      apply in_flat_map. exists c. split; [apply In_zr; lia|]. rewrite E. left. reflexivity. }
    unfold pixel_ok in Hok. apply existsb_exists in Hok as (pr & Hpr & Hok).
    apply existsb_exists in Hok as (pc & Hpc & Hok).
    rewrite !andb_true_iff in Hok. destruct Hok as ((((B1 & B2) & B3) & B4) & HP).
    apply Z.leb_le in B1, B3. apply Z.ltb_lt in B2, B4.
    destruct (prescribed_b_sound pr pc _ HP) as (lo & hi & EG & P).
    exists pr, pc, lo, hi. split; [apply cands_near; exact Hpr|]. split; [apply cands_near; exact Hpc|].
    split; [lia|]. split; [lia|]. split; assumption.
  Qed.
End CheckerSound.
