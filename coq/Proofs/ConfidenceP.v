(* Proofs about Model/Confidence.v (property C12). *)
From Coq Require Import String Ascii.
From Coq Require Import ZArith QArith Qround List Bool Lia Lqa.
From Pandora Require Import Model.Confidence.
Import ListNotations.
Open Scope Z_scope.

(* ------------------------------------------------------------------ comparisons on Q *)

Lemma Qle_bool_true a b : Qle_bool a b = true <-> (a <= b)%Q.
Proof. apply Qle_bool_iff. Qed.
Lemma Qle_bool_false a b : Qle_bool a b = false <-> (b < a)%Q.
Proof.
  split; intro H.
  - destruct (Qlt_le_dec b a) as [L|L]; auto. apply Qle_bool_iff in L. congruence.
  - destruct (Qle_bool a b) eqn:E; auto. apply Qle_bool_iff in E. exfalso. apply (Qlt_not_le _ _ H E).
Qed.

Lemma qmin_le_l a b : (qmin a b <= a)%Q.
Proof. unfold qmin. destruct (Qle_bool a b) eqn:E. lra. apply Qle_bool_false in E. lra. Qed.
Lemma qmin_le_r a b : (qmin a b <= b)%Q.
Proof. unfold qmin. destruct (Qle_bool a b) eqn:E. apply Qle_bool_true in E; lra. lra. Qed.
Lemma qmin_cases a b : qmin a b = a \/ qmin a b = b.
Proof. unfold qmin. destruct (Qle_bool a b); auto. Qed.
Lemma qmax_ge_l a b : (a <= qmax a b)%Q.
Proof. unfold qmax. destruct (Qle_bool a b) eqn:E. apply Qle_bool_true in E; lra. lra. Qed.
Lemma qmax_ge_r a b : (b <= qmax a b)%Q.
Proof. unfold qmax. destruct (Qle_bool a b) eqn:E. lra. apply Qle_bool_false in E. lra. Qed.
Lemma qmax_cases a b : qmax a b = a \/ qmax a b = b.
Proof. unfold qmax. destruct (Qle_bool a b); auto. Qed.

(* ------------------------------------------------------------------ nanmin / nanmax *)

Lemma nanmin_spec l m : nanmin l = Some m ->
  In (Some m) l /\ forall x, In (Some x) l -> (m <= x)%Q.
Proof.
  revert m. induction l as [|a r IH]; intros m H; simpl in H; [discriminate|].
  destruct a as [x|].
  - destruct (nanmin r) as [m'|] eqn:E.
    + inversion H; subst m; clear H. destruct (IH m' eq_refl) as [I L]. split.
      * destruct (qmin_cases x m') as [C|C]; rewrite C; [left; reflexivity | right; exact I].
      * intros y [Hy|Hy].
        -- inversion Hy; subst. apply qmin_le_l.
        -- specialize (L y Hy). pose proof (qmin_le_r x m'). lra.
    + inversion H; subst m; clear H. split; [left; reflexivity|].
      intros y [Hy|Hy]; [inversion Hy; lra|].
      exfalso. clear IH. induction r as [|b r IHr]; [destruct Hy|].
      simpl in E. destruct b as [z|]; [destruct (nanmin r); discriminate|].
      destruct Hy as [Hy|Hy]; [discriminate|]. apply IHr; auto.
  - destruct (IH m H) as [I L]. split; [right; exact I|].
    intros y [Hy|Hy]; [discriminate|auto].
Qed.

Lemma nanmin_some l x : In (Some x) l -> exists m, nanmin l = Some m.
Proof.
  induction l as [|a r IH]; intros H; [destruct H|]. simpl.
  destruct a as [y|].
  - destruct (nanmin r); eauto.
  - destruct H as [H|H]; [discriminate|auto].
Qed.

Lemma nanmax_spec l m : nanmax l = Some m ->
  In (Some m) l /\ forall x, In (Some x) l -> (x <= m)%Q.
Proof.
  revert m. induction l as [|a r IH]; intros m H; simpl in H; [discriminate|].
  destruct a as [x|].
  - destruct (nanmax r) as [m'|] eqn:E.
    + inversion H; subst m; clear H. destruct (IH m' eq_refl) as [I L]. split.
      * destruct (qmax_cases x m') as [C|C]; rewrite C; [left; reflexivity | right; exact I].
      * intros y [Hy|Hy].
        -- inversion Hy; subst. apply qmax_ge_l.
        -- specialize (L y Hy). pose proof (qmax_ge_r x m'). lra.
    + inversion H; subst m; clear H. split; [left; reflexivity|].
      intros y [Hy|Hy]; [inversion Hy; lra|].
      exfalso. clear IH. induction r as [|b r IHr]; [destruct Hy|].
      simpl in E. destruct b as [z|]; [destruct (nanmax r); discriminate|].
      destruct Hy as [Hy|Hy]; [discriminate|]. apply IHr; auto.
  - destruct (IH m H) as [I L]. split; [right; exact I|].
    intros y [Hy|Hy]; [discriminate|auto].
Qed.

Lemma nanmax_some l x : In (Some x) l -> exists m, nanmax l = Some m.
Proof.
  induction l as [|a r IH]; intros H; [destruct H|]. simpl.
  destruct a as [y|].
  - destruct (nanmax r); eauto.
  - destruct H as [H|H]; [discriminate|auto].
Qed.

(* ------------------------------------------------------------------ zmin_l / zmax_l *)

Lemma zmin_l_spec l m : zmin_l l = Some m -> In m l /\ forall x, In x l -> m <= x.
Proof.
  revert m. induction l as [|a r IH]; intros m H; simpl in H; [discriminate|].
  destruct (zmin_l r) as [m'|] eqn:E.
  - inversion H; subst m; clear H. destruct (IH m' eq_refl) as [I L]. split.
    + destruct (Z.min_spec a m') as [[_ C]|[_ C]]; rewrite C; [left; reflexivity|right; exact I].
    + intros y [Hy|Hy]; [subst; lia|]. specialize (L y Hy). lia.
  - inversion H; subst m; clear H. destruct r; [|simpl in E; destruct (zmin_l r); discriminate].
    split; [left; reflexivity|]. intros y [Hy|[]]. lia.
Qed.
Lemma zmax_l_spec l m : zmax_l l = Some m -> In m l /\ forall x, In x l -> x <= m.
Proof.
  revert m. induction l as [|a r IH]; intros m H; simpl in H; [discriminate|].
  destruct (zmax_l r) as [m'|] eqn:E.
  - inversion H; subst m; clear H. destruct (IH m' eq_refl) as [I L]. split.
    + destruct (Z.max_spec a m') as [[_ C]|[_ C]]; rewrite C; [right; exact I|left; reflexivity].
    + intros y [Hy|Hy]; [subst; lia|]. specialize (L y Hy). lia.
  - inversion H; subst m; clear H. destruct r; [|simpl in E; destruct (zmax_l r); discriminate].
    split; [left; reflexivity|]. intros y [Hy|[]]. lia.
Qed.
Lemma zmin_l_some l x : In x l -> exists m, zmin_l l = Some m.
Proof. destruct l; [intros []|]. intros _. simpl. destruct (zmin_l l); eauto. Qed.
Lemma zmax_l_some l x : In x l -> exists m, zmax_l l = Some m.
Proof. destruct l; [intros []|]. intros _. simpl. destruct (zmax_l l); eauto. Qed.
Lemma zmin_l_none l : zmin_l l = None -> l = [].
Proof. destruct l; auto. simpl. destruct (zmin_l l); discriminate. Qed.
Lemma zmax_l_none l : zmax_l l = None -> l = [].
Proof. destruct l; auto. simpl. destruct (zmax_l l); discriminate. Qed.

(* ------------------------------------------------------------------ small list facts *)

Lemma map2_map {A B C D : Type} (f : B -> C -> D) (g : A -> B) (h : A -> C) l :
  map2 f (map g l) (map h l) = map (fun x => f (g x) (h x)) l.
Proof. induction l; simpl; congruence. Qed.

Lemma count_true_app a b : count_true (a ++ b) = count_true a + count_true b.
Proof. induction a; simpl; lia. Qed.

Lemma count_true_bounds l : 0 <= count_true l <= Z.of_nat (length l).
Proof. induction l as [|b r IH]; simpl length; simpl count_true; [lia|]. destruct b; lia. Qed.

(* ------------------------------------------------------------------ ambiguity: the flattened
   (repeat / tile) comparison of the kernel is the double sum of the definition *)

(* the definition: sum over eta of the number of disparities within eta of the reference *)
Definition amb_sum (nmin : Q) (etas : list Q) (nc : curve) : Z :=
  fold_right (fun e acc => samp_amb nmin nc e + acc) 0 etas.

(* sum over the disparities of the number of etas (the order in which the kernel's flat array runs) *)
Definition amb_sum_d (nmin : Q) (etas : list Q) (nc : curve) : Z :=
  fold_right (fun x acc => count_true (map (fun e => le_nan x (nmin + e)%Q) etas) + acc) 0 nc.

Lemma map2_repeat_app {A : Type} (f : oq -> Q -> A) x etas rest1 rest2 :
  map2 f (repeat x (length etas) ++ rest1) (etas ++ rest2)
  = map (f x) etas ++ map2 f rest1 rest2.
Proof. induction etas as [|e r IH]; simpl; [reflexivity|]. rewrite IH. reflexivity. Qed.

Lemma amb_flat_eq nmin etas (nc : curve) :
  count_true (map2 (fun x e => le_nan x (nmin + e)%Q) (repeat_each (length etas) nc) (tile (length nc) etas))
  = amb_sum_d nmin etas nc.
Proof.
  unfold repeat_each, tile. induction nc as [|x r IH]; simpl; [reflexivity|].
  rewrite map2_repeat_app, count_true_app. unfold amb_sum_d in IH. rewrite IH. reflexivity.
Qed.

Lemma amb_sum_swap nmin etas nc : amb_sum_d nmin etas nc = amb_sum nmin etas nc.
Proof.
  unfold amb_sum_d, amb_sum, samp_amb. revert nc. induction etas as [|e r IH]; intro nc.
  - simpl. induction nc; simpl; lia.
  - simpl. rewrite <- IH. clear IH.
    induction nc as [|x nc IHn]; simpl; [reflexivity|]. rewrite IHn. lia.
Qed.

Lemma amb_pixel_def mn mx etas c m : nanmin c = Some m ->
  amb_pixel mn mx etas c = amb_sum (norm mn mx m) etas (ncurve mn mx c).
Proof.
  intro H. unfold amb_pixel. rewrite H.
  replace (length c) with (length (ncurve mn mx c)) by (unfold ncurve; apply map_length).
  rewrite amb_flat_eq. apply amb_sum_swap.
Qed.

Lemma amb_pixel_allnan mn mx etas c : nanmin c = None ->
  amb_pixel mn mx etas c = Z.of_nat (length etas) * Z.of_nat (length c).
Proof. intro H. unfold amb_pixel. rewrite H. reflexivity. Qed.

Lemma samp_amb_bounds nmin nc e : 0 <= samp_amb nmin nc e <= Z.of_nat (length nc).
Proof. unfold samp_amb. pose proof (count_true_bounds (map (fun x => le_nan x (nmin + e)%Q) nc)) as H.
  rewrite map_length in H. exact H. Qed.

Lemma amb_sum_bounds nmin etas nc : 0 <= amb_sum nmin etas nc <= Z.of_nat (length etas) * Z.of_nat (length nc).
Proof.
  unfold amb_sum. induction etas as [|e r IH]; simpl fold_right; simpl length; [lia|].
  pose proof (samp_amb_bounds nmin nc e). nia.
Qed.

(* ------------------------------------------------------------------ min-max scaling *)

Lemma in_concat_map {A B : Type} (f : A -> B) (m : list (list A)) r x :
  In r m -> In x r -> In (f x) (concat (map (map f) m)).
Proof. intros Hr Hx. apply in_concat. exists (map f r). split; apply in_map; auto. Qed.

Definition all_in01 (m : list (list oq)) : Prop :=
  forall r o, In r m -> In o r -> exists x, o = Some x /\ (0 <= x <= 1)%Q.

Lemma fin_min_spec l lo : fin_min l = Some lo -> In lo l /\ forall x, In x l -> (lo <= x)%Q.
Proof.
  unfold fin_min. intro H. apply nanmin_spec in H. destruct H as [I L]. split.
  - apply in_map_iff in I. destruct I as [y [E I]]. inversion E; subst; auto.
  - intros x Hx. apply L. apply in_map. exact Hx.
Qed.
Lemma fin_max_spec l hi : fin_max l = Some hi -> In hi l /\ forall x, In x l -> (x <= hi)%Q.
Proof.
  unfold fin_max. intro H. apply nanmax_spec in H. destruct H as [I L]. split.
  - apply in_map_iff in I. destruct I as [y [E I]]. inversion E; subst; auto.
  - intros x Hx. apply L. apply in_map. exact Hx.
Qed.
Lemma fin_min_some l x : In x l -> exists lo, fin_min l = Some lo.
Proof. intro H. unfold fin_min. apply (nanmin_some _ x). apply in_map. exact H. Qed.
Lemma fin_max_some l x : In x l -> exists hi, fin_max l = Some hi.
Proof. intro H. unfold fin_max. apply (nanmax_some _ x). apply in_map. exact H. Qed.

(* every value of a min-max scaled map is finite and in [0,1]; with the zero-range
   guard this holds for EVERY map, without it for maps whose range is not null *)
(* the guard is the model's own test: ~ hi == lo *)
Definition scale_guard (m : list (list Q)) : Prop :=
  match fin_min (concat m), fin_max (concat m) with
  | Some lo, Some hi => ~ (hi == lo)%Q
  | _, _ => True
  end.

Lemma in_mapmap {A B : Type} (f : A -> B) m r o :
  In r (map (map f) m) -> In o r -> exists r0 x, In r0 m /\ In x r0 /\ o = f x.
Proof.
  intros Hr Ho. apply in_map_iff in Hr. destruct Hr as [r0 [E Hr0]]. subst r.
  apply in_map_iff in Ho. destruct Ho as [x [E Hx]]. eauto.
Qed.

Lemma minmax_scale_in01 guarded m :
  (guarded = true \/ scale_guard m) -> all_in01 (minmax_scale guarded m).
Proof.
  intros G r o Hr Ho. unfold minmax_scale in Hr. unfold scale_guard in G.
  destruct (fin_min (concat m)) as [lo|] eqn:Emin.
  2:{ exfalso. assert (In r (map (map (fun _ : Q => @None Q)) m)) as Hr' by (destruct (fin_max (concat m)); exact Hr).
      destruct (in_mapmap _ _ _ _ Hr' Ho) as [r0 [x [Hr0 [Hx _]]]].
      assert (In x (concat m)) as Ix by (apply in_concat; eauto).
      destruct (fin_min_some _ _ Ix) as [lo' El]. congruence. }
  destruct (fin_max (concat m)) as [hi|] eqn:Emax.
  2:{ exfalso. destruct (in_mapmap _ _ _ _ Hr Ho) as [r0 [x [Hr0 [Hx _]]]].
      assert (In x (concat m)) as Ix by (apply in_concat; eauto).
      destruct (fin_max_some _ _ Ix) as [hi' El]. congruence. }
  destruct (fin_min_spec _ _ Emin) as [Ilo Llo]. destruct (fin_max_spec _ _ Emax) as [Ihi Lhi].
  destruct (Qeq_bool hi lo) eqn:Eq.
  - apply Qeq_bool_iff in Eq.
    destruct guarded.
    + destruct (in_mapmap _ _ _ _ Hr Ho) as [r0 [x [Hr0 [Hx E]]]]. subst o.
      exists (x - lo)%Q. split; [reflexivity|].
      assert (In x (concat m)) as Ix by (apply in_concat; eauto).
      pose proof (Llo x Ix). pose proof (Lhi x Ix). lra.
    + exfalso. destruct G as [G|G]; [discriminate|]. apply G. exact Eq.
  - assert (~ (hi == lo)%Q) as Ne by (intro C; apply Qeq_bool_iff in C; congruence).
    destruct (in_mapmap _ _ _ _ Hr Ho) as [r0 [x [Hr0 [Hx E]]]]. subst o.
    exists ((x - lo) / (hi - lo))%Q. split; [reflexivity|].
    assert (In x (concat m)) as Ix by (apply in_concat; eauto).
    pose proof (Llo x Ix) as L1. pose proof (Lhi x Ix) as L2. pose proof (Lhi lo Ilo) as L3.
    assert (0 < hi - lo)%Q as P by (destruct (Qlt_le_dec lo hi); [lra|exfalso; apply Ne; lra]).
    split.
    + apply Qle_shift_div_l; [exact P|lra].
    + apply Qle_shift_div_r; [exact P|lra].
Qed.

(* ------------------------------------------------------------------ percentile normalisation *)

Lemma qinsert_not_nil x l : qinsert x l <> [].
Proof. destruct l; simpl; [discriminate|]. destruct (Qle_bool x q); discriminate. Qed.
Lemma qsort_nil l : qsort l = [] -> l = [].
Proof. destruct l; auto. simpl. intro H. exfalso. exact (qinsert_not_nil _ _ H). Qed.
Lemma quantile_sorted_none s q : quantile_sorted s q = None -> s = [].
Proof. destruct s; auto. discriminate. Qed.

Definition clipped (p : Q) (amb : list (list Q)) : option (list (list Q)) :=
  let s := qsort (concat amb) in
  match quantile_sorted s (p / 100)%Q, quantile_sorted s ((100 - p) / 100)%Q with
  | Some pmin, Some pmax => Some (map (map (clipq pmin pmax)) amb)
  | _, _ => None
  end.

Lemma normalize_percentile_in01 guarded p amb :
  (guarded = true \/ match clipped p amb with Some cl => scale_guard cl | None => True end) ->
  all_in01 (normalize_percentile guarded p amb).
Proof.
  intros G. unfold normalize_percentile. unfold clipped in G.
  destruct (quantile_sorted (qsort (concat amb)) (p / 100)) as [pmin|] eqn:E1.
  - destruct (quantile_sorted (qsort (concat amb)) ((100 - p) / 100)) as [pmax|] eqn:E2.
    + apply minmax_scale_in01. exact G.
    + apply quantile_sorted_none in E2. rewrite E2 in E1. discriminate.
  - apply quantile_sorted_none, qsort_nil in E1.
    intros r o Hr Ho. exfalso.
    destruct (in_mapmap _ _ _ _ Hr Ho) as [r0 [x [Hr0 [Hx _]]]].
    assert (In x (concat amb)) as Ix by (apply in_concat; eauto). rewrite E1 in Ix. destruct Ix.
Qed.

Lemma amb_confidence_in01 guarded is_min p etas v :
  (guarded = true \/
   match clipped p (map (map inject_Z) (amb_map etas (orient is_min v))) with
   | Some cl => scale_guard cl | None => True end) ->
  all_in01 (amb_confidence guarded true is_min p etas v).
Proof.
  intros G r o Hr Ho. unfold amb_confidence in Hr.
  destruct (in_mapmap _ _ _ _ Hr Ho) as [r0 [x [Hr0 [Hx E]]]]. subst o.
  destruct (normalize_percentile_in01 guarded p _ G r0 x Hr0 Hx) as [y [Ey B]]. subst x.
  exists (1 - y)%Q. split; [reflexivity|lra].
Qed.

(* ------------------------------------------------------------------ risk *)

Lemma le_nan_not_gt c b : le_nan c b = negb (gt_nan c b).
Proof. destruct c; simpl; [|reflexivity]. unfold Qlt_bool. rewrite negb_involutive. reflexivity. Qed.

Lemma kept_length i b nc : Z.of_nat (length (kept_from i b nc)) = count_true (map (fun x => le_nan x b) nc).
Proof.
  revert i. induction nc as [|c r IH]; intro i; [reflexivity|].
  simpl. rewrite le_nan_not_gt. destruct (gt_nan c b); simpl negb; cbv iota.
  - rewrite IH. lia.
  - simpl length. rewrite Nat2Z.inj_succ, IH. lia.
Qed.

(* the kept indices are distinct integers between their minimum and their maximum *)
Lemma kept_from_shape nc : forall i b,
  match zmin_l (kept_from i b nc), zmax_l (kept_from i b nc) with
  | Some lo, Some hi => i <= lo /\ lo <= hi /\ hi < i + Z.of_nat (length nc)
                        /\ 1 <= Z.of_nat (length (kept_from i b nc)) <= hi - lo + 1
  | None, None => kept_from i b nc = []
  | _, _ => False
  end.
Proof.
  induction nc as [|c r IH]; intros i b; [reflexivity|].
  simpl kept_from. specialize (IH (i + 1) b).
  destruct (gt_nan c b).
  - destruct (zmin_l (kept_from (i + 1) b r)), (zmax_l (kept_from (i + 1) b r)); auto.
    simpl length. lia.
  - simpl zmin_l. simpl zmax_l.
    destruct (zmin_l (kept_from (i + 1) b r)) as [lo|], (zmax_l (kept_from (i + 1) b r)) as [hi|];
      try contradiction.
    + simpl length. lia.
    + rewrite IH. simpl length. lia.
Qed.

Definition ole (a b : oq) : Prop :=
  match a, b with
  | Some x, Some y => (0 <= x /\ x <= y)%Q
  | None, None => True
  | _, _ => False
  end.

Lemma nansum_mono la lb : Forall2 ole la lb ->
  snd (nansum la) = snd (nansum lb) /\ 0 <= snd (nansum la)
  /\ (0 <= fst (nansum la))%Q /\ (fst (nansum la) <= fst (nansum lb))%Q.
Proof.
  induction 1 as [|a b ra rb Hab _ IH]; simpl; [repeat split; try lia; lra|].
  destruct a as [x|], b as [y|]; simpl in Hab; try contradiction; auto.
  destruct (nansum ra) as [s1 n1], (nansum rb) as [s2 n2]. simpl in *.
  destruct IH as [E [N [P L]]]. repeat split; try lia; lra.
Qed.

Lemma nanmean_mono la lb : Forall2 ole la lb ->
  match nanmean la, nanmean lb with
  | Some x, Some y => (0 <= x /\ x <= y)%Q
  | None, None => True
  | _, _ => False
  end.
Proof.
  intro H. apply nansum_mono in H. unfold nanmean.
  destruct (nansum la) as [s1 n1], (nansum lb) as [s2 n2]. simpl in H.
  destruct H as [E [N [P L]]]. subst n2.
  destruct (n1 =? 0) eqn:Z0; [exact I|].
  apply Z.eqb_neq in Z0.
  assert (0 < inject_Z n1)%Q as Pn by (unfold Qlt; simpl; lia).
  split.
  - apply Qle_shift_div_l; [exact Pn|lra].
  - unfold Qdiv. apply Qmult_le_compat_r; [exact L|]. apply Qinv_le_0_compat. lra.
Qed.

Lemma inject_Z_le a b : a <= b -> (inject_Z a <= inject_Z b)%Q.
Proof. intro H. rewrite <- Zle_Qle. exact H. Qed.

(* 0 <= risk_min <= risk_max, for every curve, every eta list, every normalisation *)
Lemma risk_order mn mx etas c :
  match risk_pixel mn mx etas c with
  | (Some rmax, Some rmin) => (0 <= rmin /\ rmin <= rmax)%Q
  | (None, None) => True
  | _ => False
  end.
Proof.
  unfold risk_pixel. destruct (nanmin c) as [m|]; [|exact I].
  set (nmin := norm mn mx m). set (nc := ncurve mn mx c).
  rewrite map2_map.
  set (A := map (option_map inject_Z) (map (fun e : Q => spread (kept_from 0 (nmin + e)%Q nc)) etas)).
  set (B := map (fun x : Q => option_map (fun s' : Z => inject_Z (1 + s' - samp_amb nmin nc x))
                                       (spread (kept_from 0 (nmin + x)%Q nc))) etas).
  assert (Forall2 ole B A) as F.
  { unfold A, B. rewrite map_map. clear A B. induction etas as [|e r IH]; cbn [map]; constructor; [|exact IH].
    pose proof (kept_from_shape nc 0 (nmin + e)%Q) as S.
    unfold spread.
    destruct (zmin_l (kept_from 0 (nmin + e)%Q nc)) as [lo|],
             (zmax_l (kept_from 0 (nmin + e)%Q nc)) as [hi|]; cbn [option_map ole]; try contradiction; auto.
    unfold samp_amb. rewrite <- (kept_length 0).
    destruct S as [S1 [S2 [S3 S4]]].
    split; [replace 0%Q with (inject_Z 0) by reflexivity|]; apply inject_Z_le; lia. }
  apply nanmean_mono in F.
  destruct (nanmean A), (nanmean B); auto.
Qed.

Lemma nansum_count_nonneg l : 0 <= snd (nansum l).
Proof. induction l as [|a r IH]; simpl; [lia|]. destruct a; auto. destruct (nansum r). simpl in *. lia. Qed.
Lemma nansum_count_pos l x : In (Some x) l -> 0 < snd (nansum l).
Proof.
  induction l as [|a r IH]; intros H; [destruct H|]. simpl.
  destruct a as [y|].
  - pose proof (nansum_count_nonneg r). destruct (nansum r). simpl in *. lia.
  - destruct H as [H|H]; [discriminate|auto].
Qed.
Lemma nanmean_some l x : In (Some x) l -> exists y, nanmean l = Some y.
Proof.
  intro H. apply nansum_count_pos in H. unfold nanmean. destruct (nansum l) as [s n]. simpl in H.
  destruct (n =? 0) eqn:E; [apply Z.eqb_eq in E; lia|eauto].
Qed.

Lemma kept_nonempty i b nc x : In (Some x) nc -> (x <= b)%Q -> kept_from i b nc <> [].
Proof.
  revert i. induction nc as [|c r IH]; intros i H L; [destruct H|]. simpl.
  destruct H as [H|H].
  - subst c. simpl. unfold Qlt_bool. apply Qle_bool_true in L. rewrite L. simpl. discriminate.
  - destruct (gt_nan c b); [apply IH; auto|discriminate].
Qed.

(* for every curve with a finite cost both risks are finite (eta samples non-negative, at least one) *)
Lemma risk_finite mn mx etas c x :
  In (Some x) c -> etas <> [] -> Forall (fun e => 0 <= e)%Q etas ->
  exists rmax rmin, risk_pixel mn mx etas c = (Some rmax, Some rmin).
Proof.
  intros Hx Ne Pos. destruct (nanmin_some _ _ Hx) as [m Em].
  unfold risk_pixel. rewrite Em. rewrite map2_map.
  destruct etas as [|e0 r]; [congruence|].
  assert (forall e, (0 <= e)%Q -> exists s, spread (kept_from 0 (norm mn mx m + e)%Q (ncurve mn mx c)) = Some s) as S.
  { intros e He. unfold spread.
    pose proof (kept_from_shape (ncurve mn mx c) 0 (norm mn mx m + e)%Q) as Sh.
    assert (kept_from 0 (norm mn mx m + e)%Q (ncurve mn mx c) <> []) as K.
    { apply (kept_nonempty _ _ _ (norm mn mx m)); [|lra].
      unfold ncurve. apply (in_map (option_map (norm mn mx)) c (Some m)).
      apply nanmin_spec in Em. tauto. }
    destruct (zmin_l _), (zmax_l _); try contradiction; eauto. }
  inversion Pos as [|? ? P0 Pr]; subst.
  destruct (S e0 P0) as [s0 Es0].
  match goal with |- exists a b, (nanmean ?A, nanmean ?B) = _ =>
    destruct (nanmean_some A (inject_Z s0)) as [ra Ea];
    [|destruct (nanmean_some B (inject_Z (1 + s0 - samp_amb (norm mn mx m) (ncurve mn mx c) e0))) as [rb Eb]] end.
  - cbn [map]. rewrite Es0. left. reflexivity.
  - cbn [map]. rewrite Es0. left. reflexivity.
  - rewrite Ea, Eb. eauto.
Qed.

(* ------------------------------------------------------------------ interval bounds *)

Lemma sel_from_in ps : forall k thr i,
  In i (sel_from k thr ps) <->
  exists j p, i = k + Z.of_nat j /\ nth_error ps j = Some p /\ ge_nan p thr = true.
Proof.
  induction ps as [|p r IH]; intros k thr i.
  - simpl. split; [intros []|]. intros [j [p [_ [H _]]]]. destruct j; discriminate.
  - simpl. split.
    + intro H. destruct (ge_nan p thr) eqn:G.
      * destruct H as [H|H].
        -- exists 0%nat, p. simpl. repeat split; auto. lia.
        -- apply IH in H. destruct H as [j [p' [E [N G']]]]. exists (S j), p'. simpl. repeat split; auto. lia.
      * apply IH in H. destruct H as [j [p' [E [N G']]]]. exists (S j), p'. simpl. repeat split; auto. lia.
    + intros [j [p' [E [N G']]]]. destruct j as [|j].
      * simpl in N. inversion N; subst p'. rewrite G'. left. lia.
      * simpl in N. assert (In i (sel_from (k + 1) thr r)) as H.
        { apply IH. exists j, p'. repeat split; auto. lia. }
        destruct (ge_nan p thr); [right|]; exact H.
Qed.

Lemma first_idx_spec f c : forall k w, first_idx k f c = Some w ->
  exists j x, w = k + Z.of_nat j /\ nth_error c j = Some x /\ f x = true.
Proof.
  induction c as [|x r IH]; intros k w H; simpl in H; [discriminate|].
  destruct (f x) eqn:F.
  - inversion H; subst. exists 0%nat, x. simpl. repeat split; auto. lia.
  - apply IH in H. destruct H as [j [y [E [N Fy]]]]. exists (S j), y. simpl. repeat split; auto. lia.
Qed.

Lemma first_idx_some f c x : In x c -> f x = true -> forall k, exists w, first_idx k f c = Some w.
Proof.
  induction c as [|y r IH]; intros H F k; [destruct H|]. simpl.
  destruct (f y) eqn:Fy; [eauto|]. destruct H as [H|H]; [subst; congruence|auto].
Qed.

(* the winner: an index of a finite cost that no finite cost of the curve beats *)
Lemma wta_min_spec c w : wta_min c = Some w ->
  exists j cw, w = Z.of_nat j /\ nth_error c j = Some (Some cw) /\ forall x, In (Some x) c -> (cw <= x)%Q.
Proof.
  unfold wta_min. destruct (nanmin c) as [m|] eqn:E; [|discriminate]. intro H.
  apply first_idx_spec in H. destruct H as [j [x [Ew [N F]]]].
  destruct x as [y|]; [|discriminate]. simpl in F. apply Qle_bool_true in F.
  exists j, y. repeat split; auto. intros z Hz. apply nanmin_spec in E. destruct E as [_ L].
  specialize (L z Hz). lra.
Qed.
Lemma wta_max_spec c w : wta_max c = Some w ->
  exists j cw, w = Z.of_nat j /\ nth_error c j = Some (Some cw) /\ forall x, In (Some x) c -> (x <= cw)%Q.
Proof.
  unfold wta_max. destruct (nanmax c) as [m|] eqn:E; [|discriminate]. intro H.
  apply first_idx_spec in H. destruct H as [j [x [Ew [N F]]]].
  destruct x as [y|]; [|discriminate]. simpl in F. apply Qle_bool_true in F.
  exists j, y. repeat split; auto. intros z Hz. apply nanmax_spec in E. destruct E as [_ L].
  specialize (L z Hz). lra.
Qed.

(* every valid pixel (a finite cost) has a winner *)
Lemma wta_some is_min c x : In (Some x) c -> exists w, wta is_min c = Some w.
Proof.
  intro H. destruct is_min; simpl.
  - unfold wta_min. destruct (nanmin_some _ _ H) as [m E]. rewrite E.
    apply nanmin_spec in E. destruct E as [I _].
    apply (first_idx_some _ _ (Some m)); auto. simpl. apply Qle_bool_true. lra.
  - unfold wta_max. destruct (nanmax_some _ _ H) as [m E]. rewrite E.
    apply nanmax_spec in E. destruct E as [I _].
    apply (first_idx_some _ _ (Some m)); auto. simpl. apply Qle_bool_true. lra.
Qed.

Lemma norm_mono mn mx x y : (mn < mx)%Q -> (x <= y)%Q -> (norm mn mx x <= norm mn mx y)%Q.
Proof.
  intros H L. unfold norm, Qdiv. apply Qmult_le_compat_r; [lra|].
  apply Qinv_le_0_compat. lra.
Qed.

(* the winner has possibility 1 *)
Lemma winner_possibility mn mx is_min c w :
  (mn < mx)%Q -> wta is_min c = Some w ->
  exists j p, w = Z.of_nat j /\ (j < length c)%nat
              /\ nth_error (possibility (type_factor is_min) (ncurve mn mx c)) j = Some (Some p) /\ (p == 1)%Q.
Proof.
  intros Hmn Hw.
  assert (exists j cw, w = Z.of_nat j /\ nth_error c j = Some (Some cw) /\
            forall x, In (Some x) c ->
              (type_factor is_min * norm mn mx x <= type_factor is_min * norm mn mx cw)%Q) as [j [cw [Ew [N Best]]]].
  { destruct is_min; simpl in Hw.
    - apply wta_min_spec in Hw. destruct Hw as [j [cw [Ew [N L]]]]. exists j, cw. repeat split; auto.
      intros x Hx. pose proof (norm_mono mn mx cw x Hmn (L x Hx)). simpl. lra.
    - apply wta_max_spec in Hw. destruct Hw as [j [cw [Ew [N L]]]]. exists j, cw. repeat split; auto.
      intros x Hx. pose proof (norm_mono mn mx x cw Hmn (L x Hx)). simpl. lra. }
  set (tf := type_factor is_min) in *.
  assert (nth_error (map (option_map (Qmult tf)) (ncurve mn mx c)) j = Some (Some (tf * norm mn mx cw)%Q)) as Nt.
  { unfold ncurve. rewrite map_map. apply (map_nth_error (fun x => option_map (Qmult tf) (option_map (norm mn mx) x)) j c N). }
  unfold possibility.
  destruct (nanmax (map (option_map (Qmult tf)) (ncurve mn mx c))) as [M|] eqn:EM.
  - exists j, (tf * norm mn mx cw + 1 - M)%Q. repeat split; auto.
    + apply nth_error_Some. rewrite N. discriminate.
    + apply (map_nth_error (option_map (fun x => x + 1 - M)%Q) j _ Nt).
    + apply nanmax_spec in EM. destruct EM as [IM LM].
      assert (tf * norm mn mx cw <= M)%Q as L1 by (apply LM; eapply nth_error_In; exact Nt).
      assert (M <= tf * norm mn mx cw)%Q as L2.
      { unfold ncurve in IM. rewrite map_map in IM. apply in_map_iff in IM.
        destruct IM as [o [Eo Io]]. destruct o as [x|]; [|discriminate]. simpl in Eo.
        inversion Eo as [EM']. apply Best. exact Io. }
      lra.
  - exfalso. apply nth_error_In in Nt. destruct (nanmax_some _ _ Nt) as [M E]. congruence.
Qed.

Lemma possibility_length tf nc : length (possibility tf nc) = length nc.
Proof. unfold possibility. destruct (nanmax _); repeat rewrite map_length; reflexivity. Qed.

(* inf index <= winner <= sup index, indices in range *)
Lemma bounds_idx_bracket mn mx is_min thr c w :
  (mn < mx)%Q -> (thr <= 1)%Q -> wta is_min c = Some w ->
  exists lo hi, bounds_idx mn mx (type_factor is_min) thr c = Some (lo, hi)
                /\ 0 <= lo /\ lo <= w /\ w <= hi /\ hi < Z.of_nat (length c).
Proof.
  intros Hmn Hthr Hw.
  destruct (winner_possibility mn mx is_min c w Hmn Hw) as [j [p [Ew [Jl [Np P1]]]]].
  unfold bounds_idx.
  set (ps := possibility (type_factor is_min) (ncurve mn mx c)) in *.
  assert (In w (sel_from 0 thr ps)) as Iw.
  { apply sel_from_in. exists j, (Some p). repeat split; auto. simpl. apply Qle_bool_true. lra. }
  destruct (zmin_l_some _ _ Iw) as [lo Elo]. destruct (zmax_l_some _ _ Iw) as [hi Ehi].
  rewrite Elo, Ehi.
  apply zmin_l_spec in Elo. destruct Elo as [Ilo Llo]. apply zmax_l_spec in Ehi. destruct Ehi as [Ihi Lhi].
  specialize (Llo w Iw). specialize (Lhi w Iw).
  apply sel_from_in in Ilo. destruct Ilo as [jl [pl [El [Nl _]]]].
  apply sel_from_in in Ihi. destruct Ihi as [jh [ph [Eh [Nh _]]]].
  assert (jh < length c)%nat as Jh.
  { assert (length ps = length c) as Lp
      by (unfold ps; rewrite possibility_length; unfold ncurve; apply map_length).
    rewrite <- Lp. apply nth_error_Some. rewrite Nh. discriminate. }
  eexists _, _. split; [reflexivity|].
  destruct (is_one (znth_error ps lo)), (is_one (znth_error ps hi)); lia.
Qed.

Definition increasing (disps : list Q) : Prop :=
  forall i j a b, nth_error disps i = Some a -> nth_error disps j = Some b -> (i <= j)%nat -> (a <= b)%Q.

Lemma znth_error_nat {A : Type} (l : list A) i : 0 <= i -> znth_error l i = nth_error l (Z.to_nat i).
Proof. intro H. unfold znth_error. destruct (i <? 0) eqn:E; [apply Z.ltb_lt in E; lia|reflexivity]. Qed.

(* inf <= d_wta <= sup on the disparity axis *)
Lemma bounds_bracket_wta mn mx is_min thr disps c w :
  (mn < mx)%Q -> (thr <= 1)%Q -> length disps = length c -> increasing disps ->
  wta is_min c = Some w ->
  exists dinf dw dsup,
    bounds_pixel mn mx (type_factor is_min) thr disps c = (Some dinf, Some dsup)
    /\ znth_error disps w = Some dw /\ (dinf <= dw)%Q /\ (dw <= dsup)%Q.
Proof.
  intros Hmn Hthr Hlen Hinc Hw.
  destruct (bounds_idx_bracket mn mx is_min thr c w Hmn Hthr Hw) as [lo [hi [E [L0 [L1 [L2 L3]]]]]].
  unfold bounds_pixel. rewrite E.
  rewrite !znth_error_nat by lia.
  assert (forall i, 0 <= i < Z.of_nat (length c) -> exists d, nth_error disps (Z.to_nat i) = Some d) as Ex.
  { intros i Hi. destruct (nth_error disps (Z.to_nat i)) eqn:N; eauto.
    apply nth_error_None in N. lia. }
  destruct (Ex lo) as [dl El]; [lia|]. destruct (Ex w) as [dw Edw]; [lia|]. destruct (Ex hi) as [dh Eh]; [lia|].
  exists dl, dw, dh. rewrite El, Eh. repeat split; auto.
  - apply (Hinc _ _ _ _ El Edw). lia.
  - apply (Hinc _ _ _ _ Edw Eh). lia.
Qed.

(* ------------------------------------------------------------------ definitions (Spec) *)
From Pandora Require Import Spec.Confidence.

Lemma within_b_le_nan ref eta c : within_b ref eta c = le_nan c (ref + eta)%Q.
Proof. destruct c; reflexivity. Qed.

Lemma count_true_filter {A : Type} (f : A -> bool) l : count_true (map f l) = Z.of_nat (length (filter f l)).
Proof.
  induction l as [|a r IH]; [reflexivity|]. simpl. destruct (f a); simpl length; rewrite IH; lia.
Qed.

Lemma samp_amb_card ref nc eta : samp_amb ref nc eta = spec_card ref eta nc.
Proof.
  unfold samp_amb, spec_card. rewrite count_true_filter.
  rewrite (filter_ext _ (within_b ref eta)); [reflexivity|].
  intro c. symmetry. apply within_b_le_nan.
Qed.

Lemma amb_sum_spec ref etas nc : amb_sum ref etas nc = spec_amb ref etas nc.
Proof. unfold amb_sum. induction etas as [|e r IH]; simpl; [reflexivity|]. rewrite IH, samp_amb_card. reflexivity. Qed.

(* ambiguity_def: the kernel's flattened comparison is the count of the definition,
   the reference being the pixel's best (smallest) cost *)
Lemma ambiguity_def mn mx etas c :
  match nanmin c with
  | Some m => is_best_min c m /\
              amb_pixel mn mx etas c = spec_amb (norm mn mx m) etas (ncurve mn mx c)
  | None => (forall x, ~ In (Some x) c) /\
            amb_pixel mn mx etas c = Z.of_nat (length etas) * Z.of_nat (length c)
  end.
Proof.
  destruct (nanmin c) as [m|] eqn:E.
  - split; [apply nanmin_spec; exact E|]. rewrite (amb_pixel_def _ _ _ _ _ E). apply amb_sum_spec.
  - split; [|apply amb_pixel_allnan; exact E].
    intros x Hx. destruct (nanmin_some _ _ Hx) as [m Em]. congruence.
Qed.

(* for a similarity measure the kernels run on the opposite costs: their reference is the
   opposite of the pixel's LARGEST cost *)
Lemma orient_max_best (c : curve) m :
  nanmin (map (option_map Qopp) c) = Some m ->
  exists b, In (Some b) c /\ (m == - b)%Q /\ forall x, In (Some x) c -> (x <= b)%Q.
Proof.
  intro H. apply nanmin_spec in H. destruct H as [I L].
  apply in_map_iff in I. destruct I as [o [E I]]. destruct o as [b|]; [|discriminate].
  simpl in E. inversion E; subst m. exists b. split; [exact I|]. split; [lra|].
  intros x Hx. assert (In (Some (- x)%Q) (map (option_map Qopp) c)) as Ix.
  { apply (in_map (option_map Qopp) c (Some x)). exact Hx. }
  specialize (L _ Ix). lra.
Qed.

Lemma within_gt_nan ref eta c : within ref eta c <-> gt_nan c (ref + eta)%Q = false.
Proof.
  destruct c as [x|]; simpl; [|tauto]. unfold Qlt_bool. rewrite negb_false_iff. symmetry. apply Qle_bool_true.
Qed.

Lemma kept_from_in nc : forall k b i,
  In i (kept_from k b nc) <->
  exists j c, i = k + Z.of_nat j /\ nth_error nc j = Some c /\ gt_nan c b = false.
Proof.
  induction nc as [|p r IH]; intros k b i.
  - simpl. split; [intros []|]. intros [j [p [_ [H _]]]]. destruct j; discriminate.
  - simpl. split.
    + intro H. destruct (gt_nan p b) eqn:G.
      * apply IH in H. destruct H as [j [p' [E [N G']]]]. exists (S j), p'. simpl. repeat split; auto. lia.
      * destruct H as [H|H].
        -- exists 0%nat, p. simpl. repeat split; auto. lia.
        -- apply IH in H. destruct H as [j [p' [E [N G']]]]. exists (S j), p'. simpl. repeat split; auto. lia.
    + intros [j [p' [E [N G']]]]. destruct j as [|j].
      * simpl in N. inversion N; subst p'. rewrite G'. left. lia.
      * simpl in N. assert (In i (kept_from (k + 1) b r)) as H.
        { apply IH. exists j, p'. repeat split; auto. lia. }
        destruct (gt_nan p b); [|right]; exact H.
Qed.

Lemma kept_retained ref eta nc d : In d (kept_from 0 (ref + eta)%Q nc) <-> retained ref eta nc d.
Proof.
  rewrite kept_from_in. unfold retained. split; intros [j [c [E [N G]]]]; exists j, c; repeat split; auto;
    try lia; apply within_gt_nan; exact G.
Qed.

(* risk_def: per eta the kernel's nanmax - nanmin is the spread of the retained disparities
   and its sampled ambiguity is their number (the means over eta are written as such in the model) *)
Lemma risk_def ref eta nc :
  samp_amb ref nc eta = spec_card ref eta nc /\
  match spread (kept_from 0 (ref + eta)%Q nc) with
  | Some s => spec_spread ref eta nc s
  | None => forall d, ~ retained ref eta nc d
  end.
Proof.
  split; [apply samp_amb_card|]. unfold spread.
  destruct (zmin_l (kept_from 0 (ref + eta)%Q nc)) as [lo|] eqn:Elo.
  - destruct (zmax_l (kept_from 0 (ref + eta)%Q nc)) as [hi|] eqn:Ehi.
    + apply zmin_l_spec in Elo. apply zmax_l_spec in Ehi. destruct Elo as [I1 L1], Ehi as [I2 L2].
      exists lo, hi. repeat split; auto.
      * apply kept_retained; auto.
      * intros d Hd. apply L1. apply kept_retained; auto.
      * apply kept_retained; auto.
      * intros d Hd. apply L2. apply kept_retained; auto.
    + apply zmax_l_none in Ehi. rewrite Ehi in Elo. discriminate.
  - apply zmin_l_none in Elo. intros d Hd. apply kept_retained in Hd. rewrite Elo in Hd. destruct Hd.
Qed.

(* bounds_def: possibility formula *)
Lemma possibility_def mn mx (is_min : bool) (c : curve) j x :
  (mn < mx)%Q -> nth_error c j = Some (Some x) ->
  exists best p,
    (if is_min then is_best_min c best else In (Some best) c /\ forall y, In (Some y) c -> (y <= best)%Q)
    /\ nth_error (possibility (type_factor is_min) (ncurve mn mx c)) j = Some (Some p)
    /\ (p == 1 - (if is_min then norm mn mx x - norm mn mx best else norm mn mx best - norm mn mx x))%Q.
Proof.
  intros Hmn N.
  assert (In (Some x) c) as Ix by (eapply nth_error_In; exact N).
  destruct (wta_some is_min c x Ix) as [w Hw].
  set (tf := type_factor is_min).
  assert (nth_error (map (option_map (Qmult tf)) (ncurve mn mx c)) j = Some (Some (tf * norm mn mx x)%Q)) as Nt.
  { unfold ncurve. rewrite map_map. apply (map_nth_error (fun x => option_map (Qmult tf) (option_map (norm mn mx) x)) j c N). }
  assert (exists best, (if is_min then is_best_min c best
                        else In (Some best) c /\ forall y, In (Some y) c -> (y <= best)%Q)) as [best Hb].
  { destruct is_min.
    - destruct (nanmin_some _ _ Ix) as [m E]. exists m. apply nanmin_spec. exact E.
    - destruct (nanmax_some _ _ Ix) as [m E]. exists m. apply nanmax_spec. exact E. }
  unfold possibility. fold tf.
  destruct (nanmax (map (option_map (Qmult tf)) (ncurve mn mx c))) as [M|] eqn:EM.
  2:{ exfalso. apply nth_error_In in Nt. destruct (nanmax_some _ _ Nt) as [M E]. congruence. }
  exists best, (tf * norm mn mx x + 1 - M)%Q. split; [exact Hb|]. split.
  - apply (map_nth_error (option_map (fun x => x + 1 - M)%Q) j _ Nt).
  - apply nanmax_spec in EM. destruct EM as [IM LM].
    unfold ncurve in IM, LM. rewrite map_map in IM, LM.
    apply in_map_iff in IM. destruct IM as [o [Eo Io]]. destruct o as [x0|]; [|discriminate].
    simpl in Eo. inversion Eo as [EM']. clear Eo.
    assert (In (Some (tf * norm mn mx best)%Q)
               (map (fun x => option_map (Qmult tf) (option_map (norm mn mx) x)) c)) as Ib.
    { destruct is_min; [destruct Hb as [Hb _]|destruct Hb as [Hb _]];
        apply (in_map (fun x => option_map (Qmult tf) (option_map (norm mn mx) x)) c (Some best)); exact Hb. }
    specialize (LM _ Ib). subst tf. rewrite <- EM' in LM.
    destruct is_min; simpl in *.
    + destruct Hb as [_ Lb]. pose proof (norm_mono mn mx best x0 Hmn (Lb x0 Io)). lra.
    + destruct Hb as [_ Lb]. pose proof (norm_mono mn mx x0 best Hmn (Lb x0 Io)). lra.
Qed.

Lemma sel_selected thr ps d : In d (sel_from 0 thr ps) <-> selected thr ps d.
Proof.
  rewrite sel_from_in. unfold selected. split.
  - intros [j [p [E [N G]]]]. destruct p as [p|]; [|discriminate]. exists j, p. repeat split; auto; try lia.
    apply Qle_bool_true. exact G.
  - intros [j [p [E [N G]]]]. exists j, (Some p). repeat split; auto; try lia. apply Qle_bool_true. exact G.
Qed.

(* bounds_def: the indices are the extreme selected disparities, each moved by one sample
   (inside the axis) when its possibility is 1 *)
Lemma bounds_def mn mx tf thr c :
  let ps := possibility tf (ncurve mn mx c) in
  match bounds_idx mn mx tf thr c with
  | Some (lo', hi') =>
    exists lo hi, least (selected thr ps) lo /\ greatest (selected thr ps) hi
      /\ lo' = (if is_one (znth_error ps lo) then Z.max 0 (lo - 1) else lo)
      /\ hi' = (if is_one (znth_error ps hi) then Z.min (Z.of_nat (length c) - 1) (hi + 1) else hi)
  | None => forall d, ~ selected thr ps d
  end.
Proof.
  intro ps. unfold bounds_idx. fold ps.
  destruct (zmin_l (sel_from 0 thr ps)) as [lo|] eqn:Elo.
  - destruct (zmax_l (sel_from 0 thr ps)) as [hi|] eqn:Ehi.
    + apply zmin_l_spec in Elo. apply zmax_l_spec in Ehi. destruct Elo as [I1 L1], Ehi as [I2 L2].
      exists lo, hi. repeat split; auto.
      * apply sel_selected; auto.
      * intros d Hd. apply L1. apply sel_selected; auto.
      * apply sel_selected; auto.
      * intros d Hd. apply L2. apply sel_selected; auto.
    + apply zmax_l_none in Ehi. rewrite Ehi in Elo. discriminate.
  - apply zmin_l_none in Elo. intros d Hd. apply sel_selected in Hd. rewrite Elo in Hd. destruct Hd.
Qed.

Lemma is_one_spec ps d : is_one (znth_error ps d) = true <-> exists p, znth_error ps d = Some (Some p) /\ (p == 1)%Q.
Proof.
  unfold is_one. destruct (znth_error ps d) as [[p|]|].
  - rewrite Qeq_bool_iff. split; [eauto|]. intros [q [E H]]. inversion E; subst; auto.
  - split; [discriminate|]. intros [q [E _]]. discriminate.
  - split; [discriminate|]. intros [q [E _]]. discriminate.
Qed.

(* ------------------------------------------------------------------ volume span *)

Lemma vol_span_pos (v : volume) a b :
  In (Some a) (concat (concat v)) -> In (Some b) (concat (concat v)) -> ~ (a == b)%Q ->
  exists mn mx, vol_min v = Some mn /\ vol_max v = Some mx /\ (mn < mx)%Q /\ Qeq_bool mn mx = false.
Proof.
  intros Ia Ib Ne. unfold vol_min, vol_max.
  destruct (nanmin_some _ _ Ia) as [mn Emn]. destruct (nanmax_some _ _ Ia) as [mx Emx].
  exists mn, mx. repeat split; auto.
  - apply nanmin_spec in Emn. apply nanmax_spec in Emx. destruct Emn as [_ L1], Emx as [_ L2].
    pose proof (L1 a Ia). pose proof (L1 b Ib). pose proof (L2 a Ia). pose proof (L2 b Ib).
    destruct (Qlt_le_dec mn mx); auto. exfalso. apply Ne. lra.
  - destruct (Qeq_bool mn mx) eqn:E; auto. apply Qeq_bool_iff in E.
    apply nanmin_spec in Emn. apply nanmax_spec in Emx. destruct Emn as [_ L1], Emx as [_ L2].
    pose proof (L1 a Ia). pose proof (L1 b Ib). pose proof (L2 a Ia). pose proof (L2 b Ib).
    exfalso. apply Ne. lra.
Qed.

(* on a volume with two distinct finite costs every map is the pixel kernel applied everywhere *)
Lemma maps_are_pixelwise (v : volume) a b etas tf thr disps :
  In (Some a) (concat (concat v)) -> In (Some b) (concat (concat v)) -> ~ (a == b)%Q ->
  exists mn mx, vol_min v = Some mn /\ vol_max v = Some mx /\ (mn < mx)%Q
    /\ amb_map etas v = map (map (amb_pixel mn mx etas)) v
    /\ risk_map etas v = map (map (risk_pixel mn mx etas)) v
    /\ bounds_map tf thr disps v = map (map (bounds_pixel mn mx tf thr disps)) v.
Proof.
  intros Ia Ib Ne. destruct (vol_span_pos v a b Ia Ib Ne) as [mn [mx [E1 [E2 [L E]]]]].
  exists mn, mx. unfold amb_map, risk_map, bounds_map. rewrite E1, E2, E. repeat split; auto.
Qed.

(* ------------------------------------------------------------------ band bookkeeping *)

Section BandsP.
  Variable B : Type.
  Definition pref (l : list (name * B)) : list (name * B) :=
    map (fun nb => (codes "confidence_from_" ++ fst nb, snd nb)) l.
  Definition alloc_all (l : list (name * B)) (st : dsbands B * dsbands B) :=
    fold_left (fun s nb => alloc (fst nb) (snd nb) s) l st.

  Lemma alloc_all_spec l : forall disp cv,
    alloc_all l (disp, cv) =
    (match disp with
     | None => None
     | Some (Some b) => Some (Some (b ++ pref l))
     | Some None =>
       match l with
       | [] => Some None
       | _ => match cv with
              | Some (Some cb) => Some (Some (cb ++ pref l))
              | _ => Some (Some (pref l))
              end
       end
     end,
     match cv with
     | None => None
     | Some (Some b) => Some (Some (b ++ pref l))
     | Some None => match l with [] => Some None | _ => Some (Some (pref l)) end
     end).
  Proof.
    induction l as [|nb r IH]; intros disp cv.
    - simpl. destruct disp as [[b|]|], cv as [[cb|]|]; rewrite ?app_nil_r; reflexivity.
    - unfold alloc_all in *. cbn [fold_left]. unfold alloc at 2.
      destruct disp as [[b|]|], cv as [[cb|]|]; rewrite IH; cbn [pref map];
        rewrite <- ?app_assoc; cbn [app]; try reflexivity; destruct r; reflexivity.
  Qed.
End BandsP.
Arguments pref {B}.
Arguments alloc_all {B}.

(* bands_append_only: a confidence step appends its own named bands, in call order, to the
   cost volume dataset (and to a disparity dataset that has bands; one without bands adopts the
   cost volume's); every existing band keeps its name, value and position *)
Lemma bands_append_only {B : Type} step m (news : list B) disp cv :
  let added := pref (combine (method_names m (suffix_of_step step)) news) in
  conf_step step m news (Some (Some disp), Some (Some cv)) = (Some (Some (disp ++ added)), Some (Some (cv ++ added)))
  /\ conf_step step m news (None, Some (Some cv)) = (None, Some (Some (cv ++ added)))
  /\ (news <> [] ->
      conf_step step m news (None, Some None) = (None, Some (Some added))
      /\ conf_step step m news (Some None, Some (Some cv)) = (Some (Some (cv ++ added)), Some (Some (cv ++ added)))
      /\ conf_step step m news (Some None, Some None) = (Some (Some added), Some (Some added))
      /\ conf_step step m news (Some (Some disp), Some None) = (Some (Some (disp ++ added)), Some (Some added))).
Proof.
  intro added.
  assert (forall st, conf_step step m news st
                     = alloc_all (combine (method_names m (suffix_of_step step)) news) st) as E by reflexivity.
  rewrite !E. clear E.
  repeat split; try (rewrite alloc_all_spec; reflexivity);
    rewrite alloc_all_spec; subst added;
    destruct m, news; simpl; try reflexivity; congruence.
Qed.

Lemma method_names_spec m suf :
  method_names m suf =
  match m with
  | Amb => [codes "ambiguity" ++ suf]
  | Risk => [codes "risk_max" ++ suf; codes "risk_min" ++ suf]
  | Bounds => [codes "interval_bounds_inf" ++ suf; codes "interval_bounds_sup" ++ suf]
  | Std => [codes "intensity_std" ++ suf]
  end.
Proof. reflexivity. Qed.

(* suffix rule: "." + second component when the name has exactly two components *)
Lemma split_dot_nodot l : (forall x, In x l -> x <> 46) -> split_dot l = [l].
Proof.
  induction l as [|x r IH]; intro H; [reflexivity|]. simpl.
  destruct (x =? 46) eqn:E; [apply Z.eqb_eq in E; exfalso; apply (H x); simpl; auto|].
  rewrite IH; [reflexivity|]. intros y Hy. apply H. right. exact Hy.
Qed.
Lemma split_dot_app a b : (forall x, In x a -> x <> 46) -> split_dot (a ++ 46 :: b) = a :: split_dot b.
Proof.
  induction a as [|x r IH]; intro H; [reflexivity|]. simpl.
  destruct (x =? 46) eqn:E; [apply Z.eqb_eq in E; exfalso; apply (H x); simpl; auto|].
  rewrite IH; [reflexivity|]. intros y Hy. apply H. right. exact Hy.
Qed.
Lemma suffix_rule kind s t :
  (forall x, In x kind -> x <> 46) -> (forall x, In x s -> x <> 46) -> (forall x, In x t -> x <> 46) ->
  suffix_of_step kind = [] /\ suffix_of_step (kind ++ 46 :: s) = 46 :: s
  /\ suffix_of_step (kind ++ 46 :: s ++ 46 :: t) = [].
Proof.
  intros Hk Hs Ht. unfold suffix_of_step. repeat split.
  - rewrite split_dot_nodot; auto.
  - rewrite split_dot_app, split_dot_nodot; auto.
  - rewrite split_dot_app, split_dot_app, split_dot_nodot; auto.
Qed.

(* ------------------------------------------------------------------ transparency (abstract steps) *)

Section Transparent.
  (* Core: what the later steps compute from (images, cost volume, disparity map, validity mask);
     Conf: the confidence bands of both datasets *)
  Variables Core Conf : Type.
  Inductive pstep :=
  | ConfStep (g : Core -> Conf -> Conf)                          (* reads everything, writes bands only *)
  | OtherStep (f : Core -> Core) (h : Core -> Conf -> Conf).     (* core result independent of the bands *)
  Definition exec1 (st : Core * Conf) (s : pstep) : Core * Conf :=
    match s with
    | ConfStep g => (fst st, g (fst st) (snd st))
    | OtherStep f h => (f (fst st), h (fst st) (snd st))
    end.
  Definition exec (p : list pstep) (st : Core * Conf) : Core * Conf := fold_left exec1 p st.
  Definition not_conf (s : pstep) : bool := match s with ConfStep _ => false | OtherStep _ _ => true end.

  Lemma confidence_steps_transparent p : forall c b b',
    fst (exec p (c, b)) = fst (exec (filter not_conf p) (c, b')).
  Proof.
    induction p as [|s r IH]; intros c b b'; [reflexivity|].
    destruct s as [g|f h]; simpl.
    - apply IH.
    - apply IH.
  Qed.
End Transparent.

(* ------------------------------------------------------------------ sorting and quantiles 0 / 1 *)

Fixpoint ssorted (l : list Q) : Prop :=
  match l with [] => True | x :: r => (forall y, In y r -> (x <= y)%Q) /\ ssorted r end.

Lemma qinsert_in x l y : In y (qinsert x l) <-> y = x \/ In y l.
Proof.
  induction l as [|z r IH]; simpl; [intuition|].
  destruct (Qle_bool x z); simpl; [intuition|]. rewrite IH. intuition.
Qed.
Lemma qinsert_sorted x l : ssorted l -> ssorted (qinsert x l).
Proof.
  induction l as [|z r IH]; intro S; simpl; [split; [intros y []|exact I]|].
  destruct S as [Sz Sr]. destruct (Qle_bool x z) eqn:E.
  - apply Qle_bool_true in E. split; [|split; assumption].
    intros y [Hy|Hy]; [subst; exact E|]. specialize (Sz y Hy). lra.
  - apply Qle_bool_false in E. split; [|apply IH; exact Sr].
    intros y Hy. apply qinsert_in in Hy. destruct Hy as [Hy|Hy]; [subst; lra|auto].
Qed.
Lemma qsort_sorted l : ssorted (qsort l).
Proof. induction l; simpl; [exact I|]. apply qinsert_sorted. assumption. Qed.
Lemma qsort_in l y : In y (qsort l) <-> In y l.
Proof. induction l as [|x r IH]; simpl; [tauto|]. rewrite qinsert_in, IH. intuition. Qed.

Lemma ssorted_last l d y : ssorted l -> In y l -> (y <= nth (length l - 1) l d)%Q.
Proof.
  induction l as [|x r IH]; intros S H; [destruct H|].
  destruct S as [Sx Sr]. destruct r as [|z r'].
  - destruct H as [H|[]]. subst. simpl. lra.
  - set (k := (length (z :: r') - 1)%nat) in *.
    replace (length (x :: z :: r') - 1)%nat with (S k) by (unfold k; simpl; lia).
    change (nth (S k) (x :: z :: r') d) with (nth k (z :: r') d).
    destruct H as [H|H].
    + subst y. apply Sx. apply nth_In. unfold k. simpl. lia.
    + apply IH; auto.
Qed.

Lemma quantile_sorted_0 s q x : ssorted s -> (q == 0)%Q -> In x s ->
  exists y, quantile_sorted s q = Some y /\ (y <= x)%Q.
Proof.
  intros S Hq Hx. destruct s as [|x0 r]; [destruct Hx|]. unfold quantile_sorted.
  set (n := Z.of_nat (length (x0 :: r))).
  assert (q * inject_Z (n - 1) == 0)%Q as P by (rewrite Hq; ring).
  assert (Qfloor (q * inject_Z (n - 1)) = 0) as F by (rewrite P; reflexivity).
  rewrite F. eexists. split; [reflexivity|].
  change (nth (Z.to_nat 0) (x0 :: r) x0) with x0.
  destruct S as [S0 _]. assert (x0 <= x)%Q as L by (destruct Hx as [Hx|Hx]; [subst; lra|auto]).
  rewrite P. simpl inject_Z. set (b := nth _ _ _). 
  assert (x0 + (b - x0) * (0 - 0) == x0)%Q as E by ring. rewrite E. exact L.
Qed.

Lemma quantile_sorted_1 s q x : ssorted s -> (q == 1)%Q -> In x s ->
  exists y, quantile_sorted s q = Some y /\ (x <= y)%Q.
Proof.
  intros S Hq Hx. destruct s as [|x0 r]; [destruct Hx|]. unfold quantile_sorted.
  set (s := x0 :: r) in *. set (n := Z.of_nat (length s)).
  assert (q * inject_Z (n - 1) == inject_Z (n - 1))%Q as P by (rewrite Hq; ring).
  assert (Qfloor (q * inject_Z (n - 1)) = n - 1) as F by (rewrite P; apply Qfloor_Z).
  rewrite F. eexists. split; [reflexivity|].
  replace (Z.to_nat (n - 1)) with (length s - 1)%nat by (unfold n; lia).
  pose proof (ssorted_last s x0 x S Hx) as L.
  rewrite P. set (a := nth (length s - 1) s x0) in *. set (b := nth _ s x0).
  assert (a + (b - a) * (inject_Z (n - 1) - inject_Z (n - 1)) == a)%Q as E by ring. rewrite E. exact L.
Qed.

Lemma finite_in l x : In x (finite l) <-> In (Some x) l.
Proof.
  induction l as [|a r IH]; simpl; [tauto|]. destruct a as [y|]; simpl; rewrite IH.
  - split; [intros [H|H]; [left; congruence|auto]|intros [H|H]; [left; congruence|auto]].
  - split; [auto|intros [H|H]; [discriminate|auto]].
Qed.

Lemma nanquantile_0 l q x : (q == 0)%Q -> In (Some x) l -> exists y, nanquantile l q = Some y /\ (y <= x)%Q.
Proof. intros Hq H. apply quantile_sorted_0; auto; [apply qsort_sorted|apply qsort_in, finite_in; exact H]. Qed.
Lemma nanquantile_1 l q x : (q == 1)%Q -> In (Some x) l -> exists y, nanquantile l q = Some y /\ (x <= y)%Q.
Proof. intros Hq H. apply quantile_sorted_1; auto; [apply qsort_sorted|apply qsort_in, finite_in; exact H]. Qed.

(* ------------------------------------------------------------------ regularisation, quantile 1 *)

Definition cell {A : Type} (m : list (list A)) (r c : nat) : option A :=
  match nth_error m r with Some row => nth_error row c | None => None end.

Lemma nth_error_enumerate {A : Type} (l : list A) : forall i j,
  nth_error (enumerate i l) j = option_map (fun x => ((i + j)%nat, x)) (nth_error l j).
Proof.
  induction l as [|x r IH]; intros i j; [destruct j; reflexivity|].
  destruct j as [|j]; simpl; [rewrite Nat.add_0_r; reflexivity|]. rewrite IH. rewrite Nat.add_succ_r. reflexivity.
Qed.

Lemma nth_error_map' {A B : Type} (f : A -> B) l j : nth_error (map f l) j = option_map f (nth_error l j).
Proof. revert j. induction l; intros [|j]; simpl; auto. Qed.

Lemma cell_apply_updates ups pick m r c :
  cell (apply_updates ups pick m) r c =
  option_map (fun old => match find (fun u => in_seg (Z.of_nat r) (Z.of_nat c) (fst u)) ups with
                         | Some u => pick (snd u) | None => old end) (cell m r c).
Proof.
  unfold cell, apply_updates. rewrite nth_error_map', nth_error_enumerate.
  destruct (nth_error m r) as [row|]; [|reflexivity]. cbn [option_map fst snd].
  rewrite nth_error_map', nth_error_enumerate. destruct (nth_error row c); reflexivity.
Qed.

Lemma expand_length ss lines : length lines = length ss -> length (expand ss lines) = length ss.
Proof.
  unfold expand. revert lines. induction ss as [|s r IH]; intros [|b l] H; simpl in *; try lia.
  f_equal. assert (forall (f : seg -> bool -> bool) (la : list seg) (lb : list bool),
                     length la = length lb -> length (map2 f la lb) = length la) as M.
  { intros f la. induction la; intros [|? ?] ?; simpl in *; try lia. f_equal. auto. }
  apply M. lia.
Qed.
Lemma iter_expand_length ss n lines : length lines = length ss -> length (Nat.iter n (expand ss) lines) = length ss.
Proof. intro H. induction n; simpl; [exact H|]. apply expand_length. exact IHn. Qed.

Lemma set_nth_true_spec l i : (i < length l)%nat ->
  nth_error (set_nth_true i l) i = Some true /\ length (set_nth_true i l) = length l.
Proof.
  revert i. induction l as [|b r IH]; intros i H; simpl in H; [lia|].
  destruct i as [|i]; simpl; [auto|]. destruct (IH i) as [A B]; [lia|]. rewrite B. auto.
Qed.

Lemma agg_row_self ss depth i a : nth_error ss i = Some a ->
  nth_error (agg_row ss depth i a) i = Some true /\ length (agg_row ss depth i a) = length ss.
Proof.
  intro N. assert (i < length ss)%nat as L by (apply nth_error_Some; congruence).
  unfold agg_row. destruct (depth =? 0).
  - destruct (set_nth_true_spec (map (fun _ => false) ss) i) as [A B]; [rewrite map_length; exact L|].
    rewrite map_length in B. auto.
  - assert (length (Nat.iter (Z.to_nat (depth - 1)) (expand ss) (conn_row ss a)) = length ss) as Len
      by (apply iter_expand_length; unfold conn_row; apply map_length).
    destruct (set_nth_true_spec _ i (eq_ind_r (fun n => (i < n)%nat) L Len)) as [A B].
    rewrite B. auto.
Qed.

Lemma nth_error_combine {A B : Type} (la : list A) (lb : list B) i a b :
  nth_error la i = Some a -> nth_error lb i = Some b -> nth_error (combine la lb) i = Some (a, b).
Proof.
  revert lb i. induction la as [|x r IH]; intros [|y lb] [|i] Ha Hb; simpl in *; try discriminate.
  - congruence.
  - auto.
Qed.

Lemma members_self ss depth i a : nth_error ss i = Some a -> In a (members ss (agg_row ss depth i a)).
Proof.
  intro N. destruct (agg_row_self ss depth i a N) as [T _].
  unfold members. apply in_map_iff. exists (true, a). split; [reflexivity|].
  apply filter_In. split; [|reflexivity]. eapply nth_error_In. apply nth_error_combine; eauto.
Qed.

Lemma nth_error_slice {A : Type} (row : list A) l r c x :
  nth_error row c = Some x -> l <= Z.of_nat c <= r -> In x (slice l r row).
Proof.
  intros N H. unfold slice.
  assert (forall (k : nat) (ll : list A) j, nth_error (skipn k ll) j = nth_error ll (k + j)) as SK.
  { induction k; intros [|y ll] j; simpl; auto. destruct j; reflexivity. }
  assert (forall (n : nat) (ll : list A) j y, (j < n)%nat -> nth_error ll j = Some y -> In y (firstn n ll)) as FN.
  { induction n; intros [|z ll] j y Hj Hn; simpl; try lia; try (destruct j; discriminate).
    destruct j; simpl in Hn; [left; congruence|right; apply (IHn ll j); auto; lia]. }
  apply (FN _ _ (c - Z.to_nat l)%nat); [lia|]. rewrite SK. rewrite <- N. f_equal. lia.
Qed.

Lemma seg_values_in {A : Type} (m : list (list A)) s r c x :
  in_seg (Z.of_nat r) (Z.of_nat c) s = true -> cell m r c = Some x ->
  In x (slice (sg_l s) (sg_r s) (nth (Z.to_nat (sg_row s)) m [])).
Proof.
  unfold in_seg, cell. intros H C.
  apply andb_true_iff in H. destruct H as [H H3]. apply andb_true_iff in H. destruct H as [H1 H2].
  apply Z.eqb_eq in H1. apply Z.leb_le in H2, H3. rewrite H1, Nat2Z.id.
  destruct (nth_error m r) as [row|] eqn:E; [|discriminate].
  rewrite (nth_error_nth _ _ _ E). apply (nth_error_slice row _ _ c); auto.
Qed.

Definition regularisation_q1_widens_stmt : Prop :=
  forall inf sup amb thr k depth q r c,
    (q == 1)%Q ->
    let res := regularize inf sup amb thr k depth q in
    (forall x, cell inf r c = Some (Some x) -> exists y, cell (fst res) r c = Some (Some y) /\ (y <= x)%Q)
    /\ (forall x, cell sup r c = Some (Some x) -> exists y, cell (snd res) r c = Some (Some y) /\ (x <= y)%Q).

Lemma regularisation_q1_widens : regularisation_q1_widens_stmt.
Proof.
  intros inf sup amb thr k depth q r c Hq res. subst res. unfold regularize. cbn [fst snd].
  set (ss := segments amb thr k). set (ups := seg_updates inf sup ss depth q).
  assert (forall u, In u ups -> exists i, nth_error ss i = Some (fst u) /\
            snd u = (nanquantile (flat_map (seg_values inf) (members ss (agg_row ss depth i (fst u)))) (1 - q)%Q,
                     nanquantile (flat_map (seg_values sup) (members ss (agg_row ss depth i (fst u)))) q)) as U.
  { intros u Hu. unfold ups, seg_updates in Hu. apply in_map_iff in Hu. destruct Hu as [[i a] [E I]].
    apply In_nth_error in I. destruct I as [j I]. rewrite nth_error_enumerate in I.
    destruct (nth_error ss j) as [s0|] eqn:N; [|discriminate]. simpl in I. injection I as Ei Ea.
    exists j. subst i a. rewrite <- E. cbn [fst snd]. split; [exact N|reflexivity]. }
  split; intros x C; rewrite cell_apply_updates, C; cbn [option_map].
  - destruct (find (fun u => in_seg (Z.of_nat r) (Z.of_nat c) (fst u)) ups) as [u|] eqn:F.
    + apply find_some in F. destruct F as [Iu S]. destruct (U u Iu) as [i [N Eu]]. rewrite Eu. cbn [fst].
      destruct (nanquantile_0 (flat_map (seg_values inf) (members ss (agg_row ss depth i (fst u)))) (1 - q)%Q x)
        as [y [Ey Ly]]; [rewrite Hq; ring| |rewrite Ey; eauto].
      apply in_flat_map. exists (fst u). split; [apply members_self; exact N|].
      unfold seg_values. apply (seg_values_in inf (fst u) r c); auto.
    + exists x. split; [reflexivity|lra].
  - destruct (find (fun u => in_seg (Z.of_nat r) (Z.of_nat c) (fst u)) ups) as [u|] eqn:F.
    + apply find_some in F. destruct F as [Iu S]. destruct (U u Iu) as [i [N Eu]]. rewrite Eu. cbn [snd].
      destruct (nanquantile_1 (flat_map (seg_values sup) (members ss (agg_row ss depth i (fst u)))) q x)
        as [y [Ey Ly]]; [exact Hq| |rewrite Ey; eauto].
      apply in_flat_map. exists (fst u). split; [apply members_self; exact N|].
      unfold seg_values. apply (seg_values_in sup (fst u) r c); auto.
    + exists x. split; [reflexivity|lra].
Qed.

(* ------------------------------------------------------------------ std intensity: window sums
   by cumulative sums (1-D pass of compute_mean_raster) are the direct window sums *)

(* [qsum] is defined in Spec/Confidence.v *)

Lemma cumsum_nth l : forall acc i, (i <= length l)%nat ->
  exists y, nth_error (acc :: cumsum_from acc l) i = Some y /\ (y == acc + qsum (firstn i l))%Q.
Proof.
  induction l as [|x r IH]; intros acc i H.
  - simpl in H. assert (i = 0)%nat by lia. subst. exists acc. split; [reflexivity|simpl; ring].
  - destruct i as [|i].
    + exists acc. split; [reflexivity|simpl; ring].
    + simpl in H. destruct (IH (acc + x)%Q i) as [y [N E]]; [lia|].
      exists y. split; [exact N|]. rewrite E. simpl. ring.
Qed.

Lemma qsum_firstn_split l : forall i w,
  (qsum (firstn (i + w) l) == qsum (firstn i l) + qsum (firstn w (skipn i l)))%Q.
Proof.
  induction l as [|x r IH]; intros i w.
  - rewrite !firstn_nil, skipn_nil, firstn_nil. simpl. ring.
  - destruct i as [|i]; [simpl; ring|]. simpl. rewrite IH. ring.
Qed.

Lemma nth_error_map2 {A B C : Type} (f : A -> B -> C) la : forall lb i a b,
  nth_error la i = Some a -> nth_error lb i = Some b -> nth_error (map2 f la lb) i = Some (f a b).
Proof.
  induction la as [|x r IH]; intros [|y lb] [|i] a b Ha Hb; simpl in *; try discriminate.
  - congruence.
  - auto.
Qed.

Lemma nth_error_skipn' {A : Type} : forall (k : nat) (ll : list A) j, nth_error (skipn k ll) j = nth_error ll (k + j).
Proof. induction k; intros [|y ll] j; simpl; auto. destruct j; reflexivity. Qed.

Definition std_def_1d_stmt : Prop :=
  forall w l i, (i + w <= length l)%nat ->
    exists y, nth_error (winsum w l) i = Some y /\ (y == qsum (firstn w (skipn i l)))%Q.

Lemma std_def_1d : std_def_1d_stmt.
Proof.
  intros w l i H. unfold winsum.
  destruct (cumsum_nth l 0%Q (w + i)) as [a [Na Ea]]; [lia|].
  destruct (cumsum_nth l 0%Q i) as [b [Nb Eb]]; [lia|].
  exists (a - b)%Q. split.
  - apply nth_error_map2; [rewrite nth_error_skipn'; exact Na|exact Nb].
  - rewrite Ea, Eb. replace (w + i)%nat with (i + w)%nat by lia. rewrite qsum_firstn_split. ring.
Qed.
