(* C09 -- "within its own per-pixel interval right after the disparity and refinement steps".
   The disparity step gives a pixel a SAMPLE of the axis inside its own [gmin, gmax]
   (C09_wta_within_interval).  The refinement kernel (C06's model, Model/Refine.v loop_pixel) applied to
   such a pixel, reading the pixel's row of the masked cost volume of C02's model: the refined disparity
   stays inside [gmin, gmax].  Reason: a pixel moves only when both neighbouring samples have a numeric
   cost (C06, pixel_moved_costed), the costs outside the pixel's own interval are NaN (mvolume_outside_is_nan),
   and it moves by at most half a sample (C06, pixel_props). *)
From Coq Require Import ZArith QArith Qabs Qround List Bool Lia ZifyBool Lqa.
From Pandora Require Import Lib.Ext Model.MatchingCost Model.Interval Proofs.MatchingCostP Proofs.IntervalP.
From Pandora Require Model.CrossCheck.
From Pandora Require Import Model.IntervalPipeline Proofs.IntervalPipelineP.
From Pandora Require Import Model.Refine Spec.Refine Proofs.RefineP.
Import ListNotations.
Open Scope Z_scope.

Lemma cost_row_length : forall val m inp dmin dmax r c,
  length (cost_row val m inp dmin dmax r c) = Z.to_nat (nb_disp (i_s inp) dmin dmax).
Proof. intros. unfold cost_row, zrange. now rewrite map_length, range_length. Qed.

Lemma cost_row_at : forall val m inp dmin dmax r c i x,
  cost_at (cost_row val m inp dmin dmax r c) i = Some x ->
  0 <= i < nb_disp (i_s inp) dmin dmax /\ mvolume m inp dmin dmax r c i <> None.
Proof.
  intros val m inp dmin dmax r c i x H. unfold cost_at in H. rewrite cost_row_length in H.
  destruct ((0 <=? i) && (i <? Z.of_nat (Z.to_nat (nb_disp (i_s inp) dmin dmax)))) eqn:E; [|discriminate].
  assert (Hi : 0 <= i < nb_disp (i_s inp) dmin dmax) by lia. split; [exact Hi|].
  assert (N : nth_error (cost_row val m inp dmin dmax r c) (Z.to_nat i)
              = Some (omap val (mvolume m inp dmin dmax r c i))).
  { unfold cost_row, zrange. rewrite nth_error_map, nth_error_range by lia. cbn. do 3 f_equal. lia. }
  apply (nth_error_nth _ _ None) in N. rewrite N in H.
  intro E0. rewrite E0 in H. discriminate H.
Qed.

(* a numeric cost at sample i: the sample is inside the pixel's own interval *)
Lemma costed_in_pixel_interval : forall val m inp dmin dmax r c i x,
  cost_at (cost_row val m inp dmin dmax r c) i = Some x ->
  i_gmin inp r c * i_s inp <= disp_scaled (i_s inp) dmin i <= i_gmax inp r c * i_s inp.
Proof.
  intros val m inp dmin dmax r c i x H. destruct (cost_row_at _ _ _ _ _ _ _ _ _ H) as [Hi Hn].
  destruct (in_pixel_interval (i_s inp) (i_gmin inp) (i_gmax inp) r c (disp_scaled (i_s inp) dmin i)) eqn:E.
  - unfold in_pixel_interval in E. lia.
  - exfalso. apply Hn. apply mvolume_outside_is_nan; assumption.
Qed.

Lemma sample_q_scaled : forall s dmin k, 0 < s ->
  (sample_q s dmin k * inject_Z s == inject_Z (disp_scaled s dmin k))%Q.
Proof.
  intros s dmin k Hs. unfold sample_q, Qeq, Qmult, inject_Z. cbn [Qnum Qden].
  rewrite Pos.mul_1_r, Z2Pos.id by lia. ring.
Qed.

Theorem refined_within_pixel_interval : forall val m inp dmin dmax me mm r c k mask res,
  0 < i_s inp -> dmin <= dmax -> 0 <= k < nb_disp (i_s inp) dmin dmax ->
  i_gmin inp r c * i_s inp <= disp_scaled (i_s inp) dmin k <= i_gmax inp r c * i_s inp ->
  Z.land mask CrossCheck.MSK_INVALID = 0 ->
  loop_pixel KK me mm (inject_Z dmin) (inject_Z dmax) (i_s inp) (cost_row val m inp dmin dmax r c)
             (Some (sample_q (i_s inp) dmin k)) mask = res ->
  exists d' c' mask', res = POk (Some d') c' mask'
    /\ (inject_Z (i_gmin inp r c) <= d' /\ d' <= inject_Z (i_gmax inp r c))%Q
    /\ (inject_Z dmin <= d' /\ d' <= inject_Z dmax)%Q
    /\ (Qabs (d' - sample_q (i_s inp) dmin k) * inject_Z (i_s inp) <= 1 # 2)%Q.
Proof.
  intros val m inp dmin dmax me mm r c k mask res Hs Hd Hk Hg V R.
  set (s := i_s inp) in *. set (d := sample_q s dmin k) in *. set (cv := cost_row val m inp dmin dmax r c) in *.
  set (D := disp_scaled s dmin k) in *.
  assert (V' : is_valid KK mask) by exact V.
  assert (F : cv_fits (inject_Z dmin) (inject_Z dmax) s cv).
  { apply cv_fits_of_length. unfold cv. rewrite cost_row_length. fold s. unfold nb_disp in *.
    assert (0 <= (dmax - dmin) * s) by (apply Z.mul_nonneg_nonneg; lia). lia. }
  assert (I : in_interval (inject_Z dmin) (inject_Z dmax) d).
  { destruct (stored_interval_is_searched s dmin dmax Hs Hd) as (_ & _ & F' & L' & B).
    destruct (B k Hk) as [B1 B2]. rewrite F' in B1. rewrite L' in B2. split; assumption. }
  destruct (pixel_props KK KK_wf me mm (inject_Z dmin) (inject_Z dmax) s Hs cv d mask res V' F I R)
    as (d' & c' & mask' & R' & I' & Habs & _).
  exists d', c', mask'. split; [exact R'|]. split; [|split; [exact I' | exact Habs]].
  assert (S0 : (0 < inject_Z s)%Q) by (unfold Qlt, inject_Z; cbn; lia).
  assert (ED : (d * inject_Z s == inject_Z D)%Q) by (apply sample_q_scaled; exact Hs).
  destruct (Qeq_dec d' d) as [E|NE].
  - (* left where it was: the sample received is inside the pixel's interval *)
    rewrite E. destruct Hg as [G1 G2]. fold D in G1, G2.
    assert (Q1 : (inject_Z (i_gmin inp r c) * inject_Z s <= inject_Z D)%Q)
      by (rewrite <- inject_Z_mult; rewrite <- Zle_Qle; exact G1).
    assert (Q2 : (inject_Z D <= inject_Z (i_gmax inp r c) * inject_Z s)%Q)
      by (rewrite <- inject_Z_mult; rewrite <- Zle_Qle; exact G2).
    rewrite <- ED in Q1, Q2. split.
    + apply (Qmult_le_r _ _ _ S0). exact Q1.
    + apply (Qmult_le_r _ _ _ S0). exact Q2.
  - (* moved: both neighbouring samples have a numeric cost, hence lie in the pixel's interval *)
    rewrite R' in R.
    destruct (pixel_moved_costed KK KK_wf me mm (inject_Z dmin) (inject_Z dmax) s Hs cv d mask d' c' mask'
                                 V' F I R NE) as (c0 & c1 & c2 & E0 & _ & E2 & _).
    assert (SI : sample_index (inject_Z dmin) s d = k).
    { exact (proj1 (dsp_index_consistent s dmin k Hs)). }
    rewrite SI in E0, E2.
    pose proof (costed_in_pixel_interval _ _ _ _ _ _ _ _ _ E0) as [G0 _].
    pose proof (costed_in_pixel_interval _ _ _ _ _ _ _ _ _ E2) as [_ G2].
    fold s in G0, G2. unfold disp_scaled in G0, G2. unfold D, disp_scaled in ED.
    assert (Q0 : (inject_Z (i_gmin inp r c) * inject_Z s <= inject_Z (dmin * s + k) - 1)%Q).
    { rewrite <- inject_Z_mult. change 1%Q with (inject_Z 1). unfold Qminus.
      rewrite <- inject_Z_opp, <- inject_Z_plus. rewrite <- Zle_Qle. lia. }
    assert (Q2 : (inject_Z (dmin * s + k) + 1 <= inject_Z (i_gmax inp r c) * inject_Z s)%Q).
    { rewrite <- inject_Z_mult. change 1%Q with (inject_Z 1). rewrite <- inject_Z_plus.
      rewrite <- Zle_Qle. lia. }
    rewrite <- ED in Q0, Q2.
    assert (A : (- (1 # 2) <= (d' - d) * inject_Z s /\ (d' - d) * inject_Z s <= 1 # 2)%Q).
    { apply Qabs_Qle_condition. rewrite Qabs_Qmult. rewrite (Qabs_pos (inject_Z s)) by lra. exact Habs. }
    destruct A as [A1 A2]. split.
    + apply (Qmult_le_r _ _ _ S0). lra.
    + apply (Qmult_le_r _ _ _ S0). lra.
Qed.

(* disparity step then refinement step, one pixel that has a computable cost *)
From Pandora Require Import Proofs.IntervalWtaP.
Theorem wta_then_refinement_within_pixel_interval :
  forall val m inp dmin dmax mx B invalid conf wmask me mm r c k0 v0 mask,
  1 <= B -> 0 < i_s inp -> dmin <= dmax -> 0 <= r < i_ny inp -> 0 <= c < i_nx inp ->
  0 <= k0 < nb_disp (i_s inp) dmin dmax -> mvolume m inp dmin dmax r c k0 = Some v0 ->
  Z.land mask CrossCheck.MSK_INVALID = 0 ->
  exists d d' c' mask',
    wta_on_volume val m inp dmin dmax mx B invalid conf wmask r c = Some d
    /\ loop_pixel KK me mm (inject_Z dmin) (inject_Z dmax) (i_s inp) (cost_row val m inp dmin dmax r c)
                  (Some d) mask = POk (Some d') c' mask'
    /\ (inject_Z (i_gmin inp r c) <= d /\ d <= inject_Z (i_gmax inp r c))%Q
    /\ (inject_Z (i_gmin inp r c) <= d' /\ d' <= inject_Z (i_gmax inp r c))%Q
    /\ (inject_Z dmin <= d' /\ d' <= inject_Z dmax)%Q
    /\ (Qabs (d' - d) * inject_Z (i_s inp) <= 1 # 2)%Q.
Proof.
  intros val m inp dmin dmax mx B invalid conf wmask me mm r c k0 v0 mask HB Hs Hd Hr Hc Hk0 Hv0 V.
  destruct (wta_within_interval val m inp dmin dmax mx B invalid conf wmask HB Hs Hd r c k0 v0 Hr Hc Hk0 Hv0)
    as (k & v & Hk & Ho & _ & Hg & Hgq & _).
  destruct (refined_within_pixel_interval val m inp dmin dmax me mm r c k mask _ Hs Hd Hk Hg V eq_refl)
    as (d' & c' & mask' & R & G & I & A).
  exists (sample_q (i_s inp) dmin k), d', c', mask'. repeat split; try assumption; tauto.
Qed.
