(* Proofs for the T-gen tie of C11: evaluating the canonical IR trees of the five kernels of
   pandora/aggregation/cbca.py (Model/CbcaIR.v, evaluator Lib/KernelIR.v) gives, for ALL inputs,
   what the functional model Model/Cbca.v computes.  Every evaluation succeeds, i.e. every load
   and store of the kernels stays inside its array (after the wrap-around of negative indices). *)
From Coq Require Import ZArith QArith Qabs Qround List Bool Lia Lqa ZifyBool.
From Pandora Require Import Lib.KernelIR Model.Cbca Model.CbcaIR Spec.Cbca Proofs.CbcaP.
Import ListNotations.
Open Scope Z_scope.

(* ================================================================ the evaluator *)

Lemma irange_zrange : irange = zrange.
Proof. reflexivity. Qed.

Lemma py_range_up : forall a b, py_range a b 1 = zrange a (b - a).
Proof.
  intros. unfold py_range, zrange. cbn [Z.ltb Z.compare].
  replace ((b - a + 1 - 1) / 1) with (b - a) by (rewrite Z.div_1_r; lia).
  apply map_ext. intros. lia.
Qed.

Lemma py_range_down : forall a b, py_range a b (-1) = range_dec a b.
Proof.
  intros. unfold py_range, range_dec. cbn [Z.ltb Z.compare Z.opp].
  replace ((a - b + 1 - 1) / 1) with (a - b) by (rewrite Z.div_1_r; lia).
  apply map_ext. intros. lia.
Qed.

Lemma exec_block_nil : forall st, exec_block [] st = ROk st.
Proof. reflexivity. Qed.
Lemma exec_block_cons : forall s l st,
  exec_block (s :: l) st = match exec s st with ROk st' => exec_block l st' | r => r end.
Proof. reflexivity. Qed.
Lemma exec_for : forall x a b c body st,
  exec (SFor x a b c body) st =
  match as_int (eval st a), as_int (eval st b), as_int (eval st c) with
  | Some a', Some b', Some c' =>
      if c' =? 0 then RErr else loop (exec_block body) x (py_range a' b' c') st
  | _, _, _ => RErr
  end.
Proof. reflexivity. Qed.
Lemma exec_if : forall c th el st,
  exec (SIf c th el) st =
  match as_int (eval st c) with
  | Some z => if z =? 0 then exec_block el st else exec_block th st
  | None => RErr
  end.
Proof. reflexivity. Qed.

(* a loop that never breaks, over consecutive integers, with an invariant *)
Lemma loop_zrange : forall body x (Inv : Z -> state -> Prop) n a st,
  Inv a st ->
  (forall i st0, a <= i < a + Z.of_nat n -> Inv i st0 ->
     exists st', body (setv x (VInt i) st0) = ROk st' /\ Inv (i + 1) st') ->
  exists st', loop body x (zrange a (Z.of_nat n)) st = ROk st' /\ Inv (a + Z.of_nat n) st'.
Proof.
  induction n; intros a st H0 Hstep.
  - exists st. split; [reflexivity|]. replace (a + Z.of_nat 0) with a by lia. exact H0.
  - rewrite zrange_span. replace (Z.to_nat (Z.of_nat (S n))) with (S n) by lia.
    cbn [span loop].
    destruct (Hstep a st) as (st1 & E1 & I1); [lia | exact H0 |].
    rewrite E1.
    destruct (IHn (a + 1) st1 I1) as (st2 & E2 & I2).
    { intros i st0 Hi Hinv. apply Hstep; [lia | exact Hinv]. }
    exists st2. split.
    + rewrite zrange_span in E2. replace (Z.to_nat (Z.of_nat n)) with n in E2 by lia. exact E2.
    + replace (a + Z.of_nat (S n)) with (a + 1 + Z.of_nat n) by lia. exact I2.
Qed.

Lemma loop_zrange' : forall body x (Inv : Z -> state -> Prop) a n st,
  0 <= n -> Inv a st ->
  (forall i st0, a <= i < a + n -> Inv i st0 ->
     exists st', body (setv x (VInt i) st0) = ROk st' /\ Inv (i + 1) st') ->
  exists st', loop body x (zrange a n) st = ROk st' /\ Inv (a + n) st'.
Proof.
  intros. replace n with (Z.of_nat (Z.to_nat n)) by lia.
  apply loop_zrange; auto. intros. apply H1; auto. lia.
Qed.

(* ---- array cells *)

Lemma norm_idx_ok : forall n i, 0 <= i < n -> norm_idx n i = Some i.
Proof.
  intros. unfold norm_idx. replace (i <? 0) with false by lia.
  replace ((0 <=? i) && (i <? n)) with true by lia. reflexivity.
Qed.
Lemma norm_idx_wrap : forall n i, - n <= i < n -> norm_idx n i = Some (wrap n i).
Proof.
  intros. unfold norm_idx, wrap. destruct (i <? 0) eqn:E.
  - replace ((0 <=? i + n) && (i + n <? n)) with true by lia. reflexivity.
  - replace ((0 <=? i) && (i <? n)) with true by lia. reflexivity.
Qed.

Lemma aread1_ok : forall A n0 i, ashape A = [n0] -> 0 <= i < n0 -> aread A [i] = Some (adata A [i]).
Proof. intros. unfold aread. rewrite H. cbn [norm_idxs]. rewrite norm_idx_ok by lia. reflexivity. Qed.
Lemma aread2_ok : forall A n0 n1 i j, ashape A = [n0; n1] -> 0 <= i < n0 -> 0 <= j < n1 ->
  aread A [i; j] = Some (adata A [i; j]).
Proof. intros. unfold aread. rewrite H. cbn [norm_idxs]. rewrite !norm_idx_ok by lia. reflexivity. Qed.
Lemma aread2_wrap1 : forall A n0 n1 i j, ashape A = [n0; n1] -> 0 <= i < n0 -> - n1 <= j < n1 ->
  aread A [i; j] = Some (adata A [i; wrap n1 j]).
Proof.
  intros. unfold aread. rewrite H. cbn [norm_idxs].
  rewrite (norm_idx_ok n0 i), (norm_idx_wrap n1 j) by lia. reflexivity.
Qed.
Lemma aread2_wrap0 : forall A n0 n1 i j, ashape A = [n0; n1] -> - n0 <= i < n0 -> 0 <= j < n1 ->
  aread A [i; j] = Some (adata A [wrap n0 i; j]).
Proof.
  intros. unfold aread. rewrite H. cbn [norm_idxs].
  rewrite (norm_idx_wrap n0 i), (norm_idx_ok n1 j) by lia. reflexivity.
Qed.
Lemma aread3_ok : forall A n0 n1 n2 i j k, ashape A = [n0; n1; n2] ->
  0 <= i < n0 -> 0 <= j < n1 -> 0 <= k < n2 -> aread A [i; j; k] = Some (adata A [i; j; k]).
Proof. intros. unfold aread. rewrite H. cbn [norm_idxs]. rewrite !norm_idx_ok by lia. reflexivity. Qed.
Lemma awrite2_ok : forall A n0 n1 i j v, ashape A = [n0; n1] -> 0 <= i < n0 -> 0 <= j < n1 ->
  awrite A [i; j] v = Some (aupd A [i; j] v).
Proof. intros. unfold awrite. rewrite H. cbn [norm_idxs]. rewrite !norm_idx_ok by lia. reflexivity. Qed.
Lemma awrite3_ok : forall A n0 n1 n2 i j k v, ashape A = [n0; n1; n2] ->
  0 <= i < n0 -> 0 <= j < n1 -> 0 <= k < n2 -> awrite A [i; j; k] v = Some (aupd A [i; j; k] v).
Proof. intros. unfold awrite. rewrite H. cbn [norm_idxs]. rewrite !norm_idx_ok by lia. reflexivity. Qed.

Lemma aupd2_same : forall A i j v, adata (aupd A [i; j] v) [i; j] = v.
Proof. intros. cbn [aupd adata idx_eqb]. rewrite !Z.eqb_refl. reflexivity. Qed.
Lemma aupd2_other : forall A i j v i' j', (i', j') <> (i, j) -> adata (aupd A [i; j] v) [i'; j'] = adata A [i'; j'].
Proof.
  intros. cbn [aupd adata idx_eqb].
  destruct (i' =? i) eqn:E1; destruct (j' =? j) eqn:E2; cbn [andb]; auto.
  exfalso. apply H. f_equal; lia.
Qed.
Lemma aupd3_same : forall A i j k v, adata (aupd A [i; j; k] v) [i; j; k] = v.
Proof. intros. cbn [aupd adata idx_eqb]. rewrite !Z.eqb_refl. reflexivity. Qed.
Lemma aupd3_other : forall A i j k v i' j' k', (i', j', k') <> (i, j, k) ->
  adata (aupd A [i; j; k] v) [i'; j'; k'] = adata A [i'; j'; k'].
Proof.
  intros. cbn [aupd adata idx_eqb].
  destruct (i' =? i) eqn:E1; destruct (j' =? j) eqn:E2; destruct (k' =? k) eqn:E3; cbn [andb]; auto.
  exfalso. apply H. repeat f_equal; lia.
Qed.

(* a float cell that holds the rational q (up to ==) *)
Definition fval (v : val) (q : Q) : Prop := exists q', v = VFlt (Fin q') /\ q' == q.
Definition of_cost (o : option Q) : fl := match o with Some q => Fin q | None => NaN end.

Lemma fval_fin : forall q, fval (VFlt (Fin q)) q.
Proof. intros. exists q. split; reflexivity. Qed.
Lemma fval_eq : forall v q q', fval v q -> q == q' -> fval v q'.
Proof. intros v q q' (x & E & H) H'. exists x. split; auto. rewrite H. exact H'. Qed.

(* the symbolic evaluation of straight-line code on an explicit state *)
Ltac kred :=
  cbn [exec eval eval_ints store as_int getv geta setv seta sv sa set_nth get_nth nth_error
       ashape adata vbin vun to_fl bz dzero forallb andb map app repeat length Nat.sub init_state collect
       k_body k_ret k_nsc k_nar Z.eqb Pos.eqb
       cbca_step_1 cbca_step_2 cbca_step_3 cbca_step_4 cross_support].
(* cbn leaves the state argument of [loop] alone *)
Ltac knorm :=
  cbv beta iota delta [setv seta set_nth sv sa init_state k_nsc k_nar
                       cbca_step_1 cbca_step_2 cbca_step_3 cbca_step_4 cross_support];
  cbn [map app repeat length Nat.sub].

(* ================================================================ cbca_step_1 *)

Section Step1.
  Variables (nr nc : Z) (cv : Z -> Z -> option Q) (A : arr).
  Hypothesis Hnr : 0 <= nr.
  Hypothesis Hnc : 0 <= nc.
  Hypothesis HA : ashape A = [nr; nc].
  Hypothesis HAd : forall r c, 0 <= r < nr -> 0 <= c < nc -> adata A [r; c] = VFlt (of_cost (cv r c)).

  (* the running sum of row r after the columns < c *)
  Let part (r c : Z) : Z -> Q :=
    fold_left (fun a c0 => updz a c0 (qadd (a (wrap (nc + 1) (c0 - 1))) (nz (cv r c0))))
              (zrange 0 c) (fun _ => 0%Q).

  Let rows_done (S : arr) (r : Z) : Prop :=
    forall r' c', 0 <= r' < r -> 0 <= c' < nc + 1 -> fval (adata S [r'; c']) (step1 nc cv r' c').
  Let I_in (r c : Z) (st : state) : Prop :=
    exists S o3, st = mkSt [Some (VInt nr); Some (VInt nc); Some (VInt r); o3] [Some A; Some S] /\
      ashape S = [nr; nc + 1] /\ rows_done S r /\
      (forall r' c', r < r' -> adata S [r'; c'] = VFlt (Fin 0)) /\
      (forall c', fval (adata S [r; c']) (part r c c')).
  Let I_out (r : Z) (st : state) : Prop :=
    exists S o2 o3, st = mkSt [Some (VInt nr); Some (VInt nc); o2; o3] [Some A; Some S] /\
      ashape S = [nr; nc + 1] /\ rows_done S r /\
      (forall r' c', r <= r' -> adata S [r'; c'] = VFlt (Fin 0)).

  Lemma part_succ : forall r c, 0 <= c ->
    part r (c + 1) = updz (part r c) c (qadd (part r c (wrap (nc + 1) (c - 1))) (nz (cv r c))).
  Proof.
    intros. unfold part. rewrite zrange_app, zrange_one by lia. rewrite fold_left_app.
    replace (0 + c) with c by lia. reflexivity.
  Qed.

  Theorem ir_step1 :
    exists S, run_kernel cbca_step_1 [] [A] = Some [S] /\ ashape S = [nr; nc + 1] /\
      forall r c, 0 <= r < nr -> 0 <= c < nc + 1 -> fval (adata S [r; c]) (step1 nc cv r c).
  Proof.
    unfold run_kernel. kred. do 3 (rewrite exec_block_cons; kred; rewrite ?HA; kred).
    replace ((0 <=? nr) && ((0 <=? nc + 1) && true)) with true by lia.
    rewrite exec_block_cons, exec_for. kred. rewrite py_range_up. replace (nr - 0) with nr by lia.
    set (body := exec_block _). knorm.
    destruct (loop_zrange' body 2%nat I_out 0 nr
               (mkSt [Some (VInt nr); Some (VInt nc); None; None]
                     [Some A; Some (mkArr [nr; nc + 1] (fun _ => VFlt (Fin 0)))])) as (st' & E & I'); auto.
    { exists (mkArr [nr; nc + 1] (fun _ => VFlt (Fin 0))), None, None.
      repeat split; auto. intros r' c' Hr'. lia. }
    { (* one image row *)
      intros r st0 Hr (S & o2 & o3 & -> & HS & Hdone & Hzero).
      unfold body. kred. rewrite exec_block_cons, exec_for. kred. rewrite py_range_up.
      replace (nc - 0) with nc by lia. set (body2 := exec_block _). knorm.
      destruct (loop_zrange' body2 3%nat (I_in r) 0 nc
                 (mkSt [Some (VInt nr); Some (VInt nc); Some (VInt r); o3] [Some A; Some S])) as (st2 & E2 & I2); auto.
      { exists S, o3. repeat split; auto.
        - intros. apply Hzero. lia.
        - intros c'. rewrite Hzero by lia. unfold part. rewrite zrange_nil by lia. apply fval_fin. }
      { (* one pixel *)
        intros c st1 Hc (S1 & o3' & -> & HS1 & Hdone1 & Hzero1 & Hrow).
        unfold body2. kred. rewrite exec_block_cons, exec_if. kred.
        rewrite (aread2_ok A nr nc) by (auto; lia). rewrite HAd by lia.
        destruct (Hrow (wrap (nc + 1) (c - 1))) as (qp & Eqp & Hqp).
        assert (Hnew : forall v, fval v (qadd (part r c (wrap (nc + 1) (c - 1))) (nz (cv r c))) ->
                  I_in r (c + 1) (mkSt [Some (VInt nr); Some (VInt nc); Some (VInt r); Some (VInt c)]
                                       [Some A; Some (aupd S1 [r; c] v)])).
        { intros v Hv. exists (aupd S1 [r; c] v), (Some (VInt c)). repeat split; auto.
          - intros r' c' Hr' Hc'. rewrite aupd2_other by (intro X; inversion X; lia). apply Hdone1; auto.
          - intros r' c' Hr'. rewrite aupd2_other by (intro X; inversion X; lia). apply Hzero1; auto.
          - intros c'. rewrite part_succ by lia. unfold updz. destruct (c' =? c) eqn:E0.
            + assert (c' = c) by lia. subst c'. rewrite aupd2_same. exact Hv.
            + rewrite aupd2_other by (intro X; inversion X; lia). apply Hrow. }
        destruct (cv r c) as [q|] eqn:Ecv; cbn [of_cost]; kred;
          rewrite exec_block_cons; kred.
        - rewrite (aread2_wrap1 S1 nr (nc + 1)) by (auto; lia).
          rewrite (aread2_ok A nr nc) by (auto; lia). rewrite HAd by lia. rewrite Ecv, Eqp. cbn [of_cost]. kred.
          rewrite (awrite2_ok S1 nr (nc + 1)) by (auto; lia). kred.
          eexists. split; [reflexivity|]. apply Hnew.
          exists (Qred (qp + q)). split; [reflexivity|].
          cbn [fadd nz]. rewrite Qred_correct, qadd_ok, Hqp. reflexivity.
        - rewrite (aread2_wrap1 S1 nr (nc + 1)) by (auto; lia). rewrite Eqp. kred.
          rewrite (awrite2_ok S1 nr (nc + 1)) by (auto; lia). kred.
          eexists. split; [reflexivity|]. apply Hnew.
          exists qp. split; [reflexivity|]. cbn [nz]. rewrite qadd_ok, Hqp. ring. }
      rewrite E2. replace (0 + nc) with nc in I2 by lia.
      destruct I2 as (S2 & o3'' & -> & HS2 & Hdone2 & Hzero2 & Hrow2).
      eexists. split; [reflexivity|].
      exists S2, (Some (VInt r)), o3''. repeat split; auto.
      - intros r' c' Hr' Hc'. destruct (Z.eq_dec r' r) as [->|].
        + apply Hrow2.
        + apply Hdone2; auto. lia.
      - intros r' c' Hr'. apply Hzero2. lia. }
    rewrite E. replace (0 + nr) with nr in I' by lia.
    destruct I' as (S & o2 & o3 & -> & HS & Hdone & _).
    kred. exists S. repeat split; auto.
  Qed.
End Step1.

(* ================================================================ cbca_step_3 *)

Section Step3.
  Variables (nr nc : Z) (s2 : Z -> Z -> Q) (B : arr).
  Hypothesis Hnr : 1 <= nr.
  Hypothesis Hnc : 0 <= nc.
  Hypothesis HB : ashape B = [nr; nc].
  Hypothesis HBd : forall r c, 0 <= r < nr -> 0 <= c < nc -> fval (adata B [r; c]) (s2 r c).

  (* the running sum of image column c after the rows < r *)
  Let part (c r : Z) : Z -> Q :=
    fold_left (fun a r0 => updz a r0 (qadd (a (r0 - 1)) (s2 r0 c)))
              (zrange 1 (r - 1)) (updz (fun _ => 0%Q) 0 (s2 0 c)).

  Let I_in (r c : Z) (st : state) : Prop :=
    exists S o3, st = mkSt [Some (VInt nr); Some (VInt nc); Some (VInt r); o3] [Some B; Some S] /\
      ashape S = [nr + 1; nc] /\
      (forall r' c', 0 <= c' < c -> fval (adata S [r'; c']) (part c' (r + 1) r')) /\
      (forall r' c', c <= c' < nc -> fval (adata S [r'; c']) (part c' r r')).
  Let I_out (r : Z) (st : state) : Prop :=
    exists S o2 o3, st = mkSt [Some (VInt nr); Some (VInt nc); o2; o3] [Some B; Some S] /\
      ashape S = [nr + 1; nc] /\
      (forall r' c', 0 <= c' < nc -> fval (adata S [r'; c']) (part c' r r')).

  Lemma part3_succ : forall c r, 1 <= r ->
    part c (r + 1) = updz (part c r) r (qadd (part c r (r - 1)) (s2 r c)).
  Proof.
    intros. unfold part. replace (r + 1 - 1) with ((r - 1) + 1) by lia.
    rewrite zrange_app, zrange_one by lia. rewrite fold_left_app.
    replace (1 + (r - 1)) with r by lia. reflexivity.
  Qed.

  Theorem ir_step3 :
    exists S, run_kernel cbca_step_3 [] [B] = Some [S] /\ ashape S = [nr + 1; nc] /\
      forall r c, 0 <= r < nr + 1 -> 0 <= c < nc -> fval (adata S [r; c]) (step3 nr s2 r c).
  Proof.
    unfold run_kernel. kred. do 3 (rewrite exec_block_cons; kred; rewrite ?HB; kred).
    replace ((0 <=? nr + 1) && ((0 <=? nc) && true)) with true by lia.
    rewrite exec_block_cons. kred. unfold row_copy. kred. rewrite HB. rewrite Z.eqb_refl.
    rewrite !norm_idx_ok by lia.
    rewrite exec_block_cons, exec_for. kred. rewrite py_range_up.
    set (body := exec_block _). knorm.
    set (S0 := mkArr _ _).
    destruct (loop_zrange' body 2%nat I_out 1 (nr - 1)
               (mkSt [Some (VInt nr); Some (VInt nc); None; None] [Some B; Some S0])) as (st' & E & I'); auto; try lia.
    { exists S0, None, None. repeat split; auto.
      intros r' c' Hc'. unfold S0, part. cbn [adata]. rewrite zrange_nil by lia. cbn [fold_left]. unfold updz.
      destruct (r' =? 0) eqn:E0; [apply HBd; lia | apply fval_fin]. }
    { (* one image row *)
      intros r st0 Hr (S & o2 & o3 & -> & HS & Hcols).
      unfold body. kred. rewrite exec_block_cons, exec_for. kred. rewrite py_range_up.
      replace (nc - 0) with nc by lia. set (body2 := exec_block _). knorm.
      destruct (loop_zrange' body2 3%nat (I_in r) 0 nc
                 (mkSt [Some (VInt nr); Some (VInt nc); Some (VInt r); o3] [Some B; Some S])) as (st2 & E2 & I2); auto.
      { exists S, o3. repeat split; auto. intros. lia. }
      { (* one pixel *)
        intros c st1 Hc (S1 & o3' & -> & HS1 & Hlt & Hge).
        unfold body2. kred. rewrite exec_block_cons. kred.
        rewrite (aread2_ok S1 (nr + 1) nc) by (auto; lia).
        rewrite (aread2_ok B nr nc) by (auto; lia).
        destruct (Hge (r - 1) c) as (q1 & E1 & H1); [lia|].
        destruct (HBd r c) as (q2 & E2' & H2); [lia | lia |].
        rewrite E1, E2'. kred. rewrite (awrite2_ok S1 (nr + 1) nc) by (auto; lia). kred.
        rewrite exec_block_nil. eexists. split; [reflexivity|].
        eexists _, (Some (VInt c)). split; [reflexivity|]. repeat split; auto.
        - intros r' c' Hc'. destruct (Z.eq_dec c' c) as [->|Hne].
          + rewrite part3_succ by lia. unfold updz. destruct (r' =? r) eqn:E0.
            * assert (r' = r) by lia. subst r'. rewrite aupd2_same.
              exists (Qred (q1 + q2)). split; [reflexivity|]. rewrite Qred_correct, qadd_ok, H1, H2. reflexivity.
            * rewrite aupd2_other by (intro X; inversion X; lia). apply Hge. lia.
          + rewrite aupd2_other by (intro X; inversion X; lia). apply Hlt. lia.
        - intros r' c' Hc'. rewrite aupd2_other by (intro X; inversion X; lia). apply Hge. lia. }
      rewrite E2. replace (0 + nc) with nc in I2 by lia.
      destruct I2 as (S2 & o3'' & -> & HS2 & Hlt2 & _).
      rewrite exec_block_nil. eexists. split; [reflexivity|].
      exists S2, (Some (VInt r)), o3''. repeat split; auto. }
    rewrite E. replace (1 + (nr - 1)) with nr in I' by lia.
    destruct I' as (S & o2 & o3 & -> & HS & Hcols).
    rewrite exec_block_nil. kred. exists S. repeat split; auto.
    intros r c Hr Hc. apply (Hcols r c Hc).
  Qed.
End Step3.

(* ================================================================ cbca_step_2 / cbca_step_4: shared *)

Definition arm_at (a : arms) (k : Z) : Z :=
  if k =? 0 then aL a else if k =? 1 then aR a else if k =? 2 then aT a else aB a.

(* an arms table as the 3-D int16 array of the code *)
Definition arms_arr (C : arr) (nr nc : Z) (cross : Z -> Z -> arms) : Prop :=
  ashape C = [nr; nc; 4] /\
  forall r c k, 0 <= r < nr -> 0 <= c < nc -> 0 <= k < 4 -> adata C [r; c; k] = VInt (arm_at (cross r c) k).
(* a 1-D int64 array holding f(cols[0]), f(cols[1]), ... *)
Definition ints_arr (R : arr) (cols : list Z) (f : Z -> Z) : Prop :=
  ashape R = [Z.of_nat (length cols)] /\
  forall j, 0 <= j < Z.of_nat (length cols) -> adata R [j] = VInt (f (nth (Z.to_nat j) cols 0)).

Section Cols.
  Variable cols : list Z.
  Hypothesis Hnd : NoDup cols.
  Definition colz (j : Z) : Z := nth (Z.to_nat j) cols 0.
  Definition written (i c : Z) : Prop := exists j, 0 <= j < i /\ colz j = c.
  Let m := Z.of_nat (length cols).

  Lemma written_0 : forall c, ~ written 0 c.
  Proof. intros c (j & Hj & _). lia. Qed.
  Lemma written_succ : forall i c, 0 <= i -> (written (i + 1) c <-> written i c \/ colz i = c).
  Proof.
    intros i c Hi. split.
    - intros (j & Hj & E). destruct (Z.eq_dec j i) as [->|]; [right; auto | left; exists j; split; auto; lia].
    - intros [(j & Hj & E) | E]; [exists j | exists i]; split; auto; lia.
  Qed.
  Lemma written_all : forall c, written m c <-> In c cols.
  Proof.
    intros c. split.
    - intros (j & Hj & E). subst c. apply nth_In. unfold m in Hj. lia.
    - intros H. destruct (In_nth cols c 0 H) as (n & Hn & E).
      exists (Z.of_nat n). split; [unfold m; lia|]. unfold colz. rewrite Nat2Z.id. exact E.
  Qed.
  Lemma written_fresh : forall i, 0 <= i < m -> ~ written i (colz i).
  Proof.
    intros i Hi (j & Hj & E). unfold colz in E.
    assert (Z.to_nat j = Z.to_nat i).
    { apply (proj1 (NoDup_nth cols 0) Hnd); unfold m in *; try lia. }
    lia.
  Qed.
  Lemma colz_in : forall i, 0 <= i < m -> In (colz i) cols.
  Proof. intros. apply nth_In. unfold m in *. lia. Qed.
End Cols.

(* ================================================================ cbca_step_2 *)

Section Step2.
  Variables (nr nc ncR : Z) (crossL crossR : Z -> Z -> arms) (d : Q) (s1 : Z -> Z -> Q).
  Variables (S1 CL CR RC RCR : arr) (cols : list Z).
  Hypothesis Hnr : 0 <= nr.
  Hypothesis Hnc : 0 <= nc.
  Hypothesis HS1 : ashape S1 = [nr; nc + 1].
  Hypothesis HS1d : forall r c, 0 <= r < nr -> 0 <= c < nc + 1 -> fval (adata S1 [r; c]) (s1 r c).
  Hypothesis HCL : arms_arr CL nr nc crossL.
  Hypothesis HCR : arms_arr CR nr ncR crossR.
  Hypothesis HRC : ints_arr RC cols (fun c => c).
  Hypothesis HRCR : ints_arr RCR cols (corr d).
  Hypothesis Hnd : NoDup cols.
  Hypothesis Hcols : forall c, In c cols -> 0 <= c < nc /\ 0 <= corr d c < ncR.
  (* the combined arms stay inside the row (in-range condition of the two reads of step1) *)
  Hypothesis Harms : forall r c, 0 <= r < nr -> In c cols ->
    0 <= h_left crossL crossR d r c <= c /\ 0 <= h_right crossL crossR d r c <= nc - 1 - c.

  Let m := Z.of_nat (length cols).
  Let E2 (r c : Z) : Q :=
    qsub (s1 r (c + h_right crossL crossR d r c)) (s1 r (wrap (nc + 1) (c - h_left crossL crossR d r c - 1))).
  Let N2 (r c : Z) : Z := h_right crossL crossR d r c + h_left crossL crossR d r c.

  Let row_ok (S SM : arr) (r : Z) (W : Z -> Prop) : Prop :=
    forall c, 0 <= c < nc ->
      (W c -> fval (adata S [r; c]) (E2 r c) /\ fval (adata SM [r; c]) (inject_Z (N2 r c))) /\
      (~ W c -> adata S [r; c] = VFlt (Fin 0) /\ adata SM [r; c] = VFlt (Fin 0)).

  Let I_in (r i : Z) (st : state) : Prop :=
    exists S SM o3 o4 o5,
      st = mkSt [Some (VInt nr); Some (VInt (nc + 1)); Some (VInt r); o3; o4; o5]
                [Some S1; Some CL; Some CR; Some RC; Some RCR; Some S; Some SM] /\
      ashape S = [nr; nc] /\ ashape SM = [nr; nc] /\
      (forall r', 0 <= r' < r -> row_ok S SM r' (fun c => In c cols)) /\
      (forall r', r < r' -> row_ok S SM r' (fun _ => False)) /\
      row_ok S SM r (written cols i).
  Let I_out (r : Z) (st : state) : Prop :=
    exists S SM o2 o3 o4 o5,
      st = mkSt [Some (VInt nr); Some (VInt (nc + 1)); o2; o3; o4; o5]
                [Some S1; Some CL; Some CR; Some RC; Some RCR; Some S; Some SM] /\
      ashape S = [nr; nc] /\ ashape SM = [nr; nc] /\
      (forall r', 0 <= r' < r -> row_ok S SM r' (fun c => In c cols)) /\
      (forall r', r <= r' -> row_ok S SM r' (fun _ => False)).

  Theorem ir_step2 :
    exists S SM, run_kernel cbca_step_2 [] [S1; CL; CR; RC; RCR] = Some [S; SM] /\
      ashape S = [nr; nc] /\ ashape SM = [nr; nc] /\
      forall r c, 0 <= r < nr -> 0 <= c < nc ->
        (In c cols -> fval (adata S [r; c]) (E2 r c) /\ fval (adata SM [r; c]) (inject_Z (N2 r c))) /\
        (~ In c cols -> adata S [r; c] = VFlt (Fin 0) /\ adata SM [r; c] = VFlt (Fin 0)).
  Proof.
    destruct HCL as [HCLs HCLd]. destruct HCR as [HCRs HCRd].
    destruct HRC as [HRCs HRCd]. destruct HRCR as [HRCRs HRCRd]. fold m in HRCs, HRCd, HRCRs, HRCRd.
    unfold run_kernel. kred. do 3 (rewrite exec_block_cons; kred; rewrite ?HS1; kred).
    replace (nc + 1 - 1) with nc by lia.
    replace ((0 <=? nr) && ((0 <=? nc) && true)) with true by lia.
    rewrite exec_block_cons; kred.
    replace (nc + 1 - 1) with nc by lia.
    replace ((0 <=? nr) && ((0 <=? nc) && true)) with true by lia.
    rewrite exec_block_cons, exec_for. kred. rewrite HS1. kred. rewrite py_range_up. replace (nr - 0) with nr by lia.
    set (body := exec_block _). knorm.
    set (Z0 := mkArr [nr; nc] (fun _ => VFlt (Fin 0))).
    destruct (loop_zrange' body 2%nat I_out 0 nr
               (mkSt [Some (VInt nr); Some (VInt (nc + 1)); None; None; None; None]
                     [Some S1; Some CL; Some CR; Some RC; Some RCR; Some Z0; Some Z0])) as (st' & E & I'); auto.
    { exists Z0, Z0, None, None, None, None.
      split; [reflexivity | split; [reflexivity | split; [reflexivity | split]]].
      - intros; lia.
      - intros r' _ c _. split; [tauto | intros _; split; reflexivity]. }
    { (* one image row *)
      intros r st0 Hr (S & SM & o2 & o3 & o4 & o5 & -> & HS & HSM & Hdone & Hzero).
      unfold body. kred. rewrite exec_block_cons, exec_for. kred. rewrite HRCs. kred. rewrite py_range_up.
      replace (m - 0) with m by lia. set (body2 := exec_block _). knorm.
      destruct (loop_zrange' body2 3%nat (I_in r) 0 m
                 (mkSt [Some (VInt nr); Some (VInt (nc + 1)); Some (VInt r); o3; o4; o5]
                       [Some S1; Some CL; Some CR; Some RC; Some RCR; Some S; Some SM])) as (st2 & E2' & I2); auto.
      { unfold m. lia. }
      { exists S, SM, o3, o4, o5.
        split; [reflexivity | split; [assumption | split; [assumption | split; [assumption | split]]]].
        - intros r' Hr'. apply Hzero. lia.
        - intros c Hc. destruct (Hzero r (Z.le_refl r) c Hc) as [_ Hz]. split.
          + intros W. exfalso. eapply written_0; eauto.
          + intros _. apply Hz. tauto. }
      { (* one entry of range_col *)
        intros i st1 Hi (Sa & SMa & o3' & o4' & o5' & -> & HSa & HSMa & Hdone1 & Hzero1 & Hrow).
        assert (Hin : In (colz cols i) cols) by (apply colz_in; fold m; lia).
        set (c := colz cols i) in *.
        destruct (Hcols c Hin) as [Hc Hcc]. destruct (Harms r c) as [Hl Hrr]; [lia | exact Hin |].
        unfold body2. kred.
        do 2 (rewrite exec_block_cons; kred;
              rewrite (aread1_ok RC m), (aread1_ok RCR m) by (auto; lia); rewrite HRCd, HRCRd by lia; fold (colz cols i); fold c; kred;
              rewrite (aread3_ok CL nr nc 4), (aread3_ok CR nr ncR 4) by (auto; lia);
              rewrite HCLd, HCRd by lia; kred).
        unfold arm_at. cbn [Z.eqb Pos.eqb].
        fold (h_right crossL crossR d r c). fold (h_left crossL crossR d r c).
        set (hr := h_right crossL crossR d r c) in *. set (hl := h_left crossL crossR d r c) in *.
        rewrite exec_block_cons. kred.
        rewrite (aread1_ok RC m) by (auto; lia). rewrite HRCd by lia. fold (colz cols i). fold c. kred.
        rewrite (aread2_ok S1 nr (nc + 1)) by (auto; lia).
        rewrite (aread2_wrap1 S1 nr (nc + 1)) by (auto; lia).
        destruct (HS1d r (c + hr)) as (q1 & Eq1 & Hq1); [lia | lia |].
        destruct (HS1d r (wrap (nc + 1) (c - hl - 1))) as (q2 & Eq2 & Hq2); [lia | unfold wrap; destruct (c - hl - 1 <? 0) eqn:?; lia |].
        rewrite Eq1, Eq2. kred.
        rewrite (awrite2_ok Sa nr nc) by (auto; lia). kred.
        rewrite exec_block_cons. kred.
        rewrite (aread1_ok RC m) by (auto; lia). rewrite HRCd by lia. fold (colz cols i). fold c. kred.
        rewrite (aread2_ok SMa nr nc) by (auto; lia).
        destruct (Hrow c Hc) as [_ Hfresh].
        destruct Hfresh as [_ HSMz]; [apply written_fresh; auto; fold m; lia|].
        rewrite HSMz. kred. rewrite (awrite2_ok SMa nr nc) by (auto; lia). kred.
        rewrite exec_block_nil. eexists. split; [reflexivity|].
        eexists _, _, (Some (VInt i)), (Some (VInt hr)), (Some (VInt hl)).
        split; [reflexivity | split; [assumption | split; [assumption | split; [| split]]]].
        - intros r' Hr' c' Hc'. rewrite !aupd2_other by (intro X; inversion X; lia). apply Hdone1; auto.
        - intros r' Hr' c' Hc'. rewrite !aupd2_other by (intro X; inversion X; lia). apply Hzero1; auto.
        - intros c' Hc'. destruct (Z.eq_dec c' c) as [->|Hne].
          + rewrite !aupd2_same. split.
            * intros _. split.
              -- exists (Qred (q1 - q2)). split; [reflexivity|]. unfold E2. fold hr. fold hl.
                 rewrite Qred_correct, qsub_ok, Hq1, Hq2. reflexivity.
              -- eexists. split; [reflexivity|]. unfold N2. fold hr. fold hl. cbn [fadd].
                 rewrite Qred_correct. ring.
            * intros W. exfalso. apply W. apply written_succ; [lia|]. right. reflexivity.
          + rewrite !aupd2_other by (intro X; inversion X; lia).
            destruct (Hrow c' Hc') as [H1 H2]. split.
            * intros W. apply written_succ in W; [|lia]. destruct W as [W | W]; [auto | exfalso; apply Hne; symmetry; exact W].
            * intros W. apply H2. intro W'. apply W. apply written_succ; [lia|]. left. exact W'. }
      rewrite E2'. replace (0 + m) with m in I2 by lia.
      destruct I2 as (S2 & SM2 & o3'' & o4'' & o5'' & -> & HS2 & HSM2 & Hdone2 & Hzero2 & Hrow2).
      rewrite exec_block_nil. eexists. split; [reflexivity|].
      exists S2, SM2, (Some (VInt r)), o3'', o4'', o5''.
      split; [reflexivity | split; [assumption | split; [assumption | split]]].
      - intros r' Hr'. destruct (Z.eq_dec r' r) as [->|].
        + intros c Hc. destruct (Hrow2 c Hc) as [H1 H2]. split.
          * intros Hin. apply H1. apply written_all. exact Hin.
          * intros Hnin. apply H2. intro W. apply Hnin. apply written_all in W. exact W.
        + apply Hdone2. lia.
      - intros r' Hr'. apply Hzero2. lia. }
    rewrite E. replace (0 + nr) with nr in I' by lia.
    destruct I' as (S & SM & o2 & o3 & o4 & o5 & -> & HS & HSM & Hdone & _).
    rewrite exec_block_nil. kred. exists S, SM.
    split; [reflexivity | split; [assumption | split; [assumption|]]].
    intros r c Hr Hc. apply (Hdone r); auto.
  Qed.
End Step2.

(* ================================================================ cbca_step_4 *)

Section Step4.
  Variables (nr nc ncR : Z) (crossL crossR : Z -> Z -> arms) (d : Q) (s3 : Z -> Z -> Q) (sm2 : Z -> Z -> Z).
  Variables (S3 SM2 CL CR RC RCR : arr) (cols : list Z).
  Hypothesis Hnr : 0 <= nr.
  Hypothesis Hnc : 0 <= nc.
  Hypothesis HS3 : ashape S3 = [nr + 1; nc].
  Hypothesis HS3d : forall r c, 0 <= r < nr + 1 -> 0 <= c < nc -> fval (adata S3 [r; c]) (s3 r c).
  Hypothesis HSM2 : ashape SM2 = [nr; nc].
  Hypothesis HSM2d : forall r c, 0 <= r < nr -> 0 <= c < nc -> fval (adata SM2 [r; c]) (inject_Z (sm2 r c)).
  Hypothesis HCL : arms_arr CL nr nc crossL.
  Hypothesis HCR : arms_arr CR nr ncR crossR.
  Hypothesis HRC : ints_arr RC cols (fun c => c).
  Hypothesis HRCR : ints_arr RCR cols (corr d).
  Hypothesis Hnd : NoDup cols.
  Hypothesis Hcols : forall c, In c cols -> 0 <= c < nc /\ 0 <= corr d c < ncR.
  (* the combined arms stay inside the column (in-range condition of the reads of step3 / sum2) *)
  Hypothesis Harms : forall r c, 0 <= r < nr -> In c cols ->
    0 <= v_top crossL crossR d r c <= r /\ 0 <= v_bot crossL crossR d r c <= nr - 1 - r.

  Let m := Z.of_nat (length cols).
  Let E4 (r c : Z) : Q :=
    qsub (s3 (r + v_bot crossL crossR d r c) c) (s3 (wrap (nr + 1) (r - v_top crossL crossR d r c - 1)) c).
  Let N4 (r c : Z) : Z :=
    let top := v_top crossL crossR d r c in
    let bot := v_bot crossL crossR d r c in
    sm2 r c + (top + bot)
    + (if top =? 0 then 0 else zsum (map (fun k => sm2 k c) (zrange (r - top) top)))
    + (if bot =? 0 then 0 else zsum (map (fun k => sm2 k c) (zrange (r + 1) bot))).

  Lemma sum_fold : forall c l acc, 0 <= c < nc -> (forall k, In k l -> 0 <= k < nr) ->
    exists q, fold_left (fun a k => fadd a (to_fl (adata SM2 [k; c]))) l (Fin acc) = Fin q /\
              q == acc + inject_Z (zsum (map (fun k => sm2 k c) l)).
  Proof.
    induction l; intros acc Hc Hl; cbn [fold_left map].
    - exists acc. split; [reflexivity|]. cbn [zsum fold_right]. change (inject_Z 0) with 0%Q. ring.
    - destruct (HSM2d a c) as (qa & Ea & Ha); [apply Hl; left; reflexivity | exact Hc |].
      rewrite Ea. cbn [to_fl fadd].
      destruct (IHl (Qred (acc + qa)) Hc) as (q & Eq & Hq); [intros; apply Hl; right; assumption|].
      exists q. split; [exact Eq|]. rewrite Hq, Qred_correct, Ha. unfold zsum. cbn [fold_right].
      rewrite inject_Z_plus. ring.
  Qed.

  Lemma asum_slice_ok : forall lo hi n c, hi = lo + n -> 0 <= lo -> 0 <= n -> lo + n <= nr -> 0 <= c < nc ->
    exists q, asum_slice SM2 lo hi c = Some (VFlt (Fin q)) /\
              q == inject_Z (zsum (map (fun k => sm2 k c) (zrange lo n))).
  Proof.
    intros lo hi n c -> Hlo Hn Hhi Hc. unfold asum_slice. rewrite HSM2. rewrite norm_idx_ok by lia.
    unfold slice_bound. replace (lo <? 0) with false by lia. replace (lo + n <? 0) with false by lia.
    replace (Z.min lo nr) with lo by lia. replace (Z.min (lo + n) nr) with (lo + n) by lia.
    replace (lo + n - lo) with n by lia. rewrite irange_zrange.
    destruct (sum_fold c (zrange lo n) 0%Q Hc) as (q & Eq & Hq).
    { intros k Hk. apply in_zrange in Hk. lia. }
    exists q. split; [rewrite Eq; reflexivity|]. rewrite Hq. ring.
  Qed.

  Let row_ok (S SM : arr) (r : Z) (W : Z -> Prop) : Prop :=
    forall c, 0 <= c < nc ->
      (W c -> fval (adata S [r; c]) (E4 r c) /\ fval (adata SM [r; c]) (inject_Z (N4 r c))) /\
      (~ W c -> adata S [r; c] = VFlt (Fin 0) /\ adata SM [r; c] = adata SM2 [r; c]).

  Let I_in (r i : Z) (st : state) : Prop :=
    exists S SM o3 o4 o5,
      st = mkSt [Some (VInt (nr + 1)); Some (VInt nc); Some (VInt r); o3; o4; o5]
                [Some S3; Some SM2; Some CL; Some CR; Some RC; Some RCR; Some S; Some SM] /\
      ashape S = [nr; nc] /\ ashape SM = [nr; nc] /\
      (forall r', 0 <= r' < r -> row_ok S SM r' (fun c => In c cols)) /\
      (forall r', r < r' -> row_ok S SM r' (fun _ => False)) /\
      row_ok S SM r (written cols i).
  Let I_out (r : Z) (st : state) : Prop :=
    exists S SM o2 o3 o4 o5,
      st = mkSt [Some (VInt (nr + 1)); Some (VInt nc); o2; o3; o4; o5]
                [Some S3; Some SM2; Some CL; Some CR; Some RC; Some RCR; Some S; Some SM] /\
      ashape S = [nr; nc] /\ ashape SM = [nr; nc] /\
      (forall r', 0 <= r' < r -> row_ok S SM r' (fun c => In c cols)) /\
      (forall r', r <= r' -> row_ok S SM r' (fun _ => False)).

  Theorem ir_step4 :
    exists S SM, run_kernel cbca_step_4 [] [S3; SM2; CL; CR; RC; RCR] = Some [S; SM] /\
      ashape S = [nr; nc] /\ ashape SM = [nr; nc] /\
      forall r c, 0 <= r < nr -> 0 <= c < nc ->
        (In c cols -> fval (adata S [r; c]) (E4 r c) /\ fval (adata SM [r; c]) (inject_Z (N4 r c))) /\
        (~ In c cols -> adata S [r; c] = VFlt (Fin 0) /\ adata SM [r; c] = adata SM2 [r; c]).
  Proof.
    destruct HCL as [HCLs HCLd]. destruct HCR as [HCRs HCRd].
    destruct HRC as [HRCs HRCd]. destruct HRCR as [HRCRs HRCRd]. fold m in HRCs, HRCd, HRCRs, HRCRd.
    unfold run_kernel. kred. do 3 (rewrite exec_block_cons; kred; rewrite ?HS3; kred).
    replace (nr + 1 - 1) with nr by lia.
    replace ((0 <=? nr) && ((0 <=? nc) && true)) with true by lia.
    rewrite exec_block_cons; kred.
    rewrite exec_block_cons, exec_for. kred. rewrite py_range_up. replace (nr - 0) with nr by lia.
    set (body := exec_block _). knorm.
    set (Z0 := mkArr [nr; nc] (fun _ => VFlt (Fin 0))).
    destruct (loop_zrange' body 2%nat I_out 0 nr
               (mkSt [Some (VInt (nr + 1)); Some (VInt nc); None; None; None; None]
                     [Some S3; Some SM2; Some CL; Some CR; Some RC; Some RCR; Some Z0; Some SM2])) as (st' & E & I'); auto.
    { exists Z0, SM2, None, None, None, None.
      split; [reflexivity | split; [reflexivity | split; [assumption | split]]].
      - intros; lia.
      - intros r' _ c _. split; [tauto | intros _; split; reflexivity]. }
    { (* one image row *)
      intros r st0 Hr (S & SM & o2 & o3 & o4 & o5 & -> & HS & HSM & Hdone & Hzero).
      unfold body. kred. rewrite exec_block_cons, exec_for. kred. rewrite HRCs. kred. rewrite py_range_up.
      replace (m - 0) with m by lia. set (body2 := exec_block _). knorm.
      destruct (loop_zrange' body2 3%nat (I_in r) 0 m
                 (mkSt [Some (VInt (nr + 1)); Some (VInt nc); Some (VInt r); o3; o4; o5]
                       [Some S3; Some SM2; Some CL; Some CR; Some RC; Some RCR; Some S; Some SM])) as (st2 & E2' & I2); auto.
      { unfold m. lia. }
      { exists S, SM, o3, o4, o5.
        split; [reflexivity | split; [assumption | split; [assumption | split; [assumption | split]]]].
        - intros r' Hr'. apply Hzero. lia.
        - intros c Hc. destruct (Hzero r (Z.le_refl r) c Hc) as [_ Hz]. split.
          + intros W. exfalso. eapply written_0; eauto.
          + intros _. apply Hz. tauto. }
      { (* one entry of range_col *)
        intros i st1 Hi (Sa & SMa & o3' & o4' & o5' & -> & HSa & HSMa & Hdone1 & Hzero1 & Hrow).
        assert (Hin : In (colz cols i) cols) by (apply colz_in; fold m; lia).
        set (c := colz cols i) in *.
        destruct (Hcols c Hin) as [Hc Hcc]. destruct (Harms r c) as [Ht Hb]; [lia | exact Hin |].
        unfold body2. kred.
        do 2 (rewrite exec_block_cons; kred;
              rewrite (aread1_ok RC m), (aread1_ok RCR m) by (auto; lia); rewrite HRCd, HRCRd by lia; fold (colz cols i); fold c; kred;
              rewrite (aread3_ok CL nr nc 4), (aread3_ok CR nr ncR 4) by (auto; lia);
              rewrite HCLd, HCRd by lia; kred).
        unfold arm_at. cbn [Z.eqb Pos.eqb].
        fold (v_top crossL crossR d r c). fold (v_bot crossL crossR d r c).
        set (top := v_top crossL crossR d r c) in *. set (bot := v_bot crossL crossR d r c) in *.
        (* step4[col, c] = step3[col + bot, c] - step3[col - top - 1, c] *)
        rewrite exec_block_cons. kred.
        rewrite (aread1_ok RC m) by (auto; lia). rewrite HRCd by lia. fold (colz cols i). fold c. kred.
        rewrite (aread2_ok S3 (nr + 1) nc) by (auto; lia).
        rewrite (aread2_wrap0 S3 (nr + 1) nc) by (auto; lia).
        destruct (HS3d (r + bot) c) as (q1 & Eq1 & Hq1); [lia | lia |].
        destruct (HS3d (wrap (nr + 1) (r - top - 1)) c) as (q2 & Eq2 & Hq2);
          [unfold wrap; destruct (r - top - 1 <? 0) eqn:?; lia | lia |].
        rewrite Eq1, Eq2. kred.
        rewrite (awrite2_ok Sa nr nc) by (auto; lia). kred.
        (* sum4[col, c] += top + bot *)
        rewrite exec_block_cons. kred.
        rewrite (aread1_ok RC m) by (auto; lia). rewrite HRCd by lia. fold (colz cols i). fold c. kred.
        rewrite (aread2_ok SMa nr nc) by (auto; lia).
        destruct (Hrow c Hc) as [_ Hfresh].
        destruct Hfresh as [_ HSMz]; [apply written_fresh; auto; fold m; lia|].
        destruct (HSM2d r c) as (q0 & Eq0 & Hq0); [lia | lia |].
        rewrite HSMz, Eq0. kred. rewrite (awrite2_ok SMa nr nc) by (auto; lia). kred.
        (* if top != 0: sum4[col, c] += np.sum(sum2[col - top : col, c]) *)
        destruct (asum_slice_ok (r - top) r top c) as (qt & Et & Hqt); try lia.
        destruct (asum_slice_ok (r + 1) (r + bot + 1) bot c) as (qb & Eb & Hqb); try lia.
        assert (Hfin : forall (SMx : arr) (x : Q), ashape SMx = [nr; nc] ->
                  (forall r' c', (r', c') <> (r, c) -> adata SMx [r'; c'] = adata SMa [r'; c']) ->
                  adata SMx [r; c] = VFlt (Fin x) -> x == inject_Z (N4 r c) ->
                  I_in r (i + 1)
                    (mkSt [Some (VInt (nr + 1)); Some (VInt nc); Some (VInt r); Some (VInt i); Some (VInt top); Some (VInt bot)]
                          [Some S3; Some SM2; Some CL; Some CR; Some RC; Some RCR;
                           Some (aupd Sa [r; c] (VFlt (fsub (Fin q1) (Fin q2)))); Some SMx])).
        { intros SMx x HSMx Hoth Hx Hxv.
          eexists _, _, (Some (VInt i)), (Some (VInt top)), (Some (VInt bot)).
          split; [reflexivity | split; [assumption | split; [assumption | split; [| split]]]].
          - intros r' Hr' c' Hc'. rewrite Hoth by (intro X; inversion X; lia).
            rewrite !aupd2_other by (intro X; inversion X; lia). apply Hdone1; auto.
          - intros r' Hr' c' Hc'. rewrite Hoth by (intro X; inversion X; lia).
            rewrite !aupd2_other by (intro X; inversion X; lia). apply Hzero1; auto.
          - intros c' Hc'. destruct (Z.eq_dec c' c) as [->|Hne].
            + rewrite !aupd2_same. split.
              * intros _. split.
                -- exists (Qred (q1 - q2)). split; [reflexivity|]. unfold E4. fold top. fold bot.
                   rewrite Qred_correct, qsub_ok, Hq1, Hq2. reflexivity.
                -- exists x. split; assumption.
              * intros W. exfalso. apply W. apply written_succ; [lia|]. right. reflexivity.
            + rewrite Hoth by (intro X; inversion X; lia).
              rewrite !aupd2_other by (intro X; inversion X; lia).
              destruct (Hrow c' Hc') as [H1 H2]. split.
              * intros W. apply written_succ in W; [|lia].
                destruct W as [W | W]; [auto | exfalso; apply Hne; symmetry; exact W].
              * intros W. apply H2. intro W'. apply W. apply written_succ; [lia|]. left. exact W'. }
        assert (Hoth : forall (SMx : arr), 
                  (forall r' c', (r', c') <> (r, c) -> adata SMx [r'; c'] = adata SMa [r'; c']) ->
                  forall v r' c', (r', c') <> (r, c) -> adata (aupd SMx [r; c] v) [r'; c'] = adata SMa [r'; c']).
        { intros SMx H v r' c' Hne. rewrite aupd2_other by exact Hne. apply H. exact Hne. }
        assert (Hoth0 : forall r' c', (r', c') <> (r, c) -> adata SMa [r'; c'] = adata SMa [r'; c']) by reflexivity.
        assert (HN4 : inject_Z (N4 r c) ==
                  q0 + inject_Z (top + bot) + (if top =? 0 then 0 else qt) + (if bot =? 0 then 0 else qb)).
        { unfold N4. fold top. fold bot. cbv zeta. rewrite !inject_Z_plus, Hq0.
          destruct (top =? 0); destruct (bot =? 0); rewrite ?Hqt, ?Hqb; change (inject_Z 0) with 0%Q; ring. }
        knorm. rewrite exec_block_cons, exec_if. kred.
        destruct (top =? 0) eqn:Etop; cbn [negb bz Z.eqb Pos.eqb].
        - (* top = 0 *)
          rewrite exec_block_nil. rewrite exec_block_cons, exec_if. kred.
          destruct (bot =? 0) eqn:Ebot; cbn [negb bz Z.eqb Pos.eqb].
          + rewrite !exec_block_nil. eexists. split; [reflexivity|].
            eapply Hfin; [exact HSMa | apply Hoth; exact Hoth0 | apply aupd2_same |].
            cbn [fadd]. rewrite Qred_correct, HN4. ring.
          + rewrite exec_block_cons. kred.
            rewrite (aread1_ok RC m) by (auto; lia). rewrite HRCd by lia. fold (colz cols i). fold c. kred.
            rewrite (aread2_ok _ nr nc) by (auto; lia). rewrite aupd2_same. rewrite Eb. kred.
            rewrite (awrite2_ok _ nr nc) by (auto; lia). kred.
            rewrite !exec_block_nil. eexists. split; [reflexivity|].
            eapply Hfin; [exact HSMa | apply Hoth; apply Hoth; exact Hoth0 | apply aupd2_same |].
            cbn [fadd]. rewrite !Qred_correct, HN4. ring.
        - (* top <> 0 *)
          rewrite exec_block_cons. kred.
          rewrite (aread1_ok RC m) by (auto; lia). rewrite HRCd by lia. fold (colz cols i). fold c. kred.
          rewrite (aread2_ok _ nr nc) by (auto; lia). rewrite aupd2_same. rewrite Et. kred.
          rewrite (awrite2_ok _ nr nc) by (auto; lia). kred.
          rewrite exec_block_nil. rewrite exec_block_cons, exec_if. kred.
          destruct (bot =? 0) eqn:Ebot; cbn [negb bz Z.eqb Pos.eqb].
          + rewrite !exec_block_nil. eexists. split; [reflexivity|].
            eapply Hfin; [exact HSMa | apply Hoth; apply Hoth; exact Hoth0 | apply aupd2_same |].
            cbn [fadd]. rewrite !Qred_correct, HN4. ring.
          + rewrite exec_block_cons. kred.
            rewrite (aread1_ok RC m) by (auto; lia). rewrite HRCd by lia. fold (colz cols i). fold c. kred.
            rewrite (aread2_ok _ nr nc) by (auto; lia). rewrite aupd2_same. rewrite Eb. kred.
            rewrite (awrite2_ok _ nr nc) by (auto; lia). kred.
            rewrite !exec_block_nil. eexists. split; [reflexivity|].
            eapply Hfin; [exact HSMa | apply Hoth; apply Hoth; apply Hoth; exact Hoth0 | apply aupd2_same |].
            cbn [fadd]. rewrite !Qred_correct, HN4. ring. }
      rewrite E2'. replace (0 + m) with m in I2 by lia.
      destruct I2 as (S2 & SM2' & o3'' & o4'' & o5'' & -> & HS2 & HSM2' & Hdone2 & Hzero2 & Hrow2).
      rewrite exec_block_nil. eexists. split; [reflexivity|].
      exists S2, SM2', (Some (VInt r)), o3'', o4'', o5''.
      split; [reflexivity | split; [assumption | split; [assumption | split]]].
      - intros r' Hr'. destruct (Z.eq_dec r' r) as [->|].
        + intros c Hc. destruct (Hrow2 c Hc) as [H1 H2]. split.
          * intros Hin. apply H1. apply written_all. exact Hin.
          * intros Hnin. apply H2. intro W. apply Hnin. apply written_all in W. exact W.
        + apply Hdone2. lia.
      - intros r' Hr'. apply Hzero2. lia. }
    rewrite E. replace (0 + nr) with nr in I' by lia.
    destruct I' as (S & SM & o2 & o3 & o4 & o5 & -> & HS & HSM & Hdone & _).
    rewrite exec_block_nil. kred. exists S, SM.
    split; [reflexivity | split; [assumption | split; [assumption|]]].
    intros r c Hr Hc. apply (Hdone r); auto.
  Qed.
End Step4.

(* ================================================================ cross_support *)

(* the image after np.nan_to_num(nan=inf): a masked pixel is +inf *)
Definition of_img (o : option Q) : fl := match o with Some q => Fin q | None => PInf end.

Lemma qle_bool_ext : forall a b b', b == b' -> Qle_bool a b = Qle_bool a b'.
Proof.
  intros a b b' H. destruct (Qle_bool a b) eqn:E1; destruct (Qle_bool a b') eqn:E2; auto.
  - apply Qle_bool_iff in E1. rewrite H in E1. apply Qle_bool_iff in E1. congruence.
  - apply Qle_bool_iff in E2. rewrite <- H in E2. apply Qle_bool_iff in E2. congruence.
Qed.

(* abs(image[p] - image[q]) >= intensity, as IEEE computes it, is the model's [jump] *)
Lemma fle_jump : forall inten v w, fle (Fin inten) (fabs (fsub (Fin v) (of_img w))) = jump v w inten.
Proof.
  intros. destruct w as [x|]; cbn [of_img fsub fabs fle jump fneg fadd]; [|reflexivity].
  apply qle_bool_ext. rewrite Qred_correct. reflexivity.
Qed.

Lemma vun_isfinite_img : forall o, vun UIsFinite (VFlt (of_img o)) = Some (VInt (b2z (isfin o))).
Proof. destruct o; reflexivity. Qed.

Lemma in_range_dec : forall a b q, In q (range_dec a b) -> b < q <= a.
Proof.
  intros a b q H. unfold range_dec in H. apply in_map_iff in H. destruct H as (k & <- & Hk).
  apply in_seq in Hk. lia.
Qed.
Lemma in_range_inc : forall a b q, In q (range_inc a b) -> a <= q < b.
Proof. intros a b q H. unfold range_inc in H. apply in_zrange in H. lia. Qed.

(* `for x in cands: if jump: break; len += 1` on a state described by (len, x) *)
Lemma loop_arm : forall (mk : Z -> Z -> state) (x : nat) (body : state -> res) line v inten,
  (forall l q q', setv x (VInt q') (mk l q) = mk l q') ->
  forall cands,
  (forall l q, In q cands ->
     body (mk l q) = if jump v (line q) inten then RBrk (mk l q) else ROk (mk (l + 1) q)) ->
  forall l q0,
  loop body x cands (mk l q0)
  = ROk (mk (fst (arm_scan line v inten cands l q0)) (snd (arm_scan line v inten cands l q0))).
Proof.
  intros mk x body line v inten Hset. induction cands as [|q rest IH]; intros Hbody l q0.
  - reflexivity.
  - cbn [loop arm_scan]. rewrite Hset. rewrite Hbody by (left; reflexivity).
    destruct (jump v (line q) inten); [reflexivity|].
    apply IH. intros l' q' Hq'. apply Hbody. right. exact Hq'.
Qed.

Lemma arm_scan_last : forall line v inten cands l q0,
  snd (arm_scan line v inten cands l q0) = q0 \/ In (snd (arm_scan line v inten cands l q0)) cands.
Proof.
  induction cands as [|q rest IH]; intros l q0; cbn [arm_scan].
  - left. reflexivity.
  - destruct (jump v (line q) inten); cbn [snd].
    + right. left. reflexivity.
    + destruct (IH (l + 1) q) as [H | H]; [right; left; symmetry; exact H | right; right; exact H].
Qed.

Section CrossSupport.
  Variables (nr nc len : Z) (inten : Q) (I : img) (IM : arr).
  Hypothesis Hnr : 0 <= nr.
  Hypothesis Hnc : 0 <= nc.
  Hypothesis HIM : ashape IM = [nr; nc].
  Hypothesis HIMd : forall r c, 0 <= r < nr -> 0 <= c < nc -> adata IM [r; c] = VFlt (of_img (I r c)).

  Let cs := Cbca.cross_support nr nc I len inten.

  Let row_done (C : arr) (r : Z) : Prop :=
    forall c k, 0 <= c < nc -> 0 <= k < 4 -> adata C [r; c; k] = VInt (arm_at (cs r c) k).
  Let I_in (r c : Z) (st : state) : Prop :=
    exists C o5 o6 o7 o8 o9 o10 o11 o12 o13,
      st = mkSt [Some (VInt len); Some (VFlt (Fin inten)); Some (VInt nr); Some (VInt nc); Some (VInt r);
                 o5; o6; o7; o8; o9; o10; o11; o12; o13] [Some IM; Some C] /\
      ashape C = [nr; nc; 4] /\
      (forall r', 0 <= r' < r -> row_done C r') /\
      (forall r' c' k, r < r' -> adata C [r'; c'; k] = VInt 0) /\
      (forall c' k, 0 <= c' < c -> 0 <= k < 4 -> adata C [r; c'; k] = VInt (arm_at (cs r c') k)) /\
      (forall c' k, c <= c' -> adata C [r; c'; k] = VInt 0).
  Let I_out (r : Z) (st : state) : Prop :=
    exists C o4 o5 o6 o7 o8 o9 o10 o11 o12 o13,
      st = mkSt [Some (VInt len); Some (VFlt (Fin inten)); Some (VInt nr); Some (VInt nc); o4;
                 o5; o6; o7; o8; o9; o10; o11; o12; o13] [Some IM; Some C] /\
      ashape C = [nr; nc; 4] /\
      (forall r', 0 <= r' < r -> row_done C r') /\
      (forall r' c' k, r <= r' -> adata C [r'; c'; k] = VInt 0).

  Lemma arm_at_arms0 : forall k, arm_at arms0 k = 0.
  Proof. intros. unfold arm_at. destruct (k =? 0), (k =? 1), (k =? 2); reflexivity. Qed.

  Theorem ir_cross_support :
    exists C, run_kernel CbcaIR.cross_support [VInt len; VFlt (Fin inten)] [IM] = Some [C] /\
      arms_arr C nr nc cs.
  Proof.
    unfold run_kernel. kred. do 3 (rewrite exec_block_cons; kred; rewrite ?HIM; kred).
    replace ((0 <=? nr) && ((0 <=? nc) && ((0 <=? 4) && true))) with true by lia.
    rewrite exec_block_cons, exec_for. kred. rewrite py_range_up. replace (nr - 0) with nr by lia.
    set (body := exec_block _). knorm.
    set (Z0 := mkArr [nr; nc; 4] (fun _ => VInt 0)).
    destruct (loop_zrange' body 4%nat I_out 0 nr
               (mkSt [Some (VInt len); Some (VFlt (Fin inten)); Some (VInt nr); Some (VInt nc); None;
                      None; None; None; None; None; None; None; None; None] [Some IM; Some Z0])) as (st' & E & I'); auto.
    { exists Z0, None, None, None, None, None, None, None, None, None, None.
      split; [reflexivity | split; [reflexivity | split]]; [intros; lia | reflexivity]. }
    { (* one image row *)
      intros r st0 Hr (C & o4 & o5 & o6 & o7 & o8 & o9 & o10 & o11 & o12 & o13 & -> & HC & Hdone & Hzero).
      unfold body. kred. rewrite exec_block_cons, exec_for. kred. rewrite py_range_up.
      replace (nc - 0) with nc by lia. set (body2 := exec_block _). knorm.
      destruct (loop_zrange' body2 5%nat (I_in r) 0 nc
                 (mkSt [Some (VInt len); Some (VFlt (Fin inten)); Some (VInt nr); Some (VInt nc); Some (VInt r);
                        o5; o6; o7; o8; o9; o10; o11; o12; o13] [Some IM; Some C])) as (st2 & E2' & I2); auto.
      { exists C, o5, o6, o7, o8, o9, o10, o11, o12, o13.
        split; [reflexivity | split; [assumption | split; [assumption | split; [| split]]]].
        - intros. apply Hzero. lia.
        - intros. lia.
        - intros. apply Hzero. lia. }
      { (* one pixel *)
        intros c st1 Hc (C1 & o5' & o6' & o7' & o8' & o9' & o10' & o11' & o12' & o13' & -> & HC1 & Hdone1 & Hzero1 & Hlt & Hge).
        unfold body2. kred. rewrite exec_block_cons, exec_if. kred.
        rewrite (aread2_ok IM nr nc) by (auto; lia). rewrite HIMd by lia. rewrite vun_isfinite_img. kred.
        destruct (I r c) as [v|] eqn:Ev; cbn [isfin b2z Z.eqb Pos.eqb].
        2:{ (* masked pixel: the four arms stay 0 *)
          rewrite !exec_block_nil. eexists. split; [reflexivity|].
          exists C1, (Some (VInt c)), o6', o7', o8', o9', o10', o11', o12', o13'.
          split; [reflexivity | split; [assumption | split; [assumption | split; [assumption | split]]]].
          - intros c' k Hc' Hk. destruct (Z.eq_dec c' c) as [->|].
            + rewrite Hge by lia. unfold cs, Cbca.cross_support. rewrite Ev. rewrite arm_at_arms0. reflexivity.
            + apply Hlt; lia.
          - intros c' k Hc'. apply Hge. lia. }
        knorm.
        (* ---- arm 0 *)
        rewrite exec_block_cons; kred. rewrite exec_block_cons; kred.
        rewrite exec_block_cons, exec_for; kred. rewrite py_range_down.
        set (bodyA0 := exec_block _). knorm.
        match goal with
        | |- context [loop bodyA0 ?x ?cands (mkSt [?a0; ?a1; ?a2; ?a3; ?a4; ?a5; ?a6; ?a7; ?a8; ?a9; ?a10; ?a11; ?a12; ?a13] ?arrs)] =>
            match a6 with Some (VInt ?L0) => match a7 with Some (VInt ?Q0) =>
              pose proof (arm_scan_last (fun k => I r k) v inten cands L0 Q0) as Hlast0;
              assert (HL0 : loop bodyA0 x cands (mkSt [a0; a1; a2; a3; a4; a5; a6; a7; a8; a9; a10; a11; a12; a13] arrs)
                        = ROk ((fun l' q' => mkSt [a0; a1; a2; a3; a4; a5; Some (VInt l'); Some (VInt q'); a8; a9; a10; a11; a12; a13] arrs)
                                 (fst (arm_scan (fun k => I r k) v inten cands L0 Q0))
                                 (snd (arm_scan (fun k => I r k) v inten cands L0 Q0))));
              [apply (loop_arm (fun l' q' => mkSt [a0; a1; a2; a3; a4; a5; Some (VInt l'); Some (VInt q'); a8; a9; a10; a11; a12; a13] arrs) x bodyA0 (fun k => I r k) v inten (fun _ _ _ => eq_refl) cands) |]
            end end
        end.
        { intros l q Hq. apply in_range_dec in Hq. unfold bodyA0. rewrite exec_block_cons, exec_if. kred.
          rewrite !(aread2_ok IM nr nc) by (auto; lia). rewrite !HIMd by lia. rewrite Ev. cbn [of_img]. kred.
          rewrite fle_jump. destruct (jump v _ inten); cbn [bz Z.eqb Pos.eqb].
          - rewrite exec_block_cons. kred. reflexivity.
          - rewrite exec_block_nil. rewrite exec_block_cons. kred. rewrite exec_block_nil. reflexivity. }
        rewrite HL0. clear HL0. cbv beta.
        match goal with |- context [fst (arm_scan ?a ?b ?c0 ?d ?e ?f)] => destruct (arm_scan a b c0 d e f) as [l0 q0] eqn:Es0 end. try rewrite Es0 in Hlast0. cbn [fst snd] in Hlast0 |- *.
        assert (Hq0 : 0 <= q0 < nc).
        { destruct Hlast0 as [-> | Hlast0]; [lia | apply in_range_dec in Hlast0; lia]. }
        rewrite exec_block_cons; kred.
        rewrite (aread2_ok IM nr nc) by (auto; lia). rewrite HIMd by lia. rewrite vun_isfinite_img. kred.
        rewrite (awrite3_ok _ nr nc 4) by (auto; lia). kred.
        (* ---- arm 1 *)
        rewrite exec_block_cons; kred. rewrite exec_block_cons; kred.
        rewrite exec_block_cons, exec_for; kred. rewrite py_range_up.
        set (bodyA1 := exec_block _). knorm.
        match goal with
        | |- context [loop bodyA1 ?x ?cands (mkSt [?a0; ?a1; ?a2; ?a3; ?a4; ?a5; ?a6; ?a7; ?a8; ?a9; ?a10; ?a11; ?a12; ?a13] ?arrs)] =>
            match a8 with Some (VInt ?L0) => match a9 with Some (VInt ?Q0) =>
              pose proof (arm_scan_last (fun k => I r k) v inten cands L0 Q0) as Hlast1;
              assert (HL1 : loop bodyA1 x cands (mkSt [a0; a1; a2; a3; a4; a5; a6; a7; a8; a9; a10; a11; a12; a13] arrs)
                        = ROk ((fun l' q' => mkSt [a0; a1; a2; a3; a4; a5; a6; a7; Some (VInt l'); Some (VInt q'); a10; a11; a12; a13] arrs)
                                 (fst (arm_scan (fun k => I r k) v inten cands L0 Q0))
                                 (snd (arm_scan (fun k => I r k) v inten cands L0 Q0))));
              [apply (loop_arm (fun l' q' => mkSt [a0; a1; a2; a3; a4; a5; a6; a7; Some (VInt l'); Some (VInt q'); a10; a11; a12; a13] arrs) x bodyA1 (fun k => I r k) v inten (fun _ _ _ => eq_refl) cands) |]
            end end
        end.
        { intros l q Hq. apply in_range_inc in Hq. unfold bodyA1. rewrite exec_block_cons, exec_if. kred.
          rewrite !(aread2_ok IM nr nc) by (auto; lia). rewrite !HIMd by lia. rewrite Ev. cbn [of_img]. kred.
          rewrite fle_jump. destruct (jump v _ inten); cbn [bz Z.eqb Pos.eqb].
          - rewrite exec_block_cons. kred. reflexivity.
          - rewrite exec_block_nil. rewrite exec_block_cons. kred. rewrite exec_block_nil. reflexivity. }
        rewrite HL1. clear HL1. cbv beta.
        match goal with |- context [fst (arm_scan ?a ?b ?c0 ?d ?e ?f)] => destruct (arm_scan a b c0 d e f) as [l1 q1] eqn:Es1 end. try rewrite Es1 in Hlast1. cbn [fst snd] in Hlast1 |- *.
        assert (Hq1 : 0 <= q1 < nc).
        { destruct Hlast1 as [-> | Hlast1]; [lia | apply in_range_inc in Hlast1; lia]. }
        rewrite exec_block_cons; kred.
        rewrite (aread2_ok IM nr nc) by (auto; lia). rewrite HIMd by lia. rewrite vun_isfinite_img. kred.
        rewrite (awrite3_ok _ nr nc 4) by (auto; lia). kred.
        (* ---- arm 2 *)
        rewrite exec_block_cons; kred. rewrite exec_block_cons; kred.
        rewrite exec_block_cons, exec_for; kred. rewrite py_range_down.
        set (bodyA2 := exec_block _). knorm.
        match goal with
        | |- context [loop bodyA2 ?x ?cands (mkSt [?a0; ?a1; ?a2; ?a3; ?a4; ?a5; ?a6; ?a7; ?a8; ?a9; ?a10; ?a11; ?a12; ?a13] ?arrs)] =>
            match a10 with Some (VInt ?L0) => match a11 with Some (VInt ?Q0) =>
              pose proof (arm_scan_last (fun k => I k c) v inten cands L0 Q0) as Hlast2;
              assert (HL2 : loop bodyA2 x cands (mkSt [a0; a1; a2; a3; a4; a5; a6; a7; a8; a9; a10; a11; a12; a13] arrs)
                        = ROk ((fun l' q' => mkSt [a0; a1; a2; a3; a4; a5; a6; a7; a8; a9; Some (VInt l'); Some (VInt q'); a12; a13] arrs)
                                 (fst (arm_scan (fun k => I k c) v inten cands L0 Q0))
                                 (snd (arm_scan (fun k => I k c) v inten cands L0 Q0))));
              [apply (loop_arm (fun l' q' => mkSt [a0; a1; a2; a3; a4; a5; a6; a7; a8; a9; Some (VInt l'); Some (VInt q'); a12; a13] arrs) x bodyA2 (fun k => I k c) v inten (fun _ _ _ => eq_refl) cands) |]
            end end
        end.
        { intros l q Hq. apply in_range_dec in Hq. unfold bodyA2. rewrite exec_block_cons, exec_if. kred.
          rewrite !(aread2_ok IM nr nc) by (auto; lia). rewrite !HIMd by lia. rewrite Ev. cbn [of_img]. kred.
          rewrite fle_jump. destruct (jump v _ inten); cbn [bz Z.eqb Pos.eqb].
          - rewrite exec_block_cons. kred. reflexivity.
          - rewrite exec_block_nil. rewrite exec_block_cons. kred. rewrite exec_block_nil. reflexivity. }
        rewrite HL2. clear HL2. cbv beta.
        match goal with |- context [fst (arm_scan ?a ?b ?c0 ?d ?e ?f)] => destruct (arm_scan a b c0 d e f) as [l2 q2] eqn:Es2 end. try rewrite Es2 in Hlast2. cbn [fst snd] in Hlast2 |- *.
        assert (Hq2 : 0 <= q2 < nr).
        { destruct Hlast2 as [-> | Hlast2]; [lia | apply in_range_dec in Hlast2; lia]. }
        rewrite exec_block_cons; kred.
        rewrite (aread2_ok IM nr nc) by (auto; lia). rewrite HIMd by lia. rewrite vun_isfinite_img. kred.
        rewrite (awrite3_ok _ nr nc 4) by (auto; lia). kred.
        (* ---- arm 3 *)
        rewrite exec_block_cons; kred. rewrite exec_block_cons; kred.
        rewrite exec_block_cons, exec_for; kred. rewrite py_range_up.
        set (bodyA3 := exec_block _). knorm.
        match goal with
        | |- context [loop bodyA3 ?x ?cands (mkSt [?a0; ?a1; ?a2; ?a3; ?a4; ?a5; ?a6; ?a7; ?a8; ?a9; ?a10; ?a11; ?a12; ?a13] ?arrs)] =>
            match a12 with Some (VInt ?L0) => match a13 with Some (VInt ?Q0) =>
              pose proof (arm_scan_last (fun k => I k c) v inten cands L0 Q0) as Hlast3;
              assert (HL3 : loop bodyA3 x cands (mkSt [a0; a1; a2; a3; a4; a5; a6; a7; a8; a9; a10; a11; a12; a13] arrs)
                        = ROk ((fun l' q' => mkSt [a0; a1; a2; a3; a4; a5; a6; a7; a8; a9; a10; a11; Some (VInt l'); Some (VInt q')] arrs)
                                 (fst (arm_scan (fun k => I k c) v inten cands L0 Q0))
                                 (snd (arm_scan (fun k => I k c) v inten cands L0 Q0))));
              [apply (loop_arm (fun l' q' => mkSt [a0; a1; a2; a3; a4; a5; a6; a7; a8; a9; a10; a11; Some (VInt l'); Some (VInt q')] arrs) x bodyA3 (fun k => I k c) v inten (fun _ _ _ => eq_refl) cands) |]
            end end
        end.
        { intros l q Hq. apply in_range_inc in Hq. unfold bodyA3. rewrite exec_block_cons, exec_if. kred.
          rewrite !(aread2_ok IM nr nc) by (auto; lia). rewrite !HIMd by lia. rewrite Ev. cbn [of_img]. kred.
          rewrite fle_jump. destruct (jump v _ inten); cbn [bz Z.eqb Pos.eqb].
          - rewrite exec_block_cons. kred. reflexivity.
          - rewrite exec_block_nil. rewrite exec_block_cons. kred. rewrite exec_block_nil. reflexivity. }
        rewrite HL3. clear HL3. cbv beta.
        match goal with |- context [fst (arm_scan ?a ?b ?c0 ?d ?e ?f)] => destruct (arm_scan a b c0 d e f) as [l3 q3] eqn:Es3 end. try rewrite Es3 in Hlast3. cbn [fst snd] in Hlast3 |- *.
        assert (Hq3 : 0 <= q3 < nr).
        { destruct Hlast3 as [-> | Hlast3]; [lia | apply in_range_inc in Hlast3; lia]. }
        rewrite exec_block_cons; kred.
        rewrite (aread2_ok IM nr nc) by (auto; lia). rewrite HIMd by lia. rewrite vun_isfinite_img. kred.
        rewrite (awrite3_ok _ nr nc 4) by (auto; lia). kred.
        rewrite !exec_block_nil. knorm. eexists. split; [reflexivity|].
        eexists _, (Some (VInt c)), _, _, _, _, _, _, _, _.
        split; [reflexivity | split; [exact HC1 | split; [| split; [| split]]]].
        - intros r' Hr' c' k Hc' Hk. rewrite !aupd3_other by (intro X; inversion X; lia). apply Hdone1; auto.
        - intros r' c' k Hr'. rewrite !aupd3_other by (intro X; inversion X; lia). apply Hzero1; auto.
        - intros c' k Hc' Hk. destruct (Z.eq_dec c' c) as [->|Hne].
          + assert (Hcs : cs r c = mkArms (Z.max l0 (1 * bz (1 <=? c) * b2z (isfin (I r q0))))
                                         (Z.max l1 (1 * bz (c <? nc - 1) * b2z (isfin (I r q1))))
                                         (Z.max l2 (1 * bz (1 <=? r) * b2z (isfin (I q2 c))))
                                         (Z.max l3 (1 * bz (r <? nr - 1) * b2z (isfin (I q3 c))))).
            { unfold cs, Cbca.cross_support. rewrite Ev. unfold arm_dec, arm_inc, range_inc.
              rewrite Es0, Es1, Es2, Es3. reflexivity. }
            rewrite Hcs. unfold arm_at.
            assert (Hk4 : k = 0 \/ k = 1 \/ k = 2 \/ k = 3) by lia.
            destruct Hk4 as [-> | [-> | [-> | ->]]]; cbn [Z.eqb Pos.eqb aL aR aT aB];
              rewrite ?aupd3_same; rewrite ?aupd3_other by (intro X; inversion X); rewrite ?aupd3_same;
              rewrite ?aupd3_other by (intro X; inversion X); rewrite ?aupd3_same;
              rewrite ?aupd3_other by (intro X; inversion X); rewrite ?aupd3_same; reflexivity.
          + rewrite !aupd3_other by (intro X; inversion X; lia). apply Hlt; lia.
        - intros c' k Hc'. rewrite !aupd3_other by (intro X; inversion X; lia). apply Hge. lia. }
      rewrite E2'. replace (0 + nc) with nc in I2 by lia.
      destruct I2 as (C2 & o5'' & o6'' & o7'' & o8'' & o9'' & o10'' & o11'' & o12'' & o13'' & -> & HC2 & Hdone2 & Hzero2 & Hlt2 & _).
      rewrite exec_block_nil. eexists. split; [reflexivity|].
      exists C2, (Some (VInt r)), o5'', o6'', o7'', o8'', o9'', o10'', o11'', o12'', o13''.
      split; [reflexivity | split; [assumption | split]].
      - intros r' Hr'. destruct (Z.eq_dec r' r) as [->|].
        + intros c k Hc Hk. apply Hlt2; lia.
        + apply Hdone2. lia.
      - intros r' c' k Hr'. apply Hzero2. lia. }
    rewrite E. replace (0 + nr) with nr in I' by lia.
    destruct I' as (C & o4 & o5 & o6 & o7 & o8 & o9 & o10 & o11 & o12 & o13 & -> & HC & Hdone & _).
    rewrite exec_block_nil. kred. exists C. split; [reflexivity|]. split; [exact HC|].
    intros r c k Hr Hc Hk. apply (Hdone r Hr c k Hc Hk).
  Qed.
End CrossSupport.

(* ================================================================ one plane: the four kernels chained *)

Lemma valid_cols_in : forall nc ncR d c, In c (valid_cols nc ncR d) <-> 0 <= c < nc /\ valid_col ncR d c = true.
Proof.
  intros. unfold valid_cols. rewrite filter_In, in_zrange. split; intros [H1 H2]; split; auto; lia.
Qed.
Lemma valid_cols_nodup : forall nc ncR d, NoDup (valid_cols nc ncR d).
Proof. intros. unfold valid_cols. apply NoDup_filter. rewrite zrange_span. apply NoDup_span. Qed.

Section PlaneIR.
  Variables (nr nc ncR : Z) (crossL crossR : Z -> Z -> arms) (d : Q) (cv : Z -> Z -> option Q).
  Variables (armL armR : dir -> Z -> Z -> Z).
  Hypothesis Hnr : 1 <= nr.
  Hypothesis Hnc : 1 <= nc.
  Hypothesis HL : forall r c, 0 <= r < nr -> 0 <= c < nc ->
    crossL r c = mkArms (armL DLeft r c) (armL DRight r c) (armL DUp r c) (armL DDown r c).
  Hypothesis HR : forall r c, 0 <= r < nr -> 0 <= c < ncR ->
    crossR r c = mkArms (armR DLeft r c) (armR DRight r c) (armR DUp r c) (armR DDown r c).
  Hypothesis BL : forall r c, 0 <= r < nr -> 0 <= c < nc ->
    0 <= armL DLeft r c <= c /\ 0 <= armL DRight r c <= nc - 1 - c /\
    0 <= armL DUp r c <= r /\ 0 <= armL DDown r c <= nr - 1 - r.
  Hypothesis BR : forall dd r c, 0 <= r < nr -> 0 <= c < ncR -> 0 <= armR dd r c.
  Hypothesis Hguard : forall r c, 0 <= r < nr -> 0 <= c < nc -> valid_col ncR d c = false -> cv r c = None.

  Variables (k1 k2 k3 k4 : kernel).
  Hypothesis Hk1 : k1 = cbca_step_1.
  Hypothesis Hk2 : k2 = cbca_step_2.
  Hypothesis Hk3 : k3 = cbca_step_3.
  Hypothesis Hk4 : k4 = cbca_step_4.

  Variables (CV CL CR RC RCR : arr).
  Hypothesis HCV : ashape CV = [nr; nc].
  Hypothesis HCVd : forall r c, 0 <= r < nr -> 0 <= c < nc -> adata CV [r; c] = VFlt (of_cost (cv r c)).
  Hypothesis HCL : arms_arr CL nr nc crossL.
  Hypothesis HCR : arms_arr CR nr ncR crossR.
  Hypothesis HRC : ints_arr RC (valid_cols nc ncR d) (fun c => c).
  Hypothesis HRCR : ints_arr RCR (valid_cols nc ncR d) (corr d).

  Let cols := valid_cols nc ncR d.
  Let s1 := step1 nc cv.
  Let s2 := step2 nc ncR crossL crossR d s1.
  Let sm2 := sum2 ncR crossL crossR d.
  Let s3 := step3 nr s2.

  Lemma cols_range : forall c, In c cols -> 0 <= c < nc /\ 0 <= corr d c < ncR.
  Proof.
    intros c H. apply valid_cols_in in H. destruct H as [H1 H2]. split; auto.
    rewrite corr_shift. apply valid_col_iff. exact H2.
  Qed.

  (* the four kernels run without leaving their arrays and compute step4 / sum4 of the model *)
  Theorem ir_plane_eq :
    exists S4 SM4, ir_plane k1 k2 k3 k4 CV CL CR RC RCR = Some (S4, SM4) /\
      forall r c, 0 <= r < nr -> 0 <= c < nc ->
        fval (adata S4 [r; c]) (step4 nr ncR crossL crossR d s3 r c) /\
        fval (adata SM4 [r; c]) (inject_Z (sum4 ncR crossL crossR d sm2 r c)).
  Proof.
    subst k1 k2 k3 k4. unfold ir_plane.
    destruct (ir_step1 nr nc cv CV) as (S1 & E1 & HS1 & HS1d); auto; try lia. rewrite E1.
    destruct (ir_step2 nr nc ncR crossL crossR d s1 S1 CL CR RC RCR cols) as (S2 & SM2 & E2 & HS2 & HSM2 & H2);
      auto; try lia.
    { apply valid_cols_nodup. }
    { apply cols_range. }
    { intros r c Hr Hin. apply valid_cols_in in Hin. destruct Hin as [Hc Hv].
      destruct (arms_combined nr nc ncR crossL crossR d armL armR HL HR r c Hr Hc Hv) as (A1 & A2 & _ & _).
      destruct (ca_bounds nr nc ncR d armL armR BL BR r c Hr Hc Hv) as (B1 & B2 & _ & _).
      rewrite A1, A2. split; assumption. }
    rewrite E2.
    assert (HS2d : forall r c, 0 <= r < nr -> 0 <= c < nc ->
              fval (adata S2 [r; c]) (s2 r c) /\ fval (adata SM2 [r; c]) (inject_Z (sm2 r c))).
    { intros r c Hr Hc. destruct (H2 r c Hr Hc) as [Hin Hout]. unfold s2, sm2, step2, sum2.
      destruct (valid_col ncR d c) eqn:Hv.
      - apply Hin. apply valid_cols_in. split; assumption.
      - destruct Hout as [-> ->].
        { intro Hin'. apply valid_cols_in in Hin'. destruct Hin' as [_ Hv']. congruence. }
        split; apply fval_fin. }
    destruct (ir_step3 nr nc s2 S2) as (S3 & E3 & HS3 & HS3d); auto; try lia.
    { intros r c Hr Hc. apply HS2d; assumption. }
    rewrite E3.
    destruct (ir_step4 nr nc ncR crossL crossR d s3 sm2 S3 SM2 CL CR RC RCR cols) as (S4 & SM4 & E4 & HS4 & HSM4 & H4);
      auto; try lia.
    { intros r c Hr Hc. apply HS2d; assumption. }
    { apply valid_cols_nodup. }
    { apply cols_range. }
    { intros r c Hr Hin. apply valid_cols_in in Hin. destruct Hin as [Hc Hv].
      destruct (arms_combined nr nc ncR crossL crossR d armL armR HL HR r c Hr Hc Hv) as (_ & _ & A3 & A4).
      destruct (ca_bounds nr nc ncR d armL armR BL BR r c Hr Hc Hv) as (_ & _ & B3 & B4).
      rewrite A3, A4. split; assumption. }
    rewrite E4. exists S4, SM4. split; [reflexivity|].
    intros r c Hr Hc. destruct (H4 r c Hr Hc) as [Hin Hout]. unfold step4, sum4.
    destruct (valid_col ncR d c) eqn:Hv.
    - apply Hin. apply valid_cols_in. split; assumption.
    - destruct Hout as [-> ->].
      { intro Hin'. apply valid_cols_in in Hin'. destruct Hin' as [_ Hv']. congruence. }
      split; [apply fval_fin | apply HS2d; assumption].
  Qed.

  (* ... followed by the anchor, the NaN re-injection and the normalisation: the mean of the
     computable costs over the combined support region of the specification *)
  Theorem ir_plane_spec :
    exists S4 SM4, ir_plane k1 k2 k3 k4 CV CL CR RC RCR = Some (S4, SM4) /\
      forall r c, 0 <= r < nr -> 0 <= c < nc ->
        finish_cell (cv r c) (adata S4 [r; c]) (adata SM4 [r; c])
        = Some (match cv r c with
                | None => None
                | Some _ => Some (Qred (region_mean armL armR (Qfloor d) cv r c))
                end).
  Proof.
    destruct ir_plane_eq as (S4 & SM4 & E & H). exists S4, SM4. split; [exact E|].
    intros r c Hr Hc. destruct (H r c Hr Hc) as [(a & Ea & Ha) (n & En & Hn)].
    rewrite Ea, En. cbn [finish_cell]. f_equal.
    destruct (cv r c) eqn:Ecv; [|reflexivity].
    destruct (valid_col ncR d c) eqn:Hv.
    2:{ rewrite Hguard in Ecv by assumption. discriminate. }
    f_equal. apply Qred_complete. unfold region_mean.
    rewrite Ha, Hn.
    rewrite (step4_is_region_sum nr nc ncR crossL crossR d cv armL armR Hnr Hnc HL HR BL BR s1 s2 s3); auto.
    setoid_replace (inject_Z (sum4 ncR crossL crossR d sm2 r c) + 1)%Q
      with (inject_Z (Z.of_nat (length (region armL armR (Qfloor d) r c)))).
    - unfold Qdiv. ring.
    - rewrite <- (sum4_is_region_size nr nc ncR crossL crossR d armL armR HL HR BL BR sm2 r c); auto.
      rewrite inject_Z_plus. reflexivity.
  Qed.
End PlaneIR.

(* ================================================================ the whole step on the kernels of the source *)

Section FinalIR.
  Variable x : cbca_in.
  Hypothesis Hdist : 1 <= i_dist x.
  Hypothesis Hsub : 1 <= i_subpix x.
  Hypothesis Hoff : 0 <= i_off x.
  Hypothesis Hcnr : 1 <= cnr x.
  Hypothesis Hcnc : 1 <= cnc x.

  Variables (kx k1 k2 k3 k4 : kernel).
  Hypothesis Hkx : kx = CbcaIR.cross_support.
  Hypothesis Hk1 : k1 = cbca_step_1.
  Hypothesis Hk2 : k2 = cbca_step_2.
  Hypothesis Hk3 : k3 = cbca_step_3.
  Hypothesis Hk4 : k4 = cbca_step_4.

  (* an image as the float32 array given to cross_support (NaN already turned into +inf) *)
  Definition img_arr (A : arr) (nr nc : Z) (I : img) : Prop :=
    ashape A = [nr; nc] /\ forall r c, 0 <= r < nr -> 0 <= c < nc -> adata A [r; c] = VFlt (of_img (I r c)).
  (* a plane of the cost volume as the float32 array given to cbca_step_1 *)
  Definition cost_arr (A : arr) (nr nc : Z) (cv : Z -> Z -> option Q) : Prop :=
    ashape A = [nr; nc] /\ forall r c, 0 <= r < nr -> 0 <= c < nc -> adata A [r; c] = VFlt (of_cost (cv r c)).

  Theorem ir_cbca_eq_spec : forall k r c,
    0 <= k < n_disp x -> in_crop x r c = true ->
    let d := nth_disp x k in
    let s := plane_image (i_subpix x) d in
    let cv := crop (i_off x) (i_cv x k) in
    (forall r' c', 0 <= r' < cnr x -> 0 <= c' < cnc x ->
                   ~ (0 <= c' + plane_shift d < cncR x s) ->
                   i_cv x k (r' + i_off x) (c' + i_off x) = None) ->
    forall IML IMR CV RC RCR,
    img_arr IML (cnr x) (cnc x) (crop (i_off x) (left_filtered x)) ->
    img_arr IMR (cnr x) (cncR x s) (crop (i_off x) (right_filtered x s)) ->
    cost_arr CV (cnr x) (cnc x) cv ->
    ints_arr RC (valid_cols (cnc x) (cncR x s) d) (fun c0 => c0) ->
    ints_arr RCR (valid_cols (cnc x) (cncR x s) d) (corr d) ->
    exists CL CR S4 SM4,
      run_kernel kx [VInt (i_dist x); VFlt (Fin (i_inten x))] [IML] = Some [CL] /\
      run_kernel kx [VInt (i_dist x); VFlt (Fin (i_inten x))] [IMR] = Some [CR] /\
      ir_plane k1 k2 k3 k4 CV CL CR RC RCR = Some (S4, SM4) /\
      finish_cell (cv (r - i_off x) (c - i_off x))
                  (adata S4 [r - i_off x; c - i_off x]) (adata SM4 [r - i_off x; c - i_off x])
      = Some (agg_spec (spec_left x) (spec_right x s) (i_dist x) (i_inten x) (plane_shift d) cv
                       (r - i_off x) (c - i_off x)).
  Proof.
    intros k r c Hk Hin d s cv Hguard IML IMR CV RC RCR [HIML HIMLd] [HIMR HIMRd] [HCV HCVd] HRC HRCR.
    destruct (in_crop_range x Hoff r c Hin) as (R1 & R2 & R3 & R4).
    assert (HncR : 0 <= cncR x s).
    { unfold cncR, ncR_full, cnc in *. destruct (s =? 0); lia. }
    subst kx.
    destruct (ir_cross_support (cnr x) (cnc x) (i_dist x) (i_inten x) (crop (i_off x) (left_filtered x)) IML)
      as (CL & ECL & HCL); auto; try lia.
    destruct (ir_cross_support (cnr x) (cncR x s) (i_dist x) (i_inten x) (crop (i_off x) (right_filtered x s)) IMR)
      as (CR & ECR & HCR); auto; try lia.
    destruct (ir_plane_spec (cnr x) (cnc x) (cncR x s)
                (Cbca.cross_support (cnr x) (cnc x) (crop (i_off x) (left_filtered x)) (i_dist x) (i_inten x))
                (Cbca.cross_support (cnr x) (cncR x s) (crop (i_off x) (right_filtered x s)) (i_dist x) (i_inten x))
                d cv
                (spec_arm (spec_left x) (i_dist x) (i_inten x)) (spec_arm (spec_right x s) (i_dist x) (i_inten x))
                Hcnr Hcnc) with (k1 := k1) (k2 := k2) (k3 := k3) (k4 := k4) (CV := CV) (CL := CL) (CR := CR) (RC := RC) (RCR := RCR)
      as (S4 & SM4 & E & H); auto.
    - intros r0 c0 Hr0 Hc0. apply arms_spec; auto.
    - intros r0 c0 Hr0 Hc0. apply arms_spec; auto.
    - intros. apply (spec_arm_in_image (spec_left x)); simpl; auto.
    - intros. apply (spec_arm_inside (spec_right x s)).
    - intros r' c' Hr' Hc' Hv. unfold cv, crop. apply Hguard; auto.
      intro A. apply valid_col_iff in A. unfold plane_shift in *. congruence.
    - exists CL, CR, S4, SM4. split; [exact ECL | split; [exact ECR | split; [exact E|]]].
      rewrite H by lia. reflexivity.
  Qed.
End FinalIR.

(* ================================================================ the same, for any kernel that IS the canonical tree
   (Props/C11.v instantiates these with the trees regenerated from the source, k = canonical by reflexivity) *)

Lemma gen_step1 : forall k, k = cbca_step_1 ->
  forall nr nc cv A, 0 <= nr -> 0 <= nc -> ashape A = [nr; nc] ->
    (forall r c, 0 <= r < nr -> 0 <= c < nc -> adata A [r; c] = VFlt (of_cost (cv r c))) ->
    exists S, run_kernel k [] [A] = Some [S] /\ ashape S = [nr; nc + 1] /\
      forall r c, 0 <= r < nr -> 0 <= c < nc + 1 -> fval (adata S [r; c]) (step1 nc cv r c).
Proof. intros k ->. exact ir_step1. Qed.

Lemma gen_step2 : forall k, k = cbca_step_2 ->
  forall nr nc ncR crossL crossR d s1 S1 CL CR RC RCR cols,
    0 <= nr -> 0 <= nc -> ashape S1 = [nr; nc + 1] ->
    (forall r c, 0 <= r < nr -> 0 <= c < nc + 1 -> fval (adata S1 [r; c]) (s1 r c)) ->
    arms_arr CL nr nc crossL -> arms_arr CR nr ncR crossR ->
    ints_arr RC cols (fun c => c) -> ints_arr RCR cols (corr d) -> NoDup cols ->
    (forall c, In c cols -> 0 <= c < nc /\ 0 <= corr d c < ncR) ->
    (forall r c, 0 <= r < nr -> In c cols ->
       0 <= h_left crossL crossR d r c <= c /\ 0 <= h_right crossL crossR d r c <= nc - 1 - c) ->
    exists S SM, run_kernel k [] [S1; CL; CR; RC; RCR] = Some [S; SM] /\
      ashape S = [nr; nc] /\ ashape SM = [nr; nc] /\
      forall r c, 0 <= r < nr -> 0 <= c < nc ->
        (In c cols ->
           fval (adata S [r; c]) (qsub (s1 r (c + h_right crossL crossR d r c))
                                       (s1 r (wrap (nc + 1) (c - h_left crossL crossR d r c - 1)))) /\
           fval (adata SM [r; c]) (inject_Z (h_right crossL crossR d r c + h_left crossL crossR d r c))) /\
        (~ In c cols -> adata S [r; c] = VFlt (Fin 0) /\ adata SM [r; c] = VFlt (Fin 0)).
Proof. intros k ->. exact ir_step2. Qed.

Lemma gen_step3 : forall k, k = cbca_step_3 ->
  forall nr nc s2 B, 1 <= nr -> 0 <= nc -> ashape B = [nr; nc] ->
    (forall r c, 0 <= r < nr -> 0 <= c < nc -> fval (adata B [r; c]) (s2 r c)) ->
    exists S, run_kernel k [] [B] = Some [S] /\ ashape S = [nr + 1; nc] /\
      forall r c, 0 <= r < nr + 1 -> 0 <= c < nc -> fval (adata S [r; c]) (step3 nr s2 r c).
Proof. intros k ->. exact ir_step3. Qed.

Lemma gen_step4 : forall k, k = cbca_step_4 ->
  forall nr nc ncR crossL crossR d s3 sm2 S3 SM2 CL CR RC RCR cols,
    0 <= nr -> 0 <= nc -> ashape S3 = [nr + 1; nc] ->
    (forall r c, 0 <= r < nr + 1 -> 0 <= c < nc -> fval (adata S3 [r; c]) (s3 r c)) ->
    ashape SM2 = [nr; nc] ->
    (forall r c, 0 <= r < nr -> 0 <= c < nc -> fval (adata SM2 [r; c]) (inject_Z (sm2 r c))) ->
    arms_arr CL nr nc crossL -> arms_arr CR nr ncR crossR ->
    ints_arr RC cols (fun c => c) -> ints_arr RCR cols (corr d) -> NoDup cols ->
    (forall c, In c cols -> 0 <= c < nc /\ 0 <= corr d c < ncR) ->
    (forall r c, 0 <= r < nr -> In c cols ->
       0 <= v_top crossL crossR d r c <= r /\ 0 <= v_bot crossL crossR d r c <= nr - 1 - r) ->
    exists S SM, run_kernel k [] [S3; SM2; CL; CR; RC; RCR] = Some [S; SM] /\
      ashape S = [nr; nc] /\ ashape SM = [nr; nc] /\
      forall r c, 0 <= r < nr -> 0 <= c < nc ->
        (In c cols ->
           fval (adata S [r; c]) (qsub (s3 (r + v_bot crossL crossR d r c) c)
                                       (s3 (wrap (nr + 1) (r - v_top crossL crossR d r c - 1)) c)) /\
           fval (adata SM [r; c])
                (inject_Z (let top := v_top crossL crossR d r c in
                           let bot := v_bot crossL crossR d r c in
                           sm2 r c + (top + bot)
                           + (if top =? 0 then 0 else zsum (map (fun k0 => sm2 k0 c) (zrange (r - top) top)))
                           + (if bot =? 0 then 0 else zsum (map (fun k0 => sm2 k0 c) (zrange (r + 1) bot)))))) /\
        (~ In c cols -> adata S [r; c] = VFlt (Fin 0) /\ adata SM [r; c] = adata SM2 [r; c]).
Proof. intros k ->. exact ir_step4. Qed.

Lemma gen_cross_support : forall k, k = CbcaIR.cross_support ->
  forall nr nc len inten I IM, 0 <= nr -> 0 <= nc -> ashape IM = [nr; nc] ->
    (forall r c, 0 <= r < nr -> 0 <= c < nc -> adata IM [r; c] = VFlt (of_img (I r c))) ->
    exists C, run_kernel k [VInt len; VFlt (Fin inten)] [IM] = Some [C] /\
      arms_arr C nr nc (Cbca.cross_support nr nc I len inten).
Proof. intros k ->. exact ir_cross_support. Qed.

(* ================================================================ the int32 cells of cross_support
   The evaluator computes with unbounded integers; the arms are stored in an int32 array (int16
   before the `fix:` commit of the tree under test: arms of 32768 pixels or more wrapped around).
   An arm is at most max(1, cbca_distance - 1) and stays inside the image, so the store is exact
   as soon as cbca_distance <= 2^31 or both sides of the image are <= 2^31. *)

Lemma ray_arm_le : forall get dist inten v, ray_arm get dist inten v <= Z.max 1 (dist - 1).
Proof.
  intros. unfold ray_arm.
  pose proof (take_while_span (takes get inten v) (Z.to_nat (dist - 1)) 1) as T.
  cbv zeta in T. destruct T as (T1 & _ & _).
  set (k' := length (take_while (takes get inten v) (span 1 (Z.to_nat (dist - 1))))) in *.
  destruct (0 <? Z.of_nat k') eqn:E; [lia|]. destruct (get 1); lia.
Qed.

Lemma spec_arm_le : forall I dist inten dd r c, 0 <= spec_arm I dist inten dd r c <= Z.max 1 (dist - 1).
Proof.
  intros. split; [apply spec_arm_inside|]. unfold spec_arm. destruct (px I r c); [apply ray_arm_le | lia].
Qed.

Theorem arms_fit : forall bound nr nc len inten I r c k,
  1 <= bound -> 1 <= len -> 0 <= r < nr -> 0 <= c < nc -> 0 <= k < 4 ->
  len <= bound + 1 \/ (nr <= bound + 1 /\ nc <= bound + 1) ->
  0 <= arm_at (Cbca.cross_support nr nc I len inten r c) k <= bound.
Proof.
  intros bound nr nc len inten I r c k Hb Hlen Hr Hc Hk Hsz.
  rewrite arms_spec by assumption. cbv zeta.
  destruct (spec_arm_in_image (mkF nr nc I) len inten r c) as (B1 & B2 & B3 & B4); [exact Hr | exact Hc |].
  cbn [f_nr f_nc] in *.
  pose proof (spec_arm_le (mkF nr nc I) len inten DLeft r c).
  pose proof (spec_arm_le (mkF nr nc I) len inten DRight r c).
  pose proof (spec_arm_le (mkF nr nc I) len inten DUp r c).
  pose proof (spec_arm_le (mkF nr nc I) len inten DDown r c).
  unfold arm_at. cbn [aL aR aT aB].
  destruct (k =? 0); [lia|]. destruct (k =? 1); [lia|]. destruct (k =? 2); lia.
Qed.

Corollary arms_fit_int32 : forall nr nc len inten I r c k,
  1 <= len -> 0 <= r < nr -> 0 <= c < nc -> 0 <= k < 4 ->
  len <= 2147483648 \/ (nr <= 2147483648 /\ nc <= 2147483648) ->
  0 <= arm_at (Cbca.cross_support nr nc I len inten r c) k <= 2147483647.
Proof. intros. apply arms_fit; auto; lia. Qed.

(* the witness of the defect repaired in the tree under test: an arm that does not fit int16
   (computed once here: 33000 candidates; Props/C11.v only restates it) *)
Lemma int16_witness :
  aL (Cbca.cross_support 1 33000 (fun _ _ => Some 7%Q) 40000 (5 # 1) 0 32999) = 32999 /\ 32767 < 32999 <= 2147483647.
Proof. split; [vm_compute; reflexivity | lia]. Qed.
