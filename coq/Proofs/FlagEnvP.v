(* C04 -- what a well-formed environment (constants + flag sites regenerated from the source,
   [wf_env E = true]) says about every write: the constant it carries, the operators it may use,
   and the normal form of [fire] when the write is carry-free.  Also the small bit-arithmetic
   facts (+ on a clear bit is `or`, - on a set bit is `and not`). *)
From Coq Require Import ZArith List Bool Lia.
From Pandora Require Import Model.Criteria Model.FlagSteps.
Import ListNotations.
Open Scope Z_scope.

(* ------------------------------------------------------------------ bit arithmetic *)

Lemma add_clear_lor : forall m v, Z.land m v = 0 -> m + v = Z.lor m v.
Proof. intros m v H. rewrite Z.add_nocarry_lxor by exact H. apply Z.lxor_lor, H. Qed.

Lemma sub_set_ldiff : forall m v, Z.land m v = v -> m - v = Z.ldiff m v.
Proof.
  intros m v H. apply Z.sub_nocarry_ldiff.
  apply Z.bits_inj'. intros n _. rewrite Z.ldiff_spec, Z.bits_0.
  rewrite <- H at 1. rewrite Z.land_spec.
  destruct (Z.testbit m n), (Z.testbit v n); reflexivity.
Qed.

(* ------------------------------------------------------------------ roles *)

Lemma role_eqb_eq : forall a b, role_eqb a b = true -> a = b.
Proof. intros a b; destruct a, b; cbv; congruence. Qed.

Lemma role_eqb_refl : forall a, role_eqb a a = true.
Proof. intros a; unfold role_eqb. apply Z.eqb_refl. Qed.

Lemma roles_eqb_eq : forall a b, roles_eqb a b = true -> a = b.
Proof.
  induction a as [|x a IH]; destruct b as [|y b]; cbn; try congruence.
  intro H. apply andb_true_iff in H as [H1 H2]. f_equal; [apply role_eqb_eq, H1 | apply IH, H2].
Qed.

Lemma role_in_all : forall r, In r all_roles.
Proof. intro r; destruct r; cbv; tauto. Qed.

Lemma cname_in_all : forall c, In c all_cnames.
Proof. intro c; destruct c; cbv; tauto. Qed.

Section Wf.
  Variable E : env.
  Hypothesis Hwf : wf_env E = true.

  Lemma wf_const : forall c, e_const E c = doc_value c.
  Proof.
    intro c. unfold wf_env, wf_consts in Hwf. apply andb_true_iff in Hwf as [H _].
    rewrite forallb_forall in H. apply Z.eqb_eq, H, cname_in_all.
  Qed.

  Lemma wf_site : forall r, s_role (site_of E r) = r /\ check_site (site_of E r) = true.
  Proof.
    intro r. unfold wf_env, wf_sites in Hwf. apply andb_true_iff in Hwf as [_ H].
    apply andb_true_iff in H as [Hr Hc]. apply roles_eqb_eq in Hr. rewrite forallb_forall in Hc.
    unfold site_of. destruct (find (fun s => role_eqb (s_role s) r) (e_sites E)) eqn:F.
    - apply find_some in F as [Hin Heq]. apply role_eqb_eq in Heq. split; [exact Heq | apply Hc, Hin].
    - exfalso. pose proof (role_in_all r) as Hin. rewrite <- Hr in Hin. apply in_map_iff in Hin as (s & Hs & Hin).
      pose proof (find_none _ _ F s Hin) as Hn. cbn in Hn. rewrite Hs, role_eqb_refl in Hn. discriminate.
  Qed.

  (* what a role adds / removes / sets *)
  Definition adds (r : role) : option cname :=
    match role_class r with
    | CAddFresh c _ | CAddGuarded c _ _ | CAddIdem c _ _ | COr c => Some c
    | _ => None
    end.
  Definition subs (r : role) : option cname :=
    match role_class r with CSubGuarded c _ _ => Some c | _ => None end.
  Definition sets (r : role) : option cname :=
    match role_class r with CSet c => Some c | _ => None end.

  Lemma expr_ok_val : forall c sh e, expr_ok c sh e = true -> expr_val (e_const E) e = doc_value c.
  Proof.
    intros c sh e H. destruct sh, e; cbn in H; try discriminate.
    - cbn. rewrite wf_const. unfold cname_eqb in H. apply Z.eqb_eq in H. destruct c, c0; cbv in H; try discriminate; reflexivity.
    - cbn. rewrite wf_const. unfold cname_eqb in H. apply Z.eqb_eq in H. destruct c, c0; cbv in H; try discriminate; reflexivity.
    - destruct l as [|c' [|? ?]]; try discriminate. destruct zero; try discriminate.
      cbn. rewrite wf_const. unfold cname_eqb in H. apply Z.eqb_eq in H. destruct c, c'; cbv in H; try discriminate; reflexivity.
  Qed.

  (* an adding role: operator += or |=, constant the documented one *)
  Lemma wf_adds : forall r c, adds r = Some c ->
    (s_op (site_of E r) = OpAdd \/ s_op (site_of E r) = OpOr)
    /\ expr_val (e_const E) (s_expr (site_of E r)) = doc_value c.
  Proof.
    intros r c H. destruct (wf_site r) as [Hr Hc]. unfold check_site in Hc. rewrite Hr in Hc.
    unfold adds in H. destruct (role_class r) eqn:C; try discriminate; inversion H; subst;
      repeat (apply andb_true_iff in Hc as [Hc ?]).
    - split; [destruct (s_op (site_of E r)); cbn in Hc; try discriminate; auto | eapply expr_ok_val; eauto].
    - split; [destruct (s_op (site_of E r)); cbn in Hc; try discriminate; auto | eapply expr_ok_val; eauto].
    - split; [destruct (s_op (site_of E r)); cbn in Hc; try discriminate; auto | eapply expr_ok_val; eauto].
    - split; [destruct (s_op (site_of E r)); cbn in Hc; try discriminate; auto | eapply expr_ok_val; eauto].
  Qed.

  Lemma wf_subs : forall r c, subs r = Some c ->
    s_op (site_of E r) = OpSub /\ expr_val (e_const E) (s_expr (site_of E r)) = doc_value c.
  Proof.
    intros r c H. destruct (wf_site r) as [Hr Hc]. unfold check_site in Hc. rewrite Hr in Hc.
    unfold subs in H. destruct (role_class r) eqn:C; try discriminate; inversion H; subst.
    repeat (apply andb_true_iff in Hc as [Hc ?]).
    split; [destruct (s_op (site_of E r)); cbn in Hc; try discriminate; auto | eapply expr_ok_val; eauto].
  Qed.

  Lemma wf_sets : forall r c, sets r = Some c ->
    s_op (site_of E r) = OpSet /\ expr_val (e_const E) (s_expr (site_of E r)) = doc_value c.
  Proof.
    intros r c H. destruct (wf_site r) as [Hr Hc]. unfold check_site in Hc. rewrite Hr in Hc.
    unfold sets in H. destruct (role_class r) eqn:C; try discriminate; inversion H; subst.
    apply andb_true_iff in Hc as [Hc ?].
    split; [destruct (s_op (site_of E r)); cbn in Hc; try discriminate; auto | eapply expr_ok_val; eauto].
  Qed.

  Definition bval (b : bool) (c : cname) : Z := if b then doc_value c else 0.

  (* normal forms of a write *)
  Lemma fire_add : forall r c m b, adds r = Some c -> Z.land m (bval b c) = 0 ->
    fire E r m b = Z.lor m (bval b c) /\ fire E r m b = m + bval b c /\ fire_ok E r m b = true.
  Proof.
    intros r c m b Ha Hl. destruct (wf_adds r c Ha) as [Hop Hv]. unfold fire, fire_ok. rewrite Hv.
    fold (bval b c). destruct Hop as [-> | ->]; cbn [apply_op].
    - rewrite Hl. rewrite (add_clear_lor _ _ Hl). auto.
    - rewrite (add_clear_lor _ _ Hl). auto.
  Qed.

  Lemma fire_or : forall r c m b, adds r = Some c -> is_or E r = true ->
    fire E r m b = Z.lor m (bval b c) /\ fire_ok E r m b = true.
  Proof.
    intros r c m b Ha Ho. destruct (wf_adds r c Ha) as [_ Hv]. unfold fire, fire_ok, is_or in *. rewrite Hv.
    destruct (s_op (site_of E r)); try discriminate. auto.
  Qed.

  Lemma fire_sub : forall r c m b, subs r = Some c -> Z.land m (bval b c) = bval b c ->
    fire E r m b = Z.ldiff m (bval b c) /\ fire_ok E r m b = true.
  Proof.
    intros r c m b Hs Hl. destruct (wf_subs r c Hs) as [Hop Hv]. unfold fire, fire_ok. rewrite Hv, Hop.
    fold (bval b c). cbn [apply_op]. rewrite Hl, Z.eqb_refl. rewrite (sub_set_ldiff _ _ Hl). auto.
  Qed.

  Lemma fire_set : forall r c m, sets r = Some c -> fire E r m true = doc_value c.
  Proof. intros r c m Hs. destruct (wf_sets r c Hs) as [Hop Hv]. unfold fire. rewrite Hv, Hop. reflexivity. Qed.

  Lemma fire_init : fire E R_vm_init 0 true = 0.
  Proof.
    destruct (wf_site R_vm_init) as [Hr Hc]. unfold check_site in Hc. rewrite Hr in Hc. cbn in Hc.
    apply andb_true_iff in Hc as [Ho He]. unfold fire.
    destruct (s_op (site_of E R_vm_init)); try discriminate.
    destruct (s_expr (site_of E R_vm_init)); try discriminate. reflexivity.
  Qed.
End Wf.
