(* C19 (a): the guard of the replay theorems holds for EVERY configuration check_conf accepts.
   One hypothesis on the user configuration: the dictionary given as "input" has each key once
   ([input_keys_once]; it is a Python dict).  Everything else is covered (association lists with
   repeated keys elsewhere, nested dictionaries anywhere, the three special strings): the
   invariant comes from update_conf itself (Proofs/JsonP.v) and from the regenerated schemas,
   none of which accepts a dictionary as the value of a parameter (boolean test [no_dict],
   per-run obligation). *)
From Coq Require Import ZArith List Bool String Lia.
From Pandora Require Import Model.Json Model.Checker Model.Pipeline Model.SavedCfg
  Proofs.CheckerP Proofs.SavedCfgP Proofs.RewriteP Proofs.IndicatorP Proofs.JsonP.
Import ListNotations.
Open Scope string_scope.
Open Scope list_scope.

(* ------------------------------------------------------------------ the user's input section is a Python dict *)

(* the dictionaries given as values of a section have each key once.  For the input section
   ({"input": {"left": ..., "right": ...}}) this says "left" and "right" are given at most once:
   an association list holding "left" twice -- a scalar, then a dictionary -- is no Python dict,
   and update_conf would merge the second into a fresh dictionary (the scalar took the place of
   the default), in the user's key order instead of the defaults'. *)
Definition keys_once (u : dict) : bool :=
  forallb (fun kv => match snd kv with JDict d => nodup_str (keys d) | _ => true end) u.

Definition input_keys_once (user : dict) : bool := keys_once (section_of "input" user).

(* ------------------------------------------------------------------ schemas that refuse dictionaries *)

Fixpoint oracle_free (e : bexp) : bool :=
  match e with
  | BAnd a b | BOr a b | BBitAnd a b => oracle_free a && oracle_free b
  | BNot a => oracle_free a
  | BOracle _ => false
  | _ => true
  end.

(* the lambda is not truthy on a dictionary (a lambda cannot look inside a dictionary: all
   the translated forms see only "not a number, not None, not a str") *)
Definition fun_no_dict (e : bexp) : bool :=
  oracle_free e && negb (match beval no_oracle e (JDict []) with Some true => true | _ => false end).

Definition is_tydict (t : pytype) : bool := match t with TyDict => true | _ => false end.

Fixpoint no_dict (s : schema) : bool :=
  match s with
  | SType t => negb (is_tydict t)
  | SFun e => fun_no_dict e
  | SAnd l => (fix any (l : list schema) : bool := match l with [] => false | x :: r => no_dict x || any r end) l
  | SOr l =>
    forallb (fun x => match x with
                      | SType t => negb (is_tydict t)
                      | SFun e => fun_no_dict e
                      | SDict _ => false
                      | _ => true
                      end) l
  | SList _ => true
  | SDict _ => false
  end.

Lemma tm_eval_dict t d : tm_eval t (JDict d) = tm_eval t (JDict []).
Proof. induction t as [| |t IH m]; cbn; try reflexivity. rewrite IH. reflexivity. Qed.

Lemma beval_dict orc e d : oracle_free e = true -> beval orc e (JDict d) = beval no_oracle e (JDict []).
Proof.
  induction e as [c a b|a IHa b IHb|a IHa b IHb|a IHa b IHb|a IHa|a l| | |l|b|t|n]; cbn [oracle_free beval]; intro O;
    try (apply andb_prop in O as [O1 O2]; rewrite (IHa O1), (IHb O2)); try reflexivity.
  - rewrite (tm_eval_dict a d), (tm_eval_dict b d). reflexivity.
  - rewrite (IHa O). reflexivity.
  - rewrite (tm_eval_dict a d). reflexivity.
  - discriminate.
Qed.

Lemma fun_no_dict_sound orc e d : fun_no_dict e = true -> accepts orc (SFun e) (JDict d) = false.
Proof.
  unfold fun_no_dict. intro H. apply andb_prop in H as [O N]. cbn [accepts].
  rewrite (beval_dict orc e d O). apply negb_true_iff in N.
  destruct (beval no_oracle e (JDict [])) as [[|]|]; [discriminate|reflexivity|reflexivity].
Qed.

Lemma no_dict_sound orc : forall s, no_dict s = true -> forall d, accepts orc s (JDict d) = false.
Proof.
  fix IH 1. intros [t|e|l|l|l|l] H d; cbn [no_dict] in H; try discriminate.
  - destruct t; try discriminate; reflexivity.
  - apply fun_no_dict_sound. exact H.
  - cbn [accepts]. induction l as [|a l IHl]; [discriminate|].
    apply orb_true_iff in H as [H|H].
    + rewrite (IH a H d). reflexivity.
    + rewrite (IHl H). apply andb_false_r.
  - cbn [accepts]. induction l as [|a l IHl]; [reflexivity|].
    cbn [forallb] in H. apply andb_prop in H as [H1 H2]. rewrite (IHl H2), orb_false_r.
    destruct a as [t|e|l'|l'|l'|l']; cbn [or_keeps]; try reflexivity.
    + destruct t; try discriminate; reflexivity.
    + rewrite (fun_no_dict_sound orc e d H1). reflexivity.
    + discriminate.
  - reflexivity.
Qed.

Definition entries_no_dict (ks : list (string * bool * schema)) : bool := forallb (fun e => no_dict (snd e)) ks.

Lemma mem_str_map_in (ks : list (string * bool * schema)) k :
  mem_str k (map (fun e => fst (fst e)) ks) = true -> exists o s, In (k, o, s) ks.
Proof.
  induction ks as [|[[k' o] s] r IH]; cbn; [discriminate|]. intro H. apply orb_true_iff in H as [H|H].
  - apply String.eqb_eq in H. subst. exists o, s. left. reflexivity.
  - destruct (IH H) as [o' [s' I]]. exists o', s'. right. exact I.
Qed.

(* every value of an accepted dictionary is a scalar or a list *)
Lemma accepted_leaves orc ks d :
  entries_no_dict ks = true -> nodup_str (keys d) = true ->
  accepts orc (SDict ks) (JDict d) = true -> forallb (fun kv => leafb (snd kv)) d = true.
Proof.
  intros ND N A. rewrite accepts_dict in A. apply andb_prop in A as [A1 A2]. unfold entries_no_dict in ND.
  rewrite forallb_forall in *. intros [k x] I. cbn [snd].
  assert (Mk : mem_str k (map (fun e => fst (fst e)) ks) = true).
  { apply A2. unfold keys. apply (in_map fst d (k, x) I). }
  destruct (mem_str_map_in ks k Mk) as [o [s Ie]].
  specialize (A1 _ Ie). unfold entry_holds in A1. cbn [fst snd] in A1.
  rewrite (lookup_in_nodup d k x N I) in A1.
  specialize (ND _ Ie). cbn [snd] in ND.
  destruct x; try reflexivity. rewrite (no_dict_sound orc s ND d0) in A1. discriminate.
Qed.

(* ------------------------------------------------------------------ the completion of a step *)

(* per-run obligation on the step classes: no schema entry accepts a dictionary and every
   default the prologue writes satisfies the invariant *)
Definition class_scalar (c : class_def) : bool :=
  entries_no_dict (c_schema c)
  && forallb (fun op => match op_default op with Some (_, v) => wfj v | None => true end) (c_prologue c).

Definition classes_scalar (classes : list class_def) : bool := forallb class_scalar classes.

Lemma appended_nodup ops : forall cfg,
  nodup_str (keys cfg) = true -> nodup_str (keys (cfg ++ appended ops cfg)) = true.
Proof.
  induction ops as [|op r IH]; intros cfg N; cbn [appended].
  - rewrite app_nil_r. exact N.
  - destruct (op_default op) as [[k v]|]; [|exact (IH cfg N)].
    destruct (has_key k cfg) eqn:HK; [exact (IH cfg N)|].
    replace (cfg ++ (k, v) :: appended r (cfg ++ [(k, v)])) with ((cfg ++ [(k, v)]) ++ appended r (cfg ++ [(k, v)]))
      by (rewrite <- app_assoc; reflexivity).
    apply IH. rewrite keys_app. cbn [keys map fst]. apply nodup_snoc; [exact N|].
    rewrite <- has_key_mem. exact HK.
Qed.

Lemma appended_all (P : jv -> bool) ops cfg :
  forallb (fun op => match op_default op with Some (_, v) => P v | None => true end) ops = true ->
  forallb (fun kv => P (snd kv)) (appended ops cfg) = true.
Proof.
  intro H. rewrite forallb_forall in *. intros [k v] I.
  destruct (appended_in ops cfg k v I) as [_ [op [Io D]]]. specialize (H op Io). rewrite D in H. exact H.
Qed.

Section Pipe.
  Variable classes : list class_def.
  Variable interp : list string.
  Hypothesis W : classes_wf classes = true.
  Hypothesis S : classes_scalar classes = true.

  Lemma step_full_flat im kind cfg dn :
    wfd cfg = true -> step_full classes interp im kind cfg = Some dn -> flat dn = true.
  Proof.
    intros Wc H. apply step_full_inv in H. unfold step_check, find_class in H.
    destruct (find (fun c => String.eqb (c_kind c) kind) classes) as [c0|]; [|discriminate].
    destruct (lookup (c_method_key c0) cfg) as [[| | | |m| | | |]|]; try discriminate.
    destruct (find (fun c => String.eqb (c_kind c) kind && mem_str m (c_names c)) classes) as [c|] eqn:Fc; [|discriminate].
    pose proof (find_some _ _ Fc) as [Ic _]. destruct (class_in_wf classes W c Ic) as [OC _].
    assert (Sc : class_scalar c = true) by (unfold classes_scalar in S; rewrite forallb_forall in S; exact (S c Ic)).
    apply andb_prop in Sc as [ND DV].
    pose proof (class_check_appends _ c cfg dn (wfd_clean cfg Wc) OC H) as E.
    assert (Wn : wfd dn = true).
    { unfold wfd. rewrite E. rewrite (appended_nodup _ cfg (wfd_nodup cfg Wc)), andb_true_r.
      rewrite forallb_app. unfold wfd in Wc. apply andb_prop in Wc as [Wv _]. rewrite Wv.
      apply (appended_all wfj). exact DV. }
    apply (wfd_leaves_flat dn Wn).
    unfold class_check in H. destruct (run_prologue _ (c_prologue c) cfg) as [c1|]; [|discriminate].
    destruct (accepts no_oracle (SDict (c_schema c)) (JDict c1)) eqn:A; [|discriminate].
    inversion H; subst c1.
    exact (accepted_leaves no_oracle (c_schema c) dn ND (wfd_nodup dn Wn) A).
  Qed.

  Lemma check_steps_flat im : forall steps done,
    wfd steps = true -> check_steps classes interp im steps = Some done -> steps_flat done = true.
  Proof.
    induction steps as [|[name v] r IH]; intros done Ws H; cbn [check_steps] in H.
    - inversion H. reflexivity.
    - destruct v; try discriminate.
      destruct (step_full classes interp im (kind_of_step name) d) as [dn|] eqn:Sf; [|discriminate].
      destruct (check_steps classes interp im r) as [rest|] eqn:R; [|discriminate].
      inversion H; subst done. unfold wfd in Ws. cbn [forallb snd keys map fst nodup_str] in Ws.
      apply andb_prop in Ws as [Wv Wn]. apply andb_prop in Wv as [W1 W2]. apply andb_prop in Wn as [_ Wn].
      cbn [steps_flat forallb snd]. rewrite wfj_dict in W1.
      rewrite (step_full_flat im _ d dn W1 Sf). cbn [andb].
      apply (IH rest); [unfold wfd; rewrite W2; exact Wn|reflexivity].
  Qed.

  Lemma steps_clean_of_wfd steps : wfd steps = true -> steps_clean steps = true.
  Proof.
    unfold wfd, steps_clean. intro H. apply andb_prop in H as [H _]. rewrite forallb_forall in *.
    intros [k v] I. specialize (H _ I). cbn [snd] in *. destruct v; try reflexivity.
    rewrite wfj_dict in H. exact (wfd_clean d H).
  Qed.

  (* THE PIPELINE PART OF THE GUARD holds whenever check_pipeline_section succeeds *)
  Lemma pipe_guard_holds im user out :
    pipeline_check classes interp im user = Some out -> pipe_guard classes interp im user = true.
  Proof.
    unfold pipeline_check, pipe_guard.
    destruct (update_conf [("pipeline", JDict [])] user) as [cfg1|] eqn:U; [|discriminate].
    destruct (lookup "pipeline" cfg1) as [[| | | | | | | |steps]|] eqn:L; try discriminate.
    destruct (check_steps classes interp im steps) as [done|] eqn:Cs; [|discriminate].
    intros _.
    assert (W1 : wfd cfg1 = true) by exact (update_conf_wf [("pipeline", JDict [])] user cfg1 eq_refl U).
    assert (Ws : wfd steps = true) by (rewrite <- wfj_dict; exact (wfd_lookup cfg1 _ _ W1 L)).
    rewrite (steps_clean_of_wfd steps Ws). cbn [andb].
    rewrite flat2_split. rewrite (check_steps_flat im steps done Ws Cs). cbn [andb].
    destruct (check_steps_fix classes interp W im steps done (steps_clean_of_wfd steps Ws) Cs) as [_ [K _]].
    rewrite K. exact (wfd_nodup steps Ws).
  Qed.
End Pipe.

(* ------------------------------------------------------------------ the input section *)

(* per-run obligation on the regenerated input schemas and defaults: the defaults are
   {"input": {"left": scalars, "right": scalars}} and no entry of the six schemas that
   check_input_section can build accepts a dictionary *)
Definition defs_wf (D : input_defs) : bool :=
  input_shape (i_default D) (i_default D)
  && entries_no_dict (schema_update (i_left D) (i_int_left D))
  && entries_no_dict (schema_update (i_right D) (i_int_right D))
  && entries_no_dict (schema_update (i_left D) (i_gg_left D))
  && entries_no_dict (schema_update (i_right D) (i_gg_right D))
  && entries_no_dict (schema_update (i_left D) (i_gn_left D))
  && entries_no_dict (schema_update (i_right D) (i_gn_right D)).

Lemma two_keys_only (a b : string) t :
  nodup_str (a :: b :: t) = true -> forallb (fun k => mem_str k [a; b]) (a :: b :: t) = true -> t = [].
Proof.
  destruct t as [|k t]; [reflexivity|]. cbn. intros N F. exfalso.
  apply andb_prop in N as [N1 N2]. apply andb_prop in N2 as [N2 _].
  apply negb_true_iff in N1, N2. apply orb_false_iff in N1 as [_ N1]. apply orb_false_iff in N1 as [N1 _].
  apply orb_false_iff in N2 as [N2 _].
  apply andb_prop in F as [_ F]. apply andb_prop in F as [_ F]. apply andb_prop in F as [F _].
  rewrite orb_false_r in F. rewrite (String.eqb_sym k a), (String.eqb_sym k b), N1, N2 in F. discriminate.
Qed.

Lemma keys_two (d : dict) a b : keys d = [a; b] -> exists x y, d = [(a, x); (b, y)].
Proof.
  destruct d as [|[k1 x] [|[k2 y] [|? ?]]]; cbn; try discriminate. intro H. inversion H; subst. exists x, y. reflexivity.
Qed.

Lemma input_shape_parts def :
  input_shape def def = true ->
  exists dl dr, def = [("input", JDict [("left", JDict dl); ("right", JDict dr)])] /\ flat dl = true /\ flat dr = true.
Proof.
  unfold input_shape.
  destruct def as [|[i1 [| | | | | | | |[|[l1 [| | | | | | | |dl]] [|[r1 [| | | | | | | |dr]] [|]]]]] [|]]; try discriminate.
  rewrite !andb_true_iff. intros [[[[[[[[[E1 E2] E3] E4] E5] E6] F1] F2] X1] X2].
  apply String.eqb_eq in E1, E3, E5. subst. exists dl, dr. auto.
Qed.

Section Input.
  Variable D : input_defs.
  Variable orc : string -> jv -> option bool.
  Variable grid_ok : jv -> jv -> bool.
  Variable images_ok : dict -> bool.
  Hypothesis DW : defs_wf D = true.

  (* THE INPUT PART OF THE GUARD holds whenever check_input_section succeeds on the dictionary
     check_conf gives it ({} or {"input": ...}: at most one key) *)
  Lemma input_shape_holds u c :
    (List.length u <= 1)%nat -> keys_once u = true ->
    input_check D orc grid_ok images_ok u = Some c -> input_shape (i_default D) c = true.
  Proof.
    intros Lu KO H. pose proof (input_check_out D orc grid_ok images_ok u c H) as U.
    unfold defs_wf in DW. rewrite !andb_true_iff in DW.
    destruct DW as [[[[[[Sh N1] N2] N3] N4] N5] N6].
    destruct (input_shape_parts _ Sh) as [dl [dr [Ed [Fl Fr]]]].
    assert (Fw : forall d, flat d = true -> wfd d = true).
    { intros d F. unfold flat in F. unfold wfd. apply andb_prop in F as [F N]. rewrite N, andb_true_r.
      rewrite forallb_forall in *. intros [k v] I. specialize (F _ I). cbn [snd] in *.
      apply andb_prop in F as [Lf Cf]. destruct v; try exact Cf. discriminate. }
    assert (Wdef : wfd (i_default D) = true).
    { rewrite Ed. unfold wfd at 1. cbn [forallb snd keys map fst]. rewrite wfj_dict. unfold wfd at 1.
      cbn [forallb snd keys map fst]. rewrite !wfj_dict. rewrite (Fw dl Fl), (Fw dr Fr). reflexivity. }
    pose proof (update_conf_wf _ _ _ Wdef U) as Wc.
    unfold SavedCfg.input_check in H. rewrite U in H.
    destruct (subdict "input" c) as [inp|] eqn:Si; [|discriminate].
    destruct (subdict "left" inp) as [lft|] eqn:Sl; [|discriminate].
    destruct (subdict "right" inp) as [rgt|] eqn:Sr; [|discriminate].
    destruct (lookup "disp" lft) as [ld|]; [|discriminate].
    destruct (lookup "disp" rgt) as [rd|]; [|discriminate].
    destruct (lookup "img" lft) as [li|]; [|discriminate].
    destruct (lookup "img" rgt) as [ri|]; [|discriminate].
    assert (Acc : exists bl br,
      accepts orc (SDict [("input", false, SDict [("left", false, SDict (schema_update (i_left D) bl));
                                                  ("right", false, SDict (schema_update (i_right D) br))])]) (JDict c) = true
      /\ entries_no_dict (schema_update (i_left D) bl) = true /\ entries_no_dict (schema_update (i_right D) br) = true).
    { destruct (is_list ld).
      - exists (i_int_left D), (i_int_right D). destruct (accepts _ _ _); [auto|discriminate].
      - destruct (is_str rd).
        + exists (i_gg_left D), (i_gg_right D). destruct (accepts _ _ _); [auto|discriminate].
        + exists (i_gn_left D), (i_gn_right D). destruct (accepts _ _ _); [auto|discriminate]. }
    clear H. destruct Acc as [bl [br [A [NDl NDr]]]].
    rewrite accepts_dict in A. apply andb_prop in A as [A1 A2].
    unfold update_conf in U. rewrite merge_val_dict in U. cbn [merge_base] in U.
    destruct (merge_items u (i_default D)) as [c'|] eqn:Mu; [|discriminate]. inversion U; subst c'. clear U.
    rewrite Ed in Mu.
    destruct u as [|[ku vu] [|? ?]]; [| |cbn in Lu; lia].
    - (* no input section: the defaults *)
      cbn [merge_items] in Mu. inversion Mu; subst c. rewrite <- Ed. exact Sh.
    - cbn [merge_items lookup] in Mu.
      destruct (String.eqb ku "input") eqn:Ek.
      + apply String.eqb_eq in Ek. subst ku.
        destruct (merge_val (Some (JDict [("left", JDict dl); ("right", JDict dr)])) vu) as [nv|] eqn:Mv; [|discriminate].
        cbn [set_key] in Mu. rewrite String.eqb_refl in Mu. inversion Mu; subst c. clear Mu.
        unfold subdict in Si. cbn [lookup] in Si. rewrite String.eqb_refl in Si.
        destruct nv; try discriminate. inversion Si; subst d. clear Si.
        destruct (leafb vu) eqn:Lv; [pose proof (merge_leaf_is_leaf _ _ _ Lv Mv); discriminate|].
        destruct vu as [| | | | | | | |iu]; try discriminate. rewrite merge_val_dict in Mv. cbn [merge_base] in Mv.
        destruct (merge_items iu [("left", JDict dl); ("right", JDict dr)]) as [inp'|] eqn:Mi; [|discriminate].
        inversion Mv; subst inp'. clear Mv.
        cbn [forallb] in A1. unfold entry_holds in A1. cbn [fst snd lookup] in A1. rewrite String.eqb_refl in A1. rewrite andb_true_r in A1.
        rewrite accepts_dict in A1. apply andb_prop in A1 as [B1 B2].
        assert (Winp : wfd inp = true).
        { unfold wfd in Wc. cbn [forallb snd] in Wc. rewrite wfj_dict in Wc. rewrite !andb_true_iff in Wc. tauto. }
        destruct (merge_items_prefix iu _ inp Mi) as [t Kin]. cbn [keys map fst app] in Kin.
        change (map fst inp) with (keys inp) in Kin.
        pose proof (wfd_nodup inp Winp) as Ninp.
        assert (Et : t = []).
        { apply (two_keys_only "left" "right" t); [rewrite <- Kin; exact Ninp|]. rewrite <- Kin. exact B2. }
        subst t. destruct (keys_two inp _ _ Kin) as [xl [xr Einp]]. subst inp.
        unfold subdict in Sl, Sr. cbn [lookup] in Sl, Sr. rewrite String.eqb_refl in Sl.
        change ("right" =? "left") with false in Sr. cbv iota in Sr. rewrite String.eqb_refl in Sr.
        destruct xl; try discriminate. destruct xr; try discriminate. inversion Sl; inversion Sr; subst. clear Sl Sr.
        cbn [forallb] in B1. unfold entry_holds in B1. cbn [fst snd lookup] in B1. rewrite String.eqb_refl in B1.
        change ("right" =? "left") with false in B1. cbv iota in B1. rewrite String.eqb_refl in B1.
        rewrite andb_true_r in B1. apply andb_prop in B1 as [Al Ar].
        unfold wfd in Winp. cbn [forallb snd] in Winp. rewrite !wfj_dict in Winp. rewrite !andb_true_iff in Winp.
        destruct Winp as [[Wl [Wr _]] _].
        assert (Fl' : flat lft = true).
        { apply (wfd_leaves_flat lft Wl). exact (accepted_leaves orc _ lft NDl (wfd_nodup lft Wl) Al). }
        assert (Fr' : flat rgt = true).
        { apply (wfd_leaves_flat rgt Wr). exact (accepted_leaves orc _ rgt NDr (wfd_nodup rgt Wr) Ar). }
        assert (Niu : nodup_str (keys iu) = true).
        { unfold keys_once in KO. cbn [forallb snd] in KO. rewrite andb_true_r in KO. exact KO. }
        destruct (merge_items_dict_prefix "left" iu _ _ dl lft Niu Mi) as [tl Kl].
        { cbn [lookup]. rewrite String.eqb_refl. reflexivity. }
        { cbn [lookup]. rewrite String.eqb_refl. reflexivity. }
        destruct (merge_items_dict_prefix "right" iu _ _ dr rgt Niu Mi) as [tr Kr].
        { cbn [lookup]. change ("right" =? "left") with false. cbv iota. rewrite String.eqb_refl. reflexivity. }
        { cbn [lookup]. change ("right" =? "left") with false. cbv iota. rewrite String.eqb_refl. reflexivity. }
        rewrite Ed. unfold input_shape. rewrite !String.eqb_refl. cbn [andb].
        rewrite Fl', Fr', (prefix_extends dl lft tl Kl), (prefix_extends dr rgt tr Kr). reflexivity.
      + (* another key: the result has two keys, the schema allows only "input" *)
        exfalso. destruct (merge_val None vu) as [nv|]; [|discriminate].
        cbn [set_key] in Mu. rewrite Ek in Mu. cbn [set_key] in Mu. inversion Mu; subst c.
        cbn [keys map fst forallb mem_str] in A2. rewrite Ek in A2.
        rewrite !andb_true_iff in A2. destruct A2 as [_ [A2 _]]. discriminate.
  Qed.
End Input.

(* ------------------------------------------------------------------ the whole guard *)

Section Guard.
  Variable D : input_defs.
  Variable orc : string -> jv -> option bool.
  Variable grid_ok : jv -> jv -> bool.
  Variable images_ok : dict -> bool.
  Variable bands_of : jv -> list jv.
  Variable classes : list class_def.
  Variable interp : list string.
  Hypothesis W : classes_wf classes = true.
  Hypothesis S : classes_scalar classes = true.
  Hypothesis DW : defs_wf D = true.

  Lemma section_of_length k user : (List.length (section_of k user) <= 1)%nat.
  Proof. unfold section_of. destruct (lookup k user); cbn; lia. Qed.

  (* EVERY ACCEPTED CONFIGURATION SATISFIES THE GUARD of the replay theorems *)
  Theorem replay_guard_holds user cfg :
    input_keys_once user = true ->
    full_check D orc grid_ok images_ok bands_of classes interp user = Some cfg ->
    replay_guard D orc grid_ok images_ok bands_of classes interp user = true.
  Proof.
    intro KO. unfold input_keys_once in KO. unfold SavedCfg.full_check, replay_guard.
    destruct (input_check D orc grid_ok images_ok (section_of "input" user)) as [cfg_in|] eqn:Ic; [|discriminate].
    destruct (images_of bands_of cfg_in) as [im|]; [|discriminate].
    destruct (pipeline_check classes interp im (section_of "pipeline" user)) as [cfg_p|] eqn:Pc; [|discriminate].
    intros _.
    rewrite (input_shape_holds D orc grid_ok images_ok DW _ cfg_in (section_of_length "input" user) KO Ic).
    rewrite (pipe_guard_holds classes interp W S im _ cfg_p Pc). reflexivity.
  Qed.
End Guard.
