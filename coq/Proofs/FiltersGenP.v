(* C10 -- the GENERATED filter code (coq/Gen/FilterKernels.v, regenerated at every run from
   pandora/filter/bilateral.py, median.py, median_for_intervals.py) IS the model of
   Model/Filters.v, per pixel, for all inputs. *)
From Coq Require Import ZArith QArith Qround List Bool Lia Lqa.
From Pandora Require Import Lib.Arr Lib.NpNd Lib.Blocks Lib.BlockSkeleton Model.Filters Model.FiltersNp
                            Proofs.NpNdP Proofs.FiltersP Gen.FilterKernels.
From Pandora Require Proofs.SkelFiltersP.
Import ListNotations.
Open Scope Z_scope.

(* ================================================================== bilateral_kernel *)

(* what the vectorised kernel computes for ONE window [gW] (gW a b = windows[i, j, a, b]) with the
   spatial table [gG]: nansum(window * weights) / nansum(weights),
   weights[a, b] = gG[a, b] * rk(window[a, b] - window[off, off]) *)
Definition bil_weight (rk : Q -> Q) (gW gG : Z -> Z -> oq) (off a b : Z) : oq :=
  f_mul (gG a b) (f_map rk (f_sub (gW a b) (gW off off))).
Definition bil_formula (rk : Q -> Q) (gW gG : Z -> Z -> oq) (w off : Z) : oq :=
  f_div (nansum_list (win_list w w (fun a b => f_mul (gW a b) (bil_weight rk gW gG off a b))))
        (nansum_list (win_list w w (fun a b => bil_weight rk gW gG off a b))).

(* for EVERY batch of windows (any n0 x n1, so every chunk of every block layout), every table,
   every centre index inside the window: no broadcasting error, result n0 x n1, and element (i, j)
   is the formula of window (i, j) alone *)
Theorem gen_bilateral_kernel_is : forall ng W G sc off n0 n1 w gW gG,
  is4 W n0 n1 w w gW -> is2 G w w gG -> 0 <= off < w ->
  is2 (g_bilateral_kernel ng W G sc off) n0 n1 (fun i j => bil_formula (ng sc) (gW i j) gG w off).
Proof.
  intros ng W G sc off n0 n1 w gW gG HW HG Hoff. unfold g_bilateral_kernel. cbv zeta.
  pose proof (transpose4 _ _ _ _ _ _ _ HW) as H1.
  pose proof (transpose2 _ _ _ _ _ (getitem_ssii _ _ _ _ _ _ _ off off HW Hoff Hoff)) as H2.
  pose proof (transpose4 _ _ _ _ _ _ _ (binop_42 _ _ _ f_sub _ _ _ _ _ _ _ _ H1 H2)) as H3.
  cbv beta in H3.
  pose proof (map_4 _ _ (f_map (ng sc)) _ _ _ _ _ _ H3) as H4. cbv beta in H4.
  pose proof (binop_24 _ _ _ f_mul _ _ _ _ _ _ _ _ HG H4) as H5. cbv beta in H5.
  pose proof (binop_44 _ _ _ f_mul _ _ _ _ _ _ _ _ HW H5) as H6. cbv beta in H6.
  pose proof (binop_22 _ _ _ f_div _ _ _ _ _ _ (reduce_23 _ _ nansum_list _ _ _ _ _ _ H6)
                       (reduce_23 _ _ nansum_list _ _ _ _ _ _ H5)) as H7.
  exact H7.
Qed.

(* ------------------------------------------------------------------ the formula is the model's
   weighted mean over the (weight, value) pairs of the non-NaN pixels of the window *)

Definition oq_eq (a b : oq) : Prop :=
  match a, b with
  | None, None => True
  | Some x, Some y => (x == y)%Q
  | _, _ => False
  end.

Definition somes_l (l : list oq) : list Q :=
  flat_map (fun o : oq => match o with Some q => [q] | None => [] end) l.

Lemma nansum_q_somes : forall l, (nansum_q l == Spec.Filters.sumq (somes_l l))%Q.
Proof.
  induction l as [|[x|] l IH]; cbn [nansum_q fold_right somes_l flat_map app]; [reflexivity| |].
  - fold (nansum_q l). fold (somes_l l). cbn [Spec.Filters.sumq fold_right]. fold (Spec.Filters.sumq (somes_l l)).
    change (q_add x (nansum_q l)) with (Filters.qadd x (nansum_q l)). rewrite qadd_correct, IH. reflexivity.
  - fold (nansum_q l). fold (somes_l l). exact IH.
Qed.

Lemma somes_win_list : forall c d (h : Z -> Z -> oq),
  somes_l (win_list c d h)
  = flat_map (fun a => flat_map (fun b => match h a b with Some x => [x] | None => [] end) (zrange d)) (zrange c).
Proof.
  intros c d h. unfold win_list, somes_l. generalize (zrange d) as L2. intros L2.
  induction (zrange c) as [|a L IH]; [reflexivity|].
  cbn [flat_map]. rewrite flat_map_app. f_equal; [|exact IH]. clear IH.
  induction L2 as [|b L2 IH2]; [reflexivity|]. cbn [map flat_map]. f_equal. exact IH2.
Qed.

Lemma flat_map_ext2 : forall (A B : Type) (f g : Z -> Z -> list B) (L1 L2 : list Z),
  (forall a b, f a b = g a b) ->
  flat_map (fun a => flat_map (fun b => f a b) L2) L1 = flat_map (fun a => flat_map (fun b => g a b) L2) L1.
Proof.
  intros A B f g L1 L2 H. induction L1 as [|a L1 IH]; [reflexivity|]. cbn [flat_map]. f_equal; [|exact IH].
  clear IH. induction L2 as [|b L2 IH2]; [reflexivity|]. cbn [flat_map]. rewrite H. f_equal. exact IH2.
Qed.

Lemma map_flat_map2 : forall (B C : Type) (f : C -> B) (t : Z -> Z -> list C) (L1 L2 : list Z),
  map f (flat_map (fun a => flat_map (fun b => t a b) L2) L1)
  = flat_map (fun a => flat_map (fun b => map f (t a b)) L2) L1.
Proof.
  intros B C f t L1 L2. induction L1 as [|a L1 IH]; [reflexivity|]. cbn [flat_map]. rewrite map_app. f_equal; [|exact IH].
  clear IH. induction L2 as [|b L2 IH2]; [reflexivity|]. cbn [flat_map]. rewrite map_app. f_equal. exact IH2.
Qed.

Lemma map_bil_terms : forall (B : Type) (f : Q * Q -> B) sk rk (data : Filters.map2) win i j cv,
  map f (bil_terms sk rk data win i j cv)
  = flat_map (fun a => flat_map (fun b => match data (i + a) (j + b) with
                                          | None => []
                                          | Some v => [f ((sk a b * rk (v - cv))%Q, v)]
                                          end) (zrange win)) (zrange win).
Proof.
  intros B f sk rk data win i j cv. unfold bil_terms. rewrite map_flat_map2.
  apply (flat_map_ext2 Z). intros a b. destruct (data (i + a) (j + b)); reflexivity.
Qed.

Lemma sumq_swap : forall terms : list (Q * Q),
  (Spec.Filters.sumq (map (fun p : Q * Q => (snd p * fst p)%Q) terms)
   == Spec.Filters.sumq (map (fun p : Q * Q => (fst p * snd p)%Q) terms))%Q.
Proof.
  induction terms as [|p t IH]; [reflexivity|]. cbn [map Spec.Filters.sumq fold_right].
  fold (Spec.Filters.sumq (map (fun p : Q * Q => (snd p * fst p)%Q) t)).
  fold (Spec.Filters.sumq (map (fun p : Q * Q => (fst p * snd p)%Q) t)).
  rewrite IH. ring.
Qed.

Lemma flat_map_none : forall w (g : Z -> Z -> oq), (forall a b, g a b = None) ->
  flat_map (fun a => flat_map (fun b => match g a b with Some x => [x] | None => [] end) (zrange w)) (zrange w) = [].
Proof.
  intros w g Hg. generalize (zrange w) at 1 as L2. intros L2.
  induction (zrange w) as [|a L IH]; [reflexivity|]. cbn [flat_map]. rewrite IH, app_nil_r. clear IH.
  induction L2 as [|b L2 IH2]; [reflexivity|]. cbn [flat_map]. rewrite Hg. exact IH2.
Qed.

(* window (i, j) of [data], spatial table [sk], range kernel [rk], centre index [off] *)
Theorem bil_formula_model : forall sk rk (data : Filters.map2) w off i j,
  let F := bil_formula rk (fun a b => data (i + a) (j + b)) (fun a b => Some (sk a b)) w off in
  match data (i + off) (j + off) with
  | None => F = None
  | Some cv =>
      let terms := bil_terms sk rk data w i j cv in
      if Qeq_bool (Spec.Filters.sumq (map fst terms)) 0 then F = None
      else exists x, F = Some x /\ (x == wmean terms)%Q
  end.
Proof.
  intros sk rk data w off i j F. unfold F, bil_formula, nansum_list.
  set (NUM := win_list w w _). set (DEN := win_list w w _).
  pose proof (nansum_q_somes NUM) as HN. pose proof (nansum_q_somes DEN) as HD. unfold NUM in HN at 2. unfold DEN in HD at 2.
  rewrite somes_win_list in HN, HD.
  destruct (data (i + off) (j + off)) as [cv|] eqn:Ec.
  - cbv zeta.
    assert (Hden : flat_map (fun a => flat_map (fun b =>
                     match bil_weight rk (fun a0 b0 => data (i + a0) (j + b0)) (fun a0 b0 => Some (sk a0 b0)) off a b with
                     | Some x => [x] | None => [] end) (zrange w)) (zrange w)
                   = map fst (bil_terms sk rk data w i j cv)).
    { rewrite map_bil_terms. apply (flat_map_ext2 Z). intros a b. unfold bil_weight. rewrite Ec.
      destruct (data (i + a) (j + b)); reflexivity. }
    assert (Hnum : flat_map (fun a => flat_map (fun b =>
                     match f_mul (data (i + a) (j + b))
                                 (bil_weight rk (fun a0 b0 => data (i + a0) (j + b0)) (fun a0 b0 => Some (sk a0 b0)) off a b) with
                     | Some x => [x] | None => [] end) (zrange w)) (zrange w)
                   = map (fun p : Q * Q => (snd p * fst p)%Q) (bil_terms sk rk data w i j cv)).
    { rewrite map_bil_terms. apply (flat_map_ext2 Z). intros a b. unfold bil_weight. rewrite Ec.
      destruct (data (i + a) (j + b)); reflexivity. }
    rewrite Hden in HD. rewrite Hnum in HN. unfold f_div.
    destruct (Qeq_bool (Spec.Filters.sumq (map fst (bil_terms sk rk data w i j cv))) 0) eqn:E0.
    + apply Qeq_bool_iff in E0. rewrite E0 in HD. apply Qeq_bool_iff in HD. rewrite HD. reflexivity.
    + destruct (Qeq_bool (nansum_q DEN) 0) eqn:E1.
      * apply Qeq_bool_iff in E1. rewrite E1 in HD. symmetry in HD. apply Qeq_bool_iff in HD. congruence.
      * eexists. split; [reflexivity|]. unfold wmean. rewrite !qsum_sumq, <- sumq_swap, HN, HD. reflexivity.
  - pose proof (flat_map_none w) as H0.
    rewrite H0 in HN, HD.
    + cbn [Spec.Filters.sumq fold_right] in HD. apply Qeq_bool_iff in HD. unfold f_div. rewrite HD. reflexivity.
    + intros a b. unfold bil_weight. rewrite Ec. destruct (data (i + a) (j + b)); reflexivity.
    + intros a b. unfold bil_weight. rewrite Ec. destruct (data (i + a) (j + b)); reflexivity.
Qed.

(* ================================================================== the written expressions are
   pointwise in the first two axes: what they yield for element (i, j) of ANY chunk
   W[y0:y1, x0:x1] holding (i, j) is what they yield for the 1 x 1 chunk W[i:i+1, j:j+1]
   (the reading of the block loop by Model/FiltersNp.skel_block_loop) *)

Theorem gen_bilateral_kernel_chunk : forall ng W G sc off my mx w gW gG y0 y1 x0 x1 i j,
  is4 W my mx w w gW -> is2 G w w gG -> 0 <= off < w ->
  0 <= y0 -> y1 <= my -> 0 <= x0 -> x1 <= mx -> y0 <= i < y1 -> x0 <= j < x1 ->
  let K := fun X => g_bilateral_kernel ng X G sc off in
  err (K (np_slice01 W y0 y1 x0 x1)) = false /\ shp (K (np_slice01 W y0 y1 x0 x1)) = [y1 - y0; x1 - x0] /\
  elt (K (np_slice01 W y0 y1 x0 x1)) [i - y0; j - x0] = kernel_at K W i j /\
  kernel_at K W i j = bil_formula (ng sc) (gW i j) gG w off.
Proof.
  intros ng W G sc off my mx w gW gG y0 y1 x0 x1 i j HW HG Hoff ? ? ? ? Hi Hj K.
  destruct (gen_bilateral_kernel_is ng _ G sc off _ _ _ _ gG
              (slice01_4 _ W _ _ _ _ _ y0 y1 x0 x1 HW ltac:(lia) ltac:(lia) ltac:(lia) ltac:(lia)) HG Hoff) as (He & Hs & Hg).
  destruct (gen_bilateral_kernel_is ng _ G sc off _ _ _ _ gG
              (slice01_4 _ W _ _ _ _ _ i (i + 1) j (j + 1) HW ltac:(lia) ltac:(lia) ltac:(lia) ltac:(lia)) HG Hoff) as (_ & _ & Hg1).
  assert (E1 : kernel_at K W i j = bil_formula (ng sc) (gW i j) gG w off).
  { unfold kernel_at, K. rewrite Hg1 by lia. rewrite !Z.add_0_r. reflexivity. }
  repeat split; try assumption.
  rewrite E1. unfold K. rewrite Hg by lia. replace (y0 + (i - y0)) with i by lia. replace (x0 + (j - x0)) with j by lia.
  reflexivity.
Qed.

Lemma nanmedian_23_is : forall W my mx w gW, is4 W my mx w w gW ->
  is2 (np_nanmedian_23 W) my mx (fun i j => nanmedian (win_list w w (gW i j))).
Proof. intros. unfold np_nanmedian_23. apply reduce_23. assumption. Qed.

Theorem gen_nanmedian_chunk : forall W my mx w gW y0 y1 x0 x1 i j,
  is4 W my mx w w gW ->
  0 <= y0 -> y1 <= my -> 0 <= x0 -> x1 <= mx -> y0 <= i < y1 -> x0 <= j < x1 ->
  let K := fun X => np_nanmedian_23 X in
  err (K (np_slice01 W y0 y1 x0 x1)) = false /\ shp (K (np_slice01 W y0 y1 x0 x1)) = [y1 - y0; x1 - x0] /\
  elt (K (np_slice01 W y0 y1 x0 x1)) [i - y0; j - x0] = kernel_at K W i j /\
  kernel_at K W i j = nanmedian (win_list w w (gW i j)).
Proof.
  intros W my mx w gW y0 y1 x0 x1 i j HW ? ? ? ? Hi Hj K.
  destruct (nanmedian_23_is _ _ _ _ _
              (slice01_4 _ W _ _ _ _ _ y0 y1 x0 x1 HW ltac:(lia) ltac:(lia) ltac:(lia) ltac:(lia))) as (He & Hs & Hg).
  destruct (nanmedian_23_is _ _ _ _ _
              (slice01_4 _ W _ _ _ _ _ i (i + 1) j (j + 1) HW ltac:(lia) ltac:(lia) ltac:(lia) ltac:(lia))) as (_ & _ & Hg1).
  assert (E1 : kernel_at K W i j = nanmedian (win_list w w (gW i j))).
  { unfold kernel_at, K. rewrite Hg1 by lia. rewrite !Z.add_0_r. reflexivity. }
  repeat split; try assumption.
  rewrite E1. unfold K. rewrite Hg by lia. replace (y0 + (i - y0)) with i by lia. replace (x0 + (j - x0)) with j by lia.
  reflexivity.
Qed.

(* ================================================================== pandora.common.sliding_window *)

(* the generated sliding_window (shape tuple, doubled strides, as_strided) of a C-contiguous h x w
   array: no error, (h - w0 + 1) x (w - w1 + 1) windows of size w0 x w1, element (i, j, a, b) is
   element (i + a, j + b) of the array -- every offset of the view falls on that element, inside
   the memory of the array *)
Theorem gen_sliding_window_is : forall (X : nd oq) h w g w0 w1, is2 X h w g ->
  0 <= w0 <= h -> 0 <= w1 <= w ->
  is4 (g_sliding_window X [w0; w1]) (h - w0 + 1) (w - w1 + 1) w0 w1 (fun i j a b => g (i + a) (j + b)).
Proof.
  intros X h w g w0 w1 (He & Hs & Hg) H0 H1. unfold g_sliding_window, np_as_strided, np_strides, np_shape, is4.
  cbv zeta. rewrite Hs, He. cbn [nth c_strides fold_right app length Nat.eqb negb orb existsb err shp elt].
  replace (h - w0 + 1 <? 0) with false by lia. replace (w - w1 + 1 <? 0) with false by lia.
  replace (w0 <? 0) with false by lia. replace (w1 <? 0) with false by lia. cbn [orb].
  repeat split; auto. intros i j a b Hi Hj Ha Hb. cbn [dot unravel fold_right].
  assert (Hw : 0 < w) by lia.
  replace (i * (w * 1) + (j * 1 + (a * (w * 1) + (b * 1 + 0)))) with ((j + b) + (i + a) * w) by ring.
  rewrite !Z.mul_1_r, Z.div_1_r. rewrite Z_mod_plus_full, Z_div_plus_full by lia.
  rewrite Z.mod_small, Z.div_small by lia. rewrite Z.add_0_l. apply Hg; lia.
Qed.

(* ================================================================== the block loop hole *)

(* the hole instantiated with a GENERATED skeleton accepted by filter_skeleton_ok: for every
   well-formed window array W (my x mx windows of size win) of an ny x nx array T, the loop writes
   K's value for window (r - win/2, c - win/2) on the rectangle [win/2, win/2 + my) x [win/2,
   win/2 + mx) and leaves every other pixel of T as it is *)
Lemma skel_block_loop_is : forall k sk K W T my mx win gW ny nx gT,
  filter_skeleton_ok k sk = true ->
  is4 W my mx win win gW -> is2 T ny nx gT -> 0 <= win -> 0 <= my -> 0 <= mx ->
  is2 (skel_block_loop sk K W T) ny nx
      (fun r c => if (win / 2 <=? r) && (r <? win / 2 + my) && (win / 2 <=? c) && (c <? win / 2 + mx)
                  then kernel_at K W (r - win / 2) (c - win / 2) else gT r c).
Proof.
  intros k sk K W T my mx win gW ny nx gT Hok HW HT Hwin Hmy Hmx.
  destruct (is4_shape _ _ _ _ _ _ _ HW) as (S0 & S1 & S2 & _). destruct (is2_shape _ _ _ _ _ HT) as (T0 & T1).
  destruct HW as (EW & _ & _). destruct HT as (ET & _ & HgT).
  unfold skel_block_loop, is2. cbn [err shp elt]. rewrite EW, ET, S0, S1, S2, T0, T1.
  repeat split; auto. intros r c Hr Hc.
  destruct (SkelFiltersP.filter_skeleton_ok_parts _ sk Hok) as (_ & _ & _ & wr & Hw & _).
  unfold sk_target. rewrite Hw. cbn [nth_error].
  pose proof (SkelFiltersP.filter_loop_generic k sk wr (fun i j => kernel_at K W i j) (fun _ i j => kernel_at K W i j)
                (fun _ _ => eq_refl) Hok Hw win ny nx my mx ny nx (fun _ => 0) (fun2 T) r c Hwin Hmy Hmx) as HG.
  etransitivity; [symmetry; exact HG|]. clear HG.
  destruct (SkelFiltersP.filter_loop_params _ sk Hok) as (HB & _).
  rewrite loop2_spec by assumption.
  destruct ((win / 2 <=? r) && (r <? win / 2 + my) && (win / 2 <=? c) && (c <? win / 2 + mx)); [reflexivity|].
  unfold fun2. apply HgT; assumption.
Qed.

(* ================================================================== MedianFilter.median_filter *)

Lemma py_int_div_half : forall w, 0 <= w -> py_int_div w 2 = w / 2.
Proof. intros. unfold py_int_div. apply Z.quot_div_nonneg; lia. Qed.

(* generated median_filter with the generated skeleton = the model, at every pixel of the image,
   for every image (also smaller than the filter), every filter size w >= 0 *)
Theorem gen_median_filter_is_model : forall sk w D ny nx data,
  filter_skeleton_ok KNanMedian sk = true -> 0 <= w -> is2 D ny nx data ->
  is2 (g_median_filter (skel_block_loop sk) w D) ny nx (Filters.median_filter (sk_B sk) w ny nx data).
Proof.
  intros sk w D ny nx data Hok Hw HD. unfold g_median_filter, Filters.median_filter. cbv zeta.
  destruct (is2_shape _ _ _ _ _ HD) as (S0 & S1). rewrite S0, S1. unfold np_copy.
  destruct ((ny <? w) || (nx <? w)) eqn:Esmall; [exact HD|].
  apply orb_false_iff in Esmall. destruct Esmall as [Ey Ex]. apply Z.ltb_ge in Ey, Ex.
  pose proof (gen_sliding_window_is D _ _ _ w w HD ltac:(lia) ltac:(lia)) as HW.
  pose proof (skel_block_loop_is _ sk (fun X => np_nanmedian_23 X) _ _ _ _ _ _ _ _ _ Hok HW HD Hw ltac:(lia) ltac:(lia)) as HL.
  pose proof (setitem_mask_2 _ _ _ None _ _ _ _ HL (map_2 _ _ o_none _ _ _ _ HD)) as HR.
  eapply is2_ext; [exact HR|]. intros r c Hr Hc. cbv beta.
  destruct (SkelFiltersP.filter_loop_params _ sk Hok) as (HB & _).
  rewrite loop2_spec by lia.
  destruct (data r c) as [v|] eqn:Ed; cbn [o_none is_none]; [|reflexivity].
  destruct ((w / 2 <=? r) && (r <? w / 2 + (ny - w + 1)) && (w / 2 <=? c) && (c <? w / 2 + (nx - w + 1))) eqn:Ein;
    [|reflexivity].
  destruct (gen_nanmedian_chunk _ _ _ _ _ 0 (ny - w + 1) 0 (nx - w + 1) (r - w / 2) (c - w / 2) HW) as (_ & _ & _ & E); try lia.
  rewrite E. reflexivity.
Qed.

(* ================================================================== the two filter_disparity:
   NaN masking of the invalid pixels, the filter (a hole), write-back on finite pixels only *)

Definition writeback (inv : Z) (disp : Filters.map2) (mask : Z -> Z -> Z) (filtered : Filters.map2 -> Z -> Z -> oq) : Z -> Z -> oq :=
  let md := masked_data inv disp mask in
  fun r c => if is_none (md r c) then disp r c else filtered md r c.

Lemma masked_is : forall ds ny nx disp mask,
  is2 (ds_disp ds) ny nx disp -> is2 (ds_mask ds) ny nx mask ->
  is2 (np_setitem_mask (np_copy (ds_disp ds)) (np_where (np_and_ne0 (ds_mask ds) Constants.msk_pixel_invalid)) None)
      ny nx (masked_data Constants.msk_pixel_invalid disp mask).
Proof.
  intros ds ny nx disp mask Hd Hm. unfold np_copy, np_where, np_and_ne0.
  eapply is2_ext; [apply (setitem_mask_2 _ _ _ None _ _ _ _ Hd (map_2 _ _ _ _ _ _ _ Hm))|].
  intros; reflexivity.
Qed.

Theorem gen_median_filter_disparity_is : forall h fs ds ny nx disp mask (M : Filters.map2 -> Z -> Z -> oq),
  is2 (ds_disp ds) ny nx disp -> is2 (ds_mask ds) ny nx mask ->
  (forall D data, is2 D ny nx data -> is2 (h fs D) ny nx (M data)) ->
  let ds' := g_median_filter_disparity h fs ds in
  ds_mask ds' = ds_mask ds /\ ds_band ds' = ds_band ds /\
  is2 (ds_disp ds') ny nx (writeback Constants.msk_pixel_invalid disp mask M).
Proof.
  intros h fs ds ny nx disp mask M Hd Hm Hh. unfold g_median_filter_disparity. cbv zeta.
  split; [reflexivity|]. split; [reflexivity|]. cbn [ds_disp ds_set_disp].
  pose proof (masked_is ds ny nx disp mask Hd Hm) as Hmd.
  pose proof (setitem_mask_from_2 _ _ _ _ _ _ _ _ _ Hd (map_2 _ _ o_some _ _ _ _ Hmd) (Hh _ _ Hmd)) as HR.
  eapply is2_ext; [exact HR|]. intros r c Hr Hc. cbv beta. unfold writeback. cbv zeta.
  destruct (masked_data Constants.msk_pixel_invalid disp mask r c); reflexivity.
Qed.

Theorem gen_bilateral_filter_disparity_is : forall h ss sc ds ny nx disp mask (M : Filters.map2 -> Z -> Z -> oq),
  is2 (ds_disp ds) ny nx disp -> is2 (ds_mask ds) ny nx mask ->
  (forall D data, is2 D ny nx data -> is2 (h D ss sc) ny nx (M data)) ->
  let ds' := g_bilateral_filter_disparity h ss sc ds in
  ds_mask ds' = ds_mask ds /\ ds_band ds' = ds_band ds /\
  is2 (ds_disp ds') ny nx (writeback Constants.msk_pixel_invalid disp mask M).
Proof.
  intros h ss sc ds ny nx disp mask M Hd Hm Hh. unfold g_bilateral_filter_disparity. cbv zeta.
  split; [reflexivity|]. split; [reflexivity|]. cbn [ds_disp ds_set_disp].
  pose proof (masked_is ds ny nx disp mask Hd Hm) as Hmd.
  pose proof (setitem_mask_from_2 _ _ _ _ _ _ _ _ _ Hd (map_2 _ _ o_some _ _ _ _ Hmd) (Hh _ _ Hmd)) as HR.
  eapply is2_ext; [exact HR|]. intros r c Hr Hc. cbv beta. unfold writeback. cbv zeta.
  destruct (masked_data Constants.msk_pixel_invalid disp mask r c); reflexivity.
Qed.

(* the model's filter_disparity is that write-back of the model's filter *)
Lemma model_median_writeback : forall inv B w ny nx disp mask r c,
  fst (median_filter_disparity inv B w ny nx disp mask) r c
  = writeback inv disp mask (Filters.median_filter B w ny nx) r c.
Proof. intros. reflexivity. Qed.

(* ================================================================== BilateralFilter *)

Lemma gauss_spatial_kernel_is : forall ngs k s, 0 <= k ->
  is2 (g_gauss_spatial_kernel ngs k s) k k (fun a b => Some (ngs s (g_gauss_spatial_kernel_sqdist k a b))).
Proof. intros. unfold g_gauss_spatial_kernel. apply tab2_2; assumption. Qed.

(* the generated squared distance is the squared Euclidean distance to index k / 2 *)
Lemma sqdist_is : forall k a b,
  g_gauss_spatial_kernel_sqdist k a b = (a - k / 2) * (a - k / 2) + (b - k / 2) * (b - k / 2).
Proof. intros. unfold g_gauss_spatial_kernel_sqdist. rewrite !Z.pow_2_r. lia. Qed.

Lemma py_int_q_floor : forall q, (0 <= q)%Q -> py_int_q q = Qfloor q.
Proof.
  intros [n d] H. unfold py_int_q, Qfloor. cbn [Qnum Qden]. apply Z.quot_div_nonneg; [|lia].
  unfold Qle in H. cbn in H. lia.
Qed.

(* the spatial table and the range kernel the generated code uses, as the model's data *)
Definition gen_sk (ngs : Q -> Z -> Q) (ss : Q) (win : Z) : Z -> Z -> Q :=
  fun a b => ngs ss (g_gauss_spatial_kernel_sqdist win a b).

(* value of the generated filter_bilateral at a pixel, before any appeal to the kernel's sign *)
Definition gen_bil_px (ng : Q -> Q -> Q) (ngs : Q -> Z -> Q) (ss sc : Q) (ny nx : Z) (data : Filters.map2) (r c : Z) : oq :=
  let win := win_width ny nx ss in
  let lo := win / 2 in
  match data r c with
  | None => None
  | Some cv =>
      if fits_b lo (win - 1 - lo) ny nx r c
      then bil_formula (ng sc) (fun a b => data (r - lo + a) (c - lo + b))
                       (fun a b => Some (gen_sk ngs ss win a b)) win lo
      else Some cv
  end.

Theorem gen_filter_bilateral_at : forall sk ng ngs D ny nx data ss sc,
  filter_skeleton_ok KBilateral sk = true -> (0 <= ss)%Q -> 1 <= win_width ny nx ss -> is2 D ny nx data ->
  is2 (g_filter_bilateral ng ngs (skel_block_loop sk) D ss sc) ny nx (gen_bil_px ng ngs ss sc ny nx data).
Proof.
  intros sk ng ngs D ny nx data ss sc Hok Hss Hwin HD. unfold g_filter_bilateral. cbv zeta.
  destruct (is2_shape _ _ _ _ _ HD) as (S0 & S1). rewrite S0, S1. unfold np_copy.
  rewrite py_int_q_floor by (change (inject_Z 3) with 3%Q; change (inject_Z 1) with 1%Q; lra).
  change (Z.min ny (Z.min nx (Qfloor (inject_Z 3 * ss + inject_Z 1)))) with (win_width ny nx ss).
  set (win := win_width ny nx ss) in *.
  destruct (win_width_le ny nx ss) as [Hy Hx]. fold win in Hy, Hx.
  rewrite py_int_div_half by lia. set (lo := win / 2).
  assert (Hlo : 0 <= lo < win) by (unfold lo; pose proof (Z.mul_div_le win 2); pose proof (Z.mul_succ_div_gt win 2); lia).
  pose proof (gen_sliding_window_is D _ _ _ win win HD ltac:(lia) ltac:(lia)) as HW.
  pose proof (gauss_spatial_kernel_is ngs win ss ltac:(lia)) as HG.
  pose proof (skel_block_loop_is _ sk (fun X => g_bilateral_kernel ng X (g_gauss_spatial_kernel ngs win ss) sc lo)
                _ _ _ _ _ _ _ _ _ Hok HW HD ltac:(lia) ltac:(lia) ltac:(lia)) as HL.
  pose proof (setitem_mask_2 _ _ _ None _ _ _ _ HL (map_2 _ _ o_none _ _ _ _ HD)) as HR.
  eapply is2_ext; [exact HR|]. intros r c Hr Hc. cbv beta. unfold gen_bil_px. cbv zeta. fold win. fold lo.
  destruct (data r c) as [cv|] eqn:Ed; cbn [o_none]; [|reflexivity].
  unfold fits_b.
  replace (r <? lo + (ny - win + 1)) with (r + (win - 1 - lo) <? ny)
    by (destruct (Z.ltb_spec (r + (win - 1 - lo)) ny), (Z.ltb_spec r (lo + (ny - win + 1))); lia).
  replace (c <? lo + (nx - win + 1)) with (c + (win - 1 - lo) <? nx)
    by (destruct (Z.ltb_spec (c + (win - 1 - lo)) nx), (Z.ltb_spec c (lo + (nx - win + 1))); lia).
  destruct ((lo <=? r) && (r + (win - 1 - lo) <? ny) && (lo <=? c) && (c + (win - 1 - lo) <? nx)) eqn:Ein; [|reflexivity].
  destruct (gen_bilateral_kernel_chunk ng _ _ sc lo _ _ _ _ _ 0 (ny - win + 1) 0 (nx - win + 1) (r - lo) (c - lo) HW HG Hlo)
    as (_ & _ & _ & E); try lia.
  exact E.
Qed.

(* per pixel, for all inputs: generated = model, as rationals (the two sums are taken in the same
   order but the products are written v * w in the code and w * v in the model), provided the
   weights of the window do not sum to zero (the code then yields NaN or +-inf, the model 0 / 0;
   excluded by kernel_ok: C10_gen_bilateral_eq_weighted_mean) *)
Theorem gen_filter_bilateral_is_model : forall sk ng ngs D ny nx data ss sc,
  filter_skeleton_ok KBilateral sk = true -> (0 <= ss)%Q -> 1 <= win_width ny nx ss -> is2 D ny nx data ->
  let win := win_width ny nx ss in
  let R := g_filter_bilateral ng ngs (skel_block_loop sk) D ss sc in
  err R = false /\ shp R = [ny; nx] /\
  forall r c, 0 <= r < ny -> 0 <= c < nx ->
    (forall cv, data r c = Some cv ->
       ~ (Spec.Filters.sumq (map fst (bil_terms (gen_sk ngs ss win) (ng sc) data win (r - win / 2) (c - win / 2) cv)) == 0)%Q) ->
    oq_eq (elt R [r; c]) (Filters.filter_bilateral (sk_B sk) ny nx ss (gen_sk ngs ss win) (ng sc) data r c).
Proof.
  intros sk ng ngs D ny nx data ss sc Hok Hss Hwin HD win R.
  destruct (gen_filter_bilateral_at sk ng ngs D ny nx data ss sc Hok Hss Hwin HD) as (He & Hs & Hg).
  split; [exact He|]. split; [exact Hs|]. intros r c Hr Hc Hden. unfold R. rewrite Hg by assumption.
  destruct (SkelFiltersP.filter_loop_params _ sk Hok) as (HB & _).
  unfold Filters.filter_bilateral. fold win. destruct (win_width_le ny nx ss) as [Hy Hx]. fold win in Hy, Hx.
  rewrite loop2_spec by lia. unfold gen_bil_px. cbv zeta. fold win. set (lo := win / 2) in *.
  destruct (data r c) as [cv|] eqn:Ed; cbn [is_none]; [|exact I].
  unfold fits_b.
  replace (r <? lo + (ny - win + 1)) with (r + (win - 1 - lo) <? ny)
    by (destruct (Z.ltb_spec (r + (win - 1 - lo)) ny), (Z.ltb_spec r (lo + (ny - win + 1))); lia).
  replace (c <? lo + (nx - win + 1)) with (c + (win - 1 - lo) <? nx)
    by (destruct (Z.ltb_spec (c + (win - 1 - lo)) nx), (Z.ltb_spec c (lo + (nx - win + 1))); lia).
  destruct ((lo <=? r) && (r + (win - 1 - lo) <? ny) && (lo <=? c) && (c + (win - 1 - lo) <? nx)) eqn:Ein;
    [|cbn; reflexivity].
  pose proof (bil_formula_model (gen_sk ngs ss win) (ng sc) data win lo (r - lo) (c - lo)) as HF. cbv zeta in HF.
  unfold bilateral_at. replace (r - lo + lo) with r in * by lia. replace (c - lo + lo) with c in * by lia.
  rewrite Ed in *. specialize (Hden cv eq_refl).
  destruct (Qeq_bool _ 0) eqn:E0 in HF; [apply Qeq_bool_iff in E0; contradiction|].
  destruct HF as (x & -> & Hx'). exact Hx'.
Qed.

(* ================================================================== headline statements on the
   GENERATED definitions *)

(* median: the generated filter_disparity over the generated median_filter over the generated
   skeleton is the model's filter step at every pixel of the image, hence satisfies the Spec *)
Theorem gen_median_eq_spec : forall sk rad ds ny nx disp mask,
  filter_skeleton_ok KNanMedian sk = true -> 0 <= rad ->
  is2 (ds_disp ds) ny nx disp -> is2 (ds_mask ds) ny nx mask ->
  let ds' := g_median_filter_disparity (g_median_filter (skel_block_loop sk)) (2 * rad + 1) ds in
  let out := median_filter_disparity Constants.msk_pixel_invalid (sk_B sk) (2 * rad + 1) ny nx disp mask in
  ds_mask ds' = ds_mask ds /\ ds_band ds' = ds_band ds /\ is2 (ds_disp ds') ny nx (fst out) /\
  Spec.Filters.median_step_spec Constants.msk_pixel_invalid rad ny nx disp mask (fst out) (snd out).
Proof.
  intros sk rad ds ny nx disp mask Hok Hrad Hd Hm ds' out.
  destruct (gen_median_filter_disparity_is (g_median_filter (skel_block_loop sk)) (2 * rad + 1) ds ny nx disp mask
              (Filters.median_filter (sk_B sk) (2 * rad + 1) ny nx) Hd Hm) as (H1 & H2 & H3).
  { intros D data HD. apply gen_median_filter_is_model; [assumption | lia | assumption]. }
  split; [exact H1|]. split; [exact H2|]. split; [exact H3|].
  destruct (SkelFiltersP.filter_loop_params _ sk Hok) as (HB & _).
  apply median_eq_spec; assumption.
Qed.

(* the spatial weight of a neighbour depends on its squared distance to the pixel only: the table
   entry that multiplies pixel (r + dr, c + dc) of the window of (r, c) is ngs sigma (dr^2 + dc^2) *)
Theorem gen_spatial_weight_radial : forall ngs ss win dr dc,
  sp_of (gen_sk ngs ss win) (win / 2) dr dc = ngs ss (dr * dr + dc * dc).
Proof.
  intros. unfold sp_of, gen_sk. rewrite sqdist_is. f_equal. lia.
Qed.

Lemma is_wmean_eq : forall m m' terms, (m == m')%Q -> Spec.Filters.is_wmean m' terms -> Spec.Filters.is_wmean m terms.
Proof. intros m m' terms E [H1 H2]. split; [exact H1|]. rewrite E. exact H2. Qed.

Theorem gen_bilateral_eq_weighted_mean : forall sk ng ngs ss sc ds ny nx disp mask,
  filter_skeleton_ok KBilateral sk = true -> (0 <= ss)%Q ->
  let win := win_width ny nx ss in
  let lo := win / 2 in
  let hi := win - 1 - lo in
  1 <= win ->
  Spec.Filters.kernel_ok (sp_of (gen_sk ngs ss win) lo) (ng sc) lo hi ->
  is2 (ds_disp ds) ny nx disp -> is2 (ds_mask ds) ny nx mask ->
  let ds' := g_bilateral_filter_disparity (g_filter_bilateral ng ngs (skel_block_loop sk)) ss sc ds in
  let disp' := writeback Constants.msk_pixel_invalid disp mask (gen_bil_px ng ngs ss sc ny nx) in
  ds_mask ds' = ds_mask ds /\ ds_band ds' = ds_band ds /\ is2 (ds_disp ds') ny nx disp' /\
  Spec.Filters.bilateral_step_spec Constants.msk_pixel_invalid lo hi ny nx (sp_of (gen_sk ngs ss win) lo) (ng sc)
                                   disp mask disp' mask.
Proof.
  intros sk ng ngs ss sc ds ny nx disp mask Hok Hss win lo hi Hwin Hk Hd Hm ds' disp'.
  destruct (gen_bilateral_filter_disparity_is (g_filter_bilateral ng ngs (skel_block_loop sk)) ss sc ds ny nx disp mask
              (gen_bil_px ng ngs ss sc ny nx) Hd Hm) as (H1 & H2 & H3).
  { intros D data HD. apply gen_filter_bilateral_at; assumption. }
  split; [exact H1|]. split; [exact H2|]. split; [exact H3|].
  set (inv := Constants.msk_pixel_invalid) in *.
  set (md := masked_data inv disp mask).
  assert (Hmd : forall r c, md r c = Spec.Filters.valid_disp inv disp mask r c) by (intros; apply masked_data_valid_disp).
  destruct (window_reach win Hwin) as (Hlo & Hhi & Hsum & _). fold lo in Hlo, Hhi, Hsum. fold hi in Hhi, Hsum.
  assert (Hsome : forall r c cv, md r c = Some cv -> disp r c = Some cv).
  { intros r c cv. unfold md, masked_data. destruct (invalid_px inv (mask r c)); [discriminate | auto]. }
  unfold Spec.Filters.bilateral_step_spec. split; [reflexivity|]. split; [|split].
  - intros r c Hnone. unfold disp', writeback. cbv zeta. fold md. rewrite Hmd, Hnone. reflexivity.
  - intros r c Hnf. unfold disp', writeback. cbv zeta. fold md. apply fits_b_false in Hnf.
    destruct (md r c) as [cv|] eqn:Ev; cbn [is_none]; [|reflexivity].
    unfold gen_bil_px. cbv zeta. fold win lo hi. rewrite Ev, Hnf. symmetry. apply Hsome. exact Ev.
  - intros r c Hf cv Hv. rewrite <- Hmd in Hv. unfold disp', writeback. cbv zeta. fold md. rewrite Hv. cbn [is_none].
    unfold gen_bil_px. cbv zeta. fold win lo hi. rewrite Hv. apply fits_b_iff in Hf. rewrite Hf.
    pose proof (bil_formula_model (gen_sk ngs ss win) (ng sc) md win lo (r - lo) (c - lo)) as HF. cbv zeta in HF.
    replace (r - lo + lo) with r in HF by lia. replace (c - lo + lo) with c in HF by lia. rewrite Hv in HF.
    assert (Ht : bil_terms (gen_sk ngs ss win) (ng sc) md win (r - lo) (c - lo) cv
                 = Spec.Filters.win_terms (sp_of (gen_sk ngs ss win) lo) (ng sc) md lo hi r c cv).
    { rewrite <- bil_terms_as_win_terms. rewrite Hsum. reflexivity. }
    rewrite Ht in HF.
    pose proof (win_terms_weight_pos (sp_of (gen_sk ngs ss win) lo) (ng sc) md lo hi r c cv Hlo Hhi Hk Hv) as Hpos.
    destruct (Qeq_bool _ 0) eqn:E0 in HF; [apply Qeq_bool_iff in E0; rewrite E0 in Hpos; discriminate Hpos|].
    destruct HF as (x & HFx & Hx).
    exists x. split; [exact HFx|].
    rewrite <- (win_terms_ext _ _ md (Spec.Filters.valid_disp inv disp mask)) by (intros; apply Hmd).
    apply (is_wmean_eq _ _ _ Hx). apply wmean_is_wmean. exact Hpos.
Qed.

(* ================================================================== median_for_intervals *)

Theorem gen_mfi_filter_disparity_is : forall h hreg fs reg ds,
  let ds' := g_mfi_filter_disparity h hreg fs reg ds in
  let i1 := h fs (ds_band ds KInf) in
  let s1 := h fs (ds_band ds KSup) in
  ds_disp ds' = ds_disp ds /\ ds_band ds' KAmb = ds_band ds KAmb /\
  (reg = false -> ds_mask ds' = ds_mask ds /\ ds_band ds' KInf = i1 /\ ds_band ds' KSup = s1) /\
  (reg = true ->
     let res := hreg i1 s1 (ds_band ds KAmb) in
     ds_band ds' KInf = fst (fst res) /\ ds_band ds' KSup = snd (fst res) /\
     ds_mask ds' = np_setitem_mask_or (ds_mask ds) (snd res) Constants.msk_pixel_interval_regularized).
Proof.
  intros h hreg fs reg ds. unfold g_mfi_filter_disparity. cbv zeta. cbn [fold_left]. unfold np_copy.
  cbn [ds_band ds_set_band ds_disp ds_mask band_eqb].
  destruct reg.
  - destruct (hreg (h fs (ds_band ds KInf)) (h fs (ds_band ds KSup)) (ds_band ds KAmb)) as [[i2 s2] rm] eqn:Er.
    cbn [ds_band ds_set_band ds_set_mask ds_disp ds_mask band_eqb fst snd].
    repeat split; try reflexivity; intros; discriminate.
  - cbn [ds_band ds_set_band ds_disp ds_mask band_eqb]. repeat split; try reflexivity; intros; discriminate.
Qed.

(* with the generated median_filter in the hole: each bound band gets the model's median_filter,
   and with regularisation only bit 11 of the mask may change, is never cleared and is raised
   exactly on the regularisation mask (at every pixel of the image) *)
Theorem gen_mfi_spec : forall sk hreg rad reg ds ny nx disp binf bsup mask,
  filter_skeleton_ok KNanMedian sk = true -> 0 <= rad ->
  is2 (ds_disp ds) ny nx disp -> is2 (ds_mask ds) ny nx mask ->
  is2 (ds_band ds KInf) ny nx binf -> is2 (ds_band ds KSup) ny nx bsup ->
  let h := g_median_filter (skel_block_loop sk) in
  let w := 2 * rad + 1 in
  let ds' := g_mfi_filter_disparity h hreg w reg ds in
  let i1 := h w (ds_band ds KInf) in
  let s1 := h w (ds_band ds KSup) in
  ds_disp ds' = ds_disp ds /\
  is2 i1 ny nx (Filters.median_filter (sk_B sk) w ny nx binf) /\
  is2 s1 ny nx (Filters.median_filter (sk_B sk) w ny nx bsup) /\
  Spec.Filters.median_map_spec rad ny nx binf (Filters.median_filter (sk_B sk) w ny nx binf) /\
  Spec.Filters.median_map_spec rad ny nx bsup (Filters.median_filter (sk_B sk) w ny nx bsup) /\
  (reg = false -> ds_mask ds' = ds_mask ds /\ ds_band ds' KInf = i1 /\ ds_band ds' KSup = s1) /\
  (reg = true ->
     let res := hreg i1 s1 (ds_band ds KAmb) in
     ds_band ds' KInf = fst (fst res) /\ ds_band ds' KSup = snd (fst res) /\
     forall m, is2 (snd res) ny nx m ->
       is2 (ds_mask ds') ny nx (fun r c => if m r c then Z.lor (mask r c) (2 ^ 11) else mask r c) /\
       forall r c, 0 <= r < ny -> 0 <= c < nx ->
         Spec.Filters.only_bit11_raised (mask r c) (elt (ds_mask ds') [r; c])).
Proof.
  intros sk hreg rad reg ds ny nx disp binf bsup mask Hok Hrad Hd Hm Hi Hs h w ds' i1 s1.
  destruct (gen_mfi_filter_disparity_is h hreg w reg ds) as (H1 & _ & H3 & H4).
  destruct (SkelFiltersP.filter_loop_params _ sk Hok) as (HB & _).
  split; [exact H1|].
  split; [apply gen_median_filter_is_model; [assumption | unfold w; lia | assumption]|].
  split; [apply gen_median_filter_is_model; [assumption | unfold w; lia | assumption]|].
  split; [apply median_filter_map_spec; assumption|].
  split; [apply median_filter_map_spec; assumption|].
  split; [exact H3|].
  intros Hreg res. destruct (H4 Hreg) as (Ha & Hb & Hc). split; [exact Ha|]. split; [exact Hb|].
  intros m Hrm. fold ds' in Hc. rewrite Hc.
  assert (HM : is2 (np_setitem_mask_or (ds_mask ds) (snd res) Constants.msk_pixel_interval_regularized) ny nx
                   (fun r c => if m r c then Z.lor (mask r c) (2 ^ 11) else mask r c)).
  { exact (setitem_mask_or_2 _ _ _ _ _ _ _ Hm Hrm). }
  split; [exact HM|]. intros r c Hr Hc'. destruct HM as (_ & _ & HM). rewrite HM by assumption.
  destruct (m r c); [apply lor_bit11 | apply only_bit11_refl].
Qed.

(* ================================================================== normalized_gaussian *)

(* for EVERY positive exponential, every square root positive on positive numbers, every pi > 0 and
   sigma > 0 the canonical formula is strictly positive: kernel_pos is a consequence of the shape of
   the formula (the numbers themselves stay data) *)
Theorem gaussian_formula_pos : forall ex sq pi x sigma,
  (forall y, 0 < ex y)%Q -> (forall y, 0 < y -> 0 < sq y)%Q -> (0 < pi)%Q -> (0 < sigma)%Q ->
  (0 < geval ex sq pi x sigma gaussian_formula)%Q.
Proof.
  intros ex sq pi x sigma Hex Hsq Hpi Hs. cbn [geval gaussian_formula]. unfold Qdiv at 1.
  apply Qmult_lt_0_compat; [apply Hex|]. apply Qinv_lt_0_compat.
  apply Qmult_lt_0_compat; [assumption|]. apply Hsq. apply Qmult_lt_0_compat; [reflexivity | assumption].
Qed.

(* ================================================================== consequences, on the generated code *)

(* any output satisfying the Spec of the bilateral step lies between the smallest and the largest
   valid value of the window (convexity in Q) *)
Lemma bilateral_spec_between : forall inv lo hi ny nx sp rg disp mask disp' mask' r c cv,
  0 <= lo -> 0 <= hi -> Spec.Filters.kernel_ok sp rg lo hi ->
  Spec.Filters.bilateral_step_spec inv lo hi ny nx sp rg disp mask disp' mask' ->
  Spec.Filters.fits lo hi ny nx r c -> Spec.Filters.valid_disp inv disp mask r c = Some cv ->
  exists m, disp' r c = Some m /\
            Spec.Filters.between_min_max m (Spec.Filters.win_vals (Spec.Filters.valid_disp inv disp mask) lo hi r c).
Proof.
  intros inv lo hi ny nx sp rg disp mask disp' mask' r c cv Hlo Hhi Hk (_ & _ & _ & H) Hf Hv.
  destruct (H r c Hf cv Hv) as (m & Hm & Hw). exists m. split; [exact Hm|].
  set (val := Spec.Filters.valid_disp inv disp mask) in *.
  assert (Hne : Spec.Filters.win_vals val lo hi r c <> []).
  { intro E. assert (Hin : In cv (Spec.Filters.win_vals val lo hi r c)).
    { apply In_somes, in_map_iff. exists (r, c). split; [exact Hv | apply In_win_px; lia]. }
    rewrite E in Hin. exact Hin. }
  destruct (list_min_max _ Hne) as (a & b & Ha & Hb & Hall).
  exists a, b. split; [exact Ha|]. split; [exact Hb|]. split; [exact Hall|].
  apply (wmean_bounds m _ a b Hw). intros t Ht. split.
  - apply In_win_terms in Ht. destruct Ht as (r' & c' & v & Hr & _ & ->). cbn [fst].
    destruct Hk as (Hsp & Hrg & _). apply Qmult_le_0_compat; [apply Hsp; lia | apply Hrg].
  - apply Hall. rewrite <- (win_terms_values sp rg val lo hi r c cv). apply in_map. exact Ht.
Qed.

(* the generated filters do not depend on WHICH accepted block loop runs them (any block size
   >= 1): every pixel of the image gets the same value *)
Theorem gen_block_independent : forall sk sk' rad D ny nx data ng ngs ss sc,
  is2 D ny nx data -> 0 <= rad ->
  (filter_skeleton_ok KNanMedian sk = true -> filter_skeleton_ok KNanMedian sk' = true ->
   forall r c, 0 <= r < ny -> 0 <= c < nx ->
     elt (g_median_filter (skel_block_loop sk) (2 * rad + 1) D) [r; c]
     = elt (g_median_filter (skel_block_loop sk') (2 * rad + 1) D) [r; c]) /\
  (filter_skeleton_ok KBilateral sk = true -> filter_skeleton_ok KBilateral sk' = true ->
   (0 <= ss)%Q -> 1 <= win_width ny nx ss ->
   forall r c, 0 <= r < ny -> 0 <= c < nx ->
     elt (g_filter_bilateral ng ngs (skel_block_loop sk) D ss sc) [r; c]
     = elt (g_filter_bilateral ng ngs (skel_block_loop sk') D ss sc) [r; c]).
Proof.
  intros sk sk' rad D ny nx data ng ngs ss sc HD Hrad. split.
  - intros Hok Hok' r c Hr Hc.
    destruct (gen_median_filter_is_model sk (2 * rad + 1) D ny nx data Hok ltac:(lia) HD) as (_ & _ & H1).
    destruct (gen_median_filter_is_model sk' (2 * rad + 1) D ny nx data Hok' ltac:(lia) HD) as (_ & _ & H2).
    rewrite H1, H2 by assumption.
    destruct (SkelFiltersP.filter_loop_params _ sk Hok) as (HB & _).
    destruct (SkelFiltersP.filter_loop_params _ sk' Hok') as (HB' & _).
    apply median_filter_block_independent; assumption.
  - intros Hok Hok' Hss Hwin r c Hr Hc.
    destruct (gen_filter_bilateral_at sk ng ngs D ny nx data ss sc Hok Hss Hwin HD) as (_ & _ & H1).
    destruct (gen_filter_bilateral_at sk' ng ngs D ny nx data ss sc Hok' Hss Hwin HD) as (_ & _ & H2).
    rewrite H1, H2 by assumption. reflexivity.
Qed.
