(* C10 -- the GENERATED filter code (coq/Gen/FilterKernels.v, regenerated at every run from
   pandora/filter/bilateral.py, median.py, median_for_intervals.py) IS the model of
   Model/Filters.v, per pixel, for all inputs. *)
From Coq Require Import ZArith QArith Qround List Bool Lia Lqa.
From Pandora Require Import Lib.Arr Lib.NpArr Lib.Blocks Lib.BlockSkeleton Model.Filters Model.FiltersNp
                            Proofs.NpArrP Proofs.FiltersP Gen.FilterKernels.
Import ListNotations.
Open Scope Z_scope.

(* ================================================================== bilateral_kernel *)

(* what the vectorised kernel computes for ONE window [gW] (gW a b = windows[i, j, a, b]) with the
   spatial table [gG]: nansum(window * weights) / nansum(weights),
   weights[a, b] = gG[a, b] * rk(window[a, b] - window[off, off]) *)
Definition bil_weight (rk : Q -> Q) (gW gG : Z -> Z -> oq) (off a b : Z) : oq :=
  f_mul (gG a b) (f_map rk (f_sub (gW a b) (gW off off))).
Definition bil_formula (rk : Q -> Q) (gW gG : Z -> Z -> oq) (w off : Z) : oq :=
  f_div (nansum_list (win_list w w (fun a b => f_mul (gW a b) (bil_weight rk gW gG off a b))))
        (nansum_list (win_list w w (fun a b => bil_weight rk gW gG off a b))).

(* for EVERY batch of windows (any n0 x n1, so every chunk of every block layout), every table,
   every centre index inside the window: no broadcasting error, result n0 x n1, and element (i, j)
   is the formula of window (i, j) alone *)
Theorem gen_bilateral_kernel_is : forall ng W G sc off n0 n1 w gW gG,
  is4 W n0 n1 w w gW -> is2 G w w gG -> 0 <= off < w ->
  is2 (g_bilateral_kernel ng W G sc off) n0 n1 (fun i j => bil_formula (ng sc) (gW i j) gG w off).
Proof.
  intros ng W G sc off n0 n1 w gW gG HW HG Hoff. unfold g_bilateral_kernel. cbv zeta.
  pose proof (transpose4 _ _ _ _ _ _ _ HW) as H1.
  pose proof (transpose2 _ _ _ _ _ (getitem_ssii _ _ _ _ _ _ _ off off HW Hoff Hoff)) as H2.
  pose proof (transpose4 _ _ _ _ _ _ _ (binop_42 _ _ _ f_sub _ _ _ _ _ _ _ _ H1 H2)) as H3.
  cbv beta in H3.
  pose proof (map4 _ _ (f_map (ng sc)) _ _ _ _ _ _ H3) as H4. cbv beta in H4.
  pose proof (binop_24 _ _ _ f_mul _ _ _ _ _ _ _ _ HG H4) as H5. cbv beta in H5.
  pose proof (binop_44 _ _ _ f_mul _ _ _ _ _ _ _ _ HW H5) as H6. cbv beta in H6.
  pose proof (binop_22 _ _ _ f_div _ _ _ _ _ _ (reduce_23 _ _ nansum_list _ _ _ _ _ _ H6)
                       (reduce_23 _ _ nansum_list _ _ _ _ _ _ H5)) as H7.
  exact H7.
Qed.

(* ------------------------------------------------------------------ the formula is the model's
   weighted mean over the (weight, value) pairs of the non-NaN pixels of the window *)

Definition oq_eq (a b : oq) : Prop :=
  match a, b with
  | None, None => True
  | Some x, Some y => (x == y)%Q
  | _, _ => False
  end.

Definition somes_l (l : list oq) : list Q :=
  flat_map (fun o : oq => match o with Some q => [q] | None => [] end) l.

Lemma nansum_list_somes : forall l, nansum_list l = Some (Spec.Filters.sumq (somes_l l)).
Proof.
  intros l. unfold nansum_list. f_equal. induction l as [|[x|] l IH]; cbn [fold_right somes_l flat_map app]; [reflexivity| |].
  - fold (somes_l l). cbn [Spec.Filters.sumq fold_right]. f_equal. exact IH.
  - fold (somes_l l). exact IH.
Qed.

Lemma somes_win_list : forall c d (h : Z -> Z -> oq),
  somes_l (win_list c d h)
  = flat_map (fun a => flat_map (fun b => match h a b with Some x => [x] | None => [] end) (zrange d)) (zrange c).
Proof.
  intros c d h. unfold win_list, somes_l. generalize (zrange d) as L2. intros L2.
  induction (zrange c) as [|a L IH]; [reflexivity|].
  cbn [flat_map]. rewrite flat_map_app. f_equal; [|exact IH]. clear IH.
  induction L2 as [|b L2 IH2]; [reflexivity|]. cbn [map flat_map]. f_equal. exact IH2.
Qed.

Lemma flat_map_ext2 : forall (A B : Type) (f g : Z -> Z -> list B) (L1 L2 : list Z),
  (forall a b, f a b = g a b) ->
  flat_map (fun a => flat_map (fun b => f a b) L2) L1 = flat_map (fun a => flat_map (fun b => g a b) L2) L1.
Proof.
  intros A B f g L1 L2 H. induction L1 as [|a L1 IH]; [reflexivity|]. cbn [flat_map]. f_equal; [|exact IH].
  clear IH. induction L2 as [|b L2 IH2]; [reflexivity|]. cbn [flat_map]. rewrite H. f_equal. exact IH2.
Qed.

Lemma map_flat_map2 : forall (B C : Type) (f : C -> B) (t : Z -> Z -> list C) (L1 L2 : list Z),
  map f (flat_map (fun a => flat_map (fun b => t a b) L2) L1)
  = flat_map (fun a => flat_map (fun b => map f (t a b)) L2) L1.
Proof.
  intros B C f t L1 L2. induction L1 as [|a L1 IH]; [reflexivity|]. cbn [flat_map]. rewrite map_app. f_equal; [|exact IH].
  clear IH. induction L2 as [|b L2 IH2]; [reflexivity|]. cbn [flat_map]. rewrite map_app. f_equal. exact IH2.
Qed.

Lemma map_bil_terms : forall (B : Type) (f : Q * Q -> B) sk rk (data : Filters.map2) win i j cv,
  map f (bil_terms sk rk data win i j cv)
  = flat_map (fun a => flat_map (fun b => match data (i + a) (j + b) with
                                          | None => []
                                          | Some v => [f ((sk a b * rk (v - cv))%Q, v)]
                                          end) (zrange win)) (zrange win).
Proof.
  intros B f sk rk data win i j cv. unfold bil_terms. rewrite map_flat_map2.
  apply (flat_map_ext2 Z). intros a b. destruct (data (i + a) (j + b)); reflexivity.
Qed.

Lemma sumq_swap : forall terms : list (Q * Q),
  (Spec.Filters.sumq (map (fun p : Q * Q => (snd p * fst p)%Q) terms)
   == Spec.Filters.sumq (map (fun p : Q * Q => (fst p * snd p)%Q) terms))%Q.
Proof.
  induction terms as [|p t IH]; [reflexivity|]. cbn [map Spec.Filters.sumq fold_right].
  fold (Spec.Filters.sumq (map (fun p : Q * Q => (snd p * fst p)%Q) t)).
  fold (Spec.Filters.sumq (map (fun p : Q * Q => (fst p * snd p)%Q) t)).
  rewrite IH. ring.
Qed.

(* window (i, j) of [data], spatial table [sk], range kernel [rk], centre index [off] *)
Theorem bil_formula_model : forall sk rk (data : Filters.map2) w off i j,
  let F := bil_formula rk (fun a b => data (i + a) (j + b)) (fun a b => Some (sk a b)) w off in
  match data (i + off) (j + off) with
  | None => F = None
  | Some cv =>
      let terms := bil_terms sk rk data w i j cv in
      if Qeq_bool (Spec.Filters.sumq (map fst terms)) 0 then F = None
      else exists x, F = Some x /\ (x == wmean terms)%Q
  end.
Proof.
  intros sk rk data w off i j F. unfold F, bil_formula. rewrite !nansum_list_somes, !somes_win_list.
  destruct (data (i + off) (j + off)) as [cv|] eqn:Ec.
  - cbv zeta.
    assert (Hden : flat_map (fun a => flat_map (fun b =>
                     match bil_weight rk (fun a0 b0 => data (i + a0) (j + b0)) (fun a0 b0 => Some (sk a0 b0)) off a b with
                     | Some x => [x] | None => [] end) (zrange w)) (zrange w)
                   = map fst (bil_terms sk rk data w i j cv)).
    { rewrite map_bil_terms. apply (flat_map_ext2 Z). intros a b. unfold bil_weight. rewrite Ec.
      destruct (data (i + a) (j + b)); reflexivity. }
    assert (Hnum : flat_map (fun a => flat_map (fun b =>
                     match f_mul (data (i + a) (j + b))
                                 (bil_weight rk (fun a0 b0 => data (i + a0) (j + b0)) (fun a0 b0 => Some (sk a0 b0)) off a b) with
                     | Some x => [x] | None => [] end) (zrange w)) (zrange w)
                   = map (fun p : Q * Q => (snd p * fst p)%Q) (bil_terms sk rk data w i j cv)).
    { rewrite map_bil_terms. apply (flat_map_ext2 Z). intros a b. unfold bil_weight. rewrite Ec.
      destruct (data (i + a) (j + b)); reflexivity. }
    rewrite Hden, Hnum. unfold f_div.
    destruct (Qeq_bool (Spec.Filters.sumq (map fst (bil_terms sk rk data w i j cv))) 0) eqn:E0; [reflexivity|].
    eexists. split; [reflexivity|]. unfold wmean. rewrite !qsum_sumq, sumq_swap. reflexivity.
  - assert (H0 : forall (g : Z -> Z -> oq), (forall a b, g a b = None) ->
                 flat_map (fun a => flat_map (fun b => match g a b with Some x => [x] | None => [] end) (zrange w)) (zrange w) = []).
    { intros g Hg. generalize (zrange w) at 1 as L2. intros L2.
      induction (zrange w) as [|a L IH]; [reflexivity|]. cbn [flat_map]. rewrite IH, app_nil_r. clear IH.
      induction L2 as [|b L2 IH2]; [reflexivity|]. cbn [flat_map]. rewrite Hg. exact IH2. }
    rewrite !H0.
    + reflexivity.
    + intros a b. unfold bil_weight. rewrite Ec. destruct (data (i + a) (j + b)); reflexivity.
    + intros a b. unfold bil_weight. rewrite Ec. destruct (data (i + a) (j + b)); reflexivity.
Qed.
