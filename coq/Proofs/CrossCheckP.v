(* Proofs for C07: the vectorised model of disparity_checking computes, pixel by pixel,
   what Spec/CrossCheck.v prescribes. *)
From Coq Require Import ZArith QArith Qround Qabs List Bool Lia Lqa ZifyBool.
From Pandora Require Import Model.CrossCheck Spec.CrossCheck.
Import ListNotations.
Open Scope Z_scope.

(* ------------------------------------------------------------------ rounding *)

Lemma floor_bounds : forall q : Q,
  (inject_Z (Qfloor q) <= q /\ q < inject_Z (Qfloor q) + 1)%Q.
Proof.
  intro q. split. apply Qfloor_le.
  pose proof (Qlt_floor q) as H. rewrite inject_Z_plus in H. exact H.
Qed.

Lemma rint_nearest : forall q, is_nearest_even q (rint q).
Proof.
  intro q. unfold rint, is_nearest_even.
  destruct (floor_bounds q) as [H1 H2].
  set (f := Qfloor q) in *.
  destruct (Qcompare (q - inject_Z f) (1 # 2)) eqn:E.
  - apply Qeq_alt in E.
    destruct (Z.even f) eqn:Ev.
    + split. apply Qabs_Qle_condition. lra. intros _. exact Ev.
    + split. rewrite inject_Z_plus. apply Qabs_Qle_condition. change (inject_Z 1) with 1%Q. lra.
      intros _. rewrite Z.even_add, Ev. reflexivity.
  - apply Qlt_alt in E. split. apply Qabs_Qle_condition. lra.
    intro Habs. exfalso.
    rewrite Qabs_pos in Habs by lra. lra.
  - apply Qgt_alt in E. rewrite inject_Z_plus. change (inject_Z 1) with 1%Q. split.
    apply Qabs_Qle_condition. lra.
    intro Habs. exfalso.
    rewrite Qabs_neg in Habs by lra. lra.
Qed.

Lemma round_he_nearest : forall q, is_nearest_even q (round_he q).
Proof.
  intro q. unfold round_he, is_nearest_even.
  destruct (floor_bounds (q + (1 # 2))) as [H1 H2].
  set (z := Qfloor (q + (1 # 2))) in *.
  destruct (Qeq_bool (q + (1 # 2)) (inject_Z z)) eqn:E; cbn [andb].
  - apply Qeq_bool_iff in E.
    destruct (Z.odd z) eqn:Od.
    + unfold Z.sub. rewrite inject_Z_plus, inject_Z_opp. change (inject_Z 1) with 1%Q. split.
      apply Qabs_Qle_condition. lra.
      intros _. rewrite Z.even_add. rewrite <- Z.negb_odd, Od. reflexivity.
    + split. apply Qabs_Qle_condition. lra.
      intros _. rewrite <- Z.negb_odd, Od. reflexivity.
  - assert (Hne : ~ (q + (1 # 2) == inject_Z z)%Q).
    { intro H. apply Qeq_bool_iff in H. congruence. }
    split. apply Qabs_Qle_condition. lra.
    intro Habs. exfalso.
    destruct (Qlt_le_dec (q - inject_Z z) 0) as [Hn | Hp].
    + rewrite Qabs_neg in Habs by lra. apply Hne. lra.
    + rewrite Qabs_pos in Habs by lra. lra.
Qed.

Lemma nearest_even_unique : forall q z1 z2,
  is_nearest_even q z1 -> is_nearest_even q z2 -> z1 = z2.
Proof.
  intros q z1 z2 [A1 B1] [A2 B2].
  apply Qabs_Qle_condition in A1. apply Qabs_Qle_condition in A2.
  assert (Hd : (inject_Z z1 - inject_Z z2 <= 1 /\ inject_Z z2 - inject_Z z1 <= 1)%Q) by lra.
  destruct Hd as [Hd1 Hd2].
  assert (z1 - z2 <= 1).
  { rewrite Zle_Qle. unfold Z.sub. rewrite inject_Z_plus, inject_Z_opp. change (inject_Z 1) with 1%Q. lra. }
  assert (z2 - z1 <= 1).
  { rewrite Zle_Qle. unfold Z.sub. rewrite inject_Z_plus, inject_Z_opp. change (inject_Z 1) with 1%Q. lra. }
  destruct (Z.eq_dec z1 z2) as [|Hne]; [assumption|exfalso].
  assert (Hc : z1 = z2 + 1 \/ z2 = z1 + 1) by lia.
  destruct Hc as [Hc | Hc]; subst.
  - rewrite inject_Z_plus in *. change (inject_Z 1) with 1%Q in *.
    assert (E2 : (Qabs (q - inject_Z z2) == 1 # 2)%Q) by (rewrite Qabs_pos; lra).
    assert (E1 : (Qabs (q - (inject_Z z2 + 1)) == 1 # 2)%Q) by (rewrite Qabs_neg; lra).
    specialize (B1 E1). specialize (B2 E2). rewrite Z.even_add, B2 in B1. discriminate.
  - rewrite inject_Z_plus in *. change (inject_Z 1) with 1%Q in *.
    assert (E1 : (Qabs (q - inject_Z z1) == 1 # 2)%Q) by (rewrite Qabs_pos; lra).
    assert (E2 : (Qabs (q - (inject_Z z1 + 1)) == 1 # 2)%Q) by (rewrite Qabs_neg; lra).
    specialize (B1 E1). specialize (B2 E2). rewrite Z.even_add, B1 in B2. discriminate.
Qed.

Lemma rint_round_he : forall q, rint q = round_he q.
Proof. intro q. apply (nearest_even_unique q); [apply rint_nearest | apply round_he_nearest]. Qed.

(* the rounding of the code as found: rint(col + d) = col + rint(d) except on ties of odd columns *)
Lemma rint_shift_even : forall c d, Z.even c = true -> rint (inject_Z c + d) = c + rint d.
Proof.
  intros c d Hc. apply (nearest_even_unique (inject_Z c + d)). apply rint_nearest.
  destruct (rint_nearest d) as [A B]. unfold is_nearest_even.
  rewrite inject_Z_plus.
  assert (E : (inject_Z c + d - (inject_Z c + inject_Z (rint d)) == d - inject_Z (rint d))%Q) by ring.
  rewrite E. split. exact A. intro H. rewrite Z.even_add, Hc, (B H). reflexivity.
Qed.

(* ------------------------------------------------------------------ lists, scatter updates *)

Definition sum_at (c : Z) (ups : list (Z * Z)) : Z :=
  fold_right (fun iv acc => (if c =? fst iv then snd iv else 0) + acc) 0 ups.

Lemma scatter_add_sum : forall ups m c, scatter_add m ups c = m c + sum_at c ups.
Proof.
  unfold scatter_add. induction ups as [|a ups IH]; intros m c; cbn [fold_left sum_at fold_right].
  - lia.
  - rewrite IH. fold (sum_at c ups). destruct (c =? fst a); lia.
Qed.

Lemma filter_filter : forall {A} (P Q : A -> bool) l,
  filter Q (filter P l) = filter (fun x => P x && Q x) l.
Proof.
  induction l as [|a l IH]; cbn [filter]. reflexivity.
  destruct (P a); cbn [filter andb]; [destruct (Q a)|]; rewrite IH; reflexivity.
Qed.

Lemma filter_map_comm : forall {A B} (h : A -> B) (P : B -> bool) l,
  filter P (map h l) = map h (filter (fun x => P (h x)) l).
Proof.
  induction l as [|a l IH]; cbn [filter map]. reflexivity.
  destruct (P (h a)); cbn [map]; rewrite IH; reflexivity.
Qed.

Lemma sum_at_cons : forall c iv l,
  sum_at c (iv :: l) = (if c =? fst iv then snd iv else 0) + sum_at c l.
Proof. reflexivity. Qed.

Lemma sum_at_canon : forall (G : Z -> Z) (P : Z -> bool) a c k s,
  sum_at c (map (fun x => (x, G x)) (filter P (map (fun i => a + Z.of_nat i) (seq s k))))
  = if (a + Z.of_nat s <=? c) && (c <? a + Z.of_nat s + Z.of_nat k) && P c then G c else 0.
Proof.
  intros G P a c. induction k as [|k IH]; intro s; cbn [seq map filter].
  - cbn [sum_at fold_right].
    destruct ((a + Z.of_nat s <=? c) && (c <? a + Z.of_nat s + Z.of_nat 0)) eqn:E; [lia | reflexivity].
  - destruct (P (a + Z.of_nat s)) eqn:EP; cbn [map]; rewrite ?sum_at_cons; cbn [fst snd];
      rewrite IH; clear IH.
    + destruct (c =? a + Z.of_nat s) eqn:Ec.
      * apply Z.eqb_eq in Ec. subst c. rewrite EP.
        replace ((a + Z.of_nat (S s) <=? a + Z.of_nat s)) with false by lia.
        replace ((a + Z.of_nat s <=? a + Z.of_nat s)) with true by lia.
        replace ((a + Z.of_nat s <? a + Z.of_nat s + Z.of_nat (S k))) with true by lia.
        cbn [andb]. lia.
      * replace ((a + Z.of_nat (S s) <=? c) && (c <? a + Z.of_nat (S s) + Z.of_nat k))
          with ((a + Z.of_nat s <=? c) && (c <? a + Z.of_nat s + Z.of_nat (S k))) by lia.
        lia.
    + destruct (Z.eq_dec c (a + Z.of_nat s)) as [->|Hne].
      * rewrite EP. rewrite !andb_false_r.
        replace ((a + Z.of_nat (S s) <=? a + Z.of_nat s)) with false by lia. reflexivity.
      * replace ((a + Z.of_nat (S s) <=? c) && (c <? a + Z.of_nat (S s) + Z.of_nat k))
          with ((a + Z.of_nat s <=? c) && (c <? a + Z.of_nat s + Z.of_nat (S k))) by lia.
        reflexivity.
Qed.

Lemma In_zrange : forall a n c, In c (zrange a n) <-> a <= c < a + n.
Proof.
  intros a n c. unfold zrange. rewrite in_map_iff. split.
  - intros [i [E Hi]]. apply in_seq in Hi. lia.
  - intro H. exists (Z.to_nat (c - a)). split. lia. apply in_seq. lia.
Qed.

(* scatter_set on the same canonical shape *)
Lemma scatter_set_canon : forall {A} (G : Z -> A) (P : Z -> bool) a c k s (m : Z -> A),
  scatter_set m (map (fun x => (x, G x)) (filter P (map (fun i => a + Z.of_nat i) (seq s k)))) c
  = if (a + Z.of_nat s <=? c) && (c <? a + Z.of_nat s + Z.of_nat k) && P c then G c else m c.
Proof.
  intros A G P a c. unfold scatter_set. induction k as [|k IH]; intros s m; cbn [seq map filter].
  - cbn [fold_left].
    destruct ((a + Z.of_nat s <=? c) && (c <? a + Z.of_nat s + Z.of_nat 0)) eqn:E; [lia | reflexivity].
  - destruct (P (a + Z.of_nat s)) eqn:EP; cbn [map fold_left fst snd]; rewrite IH; clear IH.
    + destruct (c =? a + Z.of_nat s) eqn:Ec.
      * apply Z.eqb_eq in Ec. subst c.
        replace ((a + Z.of_nat (S s) <=? a + Z.of_nat s)) with false by lia.
        replace ((a + Z.of_nat s <=? a + Z.of_nat s)) with true by lia.
        replace ((a + Z.of_nat s <? a + Z.of_nat s + Z.of_nat (S k))) with true by lia.
        rewrite EP. reflexivity.
      * replace ((a + Z.of_nat (S s) <=? c) && (c <? a + Z.of_nat (S s) + Z.of_nat k))
          with ((a + Z.of_nat s <=? c) && (c <? a + Z.of_nat s + Z.of_nat (S k))) by lia.
        reflexivity.
    + destruct (Z.eq_dec c (a + Z.of_nat s)) as [->|Hne].
      * rewrite EP. rewrite !andb_false_r.
        replace ((a + Z.of_nat (S s) <=? a + Z.of_nat s)) with false by lia. reflexivity.
      * replace ((a + Z.of_nat (S s) <=? c) && (c <? a + Z.of_nat (S s) + Z.of_nat k))
          with ((a + Z.of_nat s <=? c) && (c <? a + Z.of_nat s + Z.of_nat (S k))) by lia.
        reflexivity.
Qed.

(* ------------------------------------------------------------------ one row, pixel by pixel *)

Section RowP.
  Variables (fo fr : bool) (nc : Z) (dL dR : Z -> option Q) (mk : Z -> Z) (thr : Q) (dmin dmax : Z).

  Let cr := col_right_of fr dL.
  Let sel (c : Z) := (0 <=? c) && (c <? nc) && is_valid (mk c).

  Lemma sum_at_pairs : forall (P : Z * Z -> bool) (G : Z * Z -> Z) c,
    sum_at c (map (fun cq => (fst cq, G cq)) (filter P (pairs fr nc dL mk)))
    = if sel c && P (c, cr c) then G (c, cr c) else 0.
  Proof.
    intros P G c. unfold pairs, col_left, zrange.
    rewrite filter_map_comm, map_map, filter_filter. cbn [fst].
    rewrite (sum_at_canon (fun x => G (x, col_right_of fr dL x))
                          (fun x => is_valid (mk x) && P (x, col_right_of fr dL x)) 0 c (Z.to_nat nc) 0).
    unfold sel, cr.
    destruct (is_valid (mk c)); destruct (P (c, col_right_of fr dL c));
      rewrite ?andb_true_r, ?andb_false_r; try reflexivity.
    replace ((0 + Z.of_nat 0 <=? c) && (c <? 0 + Z.of_nat 0 + Z.of_nat (Z.to_nat nc)))
      with ((0 <=? c) && (c <? nc)) by lia.
    reflexivity.
  Qed.

  Lemma set_at_pairs : forall {A} (P : Z * Z -> bool) (G : Z * Z -> A) (m : Z -> A) c,
    scatter_set m (map (fun cq => (fst cq, G cq)) (filter P (pairs fr nc dL mk))) c
    = if sel c && P (c, cr c) then G (c, cr c) else m c.
  Proof.
    intros A P G m c. unfold pairs, col_left, zrange.
    rewrite filter_map_comm, map_map, filter_filter. cbn [fst].
    rewrite (scatter_set_canon (fun x => G (x, col_right_of fr dL x))
                          (fun x => is_valid (mk x) && P (x, col_right_of fr dL x)) 0 c (Z.to_nat nc) 0).
    unfold sel, cr.
    destruct (is_valid (mk c)); destruct (P (c, col_right_of fr dL c));
      rewrite ?andb_true_r, ?andb_false_r; try reflexivity.
    replace ((0 + Z.of_nat 0 <=? c) && (c <? 0 + Z.of_nat 0 + Z.of_nat (Z.to_nat nc)))
      with ((0 <=? c) && (c <? nc)) by lia.
    reflexivity.
  Qed.

  Definition is_outside (q : Z) : bool :=
    if fo then (q <? 0) || (nc <=? q) else (q <? 0) && (nc <=? q).

  (* what one pixel of the row ends with *)
  Definition pixel_mask (c : Z) : Z :=
    if sel c then
      if in_img nc (cr c) then
        if egt (dist dL dR (c, cr c)) thr
        then mk c + MSK_OCCLUSION + MSK_MISMATCH * comp nc dR dmin dmax c
                  - MSK_OCCLUSION * comp nc dR dmin dmax c
        else mk c
      else if is_outside (cr c) then mk c + MSK_OCCLUSION else mk c
    else mk c.

  Lemma in_img_not_outside : forall q, in_img nc q = true -> is_outside q = false.
  Proof. intros q H. unfold in_img in H. unfold is_outside. destruct fo; lia. Qed.

  Lemma mask_row_pixel : forall c,
    mask_row fo fr nc dL dR mk thr dmin dmax c = pixel_mask c.
  Proof.
    intro c. unfold mask_row, invalid, inside_right, outside_right.
    rewrite !scatter_add_sum. rewrite !filter_filter.
    rewrite (sum_at_pairs _ (fun _ => MSK_OCCLUSION)).
    rewrite (sum_at_pairs _ (fun cq => MSK_MISMATCH * comp nc dR dmin dmax (fst cq))).
    rewrite (sum_at_pairs _ (fun cq => - (MSK_OCCLUSION * comp nc dR dmin dmax (fst cq)))).
    rewrite (sum_at_pairs (fun cq => if fo then (snd cq <? 0) || (nc <=? snd cq)
                                     else (snd cq <? 0) && (nc <=? snd cq)) (fun _ => MSK_OCCLUSION)).
    cbn [fst snd]. unfold pixel_mask. fold (is_outside (cr c)).
    destruct (sel c); cbn [andb]; [|lia].
    destruct (in_img nc (cr c)) eqn:Ein; cbn [andb].
    - rewrite (in_img_not_outside _ Ein).
      destruct (egt (dist dL dR (c, cr c)) thr); lia.
    - destruct (is_outside (cr c)); lia.
  Qed.

  Definition pixel_conf (c : Z) : conf :=
    if sel c && in_img nc (cr c) then conf_of_ext (dist dL dR (c, cr c)) else CNan.

  Lemma conf_row_pixel : forall c, conf_row fr nc dL dR mk c = pixel_conf c.
  Proof.
    intro c. unfold conf_row, inside_right.
    rewrite (set_at_pairs (fun cq => in_img nc (snd cq)) (fun cq => conf_of_ext (dist dL dR cq))).
    reflexivity.
  Qed.
End RowP.

(* ------------------------------------------------------------------ model vs spec *)

Lemma testbit_963 : forall n, 0 <= n -> Z.testbit 963 n = true ->
  n = 0 \/ n = 1 \/ n = 6 \/ n = 7 \/ n = 8 \/ n = 9.
Proof.
  intros n Hn H. destruct (Z_lt_le_dec n 10) as [Hlt | Hge].
  - assert (Hc : n = 0 \/ n = 1 \/ n = 2 \/ n = 3 \/ n = 4 \/ n = 5 \/ n = 6 \/ n = 7 \/ n = 8 \/ n = 9) by lia.
    repeat (destruct Hc as [Hc | Hc]; [subst n; try (vm_compute in H; discriminate H); lia|]).
    subst n; lia.
  - rewrite Z.bits_above_log2 in H. discriminate. lia. change (Z.log2 963) with 9. lia.
Qed.

Lemma is_valid_spec : forall m, is_valid m = spec_valid m.
Proof.
  intro m. unfold is_valid, spec_valid, INVALID_BITS, MSK_INVALID. cbn [forallb].
  destruct (Z.land m 963 =? 0) eqn:E.
  - apply Z.eqb_eq in E. symmetry.
    assert (Hb : forall b, Z.testbit 963 b = true -> Z.testbit m b = false).
    { intros b Hb. assert (Z.testbit (Z.land m 963) b = false) by (rewrite E; apply Z.testbit_0_l).
      rewrite Z.land_spec, Hb, andb_true_r in H. exact H. }
    rewrite (Hb 0), (Hb 1), (Hb 6), (Hb 7), (Hb 8), (Hb 9) by reflexivity. reflexivity.
  - symmetry. apply not_true_is_false. intro H.
    rewrite !andb_true_iff, !negb_true_iff in H.
    destruct H as (H0 & H1 & H6 & H7 & H8 & H9 & _).
    apply Z.eqb_neq in E. apply E. apply Z.bits_inj'. intros n Hn.
    rewrite Z.land_spec, Z.testbit_0_l.
    destruct (Z.testbit 963 n) eqn:T; [|apply andb_false_r].
    apply testbit_963 in T; [|exact Hn].
    destruct T as [T|[T|[T|[T|[T|T]]]]]; subst n; rewrite andb_true_r; assumption.
Qed.

Lemma spec_valid_bits : forall m, spec_valid m = true ->
  Z.land m 963 = 0 /\ Z.testbit m 8 = false /\ Z.testbit m 9 = false /\ Z.testbit m 0 = false.
Proof.
  intros m H. split.
  - rewrite <- is_valid_spec in H. apply Z.eqb_eq in H. exact H.
  - unfold spec_valid, INVALID_BITS in H. cbn [forallb] in H.
    rewrite !andb_true_iff, !negb_true_iff in H. tauto.
Qed.

Lemma add_bit_lor : forall m b, Z.land m 963 = 0 -> Z.land 963 b = b -> m + b = Z.lor m b.
Proof.
  intros m b H Hb.
  assert (Z.land m b = 0) by (rewrite <- Hb, Z.land_assoc, H; apply Z.land_0_l).
  rewrite Z.add_nocarry_lxor by assumption. apply Z.lxor_lor. assumption.
Qed.

Lemma interval_range : forall dmin dmax, disparity_range dmin dmax = interval dmin dmax.
Proof.
  intros. unfold disparity_range, interval, zrange.
  replace (dmax + 1 - dmin) with (dmax - dmin + 1) by lia. reflexivity.
Qed.

Lemma In_interval : forall dmin dmax d, In d (interval dmin dmax) <-> dmin <= d <= dmax.
Proof.
  intros. rewrite <- interval_range. unfold disparity_range. rewrite In_zrange. lia.
Qed.

Lemma hit_matches : forall nc dR c d, hit nc dR c d = matches nc dR c d.
Proof.
  intros. unfold hit, matches, in_image. replace (d + c) with (c + d) by lia.
  destruct ((0 <=? c + d) && (c + d <? nc)); [|reflexivity]. cbn [andb].
  destruct (dR (c + d)); [|reflexivity]. rewrite rint_round_he. reflexivity.
Qed.

Lemma length_filter_existsb : forall {A} (f : A -> bool) l,
  (if 1 <? Z.of_nat (length (filter f l)) then 1 else Z.of_nat (length (filter f l)))
  = if existsb f l then 1 else 0.
Proof.
  intros A f l. induction l as [|a l IH]; cbn [filter existsb length]. reflexivity.
  destruct (f a); cbn [orb length].
  - destruct (1 <? Z.of_nat (S (length (filter f l)))) eqn:E; lia.
  - exact IH.
Qed.

Lemma comp_spec : forall nc dR dmin dmax c,
  comp nc dR dmin dmax c = if some_match nc dR dmin dmax c then 1 else 0.
Proof.
  intros. unfold comp, some_match. rewrite interval_range.
  rewrite (filter_ext _ _ (hit_matches nc dR c)).
  apply length_filter_existsb.
Qed.

Lemma Qle_bool_comp : forall x y t, (x == y)%Q -> Qle_bool x t = Qle_bool y t.
Proof.
  intros x y t E. destruct (Qle_bool x t) eqn:A; destruct (Qle_bool y t) eqn:B; try reflexivity.
  - apply Qle_bool_iff in A. rewrite E in A. apply Qle_bool_iff in A. congruence.
  - apply Qle_bool_iff in B. rewrite <- E in B. apply Qle_bool_iff in B. congruence.
Qed.

Section RowSpec.
  Variables (nc : Z) (dL dR : Z -> option Q) (mk : Z -> Z) (thr : Q) (dmin dmax : Z).

  (* what the repaired code decides for a previously valid pixel *)
  Definition code_verdict (p : Z) : verdict :=
    if consistent nc dL dR thr p then Keep
    else if match dL p with Some l => in_image nc (p + round_he l) | None => false end
         then (if some_match nc dR dmin dmax p then Mismatch else Occlusion)
         else Occlusion.

  Lemma pixel_mask_verdict : forall c, 0 <= c < nc -> nc <= 2 ^ 63 -> spec_valid (mk c) = true ->
    pixel_mask true true nc dL dR mk thr dmin dmax c = mk c + verdict_bit (code_verdict c).
  Proof.
    intros c Hc Hnc Hv. unfold pixel_mask.
    rewrite <- is_valid_spec in Hv. rewrite Hv.
    replace ((0 <=? c) && (c <? nc)) with true by lia. cbn [andb].
    unfold code_verdict, consistent, col_right_of.
    destruct (dL c) as [l|] eqn:EL.
    - rewrite rint_round_he. change (in_img nc) with (in_image nc).
      destruct (in_image nc (c + round_he l)) eqn:Ein; cbn [andb].
      + unfold dist. cbn [fst snd]. rewrite EL.
        destruct (dR (c + round_he l)) as [r|] eqn:ER; cbn [ext_of eadd eabs egt].
        * rewrite (Qle_bool_comp (Qabs (r + l)) (Qabs (l + r))) by (apply Qabs_wd; ring).
          destruct (Qle_bool (Qabs (l + r)) thr); cbn [negb verdict_bit]. lia.
          rewrite comp_spec. unfold MSK_OCCLUSION, MSK_MISMATCH.
          destruct (some_match nc dR dmin dmax c); cbn [verdict_bit]; lia.
        * rewrite comp_spec. unfold MSK_OCCLUSION, MSK_MISMATCH.
          destruct (some_match nc dR dmin dmax c); cbn [verdict_bit]; lia.
      + unfold is_outside, in_image in *. cbn [verdict_bit]. unfold MSK_OCCLUSION.
        destruct ((c + round_he l <? 0) || (nc <=? c + round_he l)) eqn:E; lia.
    - unfold in_img, is_outside, INT_MIN. cbn [verdict_bit]. unfold MSK_OCCLUSION.
      destruct ((0 <=? c + - 2 ^ 63) && (c + - 2 ^ 63 <? nc)) eqn:E1; [lia|].
      destruct ((c + - 2 ^ 63 <? 0) || (nc <=? c + - 2 ^ 63)) eqn:E2; lia.
  Qed.

  Lemma code_verdict_spec : forall p, outside_with_match nc dL dR dmin dmax p = false ->
    code_verdict p = xspec nc dL dR thr dmin dmax p.
  Proof.
    intros p H. unfold code_verdict, xspec, outside_with_match in *.
    destruct (consistent nc dL dR thr p); [reflexivity|].
    destruct (dL p) as [l|].
    - destruct (in_image nc (p + round_he l)); cbn [negb andb] in H. reflexivity. rewrite H. reflexivity.
    - cbn [andb] in H. rewrite H. reflexivity.
  Qed.

  Lemma code_verdict_keep : forall p,
    code_verdict p = Keep <-> consistent nc dL dR thr p = true.
  Proof.
    intro p. unfold code_verdict. destruct (consistent nc dL dR thr p).
    - split; intro; reflexivity.
    - destruct (match dL p with Some l => in_image nc (p + round_he l) | None => false end);
        [destruct (some_match nc dR dmin dmax p)|]; split; intro; discriminate.
  Qed.

  Lemma xspec_keep : forall p,
    xspec nc dL dR thr dmin dmax p = Keep <-> consistent nc dL dR thr p = true.
  Proof.
    intro p. unfold xspec. destruct (consistent nc dL dR thr p).
    - split; intro; reflexivity.
    - destruct (some_match nc dR dmin dmax p); split; intro; discriminate.
  Qed.

  (* the confidence cell, for a valid pixel *)
  Lemma pixel_conf_spec : forall c, 0 <= c < nc -> nc <= 2 ^ 63 ->
    match spec_conf nc dL dR (spec_valid (mk c)) c with
    | Some (Some x) => exists y, pixel_conf true nc dL dR mk c = CFin y /\ (y == x)%Q
    | Some None => pixel_conf true nc dL dR mk c = CNan
    | None => pixel_conf true nc dL dR mk c = CInf   (* dR(q) is NaN: the code writes +inf *)
    end.
  Proof.
    intros c Hc Hnc. unfold pixel_conf, spec_conf. rewrite <- is_valid_spec.
    replace ((0 <=? c) && (c <? nc)) with true by lia. cbn [andb].
    destruct (is_valid (mk c)); cbn [andb]; [|reflexivity].
    unfold col_right_of. destruct (dL c) as [l|] eqn:EL.
    - rewrite rint_round_he. change (in_img nc) with (in_image nc).
      destruct (in_image nc (c + round_he l)); [|reflexivity].
      unfold dist. cbn [fst snd]. rewrite EL.
      destruct (dR (c + round_he l)) as [r|]; cbn [ext_of eadd eabs conf_of_ext]; [|reflexivity].
      eexists. split. reflexivity. apply Qabs_wd. ring.
    - unfold in_img, INT_MIN.
      destruct ((0 <=? c + - 2 ^ 63) && (c + - 2 ^ 63 <? nc)) eqn:E1; [lia|reflexivity].
  Qed.
End RowSpec.

(* ------------------------------------------------------------------ mask_border *)

Lemma mask_border_spec : forall nr nc off m r c, 0 < off -> 0 <= r < nr -> 0 <= c < nc ->
  mask_border nr nc off m r c = if is_border nr nc off r c then MSK_BORDER else m r c.
Proof.
  intros nr nc off m r c Ho Hr Hc. unfold mask_border, is_border.
  replace ((0 <=? r) && (r <? nr)) with true by lia.
  replace ((0 <=? c) && (c <? nc)) with true by lia. cbn [andb].
  destruct (r <? off) eqn:E1; destruct (nr - off <=? r) eqn:E2;
    destruct (c <? off) eqn:E3; destruct (nc - off <=? c) eqn:E4;
    destruct (off <=? r) eqn:E5; destruct (r <? nr - off) eqn:E6; cbn [andb orb]; try reflexivity; lia.
Qed.

(* ------------------------------------------------------------------ extensionality in the other map *)

Section Ext.
  Variables (nc : Z) (dL dR dR' : Z -> option Q) (mk : Z -> Z) (thr : Q) (dmin dmax : Z).
  Hypothesis HdR : forall q, 0 <= q < nc -> dR q = dR' q.

  Lemma hit_ext : forall c d, hit nc dR c d = hit nc dR' c d.
  Proof.
    intros c d. unfold hit. destruct ((0 <=? d + c) && (d + c <? nc)) eqn:E; [|reflexivity].
    rewrite HdR by lia. reflexivity.
  Qed.

  Lemma comp_ext : forall c, comp nc dR dmin dmax c = comp nc dR' dmin dmax c.
  Proof. intro c. unfold comp. rewrite (filter_ext _ _ (hit_ext c)). reflexivity. Qed.

  Lemma pixel_mask_ext : forall fo fr c,
    pixel_mask fo fr nc dL dR mk thr dmin dmax c = pixel_mask fo fr nc dL dR' mk thr dmin dmax c.
  Proof.
    intros fo fr c. unfold pixel_mask.
    destruct ((0 <=? c) && (c <? nc) && is_valid (mk c)); [|reflexivity].
    destruct (in_img nc (col_right_of fr dL c)) eqn:E; [|reflexivity].
    unfold dist. cbn [fst snd]. unfold in_img in E. rewrite HdR by lia. rewrite comp_ext. reflexivity.
  Qed.

  Lemma pixel_conf_ext : forall fr c,
    pixel_conf fr nc dL dR mk c = pixel_conf fr nc dL dR' mk c.
  Proof.
    intros fr c. unfold pixel_conf.
    destruct ((0 <=? c) && (c <? nc) && is_valid (mk c)); [|reflexivity]. cbn [andb].
    destruct (in_img nc (col_right_of fr dL c)) eqn:E; [|reflexivity].
    unfold dist. cbn [fst snd]. unfold in_img in E. rewrite HdR by lia. reflexivity.
  Qed.
End Ext.

(* ------------------------------------------------------------------ the step on datasets *)

Section DS.
  Variables (thr : Q) (me other : dataset).

  Definition in_ds (r c : Z) : Prop := 0 <= r < ds_nr me /\ 0 <= c < ds_nc me.
  Definition border_at (r c : Z) : bool := is_border (ds_nr me) (ds_nc me) (ds_offset me) r c.
  Definition verdict_at (r c : Z) : verdict :=
    xspec (ds_nc me) (ds_disp me r) (ds_disp other r) thr (ds_dmin me) (ds_dmax me) c.
  Definition finding_at (r c : Z) : bool :=
    outside_with_match (ds_nc me) (ds_disp me r) (ds_disp other r) (ds_dmin me) (ds_dmax me) c.
  Definition code_verdict_at (r c : Z) : verdict :=
    code_verdict (ds_nc me) (ds_disp me r) (ds_disp other r) thr (ds_dmin me) (ds_dmax me) c.

  Lemma out_mask_inner : forall r c, in_ds r c -> border_at r c = false ->
    ds_mask (xcheck thr me other) r c
    = pixel_mask true true (ds_nc me) (ds_disp me r) (ds_disp other r) (ds_mask me r) thr
                 (ds_dmin me) (ds_dmax me) c.
  Proof.
    intros r c [Hr Hc] Hb. unfold xcheck, xcheck_gen. cbn [ds_mask].
    assert (E : xcheck_mask true true thr me other r c
                = pixel_mask true true (ds_nc me) (ds_disp me r) (ds_disp other r) (ds_mask me r) thr
                             (ds_dmin me) (ds_dmax me) c).
    { unfold xcheck_mask. replace ((0 <=? r) && (r <? ds_nr me)) with true by lia. apply mask_row_pixel. }
    destruct (0 <? ds_offset me) eqn:Eo.
    - rewrite mask_border_spec by lia. unfold border_at in Hb. rewrite Hb. exact E.
    - exact E.
  Qed.

  Lemma out_mask_code : forall r c, in_ds r c -> ds_nc me <= 2 ^ 63 -> border_at r c = false ->
    spec_valid (ds_mask me r c) = true ->
    ds_mask (xcheck thr me other) r c = Z.lor (ds_mask me r c) (verdict_bit (code_verdict_at r c)).
  Proof.
    intros r c Hin Hnc Hb Hv. rewrite out_mask_inner by assumption.
    destruct Hin as [Hr Hc]. rewrite pixel_mask_verdict by assumption.
    apply spec_valid_bits in Hv. destruct Hv as [Hl _].
    apply add_bit_lor. exact Hl.
    unfold code_verdict_at. destruct (code_verdict _ _ _ _ _ _ _); reflexivity.
  Qed.

  Lemma xcheck_eq_spec : forall r c, in_ds r c -> ds_nc me <= 2 ^ 63 -> border_at r c = false ->
    spec_valid (ds_mask me r c) = true -> finding_at r c = false ->
    ds_mask (xcheck thr me other) r c = Z.lor (ds_mask me r c) (verdict_bit (verdict_at r c)).
  Proof.
    intros r c Hin Hnc Hb Hv Hf. rewrite out_mask_code by assumption.
    unfold code_verdict_at, verdict_at. rewrite code_verdict_spec by exact Hf. reflexivity.
  Qed.

  Lemma lor_bit_neq : forall m b, Z.land m 963 = 0 -> Z.land 963 b = b -> 0 < b -> Z.lor m b <> m.
  Proof.
    intros m b H Hb Hpos E. rewrite <- add_bit_lor in E by assumption. lia.
  Qed.

  Lemma xcheck_keep_iff : forall r c, in_ds r c -> ds_nc me <= 2 ^ 63 -> border_at r c = false ->
    spec_valid (ds_mask me r c) = true ->
    (ds_mask (xcheck thr me other) r c = ds_mask me r c <-> verdict_at r c = Keep).
  Proof.
    intros r c Hin Hnc Hb Hv. rewrite out_mask_code by assumption.
    unfold verdict_at. rewrite xspec_keep. rewrite <- code_verdict_keep with (dmin := ds_dmin me) (dmax := ds_dmax me).
    fold (code_verdict_at r c). apply spec_valid_bits in Hv. destruct Hv as [Hl _].
    destruct (code_verdict_at r c); cbn [verdict_bit]; split; intro H; try reflexivity; try discriminate.
    - apply Z.lor_0_r.
    - exfalso. revert H. apply lor_bit_neq; [assumption|reflexivity|lia].
    - exfalso. revert H. apply lor_bit_neq; [assumption|reflexivity|lia].
  Qed.

  (* in the finding's class: the property says mismatch, the code flags occlusion *)
  Lemma xcheck_finding_class : forall r c, in_ds r c -> ds_nc me <= 2 ^ 63 -> border_at r c = false ->
    spec_valid (ds_mask me r c) = true -> finding_at r c = true ->
    verdict_at r c = Mismatch /\
    ds_mask (xcheck thr me other) r c = Z.lor (ds_mask me r c) (verdict_bit Occlusion).
  Proof.
    intros r c Hin Hnc Hb Hv Hf. rewrite out_mask_code by assumption.
    unfold verdict_at, code_verdict_at, finding_at, outside_with_match, xspec, code_verdict, consistent in *.
    apply andb_true_iff in Hf. destruct Hf as [Ho Hm]. rewrite Hm.
    destruct (ds_disp me r c) as [l|].
    - apply negb_true_iff in Ho. rewrite Ho. cbn [andb]. split; reflexivity.
    - split; reflexivity.
  Qed.

  Lemma xcheck_never_both : forall r c, in_ds r c -> ds_nc me <= 2 ^ 63 -> border_at r c = false ->
    spec_valid (ds_mask me r c) = true ->
    Z.testbit (ds_mask (xcheck thr me other) r c) 8 && Z.testbit (ds_mask (xcheck thr me other) r c) 9 = false.
  Proof.
    intros r c Hin Hnc Hb Hv. rewrite out_mask_code by assumption.
    apply spec_valid_bits in Hv. destruct Hv as (_ & H8 & H9 & _).
    rewrite !Z.lor_spec, H8, H9. destruct (code_verdict_at r c); reflexivity.
  Qed.

  Lemma xcheck_invalid_untouched : forall r c, in_ds r c -> border_at r c = false ->
    spec_valid (ds_mask me r c) = false ->
    ds_mask (xcheck thr me other) r c = ds_mask me r c.
  Proof.
    intros r c Hin Hb Hv. rewrite out_mask_inner by assumption. unfold pixel_mask.
    rewrite is_valid_spec, Hv, andb_false_r. reflexivity.
  Qed.

  Lemma xcheck_border_bit0 : forall r c, in_ds r c -> 0 < ds_offset me -> border_at r c = true ->
    ds_mask (xcheck thr me other) r c = 1.
  Proof.
    intros r c [Hr Hc] Ho Hb. unfold xcheck, xcheck_gen. cbn [ds_mask].
    replace (0 <? ds_offset me) with true by lia.
    rewrite mask_border_spec by lia. unfold border_at in Hb. rewrite Hb. reflexivity.
  Qed.

  Lemma xcheck_disp_unchanged :
    ds_disp (xcheck thr me other) = ds_disp me /\ ds_nr (xcheck thr me other) = ds_nr me /\
    ds_nc (xcheck thr me other) = ds_nc me /\ ds_dmin (xcheck thr me other) = ds_dmin me /\
    ds_dmax (xcheck thr me other) = ds_dmax me /\ ds_offset (xcheck thr me other) = ds_offset me /\
    exists band, ds_bands (xcheck thr me other) = ds_bands me ++ [band].
  Proof. repeat split. eexists. reflexivity. Qed.

  Lemma xcheck_confidence : forall r c d, in_ds r c -> ds_nc me <= 2 ^ 63 ->
    let cell := last (ds_bands (xcheck thr me other)) d r c in
    match spec_conf (ds_nc me) (ds_disp me r) (ds_disp other r) (spec_valid (ds_mask me r c)) c with
    | Some (Some x) => exists y, cell = CFin y /\ (y == x)%Q
    | Some None => cell = CNan
    | None => cell = CInf
    end.
  Proof.
    intros r c d [Hr Hc] Hnc cell. subst cell. unfold xcheck, xcheck_gen. cbn [ds_bands].
    rewrite last_last. unfold xcheck_conf. replace ((0 <=? r) && (r <? ds_nr me)) with true by lia.
    rewrite conf_row_pixel. apply pixel_conf_spec; assumption.
  Qed.

  Lemma xcheck_no_wrap : forall r c, in_ds r c -> ds_nc me <= 2 ^ 63 ->
    0 <= ds_mask me r c < 65536 -> 0 <= ds_mask (xcheck thr me other) r c < 65536.
  Proof.
    intros r c Hin Hnc Hm.
    destruct (0 <? ds_offset me) eqn:Eo; [destruct (border_at r c) eqn:Eb|].
    - rewrite xcheck_border_bit0 by (assumption || lia). lia.
    - destruct (spec_valid (ds_mask me r c)) eqn:Ev.
      + rewrite out_mask_code by assumption.
        assert (Hb : 0 <= verdict_bit (code_verdict_at r c) < 2 ^ 10)
          by (destruct (code_verdict_at r c); cbn; lia).
        split. apply Z.lor_nonneg. lia.
        set (x := Z.lor (ds_mask me r c) (verdict_bit (code_verdict_at r c))).
        assert (0 <= x) by (apply Z.lor_nonneg; lia).
        destruct (Z.eq_dec x 0). lia.
        change 65536 with (2 ^ 16). apply Z.log2_lt_pow2. lia.
        unfold x. rewrite Z.log2_lor by lia.
        assert (Z.log2 (ds_mask me r c) < 16).
        { destruct (Z.eq_dec (ds_mask me r c) 0) as [->|]. cbn. lia. apply Z.log2_lt_pow2; lia. }
        assert (Z.log2 (verdict_bit (code_verdict_at r c)) < 16)
          by (destruct (code_verdict_at r c); cbn; lia).
        lia.
      + rewrite xcheck_invalid_untouched by assumption. exact Hm.
    - assert (Eb : border_at r c = false).
      { unfold border_at, is_border. destruct Hin. lia. }
      destruct (spec_valid (ds_mask me r c)) eqn:Ev.
      + rewrite out_mask_code by assumption.
        split. apply Z.lor_nonneg. destruct (code_verdict_at r c); cbn; lia.
        set (x := Z.lor (ds_mask me r c) (verdict_bit (code_verdict_at r c))).
        assert (0 <= x) by (apply Z.lor_nonneg; destruct (code_verdict_at r c); cbn; lia).
        destruct (Z.eq_dec x 0). lia.
        change 65536 with (2 ^ 16). apply Z.log2_lt_pow2. lia.
        unfold x. rewrite Z.log2_lor by (destruct (code_verdict_at r c); cbn; lia).
        assert (Z.log2 (ds_mask me r c) < 16).
        { destruct (Z.eq_dec (ds_mask me r c) 0) as [->|]. cbn. lia. apply Z.log2_lt_pow2; lia. }
        assert (Z.log2 (verdict_bit (code_verdict_at r c)) < 16)
          by (destruct (code_verdict_at r c); cbn; lia).
        lia.
      + rewrite xcheck_invalid_untouched by assumption. exact Hm.
  Qed.
End DS.

(* the call depends on the other dataset only through the in-range part of its disparity map *)
Lemma xcheck_uses_only_disp : forall thr me other other',
  (forall r c, 0 <= r < ds_nr me -> 0 <= c < ds_nc me -> ds_disp other r c = ds_disp other' r c) ->
  forall r c d, 0 <= r < ds_nr me -> 0 <= c < ds_nc me ->
    ds_mask (xcheck thr me other) r c = ds_mask (xcheck thr me other') r c /\
    last (ds_bands (xcheck thr me other)) d r c = last (ds_bands (xcheck thr me other')) d r c.
Proof.
  intros thr me other other' H r c d Hr Hc.
  assert (Em : forall r c, 0 <= r < ds_nr me ->
             xcheck_mask true true thr me other r c = xcheck_mask true true thr me other' r c).
  { intros r0 c0 Hr0. unfold xcheck_mask. replace ((0 <=? r0) && (r0 <? ds_nr me)) with true by lia.
    rewrite !mask_row_pixel. apply pixel_mask_ext. intros q Hq. apply H; assumption. }
  split.
  - unfold xcheck, xcheck_gen. cbn [ds_mask]. destruct (0 <? ds_offset me) eqn:Eo.
    + rewrite !mask_border_spec by lia. rewrite Em by assumption. reflexivity.
    + apply Em; assumption.
  - unfold xcheck, xcheck_gen. cbn [ds_bands]. rewrite !last_last. unfold xcheck_conf.
    replace ((0 <=? r) && (r <? ds_nr me)) with true by lia.
    rewrite !conf_row_pixel. apply pixel_conf_ext. intros q Hq. apply H; assumption.
Qed.

(* validation_run: left vs right, then right vs the already checked left *)
Definition validation_run (thr : Q) (L R : dataset) : dataset * dataset :=
  let L' := xcheck thr L R in
  let R' := xcheck thr R L' in
  (L', R').

Lemma validation_run_right : forall thr L R,
  snd (validation_run thr L R) = xcheck thr R L /\
  ds_disp (fst (validation_run thr L R)) = ds_disp L /\
  ds_disp (snd (validation_run thr L R)) = ds_disp R.
Proof. intros. repeat split. Qed.
