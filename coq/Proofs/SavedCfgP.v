(* C19, second sentence: the configuration written by pandora.main is a fixpoint of
   check_conf (Model/SavedCfg.v).  Part A: update_conf absorbs a configuration that extends
   the defaults in place.  Part B: check_input_section.  Part C: the pipeline section (C05's
   class-level idempotence lifted to whole pipelines).  Part D: main. *)
From Coq Require Import ZArith List Bool String Lia.
From Pandora Require Import Model.Json Model.Checker Model.Pipeline Model.SavedCfg Proofs.CheckerP.
Import ListNotations.
Open Scope string_scope.
Open Scope list_scope.

(* ------------------------------------------------------------------ Part A: update_conf *)

Definition leafb (v : jv) : bool := match v with JDict _ => false | _ => true end.

(* conv_special leaves the value alone *)
Definition convfix (v : jv) : bool :=
  match v with
  | JStr s => negb (String.eqb s "NaN" || String.eqb s "inf" || String.eqb s "-inf")
  | _ => true
  end.

(* a dictionary of scalars / lists, each key once *)
Definition flat (d : dict) : bool :=
  forallb (fun kv => leafb (snd kv) && convfix (snd kv)) d && nodup_str (keys d).

Lemma merge_leaf dv v : leafb v = true -> convfix v = true -> merge_val dv v = Some v.
Proof.
  destruct v; cbn; try discriminate; try reflexivity.
  intros _ H. destruct (String.eqb s "NaN"), (String.eqb s "inf"), (String.eqb s "-inf"); try discriminate; reflexivity.
Qed.

Lemma merge_val_dict dv ud :
  merge_val dv (JDict ud) =
  match merge_items ud (merge_base dv) with Some r => Some (JDict r) | None => None end.
Proof.
  cbn [merge_val]. generalize (merge_base dv) as acc.
  induction ud as [|[k v] rest IH]; intro acc; [reflexivity|].
  cbn [merge_items]. destruct (merge_val (lookup k acc) v) as [nv|]; [apply IH|reflexivity].
Qed.

Lemma set_key_app_notin k v a b : has_key k a = false -> set_key k v (a ++ b) = a ++ set_key k v b.
Proof.
  unfold has_key. induction a as [|[k' v'] a IH]; cbn; [reflexivity|].
  destruct (String.eqb k k'); [discriminate|]. intro H. rewrite (IH H). reflexivity.
Qed.

Lemma has_key_mem k d : has_key k d = mem_str k (keys d).
Proof.
  unfold has_key. induction d as [|[k' v'] d IH]; cbn; [reflexivity|].
  destruct (String.eqb k k'); [reflexivity|exact IH].
Qed.

Lemma keys_app (a b : dict) : keys (a ++ b) = keys a ++ keys b.
Proof. unfold keys. apply map_app. Qed.

Lemma mem_str_app k a b : mem_str k (a ++ b) = mem_str k a || mem_str k b.
Proof. induction a as [|x a IH]; cbn; [reflexivity|]. rewrite IH. apply orb_assoc. Qed.

Lemma nodup_app_head a k r : nodup_str (a ++ k :: r) = true ->
  mem_str k a = false /\ mem_str k r = false /\ nodup_str ((a ++ [k]) ++ r) = true.
Proof.
  induction a as [|x a IH]; cbn.
  - intro H. apply andb_prop in H as [H1 H2]. apply negb_true_iff in H1. rewrite H1, H2. auto.
  - intro H. apply andb_prop in H as [H1 H2]. apply negb_true_iff in H1.
    rewrite mem_str_app in H1. cbn in H1. apply orb_false_iff in H1 as [H1a H1b].
    apply orb_false_iff in H1b as [H1b H1c].
    destruct (IH H2) as [I1 [I2 I3]]. rewrite I3.
    rewrite String.eqb_sym in H1b. rewrite H1b, I1. cbn. repeat split; try assumption.
    rewrite !mem_str_app. cbn. rewrite H1a, H1c, String.eqb_sym, H1b. reflexivity.
Qed.

Lemma in_mem_keys (d : dict) k v : In (k, v) d -> mem_str k (keys d) = true.
Proof.
  induction d as [|[a b] d IH]; [intros []|]. intros [I|I]; cbn [keys map fst mem_str].
  - inversion I; subst. rewrite String.eqb_refl. reflexivity.
  - change (map fst d) with (keys d). rewrite (IH I). apply orb_true_r.
Qed.

(* the loop of update_conf, run on a dictionary [rest] whose first keys are those of [tail]:
   when each merged value comes back unchanged, the loop rebuilds [rest] *)
Lemma merge_items_absorb : forall rest done tail,
  nodup_str (keys done ++ keys rest) = true ->
  keys tail = firstn (List.length tail) (keys rest) ->
  (forall k v, In (k, v) rest -> merge_val (lookup k tail) v = Some v) ->
  merge_items rest (done ++ tail) = Some (done ++ rest).
Proof.
  induction rest as [|[k v] rest IH]; intros done tail N P H.
  - destruct tail as [|t tail]; [reflexivity|]. cbn in P. discriminate.
  - cbn [keys map fst] in N. destruct (nodup_app_head _ _ _ N) as [N1 [N2 N3]].
    cbn [merge_items].
    assert (L : lookup k (done ++ tail) = lookup k tail).
    { rewrite lookup_app. rewrite <- has_key_mem in N1. unfold has_key in N1.
      destruct (lookup k done); [discriminate|reflexivity]. }
    rewrite L, (H k v (or_introl eq_refl)).
    rewrite set_key_app_notin by (rewrite has_key_mem; exact N1).
    destruct tail as [|[k0 v0] tail].
    + cbn [set_key]. replace (done ++ (k, v) :: rest) with ((done ++ [(k, v)]) ++ rest) by (rewrite <- app_assoc; reflexivity).
      rewrite <- (app_nil_r (done ++ [(k, v)])) at 1. apply IH.
      * rewrite keys_app. exact N3.
      * reflexivity.
      * intros k' v' I. apply (H k' v'). right. exact I.
    + cbn in P. inversion P as [[P1 P2]]. subst k0. cbn [set_key]. rewrite String.eqb_refl.
      replace (done ++ (k, v) :: tail) with ((done ++ [(k, v)]) ++ tail) by (rewrite <- app_assoc; reflexivity).
      replace (done ++ (k, v) :: rest) with ((done ++ [(k, v)]) ++ rest) by (rewrite <- app_assoc; reflexivity).
      apply IH.
      * rewrite keys_app. exact N3.
      * exact P2.
      * intros k' v' I. specialize (H k' v' (or_intror I)). cbn [lookup] in H.
        destruct (String.eqb k' k) eqn:E; [|exact H].
        apply String.eqb_eq in E. subst k'. exfalso.
        pose proof (in_mem_keys rest k v' I) as M.
        unfold keys in M. rewrite M in N2. discriminate.
Qed.

Lemma flat_in d k v : flat d = true -> In (k, v) d -> leafb v = true /\ convfix v = true.
Proof.
  unfold flat. intros H I. apply andb_prop in H as [H _]. rewrite forallb_forall in H.
  specialize (H (k, v) I). cbn in H. apply andb_prop in H. exact H.
Qed.

Lemma flat_nodup d : flat d = true -> nodup_str (keys d) = true.
Proof. unfold flat. intro H. apply andb_prop in H. tauto. Qed.

(* merging a flat dictionary over a dictionary holding its first keys gives it back *)
Lemma merge_flat_over a s :
  flat s = true -> keys a = firstn (List.length a) (keys s) -> merge_items s a = Some s.
Proof.
  intros F P. apply (merge_items_absorb s [] a).
  - exact (flat_nodup s F).
  - exact P.
  - intros k v I. destruct (flat_in s k v F I) as [L C]. apply merge_leaf; assumption.
Qed.

Lemma firstn_keys_self (d : dict) : keys d = firstn (List.length d) (keys d).
Proof. unfold keys. rewrite <- (map_length fst d). symmetry. apply firstn_all. Qed.

Lemma merge_flat_self s : flat s = true -> merge_val (Some (JDict s)) (JDict s) = Some (JDict s).
Proof. intro F. rewrite merge_val_dict; cbn [merge_base]. rewrite (merge_flat_over s s F (firstn_keys_self s)). reflexivity. Qed.

Lemma merge_flat_new s : flat s = true -> merge_val None (JDict s) = Some (JDict s).
Proof. intro F. rewrite merge_val_dict; cbn [merge_base]. rewrite (merge_flat_over [] s F eq_refl). reflexivity. Qed.

(* a dictionary of flat dictionaries (the steps of a pipeline), each name once *)
Definition flat2 (d : dict) : bool :=
  forallb (fun kv => match snd kv with JDict s => flat s | _ => false end) d && nodup_str (keys d).

Lemma lookup_in_nodup d k v : nodup_str (keys d) = true -> In (k, v) d -> lookup k d = Some v.
Proof.
  induction d as [|[k' v'] d IH]; [intros _ []|]. cbn. intros N I.
  apply andb_prop in N as [N1 N2]. apply negb_true_iff in N1. destruct I as [I|I].
  - inversion I; subst. rewrite String.eqb_refl. reflexivity.
  - destruct (String.eqb k k') eqn:E; [|apply IH; assumption].
    apply String.eqb_eq in E. subst. exfalso.
    pose proof (in_mem_keys d k' v I) as M.
    unfold keys in M. rewrite M in N1. discriminate.
Qed.

Lemma merge_flat2_new S : flat2 S = true -> merge_items S [] = Some S.
Proof.
  intro F. unfold flat2 in F. apply andb_prop in F as [F N]. rewrite forallb_forall in F.
  apply (merge_items_absorb S [] []); [exact N|reflexivity|].
  intros k v I. specialize (F (k, v) I). cbn in F. destruct v; try discriminate.
  cbn [lookup]. apply merge_flat_new. exact F.
Qed.

Lemma merge_flat2_self S : flat2 S = true -> merge_items S S = Some S.
Proof.
  intro F. unfold flat2 in F. apply andb_prop in F as [F N]. rewrite forallb_forall in F.
  apply (merge_items_absorb S [] S); [exact N|apply firstn_keys_self|].
  intros k v I. specialize (F (k, v) I). cbn in F. destruct v; try discriminate.
  rewrite (lookup_in_nodup S k _ N I). apply merge_flat_self. exact F.
Qed.

(* ------------------------------------------------------------------ Part B: the input section *)

Fixpoint strs_eqb (a b : list string) : bool :=
  match a, b with
  | [], [] => true
  | x :: a', y :: b' => String.eqb x y && strs_eqb a' b'
  | _, _ => false
  end.

Lemma strs_eqb_eq a : forall b, strs_eqb a b = true -> a = b.
Proof.
  induction a as [|x a IH]; intros [|y b]; cbn; try discriminate; [reflexivity|].
  intro H. apply andb_prop in H as [H1 H2]. apply String.eqb_eq in H1. rewrite (IH b H2), H1. reflexivity.
Qed.

Definition extends (a s : dict) : bool := strs_eqb (keys a) (firstn (List.length a) (keys s)).

(* {"input": {"left": {scalars}, "right": {scalars}}}, the two sections beginning with the keys
   of the defaults in the defaults' order *)
Definition input_shape (def c : dict) : bool :=
  match def, c with
  | [(i1, JDict [(l1, JDict dl); (r1, JDict dr)])], [(i2, JDict [(l2, JDict l); (r2, JDict r)])] =>
    String.eqb i1 "input" && String.eqb i2 "input" && String.eqb l1 "left" && String.eqb l2 "left"
    && String.eqb r1 "right" && String.eqb r2 "right"
    && flat l && flat r && extends dl l && extends dr r
  | _, _ => false
  end.

Lemma update_conf_input_shape def c : input_shape def c = true -> update_conf def c = Some c.
Proof.
  unfold input_shape.
  destruct def as [|[i1 [| | | | | | | |[|[l1 [| | | | | | | |dl]] [|[r1 [| | | | | | | |dr]] [|]]]]] [|]]; try discriminate.
  destruct c as [|[i2 [| | | | | | | |[|[l2 [| | | | | | | |l]] [|[r2 [| | | | | | | |r]] [|]]]]] [|]]; try discriminate.
  rewrite !andb_true_iff. intros [[[[[[[[[E1 E2] E3] E4] E5] E6] F1] F2] X1] X2].
  apply String.eqb_eq in E1, E2, E3, E4, E5, E6. subst.
  apply strs_eqb_eq in X1, X2.
  unfold update_conf. rewrite merge_val_dict; cbn [merge_base].
  assert (E : merge_items [("input", JDict [("left", JDict l); ("right", JDict r)])]
                          [("input", JDict [("left", JDict dl); ("right", JDict dr)])]
              = Some [("input", JDict [("left", JDict l); ("right", JDict r)])]).
  { Opaque merge_val. cbn [merge_items lookup]. rewrite String.eqb_refl. rewrite merge_val_dict; cbn [merge_base].
    cbn [merge_items lookup]. rewrite String.eqb_refl.
    rewrite merge_val_dict; cbn [merge_base]. rewrite (merge_flat_over dl l F1 X1).
    cbn [set_key]. rewrite String.eqb_refl. cbn [lookup].
    change ("right" =? "left") with false. cbv iota. rewrite String.eqb_refl.
    rewrite merge_val_dict; cbn [merge_base]. rewrite (merge_flat_over dr r F2 X2).
    cbn [set_key]. change ("right" =? "left") with false. cbv iota. rewrite String.eqb_refl.
    cbn [set_key]. rewrite String.eqb_refl. reflexivity. Transparent merge_val. }
  rewrite E. reflexivity.
Qed.

Section Main.
  Variable D : input_defs.
  Variable orc : string -> jv -> option bool.
  Variable grid_ok : jv -> jv -> bool.
  Variable images_ok : dict -> bool.
  Variable bands_of : jv -> list jv.
  Variable classes : list class_def.
  Variable interp : list string.

  Notation input_check := (input_check D orc grid_ok images_ok).

  (* check_input_section returns update_conf(defaults, user) or raises *)
  Lemma input_check_out u c : input_check u = Some c -> update_conf (i_default D) u = Some c.
  Proof.
    unfold SavedCfg.input_check. destruct (update_conf (i_default D) u) as [cfg|]; [|discriminate].
    destruct (subdict "input" cfg) as [inp|]; [|discriminate].
    destruct (subdict "left" inp) as [lft|]; [|discriminate].
    destruct (subdict "right" inp) as [rgt|]; [|discriminate].
    destruct (lookup "disp" lft) as [ld|]; [|discriminate].
    destruct (lookup "disp" rgt) as [rd|]; [|discriminate].
    destruct (lookup "img" lft) as [li|]; [|discriminate].
    destruct (lookup "img" rgt) as [ri|]; [|discriminate].
    destruct (if is_list ld then _ else _) as [bl br].
    destruct (_ && _); [|discriminate]. intro H. exact H.
  Qed.

  (* INPUT SECTION REPLAYS: an accepted input section whose completion update_conf leaves
     unchanged is accepted again and returned unchanged *)
  Lemma input_check_fix u c :
    input_check u = Some c -> update_conf (i_default D) c = Some c -> input_check c = Some c.
  Proof.
    intros H F. pose proof (input_check_out u c H) as U.
    unfold SavedCfg.input_check in *. rewrite U in H. rewrite F. exact H.
  Qed.
End Main.

(* ------------------------------------------------------------------ Part C: the pipeline section *)

Definition classes_wf (classes : list class_def) : bool :=
  forallb (fun c => ops_clean (c_prologue c) && prologue_wf (c_prologue c)) classes.

Definition steps_clean (steps : dict) : bool :=
  forallb (fun kv => match snd kv with JDict c => clean c | _ => true end) steps.

Section Pipe.
  Variable classes : list class_def.
  Variable interp : list string.
  Hypothesis W : classes_wf classes = true.

  Lemma class_in_wf c : In c classes -> ops_clean (c_prologue c) = true /\ prologue_wf (c_prologue c) = true.
  Proof.
    intro I. unfold classes_wf in W. rewrite forallb_forall in W. specialize (W c I).
    apply andb_prop in W. exact W.
  Qed.

  (* C05's idempotence through the registry dispatch; the completion extends the input *)
  Lemma step_check_fix g kind cfg d :
    clean cfg = true -> step_check no_oracle classes g kind cfg = Some d ->
    step_check no_oracle classes g kind d = Some d /\ exists app, d = cfg ++ app.
  Proof.
    intros C H. unfold step_check, find_class in *.
    destruct (find (fun c => String.eqb (c_kind c) kind) classes) as [c0|]; [|discriminate].
    destruct (lookup (c_method_key c0) cfg) as [mv|] eqn:L; [|discriminate].
    destruct mv as [| | | |m| | | |]; try discriminate.
    destruct (find (fun c => String.eqb (c_kind c) kind && mem_str m (c_names c)) classes) as [c|] eqn:Fc; [|discriminate].
    pose proof (find_some _ _ Fc) as [Ic _]. destruct (class_in_wf c Ic) as [OC PW].
    pose proof (class_check_appends g c cfg d C OC H) as E.
    split; [|exists (appended (c_prologue c) cfg); exact E].
    assert (L' : lookup (c_method_key c0) d = Some (JStr m)) by (rewrite E, lookup_app, L; reflexivity).
    rewrite L', Fc. exact (class_check_idempotent g c cfg d C OC PW H).
  Qed.

  Lemma step_full_fix im kind cfg d :
    clean cfg = true -> step_full classes interp im kind cfg = Some d ->
    step_full classes interp im kind d = Some d /\ exists app, d = cfg ++ app.
  Proof.
    intros C H. unfold step_full in *.
    destruct (step_check no_oracle classes (is_grid (src_left im) || is_grid (src_right im)) kind cfg) as [d0|] eqn:S;
      [|discriminate].
    destruct (step_check_fix _ kind cfg d0 C S) as [S' X].
    assert (E : d0 = d).
    { destruct (String.eqb kind "matching_cost").
      - destruct (lookup "band" d0); [|discriminate]. destruct (_ && _); [|discriminate]. inversion H; reflexivity.
      - destruct (String.eqb kind "validation").
        + destruct (_ && _); [|discriminate]. inversion H; reflexivity.
        + destruct (String.eqb kind "filter").
          * destruct (lookup "filter_method" d0) as [[| | | |fm| | | |]|]; try (inversion H; reflexivity).
            destruct (lookup "sigma_space" d0) as [[| | |[|]| | | | |]|]; try (inversion H; reflexivity).
            destruct (String.eqb fm "bilateral"); [discriminate|inversion H; reflexivity].
          * inversion H; reflexivity. }
    subst d0. rewrite S'. split; [exact H|exact X].
  Qed.

  Lemma step_full_inv im kind cfg d :
    step_full classes interp im kind cfg = Some d ->
    step_check no_oracle classes (is_grid (src_left im) || is_grid (src_right im)) kind cfg = Some d.
  Proof.
    intro H. unfold step_full in H.
    destruct (step_check no_oracle classes (is_grid (src_left im) || is_grid (src_right im)) kind cfg) as [d0|] eqn:S;
      [|discriminate].
    f_equal.
    destruct (String.eqb kind "matching_cost").
    - destruct (lookup "band" d0); [|discriminate]. destruct (_ && _); [|discriminate]. inversion H; reflexivity.
    - destruct (String.eqb kind "validation").
      + destruct (_ && _); [|discriminate]. inversion H; reflexivity.
      + destruct (String.eqb kind "filter").
        * destruct (lookup "filter_method" d0) as [[| | | |fm| | | |]|]; try (inversion H; reflexivity).
          destruct (lookup "sigma_space" d0) as [[| | |[|]| | | | |]|]; try (inversion H; reflexivity).
          destruct (String.eqb fm "bilateral"); [discriminate|inversion H; reflexivity].
        * inversion H; reflexivity.
  Qed.

  (* the result of a step check does not depend on which image is left *)
  Lemma step_full_swap im kind cfg d d' :
    step_full classes interp im kind cfg = Some d ->
    step_full classes interp (swap_images im) kind cfg = Some d' -> d' = d.
  Proof.
    intros H H'. apply step_full_inv in H. apply step_full_inv in H'.
    cbn [src_left src_right swap_images] in H'. rewrite orb_comm in H'. congruence.
  Qed.

  Notation check_steps := (check_steps classes interp).

  Lemma check_steps_fix im : forall steps done,
    steps_clean steps = true -> check_steps im steps = Some done ->
    check_steps im done = Some done
    /\ keys done = keys steps
    /\ (forall k v, In (k, v) done -> exists cfg app, In (k, JDict cfg) steps /\ v = JDict (cfg ++ app)).
  Proof.
    induction steps as [|[name v] r IH]; intros done C H.
    - cbn in H. inversion H. cbn. repeat split; auto. intros k v [].
    - cbn [Pipeline.check_steps] in H. destruct v; try discriminate.
      destruct (step_full classes interp im (kind_of_step name) d) as [dn|] eqn:S; [|discriminate].
      destruct (Pipeline.check_steps classes interp im r) as [rest|] eqn:R; [|discriminate].
      inversion H; subst done. cbn in C. apply andb_prop in C as [C1 C2].
      destruct (step_full_fix im _ d dn C1 S) as [S' [app X]].
      destruct (IH rest C2 eq_refl) as [I1 [I2 I3]].
      split; [cbn [Pipeline.check_steps]; rewrite S', I1; reflexivity|].
      split; [cbn; f_equal; exact I2|].
      intros k v [E|I].
      + inversion E; subst. exists d, app. split; [left; reflexivity|reflexivity].
      + destruct (I3 k v I) as [c [a [Ic Ev]]]. exists c, a. split; [right; exact Ic|exact Ev].
  Qed.

  Lemma check_steps_swap im : forall steps done d',
    check_steps im steps = Some done -> check_steps (swap_images im) steps = Some d' -> d' = done.
  Proof.
    induction steps as [|[name v] r IH]; intros done d' H H'.
    - cbn in *. congruence.
    - cbn [Pipeline.check_steps] in *. destruct v; try discriminate.
      destruct (step_full classes interp im (kind_of_step name) d) as [dn|] eqn:S; [|discriminate].
      destruct (step_full classes interp (swap_images im) (kind_of_step name) d) as [dn'|] eqn:S'; [|discriminate].
      destruct (Pipeline.check_steps classes interp im r) as [rest|] eqn:R; [|discriminate].
      destruct (Pipeline.check_steps classes interp (swap_images im) r) as [rest'|] eqn:R'; [|discriminate].
      inversion H; inversion H'; subst.
      rewrite (step_full_swap im _ d dn dn' S S'), (IH rest rest' eq_refl eq_refl). reflexivity.
  Qed.

  Lemma firstn_keys_app (a b : dict) : keys a = firstn (List.length a) (keys (a ++ b)).
  Proof.
    rewrite keys_app, firstn_app. unfold keys at 3. rewrite map_length, Nat.sub_diag. cbn [firstn].
    rewrite app_nil_r. apply firstn_keys_self.
  Qed.

  (* update_conf(cfg, {"pipeline": completed steps}) stores the completed steps *)
  Lemma check_steps_merge im steps done :
    steps_clean steps = true -> check_steps im steps = Some done -> flat2 done = true ->
    merge_items done steps = Some done.
  Proof.
    intros C H F. destruct (check_steps_fix im steps done C H) as [_ [K I]].
    unfold flat2 in F. apply andb_prop in F as [F N]. rewrite forallb_forall in F.
    apply (merge_items_absorb done [] steps).
    - exact N.
    - rewrite K. apply firstn_keys_self.
    - intros k v Hin. destruct (I k v Hin) as [cfg [app [Ic Ev]]]. subst v.
      rewrite (lookup_in_nodup steps k (JDict cfg)); [|rewrite <- K; exact N|exact Ic].
      rewrite merge_val_dict; cbn [merge_base]. specialize (F _ Hin). cbn in F.
      rewrite (merge_flat_over cfg (cfg ++ app) F (firstn_keys_app cfg app)). reflexivity.
  Qed.

  Lemma has_validation_keys a b : keys a = keys b -> has_validation a = has_validation b.
  Proof.
    unfold has_validation. revert b. induction a as [|[k v] a IH]; intros [|[k' v'] b]; cbn; try discriminate; [reflexivity|].
    intro E. inversion E; subst. rewrite (IH b); [reflexivity|assumption].
  Qed.

  Lemma lookup_set_key_same k v d : lookup k (set_key k v d) = Some v.
  Proof.
    induction d as [|[k' v'] d IH]; cbn; [rewrite String.eqb_refl; reflexivity|].
    destruct (String.eqb k k') eqn:E; cbn; rewrite E; [reflexivity|exact IH].
  Qed.

  (* what check_pipeline_section computes on the way, and that it returns the completed steps *)
  Definition pipe_guard (im : images) (user : dict) : bool :=
    match update_conf [("pipeline", JDict [])] user with
    | Some cfg1 =>
      match lookup "pipeline" cfg1 with
      | Some (JDict steps) =>
        steps_clean steps
        && match check_steps im steps with Some done => flat2 done | None => false end
      | _ => false
      end
    | None => false
    end.

  Lemma pipeline_check_out im user out :
    pipeline_check classes interp im user = Some out -> pipe_guard im user = true ->
    exists done, out = [("pipeline", JDict done)] /\ flat2 done = true
                 /\ check_steps im done = Some done
                 /\ (has_validation done = true -> check_steps (swap_images im) done = Some done).
  Proof.
    unfold pipeline_check, pipe_guard.
    destruct (update_conf [("pipeline", JDict [])] user) as [cfg1|]; [|discriminate].
    destruct (lookup "pipeline" cfg1) as [[| | | | | | | |steps]|] eqn:L; try discriminate.
    destruct (Pipeline.check_steps classes interp im steps) as [done|] eqn:Cs; [|discriminate].
    intros H G. apply andb_prop in G as [C F].
    destruct (check_steps_fix im steps done C Cs) as [Fx [K _]].
    exists done.
    destruct (has_validation steps && negb _) eqn:V; [discriminate|].
    assert (U : update_conf cfg1 [("pipeline", JDict done)] = Some (set_key "pipeline" (JDict done) cfg1)).
    { unfold update_conf. rewrite merge_val_dict; cbn [merge_base]. cbn [merge_items]. rewrite L.
      rewrite merge_val_dict; cbn [merge_base]. rewrite (check_steps_merge im steps done C Cs F). reflexivity. }
    rewrite U in H. rewrite lookup_set_key_same in H. inversion H; subst out.
    split; [reflexivity|]. split; [exact F|]. split; [exact Fx|].
    intro Hv. rewrite (has_validation_keys done steps K) in Hv. rewrite Hv in V. cbn in V.
    apply negb_false_iff in V.
    destruct (Pipeline.check_steps classes interp (swap_images im) steps) as [d'|] eqn:Sw; [|discriminate].
    pose proof (check_steps_swap im steps done d' Cs Sw). subst d'.
    destruct (check_steps_fix (swap_images im) steps done C Sw) as [Fx' _]. exact Fx'.
  Qed.

  (* PIPELINE SECTION REPLAYS: the completed steps, fed back, are returned unchanged *)
  Lemma pipeline_check_fix im done :
    flat2 done = true -> check_steps im done = Some done ->
    (has_validation done = true -> check_steps (swap_images im) done = Some done) ->
    pipeline_check classes interp im [("pipeline", JDict done)] = Some [("pipeline", JDict done)].
  Proof.
    intros F Fx Sw. unfold pipeline_check.
    assert (U1 : update_conf [("pipeline", JDict [])] [("pipeline", JDict done)] = Some [("pipeline", JDict done)]).
    { unfold update_conf. rewrite merge_val_dict; cbn [merge_base]. cbn [merge_items lookup]. rewrite String.eqb_refl.
      rewrite merge_val_dict; cbn [merge_base]. rewrite (merge_flat2_new done F). cbn [set_key]. rewrite String.eqb_refl. reflexivity. }
    rewrite U1. cbn [lookup]. rewrite String.eqb_refl. rewrite Fx.
    assert (V : has_validation done && negb (match Pipeline.check_steps classes interp (swap_images im) done with
                                             | Some _ => true | None => false end) = false).
    { destruct (has_validation done); [|reflexivity]. rewrite (Sw eq_refl). reflexivity. }
    rewrite V.
    assert (U2 : update_conf [("pipeline", JDict done)] [("pipeline", JDict done)] = Some [("pipeline", JDict done)]).
    { unfold update_conf. rewrite merge_val_dict; cbn [merge_base]. cbn [merge_items lookup]. rewrite String.eqb_refl.
      rewrite merge_val_dict; cbn [merge_base]. rewrite (merge_flat2_self done F). cbn [set_key]. rewrite String.eqb_refl. reflexivity. }
    rewrite U2. cbn [lookup]. rewrite String.eqb_refl. reflexivity.
  Qed.
End Pipe.

(* ------------------------------------------------------------------ Part D: check_conf and main *)

Lemma input_shape_form def c : input_shape def c = true ->
  exists l r, c = [("input", JDict [("left", JDict l); ("right", JDict r)])].
Proof.
  unfold input_shape.
  destruct def as [|[i1 [| | | | | | | |[|[l1 [| | | | | | | |dl]] [|[r1 [| | | | | | | |dr]] [|]]]]] [|]]; try discriminate.
  destruct c as [|[i2 [| | | | | | | |[|[l2 [| | | | | | | |l]] [|[r2 [| | | | | | | |r]] [|]]]]] [|]]; try discriminate.
  rewrite !andb_true_iff. intros [[[[[[[[[E1 E2] E3] E4] E5] E6] F1] F2] X1] X2].
  apply String.eqb_eq in E2, E4, E6. subst. exists l, r. reflexivity.
Qed.

Section MainD.
  Variable D : input_defs.
  Variable orc : string -> jv -> option bool.
  Variable grid_ok : jv -> jv -> bool.
  Variable images_ok : dict -> bool.
  Variable bands_of : jv -> list jv.
  Variable classes : list class_def.
  Variable interp : list string.
  Hypothesis W : classes_wf classes = true.

  Notation input_check := (input_check D orc grid_ok images_ok).
  Notation full_check := (full_check D orc grid_ok images_ok bands_of classes interp).
  Notation main_saved := (main_saved D orc grid_ok images_ok bands_of classes interp).

  (* the guard of the replay theorems (decidable; evaluated by the harness on every case):
     the completed input section is {"input": {"left": scalars, "right": scalars}} extending
     the defaults in place, the steps hold no "NaN" string after update_conf, the completed
     steps hold scalars only, no key twice *)
  Definition replay_guard (user : dict) : bool :=
    match input_check (section_of "input" user) with
    | Some cfg_in =>
      input_shape (i_default D) cfg_in
      && match images_of bands_of cfg_in with
         | Some im => pipe_guard classes interp im (section_of "pipeline" user)
         | None => false
         end
    | None => false
    end.

  Lemma full_check_form user cfg :
    full_check user = Some cfg -> replay_guard user = true ->
    exists l r done im,
      cfg = [("input", JDict [("left", JDict l); ("right", JDict r)]); ("pipeline", JDict done)]
      /\ input_check [("input", JDict [("left", JDict l); ("right", JDict r)])]
         = Some [("input", JDict [("left", JDict l); ("right", JDict r)])]
      /\ images_of bands_of [("input", JDict [("left", JDict l); ("right", JDict r)])] = Some im
      /\ pipeline_check classes interp im [("pipeline", JDict done)] = Some [("pipeline", JDict done)].
  Proof.
    unfold SavedCfg.full_check, replay_guard.
    destruct (input_check (section_of "input" user)) as [cfg_in|] eqn:Ic; [|discriminate].
    destruct (images_of bands_of cfg_in) as [im|] eqn:Im; [|discriminate].
    destruct (pipeline_check classes interp im (section_of "pipeline" user)) as [cfg_p|] eqn:Pc; [|discriminate].
    intros H G. apply andb_prop in G as [Sh Pg].
    destruct (input_shape_form _ _ Sh) as [l [r El]]. subst cfg_in.
    destruct (pipeline_check_out classes interp W im _ cfg_p Pc Pg) as [done [Ep [F [Fx Sw]]]]. subst cfg_p.
    exists l, r, done, im. split.
    - inversion H. unfold concat_conf. cbn [fold_left fst snd set_key].
      change ("pipeline" =? "input") with false. reflexivity.
    - split; [|split; [exact Im|]].
      + apply (input_check_fix D orc grid_ok images_ok _ _ Ic). apply update_conf_input_shape. exact Sh.
      + apply (pipeline_check_fix classes interp im done F Fx Sw).
  Qed.

  (* THE CHECKED CONFIGURATION IS A FIXPOINT OF check_conf, and a "margins" entry (any value)
     added to it is ignored *)
  Theorem full_check_fixpoint user cfg :
    full_check user = Some cfg -> replay_guard user = true ->
    full_check cfg = Some cfg /\ forall m, full_check (set_key "margins" m cfg) = Some cfg.
  Proof.
    intros H G. destruct (full_check_form user cfg H G) as [l [r [done [im [E [Ic [Im Pc]]]]]]]. subst cfg.
    assert (X : forall extra,
      full_check ([("input", JDict [("left", JDict l); ("right", JDict r)]); ("pipeline", JDict done)] ++ extra)
      = Some [("input", JDict [("left", JDict l); ("right", JDict r)]); ("pipeline", JDict done)]).
    { intro extra. unfold SavedCfg.full_check, section_of. cbn [app lookup]. rewrite !String.eqb_refl.
      change ("pipeline" =? "input") with false. cbv iota.
      rewrite Ic, Im, Pc. unfold concat_conf. cbn [fold_left fst snd set_key].
      change ("pipeline" =? "input") with false. reflexivity. }
    split; [rewrite <- (app_nil_r [_; _]); apply X|].
    intro m. cbn [set_key]. change ("margins" =? "input") with false. change ("margins" =? "pipeline") with false.
    cbv iota. apply (X [("margins", m)]).
  Qed.

  (* THE SAVED CONFIGURATION REPLAYS.  When the run rewrites nothing (no confidence step whose
     `indicator` differs from the suffix of its name) main saves the checked configuration plus
     the margins; feeding the saved file back is accepted, yields the same checked
     configuration, and (margins being a function of the checked configuration, C20) saves the
     same file again. *)
  Theorem main_saved_replays user m saved :
    main_saved m user = Some saved -> replay_guard user = true ->
    (forall cfg, full_check user = Some cfg -> run_rewrites cfg = cfg) ->
    exists cfg, full_check user = Some cfg /\ saved = set_key "margins" m cfg
                /\ full_check saved = Some cfg /\ main_saved m saved = Some saved.
  Proof.
    unfold SavedCfg.main_saved. destruct (full_check user) as [cfg|] eqn:Fc; [|discriminate].
    intros H G R. rewrite (R cfg eq_refl) in H. inversion H. subst saved. exists cfg.
    destruct (full_check_fixpoint user cfg Fc G) as [_ Fm].
    split; [reflexivity|]. split; [reflexivity|]. split; [apply Fm|].
    rewrite (Fm m). rewrite (R cfg eq_refl). reflexivity.
  Qed.
End MainD.
