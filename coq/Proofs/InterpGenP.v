(* C14, T-gen tie: the pixel bodies regenerated from the Python source (Gen/InterpKernels.v, produced
   by translator/gen_interp_kernels.py from pandora/validation/interpolated_disparity.py and
   pandora/img_tools.py) compute, on every pixel of the map, what the hand-written model
   (Model/Interp.v, the tree under test: fx = true) computes -- for ALL shapes, maps and masks.

   These equalities are per-run obligations: Gen/InterpKernels.v is rewritten from what the code says
   now and this file is re-checked against it.  An edit of the Python that changes what a pixel body
   computes breaks one of [gen_occ_mc_eq], [gen_mis_mc_eq], [gen_fvn_eq], [gen_occ_sgm_eq],
   [gen_mis_sgm_eq], [gen_plans] (or the translator refuses the new shape); [ginterp_eq] then
   transports every theorem of Proofs/InterpP.v to the generated definitions. *)
From Coq Require Import ZArith QArith Qabs List Bool Lia ZifyBool.
From Pandora Require Import Lib.FloatQ Model.CrossCheck Model.Interp Model.InterpPrims Model.InterpGen
     Spec.CrossCheck Spec.Interp Proofs.CrossCheckP Proofs.InterpP Gen.ValConst.
From Pandora Require Gen.InterpKernels.
Import ListNotations.
Open Scope Z_scope.
Ltac Zify.zify_post_hook ::= Z.to_euclidean_division_equations.

(* ---------------------------------------------------------------- ranges, indices, slices *)

Lemma py_range_zrange : forall a b, py_range a b = zrange a (b - a).
Proof. reflexivity. Qed.

Lemma zrange_S : forall a n, zrange a (Z.of_nat (S n)) = a :: zrange (a + 1) (Z.of_nat n).
Proof.
  intros a n. unfold zrange. rewrite !Nat2Z.id. cbn [seq map]. f_equal. f_equal. lia.
  rewrite <- seq_shift, map_map. apply map_ext. intro i. lia.
Qed.

Lemma zrange_nil : forall a n, n <= 0 -> zrange a n = [].
Proof. intros a n H. unfold zrange. replace (Z.to_nat n) with O by lia. reflexivity. Qed.

Lemma zrange_to_nat : forall a n, zrange a n = zrange a (Z.of_nat (Z.to_nat n)).
Proof. intros. unfold zrange. rewrite Nat2Z.id. reflexivity. Qed.

Lemma zrange_length : forall a n, length (zrange a n) = Z.to_nat n.
Proof. intros. unfold zrange. rewrite map_length, seq_length. reflexivity. Qed.

Lemma py_idx_nonneg : forall n i, 0 <= i -> py_idx n i = i.
Proof. intros n i H. unfold py_idx. destruct (i <? 0) eqn:E; lia. Qed.

Lemma rd2_in : forall {A} n0 n1 (a : Z -> Z -> A) i j, 0 <= i -> 0 <= j -> rd2 n0 n1 a i j = a i j.
Proof. intros. unfold rd2. rewrite !py_idx_nonneg by assumption. reflexivity. Qed.

Lemma py_slice_in : forall n lo hi, 0 <= lo -> lo <= hi -> hi <= n -> py_slice n lo hi = zrange lo (hi - lo).
Proof.
  intros n lo hi H1 H2 H3. unfold py_slice, py_norm.
  destruct (lo <? 0) eqn:E1; [lia|]. destruct (hi <? 0) eqn:E2; [lia|].
  rewrite !Z.min_l by lia. reflexivity.
Qed.

Lemma slice_row_in : forall {A} n0 n1 (a : Z -> Z -> A) i lo hi, 0 <= i -> 0 <= lo -> lo <= hi -> hi <= n1 ->
  slice_row n0 n1 a i lo hi = map (fun j => a i j) (zrange lo (hi - lo)).
Proof. intros. unfold slice_row. rewrite py_idx_nonneg, py_slice_in by assumption. reflexivity. Qed.

Lemma slice_box_in : forall {A} n0 n1 (a : Z -> Z -> A) lo0 hi0 lo1 hi1,
  0 <= lo0 -> lo0 <= hi0 -> hi0 <= n0 -> 0 <= lo1 -> lo1 <= hi1 -> hi1 <= n1 ->
  slice_box n0 n1 a lo0 hi0 lo1 hi1
  = flat_map (fun i => map (fun j => a i j) (zrange lo1 (hi1 - lo1))) (zrange lo0 (hi0 - lo0)).
Proof. intros. unfold slice_box. rewrite !py_slice_in by assumption. reflexivity. Qed.

Lemma py_nth_nonneg : forall {A} (d : A) l i, 0 <= i -> py_nth d l i = nth (Z.to_nat i) l d.
Proof. intros. unfold py_nth. rewrite py_idx_nonneg by assumption. reflexivity. Qed.

Lemma py_upd_nonneg : forall {A} (l : list A) i v, 0 <= i -> py_upd l i v = upd_nat l (Z.to_nat i) v.
Proof. intros. unfold py_upd. rewrite py_idx_nonneg by assumption. reflexivity. Qed.

(* the constants of the regenerated Gen/ValConst.v are the model's *)
Lemma k_inv : PANDORA_MSK_PIXEL_INVALID = MSK_INVALID. Proof. reflexivity. Qed.
Lemma k_occ : PANDORA_MSK_PIXEL_OCCLUSION = MSK_OCCLUSION. Proof. reflexivity. Qed.
Lemma k_mis : PANDORA_MSK_PIXEL_MISMATCH = MSK_MISMATCH. Proof. reflexivity. Qed.
Lemma k_focc : PANDORA_MSK_PIXEL_FILLED_OCCLUSION = MSK_FILLED_OCCLUSION. Proof. reflexivity. Qed.
Lemma k_fmis : PANDORA_MSK_PIXEL_FILLED_MISMATCH = MSK_FILLED_MISMATCH. Proof. reflexivity. Qed.
Ltac konst := rewrite ?k_inv, ?k_occ, ?k_mis, ?k_focc, ?k_fmis.

(* ---------------------------------------------------------------- mc-cnn, occlusions *)

Section Pixel.
  Variables ncol nrow : Z.
  Variable disp : Z -> Z -> option Q.
  Variable valid : Z -> Z -> Z.
  Variables col row : Z.
  Hypothesis Hcol : 0 <= col < ncol.
  Hypothesis Hrow : 0 <= row < nrow.

  Lemma gen_occ_mc_eq : G.occ_mc_pixel ncol nrow disp valid col row = occ_mc_pixel true nrow disp valid col row.
  Proof.
    unfold G.occ_mc_pixel, occ_mc_pixel. cbv zeta. unfold fl. konst.
    rewrite (rd2_in ncol nrow valid col row), (rd2_in ncol nrow disp col row) by lia.
    fold (has (valid col row) MSK_OCCLUSION).
    destruct (has (valid col row) MSK_OCCLUSION); [|reflexivity].
    rewrite !slice_row_in by lia. rewrite !map_map. rewrite Z.sub_0_r.
    unfold okpix.
    remember (rev (map (fun j => Z.land (valid col j) MSK_INVALID =? 0) (zrange 0 (row + 1)))) as msk eqn:Em.
    remember (map (fun j => Z.land (valid col j) MSK_INVALID =? 0) (zrange row (nrow - row))) as msk2 eqn:Em2.
    pose proof (argmax_range msk) as [A1 A2]. pose proof (argmax_range msk2) as [B1 B2].
    assert (L1 : Z.of_nat (length msk) = row + 1).
    { subst msk. rewrite rev_length. apply length_map_zrange. lia. }
    assert (A3 : argmax_b msk < row + 1).
    { rewrite <- L1. apply A2. intro E. rewrite E in L1. cbn in L1. lia. }
    destruct (argmax_b msk =? 0) eqn:E0.
    - rewrite !py_nth_nonneg by lia. rewrite rd2_in by lia. reflexivity.
    - rewrite !py_nth_nonneg by lia. rewrite rd2_in by lia. reflexivity.
  Qed.
End Pixel.

(* ---------------------------------------------------------------- loops that fill a small buffer *)

(* what a path search leaves in its cell of the buffer *)
Definition cellx (cur : option Q) (p : pres) : option Q :=
  match p with PUnset => cur | PNan => None | PVal v => v end.
Definition upd_res (buf : list (option Q)) (d : Z) (p : pres) : list (option Q) :=
  match p with PUnset => buf | PNan => py_upd buf d None | PVal v => py_upd buf d v end.

Lemma upd_nat_middle : forall {A} (prefix : list A) x t v, upd_nat (prefix ++ x :: t) (length prefix) v = prefix ++ v :: t.
Proof. induction prefix as [|h p IH]; intros; cbn; [reflexivity | rewrite IH; reflexivity]. Qed.

Lemma upd_nat_same : forall {A} (l : list A) k d, upd_nat l k (nth k l d) = l.
Proof.
  induction l as [|h t IH]; intros k d; [destruct k; reflexivity|].
  destruct k; cbn; [reflexivity | rewrite IH; reflexivity].
Qed.

Lemma upd_res_cellx : forall buf d p, 0 <= d -> upd_res buf d p = py_upd buf d (cellx (py_nth None buf d) p).
Proof.
  intros buf d p Hd. destruct p; cbn [upd_res cellx]; try reflexivity.
  rewrite py_upd_nonneg, py_nth_nonneg by assumption. symmetry. apply upd_nat_same.
Qed.

Fixpoint mapi (g : Z -> option Q -> option Q) (k : Z) (l : list (option Q)) : list (option Q) :=
  match l with [] => [] | x :: t => g k x :: mapi g (k + 1) t end.

Lemma fold_fill : forall (F : list (option Q) -> Z -> list (option Q)) g n suffix prefix,
  (forall buf d, length buf = n -> 0 <= d < Z.of_nat n -> F buf d = py_upd buf d (g d (py_nth None buf d))) ->
  (length prefix + length suffix = n)%nat ->
  fold_left F (zrange (Z.of_nat (length prefix)) (Z.of_nat (length suffix))) (prefix ++ suffix)
  = prefix ++ mapi g (Z.of_nat (length prefix)) suffix.
Proof.
  intros F g n suffix. induction suffix as [|x t IH]; intros prefix HF Hn.
  - reflexivity.
  - cbn [length] in *. rewrite zrange_S. cbn [fold_left mapi].
    rewrite HF; [| rewrite app_length; cbn [length]; lia | lia].
    rewrite py_nth_nonneg, py_upd_nonneg, Nat2Z.id, nth_middle, upd_nat_middle by lia.
    set (y := g (Z.of_nat (length prefix)) x).
    replace (prefix ++ y :: t) with ((prefix ++ [y]) ++ t) by (rewrite <- app_assoc; reflexivity).
    replace (Z.of_nat (length prefix) + 1) with (Z.of_nat (length (prefix ++ [y])))
      by (rewrite app_length; cbn [length]; lia).
    rewrite IH; [rewrite <- app_assoc; reflexivity | exact HF |].
    rewrite app_length. cbn [length] in *. lia.
Qed.

Lemma fold_fill0 : forall (F : list (option Q) -> Z -> list (option Q)) g c n,
  (forall buf d, length buf = n -> 0 <= d < Z.of_nat n -> F buf d = py_upd buf d (g d (py_nth None buf d))) ->
  fold_left F (py_range 0 (Z.of_nat n)) (repeat c n) = mapi g 0 (repeat c n).
Proof.
  intros F g c n HF. rewrite py_range_zrange, Z.sub_0_r.
  pose proof (fold_fill F g n (repeat c n) [] HF) as H. cbn [length app] in H.
  rewrite repeat_length in H. apply H. reflexivity.
Qed.

(* int(d * i) for an entry d of the float direction table = the half-unit arithmetic of the model *)
Definition half_ok (q : Q) (h : Z) : bool :=
  match Qden q with
  | 1%positive => h =? 2 * Qnum q
  | 2%positive => h =? Qnum q
  | _ => false
  end.

Lemma half_ok_spec : forall q h, half_ok q h = true -> forall i, qtrunc (qmulz q i) = Z.quot (h * i) 2.
Proof.
  intros [a b] h H i. unfold half_ok in H. cbn [Qden Qnum] in H.
  unfold qtrunc, qmulz, Qmult, inject_Z. cbn [Qnum Qden].
  destruct b as [b|b|]; try discriminate; [destruct b; try discriminate|].
  - apply Z.eqb_eq in H. subst h. reflexivity.
  - apply Z.eqb_eq in H. subst h. cbn [Pos.mul]. rewrite Z.quot_1_r.
    replace (2 * a * i) with (a * i * 2) by ring. rewrite Z.quot_mul by lia. reflexivity.
Qed.

Section Paths.
  Variables ncol nrow : Z.
  Variable disp : Z -> Z -> option Q.
  Variable valid : Z -> Z -> Z.

  (* the scan loop of interpolate_mismatch_mc_cnn along one direction *)
  Lemma mc_loop : forall q0 q1 h0 h1 d col row,
    (forall i, qtrunc (qmulz q0 i) = Z.quot (h0 * i) 2) -> (forall i, qtrunc (qmulz q1 i) = Z.quot (h1 * i) 2) ->
    forall n i (buf : list (option Q)),
    for_break (zrange i n)
      (fun i buf =>
         if (col + qtrunc (qmulz q1 i) <? 0) || (col + qtrunc (qmulz q1 i) >=? ncol)
            || (row + qtrunc (qmulz q0 i) <? 0) || (row + qtrunc (qmulz q0 i) >=? nrow)
         then (py_upd buf d None, true)
         else if Z.land (rd2 ncol nrow valid (col + qtrunc (qmulz q1 i)) (row + qtrunc (qmulz q0 i)))
                        PANDORA_MSK_PIXEL_INVALID =? 0
              then (py_upd buf d (rd2 ncol nrow disp (col + qtrunc (qmulz q1 i)) (row + qtrunc (qmulz q0 i))), true)
              else (buf, false)) buf
    = upd_res buf d (mc_path ncol nrow disp valid h0 h1 col row i (Z.to_nat n)).
  Proof.
    intros q0 q1 h0 h1 d col row H0 H1 n i buf. rewrite zrange_to_nat. revert i buf.
    generalize (Z.to_nat n) as fuel. induction fuel as [|f IH]; intros i buf.
    - reflexivity.
    - rewrite zrange_S. cbn [for_break mc_path]. rewrite H0, H1.
      set (tr := row + Z.quot (h0 * i) 2). set (tc := col + Z.quot (h1 * i) 2).
      unfold edge. rewrite !Z.geb_leb.
      destruct ((tc <? 0) || (ncol <=? tc) || (tr <? 0) || (nrow <=? tr)) eqn:E; [reflexivity|].
      rewrite !rd2_in by lia. konst. unfold okpix.
      destruct (Z.land (valid tc tr) MSK_INVALID =? 0); [reflexivity|]. apply IH.
  Qed.

  (* the scan loop of find_valid_neighbors along one direction *)
  Lemma fvn_loop : forall d0 d1 d (l : list Z) tr tc (buf : list (option Q)),
    snd (for_break l
      (fun (i : Z) '(tmp_row, tmp_col, buf) =>
         if (tmp_col + d1 <? 0) || (tmp_col + d1 >=? ncol) || (tmp_row + d0 <? 0) || (tmp_row + d0 >=? nrow)
         then ((tmp_row + d0, tmp_col + d1, py_upd buf d None), true)
         else if Z.land (rd2 ncol nrow valid (tmp_col + d1) (tmp_row + d0)) PANDORA_MSK_PIXEL_INVALID =? 0
              then ((tmp_row + d0, tmp_col + d1, py_upd buf d (rd2 ncol nrow disp (tmp_col + d1) (tmp_row + d0))), true)
              else ((tmp_row + d0, tmp_col + d1, buf), false)) (tr, tc, buf))
    = upd_res buf d (fvn_path ncol nrow disp valid d0 d1 tr tc (length l)).
  Proof.
    intros d0 d1 d. induction l as [|x l IH]; intros tr tc buf.
    - reflexivity.
    - cbn [for_break fvn_path length].
      unfold edge. rewrite !Z.geb_leb.
      destruct ((tc + d1 <? 0) || (ncol <=? tc + d1) || (tr + d0 <? 0) || (nrow <=? tr + d0)) eqn:E; [reflexivity|].
      rewrite !rd2_in by lia. konst. unfold okpix.
      destruct (Z.land (valid (tc + d1) (tr + d0)) MSK_INVALID =? 0); [reflexivity|]. apply IH.
  Qed.
End Paths.

Lemma np_all_isnan : forall l, np_all (map fisnan l) = all_nan l.
Proof. induction l as [|[x|] t IH]; cbn; [reflexivity | reflexivity | exact IH]. Qed.

Lemma let3 : forall {A B C} (X : A * B * C), (let '(_, _, c) := X in c) = snd X.
Proof. intros A B C [[a b] c]. reflexivity. Qed.

(* the float direction table of mc-cnn is the half-unit table of the model *)
Lemma mc_dirs_table :
  forallb (fun p : (Q * Q) * (Z * Z) => half_ok (fst (fst p)) (fst (snd p)) && half_ok (snd (fst p)) (snd (snd p)))
          (combine G.mis_mc_pixel_dirs dirs16) = true.
Proof. vm_compute. reflexivity. Qed.

Lemma mc_dirs_ok : forall d, 0 <= d < 16 ->
  half_ok (dir0 0%Q G.mis_mc_pixel_dirs d) (fst (nth (Z.to_nat d) dirs16 (0, 0))) = true /\
  half_ok (dir1 0%Q G.mis_mc_pixel_dirs d) (snd (nth (Z.to_nat d) dirs16 (0, 0))) = true.
Proof.
  intros d Hd. unfold dir0, dir1. rewrite py_nth_nonneg by lia.
  pose proof mc_dirs_table as T. rewrite forallb_forall in T.
  specialize (T (nth (Z.to_nat d) (combine G.mis_mc_pixel_dirs dirs16) ((0%Q, 0%Q), (0, 0)))).
  rewrite combine_nth in T by reflexivity. cbn [fst snd] in T. apply andb_true_iff. apply T.
  rewrite <- combine_nth by reflexivity. apply nth_In. rewrite combine_length.
  change (length G.mis_mc_pixel_dirs) with 16%nat. change (length dirs16) with 16%nat. lia.
Qed.

Section Pixel2.
  Variables ncol nrow : Z.
  Variable disp : Z -> Z -> option Q.
  Variable valid : Z -> Z -> Z.
  Variables col row : Z.
  Hypothesis Hcol : 0 <= col < ncol.
  Hypothesis Hrow : 0 <= row < nrow.

  Lemma gen_mis_mc_eq : G.mis_mc_pixel ncol nrow disp valid col row = mis_mc_pixel true ncol nrow disp valid col row.
  Proof.
    unfold G.mis_mc_pixel, mis_mc_pixel. cbv zeta. unfold fl. konst.
    rewrite (rd2_in ncol nrow valid col row), (rd2_in ncol nrow disp col row) by lia.
    fold (has (valid col row) MSK_MISMATCH).
    destruct (has (valid col row) MSK_MISMATCH); [|reflexivity].
    match goal with |- context [fold_left ?F ?r ?init] =>
      assert (B : fold_left F r init = mc_neighbors true ncol nrow disp valid col row) end.
    { change (py_range 0 16) with (py_range 0 (Z.of_nat 16)).
      rewrite (fold_fill0 _ (fun d cur => cellx cur (mc_path ncol nrow disp valid
                 (fst (nth (Z.to_nat d) dirs16 (0, 0))) (snd (nth (Z.to_nat d) dirs16 (0, 0))) col row 1
                 (Z.to_nat (Z.max nrow ncol - 1))))).
      - reflexivity.
      - intros buf d Hl Hd. destruct (mc_dirs_ok d Hd) as [K0 K1].
        rewrite <- upd_res_cellx by lia. rewrite py_range_zrange.
        apply (mc_loop ncol nrow disp valid _ _ _ _ d col row (half_ok_spec _ _ K0) (half_ok_spec _ _ K1)). }
    rewrite B, np_all_isnan. cbn [andb].
    destruct (all_nan (mc_neighbors true ncol nrow disp valid col row)); reflexivity.
  Qed.

  (* find_valid_neighbors, called with the direction table of a sgm kernel *)
  Lemma gen_fvn_eq : G.find_valid_neighbors dirs8 ncol nrow disp valid row col
                     = find_valid_neighbors ncol nrow disp valid row col.
  Proof.
    unfold G.find_valid_neighbors, find_valid_neighbors. cbv zeta. unfold fl.
    change (py_range 0 8) with (py_range 0 (Z.of_nat 8)).
    rewrite (fold_fill0 _ (fun d cur => cellx cur (fvn_path ncol nrow disp valid
               (fst (nth (Z.to_nat d) dirs8 (0, 0))) (snd (nth (Z.to_nat d) dirs8 (0, 0))) row col
               (Z.to_nat (Z.max nrow ncol))))).
    - reflexivity.
    - intros buf d Hl Hd. rewrite <- upd_res_cellx by lia.
      rewrite let3.
      replace (Z.to_nat (Z.max nrow ncol)) with (length (py_range 0 (Z.max nrow ncol)))
        by (rewrite py_range_zrange, zrange_length, Z.sub_0_r; reflexivity).
      unfold dir0, dir1. rewrite py_nth_nonneg by lia.
      apply (fvn_loop ncol nrow disp valid).
  Qed.
End Pixel2.

(* ---------------------------------------------------------------- argsort *)

Lemma insert_map : forall {A B} (f : A -> B) (ltA : A -> A -> bool) (ltB : B -> B -> bool),
  (forall a b, ltB (f a) (f b) = ltA a b) ->
  forall x l, map f (insert ltA x l) = insert ltB (f x) (map f l).
Proof.
  intros A B f ltA ltB H x l. induction l as [|h t IH]; [reflexivity|].
  cbn [insert map]. rewrite H. destruct (ltA x h); cbn [map]; [reflexivity | rewrite IH; reflexivity].
Qed.

Lemma isort_map : forall {A B} (f : A -> B) (ltA : A -> A -> bool) (ltB : B -> B -> bool),
  (forall a b, ltB (f a) (f b) = ltA a b) ->
  forall l, map f (isort ltA l) = isort ltB (map f l).
Proof.
  intros A B f ltA ltB H l. unfold isort.
  change (@nil B) with (map f (@nil A)). generalize (@nil A) as acc.
  induction l as [|x t IH]; intro acc; [reflexivity|].
  cbn [fold_left map]. rewrite IH. rewrite (insert_map f ltA ltB H). reflexivity.
Qed.

Lemma insert_ext : forall {A} (lt1 lt2 : A -> A -> bool), (forall a b, lt1 a b = lt2 a b) ->
  forall x l, insert lt1 x l = insert lt2 x l.
Proof.
  intros A lt1 lt2 H x l. induction l as [|h t IH]; [reflexivity|]. cbn [insert]. rewrite H, IH. reflexivity.
Qed.

Lemma isort_ext : forall {A} (lt1 lt2 : A -> A -> bool), (forall a b, lt1 a b = lt2 a b) ->
  forall l, isort lt1 l = isort lt2 l.
Proof.
  intros A lt1 lt2 H l. unfold isort. generalize (@nil A) as acc.
  induction l as [|x t IH]; intro acc; [reflexivity|]. cbn [fold_left]. rewrite (insert_ext lt1 lt2 H). apply IH.
Qed.

Lemma insert_In : forall {A} (lt : A -> A -> bool) x l y, In y (insert lt x l) -> y = x \/ In y l.
Proof.
  intros A lt x l y. induction l as [|h t IH]; cbn [insert]; intro H.
  - destruct H as [<-|[]]. left. reflexivity.
  - destruct (lt x h).
    + destruct H as [<-|H]; [left; reflexivity | right; exact H].
    + destruct H as [<-|H]; [right; left; reflexivity|]. destruct (IH H) as [->|H']; [left; reflexivity | right; right; exact H'].
Qed.

Lemma isort_In : forall {A} (lt : A -> A -> bool) l y, In y (isort lt l) -> In y l.
Proof.
  intros A lt l y. unfold isort.
  assert (G : forall acc, In y (fold_left (fun acc x => insert lt x acc) l acc) -> In y l \/ In y acc).
  { induction l as [|x t IH]; intros acc H; [right; exact H|]. cbn [fold_left] in H.
    destruct (IH _ H) as [H1|H1]; [left; right; exact H1|].
    destruct (insert_In lt x acc y H1) as [->|H2]; [left; left; reflexivity | right; exact H2]. }
  intro H. destruct (G [] H) as [H1|[]]. exact H1.
Qed.

Lemma combine_map_r : forall {A B C} (f : B -> C) (l : list A) (l' : list B),
  combine l (map f l') = map (fun p => (fst p, f (snd p))) (combine l l').
Proof. induction l as [|a l IH]; intros [|b l']; cbn; [reflexivity..|]. rewrite IH. reflexivity. Qed.

Lemma map_snd_combine : forall {A B} (l : list A) (l' : list B), length l = length l' -> map snd (combine l l') = l'.
Proof.
  induction l as [|a l IH]; intros [|b l'] H; cbn in *; try reflexivity; try discriminate.
  rewrite IH by lia. reflexivity.
Qed.

Lemma combine_zrange_nth : forall {A} (d : A) (l : list A) a p, In p (combine (zrange a (Z.of_nat (length l))) l) ->
  a <= fst p /\ nth (Z.to_nat (fst p - a)) l d = snd p.
Proof.
  intros A d. induction l as [|x t IH]; intros a p H.
  - rewrite zrange_nil in H by (cbn; lia). destruct H.
  - cbn [length] in H. rewrite zrange_S in H. cbn [combine In] in H. destruct H as [<-|H].
    + cbn [fst snd]. rewrite Z.sub_diag. split; [lia | reflexivity].
    + destruct (IH _ _ H) as [H1 H2]. split; [lia|].
      replace (Z.to_nat (fst p - a)) with (S (Z.to_nat (fst p - (a + 1)))) by lia. exact H2.
Qed.

(* sorting the indices by |value| (NaN last) and reading the values in that order = sorting the values *)
Lemma argsort_abs_values : forall l : list (option Q),
  map (py_nth None l) (argsort (map fabs l)) = isort lt_abs_nanlast l.
Proof.
  intro l. unfold argsort. rewrite map_length, combine_map_r.
  rewrite <- (isort_map (fun p : Z * option Q => (fst p, fabs (snd p)))
                        (fun p q => lt_nanlast (fabs (snd p)) (fabs (snd q)))) by reflexivity.
  rewrite !map_map. cbn [fst].
  rewrite (map_ext_in _ snd).
  - rewrite (isort_map snd _ (fun a b => lt_nanlast (fabs a) (fabs b))) by reflexivity.
    rewrite map_snd_combine.
    + apply isort_ext. intros [a|] [b|]; reflexivity.
    + rewrite py_range_zrange, zrange_length. lia.
  - intros p Hp. apply isort_In in Hp. rewrite py_range_zrange, Z.sub_0_r in Hp.
    destruct (combine_zrange_nth None l 0 p Hp) as [H1 H2].
    rewrite py_nth_nonneg by lia. rewrite Z.sub_0_r in H2. exact H2.
Qed.

Lemma argsort_length : forall l : list (option Q), length (argsort l) = length l.
Proof.
  intro l. unfold argsort. rewrite map_length.
  rewrite <- (map_length snd), (isort_map snd _ (fun a b => lt_nanlast a b)) by reflexivity.
  rewrite map_snd_combine by (rewrite py_range_zrange, zrange_length; lia).
  unfold isort. assert (G : forall (acc : list (option Q)), length (fold_left (fun acc x => insert lt_nanlast x acc) l acc) = (length l + length acc)%nat).
  { induction l as [|x t IH]; intro acc; [reflexivity|]. cbn [fold_left length]. rewrite IH.
    assert (L : forall a, length (insert lt_nanlast x a) = S (length a)).
    { induction a as [|h a IHa]; [reflexivity|]. cbn [insert]. destruct (lt_nanlast x h); cbn [length]; [reflexivity | rewrite IHa; reflexivity]. }
    rewrite L. unfold fl in *. lia. }
  rewrite G. cbn. unfold fl in *. lia.
Qed.

Lemma second_of_argsort : forall l : list (option Q), (2 <= length l)%nat ->
  py_nth None l (py_nth 0 (argsort (map fabs l)) 1) = second_lowest_abs l.
Proof.
  intros l H. unfold second_lowest_abs. rewrite <- argsort_abs_values.
  rewrite (py_nth_nonneg 0 _ 1) by lia. change (Z.to_nat 1) with 1%nat.
  rewrite (nth_indep _ None (py_nth None l 0)) by (rewrite map_length, argsort_length, map_length; unfold fl in *; lia).
  symmetry. apply map_nth.
Qed.

Lemma map_flat_map_map : forall {A B C D} (f : C -> D) (g : A -> B -> C) (r : list B) (l : list A),
  map f (flat_map (fun i => map (g i) r) l) = flat_map (fun i => map (fun j => f (g i j)) r) l.
Proof.
  intros. induction l as [|a l IH]; [reflexivity|]. cbn [flat_map]. rewrite map_app, map_map, IH. reflexivity.
Qed.

Lemma fvn_length : forall ncol nrow disp valid row col, length (find_valid_neighbors ncol nrow disp valid row col) = 8%nat.
Proof. intros. unfold find_valid_neighbors. rewrite map_length. reflexivity. Qed.

(* ---------------------------------------------------------------- sgm *)

Section Pixel3.
  Variables ncol nrow : Z.
  Variable disp : Z -> Z -> option Q.
  Variable valid : Z -> Z -> Z.
  Variables col row : Z.
  Hypothesis Hcol : 0 <= col < ncol.
  Hypothesis Hrow : 0 <= row < nrow.

  Lemma gen_occ_sgm_eq : G.occ_sgm_pixel ncol nrow disp valid col row = occ_sgm_pixel true ncol nrow disp valid col row.
  Proof.
    unfold G.occ_sgm_pixel, occ_sgm_pixel. cbv zeta. unfold fl, fnan. konst.
    rewrite (rd2_in ncol nrow valid col row), (rd2_in ncol nrow disp col row) by lia.
    fold (has (valid col row) MSK_OCCLUSION).
    destruct (has (valid col row) MSK_OCCLUSION); [|reflexivity].
    change G.occ_sgm_pixel_dirs with dirs8. rewrite gen_fvn_eq.
    rewrite !second_of_argsort by (rewrite fvn_length; lia).
    cbn [andb].
    destruct (second_lowest_abs (find_valid_neighbors ncol nrow disp valid row col)); reflexivity.
  Qed.

  Lemma gen_mis_sgm_eq : G.mis_sgm_pixel ncol nrow disp valid col row = mis_sgm_pixel true ncol nrow disp valid col row.
  Proof.
    unfold G.mis_sgm_pixel, mis_sgm_pixel. cbv zeta. unfold fl. konst.
    rewrite (rd2_in ncol nrow valid col row), (rd2_in ncol nrow disp col row) by lia.
    fold (has (valid col row) MSK_MISMATCH).
    destruct (has (valid col row) MSK_MISMATCH); [|reflexivity].
    rewrite slice_box_in by lia. unfold np_sum. rewrite map_flat_map_map.
    fold (occ_neighbor ncol nrow valid col row).
    destruct (occ_neighbor ncol nrow valid col row); [reflexivity|].
    change G.mis_sgm_pixel_dirs with dirs8. rewrite gen_fvn_eq, np_all_isnan. cbn [andb].
    destruct (all_nan (find_valid_neighbors ncol nrow disp valid row col)); reflexivity.
  Qed.
End Pixel3.

(* find_valid_neighbors as the two sgm kernels call it: with their own direction table *)
Lemma gen_fvn_eq' : forall ncol nrow disp valid col row, 0 <= col < ncol -> 0 <= row < nrow ->
  G.occ_sgm_pixel_dirs = dirs8 /\ G.mis_sgm_pixel_dirs = dirs8 /\
  G.find_valid_neighbors dirs8 ncol nrow disp valid row col = find_valid_neighbors ncol nrow disp valid row col.
Proof. intros. split; [reflexivity|]. split; [reflexivity|]. apply gen_fvn_eq. Qed.

(* ---------------------------------------------------------------- kernels and methods *)

(* the model's pixel function of a kernel (the tree under test) *)
Definition mpixel (k : kname) (n0 n1 : Z) (disp : Z -> Z -> option Q) (valid : Z -> Z -> Z) : Z -> Z -> option Q * Z :=
  match k with
  | KOccMc => occ_mc_pixel true n1 disp valid
  | KMisMc => mis_mc_pixel true n0 n1 disp valid
  | KOccSgm => occ_sgm_pixel true n0 n1 disp valid
  | KMisSgm => mis_sgm_pixel true n0 n1 disp valid
  end.

Theorem gen_pixel_eq : forall k n0 n1 disp valid col row, 0 <= col < n0 -> 0 <= row < n1 ->
  gpixel k n0 n1 disp valid col row = mpixel k n0 n1 disp valid col row.
Proof.
  intros k n0 n1 disp valid col row Hc Hr. destruct k; cbn [gpixel mpixel].
  - apply gen_occ_mc_eq; assumption.
  - apply gen_mis_mc_eq; assumption.
  - apply gen_occ_sgm_eq; assumption.
  - apply gen_mis_sgm_eq; assumption.
Qed.

(* a generated pixel body leaves a pixel without bit 8 / bit 9 exactly as it is *)
Theorem gen_pixel_unflagged : forall k n0 n1 disp valid col row, 0 <= col < n0 -> 0 <= row < n1 ->
  flagged (valid col row) = false ->
  gpixel k n0 n1 disp valid col row = (disp col row, valid col row).
Proof.
  intros k n0 n1 disp valid col row Hc Hr Hf. rewrite gen_pixel_eq by assumption.
  apply flagged_false in Hf. destruct Hf as [H8 H9].
  rewrite <- has_occ in H8. rewrite <- has_mis in H9.
  destruct k; cbn [mpixel]; unfold occ_mc_pixel, mis_mc_pixel, occ_sgm_pixel, mis_sgm_pixel; cbv zeta;
    rewrite ?H8, ?H9; reflexivity.
Qed.

Lemma freeze_ext : forall {A} (d : A) n0 n1 (f g : Z -> Z -> A),
  (forall i j, 0 <= i < n0 -> 0 <= j < n1 -> f i j = g i j) -> freeze d n0 n1 f = freeze d n0 n1 g.
Proof.
  intros A d n0 n1 f g H. unfold freeze. cbv zeta.
  replace (map (fun i => map (fun j => f i j) (zrange 0 n1)) (zrange 0 n0))
    with (map (fun i => map (fun j => g i j) (zrange 0 n1)) (zrange 0 n0)); [reflexivity|].
  apply map_ext_in. intros i Hi. apply In_zrange in Hi.
  apply map_ext_in. intros j Hj. apply In_zrange in Hj. symmetry. apply H; lia.
Qed.

Lemma grun_kernel_eq : forall k n0 n1 dv,
  grun_kernel n0 n1 dv k
  = (kernel_disp n0 n1 (mpixel k n0 n1 (fst dv) (snd dv)), kernel_val n0 n1 (mpixel k n0 n1 (fst dv) (snd dv))).
Proof.
  intros k n0 n1 dv. unfold grun_kernel, kernel_disp, kernel_val. cbv zeta. f_equal.
  - apply freeze_ext. intros i j Hi Hj. rewrite gen_pixel_eq by assumption. reflexivity.
  - apply freeze_ext. intros i j Hi Hj. rewrite gen_pixel_eq by assumption. reflexivity.
Qed.

(* the call plans regenerated from the two interpolated_disparity methods are the ones [interp] models *)
Theorem gen_plans : G.mc_cnn_plan = ([KOccMc; KMisMc], true) /\ G.sgm_plan = ([KMisSgm; KOccSgm], false).
Proof. split; reflexivity. Qed.

(* the method built from the generated plan and pixel bodies IS the model of the tree under test *)
Theorem ginterp_eq : forall m n0 n1 off disp valid, ginterp m n0 n1 off disp valid = interp m n0 n1 off disp valid.
Proof.
  intros m n0 n1 off disp valid. destruct gen_plans as [P1 P2].
  unfold ginterp, gplan. destruct m; [rewrite P1 | rewrite P2]; cbn [fold_left fst snd andb];
    rewrite !grun_kernel_eq; reflexivity.
Qed.

(* ---------------------------------------------------------------- the theorems of Proofs/InterpP.v, on the
   generated definitions *)

Theorem gen_mc_meets_spec : forall nr nc off disp mask,
  mc_cnn_spec nr nc off disp mask (fst (ginterp McCnn nr nc off disp mask)) (snd (ginterp McCnn nr nc off disp mask)).
Proof. intros. rewrite ginterp_eq. apply interp_mc_meets_spec. Qed.

Theorem gen_sgm_meets_spec : forall nr nc off disp mask, never_both nr nc mask ->
  sgm_spec nr nc disp mask (fst (ginterp Sgm nr nc off disp mask)) (snd (ginterp Sgm nr nc off disp mask)).
Proof. intros. rewrite ginterp_eq. apply interp_sgm_meets_spec. assumption. Qed.

Section Gen.
  Variable m : method.
  Variables nr nc off : Z.
  Variable disp : Z -> Z -> option Q.
  Variable mask : Z -> Z -> Z.
  Hypothesis NB : never_both nr nc mask.

  Local Notation disp' := (fst (ginterp m nr nc off disp mask)).
  Local Notation mask' := (snd (ginterp m nr nc off disp mask)).

  Theorem gen_only_flagged_change : forall r c, 0 <= r < nr -> 0 <= c < nc ->
    flagged (mask r c) = false ->
    disp' r c = disp r c /\ mask' r c = if remarked_by m nr nc off r c then 1 else mask r c.
  Proof. rewrite ginterp_eq. exact (interp_only_flagged_change m nr nc off disp mask NB). Qed.

  Theorem gen_flag_swap : forall r c, 0 <= r < nr -> 0 <= c < nc -> remarked_by m nr nc off r c = false ->
    (Z.testbit (mask r c) 8 = true ->
       (mask' r c = mask r c /\ disp' r c = disp r c) \/ swapped 8 4 (mask r c) (mask' r c)) /\
    (Z.testbit (mask r c) 9 = true ->
       (mask' r c = mask r c /\ disp' r c = disp r c) \/ swapped 9 5 (mask r c) (mask' r c) \/
       (m = Sgm /\ swapped 9 8 (mask r c) (mask' r c) /\ disp' r c = disp r c) \/
       (m = Sgm /\ swapped 9 4 (mask r c) (mask' r c))).
  Proof. rewrite ginterp_eq. exact (interp_flag_swap m nr nc off disp mask NB). Qed.

  Theorem gen_other_bits : forall r c, 0 <= r < nr -> 0 <= c < nc ->
    remarked_by m nr nc off r c = false ->
    forall n, 0 <= n -> n <> 4 -> n <> 5 -> n <> 8 -> n <> 9 ->
      Z.testbit (mask' r c) n = Z.testbit (mask r c) n.
  Proof. rewrite ginterp_eq. exact (interp_other_bits m nr nc off disp mask NB). Qed.

  Theorem gen_filled_or_stays : forall r c, 0 <= r < nr -> 0 <= c < nc ->
    remarked_by m nr nc off r c = false -> flagged (mask r c) = true ->
    filled (mask r c) (mask' r c) \/ (flagged (mask' r c) = true /\ disp' r c = disp r c).
  Proof. rewrite ginterp_eq. exact (interp_filled_or_stays m nr nc off disp mask NB). Qed.

  Theorem gen_filled_range : forall lo hi, valid_range nr nc disp mask lo hi ->
    forall r c, 0 <= r < nr -> 0 <= c < nc -> remarked_by m nr nc off r c = false ->
    filled (mask r c) (mask' r c) -> exists q, disp' r c = Some q /\ (lo <= q <= hi)%Q.
  Proof. rewrite ginterp_eq. exact (interp_filled_range m nr nc off disp mask NB). Qed.

  Theorem gen_filled_needs_valid : forall r c, 0 <= r < nr -> 0 <= c < nc ->
    remarked_by m nr nc off r c = false -> filled (mask r c) (mask' r c) ->
    exists r' c', 0 <= r' < nr /\ 0 <= c' < nc /\ spec_valid (mask r' c') = true.
  Proof. rewrite ginterp_eq. exact (interp_filled_needs_valid m nr nc off disp mask NB). Qed.

  Theorem gen_nothing_in_sight : forall r c, 0 <= r < nr -> 0 <= c < nc ->
    remarked_by m nr nc off r c = false ->
    match m with
    | McCnn => nothing_in_sight halfstep dirs16_rc nr nc mask r c
    | Sgm => nothing_in_sight straight dirs8_rc nr nc mask r c
    end ->
    disp' r c = disp r c /\ mask' r c = mask r c.
  Proof. rewrite ginterp_eq. exact (interp_nothing_in_sight m nr nc off disp mask NB). Qed.

  Theorem gen_no_valid_pixel :
    (forall r c, 0 <= r < nr -> 0 <= c < nc -> spec_valid (mask r c) = false) ->
    forall r c, 0 <= r < nr -> 0 <= c < nc ->
      disp' r c = disp r c /\
      (remarked_by m nr nc off r c = false -> flagged (mask r c) = true -> flagged (mask' r c) = true).
  Proof. rewrite ginterp_eq. exact (interp_no_valid_pixel m nr nc off disp mask NB). Qed.

  Theorem gen_border_bit0 : forall r c, 0 <= r < nr -> 0 <= c < nc ->
    (m = McCnn -> 0 < off -> is_border nr nc off r c = true -> mask' r c = 1) /\
    (mask r c = 1 -> mask' r c = 1).
  Proof. rewrite ginterp_eq. exact (interp_border_bit0 m nr nc off disp mask NB). Qed.

  Theorem gen_no_wrap : forall r c, 0 <= r < nr -> 0 <= c < nc ->
    0 <= mask r c < 65536 -> 0 <= mask' r c < 65536.
  Proof. rewrite ginterp_eq. exact (interp_no_wrap m nr nc off disp mask NB). Qed.

  Theorem gen_never_both : never_both nr nc mask'.
  Proof. rewrite ginterp_eq. exact (interp_never_both m nr nc off disp mask NB). Qed.
End Gen.
