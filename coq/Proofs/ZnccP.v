(* C02, zncc: Model/MatchingCost.v (mean / variance rasters by cumulative sums, product raster on the
   column range of point_interval, p_std, zero-variance rule left to the reader of the triple, the
   early return on images smaller than the window, cv_masked) = Spec/Cost.v (covariance and
   variances of the two windows; NaN exactly when not computable).

   The model cell is the integer triple (cov, varL, varR) scaled by s w^4, w^4, s^2 w^4; the cost
   cov / sqrt(varL varR) is invariant under that scaling ([zncc_is_scale]), so the triple determines
   the same cost as the rational covariance / variances of the spec. *)
From Coq Require Import ZArith List Bool Lia ZifyBool QArith Qfield.
From Pandora Require Import Model.MatchingCost Spec.Cost Proofs.MatchingCostP Proofs.CensusP.
Import ListNotations.
Open Scope Z_scope.

Ltac Zify.zify_post_hook ::= Z.to_euclidean_division_equations.

(* ------------------------------------------------------------------ cumulative sums *)

(* sum over the w x w window whose upper-left corner is (r, c) *)
Definition wsum (w : Z) (F : Z -> Z -> Z) (r c : Z) : Z :=
  zsum (map (fun a => zsum (map (fun b => F (r + a) (c + b)) (zrange 0 w))) (zrange 0 w)).

Lemma wsum_ext : forall w F G r c r2 c2,
  (forall a b, 0 <= a < w -> 0 <= b < w -> F (r + a) (c + b) = G (r2 + a) (c2 + b)) ->
  wsum w F r c = wsum w G r2 c2.
Proof.
  intros w F G r c r2 c2 H. unfold wsum.
  apply zsum_map_ext. intros a Ha. apply zsum_map_ext. intros b Hb.
  rewrite zrange_In in Ha, Hb. apply H; lia.
Qed.

(* telescoping: cs[r + w] - cs[r] is the sum of the w elements from r on *)
Lemma cumsum_diff : forall f r w, 0 <= r -> 0 <= w ->
  cumsum f (r + w) - cumsum f r = zsum (map (fun a => f (r + a)) (zrange 0 w)).
Proof.
  intros f r w Hr Hw. unfold cumsum, zrange.
  rewrite Z2Nat.inj_add by lia. rewrite range_app, map_app, zsum_app.
  rewrite (range_shift f _ (0 + Z.of_nat (Z.to_nat r))).
  rewrite (zsum_map_ext (fun x => f (x + (0 + Z.of_nat (Z.to_nat r)))) (fun a => f (r + a))).
  - lia.
  - intros x _. f_equal. lia.
Qed.

(* compute_mean_raster (before the division by w^2): the two cumulative sums give the direct window sum *)
Lemma sum_raster_eq : forall w ny_ nx_ I r c, 0 <= w -> 0 <= r -> 0 <= c ->
  sum_raster w ny_ nx_ I r c = wsum w I r c.
Proof.
  intros w ny_ nx_ I r c Hw Hr Hc. unfold sum_raster, wsum. cbv zeta.
  rewrite !memo2_eq. rewrite cumsum_diff by lia.
  rewrite (zsum_map_ext _ (fun b => zsum (map (fun a => I (r + a) (c + b)) (zrange 0 w)))).
  - apply zsum_swap.
  - intros b _. rewrite !memo2_eq. apply cumsum_diff; lia.
Qed.

(* compute_std_raster (before the square root, times w^4): w^2 sum(x^2) - (sum x)^2 *)
Lemma var_raster_eq : forall w ny_ nx_ I r c, 0 <= w -> 0 <= r -> 0 <= c ->
  var_raster w ny_ nx_ I r c = w * w * wsum w (fun rr cc => I rr cc * I rr cc) r c - wsum w I r c * wsum w I r c.
Proof.
  intros. unfold var_raster. cbv zeta. rewrite !sum_raster_eq by assumption. reflexivity.
Qed.

(* ------------------------------------------------------------------ variances are not negative *)

Lemma zsum_sq_shift : forall a l,
  zsum (map (fun x => (x - a) * (x - a)) l)
  = zsum (map (fun x => x * x) l) - 2 * a * zsum l + Z.of_nat (length l) * (a * a).
Proof.
  intros a. induction l as [|x l IH]; cbn [map zsum length]; [lia|].
  rewrite IH, Nat2Z.inj_succ. ring.
Qed.

Lemma zsum_sq_nonneg : forall (f : Z -> Z) l, 0 <= zsum (map (fun x => f x * f x) l).
Proof. induction l; cbn [map zsum]; [lia|]. pose proof (Z.square_nonneg (f a)). lia. Qed.

Lemma cauchy_list : forall l, 0 <= Z.of_nat (length l) * zsum (map (fun x => x * x) l) - zsum l * zsum l.
Proof.
  induction l as [|a l IH]; cbn [map zsum length]; [lia|].
  pose proof (zsum_sq_shift a l) as E. pose proof (zsum_sq_nonneg (fun x => x - a) l) as N.
  cbv beta in N. rewrite E in N. rewrite Nat2Z.inj_succ.
  set (S2 := zsum (map (fun x => x * x) l)) in *. set (S1 := zsum l) in *.
  set (n := Z.of_nat (length l)) in *.
  replace (Z.succ n * (a * a + S2) - (a + S1) * (a + S1))
    with ((n * S2 - S1 * S1) + (S2 - 2 * a * S1 + n * (a * a))) by ring.
  lia.
Qed.

Lemma wsum_flat : forall w F r c, 0 < w ->
  wsum w F r c = zsum (map (fun i => F (r + i / w) (c + i mod w)) (range 0 (Z.to_nat w * Z.to_nat w))).
Proof.
  intros w F r c Hw. unfold wsum. unfold zrange at 2.
  apply (zsum_flatten (fun a b => F (r + a) (c + b)) w (Z.to_nat w) Hw).
Qed.

Lemma wsum_variance_nonneg : forall w F r c, 0 < w ->
  0 <= w * w * wsum w (fun rr cc => F rr cc * F rr cc) r c - wsum w F r c * wsum w F r c.
Proof.
  intros w F r c Hw. rewrite !wsum_flat by exact Hw.
  set (l := map (fun i => F (r + i / w) (c + i mod w)) (range 0 (Z.to_nat w * Z.to_nat w))).
  pose proof (cauchy_list l) as C.
  assert (L : Z.of_nat (length l) = w * w).
  { subst l. rewrite map_length, range_length, Nat2Z.inj_mul, Z2Nat.id by lia. reflexivity. }
  rewrite L in C. subst l. rewrite map_map in C. exact C.
Qed.

(* ------------------------------------------------------------------ the plane of one disparity *)

(* the cell of the model in closed form: window sums of L, of the resampled right image at column
   + floor d (values times s), of their squares and of their product *)
Definition zcell (inp : mc_input) (D r c : Z) : Z * Z * Z :=
  let w := i_w inp in let s := i_s inp in let L := i_L inp in
  let SR := fun rr cc => shift_right s (i_R inp) (i_right s D) rr (cc + D / s) in
  let r' := r - offset w in let c' := c - offset w in
  let Sx := wsum w L r' c' in let Sy := wsum w SR r' c' in
  (w * w * wsum w (fun rr cc => L rr cc * SR rr cc) r' c' - Sx * Sy,
   w * w * wsum w (fun rr cc => L rr cc * L rr cc) r' c' - Sx * Sx,
   w * w * wsum w (fun rr cc => SR rr cc * SR rr cc) r' c' - Sy * Sy).

Section ZnccCell.
  Variable inp : mc_input.
  Let ny := i_ny inp. Let nx := i_nx inp. Let w := i_w inp. Let s := i_s inp.
  Let off := offset w.
  Hypothesis Hw : 0 < w.
  Hypothesis Hodd : Z.odd w = true.
  Hypothesis Hs : 0 < s.

  Let Hw2 : w = 2 * off + 1 /\ 0 <= off := odd_offset w Hw Hodd.

  (* the range test of zncc_plane (rows of the truncated rasters, columns p0 .. p_std) says that
     both windows are inside their image *)
  Lemma zncc_cond : forall r c D, 0 <= r < ny -> 0 <= c < nx ->
    (0 <=? r - off) && (r - off <? ny - 2 * off) && (p0_ s nx D <=? c - off)
    && (c - off <? Z.max (p0_ s nx D) (p1_ s nx D - 2 * off))
    = not_border ny nx off r c && allin s ny nx w D r c.
  Proof.
    intros r c D Hr Hc. apply eq_iff_eq_true.
    pose proof (model_windows inp Hw Hodd Hs r c D Hr Hc) as MW. unfold WI in MW.
    change (i_ny inp) with ny in MW. change (i_nx inp) with nx in MW. change (i_s inp) with s in MW.
    change (i_w inp) with w in MW. change (offset w) with off in MW. rewrite MW. clear MW.
    pose proof (pi_bounds s nx D Hs) as PB. cbv zeta in PB. fold (PI s nx D) in PB.
    fold (p0_ s nx D) (p1_ s nx D) (q0_ s nx D) in PB.
    pose proof (pi_spec s nx D Hs (c - off)) as PS1. cbv zeta in PS1. fold (PI s nx D) in PS1.
    fold (p0_ s nx D) (p1_ s nx D) in PS1.
    pose proof (pi_spec s nx D Hs (c + off)) as PS2. cbv zeta in PS2. fold (PI s nx D) in PS2.
    fold (p0_ s nx D) (p1_ s nx D) in PS2.
    split; intros H; lia.
  Qed.

  Lemma zncc_plane_eq : forall Rs ml vl mr vr D r c, 0 <= r < ny -> 0 <= c < nx ->
    (forall i rr cc, Rs i rr cc = shift_right s (i_R inp) i rr cc) ->
    (forall rr cc, ml rr cc = sum_raster w ny nx (i_L inp) rr cc) ->
    (forall rr cc, vl rr cc = var_raster w ny nx (i_L inp) rr cc) ->
    (forall i rr cc, mr i rr cc = sum_raster w ny (shift_width nx i) (Rs i) rr cc) ->
    (forall i rr cc, vr i rr cc = var_raster w ny (shift_width nx i) (Rs i) rr cc) ->
    zncc_plane inp Rs ml vl mr vr D r c =
    if not_border ny nx off r c && allin s ny nx w D r c then Some (zcell inp D r c) else None.
  Proof.
    intros Rs ml vl mr vr D r c Hr Hc HRs Hml Hvl Hmr Hvr.
    unfold zncc_plane. cbv zeta. fold ny nx w s off.
    fold (PI s nx D). fold (p0_ s nx D) (p1_ s nx D) (q0_ s nx D).
    rewrite (zncc_cond r c D Hr Hc).
    destruct (not_border ny nx off r c && allin s ny nx w D r c) eqn:E; [|reflexivity].
    apply (model_windows inp Hw Hodd Hs r c D Hr Hc) in E. unfold WI in E.
    change (i_ny inp) with ny in E. change (i_nx inp) with nx in E. change (i_s inp) with s in E.
    change (i_w inp) with w in E. change (offset w) with off in E.
    pose proof (pi_bounds s nx D Hs) as PB. cbv zeta in PB. fold (PI s nx D) in PB.
    fold (p0_ s nx D) (p1_ s nx D) (q0_ s nx D) in PB.
    pose proof (pi_offset s nx D Hs) as PO. cbv zeta in PO. fold (PI s nx D) in PO.
    fold (p0_ s nx D) (q0_ s nx D) in PO.
    pose proof (pi_spec s nx D Hs (c - off)) as PS1. cbv zeta in PS1. fold (PI s nx D) in PS1.
    fold (p0_ s nx D) (p1_ s nx D) in PS1.
    set (p0 := p0_ s nx D) in *. set (q0 := q0_ s nx D) in *. set (p1 := p1_ s nx D) in *.
    assert (Hj : 0 <= c - off - p0) by lia.
    replace (p0 + (c - off - p0)) with (c - off) by lia.
    replace (q0 + (c - off - p0)) with (c - off + D / s) by lia.
    rewrite Hml, Hvl, Hmr, Hvr.
    rewrite !var_raster_eq, !sum_raster_eq by lia.
    unfold zcell. cbv zeta. fold w s off.
    assert (SY : wsum w (Rs (i_right s D)) (r - off) (c - off + D / s)
                 = wsum w (fun rr cc => shift_right s (i_R inp) (i_right s D) rr (cc + D / s)) (r - off) (c - off)).
    { apply wsum_ext. intros a b _ _. rewrite HRs. f_equal. lia. }
    assert (SYY : wsum w (fun rr cc => Rs (i_right s D) rr cc * Rs (i_right s D) rr cc) (r - off) (c - off + D / s)
                  = wsum w (fun rr cc => shift_right s (i_R inp) (i_right s D) rr (cc + D / s)
                                         * shift_right s (i_R inp) (i_right s D) rr (cc + D / s)) (r - off) (c - off)).
    { apply wsum_ext. intros a b _ _. rewrite HRs. f_equal; f_equal; lia. }
    assert (SXY : wsum w (memo2 ny (p1 - p0) (fun r0 j => i_L inp r0 (p0 + j) * Rs (i_right s D) r0 (q0 + j)))
                       (r - off) (c - off - p0)
                  = wsum w (fun rr cc => i_L inp rr cc * shift_right s (i_R inp) (i_right s D) rr (cc + D / s))
                         (r - off) (c - off)).
    { apply wsum_ext. intros a b _ _. rewrite memo2_eq, HRs. f_equal; f_equal; lia. }
    rewrite SY, SYY, SXY. reflexivity.
  Qed.
End ZnccCell.

(* ------------------------------------------------------------------ values: window sums of the spec *)

Lemma sum_win_wsum : forall (f : Q -> Q -> Q) (g : Z -> Z -> Z) den w s L R r c D,
  (forall rr cc, f (lval L rr cc) (rval s R rr cc D) == g rr cc # den) ->
  sum_win w s L R f r c D == wsum w g (r - offset w) (c - offset w) # den.
Proof.
  intros f g den w s L R r c D Hf. unfold sum_win.
  rewrite qsum_scaled with (g := fun a => zsum (map (fun b => g (r + a) (c + b)) (win w))).
  2:{ intros a _. apply qsum_scaled. intros b _. apply Hf. }
  assert (E : forall x y : Z, x = y -> x # den == y # den) by (intros; subst; reflexivity).
  apply E. unfold wsum. rewrite win_zrange. unfold zrange. rewrite zsum2_shift.
  apply zsum_map_ext. intros a _. apply zsum_map_ext. intros b _. f_equal; lia.
Qed.

Lemma Qmake_div : forall a p, a # p == inject_Z a / inject_Z (Zpos p).
Proof. intros. apply Qmake_Qdiv. Qed.

Section Values.
  Variables (w s : Z) (L R : Z -> Z -> Z) (r c D : Z).
  Hypothesis Hw : 0 < w.
  Hypothesis Hs : 0 < s.

  Let SR := fun rr cc => shift_right s R (i_right s D) rr (cc + D / s).
  Let r' := r - offset w. Let c' := c - offset w.
  Let Zx := wsum w L r' c'.
  Let Zy := wsum w SR r' c'.
  Let Zxy := wsum w (fun rr cc => L rr cc * SR rr cc) r' c'.
  Let Zxx := wsum w (fun rr cc => L rr cc * L rr cc) r' c'.
  Let Zyy := wsum w (fun rr cc => SR rr cc * SR rr cc) r' c'.
  Let qs := inject_Z s. Let qw := inject_Z w.

  Local Open Scope Q_scope.

  Lemma qs_nz : ~ qs == 0.
  Proof. unfold qs, inject_Z, Qeq. cbn. lia. Qed.
  Lemma qw_nz : ~ qw == 0.
  Proof. unfold qw, inject_Z, Qeq. cbn. lia. Qed.

  Lemma to_pos_q : inject_Z (Zpos (Z.to_pos s)) = qs.
  Proof. unfold qs. rewrite Z2Pos.id by exact Hs. reflexivity. Qed.

  Lemma sum_x : sum_win w s L R (fun x _ => x) r c D == inject_Z Zx.
  Proof.
    rewrite (sum_win_wsum _ L 1%positive); [reflexivity|]. intros. reflexivity.
  Qed.
  Lemma sum_xx : sum_win w s L R (fun x _ => x * x) r c D == inject_Z Zxx.
  Proof.
    rewrite (sum_win_wsum _ (fun rr cc => L rr cc * L rr cc)%Z 1%positive); [reflexivity|]. intros. reflexivity.
  Qed.
  Lemma sum_y : sum_win w s L R (fun _ y => y) r c D == inject_Z Zy / qs.
  Proof.
    rewrite (sum_win_wsum _ SR (Z.to_pos s)).
    - rewrite Qmake_div, to_pos_q. reflexivity.
    - intros. apply rval_scaled. exact Hs.
  Qed.
  Lemma sum_xy : sum_win w s L R (fun x y => x * y) r c D == inject_Z Zxy / qs.
  Proof.
    rewrite (sum_win_wsum _ (fun rr cc => L rr cc * SR rr cc)%Z (Z.to_pos s)).
    - rewrite Qmake_div, to_pos_q. reflexivity.
    - intros. rewrite (rval_scaled R s rr cc D Hs). reflexivity.
  Qed.
  Lemma sum_yy : sum_win w s L R (fun _ y => y * y) r c D == inject_Z Zyy / (qs * qs).
  Proof.
    rewrite (sum_win_wsum _ (fun rr cc => SR rr cc * SR rr cc)%Z (Z.to_pos s * Z.to_pos s)).
    - rewrite Qmake_div. rewrite Pos2Z.inj_mul, inject_Z_mult, to_pos_q. reflexivity.
    - intros. rewrite (rval_scaled R s rr cc D Hs). reflexivity.
  Qed.

  Lemma nwin_q : nwin w == qw * qw.
  Proof. unfold nwin, qw. rewrite inject_Z_mult. reflexivity. Qed.

  (* covariance / variances of the spec = the integers of the model over s w^4, w^4, s^2 w^4 *)
  Lemma cov_scaled :
    zncc_cov w s L R r c D == inject_Z (w * w * Zxy - Zx * Zy) / (qs * (qw * qw * (qw * qw))).
  Proof.
    unfold zncc_cov, mean_win. rewrite sum_xy, sum_x, sum_y, nwin_q.
    unfold Zminus. rewrite inject_Z_plus, inject_Z_opp, !inject_Z_mult. fold qw.
    pose proof qs_nz. pose proof qw_nz. field. split; assumption.
  Qed.
  Lemma varl_scaled :
    zncc_varl w s L R r c D == inject_Z (w * w * Zxx - Zx * Zx) / (qw * qw * (qw * qw)).
  Proof.
    unfold zncc_varl, mean_win. rewrite sum_xx, sum_x, nwin_q.
    unfold Zminus. rewrite inject_Z_plus, inject_Z_opp, !inject_Z_mult. fold qw.
    pose proof qw_nz. field. assumption.
  Qed.
  Lemma varr_scaled :
    zncc_varr w s L R r c D == inject_Z (w * w * Zyy - Zy * Zy) / (qs * qs * (qw * qw * (qw * qw))).
  Proof.
    unfold zncc_varr, mean_win. rewrite sum_yy, sum_y, nwin_q.
    unfold Zminus. rewrite inject_Z_plus, inject_Z_opp, !inject_Z_mult. fold qw.
    pose proof qs_nz. pose proof qw_nz. field. split; assumption.
  Qed.
End Values.

(* ------------------------------------------------------------------ the cost is invariant under the scaling *)

Local Open Scope Q_scope.

Lemma zncc_is_compat : forall v cov vl vr cov' vl' vr', cov == cov' -> vl == vl' -> vr == vr' ->
  (zncc_is v cov vl vr <-> zncc_is v cov' vl' vr').
Proof.
  intros v cov vl vr cov' vl' vr' H1 H2 H3. unfold zncc_is.
  assert (E : Qle_bool (vl * vr) 0 = Qle_bool (vl' * vr') 0) by (rewrite H2, H3; reflexivity).
  rewrite E. destruct (Qle_bool (vl' * vr') 0); [reflexivity|].
  rewrite H1, H2, H3. reflexivity.
Qed.

Lemma zncc_is_scale : forall v cov vl vr k1 k2 k3, 0 < k1 -> 0 < k2 -> 0 < k3 -> k1 * k1 == k2 * k3 ->
  (zncc_is v (k1 * cov) (k2 * vl) (k3 * vr) <-> zncc_is v cov vl vr).
Proof.
  intros v cov vl vr k1 k2 k3 H1 H2 H3 HK. unfold zncc_is.
  assert (P23 : 0 < k2 * k3) by (apply Qmult_lt_0_compat; assumption).
  assert (E : Qle_bool (k2 * vl * (k3 * vr)) 0 = Qle_bool (vl * vr) 0).
  { apply eq_iff_eq_true. rewrite !Qle_bool_iff.
    setoid_replace (k2 * vl * (k3 * vr)) with ((k2 * k3) * (vl * vr)) by ring.
    setoid_replace 0 with ((k2 * k3) * 0) at 1 by ring.
    apply Qmult_le_l. exact P23. }
  rewrite E. destruct (Qle_bool (vl * vr) 0); [reflexivity|].
  assert (NZ : ~ k1 * k1 == 0).
  { intros Z0. assert (0 < k1 * k1) by (apply Qmult_lt_0_compat; assumption). rewrite Z0 in H.
    apply Qlt_irrefl in H. exact H. }
  setoid_replace (v * v * (k2 * vl * (k3 * vr))) with ((k1 * k1) * (v * v * (vl * vr)))
    by (rewrite HK; ring).
  setoid_replace (k1 * cov * (k1 * cov)) with ((k1 * k1) * (cov * cov)) by ring.
  rewrite (Qmult_inj_l _ _ _ NZ).
  setoid_replace (v * (k1 * cov)) with (k1 * (v * cov)) by ring.
  assert (S : forall p, 0 <= k1 * p <-> 0 <= p).
  { intros p. rewrite <- (Qmult_le_l 0 p k1 H1). rewrite Qmult_0_r. reflexivity. }
  rewrite S. reflexivity.
Qed.

Lemma inject_Z_pos : forall z, (0 < z)%Z -> 0 < inject_Z z.
Proof. intros. unfold Qlt, inject_Z. cbn. lia. Qed.

(* ------------------------------------------------------------------ C02: zncc *)

(* what a cell (cov, varL, varR) of the model says about the two windows of (r, c, D) *)
Definition zncc_cell_ok (inp : mc_input) (r c D : Z) (cell : Z * Z * Z) : Prop :=
  let '(cm, vlm, vrm) := cell in
  let w := i_w inp in let s := i_s inp in
  let qw4 := inject_Z (w * w * (w * w)) in
  let cov := zncc_cov w s (i_L inp) (i_R inp) r c D in
  let varl := zncc_varl w s (i_L inp) (i_R inp) r c D in
  let varr := zncc_varr w s (i_L inp) (i_R inp) r c D in
  (cov == inject_Z cm / (inject_Z s * qw4) /\ varl == inject_Z vlm / qw4
   /\ varr == inject_Z vrm / (inject_Z (s * s) * qw4))%Q
  /\ (0 <= vlm)%Z /\ (0 <= vrm)%Z
  /\ forall v : Q, zncc_is v (inject_Z cm) (inject_Z vlm) (inject_Z vrm) <-> zncc_is v cov varl varr.

Lemma zcell_ok : forall inp r c D, (0 < i_w inp)%Z -> (0 < i_s inp)%Z -> zncc_cell_ok inp r c D (zcell inp D r c).
Proof.
  intros inp r c D Hw Hs. unfold zncc_cell_ok, zcell. cbv zeta.
  set (w := i_w inp) in *. set (s := i_s inp) in *.
  pose proof (cov_scaled w s (i_L inp) (i_R inp) r c D Hw Hs) as C.
  pose proof (varl_scaled w s (i_L inp) (i_R inp) r c D Hw) as VL.
  pose proof (varr_scaled w s (i_L inp) (i_R inp) r c D Hw Hs) as VR.
  cbv zeta in C, VL, VR.
  set (cm := (w * w * _ - _)%Z) in *. set (vlm := (w * w * _ - _)%Z) in *. set (vrm := (w * w * _ - _)%Z) in *.
  rewrite !inject_Z_mult.
  set (qw := inject_Z w) in *. set (qs := inject_Z s) in *.
  assert (Pw : 0 < qw) by (apply inject_Z_pos; exact Hw).
  assert (Ps : 0 < qs) by (apply inject_Z_pos; exact Hs).
  assert (Pw4 : 0 < qw * qw * (qw * qw)) by (repeat apply Qmult_lt_0_compat; assumption).
  assert (K1 : 0 < qs * (qw * qw * (qw * qw))) by (apply Qmult_lt_0_compat; assumption).
  assert (K3 : 0 < qs * qs * (qw * qw * (qw * qw))) by (repeat apply Qmult_lt_0_compat; assumption).
  split; [|split; [|split]].
  - split; [exact C|split; [exact VL|exact VR]].
  - subst vlm. apply wsum_variance_nonneg. exact Hw.
  - subst vrm. apply wsum_variance_nonneg. exact Hw.
  - intros v.
    transitivity (zncc_is v ((qs * (qw * qw * (qw * qw))) * zncc_cov w s (i_L inp) (i_R inp) r c D)
                            ((qw * qw * (qw * qw)) * zncc_varl w s (i_L inp) (i_R inp) r c D)
                            ((qs * qs * (qw * qw * (qw * qw))) * zncc_varr w s (i_L inp) (i_R inp) r c D)).
    + apply zncc_is_compat.
      * rewrite C. field. split; apply Qnot_eq_sym, Qlt_not_eq; assumption.
      * rewrite VL. field. apply Qnot_eq_sym, Qlt_not_eq; assumption.
      * rewrite VR. field. split; apply Qnot_eq_sym, Qlt_not_eq; assumption.
    + apply zncc_is_scale; try assumption. ring.
Qed.

Lemma zncc_volume_eq : forall inp dmin dmax r c k, wf_cfg inp ->
  (0 <= r < i_ny inp)%Z -> (0 <= c < i_nx inp)%Z -> (0 <= k < nb_disp (i_s inp) dmin dmax)%Z ->
  zncc_volume inp dmin dmax r c k =
  let D := disp_scaled (i_s inp) dmin k in
  if computable_in inp r c D then Some (zcell inp D r c) else None.
Proof.
  intros inp dmin dmax r c k [Hw [Hodd Hs]] Hr Hc Hk. cbv zeta.
  unfold zncc_volume. cbv zeta. rewrite memo3_eq.
  unfold computable_in. rewrite <- (model_cond_computable inp Hw Hodd Hs r c _ Hr Hc).
  apply (cv_masked_eq inp Hw Hodd Hs); try assumption.
  cbv beta.
  destruct (too_small (i_ny inp) (i_nx inp) (i_w inp)) eqn:T.
  - rewrite (too_small_not_windows inp Hw Hodd Hs r c _ Hr Hc T). reflexivity.
  - rewrite memo1_eq, memo2_eq.
    apply (zncc_plane_eq inp Hw Hodd Hs); try assumption.
    + intros. apply shifted_images_eq.
    + intros. apply memo2_eq.
    + intros. apply memo2_eq.
    + intros. rewrite memo1_eq. apply memo2_eq.
    + intros. rewrite memo1_eq. apply memo2_eq.
Qed.

Lemma zncc_model_eq_spec : forall inp dmin dmax r c k, wf_cfg inp ->
  (0 <= r < i_ny inp)%Z -> (0 <= c < i_nx inp)%Z -> (0 <= k < nb_disp (i_s inp) dmin dmax)%Z ->
  let D := disp_scaled (i_s inp) dmin k in
  match zncc_volume inp dmin dmax r c k with
  | Some cell => computable_in inp r c D = true /\ zncc_cell_ok inp r c D cell
  | None => computable_in inp r c D = false
  end.
Proof.
  intros inp dmin dmax r c k Hwf Hr Hc Hk D.
  rewrite (zncc_volume_eq inp dmin dmax r c k Hwf Hr Hc Hk). cbv zeta. fold D.
  destruct (computable_in inp r c D); [|reflexivity].
  split; [reflexivity|]. destruct Hwf as [Hw [_ Hs]]. apply zcell_ok; assumption.
Qed.

(* ------------------------------------------------------------------ |zncc| <= 1 = cmax (Cauchy-Schwarz) *)

Local Open Scope Z_scope.

Section CauchySchwarz.
  (* a list of (x, y) pairs *)
  Variable l : list (Z * Z).
  Let n := Z.of_nat (length l).
  Let Sx := zsum (map fst l).
  Let Sy := zsum (map snd l).
  Let Sxx := zsum (map (fun p => fst p * fst p) l).
  Let Syy := zsum (map (fun p => snd p * snd p) l).
  Let Sxy := zsum (map (fun p => fst p * snd p) l).

  Lemma quad_sum : forall a b k m m' (l0 : list (Z * Z)),
    zsum (map (fun p => (a * (k * fst p - m) + b * (k * snd p - m')) * (a * (k * fst p - m) + b * (k * snd p - m'))) l0)
    = a * a * (k * k * zsum (map (fun p => fst p * fst p) l0) - 2 * k * m * zsum (map fst l0)
               + Z.of_nat (length l0) * (m * m))
      + 2 * a * b * (k * k * zsum (map (fun p => fst p * snd p) l0) - k * m' * zsum (map fst l0)
                     - k * m * zsum (map snd l0) + Z.of_nat (length l0) * (m * m'))
      + b * b * (k * k * zsum (map (fun p => snd p * snd p) l0) - 2 * k * m' * zsum (map snd l0)
                 + Z.of_nat (length l0) * (m' * m')).
  Proof.
    intros a b k m m'. induction l0 as [|[x y] l0 IH]; cbn [map zsum length fst snd]; [ring|].
    rewrite IH, Nat2Z.inj_succ. ring.
  Qed.

  (* n (a^2 VX + 2 a b CV + b^2 VY) is a sum of squares *)
  Lemma quad_nonneg : forall a b,
    0 <= n * (a * a * (n * Sxx - Sx * Sx) + 2 * a * b * (n * Sxy - Sx * Sy) + b * b * (n * Syy - Sy * Sy)).
  Proof.
    intros a b.
    pose proof (zsum_sq_nonneg (fun i => i) (map (fun p => a * (n * fst p - Sx) + b * (n * snd p - Sy)) l)) as N.
    rewrite map_map in N. cbv beta in N. rewrite (quad_sum a b n Sx Sy l) in N.
    fold n Sx Sy Sxx Syy Sxy in N.
    replace (n * (a * a * (n * Sxx - Sx * Sx) + 2 * a * b * (n * Sxy - Sx * Sy) + b * b * (n * Syy - Sy * Sy)))
      with (a * a * (n * n * Sxx - 2 * n * Sx * Sx + n * (Sx * Sx)) +
            2 * a * b * (n * n * Sxy - n * Sy * Sx - n * Sx * Sy + n * (Sx * Sy)) +
            b * b * (n * n * Syy - 2 * n * Sy * Sy + n * (Sy * Sy))) by ring.
    exact N.
  Qed.

  Lemma cauchy_schwarz_cov :
    (n * Sxy - Sx * Sy) * (n * Sxy - Sx * Sy) <= (n * Sxx - Sx * Sx) * (n * Syy - Sy * Sy).
  Proof.
    set (VX := n * Sxx - Sx * Sx). set (VY := n * Syy - Sy * Sy). set (CV := n * Sxy - Sx * Sy).
    assert (Hn : 0 <= n) by (subst n; lia).
    destruct (Z.eq_dec n 0) as [Z0|NZ].
    - (* empty list *)
      assert (length l = 0%nat) by (subst n; lia). destruct l; [|discriminate].
      subst VX VY CV Sx Sy Sxx Syy Sxy n. cbn. lia.
    - assert (Q : forall a b, 0 <= a * a * VX + 2 * a * b * CV + b * b * VY).
      { intros a b. pose proof (quad_nonneg a b) as H. fold VX VY CV in H. nia. }
      pose proof (Q (- CV) VX) as Q1. pose proof (Q VY (- CV)) as Q2.
      pose proof (Q 1 1) as Q3. pose proof (Q 1 (-1)) as Q4.
      assert (PX : 0 <= VX) by (pose proof (Q 1 0); lia).
      assert (PY : 0 <= VY) by (pose proof (Q 0 1); lia).
      destruct (Z.eq_dec VX 0) as [X0|XN]; [destruct (Z.eq_dec VY 0) as [Y0|YN]|].
      + rewrite X0, Y0 in *. assert (CV = 0) by lia. subst CV. rewrite H. lia.
      + rewrite X0 in *. assert (0 <= VY * (- (CV * CV))) by nia. nia.
      + assert (0 <= VX * (VX * VY - CV * CV)) by nia. nia.
  Qed.
End CauchySchwarz.

(* the covariance of the model cell is bounded by the variances: |zncc| <= 1 *)
Lemma zcell_bounded : forall inp D r c, 0 < i_w inp ->
  let '(cm, vlm, vrm) := zcell inp D r c in cm * cm <= vlm * vrm.
Proof.
  intros inp D r c Hw. unfold zcell. cbv zeta.
  set (w := i_w inp) in *. set (s := i_s inp).
  set (SR := fun rr cc => shift_right s (i_R inp) (i_right s D) rr (cc + D / s)).
  set (r' := r - offset w). set (c' := c - offset w).
  rewrite !wsum_flat by exact Hw.
  set (rg := range 0 (Z.to_nat w * Z.to_nat w)).
  set (l := map (fun i => (i_L inp (r' + i / w) (c' + i mod w), SR (r' + i / w) (c' + i mod w))) rg).
  pose proof (cauchy_schwarz_cov l) as CS. cbv zeta in CS.
  assert (Ln : Z.of_nat (length l) = w * w).
  { subst l rg. rewrite map_length, range_length, Nat2Z.inj_mul, Z2Nat.id by lia. reflexivity. }
  rewrite Ln in CS. subst l. rewrite !map_map in CS. cbn [fst snd] in CS. exact CS.
Qed.

Local Open Scope Q_scope.

(* any cost v determined by a triple with cov^2 <= varL varR lies in [-1, 1] *)
Lemma zncc_is_bounded : forall v cov vl vr, cov * cov <= vl * vr -> zncc_is v cov vl vr -> v * v <= 1.
Proof.
  intros v cov vl vr B H. unfold zncc_is in H.
  destruct (Qle_bool (vl * vr) 0) eqn:E.
  - rewrite H. unfold Qle. cbn. lia.
  - destruct H as [H _].
    assert (P : 0 < vl * vr).
    { apply Qnot_le_lt. intros C. apply Qle_bool_iff in C. rewrite C in E. discriminate. }
    rewrite <- H in B.
    setoid_replace (vl * vr) with (1 * (vl * vr)) in B at 2 by ring.
    apply Qmult_le_r in B; assumption.
Qed.

Lemma zncc_volume_bounded : forall inp dmin dmax r c k cm vlm vrm, wf_cfg inp ->
  (0 <= r < i_ny inp)%Z -> (0 <= c < i_nx inp)%Z -> (0 <= k < nb_disp (i_s inp) dmin dmax)%Z ->
  zncc_volume inp dmin dmax r c k = Some (cm, vlm, vrm) ->
  (cm * cm <= vlm * vrm)%Z
  /\ forall v : Q, zncc_is v (inject_Z cm) (inject_Z vlm) (inject_Z vrm) -> v * v <= inject_Z (cmax Zncc inp).
Proof.
  intros inp dmin dmax r c k cm vlm vrm Hwf Hr Hc Hk H.
  rewrite (zncc_volume_eq inp dmin dmax r c k Hwf Hr Hc Hk) in H. cbv zeta in H.
  destruct (computable_in inp r c (disp_scaled (i_s inp) dmin k)); [|discriminate].
  destruct Hwf as [Hw _].
  pose proof (zcell_bounded inp (disp_scaled (i_s inp) dmin k) r c Hw) as B.
  assert (E : zcell inp (disp_scaled (i_s inp) dmin k) r c = (cm, vlm, vrm)) by congruence.
  rewrite E in B.
  split; [exact B|]. intros v Hv. change (inject_Z (cmax Zncc inp)) with 1.
  apply (zncc_is_bounded v _ _ _) in Hv; [exact Hv|].
  rewrite <- !inject_Z_mult. rewrite <- Zle_Qle. exact B.
Qed.
