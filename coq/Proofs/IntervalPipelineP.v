(* C09, last clause -- every step a single-scale pipeline may run after the disparity step preserves
   "every valid pixel carries a finite disparity inside [dmin, dmax]" (valid = none of the invalid bits
   0, 1, 6, 7, 8, 9 in the validity mask: the test of C07 / C10 / C14), hence so does every pipeline.

   The per-step facts are the theorems of the steps' own properties, used as they are:
     refinement      Proofs/RefineP.v      refine_map_ok, pixel_props, pixel_bits            (C06)
     median          Proofs/FiltersP.v     median_eq_spec, median_between_min_max            (C10)
     bilateral       Proofs/FiltersP.v     bilateral_eq_spec, bilateral_between_min_max      (C10)
     median_for_intervals                  mfi_plain, mfi_regularized                        (C10)
     cross-checking  Proofs/CrossCheckP.v  xcheck_disp_unchanged, xcheck_invalid_untouched,
                                           xcheck_border_bit0                                (C07)
     interpolation   Proofs/InterpP.v      interp_only_flagged_change, interp_filled_or_stays,
                                           interp_filled_range, interp_border_bit0           (C14)
   The interpolation theorems need "no pixel carries both bit 8 and bit 9" (never_both): it is part of
   the invariant, established by the disparity step (neither bit is set) and preserved by every step. *)
From Coq Require Import ZArith QArith Qabs List Bool Lia ZifyBool.
From Pandora Require Import Lib.Ext Model.Interval Spec.Interval.
From Pandora Require Model.Refine Spec.Refine Proofs.RefineP.
From Pandora Require Model.Filters Spec.Filters Proofs.FiltersP.
From Pandora Require Import Model.CrossCheck Spec.CrossCheck Proofs.CrossCheckP.
From Pandora Require Import Model.Interp Spec.Interp Proofs.InterpP.
From Pandora Require Import Model.IntervalPipeline.
Import ListNotations.
Open Scope Z_scope.

(* ------------------------------------------------------------------ the invariant *)
Definition pinv (X : pctx) (st : pstate) : Prop :=
  valid_range (c_ny X) (c_nx X) (p_disp st) (p_mask st) (inject_Z (c_dmin X)) (inject_Z (c_dmax X))
  /\ never_both (c_ny X) (c_nx X) (p_mask st).

(* the three validity tests of the step models are the Spec's *)
Lemma spec_valid_land : forall m, spec_valid m = true <-> Z.land m MSK_INVALID = 0.
Proof. intro m. rewrite <- is_valid_spec. unfold is_valid. lia. Qed.

Lemma spec_valid_1 : spec_valid 1 = false.
Proof. reflexivity. Qed.

(* ================================================================== cross-checking, interpolation *)

Lemma xcheck_keeps_valid_range : forall thr me other lo hi,
  valid_range (ds_nr me) (ds_nc me) (ds_disp me) (ds_mask me) lo hi ->
  valid_range (ds_nr me) (ds_nc me) (ds_disp (xcheck thr me other)) (ds_mask (xcheck thr me other)) lo hi.
Proof.
  intros thr me other lo hi VR r c Hr Hc Hv.
  destruct (xcheck_disp_unchanged thr me other) as (Ed & _). rewrite Ed.
  assert (Hin : in_ds me r c) by (split; assumption).
  apply VR; try assumption.
  destruct (border_at me r c) eqn:Eb.
  - destruct (Z_lt_le_dec 0 (ds_offset me)) as [Ho|Ho].
    + rewrite (xcheck_border_bit0 thr me other r c Hin Ho Eb) in Hv. discriminate Hv.
    + exfalso. unfold border_at, is_border in Eb. lia.
  - destruct (spec_valid (ds_mask me r c)) eqn:Ev; [reflexivity|].
    rewrite (xcheck_invalid_untouched thr me other r c Hin Eb Ev) in Hv. congruence.
Qed.

Lemma flagged_invalid : forall v, flagged v = true -> spec_valid v = false.
Proof.
  intros v H. unfold flagged in H. apply orb_true_iff in H. destruct H as [H|H].
  - apply flagged_invalid8; exact H.
  - apply flagged_invalid9; exact H.
Qed.

Lemma interp_keeps_valid_range : forall m nr nc off disp mask lo hi,
  never_both nr nc mask -> valid_range nr nc disp mask lo hi ->
  valid_range nr nc (fst (interp m nr nc off disp mask)) (snd (interp m nr nc off disp mask)) lo hi.
Proof.
  intros m nr nc off disp mask lo hi NB VR r c Hr Hc Hv.
  destruct (remarked_by m nr nc off r c) eqn:Erm.
  - destruct (remarked_is_mc _ _ _ _ _ _ Erm) as (-> & Ho & Hb).
    destruct (interp_border_bit0 McCnn nr nc off disp mask NB r c Hr Hc) as [H1 _].
    rewrite (H1 eq_refl Ho Hb) in Hv. discriminate Hv.
  - destruct (flagged (mask r c)) eqn:Ef.
    + destruct (interp_filled_or_stays m nr nc off disp mask NB r c Hr Hc Erm Ef) as [Hf | [Hf _]].
      * exact (interp_filled_range m nr nc off disp mask NB lo hi VR r c Hr Hc Erm Hf).
      * rewrite (flagged_invalid _ Hf) in Hv. discriminate Hv.
    + destruct (interp_only_flagged_change m nr nc off disp mask NB r c Hr Hc Ef) as [Ed Em].
      rewrite Erm in Em. rewrite Ed. apply VR; try assumption. rewrite <- Em. exact Hv.
Qed.

(* ================================================================== filters *)

Import Pandora.Model.Filters Pandora.Spec.Filters Pandora.Proofs.FiltersP.

Lemma valid_disp_some : forall disp mask r c x,
  valid_disp INV disp mask r c = Some x -> spec_valid (mask r c) = true /\ disp r c = Some x.
Proof.
  intros disp mask r c x H. unfold valid_disp, INV in H.
  destruct (Z.eq_dec (Z.land (mask r c) MSK_INVALID) 0) as [E|E]; [|discriminate].
  split; [apply spec_valid_land; exact E | exact H].
Qed.

Lemma valid_disp_of_valid : forall disp mask r c,
  spec_valid (mask r c) = true -> valid_disp INV disp mask r c = disp r c.
Proof.
  intros disp mask r c H. apply spec_valid_land in H. unfold valid_disp, INV.
  destruct (Z.eq_dec (Z.land (mask r c) MSK_INVALID) 0) as [E|E]; [reflexivity | contradiction].
Qed.

(* every value of the window of a pixel whose window fits in the image is the disparity of a valid
   pixel of the image *)
Lemma win_vals_from_image : forall (val : dmap) lo hi ny nx r c x, 0 <= lo -> 0 <= hi ->
  fits lo hi ny nx r c -> In x (win_vals val lo hi r c) ->
  exists r' c', 0 <= r' < ny /\ 0 <= c' < nx /\ val r' c' = Some x.
Proof.
  intros val lo hi ny nx r c x Hlo Hhi Hf Hin. unfold win_vals in Hin.
  apply In_somes, in_map_iff in Hin. destruct Hin as ([r' c'] & E & Hp).
  apply In_win_px in Hp. cbn [fst snd] in E. unfold fits in Hf.
  exists r', c'. repeat split; try lia. exact E.
Qed.

Lemma between_in_range : forall ny nx disp mask lo hi wlo whi r c m (a b : Q), 0 <= wlo -> 0 <= whi ->
  valid_range ny nx disp mask lo hi -> fits wlo whi ny nx r c ->
  In a (win_vals (valid_disp INV disp mask) wlo whi r c) ->
  In b (win_vals (valid_disp INV disp mask) wlo whi r c) ->
  (a <= m <= b)%Q -> (lo <= m <= hi)%Q.
Proof.
  intros ny nx disp mask lo hi wlo whi r c m a b H1 H2 VR Hf Ha Hb [Hma Hmb].
  destruct (win_vals_from_image _ _ _ _ _ _ _ _ H1 H2 Hf Ha) as (ra & ca & Hra & Hca & Ea).
  destruct (win_vals_from_image _ _ _ _ _ _ _ _ H1 H2 Hf Hb) as (rb & cb & Hrb & Hcb & Eb).
  apply valid_disp_some in Ea. apply valid_disp_some in Eb. destruct Ea as [Va Da], Eb as [Vb Db].
  destruct (VR ra ca Hra Hca Va) as (qa & Eqa & [La _]).
  destruct (VR rb cb Hrb Hcb Vb) as (qb & Eqb & [_ Ub]).
  rewrite Da in Eqa. rewrite Db in Eqb. inversion Eqa; inversion Eqb; subst qa qb.
  split; [eapply Qle_trans; eassumption | eapply Qle_trans; eassumption].
Qed.

Lemma fits_dec : forall lo hi ny nx r c, {fits lo hi ny nx r c} + {~ fits lo hi ny nx r c}.
Proof.
  intros. destruct (fits_b lo hi ny nx r c) eqn:E.
  - left. apply fits_b_iff. exact E.
  - right. apply fits_b_false. exact E.
Qed.

Lemma median_keeps_valid_range : forall B rad ny nx disp mask lo hi, 1 <= B -> 0 <= rad ->
  valid_range ny nx disp mask lo hi ->
  let out := median_filter_disparity INV B (2 * rad + 1) ny nx disp mask in
  valid_range ny nx (fst out) (snd out) lo hi /\ (forall r c, snd out r c = mask r c).
Proof.
  intros B rad ny nx disp mask lo hi HB Hrad VR out.
  destruct (median_eq_spec INV B rad ny nx disp mask HB Hrad) as (Hm & Hnone & Hnf & _). fold out in Hm, Hnone, Hnf.
  split; [|exact Hm]. intros r c Hr Hc Hv. rewrite Hm in Hv.
  destruct (VR r c Hr Hc Hv) as (d & Ed & Hd).
  destruct (fits_dec rad rad ny nx r c) as [Hf|Hf].
  - assert (Evd : valid_disp INV disp mask r c = Some d) by (rewrite valid_disp_of_valid; assumption).
    destruct (median_between_min_max INV B rad ny nx disp mask r c d HB Hrad Hf Evd)
      as (m & Em & a & b & Ha & Hb & _ & Hab).
    fold out in Em. exists m. split; [exact Em|].
    apply (between_in_range ny nx disp mask lo hi rad rad r c m a b); assumption.
  - rewrite (Hnf r c Hf). exists d. split; assumption.
Qed.

Lemma bilateral_keeps_valid_range : forall B ny nx sigma sk rk disp mask lo hi, 1 <= B ->
  let win := win_width ny nx sigma in
  let wlo := win / 2 in
  let whi := win - 1 - wlo in
  1 <= win -> kernel_ok (sp_of sk wlo) rk wlo whi ->
  valid_range ny nx disp mask lo hi ->
  let out := bilateral_filter_disparity INV B ny nx sigma sk rk disp mask in
  valid_range ny nx (fst out) (snd out) lo hi /\ (forall r c, snd out r c = mask r c).
Proof.
  intros B ny nx sigma sk rk disp mask lo hi HB win wlo whi Hwin Hk VR out.
  destruct (bilateral_eq_spec INV B ny nx sigma sk rk disp mask HB Hwin Hk) as (Hm & Hnone & Hnf & _).
  fold win wlo whi out in Hm, Hnone, Hnf.
  destruct (window_reach win Hwin) as (Hlo & Hhi & _). fold wlo whi in Hlo, Hhi.
  split; [|exact Hm]. intros r c Hr Hc Hv. rewrite Hm in Hv.
  destruct (VR r c Hr Hc Hv) as (d & Ed & Hd).
  destruct (fits_dec wlo whi ny nx r c) as [Hf|Hf].
  - assert (Evd : valid_disp INV disp mask r c = Some d) by (rewrite valid_disp_of_valid; assumption).
    destruct (bilateral_between_min_max INV B ny nx sigma sk rk disp mask r c d HB Hwin Hk Hf Evd)
      as (m & Em & a & b & Ha & Hb & _ & Hab).
    fold out in Em. exists m. split; [exact Em|].
    apply (between_in_range ny nx disp mask lo hi wlo whi r c m a b); assumption.
  - rewrite (Hnf r c Hf). exists d. split; assumption.
Qed.

(* median_for_intervals: the disparity map is returned as it is, only bit 11 of the mask may move *)
Lemma bit11_keeps_valid : forall m m', only_bit11_raised m m' ->
  spec_valid m' = spec_valid m /\ Z.testbit m' 8 = Z.testbit m 8 /\ Z.testbit m' 9 = Z.testbit m 9.
Proof.
  intros m m' [H _]. unfold spec_valid, INVALID_BITS. cbn [forallb].
  rewrite !H by lia. auto.
Qed.

Lemma mfi_keeps : forall B w ny nx reg disp binf bsup mask,
  let o := mfi_filter_disparity BIT11 B w ny nx reg disp binf bsup mask in
  f_disp o = disp /\ forall r c, only_bit11_raised (mask r c) (f_mask o r c).
Proof.
  intros B w ny nx reg disp binf bsup mask o. destruct reg as [oracle|].
  - destruct (mfi_regularized B w ny nx oracle disp binf bsup mask) as (H1 & _ & _ & H4).
    split; [exact H1|]. intros r c. apply H4.
  - destruct (mfi_plain BIT11 B w ny nx disp binf bsup mask) as (H1 & H2 & _).
    split; [exact H1|]. intros r c. unfold o. rewrite H2. apply only_bit11_refl.
Qed.

(* ================================================================== refinement *)

Import Pandora.Model.Refine Pandora.Spec.Refine Pandora.Proofs.RefineP.
Local Open Scope Z_scope.

Lemma KK_wf : consts_wf KK = true.
Proof. reflexivity. Qed.

(* entry (i, j) of a row-major flattening *)
Lemma nth_flat_map_const : forall {A B} (f : A -> list B) (n : nat) (l : list A) (i j : nat) d a0,
  (forall a, length (f a) = n) -> (i < length l)%nat -> (j < n)%nat ->
  nth (i * n + j) (flat_map f l) d = nth j (f (nth i l a0)) d.
Proof.
  intros A B f n l. induction l as [|a l IH]; intros i j d a0 Hlen Hi Hj; [cbn in Hi; lia|].
  cbn [flat_map]. destruct i as [|i].
  - cbn [Nat.mul Nat.add nth]. apply app_nth1. rewrite Hlen. exact Hj.
  - rewrite app_nth2 by (rewrite Hlen; cbn; lia). rewrite Hlen.
    replace (S i * n + j - n)%nat with (i * n + j)%nat by (cbn; lia).
    cbn [nth]. apply IH; [exact Hlen | cbn in Hi; lia | exact Hj].
Qed.

Lemma zrange_length : forall a n, length (CrossCheck.zrange a n) = Z.to_nat n.
Proof. intros. unfold CrossCheck.zrange. rewrite map_length, seq_length. reflexivity. Qed.

Lemma zrange_nth : forall a n i d, (i < Z.to_nat n)%nat -> nth i (CrossCheck.zrange a n) d = a + Z.of_nat i.
Proof.
  intros a n i d Hi. unfold CrossCheck.zrange.
  rewrite (nth_indep _ d (a + Z.of_nat 0)) by (rewrite map_length, seq_length; exact Hi).
  rewrite (map_nth (fun k => a + Z.of_nat k)). rewrite seq_nth by exact Hi. reflexivity.
Qed.

Lemma nth_row_major : forall {B} (g : Z -> Z -> B) ny nx r c d, 0 <= r < ny -> 0 <= c < nx ->
  nth (Z.to_nat (r * nx + c))
      (flat_map (fun r => map (g r) (CrossCheck.zrange 0 nx)) (CrossCheck.zrange 0 ny)) d = g r c.
Proof.
  intros B g ny nx r c d Hr Hc.
  replace (Z.to_nat (r * nx + c)) with (Z.to_nat r * Z.to_nat nx + Z.to_nat c)%nat by nia.
  rewrite (nth_flat_map_const _ (Z.to_nat nx) _ _ _ d 0).
  - rewrite zrange_nth by lia.
    rewrite (nth_indep _ d (g (0 + Z.of_nat (Z.to_nat r)) 0)) by (rewrite map_length, zrange_length; lia).
    rewrite (map_nth (g (0 + Z.of_nat (Z.to_nat r)))). rewrite zrange_nth by lia.
    f_equal; lia.
  - intro a. rewrite map_length. apply zrange_length.
  - rewrite zrange_length. lia.
  - lia.
Qed.

Lemma flat_rows_length : forall {B} (g : Z -> Z -> B) ny nx, 0 <= ny -> 0 <= nx ->
  length (flat_map (fun r => map (g r) (CrossCheck.zrange 0 nx)) (CrossCheck.zrange 0 ny))
  = (Z.to_nat ny * Z.to_nat nx)%nat.
Proof.
  intros B g ny nx Hy Hx. rewrite <- (zrange_length 0 ny). generalize (CrossCheck.zrange 0 ny) as l.
  induction l as [|a l IH]; [reflexivity|].
  cbn [flat_map length]. rewrite app_length, map_length, zrange_length, IH. lia.
Qed.

(* what refine_map returns, pixel by pixel *)
Lemma refine_map_nth : forall me m dmin dmax s px l,
  refine_map KK me m dmin dmax s px = IOk l ->
  length l = length px /\
  forall i p0, (i < length px)%nat ->
    let p := nth i px p0 in
    let t := nth i l triple0 in
    loop_pixel KK me m dmin dmax s (px_cv p) (px_disp p) (px_mask p) = POk (fst (fst t)) (snd (fst t)) (snd t).
Proof.
  intros me m dmin dmax s px. induction px as [|p r IH]; intros l H.
  - cbn in H. inversion H. split; [reflexivity|]. intros i p0 Hi. cbn in Hi. lia.
  - cbn [refine_map] in H.
    destruct (loop_pixel KK me m dmin dmax s (px_cv p) (px_disp p) (px_mask p)) as [d c k| |] eqn:E;
      [|discriminate|destruct (refine_map KK me m dmin dmax s r); discriminate].
    destruct (refine_map KK me m dmin dmax s r) as [l'| |] eqn:E'; try discriminate.
    inversion H; subst l. destruct (IH l' eq_refl) as [Hl Hn].
    split; [cbn; rewrite Hl; reflexivity|].
    intros i p0 Hi. destruct i as [|i]; cbn [nth].
    + cbn [fst snd]. exact E.
    + apply Hn. cbn in Hi. lia.
Qed.

Lemma cv_fits_of_length : forall dmin dmax s cv,
  Z.of_nat (length cv) = (dmax - dmin) * s + 1 -> cv_fits (inject_Z dmin) (inject_Z dmax) s cv.
Proof.
  intros dmin dmax s cv H. unfold cv_fits. rewrite H.
  unfold Z.sub. rewrite inject_Z_plus, inject_Z_mult, inject_Z_plus, inject_Z_opp.
  change (inject_Z 1) with 1%Q. ring.
Qed.

Lemma lor8_bits_8_9 : forall m, Z.testbit (Z.lor m 8) 8 = Z.testbit m 8 /\ Z.testbit (Z.lor m 8) 9 = Z.testbit m 9.
Proof. intro m. rewrite !Z.lor_spec. split; apply orb_false_r. Qed.

Section RefineStep.
  Variable X : pctx.
  Hypothesis XOK : ctx_ok X.
  Variables (me : method) (m : measure) (cv : Z -> Z -> list (option Q)).
  Hypothesis CVOK : step_ok X (SRefine me m cv).
  Variable st : pstate.
  Hypothesis INV0 : pinv X st.

  Let dmin := inject_Z (c_dmin X).
  Let dmax := inject_Z (c_dmax X).
  Let s := c_s X.

  Lemma Hs_pos : (0 < s)%Z.
  Proof. unfold s. destruct XOK as (_ & _ & _ & _ & H & _). exact H. Qed.

  Lemma pixels_ok : Forall (pixel_ok KK dmin dmax s) (pixels_of X cv st).
  Proof.
    apply Forall_forall. intros p Hp. unfold pixels_of in Hp.
    apply in_flat_map in Hp. destruct Hp as (r & Hr & Hp). apply in_map_iff in Hp. destruct Hp as (c & <- & Hc).
    apply In_zrange in Hr. apply In_zrange in Hc.
    split; cbn [px_cv px_disp px_mask].
    - apply cv_fits_of_length. apply CVOK; lia.
    - intro V. destruct INV0 as [VR _].
      assert (Hv : spec_valid (p_mask st r c) = true) by (apply spec_valid_land; exact V).
      destruct (VR r c ltac:(lia) ltac:(lia) Hv) as (d & Ed & Hd). exists d. split; [exact Ed | exact Hd].
  Qed.

  Lemma refine_step_inv : exists st', refine_step X me m cv st = Some st' /\ pinv X st'.
  Proof.
    destruct (refine_map_ok KK KK_wf m dmin dmax s Hs_pos me (pixels_of X cv st) pixels_ok) as (l & El & _).
    unfold refine_step. fold dmin dmax s. rewrite El. eexists. split; [reflexivity|].
    destruct (refine_map_nth _ _ _ _ _ _ _ El) as [_ Hn].
    destruct XOK as (Hny & Hnx & _).
    (* the pixel (r, c) of the image *)
    assert (PX : forall r c, 0 <= r < c_ny X -> 0 <= c < c_nx X ->
              let t := nth (Z.to_nat (r * c_nx X + c)) l triple0 in
              loop_pixel KK me m dmin dmax s (cv r c) (p_disp st r c) (p_mask st r c)
              = POk (fst (fst t)) (snd (fst t)) (snd t)).
    { intros r c Hr Hc t.
      assert (Hlen : (Z.to_nat (r * c_nx X + c) < length (pixels_of X cv st))%nat).
      { unfold pixels_of. rewrite flat_rows_length by lia. nia. }
      specialize (Hn _ (mkPx [] None 0) Hlen). cbv zeta in Hn.
      unfold pixels_of in Hn at 1 2 3.
      rewrite (nth_row_major (fun r c => mkPx (cv r c) (p_disp st r c) (p_mask st r c))) in Hn by assumption.
      exact Hn. }
    destruct INV0 as [VR NB]. split.
    - intros r c Hr Hc Hv. cbn [p_disp p_mask] in *.
      assert (Ei : in_img X r c = true) by (unfold in_img; lia). rewrite Ei in *.
      specialize (PX r c Hr Hc). cbv zeta in PX.
      set (t := nth (Z.to_nat (r * c_nx X + c)) l triple0) in *.
      pose proof (pixel_bits KK KK_wf me m dmin dmax s _ _ _ _ _ _ PX) as Hb.
      destruct (bits_of_step KK KK_wf _ _ Hb) as (_ & _ & B3). cbn [k_invalid KK] in B3.
      assert (V : spec_valid (p_mask st r c) = true).
      { apply spec_valid_land. rewrite <- B3. apply spec_valid_land. exact Hv. }
      destruct (VR r c Hr Hc V) as (d & Ed & Hd). rewrite Ed in PX.
      assert (F : cv_fits dmin dmax s (cv r c)) by (apply cv_fits_of_length; apply CVOK; assumption).
      assert (V' : is_valid KK (p_mask st r c)) by (apply spec_valid_land; exact V).
      destruct (pixel_props KK KK_wf me m dmin dmax s Hs_pos _ _ _ _ V' F Hd PX)
        as (d' & c' & mask' & R & I' & _).
      inversion R as [[R1 R2 R3]]. exists d'. split; [exact R1 | exact I'].
    - intros r c Hr Hc. cbn [p_mask].
      assert (Ei : in_img X r c = true) by (unfold in_img; lia). rewrite Ei.
      specialize (PX r c Hr Hc). cbv zeta in PX.
      destruct (pixel_bits KK KK_wf me m dmin dmax s _ _ _ _ _ _ PX) as [E|E]; rewrite E.
      + apply NB; assumption.
      + destruct (lor8_bits_8_9 (p_mask st r c)) as [E8 E9]. unfold bit3. rewrite E8, E9. apply NB; assumption.
  Qed.
End RefineStep.

(* ================================================================== every step, every pipeline *)

Lemma run_step_inv : forall X sp st, ctx_ok X -> step_ok X sp -> pinv X st ->
  exists st', run_step X sp st = Some st' /\ pinv X st'.
Proof.
  intros X sp st XOK SOK INV0. destruct sp as [me m cv | rad | sigma sk rk | w reg binf bsup | thr other ip].
  - cbn [run_step]. apply refine_step_inv; assumption.
  - cbn [run_step]. eexists. split; [reflexivity|]. destruct INV0 as [VR NB].
    destruct XOK as (_ & _ & _ & _ & _ & HB & _). cbn [step_ok] in SOK.
    destruct (median_keeps_valid_range (c_bmed X) rad (c_ny X) (c_nx X) (p_disp st) (p_mask st) _ _ HB SOK VR) as [H1 H2].
    split; cbn [p_disp p_mask]; [exact H1|].
    intros r c Hr Hc. rewrite H2. apply NB; assumption.
  - cbn [run_step]. eexists. split; [reflexivity|]. destruct INV0 as [VR NB].
    destruct XOK as (Hny & Hnx & _ & _ & _ & _ & HB). cbn [step_ok] in SOK. destruct SOK as [Hsig Hk].
    pose proof (win_width_pos (c_ny X) (c_nx X) sigma Hny Hnx Hsig) as Hwin.
    destruct (bilateral_keeps_valid_range (c_bbil X) (c_ny X) (c_nx X) sigma sk rk (p_disp st) (p_mask st) _ _
                HB Hwin Hk VR) as [H1 H2].
    split; cbn [p_disp p_mask]; [exact H1|].
    intros r c Hr Hc. rewrite H2. apply NB; assumption.
  - cbn [run_step]. eexists. split; [reflexivity|]. destruct INV0 as [VR NB].
    destruct (mfi_keeps (c_bmed X) w (c_ny X) (c_nx X) reg (p_disp st) binf bsup (p_mask st)) as [H1 H2].
    split; cbn [p_disp p_mask].
    + rewrite H1. intros r c Hr Hc Hv. destruct (bit11_keeps_valid _ _ (H2 r c)) as (E & _).
      rewrite E in Hv. apply VR; assumption.
    + intros r c Hr Hc. destruct (bit11_keeps_valid _ _ (H2 r c)) as (_ & E8 & E9).
      rewrite E8, E9. apply NB; assumption.
  - destruct INV0 as [VR NB]. destruct XOK as (_ & _ & Hnc & _).
    set (me := ds_of X st).
    assert (VR1 : valid_range (c_ny X) (c_nx X) (ds_disp (xcheck thr me other)) (ds_mask (xcheck thr me other))
                              (inject_Z (c_dmin X)) (inject_Z (c_dmax X))).
    { exact (xcheck_keeps_valid_range thr me other _ _ VR). }
    assert (NB1 : never_both (c_ny X) (c_nx X) (ds_mask (xcheck thr me other))).
    { exact (xcheck_never_both_all thr me other Hnc NB). }
    destruct ip as [ip|]; cbn [run_step]; (eexists; split; [reflexivity|]).
    + rewrite validation_interp_run_eq. cbn [fst]. unfold interp_ds, st_of. cbn [ds_disp ds_mask ds_bands p_disp p_mask].
      fold me.
      assert (E : ds_nr (xcheck thr me other) = c_ny X /\ ds_nc (xcheck thr me other) = c_nx X) by (split; reflexivity).
      destruct E as [E1 E2]. rewrite E1, E2. split; cbn [p_disp p_mask].
      * apply interp_keeps_valid_range; assumption.
      * apply interp_never_both. exact NB1.
    + split; cbn [st_of p_disp p_mask]; assumption.
Qed.

Lemma run_steps_inv : forall X steps st, ctx_ok X -> Forall (step_ok X) steps -> pinv X st ->
  exists st', run_steps X steps st = Some st' /\ pinv X st'.
Proof.
  intros X steps. induction steps as [|sp rest IH]; intros st XOK SOK INV0.
  - exists st. split; [reflexivity | exact INV0].
  - inversion SOK as [|? ? S1 S2]; subst.
    destruct (run_step_inv X sp st XOK S1 INV0) as (st1 & E1 & I1).
    destruct (IH st1 XOK S2 I1) as (st' & E' & I'). exists st'. cbn [run_steps]. rewrite E1. split; assumption.
Qed.

(* ------------------------------------------------------------------ in the words of Spec/Interval.v *)

Lemma pinv_in_global : forall X st, pinv X st ->
  in_global_interval (c_ny X) (c_nx X) (c_dmin X) (c_dmax X) (dstate_of (p_disp st) (p_mask st)).
Proof.
  intros X st [VR _] r c Hr Hc Hv. cbn [dstate_of d_valid d_map] in *.
  destruct (VR r c Hr Hc Hv) as (d & Ed & [H1 H2]). exists d. auto.
Qed.

Lemma in_global_pinv : forall X st,
  in_global_interval (c_ny X) (c_nx X) (c_dmin X) (c_dmax X) (dstate_of (p_disp st) (p_mask st)) ->
  never_both (c_ny X) (c_nx X) (p_mask st) -> pinv X st.
Proof.
  intros X st H NB. split; [|exact NB]. intros r c Hr Hc Hv.
  destruct (H r c Hr Hc Hv) as (d & Ed & H1 & H2). exists d. split; [exact Ed | split; assumption].
Qed.

(* the full statement of the last clause *)
Theorem final_disp_in_global_interval : forall X steps st0,
  ctx_ok X -> Forall (step_ok X) steps ->
  never_both (c_ny X) (c_nx X) (p_mask st0) ->
  in_global_interval (c_ny X) (c_nx X) (c_dmin X) (c_dmax X) (dstate_of (p_disp st0) (p_mask st0)) ->
  exists st, run_steps X steps st0 = Some st
    /\ in_global_interval (c_ny X) (c_nx X) (c_dmin X) (c_dmax X) (dstate_of (p_disp st) (p_mask st))
    /\ never_both (c_ny X) (c_nx X) (p_mask st).
Proof.
  intros X steps st0 XOK SOK NB H0.
  destruct (run_steps_inv X steps st0 XOK SOK (in_global_pinv X st0 H0 NB)) as (st & E & I).
  exists st. split; [exact E|]. split; [apply pinv_in_global; exact I | exact (proj2 I)].
Qed.
