(* C12 -- std_intensity: the two separable passes of compute_mean_raster (cumulative sums along the
   rows, window differences, transposition, the same along the columns) give at every window position
   the sum of the w x w window, hence the model's variance raster is the window variance; the band of
   StdIntensity.confidence_prediction holds it at the window centres and NaN on the border. *)
From Coq Require Import ZArith QArith Qabs List Bool Lia Lqa.
From Pandora Require Import Model.Confidence Spec.Confidence Proofs.ConfidenceP.
Import ListNotations.

(* ------------------------------------------------------------------ sums *)

Lemma qsum_app a b : (qsum (a ++ b) == qsum a + qsum b)%Q.
Proof. induction a as [|x r IH]; simpl; [ring|]. rewrite IH. ring. Qed.

Lemma qsum_concat L : (qsum (concat L) == qsum (map qsum L))%Q.
Proof. induction L as [|l r IH]; simpl; [reflexivity|]. rewrite qsum_app, IH. reflexivity. Qed.

Lemma qsum_map_ext_in {A : Type} (f g : A -> Q) l :
  (forall x, In x l -> (f x == g x)%Q) -> (qsum (map f l) == qsum (map g l))%Q.
Proof.
  induction l as [|x r IH]; intro H; simpl; [reflexivity|].
  rewrite (H x (or_introl eq_refl)), IH; [reflexivity|]. intros y Hy. apply H. right. exact Hy.
Qed.

Lemma qsum_map_plus {A : Type} (f g : A -> Q) l :
  (qsum (map (fun x => f x + g x) l) == qsum (map f l) + qsum (map g l))%Q.
Proof. induction l as [|x r IH]; simpl; [ring|]. rewrite IH. ring. Qed.

Lemma qsum_map_zero {A : Type} (l : list A) : (qsum (map (fun _ => 0) l) == 0)%Q.
Proof. induction l as [|x r IH]; simpl; [reflexivity|]. rewrite IH. ring. Qed.

(* exchange of the two summations *)
Lemma qsum_swap {A B : Type} (g : A -> B -> Q) la lb :
  (qsum (map (fun a => qsum (map (fun b => g a b) lb)) la)
   == qsum (map (fun b => qsum (map (fun a => g a b) la)) lb))%Q.
Proof.
  induction la as [|a r IH]; simpl.
  - rewrite qsum_map_zero. reflexivity.
  - rewrite IH. rewrite (qsum_map_plus (fun b => g a b) (fun b => qsum (map (fun a0 => g a0 b) r))). reflexivity.
Qed.

(* ------------------------------------------------------------------ a window as indices *)

Lemma skipn_cons_nth {A : Type} (d : A) l : forall i, (i < length l)%nat ->
  skipn i l = nth i l d :: skipn (S i) l.
Proof.
  induction l as [|x r IH]; intros i H; simpl in H; [lia|].
  destruct i as [|i]; [reflexivity|]. cbn [skipn nth]. rewrite (IH i) by lia. reflexivity.
Qed.

Lemma window_seq {A : Type} (d : A) l : forall w i, (i + w <= length l)%nat ->
  firstn w (skipn i l) = map (fun k => nth k l d) (seq i w).
Proof.
  induction w as [|w IH]; intros i H; [reflexivity|].
  rewrite (skipn_cons_nth d) by lia. cbn [firstn seq map]. f_equal. apply IH. lia.
Qed.

Lemma in_seq_lt k i w : In k (seq i w) -> (i <= k < i + w)%nat.
Proof. intro H. apply in_seq in H. lia. Qed.

(* ------------------------------------------------------------------ transposition *)

Definition col (j : nat) (m : list (list Q)) : list Q := map (fun row => nth j row 0%Q) m.

Lemma transpose_n_nth : forall n m j, (j < n)%nat -> nth_error (transpose_n n m) j = Some (col j m).
Proof.
  induction n as [|n IH]; intros m j H; [lia|]. cbn [transpose_n]. destruct j as [|j]; cbn [nth_error].
  - f_equal. unfold col. apply map_ext. intros [|x r]; reflexivity.
  - rewrite IH by lia. f_equal. unfold col. rewrite map_map. apply map_ext.
    intros [|x r]; cbn [tl nth]; [destruct j; reflexivity|reflexivity].
Qed.

Lemma transpose_n_length : forall n m, length (transpose_n n m) = n.
Proof. induction n as [|n IH]; intro m; cbn [transpose_n length]; [reflexivity|]. rewrite IH. reflexivity. Qed.

Lemma transpose_n_rows : forall n m row, In row (transpose_n n m) -> length row = length m.
Proof.
  induction n as [|n IH]; intros m row H; cbn [transpose_n] in H; [destruct H|].
  destruct H as [H|H]; [subst; apply map_length|]. rewrite (IH _ _ H). apply map_length.
Qed.

Lemma col_length j m : length (col j m) = length m.
Proof. apply map_length. Qed.

Lemma col_nth j m : forall i, nth i (col j m) 0%Q = nth j (nth i m []) 0%Q.
Proof.
  unfold col. induction m as [|row r IH]; intro i.
  - destruct i, j; reflexivity.
  - destruct i as [|i]; [reflexivity|]. cbn [map nth]. apply IH.
Qed.

Lemma hd_nth_error {A : Type} (d x : A) l : nth_error l 0 = Some x -> hd d l = x.
Proof. destruct l; simpl; congruence. Qed.

(* ------------------------------------------------------------------ one pass, shapes *)

Lemma map2_length {A B C : Type} (f : A -> B -> C) la : forall lb,
  length (map2 f la lb) = Nat.min (length la) (length lb).
Proof. induction la as [|a r IH]; intros [|b lb]; simpl; auto. Qed.

Lemma cumsum_from_length l : forall acc, length (cumsum_from acc l) = length l.
Proof. induction l as [|x r IH]; intro acc; simpl; auto. Qed.

Lemma winsum_length w l : length (winsum w l) = (S (length l) - w)%nat.
Proof.
  unfold winsum. rewrite map2_length, skipn_length. cbn [length]. rewrite cumsum_from_length. lia.
Qed.

Lemma winsum_nth w l i : (i + w <= length l)%nat ->
  (nth i (winsum w l) 0 == qsum (firstn w (skipn i l)))%Q.
Proof.
  intro H. destruct (std_def_1d w l i H) as [y [N E]]. rewrite (nth_error_nth _ _ _ N). exact E.
Qed.

(* ------------------------------------------------------------------ the two passes *)

Section Box.
  Variables (w : nat) (img : list (list Q)).
  Let nr := length img.
  Let nc := length (hd [] img).
  Hypothesis rect : forall row, In row img -> length row = nc.
  Hypothesis ncpos : (0 < nc)%nat.

  Let T0 := transpose img.
  Let T1 := map (winsum w) T0.
  Let T2 := transpose T1.

  Lemma T0_nth j : (j < nc)%nat -> nth_error T0 j = Some (col j img).
  Proof. intro H. unfold T0, transpose. apply transpose_n_nth. exact H. Qed.
  Lemma T0_length : length T0 = nc.
  Proof. unfold T0, transpose. apply transpose_n_length. Qed.
  Lemma T1_nth j : (j < nc)%nat -> nth_error T1 j = Some (winsum w (col j img)).
  Proof. intro H. unfold T1. rewrite nth_error_map', (T0_nth j H). reflexivity. Qed.
  Lemma T1_hd_length : length (hd [] T1) = (S nr - w)%nat.
  Proof.
    rewrite (hd_nth_error [] _ _ (T1_nth 0%nat ncpos)). rewrite winsum_length, col_length. reflexivity.
  Qed.
  Lemma T2_nth i : (i < S nr - w)%nat -> nth_error T2 i = Some (map (fun cl => nth i (winsum w cl) 0%Q) T0).
  Proof.
    intro H. unfold T2, transpose. rewrite T1_hd_length. rewrite transpose_n_nth by exact H.
    unfold col, T1. rewrite map_map. reflexivity.
  Qed.

  Lemma box_sum_length : length (box_sum w img) = (S nr - w)%nat.
  Proof.
    unfold box_sum. fold T0. fold T1. fold T2. rewrite map_length. unfold T2, transpose.
    rewrite transpose_n_length. apply T1_hd_length.
  Qed.

  Lemma box_sum_rows row : In row (box_sum w img) -> length row = (S nc - w)%nat.
  Proof.
    unfold box_sum. fold T0. fold T1. fold T2. intro H. apply in_map_iff in H. destruct H as [x [E H]].
    subst row. rewrite winsum_length. unfold T2, transpose in H. rewrite (transpose_n_rows _ _ _ H).
    unfold T1. rewrite map_length, T0_length. reflexivity.
  Qed.

  Lemma box_sum_cell r c : (r + w <= nr)%nat -> (c + w <= nc)%nat ->
    exists y, cell (box_sum w img) r c = Some y /\ (y == qsum (window w img r c))%Q.
  Proof.
    intros Hr Hc.
    set (row2 := map (fun cl => nth r (winsum w cl) 0%Q) T0).
    assert (nth_error (box_sum w img) r = Some (winsum w row2)) as N.
    { unfold box_sum. fold T0. fold T1. fold T2. rewrite nth_error_map', T2_nth by lia. reflexivity. }
    assert (length row2 = nc) as L2 by (unfold row2; rewrite map_length; apply T0_length).
    destruct (std_def_1d w row2 c) as [y [Ny Ey]]; [lia|].
    exists y. split; [unfold cell; rewrite N; exact Ny|].
    rewrite Ey. rewrite (window_seq 0%Q) by lia.
    (* every entry of the second pass is a first-pass window sum of a column of the image *)
    assert (forall k, In k (seq c w) ->
              (nth k row2 0 == qsum (map (fun i => nth k (nth i img []) 0) (seq r w)))%Q) as Hk.
    { intros k Ik. apply in_seq_lt in Ik.
      assert (nth_error row2 k = Some (nth r (winsum w (col k img)) 0%Q)) as Nk
        by (unfold row2; rewrite nth_error_map', T0_nth by lia; reflexivity).
      rewrite (nth_error_nth _ _ _ Nk). rewrite winsum_nth by (rewrite col_length; exact Hr).
      rewrite (window_seq 0%Q) by (rewrite col_length; exact Hr).
      apply qsum_map_ext_in. intros i _. rewrite col_nth. reflexivity. }
    rewrite (qsum_map_ext_in _ _ _ Hk).
    rewrite (qsum_swap (fun k i => nth k (nth i img []) 0%Q)).
    (* the direct window, row by row *)
    unfold window. rewrite qsum_concat, (window_seq []) by exact Hr. rewrite !map_map.
    apply qsum_map_ext_in. intros i Ii. apply in_seq_lt in Ii.
    assert (length (nth i img []) = nc) as Li by (apply rect, nth_In; fold nr; lia).
    rewrite (window_seq 0%Q) by lia. reflexivity.
  Qed.
End Box.

(* ------------------------------------------------------------------ the variance raster *)

Lemma cell_map2 {A B C : Type} (f : A -> B -> C) m1 m2 r c a b :
  cell m1 r c = Some a -> cell m2 r c = Some b -> cell (map2 (map2 f) m1 m2) r c = Some (f a b).
Proof.
  unfold cell. intros H1 H2.
  destruct (nth_error m1 r) as [r1|] eqn:E1; [|discriminate].
  destruct (nth_error m2 r) as [r2|] eqn:E2; [|discriminate].
  rewrite (nth_error_map2 (map2 f) m1 m2 r r1 r2 E1 E2). apply nth_error_map2; assumption.
Qed.

Definition sq (x : Q) : Q := (x * x)%Q.

Lemma window_map (f : Q -> Q) w img r c : window w (map (map f) img) r c = map f (window w img r c).
Proof.
  unfold window. rewrite skipn_map, firstn_map, map_map, concat_map, map_map.
  f_equal. apply map_ext. intro row. rewrite skipn_map, firstn_map. reflexivity.
Qed.

Lemma rect_map (f : Q -> Q) img :
  (forall row, In row img -> length row = length (hd [] img)) ->
  forall row, In row (map (map f) img) -> length row = length (hd [] (map (map f) img)).
Proof.
  intros H row I. apply in_map_iff in I. destruct I as [x [E I]]. subst row. rewrite map_length, (H x I).
  destruct img; simpl; [reflexivity|]. rewrite map_length. reflexivity.
Qed.

Lemma hd_map_length (f : Q -> Q) img : length (hd [] (map (map f) img)) = length (hd [] img).
Proof. destruct img; simpl; [reflexivity|]. apply map_length. Qed.

Definition std_var_raster_stmt : Prop :=
  forall (w : nat) img r c, (0 < w)%nat ->
    (forall row, In row img -> length row = length (hd [] img)) ->
    (r + w <= length img)%nat -> (c + w <= length (hd [] img))%nat ->
    exists v, cell (var_raster (Z.of_nat w) img) r c = Some v /\
      (v == window_variance w (window w img r c))%Q.

Lemma std_var_raster : std_var_raster_stmt.
Proof.
  intros w img r c Hw R Hr Hc.
  assert (0 < length (hd [] img))%nat as P by lia.
  destruct (box_sum_cell w img R P r c Hr Hc) as [a [Ca Ea]].
  destruct (box_sum_cell w (map (map (fun x => x * x)%Q) img)) with (r := r) (c := c) as [b [Cb Eb]].
  - rewrite hd_map_length. intros row I. rewrite <- (hd_map_length (fun x => x * x)%Q). revert row I. apply rect_map. exact R.
  - rewrite hd_map_length. exact P.
  - rewrite map_length. exact Hr.
  - rewrite hd_map_length. exact Hc.
  - eexists. split.
    + unfold var_raster. rewrite Nat2Z.id. apply cell_map2; eassumption.
    + cbv beta. rewrite window_map in Eb. unfold window_variance. rewrite Ea, Eb.
      rewrite Nat2Z.inj_mul. reflexivity.
Qed.
