(* C12 -- std_intensity: the two separable passes of compute_mean_raster (cumulative sums along the
   rows, window differences, transposition, the same along the columns) give at every window position
   the sum of the w x w window, hence the model's variance raster is the window variance; the band of
   StdIntensity.confidence_prediction holds it at the window centres and NaN on the border. *)
From Coq Require Import ZArith QArith Qabs List Bool Lia Lqa.
From Pandora Require Import Model.Confidence Spec.Confidence Proofs.ConfidenceP.
Import ListNotations.

(* ------------------------------------------------------------------ sums *)

Lemma qsum_app a b : (qsum (a ++ b) == qsum a + qsum b)%Q.
Proof. induction a as [|x r IH]; simpl; [ring|]. rewrite IH. ring. Qed.

Lemma qsum_concat L : (qsum (concat L) == qsum (map qsum L))%Q.
Proof. induction L as [|l r IH]; simpl; [reflexivity|]. rewrite qsum_app, IH. reflexivity. Qed.

Lemma qsum_map_ext_in {A : Type} (f g : A -> Q) l :
  (forall x, In x l -> (f x == g x)%Q) -> (qsum (map f l) == qsum (map g l))%Q.
Proof.
  induction l as [|x r IH]; intro H; simpl; [reflexivity|].
  rewrite (H x (or_introl eq_refl)), IH; [reflexivity|]. intros y Hy. apply H. right. exact Hy.
Qed.

Lemma qsum_map_plus {A : Type} (f g : A -> Q) l :
  (qsum (map (fun x => f x + g x) l) == qsum (map f l) + qsum (map g l))%Q.
Proof. induction l as [|x r IH]; simpl; [ring|]. rewrite IH. ring. Qed.

Lemma qsum_map_zero {A : Type} (l : list A) : (qsum (map (fun _ => 0) l) == 0)%Q.
Proof. induction l as [|x r IH]; simpl; [reflexivity|]. rewrite IH. ring. Qed.

(* exchange of the two summations *)
Lemma qsum_swap {A B : Type} (g : A -> B -> Q) la lb :
  (qsum (map (fun a => qsum (map (fun b => g a b) lb)) la)
   == qsum (map (fun b => qsum (map (fun a => g a b) la)) lb))%Q.
Proof.
  induction la as [|a r IH]; simpl.
  - rewrite qsum_map_zero. reflexivity.
  - rewrite IH. rewrite (qsum_map_plus (fun b => g a b) (fun b => qsum (map (fun a0 => g a0 b) r))). reflexivity.
Qed.

(* ------------------------------------------------------------------ a window as indices *)

Lemma skipn_cons_nth {A : Type} (d : A) l : forall i, (i < length l)%nat ->
  skipn i l = nth i l d :: skipn (S i) l.
Proof.
  induction l as [|x r IH]; intros i H; simpl in H; [lia|].
  destruct i as [|i]; [reflexivity|]. cbn [skipn nth]. rewrite (IH i) by lia. reflexivity.
Qed.

Lemma window_seq {A : Type} (d : A) l : forall w i, (i + w <= length l)%nat ->
  firstn w (skipn i l) = map (fun k => nth k l d) (seq i w).
Proof.
  induction w as [|w IH]; intros i H; [reflexivity|].
  rewrite (skipn_cons_nth d) by lia. cbn [firstn seq map]. f_equal. apply IH. lia.
Qed.

Lemma in_seq_lt k i w : In k (seq i w) -> (i <= k < i + w)%nat.
Proof. intro H. apply in_seq in H. lia. Qed.

(* ------------------------------------------------------------------ transposition *)

Definition col (j : nat) (m : list (list Q)) : list Q := map (fun row => nth j row 0%Q) m.

Lemma transpose_n_nth : forall n m j, (j < n)%nat -> nth_error (transpose_n n m) j = Some (col j m).
Proof.
  induction n as [|n IH]; intros m j H; [lia|]. cbn [transpose_n]. destruct j as [|j]; cbn [nth_error].
  - f_equal. unfold col. apply map_ext. intros [|x r]; reflexivity.
  - rewrite IH by lia. f_equal. unfold col. rewrite map_map. apply map_ext.
    intros [|x r]; cbn [tl nth]; [destruct j; reflexivity|reflexivity].
Qed.

Lemma transpose_n_length : forall n m, length (transpose_n n m) = n.
Proof. induction n as [|n IH]; intro m; cbn [transpose_n length]; [reflexivity|]. rewrite IH. reflexivity. Qed.

Lemma transpose_n_rows : forall n m row, In row (transpose_n n m) -> length row = length m.
Proof.
  induction n as [|n IH]; intros m row H; cbn [transpose_n] in H; [destruct H|].
  destruct H as [H|H]; [subst; apply map_length|]. rewrite (IH _ _ H). apply map_length.
Qed.

Lemma col_length j m : length (col j m) = length m.
Proof. apply map_length. Qed.

Lemma col_nth j m : forall i, nth i (col j m) 0%Q = nth j (nth i m []) 0%Q.
Proof.
  unfold col. induction m as [|row r IH]; intro i.
  - destruct i, j; reflexivity.
  - destruct i as [|i]; [reflexivity|]. cbn [map nth]. apply IH.
Qed.

Lemma hd_nth_error {A : Type} (d x : A) l : nth_error l 0 = Some x -> hd d l = x.
Proof. destruct l; simpl; congruence. Qed.

(* ------------------------------------------------------------------ one pass, shapes *)

Lemma map2_length {A B C : Type} (f : A -> B -> C) la : forall lb,
  length (map2 f la lb) = Nat.min (length la) (length lb).
Proof. induction la as [|a r IH]; intros [|b lb]; simpl; auto. Qed.

Lemma cumsum_from_length l : forall acc, length (cumsum_from acc l) = length l.
Proof. induction l as [|x r IH]; intro acc; simpl; auto. Qed.

Lemma winsum_length w l : length (winsum w l) = (S (length l) - w)%nat.
Proof.
  unfold winsum. rewrite map2_length, skipn_length. cbn [length]. rewrite cumsum_from_length. lia.
Qed.

Lemma winsum_nth w l i : (i + w <= length l)%nat ->
  (nth i (winsum w l) 0 == qsum (firstn w (skipn i l)))%Q.
Proof.
  intro H. destruct (std_def_1d w l i H) as [y [N E]]. rewrite (nth_error_nth _ _ _ N). exact E.
Qed.

(* ------------------------------------------------------------------ the two passes *)

Section Box.
  Variables (w : nat) (img : list (list Q)).
  Let nr := length img.
  Let nc := length (hd [] img).
  Hypothesis rect : forall row, In row img -> length row = nc.
  Hypothesis ncpos : (0 < nc)%nat.

  Let T0 := transpose img.
  Let T1 := map (winsum w) T0.
  Let T2 := transpose T1.

  Lemma T0_nth j : (j < nc)%nat -> nth_error T0 j = Some (col j img).
  Proof. intro H. unfold T0, transpose. apply transpose_n_nth. exact H. Qed.
  Lemma T0_length : length T0 = nc.
  Proof. unfold T0, transpose. apply transpose_n_length. Qed.
  Lemma T1_nth j : (j < nc)%nat -> nth_error T1 j = Some (winsum w (col j img)).
  Proof. intro H. unfold T1. rewrite nth_error_map', (T0_nth j H). reflexivity. Qed.
  Lemma T1_hd_length : length (hd [] T1) = (S nr - w)%nat.
  Proof.
    rewrite (hd_nth_error [] _ _ (T1_nth 0%nat ncpos)). rewrite winsum_length, col_length. reflexivity.
  Qed.
  Lemma T2_nth i : (i < S nr - w)%nat -> nth_error T2 i = Some (map (fun cl => nth i (winsum w cl) 0%Q) T0).
  Proof.
    intro H. unfold T2, transpose. rewrite T1_hd_length. rewrite transpose_n_nth by exact H.
    unfold col, T1. rewrite map_map. reflexivity.
  Qed.

  Lemma box_sum_length : length (box_sum w img) = (S nr - w)%nat.
  Proof.
    unfold box_sum. fold T0. fold T1. fold T2. rewrite map_length. unfold T2, transpose.
    rewrite transpose_n_length. apply T1_hd_length.
  Qed.

  Lemma box_sum_rows row : In row (box_sum w img) -> length row = (S nc - w)%nat.
  Proof.
    unfold box_sum. fold T0. fold T1. fold T2. intro H. apply in_map_iff in H. destruct H as [x [E H]].
    subst row. rewrite winsum_length. unfold T2, transpose in H. rewrite (transpose_n_rows _ _ _ H).
    unfold T1. rewrite map_length, T0_length. reflexivity.
  Qed.

  Lemma box_sum_cell r c : (r + w <= nr)%nat -> (c + w <= nc)%nat ->
    exists y, cell (box_sum w img) r c = Some y /\ (y == qsum (window w img r c))%Q.
  Proof.
    intros Hr Hc.
    set (row2 := map (fun cl => nth r (winsum w cl) 0%Q) T0).
    assert (nth_error (box_sum w img) r = Some (winsum w row2)) as N.
    { unfold box_sum. fold T0. fold T1. fold T2. rewrite nth_error_map', T2_nth by lia. reflexivity. }
    assert (length row2 = nc) as L2 by (unfold row2; rewrite map_length; apply T0_length).
    destruct (std_def_1d w row2 c) as [y [Ny Ey]]; [lia|].
    exists y. split; [unfold cell; rewrite N; exact Ny|].
    rewrite Ey. rewrite (window_seq 0%Q) by lia.
    (* every entry of the second pass is a first-pass window sum of a column of the image *)
    assert (forall k, In k (seq c w) ->
              (nth k row2 0 == qsum (map (fun i => nth k (nth i img []) 0) (seq r w)))%Q) as Hk.
    { intros k Ik. apply in_seq_lt in Ik.
      assert (nth_error row2 k = Some (nth r (winsum w (col k img)) 0%Q)) as Nk
        by (unfold row2; rewrite nth_error_map', T0_nth by lia; reflexivity).
      rewrite (nth_error_nth _ _ _ Nk). rewrite winsum_nth by (rewrite col_length; exact Hr).
      rewrite (window_seq 0%Q) by (rewrite col_length; exact Hr).
      apply qsum_map_ext_in. intros i _. rewrite col_nth. reflexivity. }
    rewrite (qsum_map_ext_in _ _ _ Hk).
    rewrite (qsum_swap (fun k i => nth k (nth i img []) 0%Q)).
    (* the direct window, row by row *)
    unfold window. rewrite qsum_concat, (window_seq []) by exact Hr. rewrite !map_map.
    apply qsum_map_ext_in. intros i Ii. apply in_seq_lt in Ii.
    assert (length (nth i img []) = nc) as Li by (apply rect, nth_In; fold nr; lia).
    rewrite (window_seq 0%Q) by lia. reflexivity.
  Qed.
End Box.

(* ------------------------------------------------------------------ the variance raster *)

Lemma cell_map2 {A B C : Type} (f : A -> B -> C) m1 m2 r c a b :
  cell m1 r c = Some a -> cell m2 r c = Some b -> cell (map2 (map2 f) m1 m2) r c = Some (f a b).
Proof.
  unfold cell. intros H1 H2.
  destruct (nth_error m1 r) as [r1|] eqn:E1; [|discriminate].
  destruct (nth_error m2 r) as [r2|] eqn:E2; [|discriminate].
  rewrite (nth_error_map2 (map2 f) m1 m2 r r1 r2 E1 E2). apply nth_error_map2; assumption.
Qed.

Definition sq (x : Q) : Q := (x * x)%Q.

Lemma window_map (f : Q -> Q) w img r c : window w (map (map f) img) r c = map f (window w img r c).
Proof.
  unfold window. rewrite skipn_map, firstn_map, map_map, concat_map, map_map.
  f_equal. apply map_ext. intro row. rewrite skipn_map, firstn_map. reflexivity.
Qed.

Lemma rect_map (f : Q -> Q) img :
  (forall row, In row img -> length row = length (hd [] img)) ->
  forall row, In row (map (map f) img) -> length row = length (hd [] (map (map f) img)).
Proof.
  intros H row I. apply in_map_iff in I. destruct I as [x [E I]]. subst row. rewrite map_length, (H x I).
  destruct img; simpl; [reflexivity|]. rewrite map_length. reflexivity.
Qed.

Lemma hd_map_length (f : Q -> Q) img : length (hd [] (map (map f) img)) = length (hd [] img).
Proof. destruct img; simpl; [reflexivity|]. apply map_length. Qed.

Definition std_var_raster_stmt : Prop :=
  forall (w : nat) img r c, (0 < w)%nat ->
    (forall row, In row img -> length row = length (hd [] img)) ->
    (r + w <= length img)%nat -> (c + w <= length (hd [] img))%nat ->
    exists v, cell (var_raster (Z.of_nat w) img) r c = Some v /\
      (v == window_variance w (window w img r c))%Q.

Lemma std_var_raster : std_var_raster_stmt.
Proof.
  intros w img r c Hw R Hr Hc.
  assert (0 < length (hd [] img))%nat as P by lia.
  destruct (box_sum_cell w img R P r c Hr Hc) as [a [Ca Ea]].
  destruct (box_sum_cell w (map (map (fun x => x * x)%Q) img)) with (r := r) (c := c) as [b [Cb Eb]].
  - rewrite hd_map_length. intros row I. rewrite <- (hd_map_length (fun x => x * x)%Q). revert row I. apply rect_map. exact R.
  - rewrite hd_map_length. exact P.
  - rewrite map_length. exact Hr.
  - rewrite hd_map_length. exact Hc.
  - eexists. split.
    + unfold var_raster. rewrite Nat2Z.id. apply cell_map2; eassumption.
    + cbv beta. rewrite window_map in Eb. unfold window_variance. rewrite Ea, Eb.
      rewrite Nat2Z.inj_mul. reflexivity.
Qed.

(* ------------------------------------------------------------------ the band of std_intensity *)

Lemma nth_error_map2_inv {A B C : Type} (f : A -> B -> C) la : forall lb i y,
  nth_error (map2 f la lb) i = Some y ->
  exists a b, nth_error la i = Some a /\ nth_error lb i = Some b /\ y = f a b.
Proof.
  induction la as [|a r IH]; intros [|b lb] [|i] y H; simpl in H; try discriminate.
  - injection H as H. exists a, b. auto.
  - apply IH in H. exact H.
Qed.

Section Band.
  Variables (eps : Q) (w : nat) (img : list (list oq)).
  Let nr := length img.
  Let nc := length (hd [] img).
  Let off := ((w - 1) / 2)%nat.
  Let fin := map (map nan0) img.
  Let var := var_raster_z eps (Z.of_nat w) fin.
  Hypothesis wodd : Nat.odd w = true.
  Hypothesis rect : forall row, In row img -> length row = nc.
  Hypothesis wr : (w <= nr)%nat.
  Hypothesis wc : (w <= nc)%nat.

  Lemma w_off : w = (2 * off + 1)%nat.
  Proof.
    apply Nat.odd_spec in wodd. destruct wodd as [m E]. unfold off. rewrite E.
    replace (2 * m + 1 - 1)%nat with (m * 2)%nat by lia. rewrite Nat.div_mul by lia. lia.
  Qed.

  Lemma off_z : Z.to_nat ((Z.of_nat w - 1) / 2) = off.
  Proof.
    rewrite w_off at 1. replace (Z.of_nat (2 * off + 1) - 1)%Z with (Z.of_nat off * 2)%Z by lia.
    rewrite Z.div_mul by lia. apply Nat2Z.id.
  Qed.

  Lemma fin_rect : forall row, In row fin -> length row = length (hd [] fin).
  Proof.
    intros row I. unfold fin in *. apply in_map_iff in I. destruct I as [x [E I]]. subst row.
    rewrite map_length, (rect x I). unfold nc. destruct img; simpl; [reflexivity|]. rewrite map_length. reflexivity.
  Qed.
  Lemma fin_nc : length (hd [] fin) = nc.
  Proof. unfold fin, nc. destruct img; simpl; [reflexivity|]. apply map_length. Qed.
  Lemma fin_nr : length fin = nr.
  Proof. apply map_length. Qed.

  Lemma wpos : (0 < w)%nat.
  Proof. pose proof w_off. lia. Qed.

  Let m1 := box_sum w fin.
  Let m2 := box_sum w (map (map (fun x => x * x)%Q) fin).

  Lemma var_eq : var = map2 (map2 (var_cell eps (inject_Z (Z.of_nat w * Z.of_nat w)))) m1 m2.
  Proof. unfold var, var_raster_z. rewrite Nat2Z.id. reflexivity. Qed.

  Lemma sq_rect : forall row, In row (map (map (fun x => x * x)%Q) fin) ->
    length row = length (hd [] (map (map (fun x => x * x)%Q) fin)).
  Proof. apply rect_map. exact fin_rect. Qed.

  Lemma m1_length : length m1 = (S nr - w)%nat.
  Proof. unfold m1. rewrite box_sum_length; [rewrite fin_nr; reflexivity|rewrite fin_nc; pose proof wpos; lia]. Qed.
  Lemma m2_length : length m2 = (S nr - w)%nat.
  Proof.
    unfold m2. rewrite box_sum_length; [rewrite map_length, fin_nr; reflexivity|].
    rewrite hd_map_length, fin_nc. pose proof wpos. lia.
  Qed.
  Lemma m1_rows row : In row m1 -> length row = (S nc - w)%nat.
  Proof. intro H. unfold m1 in H. apply box_sum_rows in H. rewrite fin_nc in H. exact H. Qed.
  Lemma m2_rows row : In row m2 -> length row = (S nc - w)%nat.
  Proof.
    intro H. unfold m2 in H. apply box_sum_rows in H. rewrite hd_map_length, fin_nc in H. exact H.
  Qed.

  Lemma var_length : length var = (S nr - w)%nat.
  Proof. rewrite var_eq, map2_length, m1_length, m2_length. lia. Qed.
  Lemma var_rows i vrow : nth_error var i = Some vrow -> length vrow = (S nc - w)%nat.
  Proof.
    rewrite var_eq. intro H. apply nth_error_map2_inv in H. destruct H as [a [b [Ha [Hb E]]]]. subst vrow.
    rewrite map2_length, (m1_rows a), (m2_rows b); [lia|eapply nth_error_In; eassumption..].
  Qed.

  (* what the band holds at a pixel of the image *)
  Lemma std_band_cell r c : (r < nr)%nat -> (c < nc)%nat ->
    cell (std_band eps (Z.of_nat w) img) r c =
    Some (if (off <=? r)%nat && (off <=? c)%nat
          then match nth_error var (r - off) with Some vrow => nth_error vrow (c - off) | None => None end
          else None).
  Proof.
    intros Hr Hc. unfold cell, std_band. rewrite off_z. fold fin. fold var.
    rewrite nth_error_map', nth_error_enumerate.
    destruct (nth_error img r) as [row|] eqn:Er; [|apply nth_error_None in Er; fold nr in Er; lia].
    cbn [option_map fst snd]. rewrite nth_error_map', nth_error_enumerate.
    assert (length row = nc) as Lr by (apply rect; eapply nth_error_In; exact Er).
    destruct (nth_error row c) as [x|] eqn:Ec; [|apply nth_error_None in Ec; lia].
    cbn [option_map fst snd Nat.add]. reflexivity.
  Qed.

  Lemma std_band_inside r c : (off <= r)%nat -> (r + off < nr)%nat -> (off <= c)%nat -> (c + off < nc)%nat ->
    exists v, cell (std_band eps (Z.of_nat w) img) r c = Some (Some v) /\
      let win := window w fin (r - off) (c - off) in
      let vw := window_variance w win in
      let mp2 := (qsum (map (fun x => x * x) win) / inject_Z (Z.of_nat (w * w)))%Q in
      ((eps * Qabs mp2 <= vw)%Q -> (v == vw)%Q) /\ ((vw < eps * Qabs mp2)%Q -> (v == 0)%Q).
  Proof.
    intros H1 H2 H3 H4. pose proof w_off as W.
    destruct (box_sum_cell w fin) with (r := (r - off)%nat) (c := (c - off)%nat) as [a [Ca Ea]];
      [exact fin_rect|rewrite fin_nc; lia|rewrite fin_nr; lia|rewrite fin_nc; lia|].
    destruct (box_sum_cell w (map (map (fun x => x * x)%Q) fin)) with (r := (r - off)%nat) (c := (c - off)%nat)
      as [b [Cb Eb]];
      [exact sq_rect|rewrite hd_map_length, fin_nc; lia|rewrite map_length, fin_nr; lia
      |rewrite hd_map_length, fin_nc; lia|].
    fold m1 in Ca. fold m2 in Cb. rewrite window_map in Eb.
    pose proof (cell_map2 (var_cell eps (inject_Z (Z.of_nat w * Z.of_nat w))) m1 m2 _ _ a b Ca Cb) as Cv.
    rewrite <- var_eq in Cv.
    eexists. split.
    - rewrite std_band_cell by lia.
      replace ((off <=? r)%nat && (off <=? c)%nat) with true
        by (symmetry; apply andb_true_iff; split; apply Nat.leb_le; assumption).
      unfold cell in Cv. destruct (nth_error var (r - off)) as [vrow|]; [|discriminate]. rewrite Cv. reflexivity.
    - cbv zeta. unfold window_variance, var_cell. rewrite <- Nat2Z.inj_mul.
      set (n := inject_Z (Z.of_nat (w * w))). set (win := window w fin (r - off) (c - off)) in *.
      assert (b / n - a / n * (a / n) == qsum (map (fun x => x * x) win) / n - qsum win / n * (qsum win / n))%Q as Ev
        by (rewrite Ea, Eb; reflexivity).
      assert (Qabs (b / n) == Qabs (qsum (map (fun x => x * x) win) / n))%Q as Em by (rewrite Eb; reflexivity).
      destruct (Qlt_bool _ _) eqn:T; unfold Qlt_bool in T.
      + apply negb_true_iff, Qle_bool_false in T. split; intro H; [|reflexivity].
        rewrite Ev, Em in T. exfalso. lra.
      + apply negb_false_iff, Qle_bool_true in T. split; intro H; [exact Ev|].
        rewrite Ev, Em in T. exfalso. lra.
  Qed.

  Lemma std_band_border r c : (r < nr)%nat -> (c < nc)%nat ->
    ~ ((off <= r)%nat /\ (r + off < nr)%nat /\ (off <= c)%nat /\ (c + off < nc)%nat) ->
    cell (std_band eps (Z.of_nat w) img) r c = Some None.
  Proof.
    intros Hr Hc B. pose proof w_off as W. rewrite std_band_cell by assumption. f_equal.
    destruct ((off <=? r)%nat && (off <=? c)%nat) eqn:G; [|reflexivity].
    apply andb_true_iff in G. destruct G as [G1 G2]. apply Nat.leb_le in G1, G2.
    destruct (nth_error var (r - off)) as [vrow|] eqn:Ev; [|reflexivity].
    assert (r - off < S nr - w)%nat as Lr by (rewrite <- var_length; apply nth_error_Some; congruence).
    apply nth_error_None. rewrite (var_rows _ _ Ev). lia.
  Qed.
End Band.

Definition in_interior (off nr nc r c : nat) : bool :=
  (off <=? r)%nat && (r + off <? nr)%nat && (off <=? c)%nat && (c + off <? nc)%nat.

Definition std_def_stmt : Prop :=
  forall (eps : Q) (w : nat) (img : list (list oq)) (r c : nat),
    Nat.odd w = true ->
    (forall row, In row img -> length row = length (hd [] img)) ->
    (w <= length img)%nat -> (w <= length (hd [] img))%nat ->
    (r < length img)%nat -> (c < length (hd [] img))%nat ->
    let off := ((w - 1) / 2)%nat in
    if in_interior off (length img) (length (hd [] img)) r c
    then (* the w x w window centred on (r, c) fits in the image *)
      exists v, cell (std_band eps (Z.of_nat w) img) r c = Some (Some v) /\
        let win := window w (map (map nan0) img) (r - off) (c - off) in
        let vw := window_variance w win in
        let mp2 := (qsum (map (fun x => x * x) win) / inject_Z (Z.of_nat (w * w)))%Q in
        ((eps * Qabs mp2 <= vw)%Q -> (v == vw)%Q) /\ ((vw < eps * Qabs mp2)%Q -> (v == 0)%Q)
    else cell (std_band eps (Z.of_nat w) img) r c = Some None.

Lemma std_def : std_def_stmt.
Proof.
  intros eps w img r c Ho R Wr Wc Hr Hc off. unfold in_interior.
  destruct (_ && _) eqn:G.
  - apply andb_true_iff in G. destruct G as [G G4]. apply andb_true_iff in G. destruct G as [G G3].
    apply andb_true_iff in G. destruct G as [G1 G2].
    apply Nat.leb_le in G1, G3. apply Nat.ltb_lt in G2, G4.
    apply std_band_inside; assumption.
  - apply std_band_border; try assumption. intros [G1 [G2 [G3 G4]]].
    apply Nat.leb_le in G1, G3. apply Nat.ltb_lt in G2, G4. fold off in G1, G2, G3, G4.
    rewrite G1, G2, G3, G4 in G. discriminate.
Qed.
