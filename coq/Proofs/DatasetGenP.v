(* C16, T-gen tie: the dataset functions regenerated from the Python source (Gen/DatasetFns.v, produced
   by translator/gen_dataset_fns.py from pandora/img_tools.py: add_disparity, add_classif, add_segm,
   add_no_data, add_mask, create_dataset_from_inputs) compute what the hand-written model
   (Model/Dataset.v) computes, for ALL inputs.

   These equalities are per-run obligations: Gen/DatasetFns.v is rewritten from what the code says now
   and this file is re-checked against it.  An edit of the Python that changes what is computed breaks
   one of [gen_add_*_eq], [gen_create_eq] (or the translator refuses the new shape).  The theorems of
   Proofs/DatasetP.v / WindowP.v are then transported to the generated definitions (last part).

   Arrays hold functions, so "equal" is [arr_eq]: same shape, same value at EVERY index (no functional
   extensionality); a generated dataset [xds] and a model dataset are related by [ds_rel] (every
   variable, coordinate and attribute the model has). *)
From Coq Require Import ZArith QArith List Bool Lia String.
From Pandora Require Import Model.Dataset Model.DatasetPrims Spec.Dataset Proofs.DatasetP Proofs.WindowP
     Gen.Window.
From Pandora Require Gen.DatasetFns.
Import ListNotations.
Open Scope Z_scope.

Module G := Pandora.Gen.DatasetFns.

(* ------------------------------------------------------------------ equality of arrays *)

Definition arr_eq {A} (a b : arr A) : Prop :=
  nr a = nr b /\ nc a = nc b /\ forall r c, px a r c = px b r c.

Lemma arr_eq_refl {A} (a : arr A) : arr_eq a a.
Proof. repeat split. Qed.

Lemma Forall2_arr_eq_refl {A} (l : list (arr A)) : Forall2 arr_eq l l.
Proof. induction l; constructor; auto using arr_eq_refl. Qed.

(* ------------------------------------------------------------------ the model side *)

(* band 1 of a file (mask, segmentation) *)
Definition band1 (f : rfile Z) : arr Z := hd (empty_arr 0) (rf_bands f).

(* the input section as the hand-written model sees it (an absent key and None are the same there) *)
Definition to_inputs (xi : xinputs) : inputs :=
  mkIn (rf_bands (xi_img xi)) (rf_desc (xi_img xi)) (xi_nodata xi)
       (option_map band1 (cfg_get None (xi_mask xi)))
       (cfg_get DispNone (xi_disp xi))
       (option_map (fun f => (rf_desc f, rf_bands f)) (cfg_get None (xi_classif xi)))
       (option_map band1 (cfg_get None (xi_segm xi))).

(* create_dataset_from_inputs(cfg, roi) of the model: get_window (regenerated, Gen/Window.v) on the
   size of the image file, then Model.Dataset.create_dataset *)
Inductive mres := MOk (d : dataset) | MRaiseOutside | MRaiseNegative.

Definition window_of (roi : option roi_t) (W H : Z) : option window_result :=
  match roi with
  | None => None
  | Some r => Some (get_window (r_col_first r) (r_col_last r) (r_row_first r) (r_row_last r)
                               (r_m_left r) (r_m_up r) (r_m_right r) (r_m_down r) W H)
  end.

Definition model_create (inp : inputs) (roi : option roi_t) : mres :=
  let '(H, W) := shape_of (i_img inp) in
  match window_of roi W H with
  | None => MOk (create_dataset inp None)
  | Some (Window co ro w h) => MOk (create_dataset inp (Some (co, ro, w, h)))
  | Some RaiseOutside => MRaiseOutside
  | Some RaiseNegative => MRaiseNegative
  end.

Definition disp_rel (l : list (arr sample)) (p : arr sample * arr sample) : Prop :=
  Forall2 arr_eq l [fst p; snd p].

Record ds_rel (g : xds) (m : dataset) : Prop := mkRel {
  rel_im : Forall2 arr_eq (nd_bands (x_im g)) (d_im m);
  rel_band_im : x_band_im g = d_band_im m;
  rel_row : x_row g = d_row m;
  rel_col : x_col g = d_col m;
  rel_valid : x_valid_pixels g = valid_pixels;
  rel_ndmask : x_no_data_mask g = no_data_mask;
  rel_nodata : x_no_data_img g = Some (d_nodata m);
  rel_msk : opt_rel arr_eq (x_msk g) (d_msk m);
  rel_disp : opt_rel disp_rel (x_disparity g) (d_disp m);
  rel_band_classif : x_band_classif g = option_map fst (d_classif m);
  rel_classif : opt_rel (Forall2 arr_eq) (x_classif g) (option_map snd (d_classif m));
  rel_segm : opt_rel arr_eq (x_segm g) (d_segm m) }.

(* what the generated dataset holds beyond the model: dims of the image variable, the band_disp
   labels, attrs["disparity_source"] (the "disp" value as given; absent when there is no "disp" key) *)
Definition im_dims_of (xi : xinputs) : list string :=
  if rf_count (xi_img xi) =? 1 then ["row"%string; "col"%string]
  else ["band_im"%string; "row"%string; "col"%string].

Definition xextra (xi : xinputs) (dims : list string) (g : xds) : Prop :=
  x_im_dims g = dims /\
  x_band_disp g = (match cfg_get DispNone (xi_disp xi) with
                   | DispNone => None | _ => Some ["min"%string; "max"%string] end) /\
  x_disparity_source g = xi_disp xi.

Definition cres_rel (xi : xinputs) (g : cres) (m : mres) : Prop :=
  match g, m with
  | COk g, MOk m => ds_rel g m /\ xextra xi (im_dims_of xi) g
  | CRaiseOutside, MRaiseOutside => True
  | CRaiseNegative, MRaiseNegative => True
  | _, _ => False
  end.

(* ------------------------------------------------------------------ np.where, counting *)

Lemma zsum_nonneg l : (forall x, In x l -> 0 <= x) -> 0 <= zsum l.
Proof.
  induction l as [|x l IH]; intros H; unfold zsum; cbn [fold_right]; [lia|]. fold (zsum l).
  assert (0 <= x) by (apply H; now left).
  assert (0 <= zsum l) by (apply IH; intros; apply H; now right). lia.
Qed.

(* a sum of non-negative terms is 0 exactly when no term is positive *)
Lemma zsum_zero_existsb {A} (f : A -> Z) (g : A -> bool) l :
  (forall x, 0 <= f x) -> (forall x, f x = 0 <-> g x = false) ->
  (zsum (map f l) =? 0) = negb (existsb g l).
Proof.
  intros Hpos Hfg. induction l as [|x l IH]; [reflexivity|].
  cbn [map existsb]. unfold zsum; cbn [fold_right]; fold (zsum (map f l)).
  assert (Hs : 0 <= zsum (map f l)).
  { apply zsum_nonneg. intros y Hy. apply in_map_iff in Hy. destruct Hy as [z [<- _]]. apply Hpos. }
  specialize (Hpos x). destruct (g x) eqn:E; cbn.
  - assert (f x <> 0) by (intro H0; apply Hfg in H0; congruence).
    apply Z.eqb_neq. lia.
  - assert (f x = 0) by (apply Hfg; exact E). rewrite <- IH.
    replace (f x + zsum (map f l)) with (zsum (map f l)) by lia. reflexivity.
Qed.

Lemma zsum_zero_existsb' {A} (f : A -> Z) (g : A -> bool) l :
  (forall x, 0 <= f x) -> (forall x, (f x =? 0) = negb (g x)) ->
  (zsum (map f l) =? 0) = negb (existsb g l).
Proof.
  intros Hpos Hfg. apply zsum_zero_existsb; auto.
  intros x. specialize (Hfg x). destruct (g x); cbn in Hfg.
  - apply Z.eqb_neq in Hfg. split; [tauto|discriminate].
  - apply Z.eqb_eq in Hfg. tauto.
Qed.

Lemma arr_count_spec (b : arr bool) :
  0 <= arr_count b /\
  (arr_count b =? 0) =
  negb (existsb (fun r => existsb (fun c => px b r c) (zrange 0 (nc b))) (zrange 0 (nr b))).
Proof.
  assert (Hrow : forall r,
             0 <= zsum (map (fun c => b2z (px b r c)) (zrange 0 (nc b))) /\
             (zsum (map (fun c => b2z (px b r c)) (zrange 0 (nc b))) =? 0) =
             negb (existsb (fun c => px b r c) (zrange 0 (nc b)))).
  { intros r. split.
    - apply zsum_nonneg. intros y Hy. apply in_map_iff in Hy. destruct Hy as [z [<- _]].
      destruct (px b r z); cbn; lia.
    - apply zsum_zero_existsb'.
      + intros c. destruct (px b r c); cbn; lia.
      + intros c. destruct (px b r c); reflexivity. }
  unfold arr_count. split.
  - apply zsum_nonneg. intros y Hy. apply in_map_iff in Hy. destruct Hy as [z [<- _]]. apply Hrow.
  - apply zsum_zero_existsb'; intros r; apply Hrow.
Qed.

(* w[0].size == 0 for w = np.where(t(x)) : no sample of x passes the test *)
Lemma where_count_zero (t : sample -> bool) (x : nd sample) :
  (where_count (np_where (np_map t x)) =? 0) = negb (any_px t (nd_bands x)).
Proof.
  unfold where_count, np_where, any_px.
  assert (Hb : nd_bands (np_map t x) = map (arr_map t) (nd_bands x)) by (destruct x; reflexivity).
  rewrite Hb, map_map.
  apply zsum_zero_existsb'.
  - intros a. apply arr_count_spec.
  - intros a. destruct (arr_count_spec (arr_map t a)) as [_ H]. exact H.
Qed.

Lemma where_rc_map (t : sample -> bool) (x : nd sample) r c :
  where_rc (np_where (np_map t x)) r c = existsb (fun a => t (px a r c)) (nd_bands x).
Proof.
  unfold where_rc, np_where. destruct x as [a|l]; cbn.
  - reflexivity.
  - rewrite existsb_map. reflexivity.
Qed.

Lemma map2_map_r {A B C} (f : A -> B -> C) (g : A -> B) l :
  map2 f l (map g l) = map (fun a => f a (g a)) l.
Proof. induction l; cbn; congruence. Qed.

(* x[np.where(t(x))] = v, band by band *)
Lemma nd_assign_where_bands (t : sample -> bool) (x : nd sample) v :
  nd_bands (nd_assign_where x (np_where (np_map t x)) v) =
  map (fun a => assign_where a (fun r c => t (px a r c)) v) (nd_bands x).
Proof.
  destruct x as [a|l]; cbn.
  - reflexivity.
  - rewrite map2_map_r. reflexivity.
Qed.

(* the three-way test of create_dataset_from_inputs is the model's [nodata_test] *)
Lemma nodata_where_eq (nv : sample) (x : nd sample) :
  (if is_nan nv then np_where (np_map is_nan x)
   else if is_inf nv then np_where (np_map is_inf x)
        else np_where (np_map (fun s => ieee_eqb s nv) x))
  = np_where (np_map (nodata_test nv) x).
Proof. destruct nv; reflexivity. Qed.

(* ------------------------------------------------------------------ the helpers, one by one
   Each generated helper is an update of a few fields of the dataset it receives: the equalities
   below give the new value of every field (Leibniz equality of records). *)

Definition min_max : list string := ["min"%string; "max"%string].

(* add_disparity: band_disp, the disparity variable, attrs["disparity_source"] *)
Lemma gen_add_disparity_eq ds d win :
  G.add_disparity ds d win =
  mkX (x_im ds) (x_im_dims ds) (x_band_im ds) (x_row ds) (x_col ds) (x_valid_pixels ds)
      (x_no_data_mask ds) (x_no_data_img ds) (Some d) (x_msk ds)
      (match d with DispNone => x_band_disp ds | _ => Some min_max end)
      (match d with
       | DispNone => x_disparity ds
       | DispPair a b => Some [const_arr (ds_size_row ds) (ds_size_col ds) (sz a);
                               const_arr (ds_size_row ds) (ds_size_col ds) (sz b)]
       | DispGrid g1 g2 => Some [read win g1; read win g2]
       end)
      (x_band_classif ds) (x_classif ds) (x_segm ds).
Proof. destruct ds, d; reflexivity. Qed.

(* add_classif: band_classif from the file descriptions, every band read through the window *)
Lemma gen_add_classif_eq ds c win :
  G.add_classif ds c win =
  mkX (x_im ds) (x_im_dims ds) (x_band_im ds) (x_row ds) (x_col ds) (x_valid_pixels ds)
      (x_no_data_mask ds) (x_no_data_img ds) (x_disparity_source ds) (x_msk ds) (x_band_disp ds)
      (x_disparity ds)
      (match c with Some f => Some (rf_desc f) | None => x_band_classif ds end)
      (match c with Some f => Some (map (read win) (rf_bands f)) | None => x_classif ds end)
      (x_segm ds).
Proof. destruct ds, c; reflexivity. Qed.

(* add_segm: band 1 read through the window *)
Lemma gen_add_segm_eq ds s win :
  G.add_segm ds s win =
  mkX (x_im ds) (x_im_dims ds) (x_band_im ds) (x_row ds) (x_col ds) (x_valid_pixels ds)
      (x_no_data_mask ds) (x_no_data_img ds) (x_disparity_source ds) (x_msk ds) (x_band_disp ds)
      (x_disparity ds) (x_band_classif ds) (x_classif ds)
      (match s with Some f => Some (read win (band1 f)) | None => x_segm ds end).
Proof. destruct ds, s; reflexivity. Qed.

(* add_no_data, called with no_data_pixels = np.where(t(im)): the samples passing t are replaced by
   -9999 when the nodata value is NaN/inf and there is one; attrs["no_data_img"] follows *)
Lemma gen_add_no_data_eq ds (nv : sample) (t : sample -> bool) :
  let any := any_px t (nd_bands (x_im ds)) in
  let w := np_where (np_map t (x_im ds)) in
  G.add_no_data ds nv w =
  mkX (if any && special nv then nd_assign_where (x_im ds) w minus9999 else x_im ds)
      (x_im_dims ds) (x_band_im ds) (x_row ds) (x_col ds) (x_valid_pixels ds)
      (x_no_data_mask ds) (Some (add_no_data_attr nv any)) (x_disparity_source ds) (x_msk ds)
      (x_band_disp ds) (x_disparity ds) (x_band_classif ds) (x_classif ds) (x_segm ds).
Proof.
  intros any w. unfold G.add_no_data, add_no_data_attr. fold w.
  unfold w at 1. rewrite where_count_zero. fold any. rewrite negb_involutive.
  change (is_nan nv || is_inf nv) with (special nv).
  destruct (any && special nv); destruct ds; reflexivity.
Qed.

(* the msk variable written by add_mask, as the model writes it *)
Lemma gen_add_mask_eq ds mask (t : sample -> bool) width height win :
  x_msk ds = None -> x_valid_pixels ds = valid_pixels -> x_no_data_mask ds = no_data_mask ->
  let any := any_px t (nd_bands (x_im ds)) in
  let w := np_where (np_map t (x_im ds)) in
  exists m,
    G.add_mask ds mask w width height win =
    mkX (x_im ds) (x_im_dims ds) (x_band_im ds) (x_row ds) (x_col ds) (x_valid_pixels ds)
        (x_no_data_mask ds) (x_no_data_img ds) (x_disparity_source ds) m
        (x_band_disp ds) (x_disparity ds) (x_band_classif ds) (x_classif ds) (x_segm ds)
    /\ opt_rel arr_eq m
         (Dataset.add_mask height width (option_map (fun f => read win (band1 f)) mask) any
                           (fun r c => existsb (fun a => t (px a r c)) (nd_bands (x_im ds)))).
Proof.
  intros Hm Hv Hn any w. unfold G.add_mask. unfold w at 1. rewrite where_count_zero. fold any.
  destruct ds as [im dims bim row col vp ndm ndi dsrc msk bd disp bc cl sg]. cbn in Hm, Hv, Hn. subst.
  destruct mask as [f|]; cbn [is_none andb negb option_map].
  - eexists. split; [reflexivity|]. subst w. cbn -[where_rc]. repeat split. intros r c.
    unfold assign_where; cbn [px]. rewrite where_rc_map. reflexivity.
  - destruct any; cbn [negb].
    + eexists. split; [reflexivity|]. subst w. cbn -[where_rc]. repeat split. intros r c.
      unfold assign_where; cbn [px]. rewrite where_rc_map. reflexivity.
    + eexists. split; [reflexivity|]. cbn. exact I.
Qed.

(* the chain that ends create_dataset_from_inputs:
   dataset.pipe(add_classif, ..).pipe(add_segm, ..).pipe(add_no_data, ..).pipe(add_mask, ..)
   with no_data_pixels = np.where(t(dataset["im"].data)) computed BEFORE the chain *)
Lemma gen_pipeline_eq ds classif segm (nv : sample) (t : sample -> bool) mask nx ny win :
  x_msk ds = None -> x_valid_pixels ds = valid_pixels -> x_no_data_mask ds = no_data_mask ->
  let any := any_px t (nd_bands (x_im ds)) in
  let w := np_where (np_map t (x_im ds)) in
  exists m,
    G.add_mask (G.add_no_data (G.add_segm (G.add_classif ds classif win) segm win) nv w)
               mask w nx ny win =
    mkX (if any && special nv then nd_assign_where (x_im ds) w minus9999 else x_im ds)
        (x_im_dims ds) (x_band_im ds) (x_row ds) (x_col ds) (x_valid_pixels ds)
        (x_no_data_mask ds) (Some (add_no_data_attr nv any)) (x_disparity_source ds) m
        (x_band_disp ds) (x_disparity ds)
        (match classif with Some f => Some (rf_desc f) | None => x_band_classif ds end)
        (match classif with Some f => Some (map (read win) (rf_bands f)) | None => x_classif ds end)
        (match segm with Some f => Some (read win (band1 f)) | None => x_segm ds end)
    /\ opt_rel arr_eq m
         (Dataset.add_mask ny nx (option_map (fun f => read win (band1 f)) mask) any
                           (fun r c => existsb (fun a => t (px a r c)) (nd_bands (x_im ds)))).
Proof.
  intros Hm Hv Hn any w.
  rewrite gen_add_classif_eq, gen_add_segm_eq. cbn [x_im x_im_dims x_band_im x_row x_col x_valid_pixels
    x_no_data_mask x_no_data_img x_disparity_source x_msk x_band_disp x_disparity x_band_classif
    x_classif x_segm].
  set (ds1 := mkX _ _ _ _ _ _ _ _ _ _ _ _ _ _ _).
  pose proof (gen_add_no_data_eq ds1 nv t) as E1. cbv zeta in E1. subst ds1.
  cbn [x_im x_im_dims x_band_im x_row x_col x_valid_pixels
    x_no_data_mask x_no_data_img x_disparity_source x_msk x_band_disp x_disparity x_band_classif
    x_classif x_segm] in E1. fold any w in E1. rewrite E1. clear E1.
  (* the image after add_no_data passes the nodata test where the image before did *)
  set (im2 := if any && special nv then _ else _).
  set (ds2 := mkX _ _ _ _ _ _ _ _ _ _ _ _ _ _ _).
  (* add_mask receives the where-set computed on the image BEFORE the replacement *)
  unfold G.add_mask. unfold w at 1. rewrite where_count_zero. fold any.
  subst ds2. cbn [x_valid_pixels x_no_data_mask]. rewrite Hm, Hv, Hn.
  destruct mask as [f|]; cbn [is_none andb negb option_map].
  - eexists. split; [reflexivity|]. subst w. cbn -[where_rc]. repeat split. intros r c.
    unfold assign_where; cbn [px]. rewrite where_rc_map. reflexivity.
  - destruct any eqn:EA; cbn [negb].
    + eexists. split; [reflexivity|]. subst w. cbn -[where_rc]. repeat split. intros r c.
      unfold assign_where; cbn [px]. rewrite where_rc_map. reflexivity.
    + eexists. split; [reflexivity|]. cbn. exact I.
Qed.

(* ------------------------------------------------------------------ create_dataset_from_inputs *)

Lemma shape_of_bands (l : list (arr sample)) : shape_of l = bands_shape l.
Proof. reflexivity. Qed.

Lemma np_arange_zrange off n : np_arange off (n + off) = zrange off n.
Proof. unfold np_arange. f_equal. lia. Qed.

Lemma count_one {A} (l : list (arr A)) :
  (Z.of_nat (Datatypes.length l) =? 1) = true -> exists a, l = [a].
Proof.
  destruct l as [|a [|b l]]; cbn [Datatypes.length]; intros H.
  - discriminate.
  - eauto.
  - apply Z.eqb_eq in H. lia.
Qed.

Lemma count_not_one {A} (l : list (arr A)) :
  (Z.of_nat (Datatypes.length l) =? 1) = false -> match l with [_] => False | _ => True end.
Proof. destruct l as [|a [|b l]]; cbn; auto. discriminate. Qed.

Ltac xproj_in H :=
  cbn [x_im x_im_dims x_band_im x_row x_col x_valid_pixels x_no_data_mask x_no_data_img
       x_disparity_source x_msk x_band_disp x_disparity x_band_classif x_classif x_segm
       xr_dataset im_data im_dims co_band_im co_row co_col at_valid_pixels at_no_data_mask] in H.

Ltac xproj :=
  cbn [x_im x_im_dims x_band_im x_row x_col x_valid_pixels x_no_data_mask x_no_data_img
       x_disparity_source x_msk x_band_disp x_disparity x_band_classif x_classif x_segm
       xr_dataset im_data im_dims co_band_im co_row co_col at_valid_pixels at_no_data_mask].

(* dataset after the optional add_disparity *)
Lemma gen_after_disparity_eq ds (od : option disp_input) win :
  (if cfg_has od then G.add_disparity ds (cfg_get DispNone od) win else ds) =
  mkX (x_im ds) (x_im_dims ds) (x_band_im ds) (x_row ds) (x_col ds) (x_valid_pixels ds)
      (x_no_data_mask ds) (x_no_data_img ds)
      (match od with Some d => Some d | None => x_disparity_source ds end) (x_msk ds)
      (match cfg_get DispNone od with DispNone => x_band_disp ds | _ => Some min_max end)
      (match cfg_get DispNone od with
       | DispNone => x_disparity ds
       | DispPair a b => Some [const_arr (ds_size_row ds) (ds_size_col ds) (sz a);
                               const_arr (ds_size_row ds) (ds_size_col ds) (sz b)]
       | DispGrid g1 g2 => Some [read win g1; read win g2]
       end)
      (x_band_classif ds) (x_classif ds) (x_segm ds).
Proof. destruct od as [d|]; cbn [cfg_has cfg_get]; [rewrite gen_add_disparity_eq|]; destruct ds; reflexivity. Qed.

(* everything that follows the read of the image, for an image array [data] holding the bands read
   through [win] (2-D or 3-D), against the model *)
Lemma gen_tail_rel xi win dims (data : nd sample) :
  nd_bands data = map (read win) (rf_bands (xi_img xi)) ->
  let ny := fst (bands_shape (nd_bands data)) in
  let nx := snd (bands_shape (nd_bands data)) in
  let ds0 := xr_dataset (mkImage dims data)
               (mkCoords (match nd_bands data with [_] => None | _ => Some (rf_desc (xi_img xi)) end)
                         (zrange (snd (offsets win)) ny) (zrange (fst (offsets win)) nx))
               (mkAttrs 0 1) in
  let ds1 := if cfg_has (xi_disp xi)
             then G.add_disparity ds0 (cfg_get DispNone (xi_disp xi)) win else ds0 in
  let nv := xi_nodata xi in
  let w := np_where (np_map (nodata_test nv) (x_im ds1)) in
  let g := G.add_mask (G.add_no_data (G.add_segm (G.add_classif ds1 (cfg_get None (xi_classif xi)) win)
                                                  (cfg_get None (xi_segm xi)) win) nv w)
                      (cfg_get None (xi_mask xi)) w nx ny win in
  ds_rel g (create_dataset (to_inputs xi) win) /\ xextra xi dims g.
Proof.
  intros Hb ny nx ds0 ds1 nv w g. subst g.
  assert (E1 : ds1 = _) by (apply gen_after_disparity_eq).
  subst ds0. xproj_in E1.
  assert (Hm : x_msk ds1 = None) by (rewrite E1; reflexivity).
  assert (Hv : x_valid_pixels ds1 = valid_pixels) by (rewrite E1; reflexivity).
  assert (Hn : x_no_data_mask ds1 = no_data_mask) by (rewrite E1; reflexivity).
  destruct (gen_pipeline_eq ds1 (cfg_get None (xi_classif xi)) (cfg_get None (xi_segm xi)) nv
                            (nodata_test nv) (cfg_get None (xi_mask xi)) nx ny win Hm Hv Hn)
    as [mm [E R]].
  fold w in E. rewrite E. clear E.
  assert (Him : x_im ds1 = data) by (rewrite E1; reflexivity).
  rewrite Him in R. unfold w. rewrite Him. rewrite E1. xproj. clear E1 Hm Hv Hn Him w ds1.
  split; [|repeat split; destruct (xi_disp xi); reflexivity].
  rewrite create_dataset_unfold. cbv zeta.
  unfold data_of. cbn [to_inputs i_img i_names i_nodata i_mask i_disp i_classif i_segm].
  rewrite <- Hb. rewrite shape_of_bands. fold ny nx. fold nv.
  constructor; cbn [x_im x_im_dims x_band_im x_row x_col x_valid_pixels x_no_data_mask x_no_data_img
       x_disparity_source x_msk x_band_disp x_disparity x_band_classif x_classif x_segm
       d_im d_band_im d_row d_col d_nodata d_msk d_disp d_classif d_segm].
  - (* im *)
    unfold add_no_data_im.
    destruct (any_px (nodata_test nv) (nd_bands data) && special nv).
    + rewrite nd_assign_where_bands. apply Forall2_arr_eq_refl.
    + apply Forall2_arr_eq_refl.
  - reflexivity.
  - reflexivity.
  - reflexivity.
  - reflexivity.
  - reflexivity.
  - reflexivity.
  - (* msk *)
    destruct (cfg_get None (xi_mask xi)); exact R.
  - (* disparity *)
    unfold ds_size_row, ds_size_col. cbn [x_im]. fold ny nx.
    destruct (cfg_get DispNone (xi_disp xi)); cbn; auto;
      repeat constructor.
  - destruct (cfg_get None (xi_classif xi)); reflexivity.
  - destruct (cfg_get None (xi_classif xi)); cbn; auto. apply Forall2_arr_eq_refl.
  - destruct (cfg_get None (xi_segm xi)); cbn; auto. apply arr_eq_refl.
Qed.

(* what follows the window in the generated function, in the four cases (roi or not, one band or
   several), is an instance of [gen_tail_rel] *)
Ltac tail_case xi win EC :=
  cbv zeta; rewrite nodata_where_eq; rewrite !np_arange_zrange;
  unfold cres_rel, im_dims_of; rewrite EC; unfold rf_count in EC;
  match type of EC with
  | _ = true =>
    let a := fresh "a" in let Ea := fresh "Ea" in
    destruct (count_one _ EC) as [a Ea];
    pose proof (gen_tail_rel xi win ["row"%string; "col"%string]
                             (Nd2 (rio_read1 SNaN win (xi_img xi)))) as L;
    unfold rio_read1 in *; rewrite Ea in L; cbn [hd nd_bands map] in L;
    specialize (L eq_refl); rewrite Ea; cbn [hd]; exact L
  | _ = false =>
    pose proof (gen_tail_rel xi win ["band_im"%string; "row"%string; "col"%string]
                             (Nd3 (rio_read win (xi_img xi))) eq_refl) as L;
    pose proof (count_not_one _ EC) as Hne;
    unfold rio_read in *; cbn [nd_bands] in L;
    destruct (rf_bands (xi_img xi)) as [|a [|b l]]; [exact L|contradiction|exact L]
  end.

Theorem gen_create_eq xi roi :
  cres_rel xi (G.create_dataset_from_inputs xi roi) (model_create (to_inputs xi) roi).
Proof.
  unfold G.create_dataset_from_inputs, model_create.
  cbn [to_inputs i_img]. rewrite shape_of_bands.
  unfold rf_height, rf_width.
  destruct (bands_shape (rf_bands (xi_img xi))) as [H W]. cbn [fst snd].
  destruct roi as [r|]; cbn [window_of bind_window].
  - destruct (get_window _ _ _ _ _ _ _ _ _ _) as [co ro w h| |]; cbn [bind_window cres_rel]; auto.
    cbn [win_col_off win_row_off].
    destruct (rf_count (xi_img xi) =? 1) eqn:EC.
    + tail_case xi (Some (co, ro, w, h)) EC.
    + tail_case xi (Some (co, ro, w, h)) EC.
  - destruct (rf_count (xi_img xi) =? 1) eqn:EC.
    + tail_case xi (@None (Z * Z * Z * Z)) EC.
    + tail_case xi (@None (Z * Z * Z * Z)) EC.
Qed.

(* ------------------------------------------------------------------ transport of the C16 theorems
   to the generated create_dataset_from_inputs *)

(* the window the generated function reads through: none without a ROI, else the one get_window
   returns for the size of the image file *)
Definition reads_through (xi : xinputs) (roi : option roi_t) (win : option (Z * Z * Z * Z)) : Prop :=
  match roi, win with
  | None, None => True
  | Some r, Some (co, ro, w, h) =>
    get_window (r_col_first r) (r_col_last r) (r_row_first r) (r_row_last r)
               (r_m_left r) (r_m_up r) (r_m_right r) (r_m_down r)
               (rf_width (xi_img xi)) (rf_height (xi_img xi)) = Window co ro w h
  | _, _ => False
  end.

(* the bands of the image file, read through the window *)
Definition xdata (xi : xinputs) (win : option (Z * Z * Z * Z)) : list (arr sample) :=
  map (read win) (rf_bands (xi_img xi)).

Lemma data_of_to_inputs xi win : data_of (to_inputs xi) win = xdata xi win.
Proof. reflexivity. Qed.

Lemma gen_create_ok xi roi g :
  G.create_dataset_from_inputs xi roi = COk g ->
  exists win, reads_through xi roi win /\
              ds_rel g (create_dataset (to_inputs xi) win) /\ xextra xi (im_dims_of xi) g.
Proof.
  intros E. pose proof (gen_create_eq xi roi) as R. rewrite E in R.
  unfold model_create in R. cbn [to_inputs i_img] in R. rewrite shape_of_bands in R.
  unfold reads_through, rf_width, rf_height.
  destruct (bands_shape (rf_bands (xi_img xi))) as [H W]. cbn [fst snd].
  destruct roi as [r|]; cbn [window_of] in R.
  - destruct (get_window _ _ _ _ _ _ _ _ _ _) as [co ro w h| |] eqn:EW; cbn in R; try contradiction.
    exists (Some (co, ro, w, h)). split; [reflexivity|exact R].
  - exists None. split; [exact I|exact R].
Qed.

(* which result for which window *)
Lemma gen_create_result xi roi :
  match window_of roi (rf_width (xi_img xi)) (rf_height (xi_img xi)) with
  | None | Some (Window _ _ _ _) => exists g, G.create_dataset_from_inputs xi roi = COk g
  | Some RaiseOutside => G.create_dataset_from_inputs xi roi = CRaiseOutside
  | Some RaiseNegative => G.create_dataset_from_inputs xi roi = CRaiseNegative
  end.
Proof.
  pose proof (gen_create_eq xi roi) as R.
  unfold model_create in R. cbn [to_inputs i_img] in R. rewrite shape_of_bands in R.
  unfold rf_width, rf_height.
  destruct (bands_shape (rf_bands (xi_img xi))) as [H W]. cbn [fst snd].
  destruct (window_of roi W H) as [[co ro w h| |]|];
    destruct (G.create_dataset_from_inputs xi roi); cbn in R; try contradiction; eauto.
Qed.

Lemma class_at_rel (a : option (arr Z)) (b : option (arr Z)) r c :
  opt_rel arr_eq a b -> class_at a r c = class_at b r c.
Proof.
  destruct a, b; cbn; try contradiction; auto. intros [_ [_ H]]. rewrite H. reflexivity.
Qed.

Lemma Forall2_compose {A B C} (R : A -> B -> Prop) (P : B -> C -> Prop) (Q : A -> C -> Prop) l1 l2 l3 :
  (forall a b c, R a b -> P b c -> Q a c) -> Forall2 R l1 l2 -> Forall2 P l2 l3 -> Forall2 Q l1 l3.
Proof.
  intros H F1. revert l3. induction F1; intros l3 F2; inversion F2; subst; constructor; eauto.
Qed.

(* mask_semantics on the generated function *)
Lemma gen_mask_semantics xi roi g :
  G.create_dataset_from_inputs xi roi = COk g ->
  x_valid_pixels g = 0 /\ x_no_data_mask g = 1 /\
  exists win, reads_through xi roi win /\
    let nv := xi_nodata xi in
    let data := xdata xi win in
    forall r c,
      (forall a, In a data -> 0 <= r < nr a /\ 0 <= c < nc a) ->
      (forall a, In a data -> opposite_inf nv (px a r c) = false) ->
      class_at (x_msk g) r c =
      spec_class nv (map (fun a => px a r c) data)
                 (option_map (fun f => px (read win (band1 f)) r c) (cfg_get None (xi_mask xi))).
Proof.
  intros E. destruct (gen_create_ok _ _ _ E) as [win [Hw [R _]]].
  split; [apply (rel_valid _ _ R)|]. split; [apply (rel_ndmask _ _ R)|].
  exists win. split; [exact Hw|]. intros nv data r c Hin Ho.
  rewrite (class_at_rel _ _ r c (rel_msk _ _ R)).
  pose proof (mask_semantics (to_inputs xi) win r c) as M. cbv zeta in M.
  rewrite data_of_to_inputs in M. rewrite (M Hin Ho). cbn [to_inputs i_nodata i_mask].
  destruct (cfg_get None (xi_mask xi)); reflexivity.
Qed.

Lemma gen_mask_absent_iff xi roi g :
  G.create_dataset_from_inputs xi roi = COk g ->
  exists win, reads_through xi roi win /\
    (x_msk g = None <->
     (cfg_get None (xi_mask xi) = None /\
      forall a r c, In a (xdata xi win) -> 0 <= r < nr a -> 0 <= c < nc a ->
                    nodata_test (xi_nodata xi) (px a r c) = false)).
Proof.
  intros E. destruct (gen_create_ok _ _ _ E) as [win [Hw [R _]]].
  exists win. split; [exact Hw|].
  pose proof (mask_absent_iff (to_inputs xi) win) as M. cbv zeta in M.
  rewrite data_of_to_inputs in M. cbn [to_inputs i_nodata i_mask] in M.
  pose proof (rel_msk _ _ R) as Hm.
  assert (Hn : x_msk g = None <-> d_msk (create_dataset (to_inputs xi) win) = None).
  { destruct (x_msk g), (d_msk _); cbn in Hm; try contradiction; split; auto; discriminate. }
  rewrite Hn, M.
  destruct (cfg_get None (xi_mask xi)); cbn [option_map]; split; intros [H1 H2]; split; auto; discriminate.
Qed.

Lemma gen_samples_unchanged xi roi g :
  G.create_dataset_from_inputs xi roi = COk g ->
  exists win, reads_through xi roi win /\
    let nv := xi_nodata xi in
    Forall2 (fun out d =>
               nr out = nr d /\ nc out = nc d /\
               forall r c, 0 <= r < nr d -> 0 <= c < nc d ->
                           opposite_inf nv (px d r c) = false ->
                           px out r c = spec_sample nv (px d r c))
            (nd_bands (x_im g)) (xdata xi win)
    /\ x_band_im g = match xdata xi win with [_] => None | _ => Some (rf_desc (xi_img xi)) end
    /\ x_im_dims g = im_dims_of xi.
Proof.
  intros E. destruct (gen_create_ok _ _ _ E) as [win [Hw [R [Hd _]]]].
  exists win. split; [exact Hw|]. intros nv.
  pose proof (samples_unchanged (to_inputs xi) win) as M. cbv zeta in M.
  rewrite data_of_to_inputs in M. cbn [to_inputs i_nodata i_names] in M. destruct M as [M1 M2].
  split; [|split; [rewrite (rel_band_im _ _ R); exact M2|exact Hd]].
  eapply Forall2_compose; [|apply (rel_im _ _ R)|exact M1].
  intros a b d [Hr [Hc Hp]] [H1 [H2 H3]]. cbv beta.
  split; [congruence|]. split; [congruence|]. intros r c Hrr Hcc Ho. rewrite Hp. auto.
Qed.

(* the disparity variable (with its band_disp labels and the disparity_source attribute), the
   classification and the segmentation *)
Lemma gen_disparity_var xi roi g :
  G.create_dataset_from_inputs xi roi = COk g ->
  exists win, reads_through xi roi win /\
    let '(ny, nx) := shape_of (xdata xi win) in
    match cfg_get DispNone (xi_disp xi) with
    | DispNone => x_disparity g = None /\ x_band_disp g = None
    | DispPair a b =>
      exists d1 d2, x_disparity g = Some [d1; d2] /\ x_band_disp g = Some ["min"%string; "max"%string] /\
        nr d1 = ny /\ nc d1 = nx /\ nr d2 = ny /\ nc d2 = nx /\
        forall r c, px d1 r c = sz a /\ px d2 r c = sz b
    | DispGrid g1 g2 =>
      exists d1 d2, x_disparity g = Some [d1; d2] /\ x_band_disp g = Some ["min"%string; "max"%string] /\
        arr_eq d1 (read win g1) /\ arr_eq d2 (read win g2)
    end
    /\ x_disparity_source g = xi_disp xi
    /\ x_band_classif g = option_map rf_desc (cfg_get None (xi_classif xi))
    /\ opt_rel (Forall2 arr_eq) (x_classif g)
               (option_map (fun f => map (read win) (rf_bands f)) (cfg_get None (xi_classif xi)))
    /\ opt_rel arr_eq (x_segm g) (option_map (fun f => read win (band1 f)) (cfg_get None (xi_segm xi))).
Proof.
  intros E. destruct (gen_create_ok _ _ _ E) as [win [Hw [R [_ [Hb Hs]]]]].
  exists win. split; [exact Hw|].
  pose proof (disparity_var (to_inputs xi) win) as M. cbv zeta in M.
  rewrite data_of_to_inputs in M. cbn [to_inputs i_disp i_classif i_segm] in M.
  destruct (shape_of (xdata xi win)) as [ny nx]. destruct M as [M1 [M2 M3]].
  pose proof (rel_disp _ _ R) as Hd. pose proof (rel_band_classif _ _ R) as Hbc.
  pose proof (rel_classif _ _ R) as Hc. pose proof (rel_segm _ _ R) as Hsg.
  rewrite M2 in Hbc, Hc. rewrite M3 in Hsg. clear M2 M3.
  split; [|split; [exact Hs|split; [|split]]].
  - destruct (cfg_get DispNone (xi_disp xi)) as [|a b|g1 g2].
    + rewrite M1 in Hd. destruct (x_disparity g); cbn in Hd; [contradiction|auto].
    + destruct M1 as [m1 [m2 [M1 [S1 [S2 [S3 [S4 S5]]]]]]]. rewrite M1 in Hd.
      destruct (x_disparity g) as [l|]; cbn in Hd; [|contradiction].
      unfold disp_rel in Hd. cbn [fst snd] in Hd.
      inversion Hd as [|d1 ? l1 ? A1 Hd']; subst. inversion Hd' as [|d2 ? l2 ? A2 Hd'']; subst.
      inversion Hd''; subst. destruct A1 as [? [? P1]], A2 as [? [? P2]].
      exists d1, d2. repeat split; auto; try congruence.
      * rewrite P1. apply S5.
      * rewrite P2. apply S5.
    + rewrite M1 in Hd. destruct (x_disparity g) as [l|]; cbn in Hd; [|contradiction].
      unfold disp_rel in Hd. cbn [fst snd] in Hd.
      inversion Hd as [|d1 ? l1 ? A1 Hd']; subst. inversion Hd' as [|d2 ? l2 ? A2 Hd'']; subst.
      inversion Hd''; subst. exists d1, d2. auto.
  - rewrite Hbc. destruct (cfg_get None (xi_classif xi)); reflexivity.
  - destruct (cfg_get None (xi_classif xi)); exact Hc.
  - destruct (cfg_get None (xi_segm xi)); exact Hsg.
Qed.

(* ------------------------------------------------------------------ ROI read = crop, refusal *)

Lemma crop_of_rel {A} co ro w h (f f' r r' : arr A) :
  arr_eq f' f -> arr_eq r' r -> crop_of co ro w h f r -> crop_of co ro w h f' r'.
Proof.
  intros [_ [_ Hf]] [Hr1 [Hr2 Hr]] [C1 [C2 C3]]. unfold crop_of.
  split; [congruence|]. split; [congruence|]. intros i j Hi Hj. rewrite Hr, Hf. auto.
Qed.

Lemma Forall2_crop_rel {A} co ro w h (lf lf' lr lr' : list (arr A)) :
  Forall2 arr_eq lf' lf -> Forall2 arr_eq lr' lr ->
  Forall2 (crop_of co ro w h) lf lr -> Forall2 (crop_of co ro w h) lf' lr'.
Proof.
  intros F1. revert lr lr'. induction F1 as [|f' f lf' lf Hf F1 IH]; intros lr lr' F2 F3.
  - inversion F3; subst. inversion F2; subst. constructor.
  - inversion F3 as [|? r ? lr0 Hc F3']; subst. inversion F2 as [|r' ? lr0' ? Hr F2']; subst.
    constructor; [eapply crop_of_rel; eauto|eapply IH; eauto].
Qed.

Lemma rf_size_of (f : rfile sample) W H :
  rf_bands f <> [] -> Forall (fun a => nr a = H /\ nc a = W) (rf_bands f) ->
  rf_width f = W /\ rf_height f = H.
Proof.
  unfold rf_width, rf_height. destruct (rf_bands f) as [|a l]; [congruence|].
  intros _ F. inversion F as [|? ? [H1 H2] ?]; subst. cbn. auto.
Qed.

(* the generated function with a ROI against the generated function without: the ROI dataset is
   the crop of the whole dataset to [first - margin, last + margin] clipped to the image *)
Lemma gen_roi_dataset xi r gf gr W H :
  rf_bands (xi_img xi) <> [] ->
  Forall (fun a => nr a = H /\ nc a = W) (rf_bands (xi_img xi)) ->
  let cf := r_col_first r in let cl := r_col_last r in
  let rf := r_row_first r in let rl := r_row_last r in
  let m0 := r_m_left r in let m1 := r_m_up r in let m2 := r_m_right r in let m3 := r_m_down r in
  cf - m0 <= cl + m2 -> rf - m1 <= rl + m3 ->
  G.create_dataset_from_inputs xi None = COk gf ->
  G.create_dataset_from_inputs xi (Some r) = COk gr ->
  (forall c, In c (x_col gr) <-> in_roi cf cl m0 m2 W c) /\
  (forall i, In i (x_row gr) <-> in_roi rf rl m1 m3 H i) /\
  x_col gf = zrange 0 W /\ x_row gf = zrange 0 H /\
  exists co ro w h,
    get_window cf cl rf rl m0 m1 m2 m3 W H = Window co ro w h /\
    x_col gr = zrange co w /\ x_row gr = zrange ro h /\
    Forall2 (crop_of co ro w h) (nd_bands (x_im gf)) (nd_bands (x_im gr)) /\
    x_band_im gr = x_band_im gf /\
    (forall i j, 0 <= i < h -> 0 <= j < w ->
                 class_at (x_msk gr) i j = class_at (x_msk gf) (ro + i) (co + j)) /\
    opt_rel (Forall2 (crop_of co ro w h)) (x_disparity gf) (x_disparity gr) /\
    x_band_classif gr = x_band_classif gf /\
    opt_rel (Forall2 (crop_of co ro w h)) (x_classif gf) (x_classif gr) /\
    opt_rel (crop_of co ro w h) (x_segm gf) (x_segm gr).
Proof.
  intros Hne Hshape cf cl rf rl m0 m1 m2 m3 Hc Hr Ef Er.
  destruct (gen_create_ok _ _ _ Ef) as [wf [Hwf [Rf _]]].
  destruct (gen_create_ok _ _ _ Er) as [wr [Hwr [Rr _]]].
  destruct wf; [contradiction|]. destruct wr as [[[[co ro] w] h]|]; [|contradiction].
  cbn in Hwr. destruct (rf_size_of _ _ _ Hne Hshape) as [EW EH]. rewrite EW, EH in Hwr.
  fold cf cl rf rl m0 m1 m2 m3 in Hwr.
  assert (Hne' : i_img (to_inputs xi) <> []) by exact Hne.
  assert (Hshape' : Forall (fun a => nr a = H /\ nc a = W) (i_img (to_inputs xi))) by exact Hshape.
  destruct (window_is_clipped_roi _ _ _ _ _ _ _ _ _ _ _ _ _ _ Hc Hr Hwr)
    as (Hw & Hh & Hco & Hro & HcoW & HroH & Hcols & Hrows).
  destruct (roi_read_is_crop (to_inputs xi) W H co ro w h Hne' Hshape' Hco Hro HcoW HroH)
    as ((Hfrow & Hfcol & Hrow & Hcol) & Him & Hbim & Hcls & Hdisp & Hclassif & Hsegm).
  cbv zeta in *.
  set (mf := create_dataset (to_inputs xi) None) in *.
  set (mr := create_dataset (to_inputs xi) (Some (co, ro, w, h))) in *.
  rewrite (rel_col _ _ Rr), (rel_row _ _ Rr), (rel_col _ _ Rf), (rel_row _ _ Rf), Hrow, Hcol.
  split; [intros c; rewrite In_zrange; apply Hcols|].
  split; [intros i; rewrite In_zrange; apply Hrows|].
  split; [exact Hfcol|]. split; [exact Hfrow|].
  exists co, ro, w, h. split; [exact Hwr|]. split; [reflexivity|]. split; [reflexivity|].
  split; [eapply Forall2_crop_rel; [apply (rel_im _ _ Rf)|apply (rel_im _ _ Rr)|exact Him]|].
  split; [rewrite (rel_band_im _ _ Rr), (rel_band_im _ _ Rf); exact Hbim|].
  split.
  { intros i j Hi Hj. rewrite (class_at_rel _ _ i j (rel_msk _ _ Rr)).
    rewrite (class_at_rel _ _ (ro + i) (co + j) (rel_msk _ _ Rf)). apply Hcls; assumption. }
  split.
  { pose proof (rel_disp _ _ Rf) as Df. pose proof (rel_disp _ _ Rr) as Dr.
    destruct (x_disparity gf) as [lf|], (d_disp mf) as [pf|]; cbn in Df; try contradiction;
      destruct (x_disparity gr) as [lr|], (d_disp mr) as [pr|]; cbn in Dr; try contradiction;
      cbn in Hdisp; try contradiction; cbn; auto.
    destruct Hdisp as [D1 D2]. unfold disp_rel in Df, Dr.
    eapply Forall2_crop_rel; [exact Df|exact Dr|]. constructor; [exact D1|]. constructor; [exact D2|]. constructor. }
  split.
  { rewrite (rel_band_classif _ _ Rr), (rel_band_classif _ _ Rf).
    destruct (d_classif mf) as [[nf bf]|], (d_classif mr) as [[nr0 br]|]; cbn in Hclassif;
      try contradiction; cbn; auto. destruct Hclassif as [Hn _]. cbn in Hn. congruence. }
  split.
  { pose proof (rel_classif _ _ Rf) as Cf. pose proof (rel_classif _ _ Rr) as Cr.
    destruct (d_classif mf) as [[nf bf]|], (d_classif mr) as [[nr0 br]|]; cbn in Hclassif;
      try contradiction;
      destruct (x_classif gf) as [lf|]; cbn in Cf; try contradiction;
      destruct (x_classif gr) as [lr|]; cbn in Cr; try contradiction; cbn; auto.
    destruct Hclassif as [_ Hb]. cbn in Hb. eapply Forall2_crop_rel; eauto. }
  { pose proof (rel_segm _ _ Rf) as Sf. pose proof (rel_segm _ _ Rr) as Sr.
    destruct (d_segm mf) as [sf|], (d_segm mr) as [sr|]; cbn in Hsegm; try contradiction;
      destruct (x_segm gf) as [af|]; cbn in Sf; try contradiction;
      destruct (x_segm gr) as [ar|]; cbn in Sr; try contradiction; cbn; auto.
    eapply crop_of_rel; eauto. }
Qed.

(* a ROI is refused by the generated function exactly when no pixel of the image lies in it (with its
   margins); nothing else is ever raised; without a ROI nothing is refused *)
Lemma gen_refused_iff_empty xi r :
  let cf := r_col_first r in let cl := r_col_last r in
  let rf := r_row_first r in let rl := r_row_last r in
  let m0 := r_m_left r in let m1 := r_m_up r in let m2 := r_m_right r in let m3 := r_m_down r in
  let W := rf_width (xi_img xi) in let H := rf_height (xi_img xi) in
  cf - m0 <= cl + m2 -> rf - m1 <= rl + m3 ->
  (G.create_dataset_from_inputs xi (Some r) = CRaiseOutside
   <-> ~ exists c i, in_roi cf cl m0 m2 W c /\ in_roi rf rl m1 m3 H i) /\
  G.create_dataset_from_inputs xi (Some r) <> CRaiseNegative /\
  exists g, G.create_dataset_from_inputs xi None = COk g.
Proof.
  intros cf cl rf rl m0 m1 m2 m3 W H Hc Hr.
  pose proof (gen_create_result xi (Some r)) as R. cbn [window_of] in R. fold cf cl rf rl m0 m1 m2 m3 W H in R.
  pose proof (gen_create_result xi None) as R0. cbn [window_of] in R0.
  destruct (window_refused_iff_empty cf cl rf rl m0 m1 m2 m3 W H Hc Hr) as [Hiff Hneg].
  split; [|split; [|exact R0]].
  - rewrite <- Hiff. destruct (get_window cf cl rf rl m0 m1 m2 m3 W H) as [co ro w h| |].
    + destruct R as [g R]. rewrite R. split; discriminate.
    + split; auto.
    + contradiction.
  - destruct (get_window cf cl rf rl m0 m1 m2 m3 W H) as [co ro w h| |].
    + destruct R as [g R]. rewrite R. discriminate.
    + rewrite R. discriminate.
    + contradiction.
Qed.

(* the out_dtype of every read, as the source has it now *)
Lemma gen_read_dtypes :
  G.read_dtypes =
  [("add_disparity"%string, DtFloat32); ("add_classif"%string, DtInt16); ("add_segm"%string, DtInt16);
   ("add_mask"%string, DtNative);
   ("create_dataset_from_inputs"%string, DtFloat32); ("create_dataset_from_inputs"%string, DtFloat32)].
Proof. reflexivity. Qed.
