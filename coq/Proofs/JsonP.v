(* Facts about Model/Json.v used by C19: an induction principle for jv, the REPRESENTATION
   INVARIANT that update_conf establishes whatever it is given (every dictionary of the result
   has each key once -- set_key never duplicates -- and no leaf is one of the three strings
   update_conf converts), and the shape of a merged dictionary (the keys of the dictionary
   merged into come first, in their order). *)
From Coq Require Import ZArith List Bool String Lia.
From Pandora Require Import Model.Json Model.Checker Proofs.CheckerP Proofs.SavedCfgP Proofs.RewriteP Proofs.IndicatorP.
Import ListNotations.
Open Scope string_scope.
Open Scope list_scope.

Section JvInd.
  Variable P : jv -> Prop.
  Hypothesis Hatom : forall v, match v with JList _ | JDict _ => False | _ => True end -> P v.
  Hypothesis Hlist : forall l, Forall P l -> P (JList l).
  Hypothesis Hdict : forall d, Forall (fun kv => P (snd kv)) d -> P (JDict d).

  Fixpoint jv_ind2 (v : jv) : P v :=
    match v with
    | JList l =>
      Hlist l ((fix go (l : list jv) : Forall P l :=
                  match l with [] => Forall_nil _ | x :: r => Forall_cons x (jv_ind2 x) (go r) end) l)
    | JDict d =>
      Hdict d ((fix go (d : dict) : Forall (fun kv => P (snd kv)) d :=
                  match d with
                  | [] => Forall_nil _
                  | (k, x) :: r => Forall_cons (k, x) (jv_ind2 x) (go r)
                  end) d)
    | JInt z => Hatom (JInt z) I
    | JFloat q => Hatom (JFloat q) I
    | JNan => Hatom JNan I
    | JInf b => Hatom (JInf b) I
    | JStr s => Hatom (JStr s) I
    | JBool b => Hatom (JBool b) I
    | JNull => Hatom JNull I
    end.
End JvInd.

(* ------------------------------------------------------------------ the invariant *)

(* every dictionary (at any depth below dictionaries) has each key once, every leaf is left
   alone by update_conf's conversion.  Lists are leaves for update_conf. *)
Fixpoint wfj (v : jv) : bool :=
  match v with
  | JDict d =>
    (fix all (d : dict) : bool := match d with [] => true | (_, x) :: r => wfj x && all r end) d
    && nodup_str (keys d)
  | _ => convfix v
  end.

Definition wfd (d : dict) : bool := forallb (fun kv => wfj (snd kv)) d && nodup_str (keys d).

Lemma wfj_dict d : wfj (JDict d) = wfd d.
Proof.
  unfold wfd. cbn [wfj]. f_equal. induction d as [|[k x] r IH]; [reflexivity|].
  cbn [forallb snd]. rewrite <- IH. reflexivity.
Qed.

Lemma wfd_lookup d k x : wfd d = true -> lookup k d = Some x -> wfj x = true.
Proof.
  unfold wfd. intros H L. apply andb_prop in H as [H _].
  induction d as [|[a b] d IH]; [discriminate|]. cbn in *. apply andb_prop in H as [H1 H2].
  destruct (String.eqb k a); [inversion L; subst; exact H1|exact (IH H2 L)].
Qed.

Lemma wfd_in d k x : wfd d = true -> In (k, x) d -> wfj x = true.
Proof.
  unfold wfd. intros H I. apply andb_prop in H as [H _]. rewrite forallb_forall in H. exact (H _ I).
Qed.

Lemma wfd_nodup d : wfd d = true -> nodup_str (keys d) = true.
Proof. unfold wfd. intro H. apply andb_prop in H. tauto. Qed.

Lemma wfd_set_key k v d : wfd d = true -> wfj v = true -> wfd (set_key k v d) = true.
Proof.
  unfold wfd. intros H V. apply andb_prop in H as [H N].
  rewrite (nodup_set_key k v d N), andb_true_r.
  apply forallb_set_key; [intros; exact V|exact H].
Qed.

Lemma conv_special_wf v : (forall d, v <> JDict d) -> wfj (conv_special v) = true.
Proof.
  intro N. destruct v; try reflexivity; [|exfalso; exact (N d eq_refl)].
  cbn [conv_special].
  destruct (String.eqb s "NaN") eqn:E1; [reflexivity|].
  destruct (String.eqb s "inf") eqn:E2; [reflexivity|].
  destruct (String.eqb s "-inf") eqn:E3; [reflexivity|].
  cbn. rewrite E1, E2, E3. reflexivity.
Qed.

Definition dv_ok (dv : option jv) : Prop := match dv with Some x => wfj x = true | None => True end.

Lemma merge_items_wf ud :
  Forall (fun kv => forall dv nv, merge_val dv (snd kv) = Some nv -> dv_ok dv -> wfj nv = true) ud ->
  forall acc r, merge_items ud acc = Some r -> wfd acc = true -> wfd r = true.
Proof.
  induction 1 as [|[k v] ud Hv _ IH]; intros acc r M A; cbn [merge_items] in M.
  - inversion M; subst; exact A.
  - destruct (merge_val (lookup k acc) v) as [nv|] eqn:E; [|discriminate].
    apply (IH _ _ M). apply wfd_set_key; [exact A|].
    apply (Hv _ _ E). unfold dv_ok. destruct (lookup k acc) as [x|] eqn:L; [|exact I].
    exact (wfd_lookup acc k x A L).
Qed.

(* WHATEVER the user value is, a value produced by update_conf's merge into a well-formed
   default satisfies the invariant *)
Lemma merge_val_wf : forall uv dv nv, merge_val dv uv = Some nv -> dv_ok dv -> wfj nv = true.
Proof.
  intro uv. induction uv as [v A|l _|ud IH] using jv_ind2; intros dv nv M O.
  - destruct v; try contradiction; cbn [merge_val] in M; injection M as <-; try reflexivity.
    apply (conv_special_wf (JStr s)); intros d' E; discriminate.
  - cbn [merge_val] in M. inversion M; subst. reflexivity.
  - rewrite merge_val_dict in M.
    destruct (merge_items ud (merge_base dv)) as [r|] eqn:E; [|discriminate]. inversion M; subst.
    rewrite wfj_dict. apply (merge_items_wf ud IH _ r E).
    destruct dv as [[| | | | | | | |dd]|]; try reflexivity.
    cbn [merge_base]. unfold dv_ok in O. rewrite wfj_dict in O. exact O.
Qed.

(* SINCE THE REPAIR of update_conf nothing raises: a dictionary given where the existing value
   is not a dictionary (or where there is none) is merged into an empty one *)
Lemma merge_items_total ud :
  Forall (fun kv => forall dv, exists nv, merge_val dv (snd kv) = Some nv) ud ->
  forall acc, exists r, merge_items ud acc = Some r.
Proof.
  induction 1 as [|[k v] ud Hv _ IH]; intro acc; cbn [merge_items]; [eauto|].
  destruct (Hv (lookup k acc)) as [nv E]. cbn [snd] in E. rewrite E. apply IH.
Qed.

Lemma merge_val_total : forall uv dv, exists nv, merge_val dv uv = Some nv.
Proof.
  intro uv. induction uv as [v A|l _|ud IH] using jv_ind2; intro dv.
  - destruct v; try contradiction; cbn [merge_val]; eauto.
  - cbn [merge_val]. eauto.
  - rewrite merge_val_dict. destruct (merge_items_total ud IH (merge_base dv)) as [r E]. rewrite E. eauto.
Qed.

Lemma update_conf_total def user : exists r, update_conf def user = Some r.
Proof.
  unfold update_conf. rewrite merge_val_dict. cbn [merge_base].
  assert (F : Forall (fun kv : string * jv => forall dv, exists nv, merge_val dv (snd kv) = Some nv) user).
  { apply Forall_forall. intros kv _ dv. apply merge_val_total. }
  destruct (merge_items_total user F def) as [r E]. rewrite E. eauto.
Qed.

Lemma update_conf_wf def user r : wfd def = true -> update_conf def user = Some r -> wfd r = true.
Proof.
  unfold update_conf. intros Wd H.
  destruct (merge_val (Some (JDict def)) (JDict user)) as [[| | | | | | | |d]|] eqn:E; try discriminate.
  inversion H; subst. rewrite <- wfj_dict. apply (merge_val_wf _ _ _ E). cbn [dv_ok]. rewrite wfj_dict. exact Wd.
Qed.

(* a well-formed dictionary of leaves is flat *)
Lemma wfd_leaves_flat d : wfd d = true -> forallb (fun kv => leafb (snd kv)) d = true -> flat d = true.
Proof.
  unfold wfd, flat. intros H L. apply andb_prop in H as [H N]. rewrite N, andb_true_r.
  rewrite forallb_forall in *. intros [k v] I. specialize (H _ I). specialize (L _ I). cbn in *.
  rewrite L. destruct v; try exact H. discriminate.
Qed.

Lemma wfd_clean d : wfd d = true -> clean d = true.
Proof.
  unfold wfd, clean. intro H. apply andb_prop in H as [H _]. apply negb_true_iff.
  induction d as [|[k v] d IH]; [reflexivity|]. cbn in *. apply andb_prop in H as [H1 H2].
  rewrite (IH H2), orb_false_r. destruct v; try reflexivity. cbn in *.
  apply negb_true_iff in H1. apply orb_false_iff in H1 as [H1 _]. apply orb_false_iff in H1 as [H1 _]. exact H1.
Qed.

(* ------------------------------------------------------------------ shape of a merge *)

Lemma merge_items_prefix ud : forall acc r, merge_items ud acc = Some r -> exists t, keys r = keys acc ++ t.
Proof.
  induction ud as [|[k v] ud IH]; intros acc r M; cbn [merge_items] in M.
  - inversion M; subst. exists []. rewrite app_nil_r. reflexivity.
  - destruct (merge_val (lookup k acc) v) as [nv|]; [|discriminate].
    destruct (IH _ _ M) as [t E]. rewrite keys_set_key in E.
    destruct (has_key k acc); [exists t; exact E|]. exists (k :: t). rewrite E, <- app_assoc. reflexivity.
Qed.

Lemma merge_leaf_is_leaf dv v nv : leafb v = true -> merge_val dv v = Some nv -> leafb nv = true.
Proof.
  intros L M. destruct v; try discriminate; cbn [merge_val] in M; inversion M; subst; try reflexivity.
  cbn [conv_special]. destruct (String.eqb s "NaN"); [reflexivity|].
  destruct (String.eqb s "inf"); [reflexivity|]. destruct (String.eqb s "-inf"); reflexivity.
Qed.

(* a key the user dictionary does not have keeps its value *)
Lemma merge_items_untouched k ud : forall acc r,
  mem_str k (keys ud) = false -> merge_items ud acc = Some r -> lookup k r = lookup k acc.
Proof.
  induction ud as [|[k' v] ud IH]; intros acc r N M; cbn [merge_items] in M.
  - inversion M; subst. reflexivity.
  - cbn [keys map fst mem_str] in N. apply orb_false_iff in N as [K N].
    destruct (merge_val (lookup k' acc) v) as [nv|]; [|discriminate].
    rewrite (IH _ _ N M). apply (lookup_set_key_other _ _ _ _ K).
Qed.

(* a key that holds a dictionary before and after: the earlier keys come first.  The user
   dictionary has each key once (a Python dict): with a repeated key, a scalar then a dictionary
   given for the same key would start a fresh dictionary (the scalar replaces the default, the
   dictionary then replaces the scalar). *)
Lemma merge_items_dict_prefix k ud : forall acc r a b,
  nodup_str (keys ud) = true ->
  merge_items ud acc = Some r -> lookup k acc = Some (JDict a) -> lookup k r = Some (JDict b) ->
  exists t, keys b = keys a ++ t.
Proof.
  induction ud as [|[k' v] ud IH]; intros acc r a b ND M La Lb; cbn [merge_items] in M.
  - inversion M; subst. rewrite La in Lb. inversion Lb; subst. exists []. rewrite app_nil_r. reflexivity.
  - cbn [keys map fst nodup_str] in ND. apply andb_prop in ND as [N1 ND]. apply negb_true_iff in N1.
    destruct (merge_val (lookup k' acc) v) as [nv|] eqn:E; [|discriminate].
    destruct (String.eqb k k') eqn:K.
    + apply String.eqb_eq in K. subst k'. rewrite La in E.
      pose proof (merge_items_untouched k ud _ r N1 M) as U. rewrite lookup_set_key in U.
      rewrite Lb in U. inversion U; subst nv. clear U.
      destruct (leafb v) eqn:Lv; [pose proof (merge_leaf_is_leaf _ _ _ Lv E); discriminate|].
      destruct v; try discriminate. rewrite merge_val_dict in E. cbn [merge_base] in E.
      destruct (merge_items d a) as [a'|] eqn:Ea; [|discriminate]. inversion E; subst a'.
      exact (merge_items_prefix d a b Ea).
    + apply (IH _ r a b ND M); [rewrite (lookup_set_key_other _ _ _ _ K); exact La|exact Lb].
Qed.

Lemma strs_eqb_refl a : strs_eqb a a = true.
Proof. induction a as [|x a IH]; [reflexivity|]. cbn. rewrite String.eqb_refl, IH. reflexivity. Qed.

Lemma prefix_extends (a s : dict) t : keys s = keys a ++ t -> extends a s = true.
Proof.
  intro E. unfold extends. rewrite E. rewrite firstn_app.
  replace (List.length a - List.length (keys a))%nat with 0%nat by (unfold keys; rewrite map_length; lia).
  cbn [firstn]. rewrite app_nil_r.
  replace (List.length a) with (List.length (keys a)) by (unfold keys; apply map_length).
  rewrite firstn_all. apply strs_eqb_refl.
Qed.
