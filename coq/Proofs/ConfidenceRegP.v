(* C12 -- interval bounds WITH regularisation still bracket the winner when the quantile is 1:
   composition of bounds_bracket_wta (un-regularised bounds of the pixel) with
   regularisation_q1_widens (quantile 1 can only widen). *)
From Coq Require Import ZArith QArith List Bool Lia Lqa.
From Pandora Require Import Model.Confidence Spec.Confidence Proofs.ConfidenceP.
Import ListNotations.
Open Scope Z_scope.

Lemma cell_mapmap {A B : Type} (f : A -> B) m r c : cell (map (map f) m) r c = option_map f (cell m r c).
Proof.
  unfold cell. rewrite nth_error_map'. destruct (nth_error m r) as [row|]; [|reflexivity].
  cbn [option_map]. apply nth_error_map'.
Qed.

(* what the interval_bounds step with regularisation writes (X12 fid 10: bounds_map then regularize) *)
Definition regularized_bounds (is_min : bool) (thr : Q) (disps : list Q) (v : volume)
           (amb : list (list Q)) (athr : Q) (k depth : Z) (q : Q) : list (list oq) * list (list oq) :=
  let bm := bounds_map (type_factor is_min) thr disps v in
  regularize (map (map fst) bm) (map (map snd) bm) amb athr k depth q.

Definition regularized_bracket_stmt : Prop :=
  forall (v : volume) a b is_min thr disps amb athr k depth q r c cur w,
    (* the volume has two distinct finite costs *)
    In (Some a) (concat (concat v)) -> In (Some b) (concat (concat v)) -> ~ (a == b)%Q ->
    (thr <= 1)%Q -> increasing disps ->
    (* quantile_regularization is exactly 1 *)
    (q == 1)%Q ->
    (* a valid pixel: its curve has a winner *)
    cell v r c = Some cur -> length disps = length cur -> wta is_min cur = Some w ->
    let res := regularized_bounds is_min thr disps v amb athr k depth q in
    exists yinf dw ysup,
      cell (fst res) r c = Some (Some yinf) /\ cell (snd res) r c = Some (Some ysup)
      /\ znth_error disps w = Some dw /\ (yinf <= dw)%Q /\ (dw <= ysup)%Q.

Lemma regularized_bracket : regularized_bracket_stmt.
Proof.
  intros v a b is_min thr disps amb athr k depth q r c cur w Ia Ib Ne Hthr Hinc Hq Hcell Hlen Hw res.
  destruct (maps_are_pixelwise v a b [] (type_factor is_min) thr disps Ia Ib Ne)
    as [mn [mx [_ [_ [Hlt [_ [_ Ebm]]]]]]].
  destruct (bounds_bracket_wta mn mx is_min thr disps cur w Hlt Hthr Hlen Hinc Hw)
    as [dinf [dw [dsup [Eb [Edw [L1 L2]]]]]].
  subst res. unfold regularized_bounds. rewrite Ebm.
  set (bm := map (map (bounds_pixel mn mx (type_factor is_min) thr disps)) v).
  assert (cell bm r c = Some (Some dinf, Some dsup)) as Cb
    by (unfold bm; rewrite cell_mapmap, Hcell; cbn [option_map]; rewrite Eb; reflexivity).
  destruct (regularisation_q1_widens (map (map fst) bm) (map (map snd) bm) amb athr k depth q r c Hq) as [Wi Ws].
  destruct (Wi dinf) as [yi [Ci Li]]; [rewrite cell_mapmap, Cb; reflexivity|].
  destruct (Ws dsup) as [ys [Cs Ls]]; [rewrite cell_mapmap, Cb; reflexivity|].
  exists yi, dw, ys. repeat split; auto; lra.
Qed.
