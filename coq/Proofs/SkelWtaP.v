(* C03 -- the double block loop of Model/Wta.v IS the skeleton that translator/gen_block_loops.py
   reads in argmin_split / argmax_split, for every skeleton accepted by
   BlockSkeleton.wta_skeleton_ok (the per-run obligation of Props/C03.v on Gen/BlockLoops.v). *)
From Coq Require Import ZArith QArith List Bool Lia.
From Pandora Require Import Lib.Ext Lib.Blocks Lib.BlockSkeleton Model.Wta.
Import ListNotations.
Open Scope Z_scope.

(* what the kernels of the skeleton mean in Model/Wta.v: disp_coords[np.argmin(chunk, axis=2)] at
   element (i, j) of the cost volume (after the NaN -> +-inf substitution of to_disp) *)
Definition wta_kernel (disps : list Q) (cv : Z -> Z -> list cost) (k : kernel) (i j : Z) : Q :=
  match k with
  | KArgminLookup => nth (np_argmin (map (subst false) (cv i j))) disps 0%Q
  | KArgmaxLookup => nth (np_argmax (map (subst true) (cv i j))) disps 0%Q
  | _ => 0%Q
  end.

Lemma wta_skeleton_ok_parts : forall mx sk, wta_skeleton_ok mx sk = true ->
  skeleton_wf sk = true /\ sk_oy_expr sk = EConst 0 /\ sk_ox_expr sk = EConst 0
  /\ exists w, sk_writes sk = [w] /\ w_kernel w = (if mx then KArgmaxLookup else KArgminLookup).
Proof.
  intros mx sk H. unfold wta_skeleton_ok in H. repeat rewrite andb_true_iff in H.
  destruct H as ((((H1 & H2) & H3) & _) & H5).
  apply expr_eqb_eq in H2, H3.
  destruct (sk_writes sk) as [|w [|]]; try discriminate.
  apply andb_true_iff in H5. destruct H5 as [_ H5]. apply kernel_eqb_eq in H5.
  repeat split; try assumption. exists w. split; [reflexivity | assumption].
Qed.

(* the parameters of the model's loop2 are the skeleton's own *)
Theorem wta_loop_params : forall mx sk, wta_skeleton_ok mx sk = true ->
  1 <= sk_B sk /\ (forall w, sk_oy w sk = 0) /\ (forall w, sk_ox w sk = 0).
Proof.
  intros mx sk Hok. destruct (wta_skeleton_ok_parts mx sk Hok) as (Hwf & Hy & Hx & _).
  unfold skeleton_wf in Hwf. repeat rewrite andb_true_iff in Hwf. destruct Hwf as (((Hs & _) & _) & _).
  destruct (splits_ok_blocks sk Hs) as (HB & _).
  unfold sk_oy, sk_ox. rewrite Hy, Hx. repeat split; auto.
Qed.

(* For every accepted skeleton, every volume / shape / measure / invalid value, every pair of
   np.arange stop values (ny, nx) and every initial environment: the disparity map of the model
   run at the skeleton's block size is, pixel by pixel, what EXECUTING THE SKELETON writes into
   its np.zeros output (an all-NaN pixel then receives invalid_disparity, as in to_disp). *)
Theorem wta_loop_is_skeleton : forall mx sk w nr nc disps invalid cv conf mask ny nx env0 r c,
  wta_skeleton_ok mx sk = true -> sk_writes sk = [w] -> 0 <= nr -> 0 <= nc ->
  o_disp (to_disp mx (sk_B sk) nr nc disps invalid cv conf mask) r c
  = if forallb (fun b : bool => b) (map is_nan (cv r c)) then invalid
    else Some (snd (exec (wta_kernel disps cv) 0 nr nc (w_target w) sk ny nx (env0, fun _ _ => 0%Q)) r c).
Proof.
  intros mx sk w nr nc disps invalid cv conf mask ny nx env0 r c Hok Hw Hnr Hnc.
  destruct (wta_skeleton_ok_parts mx sk Hok) as (Hwf & Hy & Hx & w' & Hw' & Hk).
  rewrite Hw in Hw'. injection Hw' as <-.
  cbn [to_disp o_disp]. destruct (forallb (fun b : bool => b) (map is_nan (cv r c))); [reflexivity|].
  f_equal.
  rewrite (exec_wf_loop2 _ (wta_kernel disps cv) 0 nr nc (w_target w) sk (w_kernel w) ny nx env0) ; try assumption.
  2:{ rewrite Hw. cbn [last_kernel]. destruct (aexp_eq_dec (w_target w) (w_target w)); [reflexivity | contradiction]. }
  destruct (wta_loop_params mx sk Hok) as (HB & _).
  unfold sk_oy, sk_ox. rewrite Hy, Hx. unfold eval0. cbn [eval].
  rewrite !loop2_spec by lia. rewrite Hk.
  destruct ((0 <=? r) && (r <? 0 + nr) && (0 <=? c) && (c <? 0 + nc)); [|reflexivity].
  destruct mx; reflexivity.
Qed.


Corollary wta_loop_is_skeleton_at : forall mx sk nr nc disps invalid cv conf mask ny nx env0 r c,
  wta_skeleton_ok mx sk = true -> 0 <= nr -> 0 <= nc ->
  o_disp (to_disp mx (sk_B sk) nr nc disps invalid cv conf mask) r c
  = if forallb (fun b : bool => b) (map is_nan (cv r c)) then invalid
    else Some (snd (exec (wta_kernel disps cv) 0 nr nc (sk_target 0 sk) sk ny nx (env0, fun _ _ => 0%Q)) r c).
Proof.
  intros mx sk nr nc disps invalid cv conf mask ny nx env0 r c Hok Hnr Hnc.
  destruct (wta_skeleton_ok_parts mx sk Hok) as (_ & _ & _ & w & Hw & _).
  unfold sk_target. rewrite Hw. cbn [nth_error]. apply wta_loop_is_skeleton; assumption.
Qed.
