(* Proofs about the matching-cost model: Model/MatchingCost.v = Spec/Cost.v (C02), and the
   interval statements of C09 that follow from it. *)
From Coq Require Import ZArith List Bool Lia ZifyBool QArith Qabs.
From Pandora Require Import Model.MatchingCost Spec.Cost.
Import ListNotations.
Open Scope Z_scope.

Ltac Zify.zify_post_hook ::= Z.to_euclidean_division_equations.

(* ------------------------------------------------------------------ ranges, memo tables *)

Lemma range_In : forall n lo x, In x (range lo n) <-> lo <= x < lo + Z.of_nat n.
Proof.
  induction n; intros lo x; cbn [range In].
  - lia.
  - rewrite IHn. lia.
Qed.

Lemma zrange_In : forall lo n x, In x (zrange lo n) <-> lo <= x < lo + Z.max 0 n.
Proof. intros. unfold zrange. rewrite range_In. lia. Qed.

Lemma range_shift : forall {A} (f : Z -> A) n lo,
  map f (range lo n) = map (fun x => f (x + lo)) (range 0 n).
Proof.
  intros A f n. revert f. induction n; intros f lo; cbn [range map]; [reflexivity|].
  f_equal. rewrite (IHn f (lo + 1)). rewrite (IHn (fun x => f (x + lo)) (0 + 1)).
  apply map_ext. intros. f_equal. lia.
Qed.

Lemma nth_error_range : forall n lo k, (k < n)%nat -> nth_error (range lo n) k = Some (lo + Z.of_nat k).
Proof.
  induction n; intros lo k H; [lia|]. destruct k; cbn [range nth_error].
  - f_equal. lia.
  - rewrite IHn by lia. f_equal. lia.
Qed.

Lemma zseq_range : forall n lo, zseq lo n = range lo n.
Proof. induction n; intros; cbn [zseq range]; [reflexivity|]. now rewrite IHn. Qed.

Lemma memo1_eq : forall {A} n (f : Z -> A) i, memo1 n f i = f i.
Proof.
  intros A n f i. unfold memo1. destruct (i <? 0) eqn:E; [reflexivity|].
  destruct (nth_error (map f (zrange 0 n)) (Z.to_nat i)) eqn:N; [|reflexivity].
  rewrite nth_error_map in N. unfold zrange in N.
  destruct (Nat.lt_ge_cases (Z.to_nat i) (Z.to_nat n)) as [H|H].
  - rewrite nth_error_range in N by exact H. cbn in N. inversion N. f_equal. lia.
  - assert (X : nth_error (range 0 (Z.to_nat n)) (Z.to_nat i) = None).
    { apply nth_error_None. clear -H. revert H. generalize (Z.to_nat i). generalize 0.
      induction (Z.to_nat n); intros; cbn [range length]; [lia|]. destruct n1; [lia|].
      specialize (IHn0 (z + 1) n1). cbn [length] in *. lia. }
    rewrite X in N. discriminate.
Qed.

Lemma memo2_eq : forall {A} n1 n2 (f : Z -> Z -> A) a b, memo2 n1 n2 f a b = f a b.
Proof. intros. unfold memo2. rewrite memo1_eq. now rewrite memo1_eq. Qed.
Lemma memo3_eq : forall {A} n1 n2 n3 (f : Z -> Z -> Z -> A) a b c, memo3 n1 n2 n3 f a b c = f a b c.
Proof. intros. unfold memo3. rewrite memo1_eq. now rewrite memo2_eq. Qed.

(* ------------------------------------------------------------------ sums *)


Lemma osum_if : forall {X} (f : X -> option Z) (p : X -> bool) (g : X -> Z) l,
  (forall x, In x l -> f x = if p x then Some (g x) else None) ->
  osum (map f l) = if forallb p l then Some (zsum (map g l)) else None.
Proof.
  induction l; intros H; cbn [map forallb zsum]; [reflexivity|].
  change (osum (f a :: map f l)) with (oadd (f a) (osum (map f l))).
  rewrite IHl by (intros; apply H; now right).
  rewrite (H a) by now left. destruct (p a); cbn [andb oadd]; [|reflexivity].
  destruct (forallb p l); reflexivity.
Qed.

Lemma zsum_map_ext : forall {X} (f g : X -> Z) l,
  (forall x, In x l -> f x = g x) -> zsum (map f l) = zsum (map g l).
Proof.
  induction l; intros H; cbn [map zsum]; [reflexivity|].
  rewrite H by now left. rewrite IHl; [reflexivity|].
  intros; apply H; now right.
Qed.

Lemma zsum_map_add : forall {X} (f g : X -> Z) l,
  zsum (map (fun x => f x + g x) l) = zsum (map f l) + zsum (map g l).
Proof. induction l; cbn [map zsum]; lia. Qed.

Lemma zsum_map_zero : forall {X} (l : list X), zsum (map (fun _ => 0) l) = 0.
Proof. induction l; cbn [map zsum]; lia. Qed.

Lemma zsum_swap : forall {X Y} (f : X -> Y -> Z) l1 l2,
  zsum (map (fun a => zsum (map (fun b => f a b) l2)) l1)
  = zsum (map (fun b => zsum (map (fun a => f a b) l1)) l2).
Proof.
  induction l1; intros l2; cbn [map zsum].
  - symmetry. apply zsum_map_zero.
  - rewrite IHl1. rewrite <- zsum_map_add. reflexivity.
Qed.

Lemma forallb_ext_in : forall {X} (p q : X -> bool) l,
  (forall x, In x l -> p x = q x) -> forallb p l = forallb q l.
Proof.
  induction l; intros H; cbn [forallb]; [reflexivity|].
  rewrite H by now left. rewrite IHl; [reflexivity|]. intros; apply H; now right.
Qed.

Lemma forallb_andb : forall {X} (p q : X -> bool) l,
  forallb (fun x => p x && q x) l = forallb p l && forallb q l.
Proof.
  induction l; cbn [forallb]; [reflexivity|]. rewrite IHl.
  destruct (p a), (q a), (forallb p l), (forallb q l); reflexivity.
Qed.

Lemma existsb_negb_forallb : forall {X} (p : X -> bool) l,
  existsb p l = negb (forallb (fun x => negb (p x)) l).
Proof.
  induction l; cbn [existsb forallb]; [reflexivity|]. rewrite IHl.
  destruct (p a); cbn; [reflexivity|]. reflexivity.
Qed.

(* a window condition "lo <= x + a < hi for every a of the window" is a condition on its two ends *)
Lemma forallb_window : forall lo hi x off w,
  w = 2 * off + 1 -> 0 <= off ->
  forallb (fun a => (lo <=? x + a) && (x + a <? hi)) (zrange (- off) w)
  = (lo <=? x - off) && (x + off <? hi).
Proof.
  intros lo hi x off w Hw Hoff. apply eq_iff_eq_true. rewrite forallb_forall. split.
  - intros H. pose proof (H (- off)) as H1. pose proof (H off) as H2.
    rewrite zrange_In in H1, H2. lia.
  - intros H a Ha. rewrite zrange_In in Ha. lia.
Qed.

(* ------------------------------------------------------------------ point_interval *)

Lemma ceil_floor : forall D s, 0 < s -> - ((- D) / s) = if D mod s =? 0 then D / s else D / s + 1.
Proof.
  intros D s Hs. destruct (D mod s =? 0) eqn:E.
  - rewrite Z.div_opp_l_z by lia. lia.
  - rewrite Z.div_opp_l_nz by lia. lia.
Qed.

(* normal form of point_interval: q = floor d, cq = ceil d *)
Lemma point_interval_nf : forall s nxl nxr D, 0 < s ->
  point_interval s nxl nxr D =
  let q := D / s in let cq := - ((- D) / s) in
  if D <? 0 then ((- q, Z.max (- q) nxl), (0, Z.max 0 (nxr + cq)))
  else ((0, Z.max 0 (nxl - cq)), (q, Z.max q nxr)).
Proof.
  intros s nxl nxr D Hs. unfold point_interval, ceil_div, floor_div. cbv zeta.
  destruct (D <? 0) eqn:E; cbv beta.
  - replace (Z.max (0 - D) 0) with (- D) by lia.
    replace (Z.min (nxl * s - D) (nxl * s)) with (nxl * s) by lia.
    replace (Z.max (0 + D) 0) with 0 by lia.
    replace (Z.min (nxr * s + D) (nxr * s)) with (nxr * s + D) by lia.
    rewrite Z.opp_involutive.
    replace (- (nxl * s)) with ((- nxl) * s) by lia. rewrite Z.div_mul by lia.
    replace (- (nxr * s + D)) with ((- nxr) * s + - D) by lia. rewrite Z.div_add_l by lia.
    change (- 0) with 0. rewrite Z.div_0_l by lia.
    f_equal; f_equal; lia.
  - replace (Z.max (0 - D) 0) with 0 by lia.
    replace (Z.min (nxl * s - D) (nxl * s)) with (nxl * s - D) by lia.
    replace (Z.max (0 + D) 0) with D by lia.
    replace (Z.min (nxr * s + D) (nxr * s)) with (nxr * s) by lia.
    rewrite Z.div_0_l by lia. rewrite Z.div_mul by lia.
    replace (nxl * s - D) with (nxl * s + - D) by lia. rewrite Z.div_add_l by lia.
    f_equal; f_equal; lia.
Qed.

Section PointInterval.
  Variables (s nx D : Z).
  Hypothesis Hs : 0 < s.
  Let i := i_right s D.
  Let pq := point_interval s nx (shift_width nx i) D.
  Let p0 := fst (fst pq). Let p1 := snd (fst pq).
  Let q0 := fst (snd pq). Let q1 := snd (snd pq).

  Ltac pi_tac :=
    subst p0 p1 q0 q1 pq i; rewrite point_interval_nf by exact Hs; cbv zeta;
    rewrite (ceil_floor D s Hs); unfold shift_width, i_right;
    assert (D < 0 -> D / s < 0) by (intros; apply Z.div_lt_upper_bound; lia);
    assert (0 <= D -> 0 <= D / s) by (intros; apply Z.div_pos; lia);
    destruct (D <? 0) eqn:E; destruct (D mod s =? 0) eqn:E2; cbn [fst snd]; try lia.

  (* the column matched with left column c in the resampled right image i is c + floor d *)
  Lemma pi_offset : q0 - p0 = D / s.
  Proof. pi_tac. Qed.

  (* both ranges have the same length (no broadcasting error in the slice assignment) *)
  Lemma pi_same_length : p1 - p0 = q1 - q0.
  Proof. pi_tac. Qed.

  Lemma pi_bounds : 0 <= p0 /\ p1 <= Z.max p0 nx /\ 0 <= q0.
  Proof. pi_tac. Qed.

  (* point_interval_spec: left column c is in the left range iff the columns floor(c + d) and
     ceil(c + d) are inside the right image *)
  Lemma pi_spec : forall c, 0 <= c < nx ->
    (p0 <= c < p1 <-> 0 <= c + D / s /\ c + - ((- D) / s) <= nx - 1).
  Proof. intros c Hc. pi_tac. Qed.
End PointInterval.

Definition PI (s nx D : Z) := point_interval s nx (shift_width nx (i_right s D)) D.
Definition p0_ s nx D := fst (fst (PI s nx D)).
Definition p1_ s nx D := snd (fst (PI s nx D)).
Definition q0_ s nx D := fst (snd (PI s nx D)).
Definition q1_ s nx D := snd (snd (PI s nx D)).

(* ------------------------------------------------------------------ cv_masked: the loop over the disparities *)

Section MaskFold.
  Context {A : Type}.
  Variables (s nx dmin : Z) (ml : Z -> Z -> bool) (mr : Z -> Z -> Z -> bool).

  Definition mask_fun (k r c : Z) (v : option A) : option A :=
    let D := disp_scaled s dmin k in
    if (p0_ s nx D <=? c) && (c <? p1_ s nx D)
    then let v' := omask v (ml r c) in
         if q0_ s nx D <? q1_ s nx D
         then omask v' (mr (Z.min 1 (i_right s D)) r (q0_ s nx D + (c - p0_ s nx D))) else v'
    else v.

  Lemma mask_step_eq : forall cv k r c j,
    mask_step s nx dmin ml mr cv k r c j = if j =? k then mask_fun k r c (cv r c j) else cv r c j.
  Proof.
    intros. unfold mask_step, mask_fun, p0_, p1_, q0_, q1_, PI.
    destruct (point_interval s nx (shift_width nx (i_right s (disp_scaled s dmin k))) (disp_scaled s dmin k))
      as [[p0 p1] [q0 q1]]. cbn [fst snd].
    unfold dsp_index, disp_scaled. replace (dmin * s + k - dmin * s) with k by lia.
    destruct (j =? k); reflexivity.
  Qed.

  (* every plane receives the masks of its own disparity, once: dsp is the index of the sample *)
  Lemma mask_fold_eq : forall n lo cv r c j,
    fold_left (mask_step s nx dmin ml mr) (range lo n) cv r c j
    = if (lo <=? j) && (j <? lo + Z.of_nat n) then mask_fun j r c (cv r c j) else cv r c j.
  Proof.
    induction n; intros lo cv r c j; cbn [range fold_left].
    - destruct ((lo <=? j) && (j <? lo + Z.of_nat 0)) eqn:E; [lia|reflexivity].
    - rewrite IHn. rewrite mask_step_eq.
      destruct (Z.eqb_spec j lo) as [->|Hne].
      + destruct ((lo + 1 <=? lo) && (lo <? lo + 1 + Z.of_nat n)) eqn:E1; [lia|].
        destruct ((lo <=? lo) && (lo <? lo + Z.of_nat (S n))) eqn:E2; [reflexivity|lia].
      + destruct ((lo + 1 <=? j) && (j <? lo + 1 + Z.of_nat n)) eqn:E1;
        destruct ((lo <=? j) && (j <? lo + Z.of_nat (S n))) eqn:E2; try reflexivity; lia.
  Qed.
End MaskFold.

(* ------------------------------------------------------------------ SAD / SSD planes *)

Lemma pixel_wise_plane_eq : forall pw s ny nx off L Rs D x y,
  pixel_wise_plane pw s ny nx off L Rs D x y =
  let c := x - off in let r := y - off in
  if (p0_ s nx D <=? c) && (c <? p1_ s nx D) && (0 <=? r) && (r <? ny)
  then Some (pw (s * L r c) (Rs (i_right s D) r (q0_ s nx D + (c - p0_ s nx D)))) else None.
Proof.
  intros. unfold pixel_wise_plane, p0_, p1_, q0_, PI.
  destruct (point_interval s nx (shift_width nx (i_right s D)) D) as [[p0 p1] [q0 q1]]. reflexivity.
Qed.

(* the window of pixel (r, c) lies in the part of the plane that was computed *)
Definition allin (s ny nx w D r c : Z) : bool :=
  let off := offset w in
  forallb (fun a => forallb (fun b =>
     (p0_ s nx D <=? c + a - off) && (c + a - off <? p1_ s nx D) && (0 <=? r + b - off) && (r + b - off <? ny))
     (zrange 0 w)) (zrange 0 w).
Definition not_border (ny nx off r c : Z) : bool :=
  negb ((0 <? off) && ((r <? off) || (ny - off <=? r) || (c <? off) || (nx - off <=? c))).
(* sum over the window of the pixel-wise costs (columns outside, rows inside, as np.sum does) *)
Definition win_sum (pw : Z -> Z -> Z) (s nx w : Z) (L : img) (Rs : Z -> img) (D r c : Z) : Z :=
  let off := offset w in
  zsum (map (fun a => zsum (map (fun b =>
     pw (s * L (r + b - off) (c + a - off))
        (Rs (i_right s D) (r + b - off) (q0_ s nx D + (c + a - off - p0_ s nx D))))
     (zrange 0 w))) (zrange 0 w)).

Lemma sadssd_plane_eq : forall pw inp Rs D r c,
  sadssd_plane pw inp Rs D r c =
  if not_border (i_ny inp) (i_nx inp) (offset (i_w inp)) r c
     && allin (i_s inp) (i_ny inp) (i_nx inp) (i_w inp) D r c
  then Some (win_sum pw (i_s inp) (i_nx inp) (i_w inp) (i_L inp) Rs D r c) else None.
Proof.
  intros. unfold sadssd_plane, renan, not_border, aggregate, allin, win_sum. cbv zeta.
  set (off := offset (i_w inp)).
  destruct ((0 <? off) && ((r <? off) || (i_ny inp - off <=? r) || (c <? off) || (i_nx inp - off <=? c)));
    cbn [negb andb]; [reflexivity|].
  rewrite (osum_if _
     (fun a => forallb (fun b => (p0_ (i_s inp) (i_nx inp) D <=? c + a - off) && (c + a - off <? p1_ (i_s inp) (i_nx inp) D)
                                 && (0 <=? r + b - off) && (r + b - off <? i_ny inp)) (zrange 0 (i_w inp)))
     (fun a => zsum (map (fun b => pw (i_s inp * i_L inp (r + b - off) (c + a - off))
                                      (Rs (i_right (i_s inp) D) (r + b - off)
                                          (q0_ (i_s inp) (i_nx inp) D + (c + a - off - p0_ (i_s inp) (i_nx inp) D))))
                         (zrange 0 (i_w inp))))).
  - reflexivity.
  - intros a _. apply osum_if. intros b _.
    rewrite memo2_eq. rewrite pixel_wise_plane_eq. cbv zeta. reflexivity.
Qed.

(* ------------------------------------------------------------------ window conditions *)

Lemma odd_offset : forall w, 0 < w -> Z.odd w = true -> w = 2 * offset w + 1 /\ 0 <= offset w.
Proof. intros w H O. unfold offset. pose proof (Zmod_odd w) as M. rewrite O in M. lia. Qed.

Lemma win_In : forall w a, 0 < w -> Z.odd w = true -> (In a (win w) <-> - offset w <= a <= offset w).
Proof.
  intros w a H O. unfold win. rewrite zseq_range, range_In. change (half w) with (offset w).
  destruct (odd_offset w H O). lia.
Qed.

Lemma win_zrange : forall w, win w = zrange (- offset w) w.
Proof. intros. unfold win, zrange. now rewrite zseq_range. Qed.

Lemma forall_win_true : forall w p,
  forall_win w p = true <-> (forall a b, In a (win w) -> In b (win w) -> p a b = true).
Proof.
  intros. unfold forall_win. rewrite forallb_forall. split.
  - intros H a b Ha Hb. specialize (H a Ha). rewrite forallb_forall in H. now apply H.
  - intros H a Ha. rewrite forallb_forall. intros b Hb. now apply H.
Qed.

Lemma existsb_false : forall {X} (p : X -> bool) l, existsb p l = false <-> (forall x, In x l -> p x = false).
Proof.
  induction l; cbn [existsb In]; [tauto|]. rewrite orb_false_iff, IHl. split.
  - intros [H1 H2] x [->|Hx]; auto.
  - intros H. split; [apply H; now left|]. intros; apply H; now right.
Qed.

Lemma dilate_false : forall ny nx w nd m r c,
  dilate ny nx w nd m r c = false <->
  (forall a b, In a (win w) -> In b (win w) -> inside ny nx (r + a) (c + b) && (m (r + a) (c + b) =? nd) = false).
Proof.
  intros. unfold dilate. cbv zeta. rewrite <- win_zrange. rewrite existsb_false. split.
  - intros H a b Ha Hb. specialize (H a Ha). rewrite existsb_false in H. now apply H.
  - intros H a Ha. rewrite existsb_false. intros b Hb. now apply H.
Qed.

Lemma omask_None : forall {A} b, @omask A None b = None.
Proof. intros A []; reflexivity. Qed.

Section Cell.
  Variable inp : mc_input.
  Let ny := i_ny inp. Let nx := i_nx inp. Let w := i_w inp. Let s := i_s inp.
  Let off := offset w.
  Hypothesis Hw : 0 < w.
  Hypothesis Hodd : Z.odd w = true.
  Hypothesis Hs : 0 < s.

  Let Hw2 : w = 2 * off + 1 /\ 0 <= off := odd_offset w Hw Hodd.

  (* both windows inside their image, as arithmetic on the window ends: q = floor d, cq = ceil d *)
  Definition WI (r c D : Z) : Prop :=
    off <= r < ny - off /\ off <= c < nx - off /\ 0 <= c - off + D / s /\ c + off + - ((- D) / s) <= nx - 1.

  Lemma model_windows : forall r c D, 0 <= r < ny -> 0 <= c < nx ->
    (not_border ny nx off r c && allin s ny nx w D r c = true <-> WI r c D).
  Proof.
    intros r c D Hr Hc. unfold WI, not_border, allin. fold off. cbv zeta.
    pose proof (pi_bounds s nx D Hs) as PB. cbv zeta in PB. fold (PI s nx D) in PB.
    fold (p0_ s nx D) (p1_ s nx D) (q0_ s nx D) in PB.
    assert (PS := fun c => pi_spec s nx D Hs c). cbv zeta in PS. fold (PI s nx D) in PS.
    fold (p0_ s nx D) (p1_ s nx D) in PS.
    rewrite andb_true_iff, forallb_forall. split.
    - intros [NB H].
      assert (H0 := H 0). assert (H1 := H (w - 1)).
      rewrite zrange_In in H0, H1. specialize (H0 ltac:(lia)). specialize (H1 ltac:(lia)).
      rewrite forallb_forall in H0, H1.
      specialize (H0 0). specialize (H1 (w - 1)). rewrite zrange_In in H0, H1.
      specialize (H0 ltac:(lia)). specialize (H1 ltac:(lia)).
      assert (A1 := PS (c - off)). assert (A2 := PS (c + off)). lia.
    - intros W. split; [lia|]. intros a Ha. rewrite zrange_In in Ha. rewrite forallb_forall.
      intros b Hb. rewrite zrange_In in Hb.
      assert (A1 := PS (c + a - off)). pose proof (ceil_floor D s Hs) as CF.
      destruct (D mod s =? 0); lia.
  Qed.

  Lemma spec_windows : forall r c D,
    ((forall a b, In a (win w) -> In b (win w) ->
        in_image ny nx (r + a) (c + b) = true /\ in_image ny nx (r + a) (c + b + dfloor s D) = true
        /\ in_image ny nx (r + a) (c + b + dceil s D) = true) <-> WI r c D).
  Proof.
    intros r c D. unfold WI, in_image, dfloor, dceil.
    pose proof (ceil_floor D s Hs) as CF. split.
    - intros H.
      assert (I0 : In (- off) (win w)) by (apply (win_In w _ Hw Hodd); fold off; lia).
      assert (I1 : In off (win w)) by (apply (win_In w _ Hw Hodd); fold off; lia).
      assert (H0 := H (- off) (- off) I0 I0). assert (H1 := H off off I1 I1).
      destruct (D mod s =? 0); lia.
    - intros W a b Ha Hb. rewrite (win_In w a Hw Hodd) in Ha. rewrite (win_In w b Hw Hodd) in Hb. fold off in Ha, Hb.
      destruct (D mod s =? 0); lia.
  Qed.

  (* ---- the dilated masks, for a pixel whose window is inside the image *)
  Lemma mask_nan_false : forall m r c, off <= r < ny - off -> off <= c < nx - off ->
    (mask_nan ny nx w (i_vp inp) (i_nd inp) m r c = false <->
     is_invalid (i_vp inp) (i_nd inp) m r c = false /\
     (forall a b, In a (win w) -> In b (win w) -> is_nodata (i_nd inp) m (r + a) (c + b) = false)).
  Proof.
    intros m r c Hr Hc. unfold mask_nan, is_invalid, is_nodata. destruct m as [m|]; [|tauto].
    rewrite orb_false_iff, dilate_false. unfold invalid_px. split.
    - intros [H1 H2]. split; [exact H1|]. intros a b Ha Hb. specialize (H2 a b Ha Hb).
      rewrite (win_In w a Hw Hodd) in Ha. rewrite (win_In w b Hw Hodd) in Hb. fold off in Ha, Hb. unfold inside in H2. lia.
    - intros [H1 H2]. split; [exact H1|]. intros a b Ha Hb. specialize (H2 a b Ha Hb). lia.
  Qed.

  (* value of the right mask used for left column c and disparity D *)
  Definition mask_right_val (r c D : Z) : bool :=
    let m := mask_nan ny nx w (i_vp inp) (i_nd inp) (i_mR inp) in
    if D mod s =? 0 then m r (c + D / s) else m r (c + D / s) || m r (c + D / s + 1).

  (* closed form of the Some-condition of the model *)
  Definition model_cond (r c D : Z) : bool :=
    negb ((D <? i_gmin inp r c * s) || (i_gmax inp r c * s <? D))
    && (not_border ny nx off r c && allin s ny nx w D r c)
    && negb (mask_nan ny nx w (i_vp inp) (i_nd inp) (i_mL inp) r c)
    && negb (mask_right_val r c D).

  Lemma cv_masked_eq : forall {A} dmin dmax (cv : Z -> Z -> Z -> option A) r c k (z : A),
    0 <= r < ny -> 0 <= c < nx -> 0 <= k < nb_disp s dmin dmax ->
    let D := disp_scaled s dmin k in
    cv r c k = (if not_border ny nx off r c && allin s ny nx w D r c then Some z else None) ->
    cv_masked inp dmin dmax cv r c k = if model_cond r c D then Some z else None.
  Proof.
    intros A dmin dmax cv r c k z Hr Hc Hk D Hcv.
    unfold cv_masked. cbv zeta. fold ny nx w s. unfold mask_interval. fold D.
    unfold model_cond.
    destruct ((D <? i_gmin inp r c * s) || (i_gmax inp r c * s <? D)); cbn [negb andb]; [reflexivity|].
    unfold zrange. rewrite mask_fold_eq.
    destruct ((0 <=? k) && (k <? 0 + Z.of_nat (Z.to_nat (nb_disp s dmin dmax)))) eqn:E; [|lia].
    rewrite Hcv. unfold mask_fun. fold D.
    destruct (not_border ny nx off r c && allin s ny nx w D r c) eqn:W; cbn [andb].
    - apply model_windows in W; [|assumption|assumption]. unfold WI in W.
      pose proof (pi_spec s nx D Hs c Hc) as PS. cbv zeta in PS. fold (PI s nx D) in PS.
      fold (p0_ s nx D) (p1_ s nx D) in PS.
      pose proof (pi_same_length s nx D Hs) as PL. cbv zeta in PL. fold (PI s nx D) in PL.
      fold (p0_ s nx D) (p1_ s nx D) (q0_ s nx D) (q1_ s nx D) in PL.
      pose proof (pi_offset s nx D Hs) as PO. cbv zeta in PO. fold (PI s nx D) in PO.
      fold (p0_ s nx D) (q0_ s nx D) in PO.
      pose proof (ceil_floor D s Hs) as CF.
      assert (P : (p0_ s nx D <=? c) && (c <? p1_ s nx D) = true) by (destruct (D mod s =? 0); lia).
      rewrite P.
      assert (Q : (q0_ s nx D <? q1_ s nx D) = true) by lia. rewrite Q.
      rewrite memo2_eq.
      replace (q0_ s nx D + (c - p0_ s nx D)) with (c + D / s) by lia.
      unfold mask_right_val. cbv zeta. unfold i_right.
      destruct (mask_nan ny nx w (i_vp inp) (i_nd inp) (i_mL inp) r c); cbn [omask negb andb]; [apply omask_None|].
      destruct (D mod s =? 0) eqn:E0.
      + replace (D mod s) with 0 by lia. change (Z.min 1 0 =? 0) with true. cbv iota.
        rewrite memo2_eq.
        destruct (mask_nan ny nx w (i_vp inp) (i_nd inp) (i_mR inp) r (c + D / s)); reflexivity.
      + assert (Z.min 1 (D mod s) = 1) as -> by lia. change (1 =? 0) with false. cbv iota.
        rewrite memo2_eq. unfold mask_shift. rewrite !memo2_eq.
        destruct (mask_nan ny nx w (i_vp inp) (i_nd inp) (i_mR inp) r (c + D / s)
                  || mask_nan ny nx w (i_vp inp) (i_nd inp) (i_mR inp) r (c + D / s + 1)); reflexivity.
    - destruct ((p0_ s nx D <=? c) && (c <? p1_ s nx D)); [|reflexivity].
      cbv zeta. destruct (memo2 ny nx (mask_nan ny nx w (i_vp inp) (i_nd inp) (i_mL inp)) r c); cbn [omask];
      destruct (q0_ s nx D <? q1_ s nx D); try reflexivity; apply omask_None.
  Qed.

  (* the Some-condition of the model is the computability of the spec *)
  Lemma model_cond_computable : forall r c D, 0 <= r < ny -> 0 <= c < nx ->
    model_cond r c D =
    computable ny nx w s (i_mL inp) (i_mR inp) (i_vp inp) (i_nd inp) (i_gmin inp) (i_gmax inp) r c D.
  Proof.
    intros r c D Hr Hc. apply eq_iff_eq_true.
    unfold model_cond, computable, left_window_ok, right_window_ok, centres_ok, in_interval.
    set (NBA := not_border ny nx off r c && allin s ny nx w D r c).
    rewrite !andb_true_iff, !negb_true_iff, !forall_win_true.
    subst NBA. rewrite (model_windows r c D Hr Hc). rewrite <- (spec_windows r c D).
    pose proof (ceil_floor D s Hs) as CF. unfold mask_right_val. cbv zeta.
    split.
    - intros [[[HI W] ML] MR].
      assert (W' := proj1 (spec_windows r c D) W). unfold WI in W'.
      apply mask_nan_false in ML; [|lia|lia]. destruct ML as [ML1 ML2].
      assert (MRf : is_invalid (i_vp inp) (i_nd inp) (i_mR inp) r (c + dfloor s D) = false /\
                    is_invalid (i_vp inp) (i_nd inp) (i_mR inp) r (c + dceil s D) = false /\
                    forall a b, In a (win w) -> In b (win w) ->
                      is_nodata (i_nd inp) (i_mR inp) (r + a) (c + b + dfloor s D) = false /\
                      is_nodata (i_nd inp) (i_mR inp) (r + a) (c + b + dceil s D) = false).
      { unfold dfloor, dceil. rewrite CF. destruct (D mod s =? 0) eqn:E0.
        - apply mask_nan_false in MR; [|lia|lia]. destruct MR as [M1 M2].
          repeat split; try assumption; replace (c + b + D / s) with (c + D / s + b) by lia; now apply M2.
        - apply orb_false_iff in MR. destruct MR as [MRa MRb].
          apply mask_nan_false in MRa; [|lia|lia]. apply mask_nan_false in MRb; [|lia|lia].
          destruct MRa as [M1 M2], MRb as [M3 M4].
          replace (c + (D / s + 1)) with (c + D / s + 1) by lia.
          repeat split; try assumption.
          + replace (c + b + D / s) with (c + D / s + b) by lia; now apply M2.
          + replace (c + b + (D / s + 1)) with (c + D / s + 1 + b) by lia; now apply M4. }
      destruct MRf as [R1 [R2 R3]].
      repeat split.
      + intros a b Ha Hb. destruct (W a b Ha Hb) as [I1 _]. rewrite I1, (ML2 a b Ha Hb). reflexivity.
      + intros a b Ha Hb. destruct (W a b Ha Hb) as [_ [I2 I3]]. destruct (R3 a b Ha Hb) as [N1 N2].
        rewrite I2, I3, N1, N2. reflexivity.
      + rewrite ML1. reflexivity.
      + rewrite R1. reflexivity.
      + rewrite R2. reflexivity.
      + lia.
      + lia.
    - intros [[[LW RW] [[CL CR1] CR2]] HI].
      assert (W : forall a b, In a (win w) -> In b (win w) ->
                  in_image ny nx (r + a) (c + b) = true /\ in_image ny nx (r + a) (c + b + dfloor s D) = true
                  /\ in_image ny nx (r + a) (c + b + dceil s D) = true).
      { intros a b Ha Hb. specialize (LW a b Ha Hb). specialize (RW a b Ha Hb).
        rewrite !andb_true_iff in LW. rewrite !andb_true_iff in RW. tauto. }
      assert (W' := proj1 (spec_windows r c D) W). unfold WI in W'.
      split; [split; [split|]|].
      + lia.
      + exact W.
      + apply mask_nan_false; [lia|lia|]. split; [exact CL|].
        intros a b Ha Hb. specialize (LW a b Ha Hb). rewrite andb_true_iff, negb_true_iff in LW. tauto.
      + unfold dfloor, dceil in *. rewrite CF in *. destruct (D mod s =? 0) eqn:E0.
        * apply mask_nan_false; [lia|lia|]. split; [exact CR1|].
          intros a b Ha Hb. specialize (RW a b Ha Hb). rewrite !andb_true_iff, !negb_true_iff in RW.
          replace (c + D / s + b) with (c + b + D / s) by lia. tauto.
        * apply orb_false_iff. split; (apply mask_nan_false; [lia|lia|]).
          -- split; [exact CR1|]. intros a b Ha Hb. specialize (RW a b Ha Hb).
             rewrite !andb_true_iff, !negb_true_iff in RW.
             replace (c + D / s + b) with (c + b + D / s) by lia. tauto.
          -- replace (c + (D / s + 1)) with (c + D / s + 1) in CR2 by lia. split; [exact CR2|].
             intros a b Ha Hb. specialize (RW a b Ha Hb).
             rewrite !andb_true_iff, !negb_true_iff in RW.
             replace (c + D / s + 1 + b) with (c + b + (D / s + 1)) by lia. tauto.
  Qed.
End Cell.

(* ------------------------------------------------------------------ values: scaled integers vs rationals *)

Lemma qsum_scaled : forall {X} (f : X -> Q) (g : X -> Z) den l,
  (forall x, In x l -> f x == g x # den) -> qsum (map f l) == zsum (map g l) # den.
Proof.
  induction l; intros H; cbn [map qsum fold_right zsum].
  - reflexivity.
  - fold (qsum (map f l)). rewrite IHl by (intros; apply H; now right). rewrite (H a) by now left.
    unfold Qeq, Qplus. cbn [Qnum Qden]. rewrite Pos2Z.inj_mul. ring.
Qed.

Lemma Qminus_scaled : forall a b p, (a # p) - (b # p) == (a - b) # p.
Proof. intros. unfold Qeq, Qminus, Qplus, Qopp. cbn [Qnum Qden]. rewrite Pos2Z.inj_mul. ring. Qed.

Lemma lval_scaled : forall L s r c, 0 < s -> lval L r c == (s * L r c) # (Z.to_pos s).
Proof.
  intros L s r c Hs. unfold lval, inject_Z, Qeq. cbn [Qnum Qden]. rewrite Z2Pos.id by lia. ring.
Qed.

Lemma rval_scaled : forall R s r c D, 0 < s ->
  rval s R r c D == shift_right s R (i_right s D) r (c + D / s) # (Z.to_pos s).
Proof.
  intros R s r c D Hs. unfold rval, shift_right, i_right, dfloor, dfrac. cbv zeta.
  destruct (D mod s =? 0).
  - unfold inject_Z, Qeq. cbn [Qnum Qden]. rewrite Z2Pos.id by lia. ring.
  - unfold inject_Z, Qeq, Qplus, Qminus, Qmult, Qopp, Qplus. cbn [Qnum Qden].
    rewrite !Pos2Z.inj_mul. rewrite !Z2Pos.id by lia. ring.
Qed.

Lemma sad_term : forall L R s r c D, 0 < s ->
  Qabs (lval L r c - rval s R r c D)
  == ad_cost (s * L r c) (shift_right s R (i_right s D) r (c + D / s)) # (Z.to_pos s).
Proof.
  intros L R s r c D H. rewrite (lval_scaled L s r c H), (rval_scaled R s r c D H).
  rewrite Qminus_scaled. reflexivity.
Qed.

Lemma ssd_term : forall L R s r c D, 0 < s ->
  (lval L r c - rval s R r c D) * (lval L r c - rval s R r c D)
  == sd_cost (s * L r c) (shift_right s R (i_right s D) r (c + D / s)) # (Z.to_pos (s * s)).
Proof.
  intros L R s r c D H. rewrite (lval_scaled L s r c H), (rval_scaled R s r c D H).
  rewrite Qminus_scaled.
  unfold Qmult, sd_cost. cbn [Qnum Qden]. rewrite Z2Pos.inj_mul by lia. reflexivity.
Qed.

Lemma zsum2_shift : forall (G : Z -> Z -> Z) lo n,
  zsum (map (fun a => zsum (map (fun b => G a b) (range lo n))) (range lo n))
  = zsum (map (fun a => zsum (map (fun b => G (a + lo) (b + lo)) (range 0 n))) (range 0 n)).
Proof.
  intros. rewrite range_shift. apply zsum_map_ext. intros a _. rewrite range_shift. reflexivity.
Qed.

(* the window sum of the model (columns outside, rows inside, offsets 0..w-1 from the window corner,
   right column q0 + (col - p0)) is the window sum of the spec (rows outside, offsets -half..half
   from the centre, right column col + floor d) *)
Lemma win_sum_spec : forall (f : Q -> Q -> Q) (pw : Z -> Z -> Z) den s nx w L R Rs D r c,
  0 < s ->
  (forall i rr cc, Rs i rr cc = shift_right s R i rr cc) ->
  (forall rr cc, f (lval L rr cc) (rval s R rr cc D)
                 == pw (s * L rr cc) (shift_right s R (i_right s D) rr (cc + D / s)) # den) ->
  sum_win w s L R f r c D == win_sum pw s nx w L Rs D r c # den.
Proof.
  intros f pw den s nx w L R Rs D r c Hs HRs Hf.
  unfold sum_win. rewrite qsum_scaled with
    (g := fun a => zsum (map (fun b => pw (s * L (r + a) (c + b))
                                          (shift_right s R (i_right s D) (r + a) (c + b + D / s))) (win w))).
  2:{ intros a _. apply qsum_scaled. intros b _. apply Hf. }
  assert (E : forall x y : Z, x = y -> x # den == y # den) by (intros; subst; reflexivity).
  apply E. unfold win_sum. cbv zeta. rewrite win_zrange. unfold zrange.
  pose proof (pi_offset s nx D Hs) as PO. cbv zeta in PO. fold (PI s nx D) in PO.
  fold (p0_ s nx D) (q0_ s nx D) in PO.
  rewrite zsum2_shift. rewrite zsum_swap.
  apply zsum_map_ext. intros a _.
  apply zsum_map_ext. intros b _. rewrite HRs.
  f_equal; [f_equal; f_equal; lia|]. f_equal; lia.
Qed.

(* ------------------------------------------------------------------ C02: SAD / SSD *)

Definition wf_cfg (inp : mc_input) : Prop := 0 < i_w inp /\ Z.odd (i_w inp) = true /\ 0 < i_s inp.

Definition computable_in (inp : mc_input) (r c D : Z) : bool :=
  computable (i_ny inp) (i_nx inp) (i_w inp) (i_s inp) (i_mL inp) (i_mR inp) (i_vp inp) (i_nd inp)
             (i_gmin inp) (i_gmax inp) r c D.

Lemma shifted_images_eq : forall inp i r c,
  shifted_images inp i r c = shift_right (i_s inp) (i_R inp) i r c.
Proof. intros. unfold shifted_images. cbv zeta. rewrite memo1_eq. now rewrite memo2_eq. Qed.

Lemma sadssd_volume_z_eq : forall pw inp dmin dmax r c k, wf_cfg inp ->
  0 <= r < i_ny inp -> 0 <= c < i_nx inp -> 0 <= k < nb_disp (i_s inp) dmin dmax ->
  sadssd_volume_z pw inp dmin dmax r c k =
  let D := disp_scaled (i_s inp) dmin k in
  if computable_in inp r c D
  then Some (win_sum pw (i_s inp) (i_nx inp) (i_w inp) (i_L inp) (shifted_images inp) D r c) else None.
Proof.
  intros pw inp dmin dmax r c k [Hw [Hodd Hs]] Hr Hc Hk. cbv zeta.
  unfold sadssd_volume_z. cbv zeta. rewrite memo3_eq.
  unfold computable_in. rewrite <- (model_cond_computable inp Hw Hodd Hs r c _ Hr Hc).
  apply (cv_masked_eq inp Hw Hodd Hs); try assumption.
  cbv beta. rewrite memo1_eq, memo2_eq. apply sadssd_plane_eq.
Qed.

Lemma sad_model_eq_spec : forall inp dmin dmax r c k, wf_cfg inp ->
  0 <= r < i_ny inp -> 0 <= c < i_nx inp -> 0 <= k < nb_disp (i_s inp) dmin dmax ->
  sad_volume inp dmin dmax r c k =
  let D := disp_scaled (i_s inp) dmin k in
  if computable_in inp r c D
  then Some (Qred (sad_spec (i_w inp) (i_s inp) (i_L inp) (i_R inp) r c D)) else None.
Proof.
  intros inp dmin dmax r c k Hwf Hr Hc Hk. cbv zeta. unfold sad_volume. cbv zeta.
  rewrite (sadssd_volume_z_eq ad_cost inp dmin dmax r c k Hwf Hr Hc Hk). cbv zeta.
  destruct (computable_in inp r c (disp_scaled (i_s inp) dmin k)); cbn [omap]; [|reflexivity].
  f_equal. unfold cost_q. apply Qred_complete. symmetry. unfold sad_spec.
  destruct Hwf as [Hw [Hodd Hs]].
  apply win_sum_spec; [assumption|apply shifted_images_eq|]. intros. now apply sad_term.
Qed.

Lemma ssd_model_eq_spec : forall inp dmin dmax r c k, wf_cfg inp ->
  0 <= r < i_ny inp -> 0 <= c < i_nx inp -> 0 <= k < nb_disp (i_s inp) dmin dmax ->
  ssd_volume inp dmin dmax r c k =
  let D := disp_scaled (i_s inp) dmin k in
  if computable_in inp r c D
  then Some (Qred (ssd_spec (i_w inp) (i_s inp) (i_L inp) (i_R inp) r c D)) else None.
Proof.
  intros inp dmin dmax r c k Hwf Hr Hc Hk. cbv zeta. unfold ssd_volume. cbv zeta.
  rewrite (sadssd_volume_z_eq sd_cost inp dmin dmax r c k Hwf Hr Hc Hk). cbv zeta.
  destruct (computable_in inp r c (disp_scaled (i_s inp) dmin k)); cbn [omap]; [|reflexivity].
  f_equal. unfold cost_q. apply Qred_complete. symmetry. unfold ssd_spec.
  destruct Hwf as [Hw [Hodd Hs]].
  apply win_sum_spec; [assumption|apply shifted_images_eq|]. intros. now apply ssd_term.
Qed.
