(* Lib/MachineFlow.v against Model/Machine.v: for every record of control-flow skeletons that passes
   [check_flow_wf] / [run_flow_wf], what the interpreter computes ([sem_check] / [sem_run]) IS what the
   hand-written model computes ([check_conf] / [run]), for all pipelines, callback behaviours, numbers of
   scales.  So the C01 theorems are theorems about the control flow regenerated from the repository. *)
From Coq Require Import ZArith List Bool String Lia.
From Pandora Require Import Model.Machine Spec.Language Proofs.MachineP Lib.MachineFlow.
Import ListNotations.
Open Scope Z_scope.

Lemma block_nil ex e st : block ex [] e st = ONormal st.
Proof. reflexivity. Qed.

Lemma block_cons ex s r e st :
  block ex (s :: r) e st = match ex s e st with ONormal st' => block ex r e st' | o => o end.
Proof. reflexivity. Qed.

Lemma with_m_id st : with_m st (f_m st) = st.
Proof. destruct st; reflexivity. Qed.

Definition sd (sw : bool) : side := if sw then SR else SL.

Section P.
  Variables check_tbl run_tbl : list transition.
  Variable cb : step -> side -> side -> option exn.
  Variable dotted : step -> bool.
  Variable other_kind : step -> selector -> option kind.
  Variable sorted_steps : list step -> list step.

  (* the validity oracle of Model/Machine.v that the callbacks [cb] induce: the step is valid, with the two
     images exchanged or not, iff its check callback returns *)
  Definition step_ok_of (s : step) (sw : bool) : bool :=
    match cb s (sd sw) (sd (negb sw)) with None => true | Some _ => false end.

  Notation exec := (exec_stmt check_tbl run_tbl cb dotted other_kind sorted_steps).

  (* ---------------------------------------------------------------- set_state / remove_transitions commute *)

  Lemma block_norm cnd calls : forall n l, (List.length l <= n)%nat -> forall e st,
    block (exec cnd calls) (norm l) e st = block (exec cnd calls) l e st.
  Proof.
    induction n as [|n IH]; intros l Hl e st.
    - destruct l; [reflexivity | simpl in Hl; lia].
    - destruct l as [|x r]; [reflexivity|].
      assert (Hgen : block (exec cnd calls) (x :: norm r) e st = block (exec cnd calls) (x :: r) e st).
      { rewrite !block_cons. destruct (exec cnd calls x e st); try reflexivity.
        apply IH. simpl in Hl; lia. }
      destruct x; try exact Hgen.
      destruct r as [|y r]; [reflexivity|].
      destruct y; try exact Hgen.
  Qed.

  (* ---------------------------------------------------------------- check_conf *)

  Definition check_loop_body : list stmt :=
    [ STry [ SIf BDotted [STrigger "check_" (SelIdx "." 0) ArgsPipelineStep]
                         [STrigger "check_" SelWhole ArgsPipelineStep] ]
           handled (HRaise EMachineError) ].

  (* one iteration of the loop of check_conf *)
  Definition check_iter (cnd : fstate -> bool) (s : step) (st : fstate) : fres :=
    let m := f_m st in
    match s_kind s with
    | None => ORaise EMachineError st
    | Some k =>
      match fire (m_regs m) (m_st m) PCheck k (cnd st) with
      | Fired d =>
        let st1 := with_m st (set_st m d) in
        match cb s (f_left st) (f_right st) with
        | Some x => ORaise (if catches handled x then EMachineError else x) st1
        | None => ONormal (if kind_eqb k Val then with_m st1 (set_rdm (set_st m d) true) else st1)
        end
      | CondFalse => ONormal st
      | NoTransition | UnknownEvent => ORaise EMachineError st
      end
    end.

  Lemma check_body_iter cnd calls e s st :
    block (exec cnd calls) check_loop_body (set_cur e s) st = check_iter cnd s st.
  Proof.
    unfold check_loop_body, check_iter. rewrite block_cons. cbn [exec_stmt]. rewrite block_cons. cbn [exec_stmt].
    cbn [beval set_cur e_cur].
    assert (H : (if dotted s
                 then block (exec cnd calls) [STrigger "check_" (SelIdx "." 0) ArgsPipelineStep] (set_cur e s) st
                 else block (exec cnd calls) [STrigger "check_" SelWhole ArgsPipelineStep] (set_cur e s) st)
                = trigger cb cnd (Some PCheck) (s_kind s) s st).
    { destruct (dotted s) eqn:Ed; rewrite block_cons; cbn [exec_stmt set_cur e_cur].
      - change (phase_of_prefix "check_") with (Some PCheck).
        change (sel_kind dotted other_kind (SelIdx "." 0) s) with (s_kind s).
        destruct (trigger cb cnd (Some PCheck) (s_kind s) s st); reflexivity.
      - change (phase_of_prefix "check_") with (Some PCheck).
        unfold sel_kind. rewrite Ed.
        destruct (trigger cb cnd (Some PCheck) (s_kind s) s st); reflexivity. }
    rewrite H. clear H. unfold trigger.
    destruct (s_kind s) as [k|]; [|reflexivity].
    destruct (fire (m_regs (f_m st)) (m_st (f_m st)) PCheck k (cnd st)); try reflexivity.
    unfold callback. cbn [with_m f_left f_right f_m].
    destruct (cb s (f_left st) (f_right st)) as [x|].
    - destruct x; reflexivity.
    - destruct (kind_eqb k Val); reflexivity.
  Qed.

  Lemma for_steps_ext f g (p : list step) : (forall x st, f x st = g x st) ->
    forall st, for_steps f p st = for_steps g p st.
  Proof.
    intros H. induction p as [|s r IH]; intros st; [reflexivity|].
    cbn [for_steps]. rewrite H. destruct (g s st); try reflexivity. apply IH.
  Qed.

  (* an exception the `except` clause of check_conf does not name, raised by the check callback of a step of P *)
  Definition uncaught (P : list step) (x : exn) : Prop :=
    catches handled x = false /\ exists s a b, In s P /\ cb s a b = Some x.

  (* the loop over the steps of check_conf IS check_steps *)
  Lemma check_loop cnd P (p : list step) : forall m sw sc tr, incl p P ->
    (forall s k c, fire (m_regs m) s PCheck k c = fire (m_regs m) s PCheck k true) ->
    match check_steps step_ok_of m sw p with
    | (m', true) =>
        for_steps (check_iter cnd) p (mkF m (sd sw) (sd (negb sw)) sc tr)
        = ONormal (mkF m' (sd sw) (sd (negb sw)) sc tr)
    | (m', false) =>
        exists x,
        for_steps (check_iter cnd) p (mkF m (sd sw) (sd (negb sw)) sc tr)
        = ORaise x (mkF m' (sd sw) (sd (negb sw)) sc tr)
        /\ (x = EMachineError \/ uncaught P x)
    end.
  Proof.
    induction p as [|s r IH]; intros m sw sc tr Hin Hfire.
    - reflexivity.
    - cbn [check_steps for_steps]. unfold check_iter at 1 3. unfold with_m. cbn [f_m f_left f_right f_scales f_trace].
      destruct (s_kind s) as [k|].
      2:{ exists EMachineError. split; [reflexivity | left; reflexivity]. }
      generalize (cnd (mkF m (sd sw) (sd (negb sw)) sc tr)); intros c. rewrite (Hfire (m_st m) k c).
      destruct (fire (m_regs m) (m_st m) PCheck k true) as [d| | |].
      + unfold step_ok_of at 1.
        assert (Hr : incl r P) by (intros y Hy; apply Hin; right; exact Hy).
        destruct (cb s (sd sw) (sd (negb sw))) as [x|] eqn:Ecb.
        * eexists. split; [reflexivity|]. destruct (catches handled x) eqn:E; [left; reflexivity | right].
          split; [exact E|]. exists s, (sd sw), (sd (negb sw)). split; [apply Hin; left; reflexivity | exact Ecb].
        * destruct (kind_eqb k Val); apply IH; assumption.
      + apply IH; [intros y Hy; apply Hin; right; exact Hy | exact Hfire].
      + exists EMachineError. split; [reflexivity | left; reflexivity].
      + exists EMachineError. split; [reflexivity | left; reflexivity].
  Qed.
  Definition second_round : list stmt :=
    [ SIf (BAnd BRdm (BNot BSecond))
          [SCall (FCheckConf PRight PLeft true); SSetLeft PLeft; SSetRight PRight] [] ].

  Hypothesis Hc : check_tbl_wf check_tbl = true.

  (* the body of check_conf up to the test of the second round IS check_round *)
  Lemma check_body cnd calls p n sw (second : bool) m l r sc tr :
    clean m ->
    let e := mkEnv p n (sd sw) (sd (negb sw)) second None in
    let m_in := if second then m else set_rdm m false in
    match check_round check_tbl step_ok_of m_in sw p with
    | (m1, true) =>
        block (exec cnd calls) can_check_conf e (mkF m l r sc tr)
        = block (exec cnd calls) second_round e (mkF m1 (sd sw) (sd (negb sw)) sc tr)
    | (m1, false) =>
        exists x, block (exec cnd calls) can_check_conf e (mkF m l r sc tr)
                  = ORaise x (mkF m1 (sd sw) (sd (negb sw)) sc tr)
                  /\ (x = EMachineError \/ uncaught p x)
    end.
  Proof.
    intros [Hst Hregs] e m_in. unfold check_round.
    set (m0 := set_regs m_in (m_regs m_in ++ check_tbl)).
    assert (Hregs0 : m_regs m0 = check_tbl).
    { unfold m0, m_in. destruct second; cbn [set_regs set_rdm m_regs]; rewrite Hregs; reflexivity. }
    assert (Hfire : forall s k c, fire (m_regs m0) s PCheck k c = fire (m_regs m0) s PCheck k true).
    { intros s k c. rewrite Hregs0, !(check_wf_fire _ Hc). reflexivity. }
    pose proof (check_loop cnd p p m0 sw sc tr (incl_refl p) Hfire) as HL.
    assert (Hpre : block (exec cnd calls) can_check_conf e (mkF m l r sc tr)
                   = match for_steps (check_iter cnd) p (mkF m0 (sd sw) (sd (negb sw)) sc tr) with
                     | ONormal st' =>
                         block (exec cnd calls) (SRemoveTransitions TCheck :: SSetState Begin :: second_round) e st'
                     | OBreak st' => OBreak st'
                     | o => o
                     end).
    { unfold can_check_conf. rewrite block_cons. cbn [exec_stmt]. rewrite block_cons. cbn [exec_stmt].
      rewrite block_cons. cbn [exec_stmt beval]. cbn [e e_second img_of e_pl e_pr f_m f_left f_right f_scales f_trace].
      assert (Hreset : (if negb second
                        then block (exec cnd calls) [SResetCfg; SResetMargins; SSetRdmNone] e (mkF m (sd sw) (sd (negb sw)) sc tr)
                        else block (exec cnd calls) [] e (mkF m (sd sw) (sd (negb sw)) sc tr))
                       = ONormal (mkF m_in (sd sw) (sd (negb sw)) sc tr)).
      { unfold m_in. destruct second; cbn [negb]; [reflexivity|].
        rewrite !block_cons. cbn [exec_stmt]. rewrite !block_cons. cbn [exec_stmt]. reflexivity. }
      fold e. rewrite Hreset. rewrite block_cons. cbn [exec_stmt]. rewrite block_cons. cbn [exec_stmt order_steps].
      unfold with_m. cbn [f_m f_left f_right f_scales f_trace table e e_p].
      fold m0. fold check_loop_body.
      rewrite (for_steps_ext _ (check_iter cnd) p (fun x st' => check_body_iter cnd calls e x st')).
      destruct (for_steps (check_iter cnd) p (mkF m0 (sd sw) (sd (negb sw)) sc tr)); reflexivity. }
    rewrite Hpre. clear Hpre.
    destruct (check_steps step_ok_of m0 sw p) as [m1 ok]. destruct ok.
    - rewrite HL. rewrite block_cons. cbn [exec_stmt]. rewrite block_cons. cbn [exec_stmt].
      unfold with_m. cbn [f_m f_left f_right f_scales f_trace table].
      reflexivity.
    - destruct HL as (x & -> & Hx). exists x. split; [reflexivity | exact Hx].
  Qed.

  Lemma check_flow_wf_norm fl : check_flow_wf fl = true -> norm (fl_check_conf fl) = can_check_conf.
  Proof. unfold check_flow_wf, block_eqb. destruct (list_eq_dec stmt_eq_dec _ _); [auto | discriminate]. Qed.

  Lemma check_round_ok_clean m sw p m1 : clean m ->
    check_round check_tbl step_ok_of m sw p = (m1, true) -> clean m1.
  Proof.
    intros Hm E. pose proof (check_round_spec check_tbl step_ok_of Hc m sw p Hm) as H.
    destruct (path_ok Begin p); [destruct (forallb (fun s => step_ok_of s sw) p)|].
    - rewrite H in E. injection E as <-. split; reflexivity.
    - rewrite E in H. discriminate.
    - rewrite E in H. discriminate.
  Qed.

  Notation semc := (sem_check check_tbl run_tbl cb dotted other_kind sorted_steps).

  Lemma call_check_S fl f e st :
    call_check check_tbl run_tbl cb dotted other_kind sorted_steps fl (S f) e st
    = block (exec (sem_cond check_tbl run_tbl cb dotted other_kind sorted_steps fl)
               (fun c e' st' => match c with
                                | FCheckConf _ _ _ => call_check check_tbl run_tbl cb dotted other_kind sorted_steps fl f e' st'
                                | _ => OStuck end))
            (fl_check_conf fl) e st.
  Proof. reflexivity. Qed.

  (* THE TIE (check): on a clean machine, what the regenerated control flow of check_conf computes is
     what Model.Machine.check_conf computes -- same verdict, same machine afterwards (state, registered
     transitions, right_disp_map, scale); after an accepted check self.left_img / self.right_img hold the
     caller's left / right image again; the exception that leaves a refused check is MachineError unless
     a check callback raised a class the `except` clause does not name *)
  Theorem sem_check_model fl : check_flow_wf fl = true ->
    forall fuel st p, (fuel >= 2)%nat -> clean (f_m st) ->
    match check_conf check_tbl step_ok_of (f_m st) p with
    | Accepted m' => semc fl fuel st p = ONormal (mkF m' SL SR (f_scales st) (f_trace st))
    | Rejected m' => exists x st', semc fl fuel st p = ORaise x st' /\ f_m st' = m'
                                   /\ (x = EMachineError \/ uncaught p x)
    end.
  Proof.
    intros Hwf fuel st p Hfuel Hm. apply check_flow_wf_norm in Hwf.
    destruct fuel as [|[|f]]; try lia. destruct st as [m l r sc tr]. cbn [f_m f_scales f_trace] in *.
    unfold sem_check. rewrite call_check_S.
    rewrite <- (block_norm _ _ _ _ (le_n _)), Hwf.
    pose proof (check_body (sem_cond check_tbl run_tbl cb dotted other_kind sorted_steps fl)
                  (fun c e' st' => match c with
                                   | FCheckConf _ _ _ => call_check check_tbl run_tbl cb dotted other_kind sorted_steps fl (S f) e' st'
                                   | _ => OStuck end)
                  p 0 false false m l r sc tr Hm) as H1.
    cbn [sd negb] in H1. cbv zeta in H1.
    unfold check_conf.
    destruct (check_round check_tbl step_ok_of (set_rdm m false) false p) as [m1 ok] eqn:E1.
    destruct ok; cbn [negb].
    2:{ destruct H1 as (x & -> & Hx). exists x. eexists. split; [reflexivity|]. split; [reflexivity | exact Hx]. }
    rewrite H1. clear H1.
    assert (Hm1 : clean m1).
    { eapply check_round_ok_clean; [|exact E1]. destruct Hm; split; assumption. }
    unfold second_round. rewrite block_cons. cbn [exec_stmt beval e_second f_m negb]. rewrite andb_true_r.
    destruct (m_rdm m1) eqn:Erdm.
    2:{ rewrite !block_nil. reflexivity. }
    rewrite block_cons. cbn [exec_stmt callee_env img_of e_pl e_pr e_p e_n].
    rewrite call_check_S.
    rewrite <- (block_norm _ _ _ _ (le_n _)), Hwf.
    pose proof (check_body (sem_cond check_tbl run_tbl cb dotted other_kind sorted_steps fl)
                  (fun c e' st' => match c with
                                   | FCheckConf _ _ _ => call_check check_tbl run_tbl cb dotted other_kind sorted_steps fl f e' st'
                                   | _ => OStuck end)
                  p 0 true true m1 SL SR sc tr Hm1) as H2.
    cbn [sd negb] in H2. cbv zeta in H2.
    destruct (check_round check_tbl step_ok_of m1 true p) as [m2 ok2].
    destruct ok2.
    - rewrite H2. unfold second_round. rewrite block_cons. cbn [exec_stmt beval e_second negb].
      rewrite andb_false_r. rewrite !block_nil. cbn [as_call].
      reflexivity.
    - destruct H2 as (x & -> & Hx). cbn [as_call].
      exists x. eexists. split; [reflexivity|]. split; [reflexivity | exact Hx].
  Qed.

  (* ---------------------------------------------------------------- run *)

  Lemma run_flow_wf_parts fl : run_flow_wf fl = true ->
    fl_machine_run fl = can_machine_run /\ fl_run_prepare fl = can_run_prepare
    /\ norm (fl_run_exit fl) = can_run_exit /\ fl_cond fl = can_cond /\ fl_pandora_run fl = can_pandora_run.
  Proof.
    unfold run_flow_wf, block_eqb. intros H.
    repeat (apply andb_true_iff in H; destruct H as [H ?]).
    repeat match goal with
           | H : (if list_eq_dec stmt_eq_dec ?a ?b then true else false) = true |- _ =>
               destruct (list_eq_dec stmt_eq_dec a b); [|discriminate H]; clear H
           end.
    auto.
  Qed.

  (* is_not_last_scale *)
  Lemma sem_cond_can fl : fl_cond fl = can_cond -> forall st,
    sem_cond check_tbl run_tbl cb dotted other_kind sorted_steps fl st = negb (m_scale (f_m st) =? 0).
  Proof.
    intros E st. unfold sem_cond. rewrite E. unfold can_cond. rewrite block_cons. cbn [exec_stmt beval zeval].
    destruct (m_scale (f_m st) =? 0); reflexivity.
  Qed.

  Definition run_loop_body : list stmt := [ SCall FRun; SIf (BStateIs Begin) [SBreak] [] ].

  (* one iteration of the inner loop of pandora.run: machine.run(elem, cfg) then the test of the break *)
  Definition run_iter (cnd : fstate -> bool) (s : step) (st : fstate) : fres :=
    match trigger cb cnd (Some PRun) (s_kind s) s st with
    | ONormal st' => if state_eqb (m_st (f_m st')) Begin then OBreak st' else ONormal st'
    | ORaise x st' => ORaise x st'
    | _ => OStuck
    end.

  Lemma trigger_shape cnd ph k s st :
    match trigger cb cnd ph k s st with ONormal _ | ORaise _ _ => True | _ => False end.
  Proof.
    unfold trigger. destruct ph as [ph|]; [|exact I]. destruct k as [k|]; [|exact I].
    destruct (fire _ _ _ _ _); try exact I.
    unfold callback. destruct ph.
    - destruct (cb _ _ _); exact I.
    - destruct (_ && _); exact I.
  Qed.

  Lemma run_body_iter fl cnd e s st : fl_machine_run fl = can_machine_run ->
    block (exec cnd (run_calls check_tbl run_tbl cb dotted other_kind sorted_steps fl)) run_loop_body (set_cur e s) st
    = run_iter (sem_cond check_tbl run_tbl cb dotted other_kind sorted_steps fl) s st.
  Proof.
    intros E. unfold run_loop_body, run_iter. rewrite block_cons. cbn [exec_stmt callee_env run_calls].
    rewrite E. unfold can_machine_run. rewrite block_cons. cbn [exec_stmt]. rewrite block_cons.
    cbn [exec_stmt set_cur e_cur].
    change (phase_of_prefix "") with (Some PRun).
    change (sel_kind dotted other_kind (SelIdx "." 0) s) with (s_kind s).
    pose proof (trigger_shape (sem_cond check_tbl run_tbl cb dotted other_kind sorted_steps fl) (Some PRun) (s_kind s) s st) as Hs.
    destruct (trigger cb _ (Some PRun) (s_kind s) s st) as [st'| |x st'| |]; try contradiction.
    - rewrite block_nil. cbv iota beta. rewrite block_nil. cbn [as_call]. rewrite block_cons. cbn [exec_stmt beval].
      destruct (state_eqb (m_st (f_m st')) Begin); reflexivity.
    - destruct (catches handled x); reflexivity.
  Qed.

  (* the inner loop of pandora.run IS run_steps *)
  Lemma run_loop (p : list step) : forall m l r sc tr,
    let cnd := fun st => negb (m_scale (f_m st) =? 0) in
    match run_steps m p tr with
    | (m', tr', Err) => exists x, for_steps (run_iter cnd) p (mkF m l r sc tr) = ORaise x (mkF m' l r sc tr')
    | (m', tr', _) => for_steps (run_iter cnd) p (mkF m l r sc tr) = ONormal (mkF m' l r sc tr')
    end.
  Proof.
    induction p as [|s rest IH]; intros m l r sc tr cnd.
    - reflexivity.
    - cbn [run_steps for_steps]. unfold run_iter at 1 3 5. unfold trigger.
      destruct (s_kind s) as [k|].
      2:{ eexists; reflexivity. }
      unfold cnd at 1 3 5. cbn [f_m].
      destruct (fire (m_regs m) (m_st m) PRun k (negb (m_scale m =? 0))) as [d| | |].
      + unfold callback, with_m. cbn [f_m f_left f_right f_scales f_trace m_rdm m_scale m_st set_st].
        destruct (kind_eqb k Val && negb (m_rdm m)).
        { eexists; reflexivity. }
        assert (Hst : forall b : bool, m_st (if b then set_scale (set_st m d) (m_scale m - 1) else set_st m d) = d)
          by (intros []; reflexivity).
        cbn [f_m]. rewrite Hst.
        destruct (state_eqb d Begin).
        * reflexivity.
        * apply IH.
      + cbn [f_m]. destruct (state_eqb (m_st m) Begin).
        * reflexivity.
        * apply IH.
      + eexists; reflexivity.
      + eexists; reflexivity.
  Qed.

  (* the scale loop of pandora.run IS scale_loop *)
  Lemma scale_loop_exec (p : list step) (F : fstate -> fres) :
    (forall st, F st = for_steps (run_iter (fun st => negb (m_scale (f_m st) =? 0))) p st) ->
    forall (n : nat) m l r sc tr,
    match scale_loop n m p tr with
    | (m', tr', true) => for_n n F (mkF m l r sc tr) = ONormal (mkF m' l r sc tr')
    | (m', tr', false) => exists x, for_n n F (mkF m l r sc tr) = ORaise x (mkF m' l r sc tr')
    end.
  Proof.
    intros HF. induction n as [|n IH]; intros m l r sc tr.
    - reflexivity.
    - rewrite scale_loop_S. cbn [for_n]. rewrite HF.
      pose proof (run_loop p m l r sc tr) as HL. cbv zeta in HL.
      destruct (run_steps m p tr) as [[m1 tr1] stt].
      destruct stt.
      + rewrite HL. apply IH.
      + rewrite HL. apply IH.
      + destruct HL as (x & ->). exists x. reflexivity.
  Qed.

  Notation semr := (sem_run check_tbl run_tbl cb dotted other_kind sorted_steps).

  (* THE TIE (run): what the regenerated control flow of pandora.run / PandoraMachine.run / run_prepare /
     run_exit / is_not_last_scale computes is what Model.Machine.run computes -- same verdict, same callback
     trace, same machine afterwards; a run that ends returns (left_disparity, right_disparity) *)
  Theorem sem_run_model fl : run_flow_wf fl = true ->
    forall st p (n : nat), (n >= 1)%nat -> f_trace st = [] ->
    match run run_tbl (f_m st) p n with
    | RunOk m' tr =>
        semr fl st p (Z.of_nat n) = OReturn (RProducts SL SR) (mkF m' (f_left st) (f_right st) (Z.of_nat n) tr)
    | RunError m' tr =>
        exists x, semr fl st p (Z.of_nat n) = ORaise x (mkF m' (f_left st) (f_right st) (Z.of_nat n) tr)
    end.
  Proof.
    intros Hwf st p n Hn Htr. destruct (run_flow_wf_parts fl Hwf) as (E1 & E2 & E3 & E4 & E5).
    destruct st as [m l r sc tr]. cbn [f_m f_left f_right f_trace] in *. subst tr.
    unfold sem_run. rewrite E5. unfold can_pandora_run.
    rewrite block_cons. cbn [exec_stmt]. rewrite block_cons. cbn [exec_stmt callee_env run_calls].
    rewrite E2. unfold can_run_prepare.
    set (m0 := mkM (m_st m) (m_regs m ++ run_tbl) (has_kind Val p) (Z.of_nat n - 1)).
    assert (Hprep : block (exec (sem_cond check_tbl run_tbl cb dotted other_kind sorted_steps fl) no_calls)
                      [SIf (BOr (BParamNone "num_scales") (BParamNone "scale_factor")) [SSetScales (ZConst 1)] [SSetScales ZParamScales];
                       SIf (BZGt ZSelfScales (ZConst 1)) [SSetScale (ZSub ZParamScales (ZConst 1))] [SSetScale (ZConst 0)];
                       SIf (BAnyStep Val) [SSetRdmCfg] [SSetRdmNone];
                       SAddTransitions TRun]
                      (mkEnv p (Z.of_nat n) SL SR false None) (mkF m l r sc [])
                    = ONormal (mkF m0 l r (Z.of_nat n) [])).
    { rewrite block_cons. cbn [exec_stmt beval orb]. rewrite block_cons. cbn [exec_stmt zeval e_n]. rewrite block_nil.
      rewrite block_cons. cbn [exec_stmt beval zeval f_scales e_n f_m f_left f_right f_trace].
      destruct (Z.gtb_spec (Z.of_nat n) 1);
        rewrite block_cons; cbn [exec_stmt zeval e_n]; rewrite block_nil;
        (rewrite block_cons; cbn [exec_stmt beval e_p]; unfold with_m;
         cbn [f_m f_left f_right f_scales f_trace set_scale set_rdm set_regs m_st m_regs m_rdm m_scale];
         destruct (has_kind Val p) eqn:Ev; rewrite block_cons; cbn [exec_stmt]; rewrite block_nil;
         rewrite block_cons; cbn [exec_stmt table]; rewrite block_nil; unfold with_m;
         cbn [f_m f_left f_right f_scales f_trace set_scale set_rdm set_regs m_st m_regs m_rdm m_scale];
         unfold m0, set_regs, set_rdm, set_scale; cbn [m_st m_regs m_rdm m_scale];
         try reflexivity; replace (Z.of_nat n - 1) with 0 by lia; reflexivity). }
    rewrite Hprep. clear Hprep. cbn [as_call].
    rewrite block_cons. cbn [exec_stmt zeval f_scales]. rewrite Nat2Z.id.
    unfold run, run_from. fold m0.
    pose proof (scale_loop_exec p
      (fun st' => block (exec (sem_cond check_tbl run_tbl cb dotted other_kind sorted_steps fl)
                           (run_calls check_tbl run_tbl cb dotted other_kind sorted_steps fl))
                    [SForSteps ODict [SCall FRun; SIf (BStateIs Begin) [SBreak] []]]
                    (mkEnv p (Z.of_nat n) SL SR false None) st')) as HS.
    assert (HF : forall st,
      block (exec (sem_cond check_tbl run_tbl cb dotted other_kind sorted_steps fl)
               (run_calls check_tbl run_tbl cb dotted other_kind sorted_steps fl))
        [SForSteps ODict [SCall FRun; SIf (BStateIs Begin) [SBreak] []]]
        (mkEnv p (Z.of_nat n) SL SR false None) st
      = for_steps (run_iter (fun st => negb (m_scale (f_m st) =? 0))) p st).
    { intros st. rewrite block_cons. cbn [exec_stmt order_steps e_p]. fold run_loop_body.
      rewrite (for_steps_ext _ (run_iter (fun st => negb (m_scale (f_m st) =? 0))) p).
      - destruct (for_steps _ p st); reflexivity.
      - intros x st'. rewrite (run_body_iter fl _ _ x st' E1). unfold run_iter, trigger.
        rewrite (sem_cond_can fl E4). reflexivity. }
    specialize (HS HF n m0 l r (Z.of_nat n) []).
    destruct (scale_loop n m0 p []) as [[m1 tr1] ok]. destruct ok.
    - rewrite HS. rewrite block_cons. cbn [exec_stmt callee_env run_calls].
      rewrite <- (block_norm _ _ _ _ (le_n _)), E3. unfold can_run_exit.
      rewrite block_cons. cbn [exec_stmt]. rewrite block_cons. cbn [exec_stmt]. rewrite block_nil. cbn [as_call].
      rewrite block_cons. cbn [exec_stmt]. unfold with_m.
      cbn [f_m f_left f_right f_scales f_trace table]. reflexivity.
    - destruct HS as (x & ->). exists x. reflexivity.
  Qed.

  (* ---------------------------------------------------------------- the C01 theorems, on the flows *)

  Hypothesis Hr : run_tbl_wf run_tbl = true.

  (* accepted iff documented path and valid steps *)
  Theorem gen_check_accepts_iff fl : check_flow_wf fl = true ->
    forall st p, clean (f_m st) ->
    (exists st', semc fl 2 st p = ONormal st') <->
    (spells_documented_path p
     /\ forallb (fun s => step_ok_of s false) p = true
     /\ (has_kind Val p = true -> forallb (fun s => step_ok_of s true) p = true)).
  Proof.
    intros Hwf st p Hm. rewrite <- (check_accepts_iff check_tbl step_ok_of Hc (f_m st) p Hm).
    pose proof (sem_check_model fl Hwf 2 st p (le_n 2) Hm) as H.
    destruct (check_conf check_tbl step_ok_of (f_m st) p) as [m'|m'].
    - rewrite H. split; eauto.
    - destruct H as (x & st' & -> & _). split; intros [y Hy]; discriminate.
  Qed.

  (* after an accepted check: state begin, no transition left, right_disp_map = this pipeline has a validation
     step, left_img / right_img hold the caller's left / right image, nothing else changed; a refused check
     raises, and what it raises is MachineError unless a check callback raised a class outside the except clause *)
  Theorem gen_check_restores fl : check_flow_wf fl = true ->
    forall st p, clean (f_m st) ->
    if accept_b step_ok_of p
    then semc fl 2 st p
         = ONormal (mkF (mkM Begin [] (has_kind Val p) (m_scale (f_m st))) SL SR (f_scales st) (f_trace st))
    else exists x st', semc fl 2 st p = ORaise x st' /\ (x = EMachineError \/ uncaught p x).
  Proof.
    intros Hwf st p Hm.
    pose proof (sem_check_model fl Hwf 2 st p (le_n 2) Hm) as H.
    pose proof (check_conf_spec check_tbl step_ok_of Hc (f_m st) p Hm) as H0.
    destruct (accept_b step_ok_of p).
    - rewrite H0 in H. exact H.
    - destruct H0 as [m' H0]. rewrite H0 in H. destruct H as (x & st' & E & _ & Hx). eauto.
  Qed.

  (* "rejected with a sequencing error": when the check callbacks raise nothing but the classes the except
     clause names (MachineError, KeyError, AttributeError), whatever leaves check_conf is MachineError *)
  Theorem gen_reject_is_machine_error fl : check_flow_wf fl = true ->
    (forall s a b x, cb s a b = Some x -> catches handled x = true) ->
    forall st p x st', clean (f_m st) -> semc fl 2 st p = ORaise x st' -> x = EMachineError.
  Proof.
    intros Hwf Hcb st p x st' Hm E.
    pose proof (sem_check_model fl Hwf 2 st p (le_n 2) Hm) as H.
    destruct (check_conf check_tbl step_ok_of (f_m st) p) as [m'|m'].
    - rewrite H in E. discriminate.
    - destruct H as (y & st'' & E' & _ & [Hy | (Hy & s & a & b & _ & Hs)]).
      + rewrite E' in E. injection E as <- _. exact Hy.
      + apply Hcb in Hs. rewrite Hs in Hy. discriminate.
  Qed.

  (* every documented path runs without sequencing error, each step once per processed scale, in order, left
     then (iff this pipeline has a validation step) right; the pair returned is (left, right) *)
  Theorem gen_run_trace_exact fl : run_flow_wf fl = true ->
    forall st p n d, clean (f_m st) -> f_trace st = [] ->
    path_ok Begin p = Some d ->
    (n >= 1)%nat -> ((n > 1)%nat -> has_kind Msc p = true) ->
    semr fl st p (Z.of_nat n)
    = OReturn (RProducts SL SR)
        (mkF (mkM Begin [] (has_kind Val p) 0) (f_left st) (f_right st) (Z.of_nat n)
             (expected_trace p n (has_kind Val p))).
  Proof.
    intros Hwf st p n d Hm Htr Hp Hn Hmsc.
    pose proof (sem_run_model fl Hwf st p n Hn Htr) as H.
    rewrite (run_spec run_tbl Hr (f_m st) p n d Hm Hp Hn Hmsc) in H. exact H.
  Qed.

  (* ---------------------------------------------------------------- histories, on the flows *)

  (* one call of a history on one machine object, through the regenerated flows; the trace reported for a
     run is the trace of THAT run *)
  Definition flow_gcall (fl : flows) (st : fstate) (c : gcall) : fstate * outcome :=
    match c with
    | GCheck p =>
      match semc fl 2 st p with
      | ONormal st' => (st', OAccepted)
      | ORaise _ st' => (st', ORejected)
      | _ => (st, ORejected)
      end
    | GRun p n =>
      match semr fl (mkF (f_m st) (f_left st) (f_right st) (f_scales st) []) p (Z.of_nat n) with
      | OReturn _ st' => (st', ORan (f_trace st'))
      | ORaise _ st' => (st', OFailed)
      | _ => (st, OFailed)
      end
    end.

  Fixpoint flow_history (fl : flows) (st : fstate) (h : list gcall) : list outcome :=
    match h with
    | [] => []
    | c :: r => let '(st', o) := flow_gcall fl st c in o :: flow_history fl st' r
    end.

  Definition scales_ok (c : gcall) : bool :=
    match c with GCheck _ => true | GRun _ n => negb (Nat.eqb n 0) end.

  Lemma flow_gcall_model fl : check_flow_wf fl = true -> run_flow_wf fl = true ->
    forall st c, clean (f_m st) -> scales_ok c = true ->
    f_m (fst (flow_gcall fl st c)) = fst (do_gcall check_tbl run_tbl step_ok_of (f_m st) c)
    /\ snd (flow_gcall fl st c) = snd (do_gcall check_tbl run_tbl step_ok_of (f_m st) c).
  Proof.
    intros W1 W2 st c Hm Hn. destruct c as [p | p n]; cbn [flow_gcall do_gcall].
    - pose proof (sem_check_model fl W1 2 st p (le_n 2) Hm) as H.
      destruct (check_conf check_tbl step_ok_of (f_m st) p) as [m'|m'].
      + rewrite H. split; reflexivity.
      + destruct H as (x & st' & -> & <- & _). split; reflexivity.
    - assert (Hn1 : (n >= 1)%nat).
      { cbn [scales_ok] in Hn. destruct n; [discriminate | lia]. }
      pose proof (sem_run_model fl W2
                    (mkF (f_m st) (f_left st) (f_right st) (f_scales st) []) p n Hn1 eq_refl) as H.
      cbn [f_m f_left f_right] in H.
      destruct (run run_tbl (f_m st) p n) as [m' tr|m' tr].
      + rewrite H. split; reflexivity.
      + destruct H as (x & ->). split; reflexivity.
  Qed.

  (* C01_history_any_pipelines on the flows *)
  Theorem gen_history_fresh fl : check_flow_wf fl = true -> run_flow_wf fl = true ->
    forall h st, clean (f_m st) -> forallb scales_ok h = true ->
    earlier_successful check_tbl run_tbl step_ok_of h = true ->
    flow_history fl st h = map (fresh_outcome check_tbl run_tbl step_ok_of) h.
  Proof.
    intros W1 W2. induction h as [|c r IH]; intros st Hm Hn Hs; [reflexivity|].
    cbn [forallb] in Hn. apply andb_true_iff in Hn as [Hn1 Hn2].
    cbn [flow_history map].
    destruct (flow_gcall_model fl W1 W2 st c Hm Hn1) as [Em Eo].
    destruct (do_gcall_clean check_tbl run_tbl step_ok_of Hc Hr (f_m st) c Hm) as [Ho Hcl].
    destruct (flow_gcall fl st c) as [st' o]. cbn [fst snd] in Em, Eo.
    rewrite Eo, Ho. f_equal.
    destruct r as [|c2 r2]; [reflexivity|].
    cbn [earlier_successful] in Hs. apply andb_true_iff in Hs as [Hs1 Hs2].
    apply IH; auto. rewrite Em. apply Hcl. exact Hs1.
  Qed.

End P.
