(* C09 -- winner-takes-all applied to the matching-cost model: the disparity of every pixel that has
   a computable cost is a sample of the axis lying inside the pixel's own [gmin, gmax] (hence inside
   the global interval).  Composition of the C03 theorems (Proofs/WtaP.v) with [mvolume_cell]. *)
From Coq Require Import ZArith List Bool Lia ZifyBool QArith.
From Pandora Require Import Lib.Ext Lib.Blocks Model.MatchingCost Model.Interval Spec.Interval Proofs.MatchingCostP
                            Proofs.IntervalP.
From Pandora Require Model.Wta Spec.Wta Proofs.WtaP.
Import ListNotations.
Open Scope Z_scope.

Lemma pixel_costs_nth_error : forall val m inp dmin dmax r c k,
  0 <= k < nb_disp (i_s inp) dmin dmax ->
  nth_error (pixel_costs val m inp dmin dmax r c) (Z.to_nat k)
  = Some (omap (fun v => Fin (val v)) (mvolume m inp dmin dmax r c k)).
Proof.
  intros. unfold pixel_costs, zrange. rewrite nth_error_map, nth_error_range by lia.
  cbn. do 3 f_equal. lia.
Qed.

Lemma pixel_costs_length : forall val m inp dmin dmax r c,
  length (pixel_costs val m inp dmin dmax r c) = Z.to_nat (nb_disp (i_s inp) dmin dmax).
Proof. intros. unfold pixel_costs, zrange. now rewrite map_length, range_length. Qed.

Section WtaOnVolume.
  Variables (val : cellv -> Q) (m : measure) (inp : mc_input) (dmin dmax : Z).
  Variables (mx : bool) (B : Z) (invalid : option Q).
  Variables (conf : Z -> Z -> list (option Q)) (mask : Z -> Z -> Z).
  Let s := i_s inp.
  Let nd := nb_disp s dmin dmax.
  Definition wta_on_volume : Z -> Z -> option Q :=
    Wta.o_disp (Wta.to_disp mx B (i_ny inp) (i_nx inp) (disp_axis (i_s inp) dmin dmax) invalid
                            (pixel_costs val m inp dmin dmax) conf mask).

  Hypothesis HB : 1 <= B.
  Hypothesis Hs : 0 < s.
  Hypothesis Hd : dmin <= dmax.

  Lemma nd_pos : 1 <= nd.
  Proof. subst nd. unfold nb_disp. assert (0 <= (dmax - dmin) * s) by (apply Z.mul_nonneg_nonneg; lia). lia. Qed.

  Lemma costs_nonempty : forall r c, pixel_costs val m inp dmin dmax r c <> [].
  Proof.
    intros r c E. apply (f_equal (@length _)) in E. rewrite pixel_costs_length in E.
    cbn [length] in E. pose proof nd_pos. subst nd s. lia.
  Qed.

  Lemma costs_no_inf : forall r c, WtaP.no_subst_inf mx (pixel_costs val m inp dmin dmax r c).
  Proof.
    intros r c x Hin E. unfold pixel_costs in Hin. rewrite in_map_iff in Hin.
    destruct Hin as [k [Hk _]]. subst x.
    destruct (mvolume m inp dmin dmax r c k); cbn [omap] in E; [|discriminate].
    destruct mx; cbn in E; discriminate.
  Qed.

  (* wta_within_interval: a pixel with at least one computable cost receives the coordinate of a
     sample k of the axis whose cost is computable, which lies inside the pixel's own interval and
     inside the global one, and whose cost is the extremum of the pixel's computable costs *)
  Theorem wta_within_interval : forall r c k0 v0,
    0 <= r < i_ny inp -> 0 <= c < i_nx inp ->
    0 <= k0 < nd -> mvolume m inp dmin dmax r c k0 = Some v0 ->
    exists k v, 0 <= k < nd
      /\ wta_on_volume r c = Some (sample_q s dmin k)
      /\ mvolume m inp dmin dmax r c k = Some v
      /\ i_gmin inp r c * s <= disp_scaled s dmin k <= i_gmax inp r c * s
      /\ (inject_Z (i_gmin inp r c) <= sample_q s dmin k /\ sample_q s dmin k <= inject_Z (i_gmax inp r c))%Q
      /\ (inject_Z dmin <= sample_q s dmin k /\ sample_q s dmin k <= inject_Z dmax)%Q
      /\ (forall k' v', 0 <= k' < nd -> mvolume m inp dmin dmax r c k' = Some v' ->
            le_dir mx (Fin (val v)) (Fin (val v')) = true).
  Proof.
    intros r c k0 v0 Hr Hc Hk0 Hv0.
    assert (C0 : Spec.Wta.computable (pixel_costs val m inp dmin dmax r c) (Z.to_nat k0) (Fin (val v0))).
    { unfold Spec.Wta.computable. subst nd s. rewrite pixel_costs_nth_error by lia. now rewrite Hv0. }
    destruct (WtaP.wta_winner_all mx B (i_ny inp) (i_nx inp) (disp_axis (i_s inp) dmin dmax) invalid
                (pixel_costs val m inp dmin dmax) conf mask r c HB Hr Hc (costs_nonempty r c) (costs_no_inf r c)
                _ _ C0) as (kn & e & Hlen & Hcomp & Hout & Hbest & _).
    rewrite pixel_costs_length in Hlen. fold s nd in Hlen.
    set (k := Z.of_nat kn). assert (Hk : 0 <= k < nd) by lia.
    unfold Spec.Wta.computable in Hcomp.
    replace kn with (Z.to_nat k) in Hcomp, Hout by lia.
    subst nd s. rewrite pixel_costs_nth_error in Hcomp by lia.
    destruct (mvolume m inp dmin dmax r c k) as [v|] eqn:Ev; cbn [omap] in Hcomp; [|discriminate].
    assert (e = Fin (val v)) by congruence. subst e.
    rewrite disp_axis_nth in Hout by lia.
    exists k, v. split; [exact Hk|]. split; [exact Hout|]. split; [exact Ev|].
    assert (IN : in_pixel_interval (i_s inp) (i_gmin inp) (i_gmax inp) r c (disp_scaled (i_s inp) dmin k) = true).
    { destruct (in_pixel_interval (i_s inp) (i_gmin inp) (i_gmax inp) r c (disp_scaled (i_s inp) dmin k)) eqn:E;
        [reflexivity|]. rewrite (mvolume_outside_is_nan m inp dmin dmax r c k Hk E) in Ev. discriminate. }
    unfold in_pixel_interval in IN.
    assert (ZI : i_gmin inp r c * i_s inp <= disp_scaled (i_s inp) dmin k <= i_gmax inp r c * i_s inp) by lia.
    split; [exact ZI|]. split; [|split].
    - unfold sample_q, Qle, inject_Z. cbn [Qnum Qden]. rewrite Z2Pos.id by lia. lia.
    - destruct (stored_interval_is_searched (i_s inp) dmin dmax Hs Hd) as (_ & _ & F & L & A).
      destruct (A k Hk) as [A1 A2]. rewrite F in A1. rewrite L in A2. split; assumption.
    - intros k' v' Hk' Hv'. apply (Hbest (Z.to_nat k')).
      unfold Spec.Wta.computable. rewrite pixel_costs_nth_error by lia. now rewrite Hv'.
  Qed.

  (* a pixel without any computable cost receives invalid_disparity (and only such a pixel: above) *)
  Theorem wta_no_cost_invalid : forall r c,
    0 <= r < i_ny inp -> 0 <= c < i_nx inp ->
    (forall k, 0 <= k < nd -> mvolume m inp dmin dmax r c k = None) ->
    wta_on_volume r c = invalid.
  Proof.
    intros r c Hr Hc Hn.
    apply (WtaP.wta_invalid_all mx B (i_ny inp) (i_nx inp) (disp_axis (i_s inp) dmin dmax) invalid
             (pixel_costs val m inp dmin dmax) conf mask r c HB Hr Hc (costs_nonempty r c) (costs_no_inf r c)).
    intros j e Hj. unfold Spec.Wta.computable in Hj.
    assert (Hlt : (j < length (pixel_costs val m inp dmin dmax r c))%nat).
    { apply nth_error_Some. rewrite Hj. discriminate. }
    rewrite pixel_costs_length in Hlt.
    replace j with (Z.to_nat (Z.of_nat j)) in Hj by lia.
    subst nd s. rewrite pixel_costs_nth_error in Hj by lia.
    rewrite Hn in Hj by lia. discriminate.
  Qed.
End WtaOnVolume.

(* ------------------------------------------------------------------ restriction to a smaller interval *)

(* Nested scalar intervals [a, b] in [a', b'], same images: if the winner of the run on [a', b'] lies in
   [a, b], the run on [a, b] has the same winner (same disparity), for every pixel, measure, valuation,
   block sizes, min or max.  (The relation the harness tests on the real code.) *)
Theorem wta_restriction : forall val m inp a b a' b' mx B B' invalid invalid' conf conf' mask mask' r c kJ,
  1 <= B -> 1 <= B' -> 0 < i_s inp -> a <= b -> a' <= a -> b <= b' ->
  0 <= r < i_ny inp -> 0 <= c < i_nx inp ->
  0 <= kJ < nb_disp (i_s inp) a b ->
  mvolume m (scalar_grids inp a' b') a' b' r c (kJ + (a - a') * i_s inp) <> None ->
  wta_on_volume val m (scalar_grids inp a' b') a' b' mx B' invalid' conf' mask' r c
    = Some (sample_q (i_s inp) a' (kJ + (a - a') * i_s inp)) ->
  wta_on_volume val m (scalar_grids inp a b) a b mx B invalid conf mask r c = Some (sample_q (i_s inp) a kJ).
Proof.
  intros val m inp a b a' b' mx B B' invalid invalid' conf conf' mask mask' r c kJ
         HB HB' Hs Hab Ha Hb Hr Hc HkJ HcJ HwJ.
  set (s := i_s inp) in *. set (sh := (a - a') * s) in *.
  assert (Hab' : a' <= b') by lia.
  assert (SL : forall k, 0 <= k < nb_disp s a b ->
            0 <= k + sh < nb_disp s a' b' /\ disp_scaled s a k = disp_scaled s a' (k + sh)
            /\ mvolume m (scalar_grids inp a b) a b r c k = mvolume m (scalar_grids inp a' b') a' b' r c (k + sh)).
  { intros k Hk. destruct (slice_index s a b a' b' k ltac:(lia) Ha Hb Hk) as [R E]. split; [exact R|]. split; [exact E|].
    apply (cost_indep_of_interval m inp a b a' b' r c k); [fold s; lia|assumption|assumption|exact Hk]. }
  destruct (SL kJ HkJ) as (RJ & EJ & VJ).
  destruct (mvolume m (scalar_grids inp a' b') a' b' r c (kJ + sh)) as [vJ|] eqn:EvJ; [|congruence].
  (* the two winners *)
  destruct (wta_within_interval val m (scalar_grids inp a b) a b mx B invalid conf mask HB Hs Hab r c kJ vJ Hr Hc
              HkJ ltac:(now rewrite VJ)) as (kI & vI & HkI & HoI & EvI & _ & _ & _ & BestI).
  destruct (wta_within_interval val m (scalar_grids inp a' b') a' b' mx B' invalid' conf' mask' HB' Hs Hab' r c
              (kJ + sh) vJ Hr Hc RJ EvJ) as (kW & vW & HkW & HoW & EvW & _ & _ & _ & BestW).
  cbn [scalar_grids with_grids i_s] in *. fold s in HoI, HoW, HkI, HkW, BestI, BestW.
  (* the J winner is kJ + sh *)
  assert (kW = kJ + sh).
  { rewrite HwJ in HoW. injection HoW as E. unfold sample_q, disp_scaled in E.
    assert (E2 : a' * s + (kJ + sh) = a' * s + kW) by congruence. lia. }
  subst kW. assert (vW = vJ) by congruence. subst vW.
  destruct (SL kI HkI) as (RI & EI & VI). rewrite EvI in VI.
  (* ties: use the "first index" clause of both runs through wta_winner_all *)
  pose proof (BestI kJ vJ HkJ ltac:(now rewrite VJ)) as LIJ.
  pose proof (BestW (kI + sh) vI RI ltac:(now symmetry)) as LJI.
  rewrite HoI. f_equal. f_equal.
  (* first-index clauses *)
  assert (CI : Spec.Wta.computable (pixel_costs val m (scalar_grids inp a b) a b r c) (Z.to_nat kJ) (Fin (val vJ))).
  { unfold Spec.Wta.computable. rewrite pixel_costs_nth_error by (cbn [scalar_grids with_grids i_s]; fold s; lia).
    now rewrite VJ. }
  assert (CW : Spec.Wta.computable (pixel_costs val m (scalar_grids inp a' b') a' b' r c) (Z.to_nat (kI + sh)) (Fin (val vI))).
  { unfold Spec.Wta.computable. rewrite pixel_costs_nth_error by (cbn [scalar_grids with_grids i_s]; fold s; lia).
    now rewrite <- VI. }
  destruct (WtaP.wta_winner_all mx B (i_ny inp) (i_nx inp) (disp_axis s a b) invalid
              (pixel_costs val m (scalar_grids inp a b) a b) conf mask r c HB Hr Hc
              (costs_nonempty val m (scalar_grids inp a b) a b conf mask Hs Hab r c)
              (costs_no_inf val m (scalar_grids inp a b) a b mx r c) _ _ CI)
    as (n1 & e1 & L1 & C1 & O1 & _ & T1).
  destruct (WtaP.wta_winner_all mx B' (i_ny inp) (i_nx inp) (disp_axis s a' b') invalid'
              (pixel_costs val m (scalar_grids inp a' b') a' b') conf' mask' r c HB' Hr Hc
              (costs_nonempty val m (scalar_grids inp a' b') a' b' conf' mask' Hs Hab' r c)
              (costs_no_inf val m (scalar_grids inp a' b') a' b' mx r c) _ _ CW)
    as (n2 & e2 & L2 & C2 & O2 & _ & T2).
  rewrite pixel_costs_length in L1, L2. cbn [scalar_grids with_grids i_s] in L1, L2. fold s in L1, L2.
  (* identify n1 = kI, n2 = kJ + sh from the outputs *)
  unfold wta_on_volume in HoI, HwJ. cbn [scalar_grids with_grids i_s i_ny i_nx] in HoI, HwJ. fold s in HoI, HwJ.
  rewrite O1 in HoI. rewrite O2 in HwJ.
  replace n1 with (Z.to_nat (Z.of_nat n1)) in HoI by lia. rewrite disp_axis_nth in HoI by lia.
  replace n2 with (Z.to_nat (Z.of_nat n2)) in HwJ by lia. rewrite disp_axis_nth in HwJ by lia.
  injection HoI as E1. injection HwJ as E2. unfold disp_scaled in E1, E2.
  assert (N1 : Z.of_nat n1 = kI) by lia. assert (N2 : Z.of_nat n2 = kJ + sh) by lia.
  unfold Spec.Wta.computable in C1, C2.
  replace n1 with (Z.to_nat kI) in C1 by lia. replace n2 with (Z.to_nat (kJ + sh)) in C2 by lia.
  rewrite pixel_costs_nth_error in C1 by (cbn [scalar_grids with_grids i_s]; fold s; lia).
  rewrite pixel_costs_nth_error in C2 by (cbn [scalar_grids with_grids i_s]; fold s; lia).
  rewrite EvI in C1. rewrite EvJ in C2. cbn [omap] in C1, C2.
  assert (e1 = Fin (val vI)) by congruence. assert (e2 = Fin (val vJ)) by congruence. subst e1 e2.
  pose proof (T1 (Z.to_nat kJ) (Fin (val vJ)) CI LJI) as P1.
  pose proof (T2 (Z.to_nat (kI + sh)) (Fin (val vI)) CW LIJ) as P2.
  lia.
Qed.

(* ------------------------------------------------------------------ the last clause: invariant and composition *)

(* any number of ARBITRARY steps, each preserving "valid pixels lie in [dmin, dmax]", preserve it *)
Lemma steps_preserve_interval :
  forall (steps : list (dstate -> dstate)) ny nx dmin dmax st0,
    Forall (fun f => forall st, in_global_interval ny nx dmin dmax st -> in_global_interval ny nx dmin dmax (f st)) steps ->
    in_global_interval ny nx dmin dmax st0 ->
    in_global_interval ny nx dmin dmax (fold_left (fun st f => f st) steps st0).
Proof.
  intros steps ny nx dmin dmax. induction steps as [|f steps IH]; intros st0 HF H0; cbn [fold_left]; [exact H0|].
  inversion HF; subst. apply IH; [assumption|]. auto.
Qed.

(* base case: the state produced by WTA on the matching-cost volume *)
Lemma wta_state_in_global_interval : forall val m inp dmin dmax mx B invalid conf mask,
  1 <= B -> 0 < i_s inp -> dmin <= dmax ->
  in_global_interval (i_ny inp) (i_nx inp) dmin dmax
    (mkD (wta_on_volume val m inp dmin dmax mx B invalid conf mask) (has_cost m inp dmin dmax)).
Proof.
  intros val m inp dmin dmax mx B invalid conf mask HB Hs Hd r c Hr Hc Hv. cbn [d_valid d_map] in *.
  unfold has_cost in Hv. apply existsb_exists in Hv. destruct Hv as [k0 [Hk0 Hv]]. rewrite zrange_In in Hk0.
  destruct (mvolume m inp dmin dmax r c k0) as [v0|] eqn:E; [|discriminate].
  destruct (wta_within_interval val m inp dmin dmax mx B invalid conf mask HB Hs Hd r c k0 v0 Hr Hc
              ltac:(lia) E) as (k & v & _ & Ho & _ & _ & _ & [G1 G2] & _).
  exists (sample_q (i_s inp) dmin k). auto.
Qed.
