(* C12 -- transparency of the confidence steps for the built-in steps that have a model
   (Model/ConfPipeline.v): winner-takes-all disparity, cbca aggregation, refinement. *)
From Coq Require Import ZArith QArith List Bool.
From Pandora Require Import Lib.Ext Model.Wta Model.ConfPipeline Proofs.ConfidenceP.
Import ListNotations.
Open Scope Z_scope.

(* ---- Model/Wta.v: to_disp is handed the confidence bands; nothing but [o_conf] depends on them *)
Definition wta_ignores_bands_stmt : Prop :=
  forall mx B nr nc disps invalid cv (conf conf' : Z -> Z -> list (option Q)) mask,
    let o := to_disp mx B nr nc disps invalid cv conf mask in
    let o' := to_disp mx B nr nc disps invalid cv conf' mask in
    o_disp o = o_disp o' /\ o_mask o = o_mask o' /\ o_cv o = o_cv o' /\ o_disp_indices o = o_disp_indices o'
    /\ o_conf o = conf.
Lemma wta_ignores_bands : wta_ignores_bands_stmt.
Proof. intros mx B nr nc disps invalid cv conf conf' mask. cbn. repeat split; reflexivity. Qed.

(* ---- each built-in step: the core result does not depend on the bands it is given *)
Lemma builtin_core_indep s : is_builtin s = true -> forall c b b',
  fst (bexec1 (c, b) s) = fst (bexec1 (c, b') s).
Proof.
  intros Hs c b b'. destruct s as [step m|B invalid|p|K me]; [discriminate| | |]; cbn [bexec1].
  - unfold wta_exec. cbn [fst snd]. destruct c as [k|]; reflexivity.
  - unfold cbca_exec. cbn [fst snd]. destruct c as [k|]; reflexivity.
  - unfold refine_exec. cbn [fst snd]. destruct c as [k|]; [|reflexivity].
    destruct (k_disp k) as [[d msk]|]; [|reflexivity].
    destruct (Refine.refine_map _ _ _ _ _ _ _); reflexivity.
Qed.

(* ---- a confidence step leaves the core alone *)
Lemma conf_core_unchanged step m c b : fst (bexec1 (c, b) (SConf step m)) = c.
Proof. reflexivity. Qed.

(* ---- once a step has raised, the state stays "raised" (what later steps compute is irrelevant) *)
Definition raised (st : state) : Prop := fst st = None \/ snd st = None.
Lemma raised_sticky st s : raised st -> raised (bexec1 st s).
Proof.
  destruct st as [c b]. intros [H|H]; cbn [fst snd] in H; subst.
  - left. destruct s; reflexivity.
  - destruct s as [step m|B invalid|p|K me]; cbn [bexec1].
    + right. unfold conf_exec, conf_bands. cbn [fst snd]. destruct c; reflexivity.
    + right. unfold wta_exec. cbn [fst snd]. destruct c; reflexivity.
    + right. unfold cbca_exec. cbn [fst snd]. destruct c; reflexivity.
    + right. unfold refine_exec. cbn [fst snd]. destruct c as [k|]; [|reflexivity].
      destruct (k_disp k) as [[d msk]|]; [|reflexivity].
      destruct (Refine.refine_map _ _ _ _ _ _ _); reflexivity.
Qed.

(* ---- the concrete steps as steps of the abstract theorem *)
Definition embed (s : bstep) : pstep (option core) (option conf) :=
  match s with
  | SConf step m => ConfStep _ _ (conf_bands step m)
  | _ => OtherStep _ _ (fun c => fst (bexec1 (c, None) s)) (fun c b => snd (bexec1 (c, b) s))
  end.

Lemma exec1_embed st s : exec1 _ _ st (embed s) = bexec1 st s.
Proof.
  destruct st as [c b]. destruct s as [step m|B invalid|p|K me]; cbn [embed exec1 fst snd].
  - reflexivity.
  - rewrite (builtin_core_indep (SWta B invalid) eq_refl c None b). symmetry. apply surjective_pairing.
  - rewrite (builtin_core_indep (SCbca p) eq_refl c None b). symmetry. apply surjective_pairing.
  - rewrite (builtin_core_indep (SRefine K me) eq_refl c None b). symmetry. apply surjective_pairing.
Qed.

Lemma exec_embed p : forall st, exec _ _ (map embed p) st = bexec p st.
Proof.
  unfold exec, bexec. induction p as [|s r IH]; intro st; [reflexivity|].
  cbn [map fold_left]. rewrite exec1_embed. apply IH.
Qed.

Lemma filter_embed p : filter (not_conf _ _) (map embed p) = map embed (filter is_builtin p).
Proof.
  induction p as [|s r IH]; [reflexivity|]. cbn [map filter].
  destruct s; cbn [embed not_conf is_builtin]; rewrite IH; reflexivity.
Qed.

Definition transparent_builtin_stmt : Prop :=
  forall (p : list bstep) (c : option core) (b b' : option conf),
    fst (bexec p (c, b)) = fst (bexec (filter is_builtin p) (c, b')).

Lemma transparent_builtin : transparent_builtin_stmt.
Proof.
  intros p c b b'. rewrite <- !exec_embed, <- filter_embed. apply confidence_steps_transparent.
Qed.

(* the clause of the property, on runs that do not raise: cost volume, disparity map and validity mask
   ([k1], the whole core) are those of the same pipeline without its confidence steps, whatever bands
   that one starts from *)
Definition transparent_builtin_run_stmt : Prop :=
  forall (p : list bstep) (k : core) (b b' : conf) (k1 : core) (b1 : conf),
    bexec p (Some k, Some b) = (Some k1, Some b1) ->
    exists bo, bexec (filter is_builtin p) (Some k, Some b') = (Some k1, bo).
Lemma transparent_builtin_run : transparent_builtin_run_stmt.
Proof.
  intros p k b b' k1 b1 H. pose proof (transparent_builtin p (Some k) (Some b) (Some b')) as T.
  rewrite H in T. cbn [fst] in T.
  destruct (bexec (filter is_builtin p) (Some k, Some b')) as [c2 b2] eqn:E. cbn [fst] in T. subst c2.
  exists b2. reflexivity.
Qed.

Lemma raised_sticky_run p : forall st, raised st -> raised (bexec p st).
Proof.
  unfold bexec. induction p as [|s r IH]; intros st H; [exact H|]. cbn [fold_left]. apply IH, raised_sticky, H.
Qed.
