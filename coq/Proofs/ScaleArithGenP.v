(* Per-run obligations on Gen/ScaleArith.v (regenerated from /repo by translator/gen_scale_arith.py:
   run_prepare (both branches), matching_cost_prepare, run_multiscale of pandora/state_machine.py, translated
   statement by statement; the interval expressions of FixedZoomPyramid.disparity_range are in
   Gen/ScaleArithRange.v, obligations in Proofs/ScaleArithRangeGenP.v):

     part 1   GENERATED = HAND-WRITTEN MODEL, for ALL inputs (Model/Multiscale.v: run_prepare_interval,
              right_interval, scale_interval; Proofs/MirrorP.v: prepare_single, prepare_multi).  A slip in the arithmetic of the source (`//` for `/`, an exponent off by one,
              a right interval not negated or not swapped, a marge dropped, nanmax for nanmin, ...) changes
              the generated text and one of these equalities no longer type-checks / is no longer provable.
     part 2   the interval theorems of C15 restated on the generated functions
     part 3   the prepare_single / prepare_multi mirror facts of C08 restated on the generated functions *)
From Coq Require Import ZArith QArith Qround List Bool Lia Lqa.
From Pandora Require Import Lib.Blocks Model.Dataset Model.Machine Model.Multiscale Model.ScaleArith Model.Mirror.
From Pandora Require Import Spec.Multiscale Proofs.MultiscaleP Proofs.MirrorP Gen.ScaleArith.
Import ListNotations.
Open Scope Z_scope.

(* ====================================================================== part 1: generated = model *)

(* ---- run_prepare, prologue: both parameters given -> they are used; else one scale, factor 1 *)
Lemma gen_params_is_model pn psf :
  run_prepare_params pn psf = match pn, psf with Some n, Some sf => (n, sf) | _, _ => (1, 1) end.
Proof. reflexivity. Qed.

(* the multiscale branch is taken iff self.num_scales > 1 ... *)
Lemma gen_is_multi_is_model sn ssf : run_prepare_is_multi sn ssf = (1 <? sn).
Proof. unfold run_prepare_is_multi. rewrite Z.gtb_ltb. reflexivity. Qed.

(* ... which happens only when both parameters were given (so that the branch may use them as ints) *)
Lemma gen_multi_needs_params pn psf :
  run_prepare_is_multi (fst (run_prepare_params pn psf)) (snd (run_prepare_params pn psf)) = true ->
  exists n sf, pn = Some n /\ psf = Some sf /\ run_prepare_params pn psf = (n, sf) /\ 1 < n.
Proof.
  rewrite gen_is_multi_is_model. destruct pn as [n|], psf as [sf|]; cbn; intros H; try discriminate.
  exists n, sf. repeat split. apply Z.ltb_lt. exact H.
Qed.

(* ---- run_prepare, multiscale branch.  The model: Model.Multiscale.run_prepare_interval (user interval
   / sf^n), right_interval (negated and swapped); the user attributes are copies; the pyramid is built with n
   levels and factor sf; current_scale = n - 1 *)
Definition model_prepare_multi (n : nat) (sf dmin dmax : Z) : prep_multi :=
  let i := run_prepare_interval dmin dmax sf n in
  let r := right_interval i in
  mkPrepMulti (Z.of_nat n) sf (Z.of_nat n - 1) (fst i) (snd i) (fst i) (snd i) (fst r) (snd r) (fst r) (snd r).

Lemma gen_prepare_multi_is_model n sf dmin dmax :
  run_prepare_multi (Z.of_nat n) sf (Z.of_nat n) sf (inject_Z dmin) (inject_Z dmax) = model_prepare_multi n sf dmin dmax.
Proof. reflexivity. Qed.

(* the same for arbitrary (not only integer) bounds and without identifying parameters and attributes:
   every field, for ALL inputs *)
Lemma gen_prepare_multi_fields pn psf sn ssf lmin lmax :
  let o := run_prepare_multi pn psf sn ssf lmin lmax in
  let d := inject_Z (ssf ^ sn) in
  pm_pyramid_levels o = sn /\ pm_pyramid_factor o = psf /\ pm_current_scale o = pn - 1 /\
  pm_disp_min o = (lmin / d)%Q /\ pm_disp_max o = (lmax / d)%Q /\
  pm_dmin_user o = pm_disp_min o /\ pm_dmax_user o = pm_disp_max o /\
  (pm_right_disp_min o, pm_right_disp_max o) = right_interval (pm_disp_min o, pm_disp_max o) /\
  pm_dmin_user_right o = pm_right_disp_min o /\ pm_dmax_user_right o = pm_right_disp_max o.
Proof. repeat split. Qed.

(* ---- run_prepare, else branch: the interval as given; the right interval as given, or negated and swapped *)
Definition model_prepare_mono (lmin lmax : Q) (right_disp : option (Q * Q)) : prep_mono :=
  let r := match right_disp with Some r => r | None => right_interval (lmin, lmax) end in
  mkPrepMono 0 lmin lmax (fst r) (snd r).

Lemma gen_prepare_mono_is_model sn ssf lmin lmax rd :
  run_prepare_mono sn ssf lmin lmax rd = model_prepare_mono lmin lmax rd.
Proof. destruct rd as [[a b]|]; reflexivity. Qed.

(* ---- matching_cost_prepare: x scale_factor (Model.Multiscale.scale_interval), the right interval only under
   the guard; the cost volumes are allocated on the scaled intervals *)
Definition model_mcp (sf : Z) (g : bool) (l r : Q * Q) : mcp_out :=
  let l' := scale_interval sf l in
  let r' := if g then scale_interval sf r else r in
  mkMcp (fst l') (snd l') (fst r') (snd r') (Some l') (if g then Some r' else None).

Lemma gen_mcp_is_model sf g dmin dmax rmin rmax :
  matching_cost_prepare sf g dmin dmax rmin rmax = model_mcp sf g (dmin, dmax) (rmin, rmax).
Proof. destruct g; reflexivity. Qed.

(* ---- run_multiscale: the user interval x scale_factor, handed to disparity_range; scale - 1 *)
Definition model_msc (sf cs : Z) (g : bool) (u ur : Q * Q) : msc_out :=
  let u' := scale_interval sf u in
  let ur' := if g then scale_interval sf ur else ur in
  mkMsc (fst u') (snd u') (fst ur') (snd ur') (Some u') (if g then Some ur' else None) (cs - 1).

Lemma gen_msc_is_model sf cs g a b c d :
  run_multiscale sf cs g a b c d = model_msc sf cs g (a, b) (c, d).
Proof. destruct g; reflexivity. Qed.

(* ---- the non-numeric attributes of run_prepare *)
Definition model_multi_wiring : wiring :=
  [ (A_img_left_pyramid, WRest (WPyramid WLeftParam)); (A_img_right_pyramid, WRest (WPyramid WRightParam));
    (A_left_img, WFirst (WPyramid WLeftParam)); (A_right_img, WFirst (WPyramid WRightParam));
    (A_left_disparity, WEmptyDataset); (A_right_disparity, WEmptyDataset); (A_right_disp_map, WConfig) ].
Definition model_mono_wiring : wiring :=
  [ (A_left_img, WLeftParam); (A_right_img, WRightParam);
    (A_left_disparity, WEmptyDataset); (A_right_disparity, WEmptyDataset); (A_right_disp_map, WConfig) ].

Definition wiring_same (w w' : wiring) : bool :=
  forallb (fun a => osrc_eqb (wlookup w a) (wlookup w' a)) all_wattrs.

Lemma gen_wiring_is_model :
  wiring_same run_prepare_multi_wiring model_multi_wiring = true /\
  wiring_same run_prepare_mono_wiring model_mono_wiring = true /\
  wiring_mirrored run_prepare_multi_wiring = true /\ wiring_mirrored run_prepare_mono_wiring = true.
Proof. vm_compute. repeat split. Qed.

(* ====================================================================== part 2: C15 on the generated functions *)

Definition qpair_eq (p q : Q * Q) : Prop := (fst p == fst q)%Q /\ (snd p == snd q)%Q.

(* the whole preparation of a multiscale run as the code executes it: prologue, branch test, branch *)
Definition gen_prepare (n : nat) (sf dmin dmax : Z) : prep_multi :=
  let p := run_prepare_params (Some (Z.of_nat n)) (Some sf) in
  run_prepare_multi (Z.of_nat n) sf (fst p) (snd p) (inject_Z dmin) (inject_Z dmax).

(* the first matching_cost_prepare of the run *)
Definition gen_first_mcp (n : nat) (sf dmin dmax : Z) (wr : bool) : mcp_out :=
  let p := gen_prepare n sf dmin dmax in
  matching_cost_prepare (pm_pyramid_factor p) wr (pm_disp_min p) (pm_disp_max p) (pm_right_disp_min p) (pm_right_disp_max p).

Lemma scale_right_interval sf i :
  qpair_eq (scale_interval sf (right_interval i)) (right_interval (scale_interval sf i)).
Proof. destruct i as [a b]. unfold qpair_eq, scale_interval, right_interval. cbn [fst snd]. split; ring. Qed.

(* the grids of the first execution in the model of the whole run (Model.Multiscale.run_grids) are the
   intervals the generated run_prepare + matching_cost_prepare hand to allocate_cost_volume *)
Lemma gen_first_grids ib marge sf dmin dmax H W n wr lvls :
  exists a b, mc_alloc_left (gen_first_mcp n sf dmin dmax wr) = Some a /\
    hd_error (run_grids ib marge sf dmin dmax H W n wr lvls) = Some (GConst H W a, if wr then Some (GConst H W b) else None) /\
    (if wr then exists b', mc_alloc_right (gen_first_mcp n sf dmin dmax wr) = Some b' /\ qpair_eq b' b
     else mc_alloc_right (gen_first_mcp n sf dmin dmax wr) = None).
Proof.
  set (i0 := run_prepare_interval dmin dmax sf n).
  exists (scale_interval sf i0), (right_interval (scale_interval sf i0)).
  destruct wr; (split; [reflexivity|]); (split; [reflexivity|]); [|reflexivity].
  exists (scale_interval sf (right_interval i0)). split; [reflexivity|]. apply scale_right_interval.
Qed.

(* C15_coarsest_interval on the generated functions: a pyramid of n levels of factor sf is built,
   current_scale = n - 1, and the first cost volumes are allocated on the user interval / sf^(n-1), the
   mirrored interval for the right one *)
Theorem gen_coarsest_interval n sf dmin dmax : 1 <= sf -> (1 <= n)%nat ->
  let p := gen_prepare n sf dmin dmax in
  pm_pyramid_levels p = Z.of_nat n /\ pm_pyramid_factor p = sf /\ pm_current_scale p = Z.of_nat n - 1 /\
  exists a ar, mc_alloc_left (gen_first_mcp n sf dmin dmax true) = Some a /\
               mc_alloc_right (gen_first_mcp n sf dmin dmax true) = Some ar /\
               mc_alloc_left (gen_first_mcp n sf dmin dmax false) = Some a /\
               mc_alloc_right (gen_first_mcp n sf dmin dmax false) = None /\
               qpair_eq a (user_interval dmin dmax sf (n - 1)) /\ qpair_eq ar (mirrored a).
Proof.
  intros Hsf Hn p. split; [reflexivity|]. split; [reflexivity|]. split; [reflexivity|].
  set (i0 := run_prepare_interval dmin dmax sf n).
  exists (scale_interval sf i0), (scale_interval sf (right_interval i0)).
  split; [reflexivity|]. split; [reflexivity|]. split; [reflexivity|]. split; [reflexivity|].
  split; [exact (user_at_level dmin dmax sf n 1 Hsf Hn)|].
  apply scale_right_interval.
Qed.

(* k executions of the generated run_multiscale after the generated run_prepare *)
Fixpoint gen_msc_iter (sf : Z) (g : bool) (k : nat) (s : msc_out) : msc_out :=
  match k with
  | O => s
  | S k' => gen_msc_iter sf g k' (run_multiscale sf (ms_current_scale s) g (ms_dmin_user s) (ms_dmax_user s)
                                              (ms_dmin_user_right s) (ms_dmax_user_right s))
  end.

Definition gen_after_prepare (n : nat) (sf dmin dmax : Z) : msc_out :=
  let p := gen_prepare n sf dmin dmax in
  mkMsc (pm_dmin_user p) (pm_dmax_user p) (pm_dmin_user_right p) (pm_dmax_user_right p) None None (pm_current_scale p).

Lemma gen_msc_iter_val sf k : forall s,
  let t := gen_msc_iter sf true k s in
  qpair_eq (ms_dmin_user t, ms_dmax_user t) (iter_scale sf k (ms_dmin_user s, ms_dmax_user s)) /\
  qpair_eq (ms_dmin_user_right t, ms_dmax_user_right t) (iter_scale sf k (ms_dmin_user_right s, ms_dmax_user_right s)) /\
  ms_current_scale t = ms_current_scale s - Z.of_nat k /\
  ((0 < k)%nat -> ms_range_left t = Some (ms_dmin_user t, ms_dmax_user t) /\
                  ms_range_right t = Some (ms_dmin_user_right t, ms_dmax_user_right t)).
Proof.
  induction k as [|k IH]; intros s t.
  - subst t. cbn [gen_msc_iter iter_scale]. repeat split; try reflexivity; try lia.
  - subst t. cbn [gen_msc_iter iter_scale].
    set (s1 := run_multiscale sf (ms_current_scale s) true (ms_dmin_user s) (ms_dmax_user s)
                              (ms_dmin_user_right s) (ms_dmax_user_right s)).
    destruct (IH s1) as (A & B & C & D).
    split; [exact A|]. split; [exact B|]. split.
    + rewrite C. unfold s1. cbn [run_multiscale ms_current_scale]. lia.
    + intros _. destruct k as [|k'].
      * cbn [gen_msc_iter]. unfold s1. split; reflexivity.
      * apply D. lia.
Qed.

(* the user interval every level falls back to, and the scale counter: after k run_multiscale callbacks the
   machine holds the user interval seen from level n - k (the argument of the k-th disparity_range call),
   the mirrored one for the right image, and current_scale = n - 1 - k *)
Theorem gen_user_interval_at_level n sf dmin dmax k : 1 <= sf -> (k <= n)%nat ->
  let t := gen_msc_iter sf true k (gen_after_prepare n sf dmin dmax) in
  qpair_eq (ms_dmin_user t, ms_dmax_user t) (user_interval dmin dmax sf (n - k)) /\
  qpair_eq (ms_dmin_user_right t, ms_dmax_user_right t) (mirrored (user_interval dmin dmax sf (n - k))) /\
  ms_current_scale t = Z.of_nat n - 1 - Z.of_nat k /\
  ((0 < k)%nat -> ms_range_left t = Some (ms_dmin_user t, ms_dmax_user t) /\
                  ms_range_right t = Some (ms_dmin_user_right t, ms_dmax_user_right t)).
Proof.
  intros Hsf Hk t.
  destruct (gen_msc_iter_val sf k (gen_after_prepare n sf dmin dmax)) as (A & B & C & D). fold t in A, B, C, D.
  pose proof (user_at_level dmin dmax sf n k Hsf Hk) as U. cbv zeta in U.
  set (i0 := run_prepare_interval dmin dmax sf n) in *.
  change (ms_dmin_user (gen_after_prepare n sf dmin dmax), ms_dmax_user (gen_after_prepare n sf dmin dmax))
    with i0 in A.
  change (ms_dmin_user_right (gen_after_prepare n sf dmin dmax), ms_dmax_user_right (gen_after_prepare n sf dmin dmax))
    with (right_interval i0) in B.
  split; [|split; [|split; [exact C | exact D]]].
  - destruct A as [A1 A2], U as [U1 U2]. split; [rewrite A1; exact U1 | rewrite A2; exact U2].
  - destruct B as [B1 B2], U as [U1 U2].
    destruct (iter_scale_val sf k (right_interval i0)) as [R1 R2].
    destruct (iter_scale_val sf k i0) as [I1 I2].
    unfold qpair_eq, mirrored. cbn [fst snd] in *. split.
    + rewrite B1, R1. unfold right_interval. cbn [fst snd]. rewrite <- U2, I2. ring.
    + rewrite B2, R2. unfold right_interval. cbn [fst snd]. rewrite <- U1, I1. ring.
Qed.

(* the left user bounds after k generated run_multiscale callbacks are, term for term, k applications of
   Model.Multiscale.scale_interval *)
Lemma gen_msc_iter_left sf g k : forall s,
  (ms_dmin_user (gen_msc_iter sf g k s), ms_dmax_user (gen_msc_iter sf g k s))
  = iter_scale sf k (ms_dmin_user s, ms_dmax_user s).
Proof.
  induction k as [|k IH]; intros s; [reflexivity|].
  cbn [gen_msc_iter iter_scale]. rewrite IH. f_equal. destruct g; reflexivity.
Qed.

(* the grids of every finer level in the model of the whole run (Model.Multiscale.run_grids, the object of
   C15_finer_interval) are next_grids applied to the very bounds the generated run_multiscale hands to
   disparity_range at its (i+1)-th execution *)
Theorem gen_finer_grids_user ib marge sf dmin dmax H W n wr lvls i l :
  nth_error lvls i = Some l ->
  exists u gr, ms_range_left (gen_msc_iter sf true (S i) (gen_after_prepare n sf dmin dmax)) = Some u /\
    nth_error (run_grids ib marge sf dmin dmax H W n wr lvls) (S i)
    = Some (GMap (next_grids ib (lv_ws l) marge sf (fst (lv_left l)) (snd (lv_left l)) (fst u) (snd u)
                             (fst (lv_zoom l)) (snd (lv_zoom l))), gr).
Proof.
  intros Hl. set (t := gen_msc_iter sf true (S i) (gen_after_prepare n sf dmin dmax)).
  exists (ms_dmin_user t, ms_dmax_user t).
  destruct (gen_msc_iter_val sf (S i) (gen_after_prepare n sf dmin dmax)) as (_ & _ & _ & D).
  destruct (D ltac:(lia)) as [D1 _]. fold t in D1.
  unfold run_grids. cbn [nth_error].
  rewrite (finer_grids_nth ib marge sf lvls _ i l Hl). cbv zeta.
  pose proof (gen_msc_iter_left sf true (S i) (gen_after_prepare n sf dmin dmax)) as E. fold t in E.
  change (ms_dmin_user (gen_after_prepare n sf dmin dmax), ms_dmax_user (gen_after_prepare n sf dmin dmax))
    with (run_prepare_interval dmin dmax sf n) in E.
  rewrite <- E. eexists. split; [exact D1 | reflexivity].
Qed.

(* ====================================================================== part 3: C08 on the generated functions *)

(* the content of the sixteen slots after the generated run_prepare.  Values: a rational (an interval bound at
   one pixel) or an image-like value of an arbitrary type A (images, pyramids, datasets) with arbitrary
   pyramid / first-level / remaining-levels functions *)
Section GenState.
  Variable A : Type.
  Variables (pyrA firstA restA : A -> A) (emptyA cfgA noneA : A).

  Inductive gv := GQ (q : Q) | GA (a : A).

  Definition gneg (v : gv) : gv := match v with GQ q => GQ (- q) | x => x end.
  Definition gdv (d : Z) (v : gv) : gv := match v with GQ q => GQ (q / inject_Z d) | x => x end.
  Definition gpyr (v : gv) : gv := match v with GA a => GA (pyrA a) | x => x end.
  Definition gfirst (v : gv) : gv := match v with GA a => GA (firstA a) | x => x end.
  Definition grest (v : gv) : gv := match v with GA a => GA (restA a) | x => x end.

  Fixpoint wval (L R : A) (s : wsrc) : A :=
    match s with
    | WLeftParam => L | WRightParam => R
    | WPyramid x => pyrA (wval L R x) | WFirst x => firstA (wval L R x) | WRest x => restA (wval L R x)
    | WEmptyDataset => emptyA | WConfig => cfgA | WNone => noneA
    end.

  (* an attribute the wiring table does not assign keeps the value [emptyA] of an unassigned slot *)
  Definition wget (w : wiring) (L R : A) (a : wattr) : gv :=
    match wlookup w a with Some s => GA (wval L R s) | None => GA emptyA end.

  (* cost volumes are not assigned by run_prepare (Proofs/MirrorP.v gives them the value of the unassigned
     slots; matching_cost_prepare writes them before any read) *)
  Definition gen_multi_state (pn psf sn ssf : Z) (L R : A) (lmin lmax : Q) : state gv :=
    let o := run_prepare_multi pn psf sn ssf lmin lmax in
    let w := run_prepare_multi_wiring in
    fun x => match x with
             | Limg => wget w L R A_left_img | Rimg => wget w L R A_right_img
             | Lpyr => wget w L R A_img_left_pyramid | Rpyr => wget w L R A_img_right_pyramid
             | Ldisp => wget w L R A_left_disparity | Rdisp => wget w L R A_right_disparity
             | Lmin => GQ (pm_disp_min o) | Lmax => GQ (pm_disp_max o)
             | Rmin => GQ (pm_right_disp_min o) | Rmax => GQ (pm_right_disp_max o)
             | Lumin => GQ (pm_dmin_user o) | Lumax => GQ (pm_dmax_user o)
             | Rumin => GQ (pm_dmin_user_right o) | Rumax => GQ (pm_dmax_user_right o)
             | Lcv | Rcv => GA emptyA
             end.

  (* single scale: the user attributes and the pyramids are not assigned *)
  Definition gen_mono_state (sn ssf : Z) (L R : A) (lmin lmax : Q) (rd : option (Q * Q)) : state gv :=
    let o := run_prepare_mono sn ssf lmin lmax rd in
    let w := run_prepare_mono_wiring in
    fun x => match x with
             | Limg => wget w L R A_left_img | Rimg => wget w L R A_right_img
             | Ldisp => wget w L R A_left_disparity | Rdisp => wget w L R A_right_disparity
             | Lmin => GQ (po_disp_min o) | Lmax => GQ (po_disp_max o)
             | Rmin => GQ (po_right_disp_min o) | Rmax => GQ (po_right_disp_max o)
             | _ => GA emptyA
             end.

  (* generated = hand-written prepare_multi / prepare_single of Proofs/MirrorP.v, instantiated with the sign
     change and the division by sf^n on rationals *)
  Lemma gen_multi_state_is_model n sf L R lmin lmax : forall x,
    gen_multi_state n sf n sf L R lmin lmax x
    = prepare_multi gv gneg (gdv (sf ^ n)) gpyr gfirst grest (GA emptyA) (GA L) (GA R) (GQ lmin) (GQ lmax) x.
  Proof. intros x. destruct x; reflexivity. Qed.

  Lemma gen_mono_state_is_model sn ssf L R lmin lmax : forall x,
    gen_mono_state sn ssf L R lmin lmax None x
    = prepare_single gv gneg (GA emptyA) (GA L) (GA R) (GQ lmin) (GQ lmax) x.
  Proof. intros x. destruct x; reflexivity. Qed.

  (* a right interval given in the input is used as it is *)
  Lemma gen_mono_given_right sn ssf L R lmin lmax rmin rmax :
    gen_mono_state sn ssf L R lmin lmax (Some (rmin, rmax)) Rmin = GQ rmin /\
    gen_mono_state sn ssf L R lmin lmax (Some (rmin, rmax)) Rmax = GQ rmax /\
    forall x, x <> Rmin -> x <> Rmax ->
              gen_mono_state sn ssf L R lmin lmax (Some (rmin, rmax)) x = gen_mono_state sn ssf L R lmin lmax None x.
  Proof. split; [reflexivity|]. split; [reflexivity|]. intros x H1 H2. destruct x; try reflexivity; congruence. Qed.

  (* the two hypotheses Proofs/MirrorP.v makes about the interval arithmetic, for the generated one *)
  Lemma gneg_invol v : gneg (gneg v) = v.
  Proof.
    destruct v as [[n d]|a]; [|reflexivity]. unfold gneg, Qopp. cbn [Qnum Qden]. rewrite Z.opp_involutive. reflexivity.
  Qed.

  Lemma gdv_gneg d v : gdv d (gneg v) = gneg (gdv d v).
  Proof.
    destruct v as [[n dn]|a]; [|reflexivity]. unfold gdv, gneg, Qdiv, Qmult, Qopp. cbn [Qnum Qden].
    rewrite Z.mul_opp_l. reflexivity.
  Qed.

  (* the mirrored problem (images exchanged, interval negated and swapped) is prepared into the exchanged state *)
  Theorem gen_prepare_multi_mirror n sf L R lmin lmax : forall x,
    gen_multi_state n sf n sf R L (- lmax) (- lmin) x = gen_multi_state n sf n sf L R lmin lmax (swap_slot x).
  Proof.
    intros x. rewrite !gen_multi_state_is_model.
    exact (prepare_multi_swap gv gneg (gdv (sf ^ n)) gpyr gfirst grest (GA emptyA) gneg_invol (gdv_gneg (sf ^ n))
                              (GA L) (GA R) (GQ lmin) (GQ lmax) x).
  Qed.

  Theorem gen_prepare_mono_mirror sn ssf L R lmin lmax : forall x,
    gen_mono_state sn ssf R L (- lmax) (- lmin) None x = gen_mono_state sn ssf L R lmin lmax None (swap_slot x).
  Proof.
    intros x. rewrite !gen_mono_state_is_model.
    exact (prepare_single_swap gv gneg (GA emptyA) gneg_invol (GA L) (GA R) (GQ lmin) (GQ lmax) x).
  Qed.
End GenState.

(* the mirror theorems of Proofs/MirrorP.v for runs that start from the GENERATED preparation *)
Section GenMirror.
  Variable A : Type.
  Variables (pyrA firstA restA : A -> A) (emptyA cfgA noneA : A).
  Let V := gv A.
  Variable F : fname -> list V -> list V.
  Variable D : Type.
  Variable disp_of : V -> D.
  Variables (chk : V -> V -> V) (itp : V -> V).
  Hypothesis F_chk : forall a b, F FCrossCheck [a; b] = [chk a b].
  Hypothesis F_itp : forall a, F FInterpolate [a] = [itp a].
  Hypothesis chk_other : forall a b b', disp_of b = disp_of b' -> chk a b = chk a b'.
  Hypothesis chk_disp : forall a b, disp_of (chk a b) = disp_of a.
  Variable cbs : cbname -> list segment.
  Hypothesis Hok : callbacks_ok cbs = true.

  Theorem gen_mirror_multi pl n sf L R lmin lmax : no_seg pl ->
    let s  := exec_run V F cbs true pl (gen_multi_state A pyrA firstA restA emptyA cfgA noneA n sf n sf L R lmin lmax) in
    let s' := exec_run V F cbs true pl
                       (gen_multi_state A pyrA firstA restA emptyA cfgA noneA n sf n sf R L (- lmax) (- lmin)) in
    forall x, s' x = s (swap_slot x).
  Proof.
    intros Hns s s' x. unfold s', s.
    rewrite (exec_run_ext V F cbs true pl _ _ (gen_multi_state_is_model A pyrA firstA restA emptyA cfgA noneA n sf R L (- lmax) (- lmin)) x).
    rewrite (exec_run_ext V F cbs true pl _ _ (gen_multi_state_is_model A pyrA firstA restA emptyA cfgA noneA n sf L R lmin lmax) (swap_slot x)).
    exact (mirror_multi V F D disp_of chk itp F_chk F_itp chk_other chk_disp
                        (gneg A) (gdv A (sf ^ n)) (gpyr A pyrA) (gfirst A firstA) (grest A restA) (GA A emptyA)
                        (gneg_invol A) (gdv_gneg A (sf ^ n)) cbs Hok pl (GA A L) (GA A R) (GQ A lmin) (GQ A lmax) Hns x).
  Qed.

  Theorem gen_mirror_single pl sn ssf L R lmin lmax : no_seg pl ->
    let s  := exec_run V F cbs true pl (gen_mono_state A pyrA firstA restA emptyA cfgA noneA sn ssf L R lmin lmax None) in
    let s' := exec_run V F cbs true pl
                       (gen_mono_state A pyrA firstA restA emptyA cfgA noneA sn ssf R L (- lmax) (- lmin) None) in
    forall x, s' x = s (swap_slot x).
  Proof.
    intros Hns s s' x. unfold s', s.
    rewrite (exec_run_ext V F cbs true pl _ _ (gen_mono_state_is_model A pyrA firstA restA emptyA cfgA noneA sn ssf R L (- lmax) (- lmin)) x).
    rewrite (exec_run_ext V F cbs true pl _ _ (gen_mono_state_is_model A pyrA firstA restA emptyA cfgA noneA sn ssf L R lmin lmax) (swap_slot x)).
    exact (mirror_single V F D disp_of chk itp F_chk F_itp chk_other chk_disp
                         (gneg A) (GA A emptyA) (gneg_invol A) cbs Hok pl (GA A L) (GA A R) (GQ A lmin) (GQ A lmax) Hns x).
  Qed.
End GenMirror.
