(* Schedule independence of race-free prange loops (C18, threading part).

   Part 1 (semantics): if the footprints of the iterations are pairwise disjoint
   ([disjoint_fp]) then EVERY interleaving of their atomic reads and writes that lets all
   of them finish leaves the memory the sequential loop leaves; so does every order of
   whole iterations.  Invariant: "running the residual programs sequentially from the
   current memory gives, cell by cell, what the sequential loop gives from the start".

   Part 2 (datum): a nest that passes [race_free_b] induces disjoint footprints for every
   family of iteration programs that conforms to it. *)
From Coq Require Import ZArith List Bool String Lia Permutation.
From Pandora Require Import Model.Prange.
Import ListNotations.
Open Scope Z_scope.

Lemma zs_eqb_eq a : forall b, zs_eqb a b = true <-> a = b.
Proof.
  induction a as [|x a IH]; destruct b as [|y b]; cbn; split; try congruence; try discriminate.
  - rewrite andb_true_iff, Z.eqb_eq, IH. intros [-> ->]; reflexivity.
  - intros H; inversion H; subst. rewrite Z.eqb_refl. cbn. apply IH. reflexivity.
Qed.

Lemma cell_eqb_eq c d : cell_eqb c d = true <-> c = d.
Proof.
  destruct c as [a x], d as [b y]. unfold cell_eqb; cbn [fst snd].
  rewrite andb_true_iff, String.eqb_eq, zs_eqb_eq. split.
  - intros [-> ->]; reflexivity.
  - intros H; inversion H; auto.
Qed.

Lemma cell_eqb_refl c : cell_eqb c c = true.
Proof. apply cell_eqb_eq. reflexivity. Qed.

Section Sem.
  Variable val : Type.
  Notation prog := (prog val).
  Notation mem := (mem val).

  Definition meq (m m' : mem) : Prop := forall c, m c = m' c.

  Lemma upd_same (m : mem) c v : upd val m c v c = v.
  Proof. unfold upd. now rewrite cell_eqb_refl. Qed.
  Lemma upd_other (m : mem) c v d : d <> c -> upd val m c v d = m d.
  Proof.
    unfold upd. intros H. destruct (cell_eqb d c) eqn:E; [|reflexivity].
    apply cell_eqb_eq in E. contradiction.
  Qed.
  Lemma upd_ext (m m' : mem) c v : meq m m' -> meq (upd val m c v) (upd val m' c v).
  Proof. intros H d. unfold upd. destruct (cell_eqb d c); auto. Qed.

  (* the result of an iteration depends on the memory only cell-wise *)
  Lemma solo_ext p : forall m m', meq m m' -> meq (solo val p m) (solo val p m').
  Proof.
    induction p as [|c k IH|c v k IH]; intros m m' H; cbn.
    - exact H.
    - rewrite (H c). apply IH. exact H.
    - apply IH. apply upd_ext. exact H.
  Qed.

  Lemma seq_run_ext n pool : forall m m', meq m m' -> meq (seq_run val n pool m) (seq_run val n pool m').
  Proof. induction n; intros m m' H; cbn; [exact H|]. apply solo_ext. apply IHn. exact H. Qed.

  Lemma seq_run_pool_ext n : forall pool pool' m,
    (forall j, (j < n)%nat -> pool j = pool' j) -> seq_run val n pool m = seq_run val n pool' m.
  Proof.
    induction n; intros pool pool' m H; cbn; [reflexivity|].
    rewrite (H n) by lia. rewrite (IHn pool pool') by (intros; apply H; lia). reflexivity.
  Qed.

  (* [quiet c v p]: p never reads c, and writes c with value v only *)
  Fixpoint quiet (c : cell) (v : val) (p : prog) : Prop :=
    match p with
    | Done => True
    | Read c' k => c' <> c /\ forall x, quiet c v (k x)
    | Write c' v' k => (c' = c -> v' = v) /\ quiet c v k
    end.
  (* [nowrite c p]: p never writes c *)
  Fixpoint nowrite (c : cell) (p : prog) : Prop :=
    match p with
    | Done => True
    | Read _ k => forall x, nowrite c (k x)
    | Write c' _ k => c' <> c /\ nowrite c k
    end.

  Lemma upd_upd_comm (m : mem) c v c' v' : (c' = c -> v' = v) ->
    meq (upd val (upd val m c v) c' v') (upd val (upd val m c' v') c v).
  Proof.
    intros H d. unfold upd.
    destruct (cell_eqb d c') eqn:E1, (cell_eqb d c) eqn:E2; try reflexivity.
    apply cell_eqb_eq in E1. apply cell_eqb_eq in E2. subst d. apply H. exact E2.
  Qed.

  (* a write another iteration performs commutes with a whole iteration *)
  Lemma solo_comm_write c v p : forall m, quiet c v p ->
    meq (solo val p (upd val m c v)) (upd val (solo val p m) c v).
  Proof.
    induction p as [|c' k IH|c' v' k IH]; intros m Hq; cbn.
    - intros d; reflexivity.
    - destruct Hq as [Hne Hq]. rewrite upd_other by exact Hne. apply IH. apply Hq.
    - destruct Hq as [Hv Hq]. intros d.
      rewrite (solo_ext k _ _ (upd_upd_comm m c v c' v' Hv) d). apply IH. exact Hq.
  Qed.

  Lemma solo_frame c p : forall m, nowrite c p -> solo val p m c = m c.
  Proof.
    induction p as [|c' k IH|c' v' k IH]; intros m Hn; cbn.
    - reflexivity.
    - apply IH. apply Hn.
    - destruct Hn as [Hne Hn]. rewrite IH by exact Hn. apply upd_other. congruence.
  Qed.

  Lemma seq_run_comm_write c v pool : forall n m,
    (forall j, (j < n)%nat -> quiet c v (pool j)) ->
    meq (seq_run val n pool (upd val m c v)) (upd val (seq_run val n pool m) c v).
  Proof.
    induction n; intros m H; cbn.
    - intros d; reflexivity.
    - intros d.
      rewrite (solo_ext (pool n) _ _ (IHn m (fun j Hj => H j (Nat.lt_lt_succ_r _ _ Hj))) d).
      apply solo_comm_write. apply H. lia.
  Qed.

  Lemma seq_run_frame c pool : forall n m,
    (forall j, (j < n)%nat -> nowrite c (pool j)) -> seq_run val n pool m c = m c.
  Proof.
    induction n; intros m H; cbn; [reflexivity|].
    rewrite solo_frame by (apply H; lia). apply IHn. intros; apply H; lia.
  Qed.

  (* ------------------------------------------------------------ footprints *)
  Variables R W : nat -> cell -> bool.
  Variable K : cell -> option val.
  Hypothesis Hdis : disjoint_fp val R W K.

  Notation fp i := (fp_ok val (R i) (W i) K).

  Lemma fp_quiet_write i j c v p : i <> j -> (W i c = true \/ K c = Some v) -> fp j p -> quiet c v p.
  Proof.
    intros Hij Hw. destruct Hdis as [H1 H2].
    induction p as [|c' k IH|c' v' k IH]; cbn; [trivial| |].
    - intros [Hr Hk]. split; [|intros x; apply IH; apply Hk].
      intros ->. destruct Hw as [Hw|Hw].
      + destruct (H1 i j c Hij Hw) as [_ E]. congruence.
      + destruct (H2 j c v Hw) as [E _]. congruence.
    - intros [Hw' Hk]. split; [|apply IH; exact Hk].
      intros ->. destruct Hw as [Hw|Hw].
      + destruct (H1 i j c Hij Hw) as [E _]. destruct Hw' as [Hw'|Hw']; [congruence|].
        destruct (H2 i c v' Hw') as [_ E']. congruence.
      + destruct (H2 j c v Hw) as [_ E]. destruct Hw' as [Hw'|Hw']; congruence.
  Qed.

  Lemma fp_nowrite_read i j c p : i <> j -> R i c = true -> fp j p -> nowrite c p.
  Proof.
    intros Hij Hr. destruct Hdis as [H1 H2].
    induction p as [|c' k IH|c' v' k IH]; cbn; [trivial| |].
    - intros [_ Hk] x. apply IH. apply Hk.
    - intros [Hw Hk]. split; [|apply IH; exact Hk].
      intros ->. destruct Hw as [Hw|Hw].
      + destruct (H1 j i c (not_eq_sym Hij) Hw) as [_ E]. congruence.
      + destruct (H2 i c v' Hw) as [E _]. congruence.
  Qed.

  Definition all_fp (pool : nat -> prog) : Prop := forall i, fp i (pool i).

  Lemma upd_pool_same pool i (p : prog) : upd_pool val pool i p i = p.
  Proof. unfold upd_pool. now rewrite Nat.eqb_refl. Qed.
  Lemma upd_pool_other pool i (p : prog) j : j <> i -> upd_pool val pool i p j = pool j.
  Proof. unfold upd_pool. intros H. destruct (Nat.eqb j i) eqn:E; [apply Nat.eqb_eq in E; contradiction|reflexivity]. Qed.

  Lemma step1_fp i pool m : all_fp pool -> all_fp (fst (step1 val i pool m)).
  Proof.
    intros H. unfold step1. pose proof (H i) as Hi.
    destruct (pool i) as [|c k|c v k] eqn:E; cbn [fst]; [exact H| |]; intros j;
      (destruct (Nat.eq_dec j i) as [->|Hne];
       [rewrite upd_pool_same | rewrite upd_pool_other by exact Hne; apply H]).
    - cbn in Hi. apply Hi.
    - cbn in Hi. apply Hi.
  Qed.

  (* For n <= i the configuration after the step differs from the one before exactly by the
     write; for n > i the sequential completions agree. *)
  Lemma step1_seq_run i pool m : all_fp pool -> forall n,
    match pool i with
    | Write c v _ =>
        if (n <=? i)%nat
        then meq (seq_run val n (fst (step1 val i pool m)) (snd (step1 val i pool m)))
                 (upd val (seq_run val n pool m) c v)
        else meq (seq_run val n (fst (step1 val i pool m)) (snd (step1 val i pool m)))
                 (seq_run val n pool m)
    | _ =>
        meq (seq_run val n (fst (step1 val i pool m)) (snd (step1 val i pool m))) (seq_run val n pool m)
    end.
  Proof.
    intros H n. unfold step1. pose proof (H i) as Hi.
    destruct (pool i) as [|c k|c v k] eqn:E; cbn [fst snd].
    - intros d; reflexivity.
    - cbn in Hi. destruct Hi as [Hr Hk].
      induction n as [|n IH]; [intros d; reflexivity|]. cbn [seq_run]. intros d.
      destruct (Nat.eq_dec n i) as [->|Hne].
      + rewrite upd_pool_same.
        rewrite (seq_run_pool_ext i (upd_pool val pool i (k (m c))) pool)
          by (intros j Hj; apply upd_pool_other; lia).
        rewrite E. cbn [solo].
        rewrite (seq_run_frame c pool i m); [reflexivity|].
        intros j Hj. apply (fp_nowrite_read i j); [lia|exact Hr|apply H].
      + rewrite upd_pool_other by exact Hne. apply solo_ext. exact IH.
    - cbn in Hi. destruct Hi as [Hw Hk].
      induction n as [|n IH].
      + cbn. intros d; reflexivity.
      + destruct (Nat.leb_spec (S n) i) as [Hle|Hgt].
        * (* S n <= i: all iterations below S n are other iterations: the write commutes *)
          rewrite (seq_run_pool_ext (S n) (upd_pool val pool i k) pool)
            by (intros j Hj; apply upd_pool_other; lia).
          apply seq_run_comm_write. intros j Hj. apply (fp_quiet_write i j); [lia|exact Hw|apply H].
        * cbn [seq_run]. destruct (Nat.eq_dec n i) as [->|Hne].
          -- rewrite upd_pool_same. rewrite Nat.leb_refl in IH.
             intros d. rewrite (solo_ext k _ _ IH d). rewrite E. cbn [solo]. reflexivity.
          -- rewrite upd_pool_other by exact Hne.
             destruct (Nat.leb_spec n i) as [Hle'|Hgt']; [lia|].
             apply solo_ext. exact IH.
  Qed.

  Lemma step1_invariant i pool m n : all_fp pool -> (i < n)%nat ->
    meq (seq_run val n (fst (step1 val i pool m)) (snd (step1 val i pool m))) (seq_run val n pool m).
  Proof.
    intros H Hi. pose proof (step1_seq_run i pool m H n) as L.
    destruct (pool i); try exact L.
    destruct (Nat.leb_spec n i); [lia|exact L].
  Qed.

  Lemma step1_idle i pool m : pool i = Done -> step1 val i pool m = (pool, m).
  Proof. unfold step1. intros ->. reflexivity. Qed.

  (* Every schedule: any interleaving of atomic operations of the n iterations (indices
     beyond n, or of finished iterations, are idle turns). *)
  Theorem sched_invariant n : forall s pool m,
    all_fp pool -> (forall i, (n <= i)%nat -> pool i = Done) ->
    let '(pool', m') := run_sched val s pool m in
    meq (seq_run val n pool' m') (seq_run val n pool m) /\ all_fp pool' /\
    (forall i, (n <= i)%nat -> pool' i = Done).
  Proof.
    induction s as [|i s IH]; intros pool m Hfp Hdone; cbn [run_sched].
    - split; [intros d; reflexivity|auto].
    - destruct (step1 val i pool m) as [pool1 m1] eqn:E.
      destruct (Nat.lt_ge_cases i n) as [Hi|Hi].
      + pose proof (step1_invariant i pool m n Hfp Hi) as L. rewrite E in L. cbn [fst snd] in L.
        pose proof (step1_fp i pool m Hfp) as F. rewrite E in F. cbn [fst] in F.
        assert (D1 : forall j, (n <= j)%nat -> pool1 j = Done).
        { intros j Hj. unfold step1 in E. destruct (pool i); inversion E; subst; auto;
          rewrite upd_pool_other by lia; auto. }
        specialize (IH pool1 m1 F D1). destruct (run_sched val s pool1 m1) as [pool' m'].
        destruct IH as (A & B & C). split; [|auto]. intros d. rewrite (A d). apply L.
      + rewrite (step1_idle i pool m (Hdone i Hi)) in E. inversion E; subst. apply IH; auto.
  Qed.

  Lemma seq_run_done n pool m : (forall i, (i < n)%nat -> pool i = Done) -> seq_run val n pool m = m.
  Proof.
    induction n; intros H; cbn; [reflexivity|]. rewrite (H n) by lia. cbn. apply IHn. intros; apply H; lia.
  Qed.

  Theorem par_for_schedule_independent n (P : nat -> prog) (m0 : mem) :
    (forall i, fp i (P i)) -> (forall i, (n <= i)%nat -> P i = Done) ->
    forall s pool' m', run_sched val s P m0 = (pool', m') ->
      (forall i, pool' i = Done) ->
      forall c, m' c = seq_run val n P m0 c.
  Proof.
    intros Hfp Hdone s pool' m' E Hall c.
    pose proof (sched_invariant n s P m0 Hfp Hdone) as L. rewrite E in L. destruct L as (A & _ & _).
    rewrite <- (A c). rewrite seq_run_done; auto.
  Qed.

  (* whole iterations in any order *)
  Lemma solo_comm i j p q : i <> j -> fp i p -> fp j q ->
    forall m, meq (solo val p (solo val q m)) (solo val q (solo val p m)).
  Proof.
    intros Hij. induction p as [|c k IH|c v k IH]; intros Hp Hq m; cbn.
    - intros d; reflexivity.
    - destruct Hp as [Hr Hk].
      rewrite (solo_frame c q m) by (apply (fp_nowrite_read i j); auto).
      apply IH; auto.
    - destruct Hp as [Hw Hk]. intros d.
      assert (Q : quiet c v q) by (apply (fp_quiet_write i j); auto).
      rewrite <- (solo_ext k _ _ (solo_comm_write c v q m Q) d).
      apply IH; auto.
  Qed.

  Lemma run_list_ext (P : nat -> prog) l : forall m m', meq m m' -> meq (run_list val l P m) (run_list val l P m').
  Proof.
    unfold run_list. induction l as [|x l IH]; intros m m' H; cbn; [exact H|].
    apply IH. apply solo_ext. exact H.
  Qed.

  Lemma run_list_perm (P : nat -> prog) : (forall i, fp i (P i)) ->
    forall l l', Permutation l l' -> NoDup l -> forall m, meq (run_list val l P m) (run_list val l' P m).
  Proof.
    intros Hfp l l' Hp. induction Hp as [|x l l' Hp IH|x y l|l l1 l2 H1 IH1 H2 IH2]; intros Hnd m.
    - intros d; reflexivity.
    - unfold run_list; cbn. apply IH. now inversion Hnd.
    - unfold run_list; cbn. apply (run_list_ext P l).
      apply (solo_comm x y); auto. inversion Hnd as [|? ? Hnin _]; subst. intros ->. apply Hnin. now left.
    - intros d. rewrite (IH1 Hnd m d). apply IH2. apply (Permutation_NoDup H1 Hnd).
  Qed.

  Lemma run_list_seq (P : nat -> prog) n m : run_list val (seq 0 n) P m = seq_run val n P m.
  Proof.
    induction n; [reflexivity|]. rewrite seq_S. unfold run_list in *. rewrite fold_left_app. cbn.
    now rewrite IHn.
  Qed.

  Theorem par_for_permutation_independent n (P : nat -> prog) (m0 : mem) :
    (forall i, fp i (P i)) ->
    forall l, Permutation l (seq 0 n) -> forall c, run_list val l P m0 c = seq_run val n P m0 c.
  Proof.
    intros Hfp l Hp c. rewrite <- run_list_seq.
    apply (run_list_perm P Hfp l (seq 0 n) Hp).
    apply (Permutation_NoDup (Permutation_sym Hp)). apply seq_NoDup.
  Qed.

End Sem.

(* ------------------------------------------------------------------ Part 2: the datum *)
Section Datum.
  Variable val : Type.
  Variable cst : Z -> val.
  Variable own : cell -> option nat.
  Variable N : nest.
  Hypothesis Hrf : race_free_b N = true.

  Notation Wn := (W_of own N).
  Notation Rn := (R_of own N).
  Notation Kn := (K_of val cst N).

  Lemma stored_rule a : is_stored N a = true -> rule_of N a <> RNone.
  Proof.
    intros Hs. unfold race_free_b in Hrf. apply andb_true_iff in Hrf. destruct Hrf as [H _].
    apply andb_true_iff in H. destruct H as [H _]. rewrite forallb_forall in H.
    unfold is_stored in Hs. apply existsb_exists in Hs. destruct Hs as (b & Hin & Hb).
    apply String.eqb_eq in Hb. subst b. specialize (H a Hin). destruct (rule_of N a); congruence.
  Qed.

  Lemma datum_disjoint : disjoint_fp val Rn Wn Kn.
  Proof.
    split.
    - intros i j c Hij Hw. unfold R_of, W_of in *.
      destruct (rule_of N (fst c)) as [p| | |]; try discriminate.
      + apply andb_true_iff in Hw. destruct Hw as [Hs Hw]. rewrite Hs. cbn.
        destruct (nth_error (snd c) p) as [z|]; [|discriminate].
        apply Z.eqb_eq in Hw. subst z.
        assert (E : (Z.of_nat i =? Z.of_nat j) = false) by (apply Z.eqb_neq; lia).
        rewrite E. split; reflexivity.
      + apply andb_true_iff in Hw. destruct Hw as [Hs Hw]. rewrite Hs. cbn.
        destruct (own c) as [k|]; [|discriminate]. apply Nat.eqb_eq in Hw. subst k.
        assert (E : Nat.eqb i j = false) by (apply Nat.eqb_neq; exact Hij).
        rewrite E. split; reflexivity.
    - intros j c v Hk. unfold K_of, R_of, W_of in *.
      destruct (is_stored N (fst c)); [|discriminate].
      destruct (rule_of N (fst c)); try discriminate. split; reflexivity.
  Qed.

  Lemma idx_match_pos v i : forall ds zs p,
    idx_match v i ds zs -> ixc_is_var v (nth p ds IOther) = true ->
    nth_error zs p = Some (Z.of_nat i).
  Proof.
    induction ds as [|d ds IH]; intros zs p Hm Hv.
    - destruct p; discriminate.
    - destruct zs as [|z zs]; [contradiction|]. destruct Hm as [H1 H2]. destruct p as [|p]; cbn in *.
      + rewrite Hv in H1. now subst.
      + apply IH; auto.
  Qed.

  Lemma find_pos_ok v ds p : find_pos v ds = Some p -> pos_ok v p ds = true.
  Proof. unfold find_pos. intros H. apply find_some in H. apply H. Qed.

  Lemma in_accs_of d : In d (n_accs N) -> In d (accs_of (a_arr d) N).
  Proof. intros H. unfold accs_of. apply filter_In. split; [exact H|apply String.eqb_refl]. Qed.

  Lemma const_of_all ds z : const_of ds = Some z ->
    forall e, In e ds -> a_store e = true /\ exists y, a_val e = VConst y /\ y = z.
  Proof.
    unfold const_of. destruct ds as [|d ds]; [discriminate|].
    destruct (a_val d) as [z0| |]; try discriminate.
    destruct (forallb _ (d :: ds)) eqn:E; [|discriminate]. intros H; inversion H; subst z0.
    intros e He. rewrite forallb_forall in E. specialize (E e He).
    apply andb_true_iff in E. destruct E as [E1 E2]. split; [exact E1|].
    destruct (a_val e) as [y| |]; try discriminate. exists y. split; [reflexivity|]. now apply Z.eqb_eq.
  Qed.

  Lemma store_is_stored d : In d (n_accs N) -> a_store d = true -> is_stored N (a_arr d) = true.
  Proof.
    intros Hin Hs. unfold is_stored, stored_arrays. apply existsb_exists. exists (a_arr d). split.
    - apply in_map. apply filter_In. split; assumption.
    - apply String.eqb_refl.
  Qed.

  (* a conforming access lands in the induced footprint *)
  Lemma match_write i c d x : In d (n_accs N) -> acc_match own N i true c d -> val_match val cst d x ->
    Wn i c = true \/ Kn c = Some x.
  Proof.
    intros Hin (Ha & Hs & Hi & Ho) Hv.
    pose proof (store_is_stored d Hin Hs) as St. rewrite Ha in St.
    pose proof (stored_rule _ St) as Hr.
    unfold W_of, K_of. rewrite St. unfold rule_of in *. rewrite <- Ha in *.
    destruct (find_pos (n_var N) (accs_of (a_arr d) N)) as [p|] eqn:Ep.
    - left. apply find_pos_ok in Ep. unfold pos_ok in Ep. rewrite forallb_forall in Ep.
      specialize (Ep d (in_accs_of d Hin)).
      rewrite (idx_match_pos _ _ _ _ _ Hi Ep). cbn. apply Z.eqb_refl.
    - destruct (const_of (accs_of (a_arr d) N)) as [z|] eqn:Ec.
      + right. destruct (const_of_all _ _ Ec d (in_accs_of d Hin)) as (_ & y & Ey & ->).
        unfold val_match in Hv. rewrite Ey in Hv. now subst.
      + destruct (ind_ok (n_var N) (accs_of (a_arr d) N)) eqn:Ei; [|congruence].
        left. unfold ind_ok in Ei. rewrite forallb_forall in Ei. specialize (Ei d (in_accs_of d Hin)).
        apply andb_true_iff in Ei. destruct Ei as [Ei E3]. apply andb_true_iff in Ei. destruct Ei as [_ E2].
        rewrite Ho; [cbn; apply Nat.eqb_refl|exact E3|].
        intros E. rewrite E in E2. discriminate.
  Qed.

  Lemma match_read i c d : In d (n_accs N) -> acc_match own N i false c d -> Rn i c = true.
  Proof.
    intros Hin (Ha & Hs & Hi & Ho). unfold R_of.
    destruct (is_stored N (fst c)) eqn:St; [cbn|reflexivity].
    pose proof (stored_rule _ St) as Hr.
    unfold W_of. rewrite St. unfold rule_of in *. rewrite <- Ha in *.
    destruct (find_pos (n_var N) (accs_of (a_arr d) N)) as [p|] eqn:Ep.
    - apply find_pos_ok in Ep. unfold pos_ok in Ep. rewrite forallb_forall in Ep.
      specialize (Ep d (in_accs_of d Hin)).
      rewrite (idx_match_pos _ _ _ _ _ Hi Ep). cbn. apply Z.eqb_refl.
    - destruct (const_of (accs_of (a_arr d) N)) as [z|] eqn:Ec.
      + destruct (const_of_all _ _ Ec d (in_accs_of d Hin)) as (E & _). congruence.
      + destruct (ind_ok (n_var N) (accs_of (a_arr d) N)) eqn:Ei; [|congruence].
        unfold ind_ok in Ei. rewrite forallb_forall in Ei. specialize (Ei d (in_accs_of d Hin)).
        rewrite Hs in Ei. discriminate.
  Qed.

  Lemma conforms_fp i p : conforms val cst own N i p -> fp_ok val (Rn i) (Wn i) Kn p.
  Proof.
    induction p as [|c k IH|c x k IH]; cbn; [trivial| |].
    - intros [Hc Hk]. split; [|intros y; apply IH; apply Hk].
      destruct Hc as [Hns|(d & Hin & Hm)].
      + unfold R_of. now rewrite Hns.
      + apply (match_read i c d Hin Hm).
    - intros [(d & Hin & Hm & Hv) Hk]. split; [|apply IH; exact Hk].
      apply (match_write i c d x Hin Hm Hv).
  Qed.

  (* The statement of C18 for one generated nest: every interleaving = the sequential loop *)
  Theorem race_free_sound n (P : nat -> prog val) (m0 : mem val) :
    (forall i, conforms val cst own N i (P i)) -> (forall i, (n <= i)%nat -> P i = Done) ->
    forall s pool' m', run_sched val s P m0 = (pool', m') -> (forall i, pool' i = Done) ->
      forall c, m' c = seq_run val n P m0 c.
  Proof.
    intros Hc Hd. apply (par_for_schedule_independent val Rn Wn Kn datum_disjoint n P m0); auto.
    intros i. apply conforms_fp. apply Hc.
  Qed.

  Theorem race_free_sound_perm n (P : nat -> prog val) (m0 : mem val) :
    (forall i, conforms val cst own N i (P i)) ->
    forall l, Permutation l (seq 0 n) -> forall c, run_list val l P m0 c = seq_run val n P m0 c.
  Proof.
    intros Hc. apply (par_for_permutation_independent val Rn Wn Kn datum_disjoint n P m0).
    intros i. apply conforms_fp. apply Hc.
  Qed.
End Datum.
