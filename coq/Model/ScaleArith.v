(* Support of the GENERATED file Gen/ScaleArith.v (translator/gen_scale_arith.py): the result
   records the generated functions build and the Python operators their text uses.  The
   arithmetic itself is NOT here: Gen/ScaleArith.v is the text of
     pandora/state_machine.py   run_prepare (both branches), matching_cost_prepare, run_multiscale
     pandora/multiscale/fixed_zoom_pyramid.py   disparity_range (initial / window / invalid values, zoom)
   translated statement by statement, and Proofs/ScaleArithGenP.v proves, at every run, that the
   generated functions are the hand-written model (Model/Multiscale.v, the interval arithmetic
   of Proofs/MirrorP.v prepare_single / prepare_multi) for ALL inputs.

   Conventions of the generated text.  A disparity bound is a rational (Q): the code holds
   arrays / DataArrays and every operation it applies to them (unary minus, `/ int`, `* int`)
   acts pixel by pixel, so the generated functions are the arithmetic AT ONE PIXEL.  int-typed
   values (scale_factor, num_scales, current_scale, marge, window_size) are Z and are promoted with
   inject_Z where they meet a rational.  `a / b` is the exact quotient (Python true division;
   float rounding is outside the model, DESIGN 2.1), `a // b` the floor division, `a ** b` the
   integer power (int ** negative int is a float in Python: every statement using ** carries
   0 <= exponent), `int(x)` the truncation toward zero.
   Definitions only. *)
From Coq Require Import ZArith QArith Qround List.
Import ListNotations.
Open Scope Z_scope.

(* int(x): truncation toward zero (same definition as Model.Multiscale.qtrunc) *)
Definition py_int (q : Q) : Z := Z.quot (Qnum q) (Zpos (Qden q)).

(* a // b on floats / arrays: floor of the quotient, still a float *)
Definition py_floordiv (a b : Q) : Q := inject_Z (Qfloor (a / b)).

Definition is_none {A} (o : option A) : bool := match o with None => true | Some _ => false end.

(* ---- run_prepare, branch self.num_scales > 1: every numeric attribute the branch assigns, and
   the two numeric arguments of prepare_pyramid(left_img, right_img, <levels>, <factor>) *)
Record prep_multi := mkPrepMulti {
  pm_pyramid_levels : Z; pm_pyramid_factor : Z;
  pm_current_scale : Z;
  pm_disp_min : Q; pm_disp_max : Q;
  pm_dmin_user : Q; pm_dmax_user : Q;
  pm_right_disp_min : Q; pm_right_disp_max : Q;
  pm_dmin_user_right : Q; pm_dmax_user_right : Q }.

(* ---- run_prepare, else branch *)
Record prep_mono := mkPrepMono {
  po_current_scale : Z;
  po_disp_min : Q; po_disp_max : Q;
  po_right_disp_min : Q; po_right_disp_max : Q }.

(* ---- matching_cost_prepare: the four bounds after the callback and the interval handed to
   allocate_cost_volume for the left / right cost volume (None: no such call was executed) *)
Record mcp_out := mkMcp {
  mc_disp_min : Q; mc_disp_max : Q;
  mc_right_disp_min : Q; mc_right_disp_max : Q;
  mc_alloc_left : option (Q * Q); mc_alloc_right : option (Q * Q) }.

(* ---- run_multiscale: the user bounds after the callback, the (disp_min, disp_max) arguments of
   the two disparity_range calls, current_scale *)
Record msc_out := mkMsc {
  ms_dmin_user : Q; ms_dmax_user : Q;
  ms_dmin_user_right : Q; ms_dmax_user_right : Q;
  ms_range_left : option (Q * Q); ms_range_right : option (Q * Q);
  ms_current_scale : Z }.

(* ---- where the non-numeric attributes of run_prepare come from (symbolic execution of the
   statements by the translator).  prepare_pyramid(a, b, ..) returns the pyramid of its first and of
   its second argument; list.pop(0) returns the first level and leaves the rest *)
Inductive wsrc :=
| WLeftParam | WRightParam             (* the parameters left_img / right_img *)
| WPyramid (of : wsrc)                 (* the pyramid prepare_pyramid builds from that image *)
| WFirst (of : wsrc) | WRest (of : wsrc)   (* x.pop(0) / what is left of x *)
| WEmptyDataset                        (* xr.Dataset() *)
| WConfig                              (* a value read from cfg only *)
| WNone.

Fixpoint wsrc_eqb (a b : wsrc) : bool :=
  match a, b with
  | WLeftParam, WLeftParam | WRightParam, WRightParam | WEmptyDataset, WEmptyDataset
  | WConfig, WConfig | WNone, WNone => true
  | WPyramid x, WPyramid y | WFirst x, WFirst y | WRest x, WRest y => wsrc_eqb x y
  | _, _ => false
  end.

(* the same source for the exchanged image pair *)
Fixpoint wsrc_swap (a : wsrc) : wsrc :=
  match a with
  | WLeftParam => WRightParam | WRightParam => WLeftParam
  | WPyramid x => WPyramid (wsrc_swap x) | WFirst x => WFirst (wsrc_swap x) | WRest x => WRest (wsrc_swap x)
  | x => x
  end.

(* the non-numeric machine attributes run_prepare assigns *)
Inductive wattr :=
| A_left_img | A_right_img | A_img_left_pyramid | A_img_right_pyramid
| A_left_disparity | A_right_disparity | A_right_disp_map.

Definition wattr_eqb (a b : wattr) : bool :=
  match a, b with
  | A_left_img, A_left_img | A_right_img, A_right_img | A_img_left_pyramid, A_img_left_pyramid
  | A_img_right_pyramid, A_img_right_pyramid | A_left_disparity, A_left_disparity
  | A_right_disparity, A_right_disparity | A_right_disp_map, A_right_disp_map => true
  | _, _ => false
  end.

Definition wattr_swap (a : wattr) : wattr :=
  match a with
  | A_left_img => A_right_img | A_right_img => A_left_img
  | A_img_left_pyramid => A_img_right_pyramid | A_img_right_pyramid => A_img_left_pyramid
  | A_left_disparity => A_right_disparity | A_right_disparity => A_left_disparity
  | A_right_disp_map => A_right_disp_map
  end.

Definition wiring := list (wattr * wsrc).

Fixpoint wlookup (w : wiring) (a : wattr) : option wsrc :=
  match w with
  | [] => None
  | (b, s) :: r => if wattr_eqb a b then Some s else wlookup r a
  end.

Definition all_wattrs : list wattr :=
  [A_left_img; A_right_img; A_img_left_pyramid; A_img_right_pyramid; A_left_disparity; A_right_disparity;
   A_right_disp_map].

Definition osrc_eqb (a b : option wsrc) : bool :=
  match a, b with
  | Some x, Some y => wsrc_eqb x y
  | None, None => true
  | _, _ => false
  end.

(* the wiring is symmetric: what the exchanged attribute receives is the exchanged source *)
Definition wiring_mirrored (w : wiring) : bool :=
  forallb (fun a => osrc_eqb (wlookup w (wattr_swap a)) (option_map wsrc_swap (wlookup w a))) all_wattrs.

(* zoom(<array>, <factor>, order=<o>, mode=<m>) calls of disparity_range *)
Inductive zoom_mode := ZoomNearest | ZoomOther.
