(* The five numba kernels of pandora/aggregation/cbca.py written by hand in the IR of Lib/KernelIR.v
   (the canonical trees).  Proofs/CbcaIRP.v proves, for ALL inputs, that evaluating these trees
   gives what the functional model Model/Cbca.v computes (step1 / step2 / sum2 / step3 / step4 /
   sum4 / cross_support); Props/C11.v re-proves at every run that the trees regenerated from the
   source by translator/gen_cbca_kernels.py (Gen/CbcaKernels.v) ARE these trees.

   Variables are numbers (see the comment above each kernel); an array cell is a[i, j] with the
   FIRST index the image row (the code calls it `col`) and the second the image column (`row`).
   Definitions only. *)
From Coq Require Import ZArith QArith List.
From Pandora Require Import Lib.KernelIR Model.Cbca.
Import ListNotations.

(* ---- the body of the plane loop of cost_volume_aggregation around the four kernels *)

(* range_col[valid_index]: the columns whose correspondent is inside the right image *)
Definition valid_cols (nc ncR : Z) (d : Q) : list Z := filter (valid_col ncR d) (zrange 0 nc).

(* step1 = cbca_step_1(cv); step2, sum2 = cbca_step_2(step1, cross_left, cross_right, rc, rcr);
   step3 = cbca_step_3(step2); step4, sum4 = cbca_step_4(step3, sum2, cross_left, cross_right, rc, rcr) *)
Definition ir_plane (k1 k2 k3 k4 : kernel) (CV CL CR RC RCR : arr) : option (arr * arr) :=
  match run_kernel k1 [] [CV] with
  | Some [S1] =>
      match run_kernel k2 [] [S1; CL; CR; RC; RCR] with
      | Some [S2; SM2] =>
          match run_kernel k3 [] [S2] with
          | Some [S3] =>
              match run_kernel k4 [] [S3; SM2; CL; CR; RC; RCR] with
              | Some [S4; SM4] => Some (S4, SM4)
              | _ => None
              end
          | _ => None
          end
      | _ => None
      end
  | _ => None
  end.

(* agg = (cv + 0) * 0 (0, or NaN where the cost is NaN); agg += step4; sum4 += 1; agg /= sum4 *)
Definition finish_cell (cost : option Q) (v4 vn : val) : option (option Q) :=
  match v4, vn with
  | VFlt (Fin a), VFlt (Fin n) =>
      Some (match cost with
            | None => None
            | Some _ => Some (Qred ((0 + a) / (n + 1)))
            end)
  | _, _ => None
  end.

Open Scope nat_scope.

(* cbca_step_1(cv)   numba signature 'f8[:, :](f4[:, :])'
   scalars: 0=n_col_ 1=n_row_ 2=col 3=row
   arrays: 0=cv 1=step1
   Python text (comments and docstring removed):
     n_col_, n_row_ = cv.shape
     step1 = np.zeros((n_col_, n_row_ + 1), dtype=np.float64)
     for col in range(n_col_):
         for row in range(n_row_):
             if not np.isnan(cv[col, row]):
                 step1[col, row] = step1[col, row - 1] + cv[col, row]
             else:
                 step1[col, row] = step1[col, row - 1]
     return step1 *)
Definition cbca_step_1 : kernel :=
  mkKernel [(F32, 2)] 4 2
  [
    SAssign 0 (EShape 0 0);
    SAssign 1 (EShape 0 1);
    SAlloc 1 [(EVar 0); (EBin BAdd (EVar 1) (EInt (1)%Z))] F64;
    SFor 2 (EInt (0)%Z) (EVar 0) (EInt (1)%Z) [
      SFor 3 (EInt (0)%Z) (EVar 1) (EInt (1)%Z) [
        SIf (EUn UNot (EUn UIsNan (ELoad2 0 (EVar 2) (EVar 3)))) [
          SStore2 1 (EVar 2) (EVar 3) (EBin BAdd (ELoad2 1 (EVar 2) (EBin BSub (EVar 3) (EInt (1)%Z))) (ELoad2 0 (EVar 2) (EVar 3)))
        ] [
          SStore2 1 (EVar 2) (EVar 3) (ELoad2 1 (EVar 2) (EBin BSub (EVar 3) (EInt (1)%Z)))
        ]
      ]
    ]
  ]
  [1].

(* cbca_step_2(step1, cross_left, cross_right, range_col, range_col_right)   numba signature '(f8[:, :], i4[:, :, :], i4[:, :, :], i8[:], i8[:])'
   scalars: 0=n_col_ 1=n_row_ 2=col 3=row 4=right 5=left
   arrays: 0=step1 1=cross_left 2=cross_right 3=range_col 4=range_col_right 5=step2 6=sum_step2
   Python text (comments and docstring removed):
     n_col_, n_row_ = step1.shape
     step2 = np.zeros((n_col_, n_row_ - 1), dtype=np.float64)
     sum_step2 = np.zeros((n_col_, n_row_ - 1), dtype=np.float32)
     for col in range(step1.shape[0]):
         for row in range(range_col.shape[0]):
             right = min(
                 cross_left[col, range_col[row], 1],
                 cross_right[col, range_col_right[row], 1],
             )
             left = min(
                 cross_left[col, range_col[row], 0],
                 cross_right[col, range_col_right[row], 0],
             )
             step2[col, range_col[row]] = step1[col, range_col[row] + right] - step1[col, range_col[row] - left - 1]
             sum_step2[col, range_col[row]] += right + left
     return step2, sum_step2 *)
Definition cbca_step_2 : kernel :=
  mkKernel [(F64, 2); (I32, 3); (I32, 3); (I64, 1); (I64, 1)] 6 7
  [
    SAssign 0 (EShape 0 0);
    SAssign 1 (EShape 0 1);
    SAlloc 5 [(EVar 0); (EBin BSub (EVar 1) (EInt (1)%Z))] F64;
    SAlloc 6 [(EVar 0); (EBin BSub (EVar 1) (EInt (1)%Z))] F32;
    SFor 2 (EInt (0)%Z) (EShape 0 0) (EInt (1)%Z) [
      SFor 3 (EInt (0)%Z) (EShape 3 0) (EInt (1)%Z) [
        SAssign 4 (EBin BMin (ELoad3 1 (EVar 2) (ELoad1 3 (EVar 3)) (EInt (1)%Z)) (ELoad3 2 (EVar 2) (ELoad1 4 (EVar 3)) (EInt (1)%Z)));
        SAssign 5 (EBin BMin (ELoad3 1 (EVar 2) (ELoad1 3 (EVar 3)) (EInt (0)%Z)) (ELoad3 2 (EVar 2) (ELoad1 4 (EVar 3)) (EInt (0)%Z)));
        SStore2 5 (EVar 2) (ELoad1 3 (EVar 3)) (EBin BSub (ELoad2 0 (EVar 2) (EBin BAdd (ELoad1 3 (EVar 3)) (EVar 4))) (ELoad2 0 (EVar 2) (EBin BSub (EBin BSub (ELoad1 3 (EVar 3)) (EVar 5)) (EInt (1)%Z))));
        SAug2 6 (EVar 2) (ELoad1 3 (EVar 3)) (EBin BAdd (EVar 4) (EVar 5))
      ]
    ]
  ]
  [5; 6].

(* cbca_step_3(step2)   numba signature 'f8[:, :](f8[:, :])'
   scalars: 0=n_col_ 1=n_row_ 2=col 3=row
   arrays: 0=step2 1=step3
   Python text (comments and docstring removed):
     n_col_, n_row_ = step2.shape
     step3 = np.zeros((n_col_ + 1, n_row_), dtype=np.float64)
     step3[0, :] = step2[0, :]
     for col in range(1, n_col_):
         for row in range(n_row_):
             step3[col, row] = step3[col - 1, row] + step2[col, row]
     return step3 *)
Definition cbca_step_3 : kernel :=
  mkKernel [(F64, 2)] 4 2
  [
    SAssign 0 (EShape 0 0);
    SAssign 1 (EShape 0 1);
    SAlloc 1 [(EBin BAdd (EVar 0) (EInt (1)%Z)); (EVar 1)] F64;
    SRowCopy 1 (EInt (0)%Z) 0 (EInt (0)%Z);
    SFor 2 (EInt (1)%Z) (EVar 0) (EInt (1)%Z) [
      SFor 3 (EInt (0)%Z) (EVar 1) (EInt (1)%Z) [
        SStore2 1 (EVar 2) (EVar 3) (EBin BAdd (ELoad2 1 (EBin BSub (EVar 2) (EInt (1)%Z)) (EVar 3)) (ELoad2 0 (EVar 2) (EVar 3)))
      ]
    ]
  ]
  [1].

(* cbca_step_4(step3, sum2, cross_left, cross_right, range_col, range_col_right)   numba signature '(f8[:, :], f4[:, :], i4[:, :, :], i4[:, :, :], i8[:], i8[:])'
   scalars: 0=n_col_ 1=n_row_ 2=col 3=row 4=top 5=bot
   arrays: 0=step3 1=sum2 2=cross_left 3=cross_right 4=range_col 5=range_col_right 6=step4 7=sum4
   Python text (comments and docstring removed):
     n_col_, n_row_ = step3.shape
     step4 = np.zeros((n_col_ - 1, n_row_), dtype=np.float64)
     sum4 = np.copy(sum2)
     for col in range(step4.shape[0]):
         for row in range(range_col.shape[0]):
             top = min(
                 cross_left[col, range_col[row], 2],
                 cross_right[col, range_col_right[row], 2],
             )
             bot = min(
                 cross_left[col, range_col[row], 3],
                 cross_right[col, range_col_right[row], 3],
             )
             step4[col, range_col[row]] = step3[col + bot, range_col[row]] - step3[col - top - 1, range_col[row]]
             sum4[col, range_col[row]] += top + bot
             if top != 0:
                 sum4[col, range_col[row]] += np.sum(sum2[col - top : col, range_col[row]])
             if bot != 0:
                 sum4[col, range_col[row]] += np.sum(sum2[col + 1 : col + bot + 1, range_col[row]])
     return step4, sum4 *)
Definition cbca_step_4 : kernel :=
  mkKernel [(F64, 2); (F32, 2); (I32, 3); (I32, 3); (I64, 1); (I64, 1)] 6 8
  [
    SAssign 0 (EShape 0 0);
    SAssign 1 (EShape 0 1);
    SAlloc 6 [(EBin BSub (EVar 0) (EInt (1)%Z)); (EVar 1)] F64;
    SCopy 7 1;
    SFor 2 (EInt (0)%Z) (EShape 6 0) (EInt (1)%Z) [
      SFor 3 (EInt (0)%Z) (EShape 4 0) (EInt (1)%Z) [
        SAssign 4 (EBin BMin (ELoad3 2 (EVar 2) (ELoad1 4 (EVar 3)) (EInt (2)%Z)) (ELoad3 3 (EVar 2) (ELoad1 5 (EVar 3)) (EInt (2)%Z)));
        SAssign 5 (EBin BMin (ELoad3 2 (EVar 2) (ELoad1 4 (EVar 3)) (EInt (3)%Z)) (ELoad3 3 (EVar 2) (ELoad1 5 (EVar 3)) (EInt (3)%Z)));
        SStore2 6 (EVar 2) (ELoad1 4 (EVar 3)) (EBin BSub (ELoad2 0 (EBin BAdd (EVar 2) (EVar 5)) (ELoad1 4 (EVar 3))) (ELoad2 0 (EBin BSub (EBin BSub (EVar 2) (EVar 4)) (EInt (1)%Z)) (ELoad1 4 (EVar 3))));
        SAug2 7 (EVar 2) (ELoad1 4 (EVar 3)) (EBin BAdd (EVar 4) (EVar 5));
        SIf (EBin BNe (EVar 4) (EInt (0)%Z)) [
          SAug2 7 (EVar 2) (ELoad1 4 (EVar 3)) (ESumSlice 1 (EBin BSub (EVar 2) (EVar 4)) (EVar 2) (ELoad1 4 (EVar 3)))
        ] [];
        SIf (EBin BNe (EVar 5) (EInt (0)%Z)) [
          SAug2 7 (EVar 2) (ELoad1 4 (EVar 3)) (ESumSlice 1 (EBin BAdd (EVar 2) (EInt (1)%Z)) (EBin BAdd (EBin BAdd (EVar 2) (EVar 5)) (EInt (1)%Z)) (ELoad1 4 (EVar 3)))
        ] []
      ]
    ]
  ]
  [6; 7].

(* cross_support(image, len_arms, intensity)   numba signature 'i4[:, :, :](f4[:, :], i8, f4)'
   scalars: 0=len_arms 1=intensity 2=n_col_ 3=n_row_ 4=col 5=row 6=left_len 7=left 8=right_len 9=right 10=up_len 11=up_col 12=bot_len 13=bot
   arrays: 0=image 1=cross
   Python text (comments and docstring removed):
     n_col_, n_row_ = image.shape
     cross = np.zeros((n_col_, n_row_, 4), dtype=np.int32)
     for col in range(n_col_):
         for row in range(n_row_):
             if np.isfinite(image[col, row]):
                 left_len = 0
                 left = max(row - 1, 0)
                 for left in range(row - 1, max(row - len_arms, -1), -1):
                     if abs(image[col, row] - image[col, left]) >= intensity:
                         break
                     left_len += 1
                 cross[col, row, 0] = max(left_len, 1 * (row >= 1) * np.isfinite(image[col, left]))
                 right_len = 0
                 right = min(row + 1, n_row_ - 1)
                 for right in range(row + 1, min(row + len_arms, n_row_)):
                     if abs(image[col, row] - image[col, right]) >= intensity:
                         break
                     right_len += 1
                 cross[col, row, 1] = max(right_len, 1 * (row < n_row_ - 1) * np.isfinite(image[col, right]))
                 up_len = 0
                 up_col = max(col - 1, 0)
                 for up_col in range(col - 1, max(col - len_arms, -1), -1):
                     if abs(image[col, row] - image[up_col, row]) >= intensity:
                         break
                     up_len += 1
                 cross[col, row, 2] = max(up_len, 1 * (col >= 1) * np.isfinite(image[up_col, row]))
                 bot_len = 0
                 bot = min(col + 1, n_col_ - 1)
                 for bot in range(col + 1, min(col + len_arms, n_col_)):
                     if abs(image[col, row] - image[bot, row]) >= intensity:
                         break
                     bot_len += 1
                 cross[col, row, 3] = max(bot_len, 1 * (col < n_col_ - 1) * np.isfinite(image[bot, row]))
     return cross *)
Definition cross_support : kernel :=
  mkKernel [(F32, 2); (I64, 0); (F32, 0)] 14 2
  [
    SAssign 2 (EShape 0 0);
    SAssign 3 (EShape 0 1);
    SAlloc 1 [(EVar 2); (EVar 3); (EInt (4)%Z)] I32;
    SFor 4 (EInt (0)%Z) (EVar 2) (EInt (1)%Z) [
      SFor 5 (EInt (0)%Z) (EVar 3) (EInt (1)%Z) [
        SIf (EUn UIsFinite (ELoad2 0 (EVar 4) (EVar 5))) [
          SAssign 6 (EInt (0)%Z);
          SAssign 7 (EBin BMax (EBin BSub (EVar 5) (EInt (1)%Z)) (EInt (0)%Z));
          SFor 7 (EBin BSub (EVar 5) (EInt (1)%Z)) (EBin BMax (EBin BSub (EVar 5) (EVar 0)) (EInt (-1)%Z)) (EInt (-1)%Z) [
            SIf (EBin BGe (EUn UAbs (EBin BSub (ELoad2 0 (EVar 4) (EVar 5)) (ELoad2 0 (EVar 4) (EVar 7)))) (EVar 1)) [
              SBreak
            ] [];
            SAssign 6 (EBin BAdd (EVar 6) (EInt (1)%Z))
          ];
          SStore3 1 (EVar 4) (EVar 5) (EInt (0)%Z) (EBin BMax (EVar 6) (EBin BMul (EBin BMul (EInt (1)%Z) (EBin BGe (EVar 5) (EInt (1)%Z))) (EUn UIsFinite (ELoad2 0 (EVar 4) (EVar 7)))));
          SAssign 8 (EInt (0)%Z);
          SAssign 9 (EBin BMin (EBin BAdd (EVar 5) (EInt (1)%Z)) (EBin BSub (EVar 3) (EInt (1)%Z)));
          SFor 9 (EBin BAdd (EVar 5) (EInt (1)%Z)) (EBin BMin (EBin BAdd (EVar 5) (EVar 0)) (EVar 3)) (EInt (1)%Z) [
            SIf (EBin BGe (EUn UAbs (EBin BSub (ELoad2 0 (EVar 4) (EVar 5)) (ELoad2 0 (EVar 4) (EVar 9)))) (EVar 1)) [
              SBreak
            ] [];
            SAssign 8 (EBin BAdd (EVar 8) (EInt (1)%Z))
          ];
          SStore3 1 (EVar 4) (EVar 5) (EInt (1)%Z) (EBin BMax (EVar 8) (EBin BMul (EBin BMul (EInt (1)%Z) (EBin BLt (EVar 5) (EBin BSub (EVar 3) (EInt (1)%Z)))) (EUn UIsFinite (ELoad2 0 (EVar 4) (EVar 9)))));
          SAssign 10 (EInt (0)%Z);
          SAssign 11 (EBin BMax (EBin BSub (EVar 4) (EInt (1)%Z)) (EInt (0)%Z));
          SFor 11 (EBin BSub (EVar 4) (EInt (1)%Z)) (EBin BMax (EBin BSub (EVar 4) (EVar 0)) (EInt (-1)%Z)) (EInt (-1)%Z) [
            SIf (EBin BGe (EUn UAbs (EBin BSub (ELoad2 0 (EVar 4) (EVar 5)) (ELoad2 0 (EVar 11) (EVar 5)))) (EVar 1)) [
              SBreak
            ] [];
            SAssign 10 (EBin BAdd (EVar 10) (EInt (1)%Z))
          ];
          SStore3 1 (EVar 4) (EVar 5) (EInt (2)%Z) (EBin BMax (EVar 10) (EBin BMul (EBin BMul (EInt (1)%Z) (EBin BGe (EVar 4) (EInt (1)%Z))) (EUn UIsFinite (ELoad2 0 (EVar 11) (EVar 5)))));
          SAssign 12 (EInt (0)%Z);
          SAssign 13 (EBin BMin (EBin BAdd (EVar 4) (EInt (1)%Z)) (EBin BSub (EVar 2) (EInt (1)%Z)));
          SFor 13 (EBin BAdd (EVar 4) (EInt (1)%Z)) (EBin BMin (EBin BAdd (EVar 4) (EVar 0)) (EVar 2)) (EInt (1)%Z) [
            SIf (EBin BGe (EUn UAbs (EBin BSub (ELoad2 0 (EVar 4) (EVar 5)) (ELoad2 0 (EVar 13) (EVar 5)))) (EVar 1)) [
              SBreak
            ] [];
            SAssign 12 (EBin BAdd (EVar 12) (EInt (1)%Z))
          ];
          SStore3 1 (EVar 4) (EVar 5) (EInt (3)%Z) (EBin BMax (EVar 12) (EBin BMul (EBin BMul (EInt (1)%Z) (EBin BLt (EVar 4) (EBin BSub (EVar 2) (EInt (1)%Z)))) (EUn UIsFinite (ELoad2 0 (EVar 13) (EVar 5)))))
        ] []
      ]
    ]
  ]
  [1].

