(* C10 -- what coq/Gen/FilterKernels.v (regenerated at every run from pandora/filter/bilateral.py,
   median.py, median_for_intervals.py by translator/gen_filter_kernels.py) is written with, beside
   the numpy combinators of Lib/NpNd.v: np.nanmedian over axes (2, 3) (the model's nanmedian), the
   dataset record, the formula type of normalized_gaussian, and the INSTANCES of the holes the
   generated definitions leave open (the double block loop = BlockSkeleton.exec of the generated
   skeleton of Gen/BlockLoops.v).  Definitions only. *)
From Coq Require Import ZArith QArith List Bool.
From Pandora Require Import Lib.Arr Lib.NpNd Lib.Blocks Lib.BlockSkeleton Model.Filters.
Import ListNotations.
Open Scope Z_scope.

(* np.nanmedian(X, axis=(2, 3)) of a 4-d array *)
Definition np_nanmedian_23 : nd oq -> nd oq := np_reduce_23 nanmedian.

(* ---------------------------------------------------------------- the dataset the filters work on
   disp["disparity_map"], disp["validity_mask"], and the bands of disp["confidence_measure"] that
   median_for_intervals touches: confidence_from_interval_bounds_inf[.suffix] / _sup[.suffix] /
   confidence_from_ambiguity[.suffix] *)
Inductive band : Type := KInf | KSup | KAmb.
Definition band_eqb (a b : band) : bool :=
  match a, b with KInf, KInf | KSup, KSup | KAmb, KAmb => true | _, _ => false end.

Record dataset : Type := mkDs { ds_disp : nd oq; ds_mask : nd Z; ds_band : band -> nd oq }.
Definition ds_set_disp (d : dataset) (x : nd oq) : dataset := mkDs x (ds_mask d) (ds_band d).
Definition ds_set_mask (d : dataset) (m : nd Z) : dataset := mkDs (ds_disp d) m (ds_band d).
Definition ds_set_band (d : dataset) (k : band) (x : nd oq) : dataset :=
  mkDs (ds_disp d) (ds_mask d) (fun k' => if band_eqb k' k then x else ds_band d k').

(* ---------------------------------------------------------------- normalized_gaussian as a formula *)
Inductive gexpr : Type :=
| GX | GSigma | GPi
| GConst (q : Q)
| GNeg (e : gexpr)
| GAdd (a b : gexpr) | GSub (a b : gexpr) | GMul (a b : gexpr) | GDiv (a b : gexpr)
| GPowN (e : gexpr) (n : Z)
| GExp (e : gexpr) | GSqrt (e : gexpr).

(* exp(-((x / sigma) ^ 2) * 0.5) / (sigma * sqrt(2 * pi)) *)
Definition gaussian_formula : gexpr :=
  GDiv (GExp (GMul (GNeg (GPowN (GDiv GX GSigma) 2)) (GConst (1 # 2))))
       (GMul GSigma (GSqrt (GMul (GConst (2 # 1)) GPi))).

(* the value of a formula for ANY exponential, square root and pi (exp, sqrt and pi never reach Coq
   as numbers: the theorems about the formula hold for every positive exponential and square root) *)
Fixpoint geval (ex sq : Q -> Q) (pi x sigma : Q) (e : gexpr) : Q :=
  match e with
  | GX => x | GSigma => sigma | GPi => pi
  | GConst q => q
  | GNeg a => (- geval ex sq pi x sigma a)%Q
  | GAdd a b => (geval ex sq pi x sigma a + geval ex sq pi x sigma b)%Q
  | GSub a b => (geval ex sq pi x sigma a - geval ex sq pi x sigma b)%Q
  | GMul a b => (geval ex sq pi x sigma a * geval ex sq pi x sigma b)%Q
  | GDiv a b => (geval ex sq pi x sigma a / geval ex sq pi x sigma b)%Q
  | GPowN a n => (geval ex sq pi x sigma a ^ n)%Q
  | GExp a => ex (geval ex sq pi x sigma a)
  | GSqrt a => sq (geval ex sq pi x sigma a)
  end.

(* ---------------------------------------------------------------- the holes *)

(* h_block_loop: the double block loop of [sk] (a skeleton of Gen/BlockLoops.v) run by
   BlockSkeleton.exec over the copy [T], the chunks being slices of the window array [W]; the value
   the loop writes for element (i, j) of W is element (0, 0) of the written expression [K] applied to
   the 1 x 1 chunk W[i:i+1, j:j+1] -- K is pointwise in its first two axes (proved of the generated
   kernels for EVERY chunk: gen_bilateral_kernel_chunk / gen_nanmedian_chunk in Proofs/FiltersGenP.v),
   so this is element (i - y0, j - x0) of K applied to whichever chunk W[y0:y1, x0:x1] holds (i, j).
   The np.arange stops are the image extents T.shape[0], T.shape[1] (what BlockLoops records:
   DimShape (AOpaque 0) k, data and its copy having the same shape). *)
Definition kernel_at (K : nd oq -> nd oq) (W : nd oq) (i j : Z) : oq :=
  elt (K (np_slice01 W i (i + 1) j (j + 1))) [0; 0].

Definition skel_block_loop (sk : skeleton) (K : nd oq -> nd oq) (W T : nd oq) : nd oq :=
  let my := np_shape W 0 in
  let mx := np_shape W 1 in
  let win := np_shape W 2 in
  let ny := np_shape T 0 in
  let nx := np_shape T 1 in
  let out := snd (exec (fun _ i j => kernel_at K W i j) win my mx (sk_target 0 sk) sk ny nx
                       (fun _ => 0, fun2 T)) in
  mkNd (err W || err T) [ny; nx] (fun idx => match idx with [r; c] => out r c | _ => None end).
