(* WHOLE-PIPELINE model: the existing step models composed exactly as the run callbacks of
   pandora/state_machine.py compose the steps (single scale, scalar interval).

     run_prepare                 -> [init_state]: right interval = (-max, -min); both cost volumes and both
                                    disparity datasets empty; right products requested iff the pipeline has a
                                    validation step ([has_validation], `validation_steps` of run_prepare)
     matching_cost_prepare/_run  -> [mc_side]   (Model/MatchingCost.v volumes + Model/Criteria.v flags)
     disparity_run               -> [disp_side] (Model/Wta.v to_disp)
     filter_run                  -> [filter_side] (Model/Filters.v median_filter_disparity)
     refinement_run              -> [refine_side] (Model/Refine.v loop_pixel, every pixel)
     validation_run              -> [chk] left vs right, [chk] right vs the checked left, then [itp_ds] of
                                    both when "interpolated_disparity" is configured
                                    (Model/CrossCheck.v xcheck, Model/Interp.v interp_ds)
   every callback: the left call; `if self.right_disp_map == "cross_checking_accurate":` the right call with
   the two images exchanged and the right interval / right cost volume / right disparity dataset.

   No step is re-modelled here: this file only holds the containers (image, cost volume; the disparity
   dataset is CrossCheck.dataset), the glue (which field of which container a step reads or writes, the
   tabulation [memo2] of the arrays a step returns) and the sequencing.  Aggregation (cbca), zncc, the
   bilateral filter, confidence steps and multiscale are NOT part of the composed model.

   Second half of the file: the same step models seen as an interpretation [F_step] of the step-function
   names of Model/Mirror.v over a universal value type [pval], so that the abstract data-flow semantics
   (exec_cb over the callbacks regenerated from the source, Gen/Callbacks.v) can be run with the concrete
   steps; Proofs/PipelineRunP.v proves that it computes [run_step].

   Definitions only. *)
From Coq Require Import ZArith QArith List Bool.
From Pandora Require Import Lib.Ext Model.MatchingCost Model.Interval Model.Criteria Model.Wta
     Model.Refine Model.Filters Model.CrossCheck Model.Interp Model.Mirror.
Import ListNotations.
Open Scope Z_scope.

(* ------------------------------------------------------------------ containers *)

(* an image dataset: shape, the (selected band of the) raster, the mask if any *)
Record image := mkImage {
  im_ny : Z; im_nx : Z;
  im_data : MatchingCost.img;
  im_msk : option MatchingCost.img }.

(* a cost volume dataset, as far as the steps read or write it *)
Record cvol := mkCv {
  cv_ny : Z; cv_nx : Z;
  cv_dmin : Z; cv_dmax : Z;             (* coords["disp"][0], [-1] (integers) *)
  cv_s : Z;                             (* attrs["subpixel"] *)
  cv_off : Z;                           (* attrs["offset_row_col"] *)
  cv_cost : Z -> Z -> Z -> option Q;    (* cost_volume[row, col, k] *)
  cv_mask : Z -> Z -> Z }.              (* validity_mask[row, col] *)

(* what the steps take from the tree under test and from the input conventions: the flag sites and constants
   (Gen/Flags.v), the two constants of the refinement (Gen/RefineConsts.v), PANDORA_MSK_PIXEL_INVALID, the
   block sizes of the split loops (Gen/Constants.v), attrs valid_pixels / no_data_mask of the images *)
Record penv := mkPenv {
  pe_flags : Criteria.env;
  pe_ref : Refine.consts;
  pe_inv : Z;
  pe_bwta : Z; pe_bmed : Z;
  pe_vp : Z; pe_nd : Z }.

Inductive step :=
| SMc (m : MatchingCost.measure) (w s : Z)          (* matching_cost: method, window_size, subpix *)
| SDisp (invalid : option Q)                        (* disparity wta: invalid_disparity (None = NaN) *)
| SFilter (w : Z)                                   (* filter median: filter_size *)
| SRefine (me : Refine.method)                      (* refinement vfit / quadratic *)
| SVal (thr : Q) (itp : option Interp.method).      (* validation cross_checking_accurate: threshold,
                                                       interpolated_disparity mc-cnn / sgm if configured *)

(* ------------------------------------------------------------------ matching cost, one side *)

Definition has_msk (o : option MatchingCost.img) : bool := match o with Some _ => true | None => false end.
Definition msk_fn (o : option MatchingCost.img) : Z -> Z -> Z := match o with Some m => m | None => fun _ _ => 0 end.

(* the scalar interval [dmin, dmax] is two constant grids (img_tools.add_disparity) *)
Definition mc_input_of (E : penv) (A B : image) (w s dmin dmax : Z) : mc_input :=
  MkIn (im_ny A) (im_nx A) w s (im_data A) (im_data B) (im_msk A) (im_msk B) (pe_vp E) (pe_nd E)
       (const_grid dmin) (const_grid dmax).

Definition mc_layout (E : penv) (A B : image) (w dmin dmax : Z) : layout :=
  mkLayout (im_ny A) (im_nx A) (MatchingCost.offset w) dmin dmax (has_msk (im_msk A)) (has_msk (im_msk B))
           (msk_fn (im_msk A)) (msk_fn (im_msk B)) (pe_nd E) (pe_vp E) (pe_nd E) (pe_vp E).

Definition mc_volume (m : MatchingCost.measure) (inp : mc_input) (dmin dmax : Z) : Z -> Z -> Z -> option Q :=
  match m with
  | Sad => sad_volume inp dmin dmax
  | Ssd => ssd_volume inp dmin dmax
  | Census => census_volume inp dmin dmax
  | Zncc => fun _ _ _ => None               (* real-valued: outside the composed model *)
  end.

Definition opt_none {A : Type} (o : option A) : bool := match o with None => true | Some _ => false end.

(* the costs of one pixel along the disparity axis *)
Definition cv_pixel (cv : cvol) (r c : Z) : list (option Q) :=
  map (cv_cost cv r c) (MatchingCost.zrange 0 (nb_disp (cv_s cv) (cv_dmin cv) (cv_dmax cv))).

(* allocate_cost_volume: NaN costs; the mask is created by validity_mask *)
Definition alloc_cv (A : image) (w s dmin dmax : Z) : cvol :=
  mkCv (im_ny A) (im_nx A) dmin dmax s (MatchingCost.offset w) (fun _ _ _ => None) (fun _ _ => 0).

(* criteria.validity_mask(img_left, img_right, cv) *)
Definition vm_cv (E : penv) (A B : image) (w : Z) (cv : cvol) : cvol :=
  mkCv (cv_ny cv) (cv_nx cv) (cv_dmin cv) (cv_dmax cv) (cv_s cv) (cv_off cv) (cv_cost cv)
       (memo2 (im_ny A) (im_nx A)
              (validity_mask_px (pe_flags E) (mc_layout E A B w (cv_dmin cv) (cv_dmax cv)))).

(* matching_cost_prepare + matching_cost_run for the image A matched against B on [dmin, dmax]:
   allocate_cost_volume, validity_mask, compute_cost_volume, cv_masked *)
Definition mc_side (E : penv) (m : MatchingCost.measure) (w s : Z) (A B : image) (dmin dmax : Z) : cvol :=
  let vol := mc_volume m (mc_input_of E A B w s dmin dmax) dmin dmax in
  let nd := nb_disp s dmin dmax in
  let allnan := fun r c => forallb (fun k => opt_none (vol r c k)) (MatchingCost.zrange 0 nd) in
  mkCv (im_ny A) (im_nx A) dmin dmax s (MatchingCost.offset w) vol
       (memo2 (im_ny A) (im_nx A) (after_mc (pe_flags E) (mc_layout E A B w dmin dmax) allnan)).

(* ------------------------------------------------------------------ disparity (wta), one side *)

(* to_disp(cv, img_left, img_right): min-type measures only; no confidence band in the cost volume; the
   disparity dataset takes the mask, the offset and the interval of the cost volume.  The cost volume comes
   back as it went in (the NaN -> inf substitution is undone: C03_restore_after_subst) and gains
   disp_indices, which no modelled step reads. *)
Definition disp_side (E : penv) (invalid : option Q) (cv : cvol) : dataset :=
  let o := to_disp false (pe_bwta E) (cv_ny cv) (cv_nx cv) (disp_axis (cv_s cv) (cv_dmin cv) (cv_dmax cv))
                   invalid (fun r c => map (MatchingCost.omap Ext.Fin) (cv_pixel cv r c))
                   (fun _ _ => []) (cv_mask cv) in
  mkDS (cv_ny cv) (cv_nx cv) (memo2 (cv_ny cv) (cv_nx cv) (o_disp o)) (o_mask o) []
       (cv_dmin cv) (cv_dmax cv) (cv_off cv).

(* ------------------------------------------------------------------ median filter, one dataset *)

Definition filter_side (E : penv) (w : Z) (d : dataset) : dataset :=
  let r := median_filter_disparity (pe_inv E) (pe_bmed E) w (ds_nr d) (ds_nc d) (ds_disp d) (ds_mask d) in
  mkDS (ds_nr d) (ds_nc d) (memo2 (ds_nr d) (ds_nc d) (fst r)) (snd r) (ds_bands d)
       (ds_dmin d) (ds_dmax d) (ds_offset d).

(* ------------------------------------------------------------------ refinement, one side *)

(* subpixel_refinement(cv, disp): d_min / d_max = ends of the disparity axis of the cost volume, subpixel
   = attrs of the cost volume, measure "min"; every pixel of the map goes through loop_refinement *)
Definition refine_px (E : penv) (me : Refine.method) (cv : cvol) (d : dataset) (r c : Z) : Refine.pres :=
  loop_pixel (pe_ref E) me MMin (inject_Z (cv_dmin cv)) (inject_Z (cv_dmax cv)) (cv_s cv)
             (cv_pixel cv r c) (ds_disp d r c) (ds_mask d r c).

(* the call is defined (no ZeroDivisionError, no read outside the axis, no int(NaN)) when every pixel is *)
Definition refine_defined (E : penv) (me : Refine.method) (cv : cvol) (d : dataset) : bool :=
  forallb (fun r => forallb (fun c => match refine_px E me cv d r c with POk _ _ _ => true | _ => false end)
                            (MatchingCost.zrange 0 (ds_nc d))) (MatchingCost.zrange 0 (ds_nr d)).

(* disparity_map and validity_mask are replaced (interpolated_coeff is not part of the state); a pixel on
   which the kernel is undefined is left as it was ([refine_defined] says whether there is one) *)
Definition refine_side (E : penv) (me : Refine.method) (cv : cvol) (d : dataset) : dataset :=
  let px := memo2 (ds_nr d) (ds_nc d) (refine_px E me cv d) in
  mkDS (ds_nr d) (ds_nc d)
       (fun r c => match px r c with POk dd _ _ => dd | _ => ds_disp d r c end)
       (fun r c => match px r c with POk _ _ k => k | _ => ds_mask d r c end)
       (ds_bands d) (ds_dmin d) (ds_dmax d) (ds_offset d).

(* ------------------------------------------------------------------ validation *)

(* validation_.disparity_checking(me, other): Model/CrossCheck.v xcheck; the two arrays it writes (the validity
   mask, the appended confidence band) are materialised, the disparity map and the earlier bands are the
   same objects *)
Definition chk (thr : Q) (me other : dataset) : dataset :=
  let x := xcheck thr me other in
  mkDS (ds_nr x) (ds_nc x) (ds_disp x) (memo2 (ds_nr x) (ds_nc x) (ds_mask x))
       (ds_bands me ++ [memo2 (ds_nr x) (ds_nc x) (last (ds_bands x) (fun _ _ => CNan))])
       (ds_dmin x) (ds_dmax x) (ds_offset x).
(* interpolate_.interpolated_disparity(d) *)
Definition itp_ds (m : Interp.method) (d : dataset) : dataset := interp_ds m d.

(* ------------------------------------------------------------------ the machine's data *)

Record pstate := mkSt {
  st_L : image; st_R : image;                  (* left_img, right_img *)
  st_lmin : Z; st_lmax : Z;                    (* disp_min, disp_max *)
  st_rmin : Z; st_rmax : Z;                    (* right_disp_min, right_disp_max *)
  st_lcv : option cvol; st_rcv : option cvol;  (* left_cv, right_cv (None: not computed) *)
  st_ld : option dataset; st_rd : option dataset }.   (* left_disparity, right_disparity (None: empty) *)

Definition set_cvs (st : pstate) (l r : option cvol) : pstate :=
  mkSt (st_L st) (st_R st) (st_lmin st) (st_lmax st) (st_rmin st) (st_rmax st) l r (st_ld st) (st_rd st).
Definition set_ds (st : pstate) (l r : option dataset) : pstate :=
  mkSt (st_L st) (st_R st) (st_lmin st) (st_lmax st) (st_rmin st) (st_rmax st) (st_lcv st) (st_rcv st) l r.

(* run_prepare, single scale, right image without its own disparity *)
Definition init_state (L R : image) (dmin dmax : Z) : pstate :=
  mkSt L R dmin dmax (- dmax) (- dmin) None None None None.

Definition is_val (s : step) : bool := match s with SVal _ _ => true | _ => false end.
Definition has_validation (p : list step) : bool := existsb is_val p.

(* a step applied to data that is not there does nothing (the real machine raises) *)
Definition on1 {A B : Type} (f : A -> B) (o : option A) (keep : option B) : option B :=
  match o with Some a => Some (f a) | None => keep end.
Definition on2 {A B C : Type} (f : A -> B -> C) (o1 : option A) (o2 : option B) (keep : option C) : option C :=
  match o1, o2 with Some a, Some b => Some (f a b) | _, _ => keep end.

(* one <step>_run callback; [rdm] : self.right_disp_map == "cross_checking_accurate" *)
Definition run_step (E : penv) (rdm : bool) (s : step) (st : pstate) : pstate :=
  match s with
  | SMc m w sp =>
    set_cvs st (Some (mc_side E m w sp (st_L st) (st_R st) (st_lmin st) (st_lmax st)))
               (if rdm then Some (mc_side E m w sp (st_R st) (st_L st) (st_rmin st) (st_rmax st))
                else st_rcv st)
  | SDisp inv =>
    set_ds st (on1 (disp_side E inv) (st_lcv st) (st_ld st))
              (if rdm then on1 (disp_side E inv) (st_rcv st) (st_rd st) else st_rd st)
  | SFilter w =>
    set_ds st (on1 (filter_side E w) (st_ld st) (st_ld st))
              (if rdm then on1 (filter_side E w) (st_rd st) (st_rd st) else st_rd st)
  | SRefine me =>
    set_ds st (on2 (refine_side E me) (st_lcv st) (st_ld st) (st_ld st))
              (if rdm then on2 (refine_side E me) (st_rcv st) (st_rd st) (st_rd st) else st_rd st)
  | SVal thr itp =>
    (* self.left_disparity = disparity_checking(self.left_disparity, self.right_disparity) *)
    let l1 := on2 (chk thr) (st_ld st) (st_rd st) (st_ld st) in
    if rdm then
      (* self.right_disparity = disparity_checking(self.right_disparity, self.left_disparity) *)
      let r1 := on2 (chk thr) (st_rd st) l1 (st_rd st) in
      match itp with
      | None => set_ds st l1 r1
      | Some m => set_ds st (on1 (itp_ds m) l1 l1) (on1 (itp_ds m) r1 r1)
      end
    else set_ds st l1 (st_rd st)
  end.

Definition run_steps (E : penv) (rdm : bool) (p : list step) (st : pstate) : pstate :=
  fold_left (fun st' s => run_step E rdm s st') p st.

(* the states after every step (what the correspondence check compares with the real run) *)
Fixpoint run_trace (E : penv) (rdm : bool) (p : list step) (st : pstate) : list pstate :=
  match p with
  | [] => []
  | s :: r => let st' := run_step E rdm s st in st' :: run_trace E rdm r st'
  end.

(* the input pair with its interval; the mirrored problem *)
Record images := mkImages { g_left : image; g_right : image; g_dmin : Z; g_dmax : Z }.
Definition mirror_images (g : images) : images :=
  mkImages (g_right g) (g_left g) (- g_dmax g) (- g_dmin g).

(* pandora.run(machine, left, right, cfg) on a fresh machine *)
Definition run_pipeline (E : penv) (g : images) (p : list step) : pstate :=
  run_steps E (has_validation p) p (init_state (g_left g) (g_right g) (g_dmin g) (g_dmax g)).

(* ------------------------------------------------------------------ the same steps as an interpretation of
   the step-function names of Model/Mirror.v (the callbacks come from Gen/Callbacks.v) *)

Inductive pval :=
| PVImg (i : image) | PVCv (c : cvol) | PVDs (d : dataset) | PVZ (z : Z) | PVNone.

Definition chk_val (thr : Q) (a b : pval) : pval :=
  match a, b with PVDs x, PVDs y => PVDs (chk thr x y) | _, _ => a end.
Definition itp_val (om : option Interp.method) (a : pval) : pval :=
  match om, a with Some m, PVDs x => PVDs (itp_ds m x) | _, _ => a end.
Definition disp_of_val (a : pval) : option (Z -> Z -> option Q) :=
  match a with PVDs x => Some (ds_disp x) | _ => None end.

(* the values a step function returns: assigned results first, then mutated arguments (Mirror.writes);
   [] = nothing is written (a call on data that is not there) *)
Definition F_step (E : penv) (s : step) (f : fname) (args : list pval) : list pval :=
  match f with
  | FScale => match args with [a] => [a] | _ => [] end                  (* scale_factor = 1 *)
  | FAllocate =>
    match s, args with
    | SMc _ w sp, [PVImg A; PVZ mn; PVZ mx] => [PVCv (alloc_cv A w sp mn mx)]
    | _, _ => []
    end
  | FValidityMask =>
    match s, args with
    | SMc _ w _, [PVImg A; PVImg B; PVCv cv] => [PVCv (vm_cv E A B w cv)]
    | _, _ => []
    end
  | FComputeCv =>                       (* the existing volume models fuse compute_cost_volume and cv_masked *)
    match args with [PVImg _; PVImg _; PVCv cv] => [PVCv cv] | _ => [] end
  | FCvMasked =>
    match s, args with
    | SMc m w sp, [PVImg A; PVImg B; PVCv _; PVZ mn; PVZ mx] => [PVCv (mc_side E m w sp A B mn mx)]
    | _, _ => []
    end
  | FToDisp =>
    match s, args with
    | SDisp inv, [PVCv cv; PVImg _; PVImg _] => [PVDs (disp_side E inv cv); PVCv cv]
    | _, _ => []
    end
  | FFilter =>
    match s, args with
    | SFilter w, [PVDs d] => [PVDs (filter_side E w d)]
    | _, _ => []
    end
  | FRefine =>
    match s, args with
    | SRefine me, [PVCv cv; PVDs d] => [PVDs (refine_side E me cv d)]
    | _, _ => []
    end
  | FCrossCheck =>
    match s, args with
    | SVal thr _, [a; b] => [chk_val thr a b]
    | _, _ => []
    end
  | FInterpolate =>
    match s, args with
    | SVal _ om, [a] => [itp_val om a]
    | _, _ => []
    end
  | _ => []
  end.

(* the callbacks a step triggers, with the truth value of `"interpolated_disparity" in cfg` *)
Definition cbs_of (s : step) : list (cbname * bool) :=
  match s with
  | SMc _ _ _ => [(CbMcPrepare, false); (CbMcRun, false)]
  | SDisp _ => [(CbDsp, false)]
  | SFilter _ => [(CbFlt, false)]
  | SRefine _ => [(CbRef, false)]
  | SVal _ om => [(CbVal, match om with Some _ => true | None => false end)]
  end.

Definition ov {A : Type} (f : A -> pval) (o : option A) : pval := match o with Some a => f a | None => PVNone end.

(* the machine attributes as slots of Model/Mirror.v *)
Definition to_slots (st : pstate) : Mirror.state pval :=
  fun x => match x with
           | Limg => PVImg (st_L st) | Rimg => PVImg (st_R st)
           | Lcv => ov PVCv (st_lcv st) | Rcv => ov PVCv (st_rcv st)
           | Ldisp => ov PVDs (st_ld st) | Rdisp => ov PVDs (st_rd st)
           | Lmin => PVZ (st_lmin st) | Lmax => PVZ (st_lmax st)
           | Rmin => PVZ (st_rmin st) | Rmax => PVZ (st_rmax st)
           | _ => PVNone
           end.

(* the exchange of left and right data *)
Definition swap_st (st : pstate) : pstate :=
  mkSt (st_R st) (st_L st) (st_rmin st) (st_rmax st) (st_lmin st) (st_lmax st)
       (st_rcv st) (st_lcv st) (st_rd st) (st_ld st).

(* one step through the abstract semantics: the generated callbacks [cbs] run with the concrete steps *)
Definition exec_step (E : penv) (cbs : cbname -> list segment) (rdm : bool) (s : step)
           (sl : Mirror.state pval) : Mirror.state pval :=
  fold_left (fun s' cb => exec_cb pval (F_step E s) rdm (snd cb) (cbs (fst cb)) s') (cbs_of s) sl.
