(* Model of the sub-pixel refinement step (C06), mirroring how the code computes.

   pandora/refinement/vfit.py        Vfit.refinement_method        -> [vfit]
   pandora/refinement/quadratic.py   Quadratic.refinement_method   -> [quadratic]
   pandora/refinement/refinement.py  loop_refinement (one pixel)   -> [loop_pixel]
                                     loop_refinement (all pixels)  -> [refine_map]
                                     loop_approximate_refinement   -> [approx_pixel]

   Costs and disparities are rationals, NaN is [None].  A division whose divisor
   is zero is an explicit [MRaise]/[PRaise] (numba's default error model raises
   ZeroDivisionError); a read outside the disparity axis is an explicit [ROut]
   (numba does no bounds check: undefined memory), a negative index in
   [-n, -1] wraps around as in Python/numba.  Flags are integers.

   The model follows the tree WITH the three repairs of this property:
   * the flag is set with `mask |= valid` (was `+=`: a second step turned 8 into 16);
   * quadratic keeps the pixel when |alpha| < 1e-15 (was a division by zero on a flat triple);
   * loop_refinement interpolates only when a whole sample fits on each side of the disparity
     (was `disp != d_min and disp != d_max`: an off-grid disparity within one sample of d_min
     read index -1 = the cost of d_max, and the result could leave [d_min, d_max]).
   The models of the code as found are kept as [quadratic_before], [loop_pixel_before] for the
   regression examples of Proofs/RefineP.v.

   Definitions only; the proofs are in Proofs/RefineP.v. *)
From Coq Require Import ZArith QArith Qabs List Bool.
Import ListNotations.
Open Scope Q_scope.

(* ---------------------------------------------------------------- constants *)

(* the two constants of pandora/constants.py the step uses (regenerated: Gen/RefineConsts.v) *)
Record consts := mkK { k_invalid : Z; k_stopped : Z }.

(* what the theorems need from them: "stopped" is bit 3, and it is not one of the invalid bits *)
Definition consts_wf (K : consts) : bool :=
  (k_stopped K =? 8)%Z && (Z.land (k_invalid K) 8 =? 0)%Z && (0 <=? k_invalid K)%Z.

Inductive measure := MMin | MMax.

(* `inverse * x` of the code: inverse = 1, or -1 when measure == "max" *)
Definition inv (m : measure) (x : Q) : Q := match m with MMin => x | MMax => - x end.

Definition Qltb (x y : Q) : bool := negb (Qle_bool y x).

(* the literal 1.0e-15 of vfit.py (the proofs only use 0 < eps15) *)
Definition eps15 : Q := 1 # 1000000000000000.

(* ---------------------------------------------------------------- the two methods *)

(* (sub_disp, sub_cost, valid) or ZeroDivisionError *)
Inductive mres := MOk (shift cost : Q) (flag : Z) | MRaise.

(* cost[1] is never NaN when the loop calls the method (tested by the loop) *)
Definition vfit (K : consts) (m : measure) (c0 : option Q) (c1 : Q) (c2 : option Q) : mres :=
  match c0, c2 with
  | Some c0, Some c2 =>
    (* if (inverse*cost[1] > inverse*cost[0]) or (inverse*cost[1] > inverse*cost[2]) *)
    if Qltb (inv m c0) (inv m c1) || Qltb (inv m c2) (inv m c1) then MOk 0 c1 (k_stopped K)
    else
      (* a = cost[2]-cost[1]; if inverse*cost[0] > inverse*cost[2]: a = cost[0]-cost[1] *)
      let a := if Qltb (inv m c2) (inv m c0) then c0 - c1 else c2 - c1 in
      if Qltb (Qabs a) eps15 then MOk 0 c1 0
      else if Qeq_bool (2 * a) 0 then MRaise
      else
        let sd := (c0 - c2) / (2 * a) in
        MOk sd (a * (sd - 1) + c2) 0
  | _, _ => MOk 0 c1 (k_stopped K)          (* np.isnan(cost[0]) or np.isnan(cost[2]) *)
  end.

(* min(1.0, max(-1.0, x)) *)
Definition clamp1 (x : Q) : Q :=
  let y := if Qltb (-(1)) x then x else -(1) in     (* max(-1.0, x) *)
  if Qltb y 1 then y else 1.                         (* min(1.0, y)  *)

Definition quadratic (K : consts) (m : measure) (c0 : option Q) (c1 : Q) (c2 : option Q) : mres :=
  match c0, c2 with
  | Some c0, Some c2 =>
    if Qltb (inv m c0) (inv m c1) || Qltb (inv m c2) (inv m c1) then MOk 0 c1 (k_stopped K)
    else
      let alpha := (c0 - 2 * c1 + c2) * (1 # 2) in
      let beta := (c2 - c0) * (1 # 2) in
      if Qltb (Qabs alpha) eps15 then MOk 0 c1 0        (* if abs(alpha) < 1.0e-15: return 0, cost[1], 0 *)
      else if Qeq_bool (2 * alpha) 0 then MRaise        (* -beta / (2 * alpha) *)
      else
        let sd := clamp1 (- beta / (2 * alpha)) in
        MOk sd (alpha * (sd * sd) + beta * sd + c1) 0
  | _, _ => MOk 0 c1 (k_stopped K)
  end.

(* the method as found (before `fix: quadratic refinement keeps the disparity when the three costs
   are equal`): no guard on alpha *)
Definition quadratic_before (K : consts) (m : measure) (c0 : option Q) (c1 : Q) (c2 : option Q) : mres :=
  match c0, c2 with
  | Some c0, Some c2 =>
    if Qltb (inv m c0) (inv m c1) || Qltb (inv m c2) (inv m c1) then MOk 0 c1 (k_stopped K)
    else
      let alpha := (c0 - 2 * c1 + c2) * (1 # 2) in
      let beta := (c2 - c0) * (1 # 2) in
      if Qeq_bool (2 * alpha) 0 then MRaise
      else
        let sd := clamp1 (- beta / (2 * alpha)) in
        MOk sd (alpha * (sd * sd) + beta * sd + c1) 0
  | _, _ => MOk 0 c1 (k_stopped K)
  end.

Inductive method := Vfit | Quadratic.
Definition run_method (K : consts) (me : method) := match me with Vfit => vfit K | Quadratic => quadratic K end.

(* ---------------------------------------------------------------- one pixel of loop_refinement *)

(* reading the disparity axis of the cost volume at a (possibly negative) index *)
Inductive rd := RVal (v : option Q) | ROut.
Definition read (cv : list (option Q)) (i : Z) : rd :=
  let n := Z.of_nat (length cv) in
  if (0 <=? i)%Z && (i <? n)%Z then RVal (nth (Z.to_nat i) cv None)
  else if (- n <=? i)%Z && (i <? 0)%Z then RVal (nth (Z.to_nat (i + n)) cv None)   (* wrap-around *)
  else ROut.

(* int(x): truncation toward zero *)
Definition trunc (q : Q) : Z := Z.quot (Qnum q) (Zpos (Qden q)).

(* what one pixel becomes: (disparity_map, interpolated_coeff, validity_mask), or the call raises,
   or the kernel reads outside the array / converts NaN to an index (undefined behaviour) *)
Inductive pres :=
| POk (disp : option Q) (coeff : option Q) (mask : Z)
| PRaise
| POut.

(* `(disp - d_min) * subpixel >= 1 and (d_max - disp) * subpixel >= 1`: a whole sample on each side *)
Definition room (dmin dmax : Q) (s : Z) (d : Q) : bool :=
  Qle_bool 1 ((d - dmin) * inject_Z s) && Qle_bool 1 ((dmax - d) * inject_Z s).

Definition loop_pixel (K : consts) (me : method) (m : measure) (dmin dmax : Q) (s : Z)
           (cv : list (option Q)) (disp : option Q) (mask : Z) : pres :=
  if negb (Z.land mask (k_invalid K) =? 0)%Z then POk disp None mask   (* itp_coeff = nan, nothing else *)
  else
    match disp with
    | None => POut                                                      (* int(nan) *)
    | Some d =>
      let dsp := trunc ((d - dmin) * inject_Z s) in
      match read cv dsp with
      | ROut => POut
      | RVal None => POk disp None mask                                 (* itp_coeff = cv[dsp] = nan *)
      | RVal (Some c1) =>
        if room dmin dmax s d then
          match read cv (dsp - 1), read cv (dsp + 1) with
          | RVal c0, RVal c2 =>
            match run_method K me m c0 c1 c2 with
            | MRaise => PRaise
            | MOk sh co fl =>
              POk (Some (Qred (d + sh / inject_Z s))) (Some (Qred co)) (Z.lor mask fl)   (* mask |= valid *)
            end
          | _, _ => POut
          end
        else POk disp (Some c1) (Z.lor mask (k_stopped K))              (* mask |= STOPPED_INTERPOLATION *)
      end
    end.

(* loop_refinement as found: `mask += valid`, ends tested with `disp != d_min and disp != d_max`,
   quadratic without its flat-triple guard *)
Definition run_method_before (K : consts) (me : method) :=
  match me with Vfit => vfit K | Quadratic => quadratic_before K end.

Definition loop_pixel_before (K : consts) (me : method) (m : measure) (dmin dmax : Q) (s : Z)
           (cv : list (option Q)) (disp : option Q) (mask : Z) : pres :=
  if negb (Z.land mask (k_invalid K) =? 0)%Z then POk disp None mask
  else
    match disp with
    | None => POut
    | Some d =>
      let dsp := trunc ((d - dmin) * inject_Z s) in
      match read cv dsp with
      | ROut => POut
      | RVal None => POk disp None mask
      | RVal (Some c1) =>
        if negb (Qeq_bool d dmin) && negb (Qeq_bool d dmax) then
          match read cv (dsp - 1), read cv (dsp + 1) with
          | RVal c0, RVal c2 =>
            match run_method_before K me m c0 c1 c2 with
            | MRaise => PRaise
            | MOk sh co fl =>
              POk (Some (Qred (d + sh / inject_Z s))) (Some (Qred co)) (mask + fl)%Z
            end
          | _, _ => POut
          end
        else POk disp (Some c1) (mask + k_stopped K)%Z
      end
    end.

(* ---------------------------------------------------------------- all pixels, several steps *)

Record pixel := mkPx { px_cv : list (option Q); px_disp : option Q; px_mask : Z }.

Inductive ires := IOk (l : list (option Q * option Q * Z)) | IRaise | IOut.

(* one call of subpixel_refinement: every pixel independently; the call raises if one pixel does *)
Fixpoint refine_map (K : consts) (me : method) (m : measure) (dmin dmax : Q) (s : Z) (px : list pixel) : ires :=
  match px with
  | [] => IOk []
  | p :: r =>
    match loop_pixel K me m dmin dmax s (px_cv p) (px_disp p) (px_mask p) with
    | PRaise => IRaise
    | POut => match refine_map K me m dmin dmax s r with IRaise => IRaise | _ => IOut end
    | POk d c k =>
      match refine_map K me m dmin dmax s r with
      | IOk l => IOk ((d, c, k) :: l)
      | e => e
      end
    end
  end.

(* the disparity map and mask are updated in place, the cost volume is not: next step's input *)
Definition reload (px : list pixel) (l : list (option Q * option Q * Z)) : list pixel :=
  map (fun pr => let '(p, (d, _, k)) := pr in mkPx (px_cv p) d k) (combine px l).

(* a pipeline segment `refinement, refinement.1, ...` on the same cost volume *)
Fixpoint refine_steps (K : consts) (mes : list method) (m : measure) (dmin dmax : Q) (s : Z)
         (px : list pixel) (last : list (option Q * option Q * Z)) : ires :=
  match mes with
  | [] => IOk last
  | me :: r =>
    match refine_map K me m dmin dmax s px with
    | IOk l => refine_steps K r m dmin dmax s (reload px l) l
    | e => e
    end
  end.

(* ---------------------------------------------------------------- right map, approximate method *)

(* one pixel of loop_approximate_refinement: the three costs are read on a diagonal of the LEFT cost
   volume; [cvs] = the rows of the cost volume for this image row (one list per column) *)
Definition read2 (cvs : list (list (option Q))) (c : Z) (i : Z) : rd :=
  let n := Z.of_nat (length cvs) in
  if (0 <=? c)%Z && (c <? n)%Z then read (nth (Z.to_nat c) cvs []) i
  else if (- n <=? c)%Z && (c <? 0)%Z then read (nth (Z.to_nat (c + n)) cvs []) i
  else ROut.

Definition approx_pixel (K : consts) (me : method) (m : measure) (dmin dmax : Q) (s : Z)
           (cvs : list (list (option Q))) (col : Z) (disp : option Q) (mask : Z) : pres :=
  if negb (Z.land mask (k_invalid K) =? 0)%Z then POk disp None mask
  else
    match disp with
    | None => POut
    | Some d =>
      let dsp := trunc ((- d - dmin) * inject_Z s) in
      let diagonal := trunc (inject_Z col + d) in
      let ncol := Z.of_nat (length cvs) in
      match read2 cvs diagonal dsp with
      | ROut => POut
      | RVal None => POk disp None mask
      | RVal (Some c1) =>
        if negb (Qeq_bool d (- dmin)) && negb (Qeq_bool d (- dmax))
           && negb (diagonal =? 0)%Z && negb (diagonal =? ncol - 1)%Z then
          match read2 cvs (diagonal - 1) (dsp + s), read2 cvs (diagonal + 1) (dsp - s) with
          | RVal c0, RVal c2 =>
            match run_method K me m c0 c1 c2 with
            | MRaise => PRaise
            | MOk sh co fl =>
              POk (Some (Qred (d + sh / inject_Z s))) (Some (Qred co)) (Z.lor mask fl)
            end
          | _, _ => POut
          end
        else POk disp (Some c1) (Z.lor mask (k_stopped K))
      end
    end.
