(* Model of the cross-based cost aggregation of Pandora:
     pandora/aggregation/cbca.py
       CrossBasedCostAggregation.cost_volume_aggregation   (plane loop, NaN re-injection,
                                                            anchor, normalisation, offset crop)
       CrossBasedCostAggregation.computes_cross_supports   (mask -> NaN, 3x3 median,
                                                            two-column shifted right mask, crop)
       cross_support                                       (four bounded loops with `break`,
                                                            minimum-arm rule on the loop variable)
       cbca_step_1 .. cbca_step_4                          (integral images with a sentinel
                                                            column/row read through index -1)
     pandora/filter/median.py  median_filter (filter_size 3; per-pixel form, the 100-pixel
                                              chunking is C10's business)

   Conventions: a pixel / cost is [option Q], [None] = not finite (NaN, or +inf after
   np.nan_to_num(nan=inf)); the first index is the image row, the second the image column
   (the kernels call them `col` and `row`).  Arrays that the code allocates are tables
   ([tabulate]/[lookup]); zero-initialised work arrays that are filled by a recurrence are
   functions updated by [updz]; negative indices go through [wrap] as in numpy/numba.
   Definitions only (no proofs) so that the model still runs when a proof breaks. *)
From Coq Require Import ZArith QArith Qabs Qround List Bool.
Import ListNotations.
Open Scope Z_scope.

(* ---------------------------------------------------------------- generic helpers *)

Definition zrange (a n : Z) : list Z := map (fun k => a + Z.of_nat k) (seq 0 (Z.to_nat n)).
Definition b2z (b : bool) : Z := if b then 1 else 0.
(* numpy / numba negative index into an axis of length n *)
Definition wrap (n i : Z) : Z := if i <? 0 then i + n else i.
Definition updz {A : Type} (a : Z -> A) (i : Z) (v : A) : Z -> A :=
  fun j => if j =? i then v else a j.

Definition tabulate {A : Type} (nr nc : Z) (f : Z -> Z -> A) : list (list A) :=
  map (fun r => map (fun c => f r c) (zrange 0 nc)) (zrange 0 nr).
Definition lookup {A : Type} (dflt : A) (t : list (list A)) (r c : Z) : A :=
  if (r <? 0) || (c <? 0) then dflt
  else nth (Z.to_nat c) (nth (Z.to_nat r) t []) dflt.

(* rational arithmetic kept in reduced form *)
Definition qadd (a b : Q) : Q := Qred (a + b).
Definition qsub (a b : Q) : Q := Qred (a - b).
Definition nz (o : option Q) : Q := match o with Some q => q | None => 0%Q end.
Definition isfin (o : option Q) : bool := match o with Some _ => true | None => false end.
Definition qsum (l : list Q) : Q := fold_right Qplus 0%Q l.
Definition zsum (l : list Z) : Z := fold_right Z.add 0 l.

Definition img := Z -> Z -> option Q.

(* ---------------------------------------------------------------- 3x3 median pre-filter *)

Fixpoint qinsert (x : Q) (l : list Q) : list Q :=
  match l with
  | [] => [x]
  | y :: t => if Qle_bool x y then x :: l else y :: qinsert x t
  end.
Definition qsort (l : list Q) : list Q := fold_right qinsert [] l.

(* np.nanmedian of the non-NaN values of a window (NaN when there is none) *)
Definition qmedian (l : list Q) : option Q :=
  let s := qsort l in
  let n := length s in
  match n with
  | O => None
  | _ => if Nat.even n
         then Some (Qred ((nth (n / 2 - 1) s 0%Q + nth (n / 2) s 0%Q) * (1 # 2)))
         else Some (nth (n / 2) s 0%Q)
  end.
Definition valid_vals (l : list (option Q)) : list Q :=
  flat_map (fun o => match o with Some q => [q] | None => [] end) l.
Definition window3 (I : img) (r c : Z) : list (option Q) :=
  flat_map (fun a => map (fun b => I (r + a) (c + b)) [-1; 0; 1]) [-1; 0; 1].

(* MedianFilter.median_filter with filter_size = 3: data_median = copy(data); the
   interior [1, n-1) receives the nanmedian of its window; data_median[isnan(data)] = nan *)
Definition median3 (nr nc : Z) (I : img) : img := fun r c =>
  if (1 <=? r) && (r <? nr - 1) && (1 <=? c) && (c <? nc - 1) then
    match I r c with
    | None => None
    | Some _ => qmedian (valid_vals (window3 I r c))
    end
  else I r c.

(* left_masked[msk != valid_pixels] = nan   (only when the dataset has a mask) *)
Definition apply_mask (im : img) (msk : option (Z -> Z -> Z)) (valid : Z) : img :=
  match msk with
  | None => im
  | Some m => fun r c => if m r c =? valid then im r c else None
  end.
(* shifted right image (shift <> 0): right_masked += shift_mask, where shift_mask[r, c] =
   nanflag(msk[r, c]) + nanflag(msk[r, c + 1]) (as_strided window of two columns) *)
Definition apply_shift_mask (im : img) (msk : option (Z -> Z -> Z)) (valid : Z) : img :=
  match msk with
  | None => im
  | Some m => fun r c => if (m r c =? valid) && (m r (c + 1) =? valid) then im r c else None
  end.
Definition crop (off : Z) (I : img) : img := fun r c => I (r + off) (c + off).

(* ---------------------------------------------------------------- cross_support *)

(* abs(image[p] - image[q]) >= intensity ; image[q] = inf gives inf >= intensity *)
Definition jump (v : Q) (w : option Q) (inten : Q) : bool :=
  match w with
  | Some x => Qle_bool inten (Qabs (v - x))
  | None => true
  end.

(* `for q in cands: if jump: break; len += 1` ; returns (len, value of the loop variable
   after the loop) - the loop variable keeps its initial value when cands is empty *)
Fixpoint arm_scan (line : Z -> option Q) (v inten : Q) (cands : list Z) (len last : Z) : Z * Z :=
  match cands with
  | [] => (len, last)
  | q :: rest => if jump v (line q) inten then (len, q)
                 else arm_scan line v inten rest (len + 1) q
  end.

(* range(start, stop, -1) and range(start, stop) *)
Definition range_dec (start stop : Z) : list Z :=
  map (fun k => start - Z.of_nat k) (seq 0 (Z.to_nat (start - stop))).
Definition range_inc (start stop : Z) : list Z := zrange start (stop - start).

(* arm towards index 0 of a line (left / top):
     left = max(row - 1, 0)            [repaired code; was `left = row`]
     for left in range(row - 1, max(row - len_arms, -1), -1): ...
     cross = max(left_len, 1 * (row >= 1) * isfinite(image[col, left])) *)
Definition arm_dec (line : Z -> option Q) (pos len : Z) (inten v : Q) : Z :=
  let '(l, last) := arm_scan line v inten (range_dec (pos - 1) (Z.max (pos - len) (-1))) 0
                             (Z.max (pos - 1) 0) in
  Z.max l (1 * b2z (1 <=? pos) * b2z (isfin (line last))).
(* arm towards index n-1 of a line (right / bottom):
     right = min(row + 1, n_row_ - 1)  [repaired code; was `right = row`]
     for right in range(row + 1, min(row + len_arms, n_row_)): ...
     cross = max(right_len, 1 * (row < n_row_ - 1) * isfinite(image[col, right])) *)
Definition arm_inc (line : Z -> option Q) (n pos len : Z) (inten v : Q) : Z :=
  let '(l, last) := arm_scan line v inten (range_inc (pos + 1) (Z.min (pos + len) n)) 0
                             (Z.min (pos + 1) (n - 1)) in
  Z.max l (1 * b2z (pos <? n - 1) * b2z (isfin (line last))).

Record arms := mkArms { aL : Z; aR : Z; aT : Z; aB : Z }.
Definition arms0 : arms := mkArms 0 0 0 0.

(* cross_support(image, len_arms, intensity)[r, c, :] for an image of nr x nc *)
Definition cross_support (nr nc : Z) (I : img) (len : Z) (inten : Q) (r c : Z) : arms :=
  match I r c with
  | None => arms0
  | Some v =>
    mkArms (arm_dec (fun k => I r k) c len inten v)
           (arm_inc (fun k => I r k) nc c len inten v)
           (arm_dec (fun k => I k c) r len inten v)
           (arm_inc (fun k => I k c) nr r len inten v)
  end.

(* ---------------------------------------------------------------- one disparity plane *)

Section Plane.
  Variables (nr nc : Z).               (* size of the (cropped) cost volume plane *)
  Variable ncR : Z.                    (* cross_right[i_right].shape[1] *)
  Variables (crossL crossR : Z -> Z -> arms).
  Variable d : Q.                      (* disparity_range[dsp] *)
  Variable cv : Z -> Z -> option Q.    (* cv_data[:, :, dsp] *)

  (* valid_index = where((range_col + d >= 0) & (range_col + d < ncR));
     range_col_right[valid_index].astype(int) *)
  Definition valid_col (c : Z) : bool :=
    Qle_bool 0 (inject_Z c + d) && negb (Qle_bool (inject_Z ncR) (inject_Z c + d)).
  Definition corr (c : Z) : Z := Qfloor (inject_Z c + d).

  (* cbca_step_1, one image row: step1 = zeros(nc + 1);
       step1[c] = step1[c - 1] + (cv[c] if not isnan(cv[c]) else 0)       c = 0 .. nc-1
     with step1[-1] the extra (sentinel) column *)
  Definition step1_row (cvrow : Z -> option Q) : Z -> Q :=
    fold_left (fun a c => updz a c (qadd (a (wrap (nc + 1) (c - 1))) (nz (cvrow c))))
              (zrange 0 nc) (fun _ => 0%Q).
  Definition step1 (r c : Z) : Q := step1_row (cv r) c.

  (* cbca_step_2 on a given step1 array: zeros, written at the valid columns only *)
  Definition h_left (r c : Z) : Z := Z.min (aL (crossL r c)) (aL (crossR r (corr c))).
  Definition h_right (r c : Z) : Z := Z.min (aR (crossL r c)) (aR (crossR r (corr c))).
  Definition v_top (r c : Z) : Z := Z.min (aT (crossL r c)) (aT (crossR r (corr c))).
  Definition v_bot (r c : Z) : Z := Z.min (aB (crossL r c)) (aB (crossR r (corr c))).

  Definition step2 (s1 : Z -> Z -> Q) (r c : Z) : Q :=
    if valid_col c
    then qsub (s1 r (c + h_right r c)) (s1 r (wrap (nc + 1) (c - h_left r c - 1)))
    else 0%Q.
  Definition sum2 (r c : Z) : Z :=
    if valid_col c then h_right r c + h_left r c else 0.

  (* cbca_step_3, one image column: step3 = zeros(nr + 1); step3[0] = step2[0];
       step3[r] = step3[r - 1] + step2[r]        r = 1 .. nr-1 *)
  Definition step3_col (s2col : Z -> Q) : Z -> Q :=
    fold_left (fun a r => updz a r (qadd (a (r - 1)) (s2col r)))
              (zrange 1 (nr - 1)) (updz (fun _ => 0%Q) 0 (s2col 0)).
  Definition step3 (s2 : Z -> Z -> Q) (r c : Z) : Q := step3_col (fun k => s2 k c) r.

  (* cbca_step_4 *)
  Definition step4 (s3 : Z -> Z -> Q) (r c : Z) : Q :=
    if valid_col c
    then qsub (s3 (r + v_bot r c) c) (s3 (wrap (nr + 1) (r - v_top r c - 1)) c)
    else 0%Q.
  (* sum4 = copy(sum2); sum4 += top + bot; if top != 0: += sum(sum2[r - top : r]);
     if bot != 0: += sum(sum2[r + 1 : r + bot + 1]) *)
  Definition sum4 (sm2 : Z -> Z -> Z) (r c : Z) : Z :=
    if valid_col c then
      let top := v_top r c in
      let bot := v_bot r c in
      sm2 r c + (top + bot)
      + (if top =? 0 then 0 else zsum (map (fun k => sm2 k c) (zrange (r - top) top)))
      + (if bot =? 0 then 0 else zsum (map (fun k => sm2 k c) (zrange (r + 1) bot)))
    else sm2 r c.

  (* agg += cv ; agg *= 0   (NaN stays NaN, a finite cost becomes 0) *)
  Definition nan_mask (o : option Q) : option Q :=
    match o with Some _ => Some 0%Q | None => None end.
  Definition oq_add (o : option Q) (x : Q) : option Q :=
    match o with Some a => Some (qadd a x) | None => None end.
  Definition oq_div (o : option Q) (n : Z) : option Q :=
    match o with Some a => Some (Qred (a / inject_Z n)) | None => None end.

  (* the body of the plane loop: tables are allocated exactly where the code allocates
     arrays; out[r][c] = (agg0 + step4) / (sum4 + 1) *)
  Definition plane_out : list (list (option Q)) :=
    let t1 := tabulate nr (nc + 1) step1 in
    let s1 := lookup 0%Q t1 in
    let t2 := tabulate nr nc (step2 s1) in
    let s2 := lookup 0%Q t2 in
    let ts2 := tabulate nr nc sum2 in
    let sm2 := lookup 0 ts2 in
    let t3 := tabulate (nr + 1) nc (step3 s2) in
    let s3 := lookup 0%Q t3 in
    tabulate nr nc (fun r c =>
      oq_div (oq_add (nan_mask (cv r c)) (step4 s3 r c)) (sum4 sm2 r c + 1)).
End Plane.

(* ---------------------------------------------------------------- the whole step *)

Record cbca_in := mkIn {
  i_nr : Z; i_nc : Z;                         (* image size = cost-volume size *)
  i_off : Z;                                  (* cv.attrs["offset_row_col"] *)
  i_subpix : Z;                               (* cv.attrs["subpixel"] *)
  i_dist : Z; i_inten : Q;                    (* cbca_distance, cbca_intensity *)
  i_imL : img; i_mskL : option (Z -> Z -> Z); i_validL : Z;
  i_imR : Z -> img;                           (* shift_right_img(img_right, subpix)[s] *)
  i_mskR : option (Z -> Z -> Z); i_validR : Z;
  i_disps : list Q;                           (* cv.coords["disp"] *)
  i_cv : Z -> Z -> Z -> option Q              (* cost_volume[k][r][c] (plane first) *)
}.

(* number of columns of the s-th shifted right image *)
Definition ncR_full (x : cbca_in) (s : Z) : Z := if s =? 0 then i_nc x else i_nc x - 1.

Definition left_filtered (x : cbca_in) : img :=
  median3 (i_nr x) (i_nc x) (apply_mask (i_imL x) (i_mskL x) (i_validL x)).
Definition right_filtered (x : cbca_in) (s : Z) : img :=
  median3 (i_nr x) (ncR_full x s)
    (if s =? 0 then apply_mask (i_imR x 0) (i_mskR x) (i_validR x)
     else apply_shift_mask (i_imR x s) (i_mskR x) (i_validR x)).

(* i_right = int((disparity % 1) * subpixel) *)
Definition i_right (subpix : Z) (d : Q) : Z :=
  Qfloor ((d - inject_Z (Qfloor d)) * inject_Z subpix).

Definition cnr (x : cbca_in) : Z := i_nr x - 2 * i_off x.
Definition cnc (x : cbca_in) : Z := i_nc x - 2 * i_off x.
Definition cncR (x : cbca_in) (s : Z) : Z := ncR_full x s - 2 * i_off x.

(* computes_cross_supports: tables of the filtered images and of the arms *)
Definition cross_left_table (x : cbca_in) : list (list arms) :=
  let tI := tabulate (i_nr x) (i_nc x) (left_filtered x) in
  let I := crop (i_off x) (lookup None tI) in
  tabulate (cnr x) (cnc x) (cross_support (cnr x) (cnc x) I (i_dist x) (i_inten x)).
Definition cross_right_table (x : cbca_in) (s : Z) : list (list arms) :=
  let tI := tabulate (i_nr x) (ncR_full x s) (right_filtered x s) in
  let I := crop (i_off x) (lookup None tI) in
  tabulate (cnr x) (cncR x s) (cross_support (cnr x) (cncR x s) I (i_dist x) (i_inten x)).

(* cost_volume_aggregation: the loop over the disparity planes writes agg[dsp] only;
   the result is written back into the offset-cropped part of the cost volume *)
Definition cbca_planes (x : cbca_in) : Z -> list (list (option Q)) :=
  let tL := cross_left_table x in
  let tRs := map (cross_right_table x) (zrange 0 (i_subpix x)) in
  let cL := lookup arms0 tL in
  fold_left
    (fun agg kd =>
       let '(k, d) := kd in
       let s := i_right (i_subpix x) d in
       let cR := lookup arms0 (nth (Z.to_nat s) tRs []) in
       updz agg k (plane_out (cnr x) (cnc x) (cncR x s) cL cR d
                             (crop (i_off x) (i_cv x k))))
    (combine (zrange 0 (Z.of_nat (length (i_disps x)))) (i_disps x))
    (fun _ => []).

Definition in_crop (x : cbca_in) (r c : Z) : bool :=
  (i_off x <=? r) && (r <? i_nr x - i_off x) && (i_off x <=? c) && (c <? i_nc x - i_off x).

Definition cbca_volume (x : cbca_in) : list (list (list (option Q))) :=
  let planes := cbca_planes x in
  map (fun k =>
         let p := lookup None (planes k) in
         tabulate (i_nr x) (i_nc x) (fun r c =>
           if in_crop x r c then p (r - i_off x) (c - i_off x) else i_cv x k r c))
      (zrange 0 (Z.of_nat (length (i_disps x)))).
