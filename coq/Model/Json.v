(* JSON values as Pandora's configuration checking sees them (Python objects after
   json.load / update_conf), and the model of check_configuration.update_conf.
   Dictionaries are association lists: key order is observable in Python >= 3.7 and the
   property C05 speaks about the position of keys.  Definitions only (no proofs). *)
From Coq Require Import ZArith QArith List Bool String.
Import ListNotations.
Open Scope Z_scope.

Inductive jv : Type :=
| JInt (z : Z)               (* Python int (not bool) *)
| JFloat (q : Q)             (* finite Python float, as the exact rational it denotes *)
| JNan                       (* float('nan') *)
| JInf (neg : bool)          (* float('inf') / float('-inf') *)
| JStr (s : string)
| JBool (b : bool)
| JNull                      (* None *)
| JList (l : list jv)
| JDict (d : list (string * jv)).

Definition dict := list (string * jv).

(* ---- association lists with Python dict behaviour (first occurrence wins) *)
Fixpoint lookup (k : string) (d : dict) : option jv :=
  match d with
  | [] => None
  | (k', v) :: r => if String.eqb k k' then Some v else lookup k r
  end.

Definition has_key (k : string) (d : dict) : bool :=
  match lookup k d with Some _ => true | None => false end.

(* config[k] = v : replaces in place (position kept) or appends *)
Fixpoint set_key (k : string) (v : jv) (d : dict) : dict :=
  match d with
  | [] => [(k, v)]
  | (k', v') :: r => if String.eqb k k' then (k', v) :: r else (k', v') :: set_key k v r
  end.

Definition keys (d : dict) : list string := map fst d.

Fixpoint mem_str (s : string) (l : list string) : bool :=
  match l with [] => false | x :: r => String.eqb s x || mem_str s r end.

(* ---- update_conf (check_configuration.py): the conversion of the three strings *)
Definition conv_special (v : jv) : jv :=
  match v with
  | JStr s =>
    if String.eqb s "NaN" then JNan
    else if String.eqb s "inf" then JInf false
    else if String.eqb s "-inf" then JInf true
    else v
  | _ => v
  end.

(* the dictionary update_conf merges the user's mapping into: the existing value when it is
   itself a dictionary, an empty one otherwise (no value yet, or a scalar / list / None default:
   the user's mapping then takes its place). *)
Definition merge_base (dv : option jv) : dict :=
  match dv with Some (JDict dd) => dd | _ => [] end.

(* the value stored at config[key] when the user value is [uv] and config.get(key) = [dv].
   The option is kept for the callers; since the repair of update_conf ("recurse only into a
   default that is a Mapping") no case raises any more: Proofs/JsonP.v merge_val_total. *)
Fixpoint merge_val (dv : option jv) (uv : jv) {struct uv} : option jv :=
  match uv with
  | JDict ud =>
    (fix go (l : dict) (acc : dict) {struct l} : option jv :=
       match l with
       | [] => Some (JDict acc)
       | (k, v) :: rest =>
         match merge_val (lookup k acc) v with
         | None => None
         | Some nv => go rest (set_key k nv acc)
         end
       end) ud (merge_base dv)
  | _ => Some (conv_special uv)
  end.

Definition update_conf (def user : dict) : option dict :=
  match merge_val (Some (JDict def)) (JDict user) with
  | Some (JDict d) => Some d
  | _ => None
  end.

(* the same loop, exposed for the proofs *)
Fixpoint merge_items (l : dict) (acc : dict) : option dict :=
  match l with
  | [] => Some acc
  | (k, v) :: rest =>
    match merge_val (lookup k acc) v with
    | None => None
    | Some nv => merge_items rest (set_key k nv acc)
    end
  end.

(* ---- Python types *)
Inductive pytype := TyInt | TyFloat | TyStr | TyBool | TyDict | TyList | TyNone.

(* type(v) is t *)
Definition exact_type (v : jv) (t : pytype) : bool :=
  match v, t with
  | JInt _, TyInt => true
  | (JFloat _ | JNan | JInf _), TyFloat => true
  | JStr _, TyStr => true
  | JBool _, TyBool => true
  | JNull, TyNone => true
  | JList _, TyList => true
  | JDict _, TyDict => true
  | _, _ => false
  end.

(* isinstance(v, t): bool is a subclass of int *)
Definition isinstance (v : jv) (t : pytype) : bool :=
  match v, t with
  | JBool _, TyInt => true
  | _, _ => exact_type v t
  end.

(* ---- structural equality (used to state "unchanged" on the wire) *)
Definition q_eqb (a b : Q) : bool := (Qnum a =? Qnum b) && (Pos.eqb (Qden a) (Qden b)).

Fixpoint jv_eqb (a b : jv) {struct a} : bool :=
  match a, b with
  | JInt x, JInt y => x =? y
  | JFloat x, JFloat y => q_eqb (Qred x) (Qred y)
  | JNan, JNan => true
  | JInf x, JInf y => Bool.eqb x y
  | JStr x, JStr y => String.eqb x y
  | JBool x, JBool y => Bool.eqb x y
  | JNull, JNull => true
  | JList x, JList y =>
    (fix go (l : list jv) (m : list jv) {struct l} : bool :=
       match l, m with
       | [], [] => true
       | u :: l', w :: m' => jv_eqb u w && go l' m'
       | _, _ => false
       end) x y
  | JDict x, JDict y =>
    (fix go (l : dict) (m : dict) {struct l} : bool :=
       match l, m with
       | [], [] => true
       | (k, u) :: l', (k', w) :: m' => String.eqb k k' && jv_eqb u w && go l' m'
       | _, _ => false
       end) x y
  | _, _ => false
  end.
