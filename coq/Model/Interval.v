(* C09 -- the few definitions the interval statements need on top of Model/MatchingCost.v
   (no new model of the cost computation: the volumes are those of C02).

   * [scalar_grids] : img_tools.add_disparity for a [min, max] pair: two grids np.full(shape, min),
     np.full(shape, max);  [with_grids] : the same image pair with other disparity grids.
   * [disp_axis] : cost_volume.coords["disp"] as rationals (get_disparity_range: sample k is
     dmin + k / subpix);  [disparity_interval] : extract_disparity_interval_from_cost_volume,
     coords["disp"].data[[0, -1]] (disparity.py:296-310), stored in disp_map["disparity_interval"].
   * [mvolume] : the masked cost volume of any of the four measures, with a common cell type
     (zncc cells are the exact triples (cov, varL, varR) of the C02 model).
   * [pixel_costs] : the costs of one pixel along the disparity axis, as WinnerTakesAll reads them.
   Definitions only. *)
From Coq Require Import ZArith List Bool QArith Qround.
From Pandora Require Import Lib.Ext Model.MatchingCost.
Import ListNotations.
Open Scope Z_scope.

Definition const_grid (a : Z) : img := fun _ _ => a.

Definition with_grids (inp : mc_input) (g h : img) : mc_input :=
  MkIn (i_ny inp) (i_nx inp) (i_w inp) (i_s inp) (i_L inp) (i_R inp) (i_mL inp) (i_mR inp)
       (i_vp inp) (i_nd inp) g h.

(* add_disparity(dataset, [a, b], window): the scalar interval becomes two constant grids *)
Definition scalar_grids (inp : mc_input) (a b : Z) : mc_input :=
  with_grids inp (const_grid a) (const_grid b).

(* the disparity axis, in disparities (rationals) *)
Definition sample_q (s dmin k : Z) : Q := disp_scaled s dmin k # Z.to_pos s.
Definition disp_axis (s dmin dmax : Z) : list Q :=
  map (sample_q s dmin) (zrange 0 (nb_disp s dmin dmax)).

(* coords["disp"].data[[0, -1]] *)
Definition disparity_interval (axis : list Q) : Q * Q := (nth 0 axis 0%Q, last axis 0%Q).

(* int((disp - dmin) * subpix) and int((disp % 1) * subpix) on exact rationals (both arguments of int()
   are non-negative there, so the truncation is the floor) *)
Definition dsp_float (s dmin : Z) (d : Q) : Z := Qfloor ((d - inject_Z dmin) * inject_Z s).
Definition i_right_float (s : Z) (d : Q) : Z := Qfloor ((d - inject_Z (Qfloor d)) * inject_Z s).

(* ---- one cell type for the four measures *)
Inductive cellv : Type :=
| CQ (q : Q)                      (* sad, ssd, census: the cost *)
| CT (cov vl vr : Z).             (* zncc: (cov, varL, varR) * w^4 of the C02 model *)

Definition ct (t : Z * Z * Z) : cellv := let '(a, b, c) := t in CT a b c.

Definition mvolume (m : measure) (inp : mc_input) (dmin dmax : Z) (r c k : Z) : option cellv :=
  match m with
  | Sad => omap CQ (sad_volume inp dmin dmax r c k)
  | Ssd => omap CQ (ssd_volume inp dmin dmax r c k)
  | Census => omap CQ (census_volume inp dmin dmax r c k)
  | Zncc => omap ct (zncc_volume inp dmin dmax r c k)
  end.

(* the costs of pixel (r, c) along the axis; [val] turns a cell into the number WTA compares
   (for zncc any function of the triple: the theorems hold for every valuation) *)
Definition pixel_costs (val : cellv -> Q) (m : measure) (inp : mc_input) (dmin dmax : Z) (r c : Z) : list cost :=
  map (fun k => omap (fun v => Fin (val v)) (mvolume m inp dmin dmax r c k))
      (zrange 0 (nb_disp (i_s inp) dmin dmax)).

(* ---- state of the disparity products for the last clause of the property: the map and which pixels
   are valid (validity_mask & PANDORA_MSK_PIXEL_INVALID == 0) *)
Record dstate := mkD { d_map : Z -> Z -> option Q; d_valid : Z -> Z -> bool }.
(* right after the disparity step a pixel is valid iff it has a computable cost *)
Definition has_cost (m : measure) (inp : mc_input) (dmin dmax r c : Z) : bool :=
  existsb (fun k => match mvolume m inp dmin dmax r c k with Some _ => true | None => false end)
          (zrange 0 (nb_disp (i_s inp) dmin dmax)).

(* the costs of pixel (r, c) along the axis as the refinement kernel reads them (cv[row, col, :], NaN = None) *)
Definition cost_row (val : cellv -> Q) (m : measure) (inp : mc_input) (dmin dmax : Z) (r c : Z) : list (option Q) :=
  map (fun k => omap val (mvolume m inp dmin dmax r c k)) (zrange 0 (nb_disp (i_s inp) dmin dmax)).
