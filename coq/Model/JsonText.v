(* The JSON text of a configuration: a printer and a parser for the subset of JSON that Pandora
   configurations use, as Python's json module writes / reads it (json.dump in
   common.save_config, json.load in read_config_file):

     null true false            None True False
     NaN Infinity -Infinity     float nan / inf / -inf   (Python's tokens, not RFC 8259)
     -?digits                   int
     -?digits.digits            finite float, printed like repr() when repr() uses no exponent;
                                JFloat q is printable when q is a reduced fraction whose decimal
                                expansion is finite with at most 20 fraction digits
     <quote>chars<quote>        str of printable ASCII without the double quote and the backslash
                                (no escape sequences: the parser REFUSES a backslash)
     [v,...]  {key:v,...}       list, dict in key order

   The printer writes no white space (json.dump(indent=2) differs by white space outside strings
   only); the parser skips blanks, tabs, CR, LF between tokens.  Definitions only. *)
From Coq Require Import ZArith QArith List Bool String Ascii NArith Decimal DecimalString.
From Pandora Require Import Model.Json.
Import ListNotations.
Open Scope string_scope.

Definition code (c : ascii) : N := N_of_ascii c.

Definition is_ws (c : ascii) : bool :=
  let n := code c in (n =? 32)%N || (n =? 10)%N || (n =? 13)%N || (n =? 9)%N.

Definition is_digit (c : ascii) : bool := let n := code c in (48 <=? n)%N && (n <=? 57)%N.

(* characters of the unquoted tokens: letters, digits, + - . *)
Definition atom_char (c : ascii) : bool :=
  let n := code c in
  ((48 <=? n)%N && (n <=? 57)%N) || ((65 <=? n)%N && (n <=? 90)%N) || ((97 <=? n)%N && (n <=? 122)%N)
  || (n =? 43)%N || (n =? 45)%N || (n =? 46)%N.

(* characters json.dump writes unescaped inside a string and the model's parser takes *)
Definition str_char (c : ascii) : bool :=
  let n := code c in (32 <=? n)%N && (n <? 127)%N && negb (n =? 34)%N && negb (n =? 92)%N.

Fixpoint all_chars (p : ascii -> bool) (s : string) : bool :=
  match s with EmptyString => true | String c r => p c && all_chars p r end.

Fixpoint span (p : ascii -> bool) (s : string) : string * string :=
  match s with
  | EmptyString => (EmptyString, EmptyString)
  | String c r => if p c then let (a, b) := span p r in (String c a, b) else (EmptyString, s)
  end.

Fixpoint skip_ws (s : string) : string :=
  match s with
  | String c r => if is_ws c then skip_ws r else s
  | EmptyString => s
  end.

(* ------------------------------------------------------------------ numbers *)

Fixpoint pow10 (k : nat) : Z := match k with O => 1 | S k' => 10 * pow10 k' end.

(* a natural number in decimal, no leading zero (one digit 0 for 0) *)
Definition pn (n : Z) : string := NilEmpty.string_of_uint (N.to_uint (Z.to_N n)).

Definition print_int (z : Z) : string := if (z <? 0)%Z then String "-" (pn (- z)) else pn z.

Definition digit_char (d : Z) : ascii := ascii_of_N (48 + Z.to_N d).

(* n on exactly k digits, leading zeros kept (0 <= n < 10^k) *)
Fixpoint fixw (k : nat) (n : Z) : string :=
  match k with
  | O => EmptyString
  | S k' => String (digit_char (n / pow10 k')) (fixw k' (n mod pow10 k'))
  end.

(* the least k in [k, k + fuel) with den | 10^k *)
Fixpoint find_k (fuel k : nat) (den : Z) : option nat :=
  match fuel with
  | O => None
  | S f => if (pow10 k mod den =? 0)%Z then Some k else find_k f (S k) den
  end.

Definition frac_digits (q : Q) : option nat := find_k 20 1 (Zpos (Qden q)).

Definition print_float (q : Q) : string :=
  match frac_digits q with
  | Some k =>
    let m := (Z.abs (Qnum q) * (pow10 k / Zpos (Qden q)))%Z in
    let body := pn (m / pow10 k) ++ String "." (fixw k (m mod pow10 k)) in
    if (Qnum q <? 0)%Z then String "-" body else body
  | None => EmptyString
  end.

Fixpoint dval (acc : Z) (s : string) : option Z :=
  match s with
  | EmptyString => Some acc
  | String c r => if is_digit c then dval (acc * 10 + (Z.of_N (code c) - 48)) r else None
  end.

(* digits [. digits] *)
Definition num_body (neg : bool) (body : string) : option jv :=
  let sg := fun z : Z => if neg then (- z)%Z else z in
  let '(ip, rest) := span is_digit body in
  match ip with
  | EmptyString => None
  | String c0 ip' =>
    (* JSON: no leading zero in front of another digit *)
    if Ascii.eqb c0 "0" && negb (String.eqb ip' EmptyString) then None else
    match NilEmpty.uint_of_string ip with
    | None => None
    | Some u =>
      let i := Z.of_N (N.of_uint u) in
      match rest with
      | EmptyString => Some (JInt (sg i))
      | String c f =>
        if Ascii.eqb c "." then
          match f with
          | EmptyString => None
          | _ =>
            match dval 0 f with
            | Some fv =>
              let k := String.length f in
              Some (JFloat (Qred (Qmake (sg (i * pow10 k + fv)%Z) (Z.to_pos (pow10 k)))))
            | None => None
            end
          end
        else None
      end
    end
  end.

Definition num_of_token (tok : string) : option jv :=
  match tok with
  | String c r => if Ascii.eqb c "-" then num_body true r else num_body false tok
  | EmptyString => None
  end.

Definition keyword (tok : string) : option jv :=
  if String.eqb tok "null" then Some JNull
  else if String.eqb tok "true" then Some (JBool true)
  else if String.eqb tok "false" then Some (JBool false)
  else if String.eqb tok "NaN" then Some JNan
  else if String.eqb tok "Infinity" then Some (JInf false)
  else if String.eqb tok "-Infinity" then Some (JInf true)
  else None.

Definition atom_of_token (tok : string) : option jv :=
  match num_of_token tok with Some v => Some v | None => keyword tok end.

(* ------------------------------------------------------------------ the printer *)

Definition quote (s : string) : string := String """" (s ++ String """" EmptyString).

Fixpoint print (v : jv) : string :=
  match v with
  | JNull => "null"
  | JBool true => "true"
  | JBool false => "false"
  | JNan => "NaN"
  | JInf false => "Infinity"
  | JInf true => "-Infinity"
  | JInt z => print_int z
  | JFloat q => print_float q
  | JStr s => quote s
  | JList [] => "[]"
  | JList (x :: r) =>
    String "[" (print x ++
      (fix elems (l : list jv) : string :=
         match l with [] => "]" | y :: r' => String "," (print y ++ elems r') end) r)
  | JDict [] => "{}"
  | JDict ((k, x) :: r) =>
    String "{" (quote k ++ String ":" (print x ++
      (fix members (d : list (string * jv)) : string :=
         match d with [] => "}" | (k', y) :: r' => String "," (quote k' ++ String ":" (print y ++ members r')) end) r))
  end.

(* the same loops, named *)
Fixpoint print_elems (l : list jv) : string :=
  match l with [] => "]" | y :: r => String "," (print y ++ print_elems r) end.

Fixpoint print_members (d : list (string * jv)) : string :=
  match d with [] => "}" | (k, y) :: r => String "," (quote k ++ String ":" (print y ++ print_members r)) end.

(* ------------------------------------------------------------------ the subset *)

Definition str_ok (s : string) : bool := all_chars str_char s.

Definition float_ok (q : Q) : bool :=
  q_eqb (Qred q) q && match frac_digits q with Some _ => true | None => false end.

Fixpoint printable (v : jv) : bool :=
  match v with
  | JStr s => str_ok s
  | JFloat q => float_ok q
  | JList l => (fix all (l : list jv) : bool := match l with [] => true | x :: r => printable x && all r end) l
  | JDict d =>
    (fix all (d : list (string * jv)) : bool :=
       match d with [] => true | (k, x) :: r => str_ok k && printable x && all r end) d
  | _ => true
  end.

(* ------------------------------------------------------------------ the parser *)

(* after the opening quote: the characters up to the closing quote; a backslash, a control
   character or the end of the text => None *)
Definition parse_string (s : string) : option (string * string) :=
  let (a, b) := span str_char s in
  match b with
  | String c r => if Ascii.eqb c """" then Some (a, r) else None
  | EmptyString => None
  end.

Fixpoint parse_value (fuel : nat) (s : string) {struct fuel} : option (jv * string) :=
  match fuel with
  | O => None
  | S f =>
    match skip_ws s with
    | EmptyString => None
    | String c r =>
      if Ascii.eqb c "[" then
        match skip_ws r with
        | String c' r' =>
          if Ascii.eqb c' "]" then Some (JList [], r')
          else match parse_elems f r with Some (l, r'') => Some (JList l, r'') | None => None end
        | EmptyString => None
        end
      else if Ascii.eqb c "{" then
        match skip_ws r with
        | String c' r' =>
          if Ascii.eqb c' "}" then Some (JDict [], r')
          else match parse_members f r with Some (d, r'') => Some (JDict d, r'') | None => None end
        | EmptyString => None
        end
      else if Ascii.eqb c """" then
        match parse_string r with Some (x, r') => Some (JStr x, r') | None => None end
      else
        let (tok, r') := span atom_char (String c r) in
        match atom_of_token tok with Some v => Some (v, r') | None => None end
    end
  end

(* a value, then a comma and more, or the closing bracket *)
with parse_elems (fuel : nat) (s : string) {struct fuel} : option (list jv * string) :=
  match fuel with
  | O => None
  | S f =>
    match parse_value f s with
    | Some (x, r) =>
      match skip_ws r with
      | String c r' =>
        if Ascii.eqb c "," then
          match parse_elems f r' with Some (l, r'') => Some (x :: l, r'') | None => None end
        else if Ascii.eqb c "]" then Some ([x], r')
        else None
      | EmptyString => None
      end
    | None => None
    end
  end

(* key : value, then a comma and more, or the closing brace *)
with parse_members (fuel : nat) (s : string) {struct fuel} : option (list (string * jv) * string) :=
  match fuel with
  | O => None
  | S f =>
    match skip_ws s with
    | String q r =>
      if Ascii.eqb q """" then
        match parse_string r with
        | Some (k, r1) =>
          match skip_ws r1 with
          | String c r2 =>
            if Ascii.eqb c ":" then
              match parse_value f r2 with
              | Some (x, r3) =>
                match skip_ws r3 with
                | String c' r' =>
                  if Ascii.eqb c' "," then
                    match parse_members f r' with Some (d, r'') => Some ((k, x) :: d, r'') | None => None end
                  else if Ascii.eqb c' "}" then Some ([(k, x)], r')
                  else None
                | EmptyString => None
                end
              | None => None
              end
            else None
          | EmptyString => None
          end
        | None => None
        end
      else None
    | EmptyString => None
    end
  end.

(* json.loads: one value, then only white space.  The text length bounds the nesting. *)
Definition parse (s : string) : option jv :=
  match parse_value (S (String.length s)) s with
  | Some (v, r) => match skip_ws r with EmptyString => Some v | _ => None end
  | None => None
  end.

(* nodes of a value: what the parser's fuel counts *)
Fixpoint jsize (v : jv) : nat :=
  match v with
  | JList l => S ((fix sum (l : list jv) : nat := match l with [] => O | x :: r => S (jsize x + sum r) end) l)
  | JDict d => S ((fix sum (d : list (string * jv)) : nat := match d with [] => O | (_, x) :: r => S (jsize x + sum r) end) d)
  | _ => 1
  end.
