(* Model of pandora/validation/validation.py, CrossCheckingAccurate.disparity_checking
   (lines 279-362) and of criteria.mask_border (lines 311-319), as the code computes:
   per row, the vectorised selections (valid_pixel, col_right, inside_right, invalid,
   outside_right) are lists of (col_left[k], col_right[k]) pairs, the three flag updates
   are scatter additions over Z, the NaN -> inf substitution is a two-constructor [ext].
   Definitions only (proofs are in Proofs/CrossCheckP.v). *)
From Coq Require Import ZArith QArith Qround Qabs List Bool.
Import ListNotations.
Open Scope Z_scope.

(* pandora/constants.py (re-checked against the repo on every run: Gen/ValConst.v) *)
Definition MSK_INVALID : Z := 963.      (* 0b01111000011 *)
Definition MSK_BORDER : Z := 1.         (* PANDORA_MSK_PIXEL_LEFT_NODATA_OR_BORDER *)
Definition MSK_FILLED_OCCLUSION : Z := 16.
Definition MSK_FILLED_MISMATCH : Z := 32.
Definition MSK_OCCLUSION : Z := 256.
Definition MSK_MISMATCH : Z := 512.

(* np.rint: round half to even, on Q *)
Definition rint (q : Q) : Z :=
  let f := Qfloor q in
  match Qcompare (q - inject_Z f) (1 # 2) with
  | Lt => f
  | Gt => f + 1
  | Eq => if Z.even f then f else f + 1
  end.

(* np.rint(NaN).astype(int) on x86-64 *)
Definition INT_MIN : Z := - 2 ^ 63.

(* a, a+1, ..., a+n-1  (np.arange) *)
Definition zrange (a n : Z) : list Z := map (fun i => a + Z.of_nat i) (seq 0 (Z.to_nat n)).

(* temporary NaN -> +inf substitution *)
Inductive ext := Fin (q : Q) | PInf.
Definition ext_of (o : option Q) : ext := match o with Some q => Fin q | None => PInf end.
Definition eadd (a b : ext) : ext :=
  match a, b with Fin x, Fin y => Fin (x + y) | _, _ => PInf end.
Definition eabs (a : ext) : ext := match a with Fin x => Fin (Qabs x) | PInf => PInf end.
(* a > thr *)
Definition egt (a : ext) (thr : Q) : bool :=
  match a with Fin x => negb (Qle_bool x thr) | PInf => true end.

(* a cell of the float32 confidence band *)
Inductive conf := CNan | CInf | CFin (q : Q).
Definition conf_of_ext (e : ext) : conf := match e with Fin q => CFin q | PInf => CInf end.

(* a[idx] += v, a[idx] = v for index arrays without repetition (here: sub-sequences of arange) *)
Definition scatter_add (m : Z -> Z) (ups : list (Z * Z)) : Z -> Z :=
  fold_left (fun m iv => fun c => if c =? fst iv then m c + snd iv else m c) ups m.
Definition scatter_set {A} (m : Z -> A) (ups : list (Z * A)) : Z -> A :=
  fold_left (fun m iv => fun c => if c =? fst iv then snd iv else m c) ups m.

Section Row.
  Variable fix_out : bool.   (* false: the code before the repair of D2 (`&` in outside_right) *)
  Variable fix_rnd : bool.   (* false: the code before the repair of the rounding (rint(col + d)) *)
  Variable nb_col : Z.
  Variable dL dR : Z -> option Q.   (* row of dataset_left / dataset_right disparity_map *)
  Variable mk : Z -> Z.             (* row of dataset_left validity_mask *)
  Variable thr : Q.
  Variable dmin dmax : Z.           (* int(disparity_min), int(disparity_max) *)

  Definition is_valid (m : Z) : bool := Z.land m MSK_INVALID =? 0.

  (* valid_pixel = np.where((mask & INVALID) == 0); col_left = arange(nb_col)[valid_pixel] *)
  Definition col_left : list Z := filter (fun c => is_valid (mk c)) (zrange 0 nb_col).
  (* col_right = col_left + np.rint(dL[col_left]).astype(int)              [repaired]
     col_right = np.rint(col_left + dL[col_left]).astype(int)              [before]   *)
  Definition col_right_of (c : Z) : Z :=
    if fix_rnd
    then c + match dL c with Some d => rint d | None => INT_MIN end
    else match dL c with Some d => rint (inject_Z c + d) | None => INT_MIN end.
  Definition pairs : list (Z * Z) := map (fun c => (c, col_right_of c)) col_left.

  Definition in_img (q : Z) : bool := (0 <=? q) && (q <? nb_col).
  (* inside_right = np.where((col_right >= 0) & (col_right < nb_col)) *)
  Definition inside_right : list (Z * Z) := filter (fun cq => in_img (snd cq)) pairs.

  (* np.abs(right_disp + left_disp) after NaN -> inf *)
  Definition dist (cq : Z * Z) : ext :=
    eabs (eadd (ext_of (dR (snd cq))) (ext_of (dL (fst cq)))).

  (* conf_measure[row, col_left[inside_right]] = dist ; NaN elsewhere *)
  Definition conf_row : Z -> conf :=
    scatter_set (fun _ => CNan) (map (fun cq => (fst cq, conf_of_ext (dist cq))) inside_right).

  (* invalid = dist > threshold *)
  Definition invalid : list (Z * Z) := filter (fun cq => egt (dist cq) thr) inside_right.

  (* disparity_range = np.arange(int(dmin), int(dmax) + 1) *)
  Definition disparity_range : list Z := zrange dmin (dmax + 1 - dmin).

  (* one cell of comp before the sum: index = d + c; disp_right = inf outside the image,
     else dR[index] (NaN stays NaN); np.rint(disp_right) == -d *)
  Definition hit (c d : Z) : bool :=
    let index := d + c in
    if (0 <=? index) && (index <? nb_col)
    then match dR index with Some v => rint v =? - d | None => false end
    else false.
  (* comp = np.sum(comp, axis=1); comp[comp > 1] = 1 *)
  Definition comp (c : Z) : Z :=
    let s := Z.of_nat (length (filter (hit c) disparity_range)) in
    if 1 <? s then 1 else s.

  (* outside_right = np.where((col_right < 0) | (col_right >= nb_col))   [repaired]
                     np.where((col_right < 0) & (col_right >= nb_col))   [before] *)
  Definition outside_right : list (Z * Z) :=
    filter (fun cq => if fix_out then (snd cq <? 0) || (nb_col <=? snd cq)
                      else (snd cq <? 0) && (nb_col <=? snd cq)) pairs.

  (* the four in-place updates of validity_mask[row, ...] *)
  Definition mask_row : Z -> Z :=
    let m1 := scatter_add mk (map (fun cq => (fst cq, MSK_OCCLUSION)) invalid) in
    let m2 := scatter_add m1 (map (fun cq => (fst cq, MSK_MISMATCH * comp (fst cq))) invalid) in
    let m3 := scatter_add m2 (map (fun cq => (fst cq, - (MSK_OCCLUSION * comp (fst cq)))) invalid) in
    scatter_add m3 (map (fun cq => (fst cq, MSK_OCCLUSION)) outside_right).
End Row.

(* criteria.mask_border: four slice assignments, in the order written *)
Definition mask_border (nr nc off : Z) (m : Z -> Z -> Z) : Z -> Z -> Z :=
  let in_rows r := (0 <=? r) && (r <? nr) in
  let in_cols c := (0 <=? c) && (c <? nc) in
  (* data[:offset, :] *)
  let m1 r c := if in_rows r && in_cols c && (r <? off) then MSK_BORDER else m r c in
  (* data[-offset:, :] *)
  let m2 r c := if in_rows r && in_cols c && (nr - off <=? r) then MSK_BORDER else m1 r c in
  (* data[offset:-offset, :offset] *)
  let m3 r c := if in_rows r && in_cols c && (off <=? r) && (r <? nr - off) && (c <? off)
                then MSK_BORDER else m2 r c in
  (* data[offset:-offset, -offset:] *)
  let m4 r c := if in_rows r && in_cols c && (off <=? r) && (r <? nr - off) && (nc - off <=? c)
                then MSK_BORDER else m3 r c in
  m4.

(* a disparity dataset, as far as the step reads or writes it *)
Record dataset := mkDS {
  ds_nr : Z; ds_nc : Z;
  ds_disp : Z -> Z -> option Q;       (* disparity_map *)
  ds_mask : Z -> Z -> Z;              (* validity_mask *)
  ds_bands : list (Z -> Z -> conf);   (* confidence_measure, one function per indicator *)
  ds_dmin : Z; ds_dmax : Z;           (* disparity_interval *)
  ds_offset : Z                       (* attrs["offset_row_col"] *)
}.

(* disparity_checking(dataset_left, dataset_right): `for row in range(nb_row)`, each
   iteration reads and writes row [row] only; then allocate_confidence_map appends the
   band; then mask_border when offset > 0.  Only ds_disp of [other] is read. *)
Definition xcheck_mask (fix_out fix_rnd : bool) (thr : Q) (me other : dataset) : Z -> Z -> Z :=
  fun r c =>
    if (0 <=? r) && (r <? ds_nr me)
    then mask_row fix_out fix_rnd (ds_nc me) (ds_disp me r) (ds_disp other r) (ds_mask me r) thr
                  (ds_dmin me) (ds_dmax me) c
    else ds_mask me r c.

Definition xcheck_conf (fix_rnd : bool) (me other : dataset) : Z -> Z -> conf :=
  fun r c =>
    if (0 <=? r) && (r <? ds_nr me)
    then conf_row fix_rnd (ds_nc me) (ds_disp me r) (ds_disp other r) (ds_mask me r) c
    else CNan.

Definition xcheck_gen (fix_out fix_rnd : bool) (thr : Q) (me other : dataset) : dataset :=
  let m := xcheck_mask fix_out fix_rnd thr me other in
  mkDS (ds_nr me) (ds_nc me) (ds_disp me)
       (if 0 <? ds_offset me then mask_border (ds_nr me) (ds_nc me) (ds_offset me) m else m)
       (ds_bands me ++ [xcheck_conf fix_rnd me other])
       (ds_dmin me) (ds_dmax me) (ds_offset me).

(* the code under test (both repairs in) and the code as found *)
Definition xcheck := xcheck_gen true true.
Definition xcheck_before := xcheck_gen false false.
