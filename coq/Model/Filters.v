(* C10 -- models of the three filters, mirroring how the code computes
   (pandora/filter/median.py:90-175, bilateral.py:97-252, median_for_intervals.py:122-208,
   pandora/common.py:184-199 sliding_window).  Definitions only.

   A map is a function (row, col) -> option Q (None = NaN) with known extents (ny, nx).
   Disparities are NaN or finite (no +-inf in a disparity map: assumption of the check). *)
From Coq Require Import ZArith QArith Qround List Bool.
From Pandora Require Import Lib.Arr Lib.Blocks.
Import ListNotations.
Open Scope Z_scope.

Definition map2 : Type := Z -> Z -> option Q.

Definition is_none {A : Type} (o : option A) : bool := match o with None => true | Some _ => false end.

(* sliding_window(data, (w, w))[i, j, a, b] = data[i + a, j + b]; the window (i, j), row-major *)
Definition window (data : map2) (w i j : Z) : list (option Q) :=
  flat_map (fun a => map (fun b => data (i + a) (j + b)) (zrange w)) (zrange w).

(* ------------------------------------------------------------------ np.nanmedian *)
Definition non_nan (l : list (option Q)) : list Q :=
  flat_map (fun o : option Q => match o with Some q => [q] | None => [] end) l.

Fixpoint insert (x : Q) (l : list Q) : list Q :=
  match l with
  | [] => [x]
  | y :: r => if Qle_bool x y then x :: l else y :: insert x r
  end.
Fixpoint isort (l : list Q) : list Q :=
  match l with
  | [] => []
  | x :: r => insert x (isort r)
  end.

(* middle of a sorted list: the middle element, or the mean of the two middle elements *)
Definition middle (s : list Q) : Q :=
  let n := length s in
  if Nat.even n then ((nth (n / 2 - 1) s 0 + nth (n / 2) s 0) * (1 # 2))%Q
  else nth (n / 2) s 0%Q.

Definition nanmedian (l : list (option Q)) : option Q :=
  match isort (non_nan l) with
  | [] => None                       (* All-NaN slice: NaN *)
  | s => Some (middle s)
  end.

(* ------------------------------------------------------------------ MedianFilter.median_filter
   (after `fix: median filter on an image smaller than filter_size - 1 ...`: an image smaller than
   the window is returned as it is; before that commit as_strided raised ValueError when
   ny < w - 1 or nx < w - 1) *)
Definition median_filter (B w ny nx : Z) (data : map2) : map2 :=
  if (ny <? w) || (nx <? w) then data                            (* return data_median (= np.copy(data)) *)
  else
    let my := ny - w + 1 in
    let mx := nx - w + 1 in
    let radius := w / 2 in                                      (* int(filter_size / 2) *)
    let data_median :=
      loop2 (fun i j => nanmedian (window data w i j)) B ny nx my mx radius radius data in
    fun r c => if is_none (data r c) then None else data_median r c.   (* [invalid] = nan *)

(* the code as found (before the fix: commit): no early return; sliding_window raised ValueError
   (None) when the image had fewer than w - 1 rows or columns.  Kept for the regression Example. *)
Definition median_filter_before (B w ny nx : Z) (data : map2) : option map2 :=
  let my := ny - w + 1 in
  let mx := nx - w + 1 in
  if (my <? 0) || (mx <? 0) then None
  else
    let radius := w / 2 in
    let data_median :=
      loop2 (fun i j => nanmedian (window data w i j)) B ny nx my mx radius radius data in
    Some (fun r c => if is_none (data r c) then None else data_median r c).

(* MedianFilter.filter_disparity: (disparity map, validity mask) -> the same pair after the call *)
Definition invalid_px (inv m : Z) : bool := negb (Z.land m inv =? 0).

Definition masked_data (inv : Z) (disp : map2) (mask : Z -> Z -> Z) : map2 :=
  fun r c => if invalid_px inv (mask r c) then None else disp r c.

Definition median_filter_disparity (inv B w ny nx : Z) (disp : map2) (mask : Z -> Z -> Z)
  : map2 * (Z -> Z -> Z) :=
  let md := masked_data inv disp mask in
  let med := median_filter B w ny nx md in
  (* disp[valid] = disp_median[valid], valid = isfinite(masked_data) *)
  (fun r c => if is_none (md r c) then disp r c else med r c, mask).

(* ------------------------------------------------------------------ BilateralFilter
   [sk a b] is gauss_spatial_kernel[a, b], [rk x] the normalized gaussian of an intensity
   difference x: both are DATA (computed by the harness with the same numpy calls). *)
(* exact rational addition on the least common denominator (keeps the numbers of the executable
   model small; equal to Qplus as a rational, lemma [qadd_correct]) *)
Definition qadd (x y : Q) : Q :=
  let '(g, (bb, dd)) := Z.ggcd (Zpos (Qden x)) (Zpos (Qden y)) in
  Qmake (Qnum x * dd + Qnum y * bb) (Z.to_pos (Zpos (Qden x) * dd)).
Definition qsum (l : list Q) : Q := fold_right qadd 0%Q l.

(* the (weight, value) pairs of the non-NaN pixels of window (i, j), centre value cv *)
Definition bil_terms (sk : Z -> Z -> Q) (rk : Q -> Q) (data : map2) (win i j : Z) (cv : Q) : list (Q * Q) :=
  flat_map (fun a =>
    flat_map (fun b =>
      match data (i + a) (j + b) with
      | None => []                                             (* NaN weight: ignored by nansum *)
      | Some v => [((sk a b * rk (v - cv))%Q, v)]
      end) (zrange win)) (zrange win).

Definition wmean (terms : list (Q * Q)) : Q :=
  (qsum (map (fun p : Q * Q => fst p * snd p) terms) / qsum (map fst terms))%Q.

Definition bilateral_at (sk : Z -> Z -> Q) (rk : Q -> Q) (data : map2) (win off i j : Z) : option Q :=
  match data (i + off) (j + off) with
  | None => None                      (* every weight is NaN: nansum / nansum = 0 / 0 = NaN *)
  | Some cv => Some (wmean (bil_terms sk rk data win i j cv))
  end.

(* win_width = min(ny, nx, int(3 * sigma_space + 1)); offset = int(win_width / 2) *)
Definition win_width (ny nx : Z) (sigma_space : Q) : Z :=
  Z.min ny (Z.min nx (Qfloor (3 * sigma_space + 1))).

Definition filter_bilateral (B ny nx : Z) (sigma_space : Q) (sk : Z -> Z -> Q) (rk : Q -> Q) (data : map2)
  : map2 :=
  let win := win_width ny nx sigma_space in
  let off := win / 2 in
  let db := loop2 (fun i j => bilateral_at sk rk data win off i j) B ny nx
                  (ny - win + 1) (nx - win + 1) off off data in
  fun r c => if is_none (data r c) then None else db r c.

Definition bilateral_filter_disparity (inv B ny nx : Z) (sigma_space : Q) (sk : Z -> Z -> Q) (rk : Q -> Q)
           (disp : map2) (mask : Z -> Z -> Z) : map2 * (Z -> Z -> Z) :=
  let md := masked_data inv disp mask in
  let fb := filter_bilateral B ny nx sigma_space sk rk md in
  (fun r c => if is_none (md r c) then disp r c else fb r c, mask).

(* ------------------------------------------------------------------ MedianForIntervalsFilter
   the same median_filter on the two interval-bound bands (no validity masking: the NaN of the
   band itself are the invalid pixels); with regularisation, interval_regularization is an
   oracle returning (bound_inf, bound_sup, mask_regularization) and the validity mask gets
   |= bit 11 on mask_regularization. *)
Record mfi_out : Type := mkMfi {
  f_disp : map2; f_inf : map2; f_sup : map2; f_mask : Z -> Z -> Z
}.

Definition mfi_filter_disparity (bit11 B w ny nx : Z)
           (reg : option ((map2 -> map2 -> map2 * map2 * (Z -> Z -> bool))))
           (disp binf bsup : map2) (mask : Z -> Z -> Z) : mfi_out :=
  let i1 := median_filter B w ny nx binf in
  let s1 := median_filter B w ny nx bsup in
  match reg with
  | None => mkMfi disp i1 s1 mask
  | Some oracle =>
    let '(i2, s2, rm) := oracle i1 s1 in
    mkMfi disp i2 s2 (fun r c => if rm r c then Z.lor (mask r c) bit11 else mask r c)
  end.
