(* Model of the cost-volume confidence step of Pandora (property C12):
     pandora/cost_volume_confidence/cost_volume_confidence.py  (allocate_confidence_map)
     pandora/cost_volume_confidence/ambiguity.py               (compute_ambiguity, sampled ambiguity,
                                                                normalize_with_percentile)
     pandora/cost_volume_confidence/risk.py                    (compute_risk)
     pandora/cost_volume_confidence/interval_bounds.py         (compute_interval_bounds)
     pandora/cost_volume_confidence/std_intensity.py + img_tools.compute_std_raster
     pandora/interval_tools.py                                 (interval_regularization)
     pandora/state_machine.py                                  (cost_volume_confidence_run: indicator suffix)

   Conventions: a cost is [option Q] ([None] = NaN); a curve is the list of the
   costs of one pixel over the disparity axis; a volume is rows x cols x curve.
   The eta samples, the possibility threshold, the disparity axis, the
   percentile and the quantile are DATA (exact rationals of the float values
   the implementation uses).  A name is the list of its character codes.
   Definitions only (no proofs) so that the model still runs when a proof breaks. *)
From Coq Require Import String Ascii.
From Coq Require Import ZArith QArith Qabs Qround List Bool.
Import ListNotations.
Open Scope Z_scope.

Definition oq := option Q.
Definition curve := list oq.
Definition volume := list (list curve).

(* ------------------------------------------------------------------ basics *)

Definition Qlt_bool (a b : Q) : bool := negb (Qle_bool b a).
Definition qmin (a b : Q) : Q := if Qle_bool a b then a else b.
Definition qmax (a b : Q) : Q := if Qle_bool a b then b else a.

(* np.nanmin / np.nanmax of a 1-D array: NaN when every entry is NaN *)
Fixpoint nanmin (l : list oq) : oq :=
  match l with
  | [] => None
  | None :: r => nanmin r
  | Some x :: r => match nanmin r with None => Some x | Some m => Some (qmin x m) end
  end.
Fixpoint nanmax (l : list oq) : oq :=
  match l with
  | [] => None
  | None :: r => nanmax r
  | Some x :: r => match nanmax r with None => Some x | Some m => Some (qmax x m) end
  end.

Fixpoint zmin_l (l : list Z) : option Z :=
  match l with
  | [] => None
  | x :: r => match zmin_l r with None => Some x | Some m => Some (Z.min x m) end
  end.
Fixpoint zmax_l (l : list Z) : option Z :=
  match l with
  | [] => None
  | x :: r => match zmax_l r with None => Some x | Some m => Some (Z.max x m) end
  end.

Fixpoint map2 {A B C : Type} (f : A -> B -> C) (la : list A) (lb : list B) : list C :=
  match la, lb with
  | a :: ra, b :: rb => f a b :: map2 f ra rb
  | _, _ => []
  end.

Fixpoint count_true (l : list bool) : Z :=
  match l with [] => 0 | b :: r => (if b then 1 else 0) + count_true r end.

(* np.repeat(l, n) and the "tile" built by repeat/reshape/T/flatten in the kernels *)
Definition repeat_each {A : Type} (n : nat) (l : list A) : list A := flat_map (fun x => repeat x n) l.
Definition tile {A : Type} (n : nat) (l : list A) : list A := concat (repeat l n).

(* the kernels are written for a dissimilarity ("min" measure); for a similarity
   ("max" measure, zncc) ambiguity and risk run on the opposite costs, so that the
   pixel's best cost is the one they take as reference (repaired D11) *)
Definition orient (is_min : bool) (v : volume) : volume :=
  if is_min then v else map (map (map (option_map Qopp))) v.

Definition vol_min (v : volume) : oq := nanmin (concat (concat v)).
Definition vol_max (v : volume) : oq := nanmax (concat (concat v)).

(* (cost - min_cost) / (max_cost - min_cost); only used with mn <> mx (the case
   mn = mx, 0/0 = NaN for every cost, is handled where the maps are built) *)
Definition norm (mn mx x : Q) : Q := ((x - mn) / (mx - mn))%Q.
Definition ncurve (mn mx : Q) (c : curve) : curve := map (option_map (norm mn mx)) c.

Definition znth_error {A : Type} (l : list A) (i : Z) : option A :=
  if i <? 0 then None else nth_error l (Z.to_nat i).

(* ------------------------------------------------------------------ ambiguity *)

(* normalized_cv <= b  after  normalized_cv[isnan] = -inf *)
Definition le_nan (c : oq) (b : Q) : bool :=
  match c with None => true | Some x => Qle_bool x b end.

(* sampled ambiguity of one pixel for one eta (sum over axis 0 of the comparison) *)
Definition samp_amb (nmin : Q) (nc : curve) (eta : Q) : Z :=
  count_true (map (fun x => le_nan x (nmin + eta)%Q) nc).

(* compute_ambiguity, body of the pixel loop: np.sum(repeat(ncv, n_eta) <= nmin + two_dim_etas) *)
Definition amb_pixel (mn mx : Q) (etas : list Q) (c : curve) : Z :=
  match nanmin c with
  | None => Z.of_nat (length etas) * Z.of_nat (length c)
  | Some m =>
    let nmin := norm mn mx m in
    count_true (map2 (fun x e => le_nan x (nmin + e)%Q)
                     (repeat_each (length etas) (ncurve mn mx c))
                     (tile (length c) etas))
  end.

Definition amb_allnan (etas : list Q) (c : curve) : Z := Z.of_nat (length etas) * Z.of_nat (length c).

Definition amb_map (etas : list Q) (v : volume) : list (list Z) :=
  match vol_min v, vol_max v with
  | Some mn, Some mx =>
    if Qeq_bool mn mx then map (map (amb_allnan etas)) v
    else map (map (amb_pixel mn mx etas)) v
  | _, _ => map (map (amb_allnan etas)) v
  end.

(* ---- normalize_with_percentile *)

Fixpoint qinsert (x : Q) (l : list Q) : list Q :=
  match l with
  | [] => [x]
  | y :: r => if Qle_bool x y then x :: l else y :: qinsert x r
  end.
Definition qsort (l : list Q) : list Q := fold_right qinsert [] l.

(* linear-interpolation quantile of a sorted list (np.percentile / np.nanquantile default) *)
Definition quantile_sorted (s : list Q) (q : Q) : oq :=
  match s with
  | [] => None
  | x0 :: _ =>
    let n := Z.of_nat (length s) in
    let pos := (q * inject_Z (n - 1))%Q in
    let i := Qfloor pos in
    let fr := (pos - inject_Z i)%Q in
    let a := nth (Z.to_nat i) s x0 in
    let b := nth (Z.to_nat (Z.min (i + 1) (n - 1))) s x0 in
    Some (a + (b - a) * fr)%Q
  end.

Definition clipq (lo hi x : Q) : Q := qmin (qmax x lo) hi.

Definition fin_min (l : list Q) : oq := nanmin (map Some l).
Definition fin_max (l : list Q) : oq := nanmax (map Some l).

(* [guarded] = the tree carries the zero-range guard (repaired D12): a constant
   clipped map is normalised with divisor 1 instead of 0/0 *)
Definition minmax_scale (guarded : bool) (m : list (list Q)) : list (list oq) :=
  match fin_min (concat m), fin_max (concat m) with
  | Some lo, Some hi =>
    if Qeq_bool hi lo then
      (if guarded then map (map (fun x => Some (x - lo)%Q)) m else map (map (fun _ => None)) m)
    else map (map (fun x => Some ((x - lo) / (hi - lo))%Q)) m
  | _, _ => map (map (fun _ => None)) m
  end.

Definition normalize_percentile (guarded : bool) (p : Q) (amb : list (list Q)) : list (list oq) :=
  let s := qsort (concat amb) in
  match quantile_sorted s (p / 100)%Q, quantile_sorted s ((100 - p) / 100)%Q with
  | Some pmin, Some pmax => minmax_scale guarded (map (map (clipq pmin pmax)) amb)
  | _, _ => map (map (fun _ => None)) amb
  end.

(* confidence_from_ambiguity = 1 - (normalised) ambiguity *)
Definition amb_confidence (guarded normalization is_min : bool) (p : Q) (etas : list Q) (v : volume)
  : list (list oq) :=
  let a := map (map inject_Z) (amb_map etas (orient is_min v)) in
  let n := if normalization then normalize_percentile guarded p a else map (map (@Some Q)) a in
  map (map (option_map (fun x => 1 - x)%Q)) n.

(* ------------------------------------------------------------------ risk *)

(* normalized_cv > b  after  normalized_cv[isnan] = -inf *)
Definition gt_nan (c : oq) (b : Q) : bool :=
  match c with None => false | Some x => Qlt_bool b x end.

(* indices (from i) of the disparities NOT removed by disp_cv[ncv > nmin + eta] = nan *)
Fixpoint kept_from (i : Z) (b : Q) (nc : curve) : list Z :=
  match nc with
  | [] => []
  | c :: r => if gt_nan c b then kept_from (i + 1) b r else i :: kept_from (i + 1) b r
  end.

(* nanmax - nanmin of the kept disparities (NaN when none is kept) *)
Definition spread (l : list Z) : option Z :=
  match zmin_l l, zmax_l l with
  | Some a, Some b => Some (b - a)
  | _, _ => None
  end.

Fixpoint nansum (l : list oq) : Q * Z :=
  match l with
  | [] => (0%Q, 0)
  | None :: r => nansum r
  | Some x :: r => let '(s, n) := nansum r in ((x + s)%Q, n + 1)
  end.
Definition nanmean (l : list oq) : oq :=
  let '(s, n) := nansum l in if n =? 0 then None else Some (s / inject_Z n)%Q.

(* compute_risk, body of the pixel loop: (risk_max, risk_min) *)
Definition risk_pixel (mn mx : Q) (etas : list Q) (c : curve) : oq * oq :=
  match nanmin c with
  | None => (None, None)
  | Some m =>
    let nmin := norm mn mx m in
    let nc := ncurve mn mx c in
    let sp := map (fun e => spread (kept_from 0 (nmin + e)%Q nc)) etas in
    let am := map (samp_amb nmin nc) etas in
    (nanmean (map (option_map inject_Z) sp),
     nanmean (map2 (fun s a => option_map (fun s' => inject_Z (1 + s' - a)) s) sp am))
  end.

Definition risk_map (etas : list Q) (v : volume) : list (list (oq * oq)) :=
  match vol_min v, vol_max v with
  | Some mn, Some mx =>
    if Qeq_bool mn mx then map (map (fun _ => (None, None))) v
    else map (map (risk_pixel mn mx etas)) v
  | _, _ => map (map (fun _ => (None, None))) v
  end.

(* ------------------------------------------------------------------ interval bounds *)

(* possibility = type_factor * norm_cv + 1 - nanmax(type_factor * norm_cv) *)
Definition possibility (tf : Q) (nc : curve) : curve :=
  let t := map (option_map (Qmult tf)) nc in
  match nanmax t with
  | None => map (fun _ => None) nc
  | Some M => map (option_map (fun x => x + 1 - M)%Q) t
  end.

(* possibility >= threshold (False on NaN) *)
Definition ge_nan (p : oq) (thr : Q) : bool :=
  match p with None => false | Some x => Qle_bool thr x end.

Fixpoint sel_from (i : Z) (thr : Q) (ps : curve) : list Z :=
  match ps with
  | [] => []
  | p :: r => if ge_nan p thr then i :: sel_from (i + 1) thr r else sel_from (i + 1) thr r
  end.

Definition is_one (p : option oq) : bool :=
  match p with Some (Some x) => Qeq_bool x 1 | _ => false end.

(* indices (after the +-1 widening) of the interval of one pixel; None = all-NaN mask *)
Definition bounds_idx (mn mx tf thr : Q) (c : curve) : option (Z * Z) :=
  let ps := possibility tf (ncurve mn mx c) in
  let sel := sel_from 0 thr ps in
  match zmin_l sel, zmax_l sel with
  | Some lo, Some hi =>
    let n := Z.of_nat (length c) in
    let lo' := if is_one (znth_error ps lo) then Z.max 0 (lo - 1) else lo in
    let hi' := if is_one (znth_error ps hi) then Z.min (n - 1) (hi + 1) else hi in
    Some (lo', hi')
  | _, _ => None
  end.

Definition bounds_pixel (mn mx tf thr : Q) (disps : list Q) (c : curve) : oq * oq :=
  match bounds_idx mn mx tf thr c with
  | Some (lo, hi) => (znth_error disps lo, znth_error disps hi)
  | None => (None, None)
  end.

Definition bounds_map (tf thr : Q) (disps : list Q) (v : volume) : list (list (oq * oq)) :=
  match vol_min v, vol_max v with
  | Some mn, Some mx =>
    if Qeq_bool mn mx then map (map (fun _ => (None, None))) v
    else map (map (bounds_pixel mn mx tf thr disps)) v
  | _, _ => map (map (fun _ => (None, None))) v
  end.

(* ------------------------------------------------------------------ winner takes all
   (disparity.py: NaN -> +-inf, argmin / argmax, first occurrence) *)

Fixpoint first_idx (i : Z) (f : oq -> bool) (c : curve) : option Z :=
  match c with
  | [] => None
  | x :: r => if f x then Some i else first_idx (i + 1) f r
  end.

Definition is_le (m : Q) (x : oq) : bool := match x with Some y => Qle_bool y m | None => false end.
Definition is_ge (m : Q) (x : oq) : bool := match x with Some y => Qle_bool m y | None => false end.

Definition wta_min (c : curve) : option Z :=
  match nanmin c with None => None | Some m => first_idx 0 (is_le m) c end.
Definition wta_max (c : curve) : option Z :=
  match nanmax c with None => None | Some m => first_idx 0 (is_ge m) c end.
(* type_factor -1 <-> "min" measure, +1 <-> "max" measure *)
Definition wta (is_min : bool) (c : curve) : option Z := if is_min then wta_min c else wta_max c.
Definition type_factor (is_min : bool) : Q := if is_min then (-1)%Q else 1%Q.

(* ------------------------------------------------------------------ band bookkeeping *)

Definition codes (s : string) : list Z := map (fun a => Z.of_N (N_of_ascii a)) (list_ascii_of_string s).
Definition name := list Z.

(* Python's str.split(".") on a list of character codes *)
Fixpoint split_dot (l : list Z) : list (list Z) :=
  match l with
  | [] => [[]]
  | x :: r =>
    if x =? 46 then [] :: split_dot r
    else match split_dot r with h :: t => (x :: h) :: t | [] => [[x]] end
  end.

(* state_machine.cost_volume_confidence_run: "." + second component when the
   step name has exactly two components, "" otherwise *)
Definition suffix_of_step (step : name) : name :=
  match split_dot step with
  | [_; s] => 46 :: s
  | _ => []
  end.

Inductive method := Amb | Risk | Bounds | Std.

(* the indicator names handed to allocate_confidence_map, in call order *)
Definition method_names (m : method) (suffix : name) : list name :=
  match m with
  | Amb => [codes "ambiguity" ++ suffix]
  | Risk => [codes "risk_max" ++ suffix; codes "risk_min" ++ suffix]
  | Bounds => [codes "interval_bounds_inf" ++ suffix; codes "interval_bounds_sup" ++ suffix]
  | Std => [codes "intensity_std" ++ suffix]
  end.

Section Bands.
  Variable B : Type.                         (* a 2-D band *)
  Definition bandlist := list (name * B).
  (* a dataset as far as confidence is concerned: None = the dataset is None;
     Some None = no "confidence_measure" variable; Some (Some l) = its bands in order *)
  Definition dsbands := option (option bandlist).

  (* allocate_confidence_map *)
  Definition alloc (nm : name) (b : B) (st : dsbands * dsbands) : dsbands * dsbands :=
    let '(disp, cv) := st in
    let full := codes "confidence_from_" ++ nm in
    let cv' := match cv with
               | None => None
               | Some None => Some (Some [(full, b)])
               | Some (Some l) => Some (Some (l ++ [(full, b)]))
               end in
    let disp' := match disp with
                 | None => None
                 | Some (Some l) => Some (Some (l ++ [(full, b)]))
                 | Some None => match cv' with
                                | Some bl => Some bl          (* disp adopts the cost volume's bands *)
                                | None => Some (Some [(full, b)])
                                end
                 end in
    (disp', cv').

  (* one cost_volume_confidence step: its bands are allocated one after the other *)
  Definition conf_step (step : name) (m : method) (news : list B) (st : dsbands * dsbands)
    : dsbands * dsbands :=
    fold_left (fun s nb => alloc (fst nb) (snd nb) s)
              (combine (method_names m (suffix_of_step step)) news) st.
End Bands.
Arguments alloc {B}.
Arguments conf_step {B}.

(* ------------------------------------------------------------------ regularisation
   interval_tools.interval_regularization; the ambiguity band is finite here *)

Definition qmin_list (d : Q) (l : list Q) : Q :=
  match l with [] => d | x :: r => fold_left qmin r x end.

(* nanmin over the sliding window of size k of the row padded with k//2 ones on each side *)
Definition row_kernel_min (k : Z) (row : list Q) : list Q :=
  let pad := Z.to_nat (k / 2) in
  let padded := repeat 1%Q pad ++ row ++ repeat 1%Q pad in
  map (fun j => qmin_list 1%Q (firstn (Z.to_nat k) (skipn j padded))) (seq 0 (length row)).

Definition set_last (x : Q) (l : list Q) : list Q :=
  match l with [] => [] | _ => removelast l ++ [x] end.

(* segments (left, right) of one row: maximal runs with minimized confidence < threshold *)
Fixpoint segs_row (c : Z) (start : option Z) (low : list bool) : list (Z * Z) :=
  match low with
  | [] => []          (* a run open at the end has no right border (cannot happen: last column is 1) *)
  | b :: r =>
    match start, b with
    | None, true => segs_row (c + 1) (Some c) r
    | None, false => segs_row (c + 1) None r
    | Some s, true => segs_row (c + 1) (Some s) r
    | Some s, false => (s, c - 1) :: segs_row (c + 1) None r
    end
  end.

Record seg := mkSeg { sg_row : Z; sg_l : Z; sg_r : Z }.

Fixpoint segs_rows (r : Z) (rows : list (list bool)) : list seg :=
  match rows with
  | [] => []
  | low :: rest => map (fun lr => mkSeg r (fst lr) (snd lr)) (segs_row 0 None low) ++ segs_rows (r + 1) rest
  end.

Definition segments (amb : list (list Q)) (thr : Q) (k : Z) : list seg :=
  segs_rows 0 (map (fun row => map (fun m => negb (Qle_bool thr m)) (set_last 1%Q (row_kernel_min k row))) amb).

(* direct connection written by create_connected_graph (symmetric) *)
Definition below (a b : seg) : bool :=
  (sg_row b =? sg_row a + 1) && (sg_l b <=? sg_r a) && (sg_r b >=? sg_l a).
Definition connected (a b : seg) : bool := below a b || below b a.

Definition conn_row (ss : list seg) (a : seg) : list bool := map (connected a) ss.

(* one round: list_lines[j] |= any(connection_graph[list_lines, j]) *)
Definition expand (ss : list seg) (lines : list bool) : list bool :=
  map2 (fun b old => old || existsb (fun pl => fst pl && connected (snd pl) b) (combine lines ss)) ss lines.

Fixpoint set_nth_true (i : nat) (l : list bool) : list bool :=
  match i, l with
  | _, [] => []
  | O, _ :: r => true :: r
  | S i', b :: r => b :: set_nth_true i' r
  end.

Definition agg_row (ss : list seg) (depth : Z) (i : nat) (a : seg) : list bool :=
  if depth =? 0 then set_nth_true i (map (fun _ => false) ss)
  else set_nth_true i (Nat.iter (Z.to_nat (depth - 1)) (expand ss) (conn_row ss a)).

Definition slice {A : Type} (l r : Z) (row : list A) : list A :=
  firstn (Z.to_nat (r - l + 1)) (skipn (Z.to_nat l) row).

Definition seg_values (m : list (list oq)) (s : seg) : list oq :=
  slice (sg_l s) (sg_r s) (nth (Z.to_nat (sg_row s)) m []).

Fixpoint finite (l : list oq) : list Q :=
  match l with [] => [] | Some x :: r => x :: finite r | None :: r => finite r end.

Definition nanquantile (l : list oq) (q : Q) : oq := quantile_sorted (qsort (finite l)) q.

Definition members (ss : list seg) (row : list bool) : list seg :=
  map snd (filter fst (combine row ss)).

(* (segment, new inf, new sup) for every segment *)
Fixpoint enumerate {A : Type} (i : nat) (l : list A) : list (nat * A) :=
  match l with [] => [] | x :: r => (i, x) :: enumerate (S i) r end.

Definition seg_updates (inf sup : list (list oq)) (ss : list seg) (depth : Z) (q : Q)
  : list (seg * (oq * oq)) :=
  map (fun ia =>
         let mem := members ss (agg_row ss depth (fst ia) (snd ia)) in
         (snd ia,
          (nanquantile (flat_map (seg_values inf) mem) (1 - q)%Q,
           nanquantile (flat_map (seg_values sup) mem) q)))
      (enumerate 0 ss).

Definition in_seg (r c : Z) (s : seg) : bool := (sg_row s =? r) && (sg_l s <=? c) && (c <=? sg_r s).

Definition apply_updates (ups : list (seg * (oq * oq))) (pick : oq * oq -> oq) (m : list (list oq))
  : list (list oq) :=
  map (fun rrow =>
         map (fun cx =>
                match find (fun u => in_seg (Z.of_nat (fst rrow)) (Z.of_nat (fst cx)) (fst u)) ups with
                | Some u => pick (snd u)
                | None => snd cx
                end)
             (enumerate 0 (snd rrow)))
      (enumerate 0 m).

Definition regularize (inf sup : list (list oq)) (amb : list (list Q)) (thr : Q) (k depth : Z) (q : Q)
  : list (list oq) * list (list oq) :=
  let ss := segments amb thr k in
  let ups := seg_updates inf sup ss depth q in
  (apply_updates ups fst inf, apply_updates ups snd sup).

(* ------------------------------------------------------------------ std intensity
   img_tools.compute_mean_raster / compute_std_raster: window sums by cumulative sums.
   The model returns the VARIANCE (the square root is not rational); the image is finite. *)

Fixpoint cumsum_from (acc : Q) (l : list Q) : list Q :=
  match l with [] => [] | x :: r => (acc + x)%Q :: cumsum_from (acc + x)%Q r end.
(* r[w:] - r[:-w] on the cumulative sums preceded by a zero *)
Definition winsum (w : nat) (l : list Q) : list Q :=
  let cs := 0%Q :: cumsum_from 0%Q l in map2 Qminus (skipn w cs) cs.

Fixpoint transpose_n (n : nat) (m : list (list Q)) : list (list Q) :=
  match n with
  | O => []
  | S n' => map (fun r => hd 0%Q r) m :: transpose_n n' (map (@tl Q) m)
  end.
Definition transpose (m : list (list Q)) : list (list Q) :=
  transpose_n (length (hd [] m)) m.

Definition box_sum (w : nat) (img : list (list Q)) : list (list Q) :=
  map (winsum w) (transpose (map (winsum w) (transpose img))).

Definition var_raster (w : Z) (img : list (list Q)) : list (list Q) :=
  let wn := Z.to_nat w in
  let ww := inject_Z (w * w) in
  let m1 := box_sum wn img in
  let m2 := box_sum wn (map (map (fun x => x * x)%Q) img) in
  map2 (map2 (fun a b => (b / ww - (a / ww) * (a / ww))%Q)) m1 m2.

(* compute_std_raster, end: var[var < 10**(-15) * abs(mean_power_two)] = 0 ("avoid very small
   values"); [eps] is the float 10**(-15) given as data.  a = window sum, b = window sum of squares *)
Definition var_cell (eps ww a b : Q) : Q :=
  let m2 := (b / ww)%Q in
  let v := (m2 - (a / ww) * (a / ww))%Q in
  if Qlt_bool v (eps * Qabs m2)%Q then 0%Q else v.

Definition var_raster_z (eps : Q) (w : Z) (img : list (list Q)) : list (list Q) :=
  let wn := Z.to_nat w in
  let ww := inject_Z (w * w) in
  let m1 := box_sum wn img in
  let m2 := box_sum wn (map (map (fun x => x * x)%Q) img) in
  map2 (map2 (var_cell eps ww)) m1 m2.

(* np.nancumsum of the first pass (and of the first pass over the squares, NaN**2 = NaN):
   a NaN pixel of the image counts as 0 *)
Definition nan0 (x : oq) : Q := match x with Some q => q | None => 0%Q end.

(* StdIntensity.confidence_prediction for an odd window w (the matching-cost schema refuses the
   others): a band of NaN of the size of the image in which the (nr-w+1) x (nc-w+1) raster is
   written at [off:-off, off:-off], off = int((w - 1) / 2) (the whole band when off = 0).
   The band holds the VARIANCE (the model does not take the square root). *)
Definition std_band (eps : Q) (w : Z) (img : list (list oq)) : list (list oq) :=
  let off := Z.to_nat ((w - 1) / 2) in
  let var := var_raster_z eps w (map (map nan0) img) in
  map (fun ir =>
         map (fun jx =>
                if (off <=? fst ir)%nat && (off <=? fst jx)%nat then
                  match nth_error var (fst ir - off) with
                  | Some vrow => nth_error vrow (fst jx - off)
                  | None => None
                  end
                else None)
             (enumerate 0 (snd ir)))
      (enumerate 0 img).
