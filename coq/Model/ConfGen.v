(* C12: the confidence kernels regenerated from the Python source (Gen/ConfKernels.v, numpy semantics
   Lib/NpVec.v) called the way the Python methods call them, and the embedding of the hand-written
   model's values (Model/Confidence.v: a cost is [option Q], None = NaN) into the kernels' floats.

     gamb_pixel / gsamp_pixel / grisk_pixel / gbounds_pixel : the generated body of the (row, col) loop
       nest on one pixel's curve, with the prelude variables at the values the prelude gives them on a
       volume whose finite extrema are mn and mx (two_dim_etas = the eta samples tiled nb_disps times:
       proved of the generated prelude in Proofs/ConfGenP.v, gen_two_dim_etas); risk is handed the
       sampled ambiguity computed by the generated compute_ambiguity_and_sampled_ambiguity, as
       Risk.confidence_prediction does (call site checked by the translator);
     np.argsort is a parameter: any function that returns exactly the indices of its argument
       ([argsort_ok]; every permutation of the indices does).

   Definitions only; the proofs are in Proofs/ConfGenP.v. *)
From Coq Require Import ZArith QArith List Bool.
From Pandora Require Import Lib.NpVec Model.Confidence.
From Pandora Require Gen.ConfKernels.
Import ListNotations.
Open Scope Z_scope.

Module G := Pandora.Gen.ConfKernels.

Definition of_oq (o : option Q) : xf := match o with Some q => XFin q | None => XNaN end.
Definition xcurve (c : curve) : vec := map of_oq c.
Definition xvolume (v : volume) : vol := map (map xcurve) v.
Definition xetas (etas : list Q) : vec := map XFin etas.

(* equality of floats up to the representation of the rational *)
Definition xeq (a b : xf) : Prop :=
  match a, b with
  | XFin x, XFin y => (x == y)%Q
  | XMInf, XMInf => True
  | XPInf, XPInf => True
  | XNaN, XNaN => True
  | _, _ => False
  end.

(* the value of the prelude variable two_dim_etas for nd disparities *)
Definition two_dim (nd : nat) (etas : list Q) : vec := xetas (tile nd etas).

Definition gamb_pixel (mn mx : Q) (etas : list Q) (c : curve) : option xf :=
  G.compute_ambiguity_pixel (XFin mn) (XFin mx) (vlen c) (xetas etas) (two_dim (length c) etas) (xcurve c) (XFin 0).

Definition gsamp_pixel (mn mx : Q) (etas : list Q) (c : curve) : option (xf * vec) :=
  G.compute_ambiguity_and_sampled_ambiguity_pixel (XFin mn) (XFin mx) (vlen c) (xetas etas)
    (two_dim (length c) etas) (xcurve c) (XFin 0) (np_zeros (vlen (xetas etas))).

Definition grisk_pixel (mn mx : Q) (etas : list Q) (c : curve) : option (xf * xf) :=
  match gsamp_pixel mn mx etas c with
  | Some (_, sampled) =>
      G.compute_risk_pixel (XFin mn) (XFin mx) (vlen c) (xetas etas) (two_dim (length c) etas) (xcurve c)
                           sampled (XFin 0) (XFin 0)
  | None => None
  end.

Definition argsort_ok (argsort : vec -> ivec) : Prop := forall v j, In j (argsort v) <-> 0 <= j < vlen v.

Definition gbounds_pixel (argsort : vec -> ivec) (mn mx tf thr : Q) (disps : list Q) (c : curve) : option (xf * xf) :=
  G.compute_interval_bounds_pixel argsort (xetas disps) (XFin thr) (XFin tf) (XFin mn) (XFin mx) (vlen c)
                                  (xcurve c) (xofz 0) (xofz 0).

(* the sampled ambiguity of one pixel in the model: per eta the number of costs within eta of the best;
   the number of disparities for an all-NaN curve *)
Definition samp_pixel (mn mx : Q) (etas : list Q) (c : curve) : list Z :=
  match nanmin c with
  | None => map (fun _ => Z.of_nat (length c)) etas
  | Some m => map (samp_amb (norm mn mx m) (ncurve mn mx c)) etas
  end.

(* ---- whole kernels (prelude + loop nest) on a volume of the model *)

(* every curve has nd entries (the first pixel too, from which cv.shape is read) *)
Definition vol_shape (nd : nat) (v : volume) : Prop :=
  length (hd [] (hd [] v)) = nd /\ forall row c, In row v -> In c row -> length c = nd.

(* Risk.confidence_prediction: compute_risk is handed the sampled ambiguity returned by
   compute_ambiguity_and_sampled_ambiguity on the same (oriented) cost volume *)
Definition grisk_map (v : volume) (etas : list Q) : option (list (list (xf * xf))) :=
  match G.compute_ambiguity_and_sampled_ambiguity (xvolume v) (xetas etas) with
  | Some M => G.compute_risk (xvolume v) (map (map snd) M) (xetas etas)
  | None => None
  end.

Definition xpair (p : oq * oq) : xf * xf := (of_oq (fst p), of_oq (snd p)).
Definition xeq2 (a b : xf * xf) : Prop := xeq (fst a) (fst b) /\ xeq (snd a) (snd b).

(* ---- normalize_with_percentile: np.percentile is a parameter of the generated function; its contract is numpy's
   default method, linear interpolation between the order statistics (the model's [quantile_sorted]) *)
Definition percentile_ok (pctl : mat2 -> xf -> xf) : Prop :=
  forall (amb : list (list Q)) q,
    pctl (map (map XFin) amb) (XFin q) = of_oq (quantile_sorted (qsort (concat amb)) (q / 100)).
